import Hcl.Proofs.Stage3

/-! Step 2 of `Program::new` (`resolve_constants`): every resolved constant fits its width. -/

theorem constOK_insert (res : AMap WireValue) (k : String) (v : WireValue) (h : ConstOK res)
    (hv : v.width.ok ∧ v.bits < v.width.card) : ConstOK (res.insert k v) := by
  intro n x hx
  rw [AMap.get?_insert] at hx
  split at hx
  · cases hx; exact hv
  · exact h n x hx

theorem resolveLoop_constOK (fl : Flags) (exprs : AMap Ex) (hwf : ∀ p ∈ exprs, wfEx p.2 = true) :
    ∀ (names : List String) (res : AMap WireValue) (errs : List Diag), ConstOK res →
      ConstOK (resolveLoop fl exprs names res errs).1
  | [], res, errs, h => h
  | name :: rest, res, errs, h => by
    unfold resolveLoop
    cases hg : exprs.get? name with
    | none => exact h
    | some e =>
      simp only
      cases hc : checkFixEval fl (AMap.toCtx (res.map (fun p => (p.1, p.2.width)))) res.toEnv e with
      | error ds => exact resolveLoop_constOK fl exprs hwf rest res _ h
      | ok v =>
        simp only
        apply resolveLoop_constOK fl exprs hwf rest _ _
        apply constOK_insert res name v h
        obtain ⟨c1, c2⟩ := constCtx_ok res h
        exact checkFixEval_ok fl _ _ e v c1 (c2 _) (hwf (name, e) (AMap.mem_of_get? _ _ _ hg)) hc

theorem resolveConstants_constOK (fl : Flags) (o : Orders) (exprs : AMap Ex) (constants : AMap WireValue)
    (hwf : ∀ p ∈ exprs, wfEx p.2 = true) (h : resolveConstants fl o exprs = .ok constants) : ConstOK constants := by
  unfold resolveConstants at h
  split at h
  · rename_i sorted _
    simp only at h
    have := resolveLoop_constOK fl exprs hwf sorted [] [] (by intro k v hv; simp [AMap.get?] at hv)
    split at h
    · simp only [Except.ok.injEq] at h
      rw [← h]
      intro n x hx
      rw [canonConsts_get?] at hx
      split at hx
      · exact this n x hx
      · cases hx
    · simp at h
  · simp at h
  · simp at h
