"""C08 — acceptance is decided exactly by the documented width rules."""
from props import C19
from props.common_prog import judge_prog

THEOREM_MODULES = ["Hcl.Theorems.C08", "Hcl.Tie.Ops", "Hcl.Tie.Grammar", "Hcl.Tie.PinsCheck", "Hcl.Theorems.C09Exact", "Hcl.Theorems.C08Spec"]
THEOREMS = {"Hcl.Theorems.C08Spec": ["C08_spec_accepts_sound", "C08_spec_accepts_complete", "C08_spec_faults_iff_accepted", "accepted_design_tables", "SF.cyclicNodes_nil_iff", "SF.faults_nil_iff"],
            "Hcl.Theorems.C09Exact": ["C09_accepted_iff_faultless", "C09_faultless_accepted", "C09_accepted_faultless", "C08_constants_exact", "C09_names_exact", "C09_banks_exact", "C09_actions_exact", "Program_new_ok_iff", "Program_new_complete", "step1_gate_nil_iff", "resolveConstants_ok_iff", "resolveConstants_table", "step3Of_errors_nil_iff", "assignmentsToActions_complete", "assignmentsToActions_ok_iff"],
            "Hcl.Theorems.C08": ["C08_accepted_defaults", "C08_accepted_defaults_stmt", "step3_rule", "step1Of_banksRaw", "C08_accept_iff_rules", "C08_reject_iff_rule_violated", "C08_target_rule",
                                 "C08_width_is_semantic_width", "C08_accepted", "C08_accepted_constants", "assignmentsToActions_rules", "resolveConstants_rules", "check_eq_typeOf", "checkOpts_eq", "checkItems_eq"],
            "Hcl.Tie.Ops": ["Tie.Ops.binopKind", "Tie.Ops.combineText", "Tie.Ops.maxText", "Tie.Ops.defaultFeatures",
                            "Tie.Ops.strictnessConsts"],
            "Hcl.Tie.Grammar": ["Tie.Grammar.grammarBounds"],
            "Hcl.Tie.PinsCheck": ["Tie.PinsCheck.pinGetWidthAndCheck", "Tie.PinsCheck.pinFixMuxWidths", "Tie.PinsCheck.pinEvaluate"]}

RULE = ("S-EXPR well-typed stream plus its mutation stream: one randomly chosen sub-expression of a type-directed expression "
        "(every operator, depth 1-5, four kinds of assignment context through S-PROG) is generated at a perturbed width "
        "(+-1, unsized, another width from the boundary set {0,1,...,63,64,65,...,127,128}), so that each rule is violated "
        "at every nesting depth and at its boundaries (hi = width vs width+1, total 128 vs 129, width 128); constants and "
        "register defaults are covered by S-PROG. Compared: accept/reject and the multiset of diagnostic kinds with the "
        "Lean model; accept/reject with Spec.typeOf/Spec.faults (oracle). distinct = program texts; non-trivial = all.")


def judge(req, impl, model, spec):
    return judge_prog(req, impl, model, spec)


def streams(tier, seed):
    q = tier == "quick"
    return [{"name": "expr-mutated", "stream": "expr-mutated", "count": 6000 if q else 300000, "judge": judge},
            {"name": "expr", "stream": "expr", "count": 1500 if q else 50000, "judge": judge},
            {"name": "prog-banks", "stream": "prog", "count": 150 if q else 5000, "extra": ("banks",), "judge": judge},
            # the same through FILES and the command line (accepted, rejected, big, not UTF-8, bare-CR, empty and malformed images, -q/-d/-t with and without TIMEOUT): the real binary, as in C19
            {"name": "cli", "stream": "cli", "count": 300 if q else 8000, "pygen": C19.pygen, "judge": C19.judge}]
