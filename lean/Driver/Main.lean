import Hcl.Util.SExp
import Hcl.Graph.TopoSort
import Hcl.Model.GraphExec

/-! Line-protocol driver: one request S-expression per input line, one answer line per request.
    Answer format: `M <model result> ;; S <spec result>`. -/

open SExp

def atoms (l : List SExp) : List String := l.filterMap SExp.atom?

def pairList (l : List SExp) : List (String × String) :=
  l.filterMap fun e => match e with
    | .list [.atom a, .atom b] => some (a, b)
    | _ => none

def keyed (l : List SExp) : List (String × List String) :=
  l.filterMap fun e => match e with
    | .list (.atom a :: rest) => some (a, atoms rest)
    | _ => none

def field (fields : List SExp) (name : String) : List SExp :=
  match fields.find? (fun f => match f with | .list (.atom t :: _) => t == name | _ => false) with
  | some (.list (_ :: rest)) => rest
  | _ => []

def showResult : SortResult → String
  | .ok order => "ok " ++ " ".intercalate order
  | .cycle c => "cycle " ++ " ".intercalate c
  | .panic => "panic"

def handleGraph (fields : List SExp) : String :=
  let r : GraphExec.Request :=
    { nodes := atoms (field fields "nodes"), edges := pairList (field fields "edges"),
      kNodes := atoms (field fields "knodes"), kOut := keyed (field fields "kout"),
      dNodes := atoms (field fields "dnodes"), dOut := keyed (field fields "dout") }
  let res := topologicalSort r.kgraph r.dgraph
  let cyc := GraphExec.isCyclic r.nodes r.edges
  let implOk := match field fields "impl" with
    | .atom "ok" :: rest => !cyc && GraphExec.validOrder r.nodes r.edges (atoms rest)
    | .atom "cycle" :: rest => cyc && GraphExec.validCycle r.edges (atoms rest)
    | _ => false
  s!"M {showResult res} ;; S {if cyc then "cyclic" else "acyclic"} {if implOk then "impl-valid" else "impl-invalid"}"

def handle (line : String) : String :=
  match SExp.parse line with
  | none => "bad-request unparsable"
  | some e =>
    match e.tagged? with
    | some ("graph", fields) => handleGraph fields
    | some (t, _) => s!"bad-request unknown-tag {t}"
    | none => "bad-request no-tag"

partial def loop (h : IO.FS.Stream) (out : IO.FS.Stream) : IO Unit := do
  let line ← h.getLine
  if line.isEmpty then return ()
  out.putStrLn (handle line)
  loop h out

def main : IO Unit := do
  let out ← IO.getStdout
  loop (← IO.getStdin) out
