import Hcl.Theorems.C01
import Hcl.Proofs.Stage3
import Hcl.Proofs.EvalCorrect
import Hcl.Model.Step
open Rust

/-!
# C02 — expression operators compute the HCL-defined function at every width

`Spec.dv`/`Spec.sw` (Hcl/Spec/Denote.lean) are the value and width the language defines, in plain
arithmetic.  `ev`, `check`, `fixMux`, `execAction` model `evaluate`, `get_width_and_check`,
`fix_mux_widths` and the `Action::Assign` arm of `step_with_output`.
-/

/-- **C02, expressions.**  For every setting of the strictness flags, every context of declared
    widths (each at most 128), every valuation of the wires conforming to it, and every expression
    the checker accepts at width `w` (all operators, all nestings): evaluation yields exactly the
    specified value at exactly the specified width, and reports division by zero exactly when the
    specification says a zero divisor is evaluated.  No other outcome (panic, run-time width error,
    undeclared wire) is possible. -/
theorem C02_eval_eq_denote {fl : Flags} {Γ : Ctx} {κ σ : Env} (hΓ : CtxOK Γ) (hσ : EnvOK Γ σ)
    (e : Ex) (w : Width) (hwf : wfEx e = true) (hc : check fl Γ κ e = .ok w) :
    w = Spec.sw Γ e ∧
    (match Spec.dv Γ (val σ) e with
     | some v => ev fl σ (fixMux fl Γ κ e) = .ok ⟨v, w⟩ ∧ v < 2 ^ Spec.bitsOf w
     | none => ev fl σ (fixMux fl Γ κ e) = .error .divideByZero) := by
  obtain ⟨_, hsw, h⟩ := ev_correct hΓ e w (hσ.on _) hwf hc
  refine ⟨hsw, ?_⟩
  cases hd : Spec.dv Γ (val σ) e with
  | none => simp only [hd] at h; exact h
  | some v =>
    simp only [hd] at h
    refine ⟨h.1, ?_⟩
    have := h.2
    cases w <;> simpa [Spec.bitsOf, Width.card, U128] using this

/-- **C02, assignment.**  The value stored on the assigned wire is the expression's value truncated
    to the wire's declared width. -/
theorem C02_assign {fl : Flags} {Γ : Ctx} {κ : Env} (s : State) (hΓ : CtxOK Γ) (hσ : EnvOK Γ s.values.toEnv)
    (name : String) (e : Ex) (w ew : Width) (hw : w.ok) (hwf : wfEx e = true) (hc : check fl Γ κ e = .ok ew) :
    match Spec.dv Γ (val s.values.toEnv) e with
    | some v => execAction fl s (.assign name (fixMux fl Γ κ e) w)
                  = .ok { s with values := s.values.insert name ⟨Spec.stored w v, w⟩ }
    | none => execAction fl s (.assign name (fixMux fl Γ κ e) w) = .error .divideByZero := by
  obtain ⟨_, _, h⟩ := ev_correct hΓ e ew (hσ.on _) hwf hc
  cases hd : Spec.dv Γ (val s.values.toEnv) e with
  | none =>
    simp only [hd] at h
    simp [execAction, h, bind, Except.bind]
  | some v =>
    simp only [hd] at h
    have hm := maskStep w hw v
    simp only [execAction, h.1, bind, Except.bind, asWidth, pure, Except.pure] at hm ⊢
    rw [Width.mask_eq w hw] at hm ⊢
    simp only [liftR, and_mask, Spec.stored, Spec.card_eq]

/-! Non-vacuity: concrete expressions at the widths where the masking arithmetic changes regime. -/

def exΓ : Ctx := fun n => if n = "a" then some (.bits 64) else if n = "b" then some (.bits 128) else if n = "z" then some (.bits 0) else none
def exσ : Env := fun n => if n = "a" then some ⟨2 ^ 64 - 1, .bits 64⟩ else if n = "b" then some ⟨2 ^ 127, .bits 128⟩
  else if n = "z" then some ⟨0, .bits 0⟩ else none

example : CtxOK exΓ := by
  intro n w h; unfold exΓ at h
  repeat (split at h <;> first | (cases h; simp [Width.ok]) | skip)
  cases h

example : EnvOK exΓ exσ := by
  intro n w h; unfold exΓ at h; unfold exσ
  split at h
  · cases h; rename_i hn; exact ⟨2 ^ 64 - 1, by simp [hn], by simp [Width.card]⟩
  · split at h
    · cases h; rename_i h1 h2; exact ⟨2 ^ 127, by simp [h2], by simp [Width.card]⟩
    · split at h
      · cases h; rename_i h1 h2 h3; exact ⟨0, by simp [h3], by simp [Width.card]⟩
      · cases h

-- a + 1 wraps to 0 at 64 bits; -z at width 0; b >> 127; !z = 1
example : check {} exΓ (fun _ => none) (.bin .add (.wire "a") (.const ⟨1, .unlimited⟩)) = .ok (.bits 64) := by rfl
example : Spec.dv exΓ (val exσ) (.bin .add (.wire "a") (.const ⟨1, .unlimited⟩)) = some 0 := by decide
example : Spec.dv exΓ (val exσ) (.un .not (.wire "z")) = some 1 := by decide
example : Spec.dv exΓ (val exσ) (.bin .shr (.wire "b") (.const ⟨127, .unlimited⟩)) = some 1 := by decide
example : Spec.dv exΓ (val exσ) (.bin .shl (.wire "b") (.const ⟨1, .unlimited⟩)) = some 0 := by decide
example : Spec.dv exΓ (val exσ) (.bin .div (.wire "a") (.wire "z")) = none := by decide

/-! ### for every accepted program -/

/-- **C02 for every accepted program**: at the end of every cycle that completes, every assigned wire holds the
    value the specification gives its source expression under the final valuation, truncated to the wire's declared
    width — `t(n) = ⟦e₀⟧_t mod 2^w` — where `e₀` is an expression the checker accepts and whose width-fixed form is
    what the program evaluates.  With `C01_accepted` (that valuation is the unique one satisfying all definitions) this
    says: a cycle computes the unique solution of the program's equations, operator by operator as HCL defines them. -/
theorem C02_accepted (fl : Flags) (cls : CharClass) (o : Orders) (stmts : List Stmt) (p : Program)
    (ho : OrdersOK o) (hwf : StmtsWF stmts)
    (h : Program.new fl cls o y86FixedFunctions stmts = .ok p) :
    ∃ (W : AMap Width) (known : List String),
      (∃ vals, p.initialValues = .ok vals ∧ ValsOK W.toCtx vals ∧ (∀ n ∈ known, vals.contains n = true)) ∧
      ∀ (s t : State), StateOK W.toCtx s → (∀ n ∈ known, s.values.contains n = true) →
        execActions fl p.actions s = .ok t →
        ∀ n e w, Action.assign n e w ∈ p.actions →
          ∃ e₀ ew x, e = fixMux fl W.toCtx p.constants.toEnv e₀ ∧ check fl W.toCtx p.constants.toEnv e₀ = .ok ew ∧
            W.get? n = some w ∧ Spec.dv W.toCtx (val t.values.toEnv) e₀ = some x ∧
            t.values.toEnv n = some ⟨Spec.stored w x, w⟩ := by
  obtain ⟨W, known, pre, fin, hp, ⟨vals, hv1, hv2, hv3, _⟩, hsplit, hvalid, hfin⟩ := Program_new_all fl cls o stmts p ho hwf h
  refine ⟨W, known, ⟨vals, hv1, hv2, hv3⟩, ?_⟩
  intro s t hs hav hex n e w hmem
  -- the action is one of the value-writing ones
  have hpre : Action.assign n e w ∈ pre := by
    rw [hsplit] at hmem
    rcases List.mem_append.mp hmem with h1 | h1
    · exact h1
    · have := hfin _ h1; simp [Action.isPure] at this
  -- its well-typedness
  obtain ⟨hΓn, e₀, ew, he, hwfe, hck⟩ := hp.actions _ hmem
  -- the state after the actions is well-typed and holds every wire the action reads
  rcases execActions_sound hp.ctx p.actions s known hs hp.actions hp.sched hav with ⟨t', ht', hst', hmono, hwr, _⟩ | herr
  · rw [hex] at ht'
    simp only [Except.ok.injEq] at ht'
    subst ht'
    have hpresent : Present t.values (refs e₀) := by
      intro r hr
      have hr' : r ∈ (Action.assign n e w).reads := by
        simp only [Action.reads, he, refs_fixMux]; exact hr
      rcases sched_reads known p.actions hp.sched _ hmem r hr' with h1 | h1
      · exact hmono r (hav r h1)
      · simp only [writesOf, List.mem_flatMap] at h1
        obtain ⟨b, hb, hrb⟩ := h1
        exact hwr b hb r hrb
    have hon : EnvOn W.toCtx t.values.toEnv (refs e₀) := envOn_of hst'.vals (refs e₀) hpresent
    obtain ⟨_, _, hcorr⟩ := ev_correct (fl := fl) (Γ := W.toCtx) (κ := p.constants.toEnv) (σ := t.values.toEnv)
      hp.ctx e₀ ew hon hwfe hck
    -- settlement: the wire holds its definition evaluated in the final valuation
    rw [hsplit] at hex
    obtain ⟨v, hdef, hval⟩ := C01_settlement fl pre fin s t hvalid hfin hex _ hpre
    simp only [Action.defn, Action.out] at hdef hval
    cases hd : Spec.dv W.toCtx (val t.values.toEnv) e₀ with
    | none =>
      rw [hd] at hcorr
      simp only at hcorr
      rw [he, hcorr] at hdef
      simp [bind, Except.bind] at hdef
    | some x =>
      rw [hd] at hcorr
      simp only at hcorr
      refine ⟨e₀, ew, x, he, hck, hΓn, hd, ?_⟩
      rw [he, hcorr.1] at hdef
      have hwok : w.ok := hp.ctx n w hΓn
      simp only [bind, Except.bind, asWidth_ok _ w hwok, Except.ok.injEq] at hdef
      rw [hval, ← hdef]
      rfl
  · rw [hex] at herr; cases herr
