import Hcl.Generated

/-! Tie between the tables extracted from /repo on this run (`Hcl/Generated.lean`) and the values the
    hand-written model was validated against.  A change of the source shows up as a failing `rfl` here. -/

namespace Tie.Cli

theorem cliOptions : Generated.cliOptions = ([("c", "check"), ("d", "debug"), ("q", "quiet"), ("t", "testing"), ("h", "help"), ("i", "interactive"), ("", "ungroup-debug-wires"), ("", "trace-assignments"), ("", "version")] : List (String × String)) := by rfl

theorem cliDefaultTimeout : Generated.cliDefaultTimeout = (9999 : Nat) := by rfl

theorem cliYoSuffix : Generated.cliYoSuffix = ([".yo"] : List String) := by rfl

end Tie.Cli
