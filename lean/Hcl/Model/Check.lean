import Hcl.Model.Eval
open Rust

/-! Model of the static width checker `SpannedExpr::get_width_and_check` and of
    `fix_mux_widths` (ast.rs). -/

/-- kinds of diagnostics (`errors.rs: enum Error`), named as in the Rust source -/
inductive DKind where
  | MismatchedMuxWidths | MismatchedExprWidths | MismatchedWireWidths | MismatchedRegisterDefaultWidths
  | DuplicateRegister | RuntimeMismatchedWidths | DivideByZero | UndeclaredWireAssigned | UndeclaredWireRead
  | NonConstantWireRead | UnsetWire | UnsetBuiltinWire | UnsetUndeclaredWire | UnsetRegisterInputWire
  | RedeclaredWire | DoubleAssignedWire | DoubleAssignedRegisterWire | DoubleDeclaredRegisterOutWire
  | DoubleAssignedFixedOutWire | AssignedConstant | RedeclaredBuiltinWire | PartialFixedInput | WireLoop
  | InvalidWireWidth | InvalidRegisterBankName | InvalidBitIndex | NonBooleanWidth | NoBitWidth
  | MisorderedBitIndexes | InvalidConstant | WireTooWide | NoMuxDefaultOption | MultipleMuxDefaultOption
  | UnreachableOptions | InternalPanic
  deriving Repr, DecidableEq, Inhabited

structure Diag where
  kind : DKind
  names : List String := []
  deriving Repr, DecidableEq, Inhabited

abbrev Ctx := String → Option Width

/-- an evaluation error as the diagnostic the code would report -/
def Err.toDiag : Err → Diag
  | .fail _ => ⟨.InternalPanic, []⟩
  | .runtimeMismatchedWidths => ⟨.RuntimeMismatchedWidths, []⟩
  | .noBitWidth => ⟨.NoBitWidth, []⟩
  | .undeclaredWireRead n => ⟨.UndeclaredWireRead, [n]⟩
  | .divideByZero => ⟨.DivideByZero, []⟩

abbrev C (α : Type) := Except (List Diag) α

/-- state of the loop over the options of a case expression -/
structure MuxScan where
  width : Option Width := some .unlimited   -- maybe_width
  seenTrue : Bool := false
  seenTwice : Bool := false
  seenUnreachable : Bool := false

mutual
/-- `get_width_and_check`; `Γ` = `widths`, `κ` = `constants` (used only by `always_true`) -/
def check (fl : Flags) (Γ : Ctx) (κ : Env) : Ex → C Width
  | .const v => pure v.width
  | .bin op l r =>
    match op.kind with
    | .equalWidth => do
        let a ← check fl Γ κ l
        let b ← check fl Γ κ r
        match a.combine b with
        | some w => pure w
        | none => throw [⟨.MismatchedExprWidths, []⟩]
    | .equalWidthWeak =>
        if fl.strictBinary then do
          let a ← check fl Γ κ l
          let b ← check fl Γ κ r
          match a.combine b with
          | some w => pure w
          | none => throw [⟨.MismatchedExprWidths, []⟩]
        else do
          let a ← check fl Γ κ l
          let b ← check fl Γ κ r
          pure (a.max b)
    | .boolCombine =>
        if fl.strictBoolean then do
          let a ← check fl Γ κ l
          if !a.possiblyBoolean then throw [⟨.NonBooleanWidth, []⟩]
          let b ← check fl Γ κ r
          if !b.possiblyBoolean then throw [⟨.NonBooleanWidth, []⟩]
          pure (.bits 1)
        else do
          let _ ← check fl Γ κ l
          let _ ← check fl Γ κ r
          pure (.bits 1)
    | .boolFromEq => do
        let a ← check fl Γ κ l
        let b ← check fl Γ κ r
        match a.combine b with
        | some _ => pure (.bits 1)
        | none => throw [⟨.MismatchedExprWidths, []⟩]
  | .mux opts => do
      let s ← checkOpts fl Γ κ opts {}
      if fl.requireMuxDefault && !s.seenTrue then throw [⟨.NoMuxDefaultOption, []⟩]
      if fl.disallowMultipleMuxDefault && s.seenTwice then throw [⟨.MultipleMuxDefaultOption, []⟩]
      if fl.disallowUnreachable && s.seenUnreachable then throw [⟨.UnreachableOptions, []⟩]
      match s.width with
      | some w => pure w
      | none => throw [⟨.MismatchedMuxWidths, []⟩]
  | .un .not e => do
      let _ ← check fl Γ κ e
      pure (.bits 1)
  | .un _ e => check fl Γ κ e
  | .wire n => match Γ n with
      | some w => pure w
      | none => throw [⟨.UndeclaredWireRead, [n]⟩]
  | .slice e lo hi =>
      if lo > hi then throw [⟨.MisorderedBitIndexes, []⟩] else do
      let a ← check fl Γ κ e
      match a with
      | .bits n => if hi > n then throw [⟨.InvalidBitIndex, []⟩] else pure (.bits (hi - lo))
      | .unlimited => pure (.bits (hi - lo))
  | .concat l r => do
      let a ← check fl Γ κ l
      match a with
      | .bits lw => do
          let b ← check fl Γ κ r
          match b with
          | .bits rw => if lw + rw ≤ 128 then pure (.bits (lw + rw)) else throw [⟨.WireTooWide, []⟩]
          | .unlimited => throw [⟨.NoBitWidth, []⟩]
      | .unlimited => throw [⟨.NoBitWidth, []⟩]
  | .inSet e items => do
      let a ← check fl Γ κ e
      let errs ← checkItems fl Γ κ a items
      if errs.isEmpty then pure (.bits 1) else throw errs
/-- the `for option in options` loop -/
def checkOpts (fl : Flags) (Γ : Ctx) (κ : Env) : Opts → MuxScan → C MuxScan
  | .nil, s => pure s
  | .cons c v rest, s => do
      let _ ← check fl Γ κ c
      let unreachable := s.seenUnreachable || s.seenTrue
      let at_ := alwaysTrue fl κ c
      let twice := s.seenTwice || (at_ && s.seenTrue)
      let seen := s.seenTrue || at_
      let w ← check fl Γ κ v
      let width := match s.width with
        | some cur => cur.combine w
        | none => none
      checkOpts fl Γ κ rest ⟨width, seen, twice, unreachable⟩
/-- the `for item in lst` loop of `InSet`: the mismatches found (an item's own error aborts) -/
def checkItems (fl : Flags) (Γ : Ctx) (κ : Env) (a : Width) : Exs → C (List Diag)
  | .nil => pure []
  | .cons e rest => do
      let b ← check fl Γ κ e
      let more ← checkItems fl Γ κ a rest
      match a.combine b with
      | some _ => pure more
      | none => pure (⟨.MismatchedExprWidths, []⟩ :: more)
end

mutual
/-- `fix_mux_widths`: a case expression whose checked width is `bits w` becomes `mux'[0..w]`,
    where `mux'` has its sub-expressions rewritten in the same way -/
def fixMux (fl : Flags) (Γ : Ctx) (κ : Env) : Ex → Ex
  | .const v => .const v
  | .bin op l r => .bin op (fixMux fl Γ κ l) (fixMux fl Γ κ r)
  | .un op e => .un op (fixMux fl Γ κ e)
  | .wire n => .wire n
  | .slice e lo hi => .slice (fixMux fl Γ κ e) lo hi
  | .concat l r => .concat (fixMux fl Γ κ l) (fixMux fl Γ κ r)
  | .inSet e items => .inSet (fixMux fl Γ κ e) (fixMuxExs fl Γ κ items)
  | .mux opts =>
      let m := Ex.mux (fixMuxOpts fl Γ κ opts)
      match check fl Γ κ (.mux opts) with             -- the width checked before the rewrite
      | .ok (.bits w) => .slice m 0 w
      | _ => m
def fixMuxOpts (fl : Flags) (Γ : Ctx) (κ : Env) : Opts → Opts
  | .nil => .nil
  | .cons c v rest => .cons (fixMux fl Γ κ c) (fixMux fl Γ κ v) (fixMuxOpts fl Γ κ rest)
def fixMuxExs (fl : Flags) (Γ : Ctx) (κ : Env) : Exs → Exs
  | .nil => .nil
  | .cons e rest => .cons (fixMux fl Γ κ e) (fixMuxExs fl Γ κ rest)
end
