import Hcl.Proofs.ProgramSpansPoints2Stages
open Rust

/-! `C14_diag_points_at`, assembled by the stage split of `Program.newSp` (as `newSp_erase` is): every diagnostic of a
    rejection by `Program.newSp` -- whatever the step that rejects -- carries the spans `Spec.PointsAt` asks for. -/

namespace Parser
open Spec

/-- the diagnostics of step 4 (wires that are needed and never assigned) -/
theorem unset_wl (ss : List SStmt) (t1 : Step1Sp) (ht : Tbl ss t1) (t3 : Step3Sp) (h3 : Tbl3 ss t3) (L : List String) :
    ∀ d ∈ (L.flatMap fun n =>
      if AMap.contains t1.assigns n then ([] : List DiagSp) else
      match AMap.get? t1.declSpans n with
      | some sp => [⟨.UnsetWire, [n], [sp]⟩]
      | none =>
        match AMap.get? t3.registerIns n with
        | some sp => [⟨.UnsetRegisterInputWire, [n], [sp]⟩]
        | none => [⟨.UnsetBuiltinWire, [n], []⟩]), WL ss d := by
  intro d hd
  obtain ⟨n, _, hd⟩ := List.mem_flatMap.mp hd
  split at hd
  · cases hd
  · cases hg : AMap.get? t1.declSpans n with
    | some sp =>
      rw [hg] at hd
      rw [List.mem_singleton.mp hd]
      simp only [WL, PointsAt, DiagSp.erase]
      exact ht.decl _ (get?_mem _ _ _ hg)
    | none =>
      rw [hg] at hd
      simp only at hd
      cases hg2 : AMap.get? t3.registerIns n with
      | some sp =>
        rw [hg2] at hd
        rw [List.mem_singleton.mp hd]
        simp only [WL, PointsAt, DiagSp.erase]
        exact h3.regIns _ (get?_mem _ _ _ hg2)
      | none =>
        rw [hg2] at hd
        rw [List.mem_singleton.mp hd]
        trivial

/-- **every span of every diagnostic of `Program.newSp` points at the construct the diagnostic is about** -/
theorem newSp_points_at (fl : Flags) (cls : CharClass) (o : Orders) (fixed : List FixedFunction) (ss : List SStmt)
    (ds : List DiagSp) (h : Program.newSp fl cls o fixed ss = .error ds) : ∀ d ∈ ds, PointsAt ss d.erase d.spans := by
  unfold Program.newSp at h
  simp only [] at h
  have ht := fun fn fo => step1_tbl ss fn fo fixed
  generalize hgen : List.foldl (step1StmtSp _ _) { s := step1Init fixed } ss = t1 at h
  have ht1 : Tbl ss t1 := by rw [← hgen]; exact ht _ _
  clear ht hgen
  split at h
  · -- step 1
    cases h
    intro d hd
    simp only [List.mem_append] at hd
    rcases hd with (hd | hd) | hd
    · exact ht1.errs d hd
    · exact assignedConstSp_wl ss _ ht1 d hd
    · exact constRefErrorsSp_wl ss _ ht1 d hd
  · split at h
    · -- step 2
      rename_i ds2 h2
      cases h
      exact resolveConstantsSp_wl ss fl o t1.consts ht1.consts _ h2
    · rename_i constants h2
      have h3 := foldl_banks_wl ss fl cls t1 ht1 constants t1.banks ht1.banks { wireTypes := t1.s.wireTypes }
        ⟨fun d hd => (by cases hd), fun d hd => (by cases hd), fun d hd => (by cases hd)⟩
      generalize List.foldl (step3BankSp fl cls t1 constants) { wireTypes := t1.s.wireTypes } t1.banks = t3 at h h3
      split at h
      · -- steps 3 and 4
        cases h
        exact wl_append ss _ _ h3.errors (unset_wl ss t1 ht1 t3 h3 _)
      · split at h
        · cases h
          exact panicSp_wl ss
        · split at h
          · -- step 5
            rename_i ds5 h5
            cases h
            exact assignmentsToActionsSp_wl ss fl o t1 ht1 _ _ fixed constants _ h5
          · cases h

end Parser
