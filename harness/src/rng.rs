/// xorshift64* — every random choice of the harness comes from one of these, seeded from VERIF_SEED
pub struct Rng(pub u64);

impl Rng {
    pub fn new(seed: u64) -> Rng {
        let mut r = Rng(seed.wrapping_mul(0x9E3779B97F4A7C15) ^ 0xD1B54A32D192ED03);
        if r.0 == 0 { r.0 = 0x1234567; }
        for _ in 0..4 { r.next(); }
        r
    }
    pub fn next(&mut self) -> u64 {
        let mut x = self.0;
        x ^= x >> 12;
        x ^= x << 25;
        x ^= x >> 27;
        self.0 = x;
        x.wrapping_mul(0x2545F4914F6CDD1D)
    }
    pub fn below(&mut self, n: u64) -> u64 { if n == 0 { 0 } else { self.next() % n } }
    pub fn range(&mut self, lo: u64, hi: u64) -> u64 { lo + self.below(hi - lo + 1) }
    pub fn chance(&mut self, num: u64, den: u64) -> bool { self.below(den) < num }
    pub fn pick<'a, T>(&mut self, items: &'a [T]) -> &'a T { &items[self.below(items.len() as u64) as usize] }
    pub fn u128(&mut self) -> u128 { ((self.next() as u128) << 64) | (self.next() as u128) }
    pub fn shuffle<T>(&mut self, items: &mut Vec<T>) {
        for i in (1..items.len()).rev() {
            let j = self.below((i + 1) as u64) as usize;
            items.swap(i, j);
        }
    }
}
