import Hcl.Spec.Denote

/-!
# The abstract machine an accepted HCL program describes (specification)

A *design* is read off the statements directly (no scheduling): constants, declared widths,
one defining expression per assigned wire, register banks, and which built-in components are
connected.  A cycle is: (1) the unique valuation that satisfies every definition given the
start-of-cycle register-bank outputs, program registers and memory — computed here by naive
fixpoint iteration, never by a schedule; (2) the clock edge.
-/

namespace Spec

abbrev Val := List (String × Nat)

def Val.get (σ : Val) (n : String) : Nat := (σ.lookup n).getD 0
def Val.has (σ : Val) (n : String) : Bool := σ.any (fun p => p.1 == n)
def Val.set (σ : Val) (n : String) (v : Nat) : Val :=
  if σ.has n then σ.map (fun p => if p.1 == n then (n, v) else p) else σ ++ [(n, v)]

structure BankSpec where
  label : String
  regs : List (String × String × Width × Nat)      -- input wire, output wire, width, default
  stall : String
  bubble : String

structure Design where
  widths : List (String × Width)
  consts : Val
  assigns : List (String × Ex)
  banks : List BankSpec
  deriving Inhabited

def Design.Γ (d : Design) : String → Option Width := fun n => d.widths.lookup n
def Design.assigned (d : Design) (n : String) : Bool := d.assigns.any (fun p => p.1 == n)

/-- a built-in component is connected when all of its inputs are assigned -/
def Design.connected (d : Design) (inputs : List String) : Bool := inputs.all d.assigned

/-- architectural state between cycles -/
structure MState where
  bankVals : Val                  -- register-bank outputs
  regs : List Nat                 -- 16 program registers; number 15 is never written
  mem : Nat → Nat                 -- byte memory over addresses < 2^64
  used : List Nat := []           -- addresses loaded or written so far (sorted, no duplicates)
  status : Option Nat := none

def rdLE (mem : Nat → Nat) (addr : Nat) : Nat → Nat
  | 0 => 0
  | k+1 => rdLE mem addr k + mem ((addr + k) % 2 ^ 64) * 256 ^ k

/-- store the `count` low bytes of `value` at `addr, addr+1, ...` (addresses modulo 2^64) -/
def wrLE (mem : Nat → Nat) (addr value : Nat) : Nat → Nat → Nat
  | 0 => mem
  | k+1 => fun a => if a = (addr + k) % 2 ^ 64 then (value / 256 ^ k) % 256 else wrLE mem addr value k a

/-- definitions that produce a wire value within a cycle -/
inductive Def where
  | expr (w : Width) (e : Ex)
  | regRead (src : String)
  | memRead (addr : String) (enable : Option String) (count : Nat)

def Def.reads : Def → List String
  | .expr _ e => refs e
  | .regRead s => [s]
  | .memRead a (some en) _ => [a, en]
  | .memRead a none _ => [a]

def Design.defs (d : Design) : List (String × Def) :=
  d.assigns.map (fun p => (p.1, Def.expr ((d.Γ p.1).getD .unlimited) p.2)) ++
  (if d.connected ["pc"] then [("i10bytes", Def.memRead "pc" none 10)] else []) ++
  (if d.connected ["mem_addr", "mem_readbit"] then [("mem_output", Def.memRead "mem_addr" (some "mem_readbit") 8)] else []) ++
  (if d.connected ["reg_srcA"] then [("reg_outputA", Def.regRead "reg_srcA")] else []) ++
  (if d.connected ["reg_srcB"] then [("reg_outputB", Def.regRead "reg_srcB")] else [])

def evalDef (d : Design) (m : MState) (σ : Val) : Def → Option Nat
  | .expr w e => (dv d.Γ σ.get e).map (stored w)
  | .regRead s => some (m.regs.getD (σ.get s) 0)
  | .memRead a en count =>
      let enabled : Bool := match en with
        | some w => σ.get w != 0
        | none => true
      some (if enabled then rdLE m.mem (σ.get a) count else 0)

/-- one sweep: define every not yet defined wire whose inputs are all defined -/
def sweep (d : Design) (m : MState) : List (String × Def) → Val → Option Val
  | [], σ => some σ
  | (n, df) :: rest, σ =>
    if σ.has n || !(df.reads.all σ.has) then sweep d m rest σ
    else match evalDef d m σ df with
      | none => none
      | some v => sweep d m rest (σ.set n v)

def settle (d : Design) (m : MState) : Nat → Val → Option Val
  | 0, σ => some σ
  | k+1, σ => match sweep d m d.defs σ with
      | none => none
      | some σ' => settle d m k σ'

def insertSorted (a : Nat) : List Nat → List Nat
  | [] => [a]
  | x :: rest => if a < x then a :: x :: rest else if a = x then x :: rest else x :: insertSorted a rest

def markUsed (used : List Nat) (addr count : Nat) : List Nat :=
  (List.range count).foldl (fun u i => insertSorted ((addr + i) % 2 ^ 64) u) used

def regWrite (regs : List Nat) (dst value : Nat) : List Nat :=
  if dst < 15 then regs.set dst (value % 2 ^ 64) else regs

/-- one cycle: the settled valuation and the state after the clock edge; `none` = division by zero -/
def cycle (d : Design) (m : MState) : Option (Val × MState) := do
  let start : Val := d.consts ++ m.bankVals
  let σ ← settle d m (d.defs.length + 1) start
  let ctl (n : String) : Nat := if d.assigned n then σ.get n else 0
  let writes : Bool := d.connected ["mem_addr", "mem_input", "mem_writebit"] && σ.get "mem_writebit" != 0
  let mem' := if writes then wrLE m.mem (σ.get "mem_addr") (σ.get "mem_input") 8 else m.mem
  let used' := if writes then markUsed m.used (σ.get "mem_addr") 8 else m.used
  let r1 := if d.connected ["reg_dstE", "reg_inputE"] then regWrite m.regs (σ.get "reg_dstE") (σ.get "reg_inputE") else m.regs
  let r2 := if d.connected ["reg_dstM", "reg_inputM"] then regWrite r1 (σ.get "reg_dstM") (σ.get "reg_inputM") else r1
  let banks' : Val := d.banks.foldl (fun acc b =>
    acc ++ b.regs.map (fun r =>
      let (inp, out, _, dflt) := r
      (out, if ctl b.bubble ≠ 0 then dflt else if ctl b.stall ≠ 0 then m.bankVals.get out else σ.get inp))) []
  pure (σ, { bankVals := banks', regs := r2, mem := mem', used := used', status := some (σ.get "Stat") })

/-! ### reading a design off the statements -/

/-- constants in dependency order: a constant whose references are all known gets the width
    and value of its defining expression -/
def constSweep : List (String × Ex) → List (String × Width) × Val → List (String × Width) × Val
  | [], acc => acc
  | (n, e) :: rest, (ws, σ) =>
    if σ.has n || !((refs e).all σ.has) then constSweep rest (ws, σ)
    else
      let Γ : String → Option Width := fun k => ws.lookup k
      match dv Γ σ.get e with
      | some v => constSweep rest (ws ++ [(n, sw Γ e)], σ.set n v)
      | none => constSweep rest (ws, σ)

def builtinWidths : List (String × Width) :=
  [("Stat", .bits 3), ("pc", .bits 64), ("i10bytes", .bits 80), ("mem_addr", .bits 64), ("mem_readbit", .bits 1),
   ("mem_output", .bits 64), ("mem_input", .bits 64), ("mem_writebit", .bits 1), ("reg_srcA", .bits 4),
   ("reg_outputA", .bits 64), ("reg_srcB", .bits 4), ("reg_outputB", .bits 64), ("reg_dstE", .bits 4),
   ("reg_inputE", .bits 64), ("reg_dstM", .bits 4), ("reg_inputM", .bits 64)]

structure Elab where
  constDefs : List (String × Ex) := []
  wireWidths : List (String × Width) := []
  assigns : List (String × Ex) := []
  banks : List BankDecl := []

def elabStmt (a : Elab) : Stmt → Elab
  | .consts ds => { a with constDefs := a.constDefs ++ ds.map (fun d => (d.name, d.value)) }
  | .wires ds => { a with wireWidths := a.wireWidths ++ ds.map (fun d => (d.name, d.width)) }
  | .assigns as => { a with assigns := a.assigns ++ as.flatMap (fun x => x.names.map (fun n => (n, x.value))) }
  | .bank b => { a with banks := a.banks ++ [b] }

def elabConsts (defs : List (String × Ex)) : Nat → List (String × Width) × Val → List (String × Width) × Val
  | 0, acc => acc
  | k+1, acc => elabConsts defs k (constSweep defs acc)

def design (stmts : List Stmt) : Design :=
  let a := stmts.foldl elabStmt {}
  let (cws, cvals) := elabConsts a.constDefs (a.constDefs.length + 1) ([], [])
  let cΓ : String → Option Width := fun n => cws.lookup n
  let banks : List BankSpec := a.banks.map fun b =>
    match b.name.toList with
    | [i, o] =>
      { label := b.name,
        regs := b.regs.map (fun r => (String.ofList [i, '_'] ++ r.name, String.ofList [o, '_'] ++ r.name, r.width,
                  stored r.width ((dv cΓ cvals.get r.default).getD 0))),
        stall := "stall_" ++ String.ofList [o], bubble := "bubble_" ++ String.ofList [o] }
    | _ => { label := b.name, regs := [], stall := "", bubble := "" }
  let bankWidths := banks.flatMap fun b =>
    b.regs.flatMap (fun r => [(r.1, r.2.2.1), (r.2.1, r.2.2.1)]) ++ [(b.stall, .bits 1), (b.bubble, .bits 1)]
  { widths := a.wireWidths ++ bankWidths ++ cws ++ builtinWidths,
    consts := cvals, assigns := a.assigns, banks := banks }

def initialState (d : Design) (image : List (Nat × Nat)) : MState :=
  { bankVals := d.banks.flatMap (fun b => b.regs.map (fun r => (r.2.1, r.2.2.2))),
    regs := List.replicate 16 0, mem := fun a => (image.lookup a).getD 0,
    used := image.foldl (fun u p => insertSorted p.1 u) [] }

end Spec
