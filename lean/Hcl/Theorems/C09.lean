import Hcl.Proofs.AcceptedValid
import Hcl.Model.Program
import Hcl.Proofs.Step1Tables
import Hcl.Proofs.FlagIndep
import Hcl.Proofs.ActionsVerdict
open Rust

/-!
# C09 — every wire has exactly one driver, or the program is rejected

Theorems about the model of `Program::new` (first checking stage).  The complete fault list is
`Spec.faults` (Hcl/Spec/Accept.lean); agreement of the real code with it — accept/reject and the
name in the diagnostic, for every fault class at every kind of name — is established differentially.
-/

def targetsOf : List Stmt → List String
  | [] => []
  | .assigns as :: rest => as.flatMap (·.names) ++ targetsOf rest
  | _ :: rest => targetsOf rest

def constNamesOf : List Stmt → List String
  | [] => []
  | .consts ds :: rest => ds.map (·.name) ++ constNamesOf rest
  | _ :: rest => constNamesOf rest

theorem foldl_errors_mono {β : Type} (f : Step1 → β → Step1) (hf : ∀ s x, ∃ more, (f s x).errors = s.errors ++ more) :
    ∀ (l : List β) (s : Step1), ∃ more, (l.foldl f s).errors = s.errors ++ more
  | [], s => ⟨[], by simp⟩
  | x :: rest, s => by
    obtain ⟨m1, h1⟩ := hf s x
    obtain ⟨m2, h2⟩ := foldl_errors_mono f hf rest (f s x)
    exact ⟨m1 ++ m2, by simp only [List.foldl_cons]; rw [h2, h1, List.append_assoc]⟩

theorem checkDoubleDeclare_mono (fn : List String) (s : Step1) (n : String) :
    ∃ more, (checkDoubleDeclare fn s n).errors = s.errors ++ more := ⟨_, rfl⟩

/-- processing one statement never removes an error already recorded -/
theorem step1Stmt_errors_mono (fn fo : List String) (s : Step1) (st : Stmt) :
    ∃ more, (step1Stmt fn fo s st).errors = s.errors ++ more := by
  cases st with
  | consts ds =>
    exact foldl_errors_mono (step1Const fn) (fun s d => by
      obtain ⟨m, hm⟩ := checkDoubleDeclare_mono fn s d.name
      exact ⟨m, by simp only [step1Const]; exact hm⟩) ds s
  | wires ds =>
    exact foldl_errors_mono (step1Wire fn) (fun s d => by
      obtain ⟨m, hm⟩ := checkDoubleDeclare_mono fn s d.name
      exact ⟨m, by simp only [step1Wire]; exact hm⟩) ds s
  | assigns as =>
    exact foldl_errors_mono (step1Assign fo) (fun s a =>
      foldl_errors_mono (step1Name fo a.value) (fun s n => ⟨_, rfl⟩) a.names s) as s
  | bank b => exact ⟨[], by simp [step1Stmt]⟩

theorem step1_errors_mono (fn fo : List String) (stmts : List Stmt) (s : Step1) :
    ∃ more, (stmts.foldl (step1Stmt fn fo) s).errors = s.errors ++ more :=
  foldl_errors_mono (step1Stmt fn fo) (step1Stmt_errors_mono fn fo) stmts s

/-- assigning a name a second time records a fault naming it -/
theorem step1Name_double (fo : List String) (value : Ex) (s : Step1) (name : String) (h : s.assigned.contains name = true) :
    (⟨.DoubleAssignedWire, [name]⟩ : Diag) ∈ (step1Name fo value s name).errors := by
  have h' : name ∈ s.assigned := by simpa using h
  simp [step1Name, h']

/-- **C09, first stage.** Whenever the first checking stage records any fault (a name declared twice,
    assigned twice, an assignment to a built-in output or to a constant, a constant depending on a
    wire or on an undeclared name), the program is rejected — for every iteration order. -/
theorem C09_stage1_rejects (fl : Flags) (cls : CharClass) (o : Orders) (fixed : List FixedFunction) (stmts : List Stmt)
    (fixedNames fixedOut : List String)
    (hfn : fixedNames = dedupS (fixed.flatMap fun f => f.inWires.map (·.1) ++ (match f.outWire with | some (n, _) => [n] | none => [])))
    (hfo : fixedOut = fixed.filterMap fun f => f.outWire.map (·.1))
    (herr : (stmts.foldl (step1Stmt fixedNames fixedOut) (step1Init fixed)).errors ≠ []) :
    ∃ ds, Program.new fl cls o fixed stmts = .error ds := by
  subst hfn; subst hfo
  unfold Program.new
  simp only
  split
  · exact ⟨_, rfl⟩
  · rename_i h
    exfalso
    apply h
    cases he : (stmts.foldl (step1Stmt _ _) (step1Init fixed)).errors with
    | nil => exact absurd he herr
    | cons d ds => simp [he]

/-! ### for every accepted program -/

/-- **C09 for every accepted program**: whatever the iteration order, in an accepted program every wire has exactly
    one driver: the value-writing actions have pairwise distinct outputs (no wire is driven twice), none of them
    drives a register output or a constant, every wire an action reads is a register output, a constant, or the
    output of an earlier action (nothing undriven is read), and the state-changing actions write no wire. -/
theorem C09_accepted (fl : Flags) (cls : CharClass) (o : Orders) (stmts : List Stmt) (p : Program)
    (ho : OrdersOK o) (hwf : StmtsWF stmts)
    (h : Program.new fl cls o y86FixedFunctions stmts = .ok p) :
    ∃ (pre fin : List Action) (known : List String), p.actions = pre ++ fin ∧
      (pre.map Action.out).Nodup ∧
      (∀ n ∈ known, n ∉ pre.map Action.out) ∧
      (∀ a ∈ pre, ∀ r ∈ a.reads, r ∈ known ∨ r ∈ pre.map Action.out) ∧
      (∀ a ∈ fin, a.writes = []) := by
  obtain ⟨pre, fin, known, hsplit, hv, hfin, hsched, hknown, _⟩ := Program_new_valid fl cls o stmts p ho hwf h
  refine ⟨pre, fin, known, hsplit, ?_, hknown, ?_, ?_⟩
  · -- distinct outputs, from the validity of the schedule
    have : ∀ (l : List Action) (before : List String), ValidFrom before l → (l.map Action.out).Nodup := by
      intro l
      induction l with
      | nil => intro _ _; simp
      | cons a rest ih =>
        intro before hvl
        simp only [List.map_cons, List.nodup_cons]
        exact ⟨hvl.2.2.1, ih _ hvl.2.2.2.2⟩
    exact this pre [] hv
  · intro a ha r hr
    rcases sched_reads known pre hsched a ha r hr with h1 | h1
    · exact Or.inl h1
    · right
      simp only [writesOf, List.mem_flatMap] at h1
      obtain ⟨b, hb, hrb⟩ := h1
      rw [pure_writes b (validFrom_pure pre [] hv b hb)] at hrb
      simp at hrb
      exact List.mem_map.mpr ⟨b, hb, hrb.symm⟩
  · intro a ha
    have := hfin a ha
    cases a <;> simp_all [Action.isPure, Action.writes]

/-! ### at the level of the statements -/

/-- **C09, "a declared wire that is never assigned"**: in an accepted program every wire declared by a `wire` statement
    is the target of some assignment statement -- read the other way, a program that declares a wire and never assigns
    it is rejected, under every iteration order and every flag set. -/
theorem C09_declared_wire_is_assigned (fl : Flags) (cls : CharClass) (o : Orders) (stmts : List Stmt) (p : Program)
    (h : Program.new fl cls o y86FixedFunctions stmts = .ok p) (n : String) (hd : DeclaredWire stmts n) :
    AssignedIn stmts n := by
  have hneed : n ∈ (step1Of stmts).needed := by
    unfold step1Of
    rw [step1_fold_needed]
    exact Or.inr hd
  have hass := Program_new_needed fl cls o stmts p h n hneed
  unfold step1Of at hass
  rw [step1_fold_assignments] at hass
  rcases hass with h0 | h1
  · have : (step1Init y86FixedFunctions).assignments = [] := by decide +kernel
    rw [this] at h0
    simp [AMap.contains] at h0
  · exact h1

example : DeclaredWire [.wires [⟨"x", .bits 8⟩], .assigns [⟨["x"], .const ⟨1, .unlimited⟩⟩]] "x" :=
  ⟨_, List.mem_cons_self, _, List.mem_cons_self, rfl⟩

/-- **C09, "assigned twice"**: in an accepted program no name is the target of two assignments -- neither in two
    statements nor twice in one (`a = a = 1`, `a = 1, a = 2`): the list of all targets has no repetition.  Read the
    other way, a program that assigns a name twice is rejected, under every iteration order and flag set. -/
theorem C09_no_name_assigned_twice (fl : Flags) (cls : CharClass) (o : Orders) (stmts : List Stmt) (p : Program)
    (h : Program.new fl cls o y86FixedFunctions stmts = .ok p) : (allTargets stmts).Nodup := by
  have hclean : (step1Of stmts).errors = [] := by
    unfold Program.new at h
    simp only at h
    generalize hs1 : List.foldl (step1Stmt _ _) (step1Init y86FixedFunctions) stmts = s1 at h
    have hs1' : step1Of stmts = s1 := hs1
    rw [hs1']
    split at h
    · simp at h
    · rename_i herrs1
      simp only [Bool.not_eq_true', List.isEmpty_eq_false_iff, ne_eq, Decidable.not_not, List.append_eq_nil_iff] at herrs1
      exact herrs1.1.1
  unfold step1Of at hclean
  exact (step1_fold_clean _ _ stmts _ hclean).2.1

example : ¬ (allTargets [.assigns [⟨["a", "a"], .const ⟨1, .unlimited⟩⟩]]).Nodup := by decide

/-- **C09, "declared twice"**: in an accepted program no name is declared by two `wire`/`const` declarations (in one
    statement or in several), and none of them redeclares a built-in wire -- a program that does is rejected. -/
theorem C09_no_name_declared_twice (fl : Flags) (cls : CharClass) (o : Orders) (stmts : List Stmt) (p : Program)
    (h : Program.new fl cls o y86FixedFunctions stmts = .ok p) :
    (allDeclared stmts).Nodup ∧ ∀ n ∈ allDeclared stmts, n ∉ fixedNamesOf y86FixedFunctions := by
  have hclean : (step1Of stmts).errors = [] := by
    unfold Program.new at h
    simp only at h
    generalize hs1 : List.foldl (step1Stmt _ _) (step1Init y86FixedFunctions) stmts = s1 at h
    have hs1' : step1Of stmts = s1 := hs1
    rw [hs1']
    split at h
    · simp at h
    · rename_i herrs1
      simp only [Bool.not_eq_true', List.isEmpty_eq_false_iff, ne_eq, Decidable.not_not, List.append_eq_nil_iff] at herrs1
      exact herrs1.1.1
  unfold step1Of at hclean
  obtain ⟨_, h2, h3, _⟩ := step1_fold_decl_clean _ _ stmts _ hclean
  refine ⟨h2, ?_⟩
  intro n hn hm
  have := (h3 n hn).2
  rw [List.contains_eq_mem, decide_eq_false_iff_not] at this
  exact this hm

example : ¬ (allDeclared [.wires [⟨"a", .bits 1⟩], .consts [⟨"a", .const ⟨1, .unlimited⟩⟩]]).Nodup := by decide
example : "pc" ∈ fixedNamesOf y86FixedFunctions := by decide

/-- **C09, "used without being declared"**: in an accepted program every name that the right-hand side of an assignment
    mentions has a width in the program's width table (it is a declared wire, a constant, a register signal or a
    built-in wire) -- a program that reads an undeclared name is rejected. -/
theorem C09_read_names_declared (fl : Flags) (cls : CharClass) (o : Orders) (stmts : List Stmt) (p : Program)
    (ho : OrdersOK o) (hwf : StmtsWF stmts) (h : Program.new fl cls o y86FixedFunctions stmts = .ok p) :
    ∀ n e, (step1Of stmts).assignments.get? n = some e → ∀ x ∈ refs e,
      ((finalWires (step1Of stmts) p.constants (step3Of fl cls (step1Of stmts) p.constants)).get? x).isSome = true := by
  obtain ⟨s1, c, s3, k, hyp, _, hact, hpc, _, _, e1, _, e3, _, _, _⟩ := Program_new_decompose' fl cls o stmts p hwf h
  subst e1
  subst hpc
  subst e3
  intro n e hne x hx
  obtain ⟨w, ew, _, h2, _⟩ := assignmentsToActions_rules fl o _ _ _ _ _ _ p.actions ho y86Fixed_table hyp.s1inv.aKeys hact n e hne
  exact check_refs_declared e ew h2 x hx

/-- **C09, "assigns a name that already has a driver"**: in an accepted program no assignment target is a constant -/
theorem C09_constants_not_assigned (fl : Flags) (cls : CharClass) (o : Orders) (stmts : List Stmt) (p : Program)
    (hwf : StmtsWF stmts) (h : Program.new fl cls o y86FixedFunctions stmts = .ok p) :
    ∀ n ∈ (step1Of stmts).assigned, (step1Of stmts).constantsRaw.contains n = false := by
  obtain ⟨s1, _, _, _, _, _, _, _, _, hac, e1, _⟩ := Program_new_decompose' fl cls o stmts p hwf h
  subst e1
  exact hac
