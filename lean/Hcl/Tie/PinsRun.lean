import Hcl.Generated

/-! Text pins (written by tools/mkpins.py): the comment-free, whitespace-normalised bodies of functions that the
    hand-written model transcribes, as they were when the model was last validated against them.  An edit of one
    of these functions makes the `rfl` below fail; the check then looks for an input on which model and code
    differ, and reports the property as no longer shown to hold when it finds none. -/

namespace Tie.PinsRun

/-- `pub fn run<W: Write>`, src/program.rs -/
theorem pinRun : Generated.pinRun = ("while !self.done() { if self.options.show_registers_and_memory { self.dump_y86(out)?; } self.step_with_output(out)?; match self.options.prompt { Some(ref prompt) => prompt(), None => {} } } Ok(())" : String) := by rfl

end Tie.PinsRun
