/-!
# Reading a state dump back (specification of its format)

The dump is a frame of lines delimited by `|`/`+`: five lines with the fifteen program registers,
one `register xY(N|S|B) { name=hex ... }` group per register bank (continued over several lines when
long), and a memory section of 16-byte rows `|  0x<row address without its last digit>_:` with one
three-column cell per byte (blank when the byte was never loaded or written).
-/

namespace Spec.DumpFormat

def hexVal? (c : Char) : Option Nat :=
  if '0' ≤ c && c ≤ '9' then some (c.toNat - 48)
  else if 'a' ≤ c && c ≤ 'f' then some (c.toNat - 87) else none

def parseHex (s : List Char) : Option Nat :=
  if s.isEmpty then none else s.foldlM (fun acc c => (hexVal? c).map (fun d => acc * 16 + d)) 0

def splitOn (sep : Char) (s : List Char) : List (List Char) :=
  let rec go (rest cur : List Char) (acc : List (List Char)) : List (List Char) :=
    match rest with
    | [] => (cur.reverse :: acc).reverse
    | c :: tl => if c == sep then go tl [] (cur.reverse :: acc) else go tl (c :: cur) acc
  go s [] []

def words (s : List Char) : List (List Char) := (splitOn ' ' s).filter (fun w => !w.isEmpty)

structure Parsed where
  regs : List (String × Nat) := []
  banks : List (String × Char × List (String × Nat)) := []     -- label, status, registers
  bytes : List (Nat × Nat) := []
  framed : Bool := true            -- every framed line starts and ends with `|` or `+`
  openBank : Bool := false
  inMemory : Bool := false
  cyclesRun : Option Nat := none
  errorCode : Option (List Char) := none

def delim (c : Char) : Bool := c == '|' || c == '+'

def regPairs : List (List Char) → List (String × Nat)
  | name :: v :: rest => match parseHex v with
      | some n => (String.ofList name, n) :: regPairs rest
      | none => regPairs rest
  | _ => []

def bankItems (ws : List (List Char)) : List (String × Nat) :=
  ws.filterMap fun w =>
    match splitOn '=' w with
    | [n, v] => (parseHex v).map (fun x => (String.ofList n, x))
    | _ => none

/-- the 16 cells of a memory row, starting right after the label -/
def rowCells (rowBase : Nat) : Nat → List Char → List (Nat × Nat)
  | 16, _ => []
  | col, cs =>
    if col > 16 then [] else
    let cell := cs.take 3
    let rest := cs.drop 3
    let rest := if col == 3 || col == 11 then rest.drop 1 else if col == 7 then rest.drop 2 else rest
    let here := match cell with
      | [' ', a, b] => (parseHex [a, b]).map (fun v => (rowBase + col, v))
      | _ => none
    (match here with | some x => [x] | none => []) ++ rowCells rowBase (col + 1) rest
termination_by col _ => 17 - col
decreasing_by all_goals omega

def stripPrefix (p s : List Char) : Option (List Char) := if p.isPrefixOf s then some (s.drop p.length) else none

def parseLine (p : Parsed) (line : List Char) : Parsed :=
  if line.isEmpty then p else
  match stripPrefix "Cycles run: ".toList line with
  | some r => { p with cyclesRun := (String.ofList r).toNat? }
  | none =>
  match stripPrefix "Error code: ".toList line with
  | some r => { p with errorCode := some r }
  | none =>
  let framed := p.framed && delim (line.headD ' ') && delim (line.getLastD ' ')
  let p := { p with framed := framed }
  if line.headD ' ' == '+' then { p with inMemory := false } else
  let ws := words line
  if p.openBank then
    let closes := ws.contains ['}']
    match p.banks.reverse with
    | (l, st, items) :: before => { p with banks := (before.reverse ++ [(l, st, items ++ bankItems ws)]), openBank := !closes }
    | [] => p
  else match ws with
  | bar :: w :: rest =>
    if bar != ['|'] then p else
    if w == "register".toList then
      match rest with
      | hd :: rest =>
        -- hd = label(status)
        let label := hd.takeWhile (· != '(')
        let st := ((hd.dropWhile (· != '(')).drop 1).headD '?'
        let closes := rest.contains ['}']
        { p with banks := p.banks ++ [(String.ofList label, st, bankItems rest)], openBank := !closes }
      | [] => p
    else if w == "used".toList then { p with inMemory := true }
    else if p.inMemory then
      -- |  0x<digits>_:  cells
      match stripPrefix "|  0x".toList line with
      | some r =>
        let digits := r.takeWhile (· != '_')
        let after := (r.dropWhile (· != '_')).drop 4        -- "_:  "
        match parseHex digits with
        | some row => { p with bytes := p.bytes ++ rowCells (row * 16) 0 after }
        | none => { p with framed := false }
      | none => { p with framed := false }
    else { p with regs := p.regs ++ regPairs ((ws.drop 1).map (fun w => w.filter (· != ':'))) }
  | _ => p

def parse (text : String) : Parsed := (splitOn '\n' text.toList).foldl parseLine {}

end Spec.DumpFormat
