#!/usr/bin/env python3
"""Run the checks of the given properties against kept seeded mutations (applied to /repo, undone straight afterwards)
and record which checks detect them in seeded/<id>/meta.json.

usage: rerun_seeded.py <seed-id>[,<seed-id>...] [property ...]      (default property: the seed's own)
"""
import json
import os
import shutil
import subprocess
import sys

VERIF = os.path.dirname(os.path.dirname(os.path.abspath(__file__)))


def sh(cmd, cwd=None, timeout=7200):
    env = dict(os.environ, CARGO_NET_OFFLINE="true")
    p = subprocess.run(cmd, shell=True, cwd=cwd, env=env, stdout=subprocess.PIPE, stderr=subprocess.STDOUT, timeout=timeout)
    return p.returncode, p.stdout.decode("utf-8", "replace")


def main():
    ids = sys.argv[1].split(",")
    for sid in ids:
        dest = os.path.join(VERIF, "seeded", sid)
        meta = json.load(open(os.path.join(dest, "meta.json")))
        props = sys.argv[2:] or [meta.get("property", sid.split("-")[0])]
        rc, out = sh("git -C /repo status --porcelain --untracked-files=no")
        if out.strip():
            print("refusing: /repo has uncommitted changes")
            return 1
        rc, out = sh("git -C /repo apply %s" % os.path.join(dest, "patch.diff"))
        if rc != 0:
            print(sid, "patch does not apply:", out[-300:])
            meta.setdefault("checks_run", {})["apply"] = "patch no longer applies to /repo: " + out[-200:]
            json.dump(meta, open(os.path.join(dest, "meta.json"), "w"), indent=1)
            continue
        results = meta.get("checks_run", {})
        try:
            for p in props:
                rc, out = sh("./check %s --tier quick" % p, cwd=VERIF)
                viol = [l for l in out.splitlines() if l.startswith("VIOLATION") or l.startswith("OBLIGATION-BROKEN")]
                results[p] = {"exit": rc, "lines": [v[:400] for v in viol[:6]]}
                print(sid, p, "exit", rc, [v[:160] for v in viol[:2]])
                for v in viol:
                    if v.startswith("VIOLATION") and "replay=" in v:
                        src = os.path.join(VERIF, v.split("replay=")[1].split()[0])
                        if os.path.exists(src):
                            shutil.copy(src, os.path.join(dest, "replay-%s.json" % p))
        finally:
            sh("git -C /repo checkout -- .")
        meta["checks_run"] = results
        meta["detected_by"] = sorted(p for p, r in results.items() if isinstance(r, dict) and r.get("exit") not in (0, None))
        json.dump(meta, open(os.path.join(dest, "meta.json"), "w"), indent=1)
        print(sid, "detected by:", meta["detected_by"])
    sh("git checkout -- evidence", cwd=VERIF)
    return 0


sys.exit(main())
