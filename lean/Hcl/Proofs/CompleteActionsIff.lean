import Hcl.Proofs.CompleteActions
open Rust

/-! `assignments_to_actions` succeeds exactly when the declarative conditions of `assignmentsToActions_complete` hold. -/

/-- the six declarative conditions of `assignmentsToActions_complete`, as one structure -/
structure ActionsOK (fl : Flags) (assignments : AMap Ex) (widths : AMap Width) (known : List String)
    (fixed : List FixedFunction) (constants : AMap WireValue) : Prop where
  /-- mandatory components have all their inputs -/
  mand : ∀ f ∈ fixed, f.mandatory = true → Active assignments f
  /-- a component with an output that lacks an input is not used: nothing reads its output -/
  unused : ∀ f ∈ fixed, ¬ Active assignments f → ∀ n w, f.outWire = some (n, w) → ∀ p ∈ assignments, n ∉ refs p.2
  /-- a component that has some but not all of its inputs has an enable input that is assigned a checked expression
      evaluating to 0 -/
  partialOff : ∀ f ∈ fixed, ¬ Active assignments f → (∃ i ∈ f.inWires.map (·.1), assignments.contains i = true) →
    ∃ en expr v, f.disabledIfFalse = some en ∧ assignments.get? en = some expr ∧
      (∃ ew, check fl widths.toCtx constants.toEnv expr = .ok ew) ∧
      ev fl constants.toEnv (fixMux fl widths.toCtx constants.toEnv expr) = .ok v ∧ v.bits = 0
  /-- every assignment: the target has a width, the expression passes the width checker, the widths are compatible -/
  assign : ∀ n e, assignments.get? n = some e → ∃ w ew, widths.get? n = some w ∧
    check fl widths.toCtx constants.toEnv e = .ok ew ∧ (w.combine ew).isSome = true
  /-- every name read by an assignment is known, assigned, or the output of an active component -/
  read : ∀ p ∈ assignments, ∀ r ∈ refs p.2, known.contains r = true ∨ assignments.contains r = true ∨
    ∃ f ∈ fixed, (∃ w, f.outWire = some (r, w)) ∧ Active assignments f
  /-- no dependency cycle -/
  acyclic : ¬ ∃ c, RelCycle (ActDep assignments fixed) c

namespace ActIff

/-! ### an order in which every edge goes forward excludes a cycle -/

def posOf : List String → String → Nat
  | [], _ => 0
  | a :: l, s => if s = a then 0 else posOf l s + 1

theorem posOf_split : ∀ (l : List String) (x : String), x ∈ l → ∃ pre post, l = pre ++ x :: post ∧ posOf l x = pre.length
  | [], x, h => by simp at h
  | a :: l, x, h => by
    by_cases hx : x = a
    · subst hx
      exact ⟨[], l, rfl, by simp [posOf]⟩
    · have hm : x ∈ l := by
        rcases List.mem_cons.mp h with h1 | h1
        · exact absurd h1 hx
        · exact h1
      obtain ⟨pre, post, hs, hp⟩ := posOf_split l x hm
      refine ⟨a :: pre, post, by rw [hs]; rfl, ?_⟩
      simp only [posOf, hx, if_false, hp, List.length_cons]

theorem posOf_lt_of_mem_prefix : ∀ (pre rest : List String) (u : String), u ∈ pre → posOf (pre ++ rest) u < pre.length
  | [], _, u, h => by simp at h
  | a :: pre, rest, u, h => by
    by_cases hu : u = a
    · simp [posOf, hu]
    · have hm : u ∈ pre := by
        rcases List.mem_cons.mp h with h1 | h1
        · exact absurd h1 hu
        · exact h1
      have := posOf_lt_of_mem_prefix pre rest u hm
      simp only [List.cons_append, posOf, hu, if_false, List.length_cons]
      omega

theorem no_relCycle_of_order (E : Node → Node → Prop) (order : List Node)
    (hmem : ∀ u v, E u v → v ∈ order)
    (hord : ∀ pre x post, order = pre ++ x :: post → ∀ u, E u x → u ∈ pre) : ¬ ∃ c, RelCycle E c := by
  apply no_relCycle_of_rank_act (posOf order)
  intro u v huv
  obtain ⟨pre, post, hs, hp⟩ := posOf_split order v (hmem u v huv)
  have h1 := hord pre v post hs u huv
  have h2 := posOf_lt_of_mem_prefix pre (v :: post) u h1
  rw [← hs] at h2
  omega

/-! ### every step of a cycle has a step before it and a step after it -/

theorem getLast!_cons_cons (a b : Node) (t : List Node) : (a :: b :: t).getLast! = (b :: t).getLast! := by
  simp [List.getLast!_eq_getLast?_getD]

def OnCyc (R : Node → Node → Prop) (u v : Node) : Prop := R u v ∧ (∃ w, R w u) ∧ (∃ x, R v x)

theorem relPath_head_succ {R : Node → Node → Prop} : ∀ (t : List Node) (b : Node), RelPath R (b :: t) →
    (∃ x, R ((b :: t).getLast!) x) → ∃ x, R b x
  | [], b, _, h => by simpa using h
  | c :: _, b, hp, _ => ⟨c, hp.1⟩

theorem relPath_last_pred {R : Node → Node → Prop} : ∀ (t : List Node) (a : Node), RelPath R (a :: t) →
    (∃ w, R w a) → ∃ w, R w ((a :: t).getLast!)
  | [], a, _, h => by simpa using h
  | b :: t, a, hp, _ => by
    rw [getLast!_cons_cons]
    exact relPath_last_pred t b hp.2 ⟨a, hp.1⟩

theorem relPath_onCyc {R : Node → Node → Prop} : ∀ (t : List Node) (a : Node), RelPath R (a :: t) →
    (∃ w, R w a) → (∃ x, R ((a :: t).getLast!) x) → RelPath (OnCyc R) (a :: t)
  | [], _, _, _, _ => trivial
  | b :: t, a, hp, hpred, hsucc => by
    rw [getLast!_cons_cons] at hsucc
    exact ⟨⟨hp.1, hpred, relPath_head_succ t b hp.2 hsucc⟩, relPath_onCyc t b hp.2 ⟨a, hp.1⟩ hsucc⟩

theorem relCycle_onCyc {R : Node → Node → Prop} (c : List Node) (hc : RelCycle R c) : RelCycle (OnCyc R) c := by
  cases c with
  | nil => exact hc
  | cons h t =>
    obtain ⟨hp, hl⟩ := hc
    exact ⟨relPath_onCyc t h hp ⟨_, hl⟩ ⟨_, hl⟩, hl, relPath_last_pred t h hp ⟨_, hl⟩, relPath_head_succ t h hp ⟨_, hl⟩⟩

/-! ### what a silent `preprocess_fixed` says about every component -/

theorem filter_length_ne_of {α : Type} (p : α → Bool) : ∀ (l : List α), (∃ x ∈ l, p x = false) → (l.filter p).length ≠ l.length
  | [], h => by obtain ⟨x, hx, _⟩ := h; simp at hx
  | a :: l, h => by
    by_cases hp : p a = true
    · rw [List.filter_cons_of_pos hp]
      simp only [List.length_cons, ne_eq, Nat.add_right_cancel_iff]
      obtain ⟨x, hx, hpx⟩ := h
      rcases List.mem_cons.mp hx with h1 | h1
      · subst h1; rw [hp] at hpx; cases hpx
      · exact filter_length_ne_of p l ⟨x, h1, hpx⟩
    · rw [List.filter_cons_of_neg hp]
      have := List.length_filter_le p l
      simp only [List.length_cons]
      omega

section
variable (fl : Flags) (widths : AMap Width) (constants : AMap WireValue) (assignments : AMap Ex) (known : List String)

/-- the conditions on one component -/
def CondF (g0 : GBuild) (f : FixedFunction) : Prop :=
  (f.mandatory = true → Active assignments f) ∧
  (¬ Active assignments f →
    (∀ out w, f.outWire = some (out, w) → out ∉ g0.nodes) ∧
    ((∃ i ∈ f.inWires.map (·.1), assignments.contains i = true) →
      ∃ en expr v, f.disabledIfFalse = some en ∧ assignments.get? en = some expr ∧
        (∃ ew, check fl widths.toCtx constants.toEnv expr = .ok ew) ∧
        ev fl constants.toEnv (fixMux fl widths.toCtx constants.toEnv expr) = .ok v ∧ v.bits = 0))

theorem preprocessOne_conv (g0 : GBuild) (st : PreState) (f : FixedFunction)
    (hnodes : ∀ n ∈ g0.nodes, n ∈ st.graph.nodes)
    (hclean : (preprocessOne fl widths constants assignments known st f).errors = []) :
    CondF fl widths constants assignments g0 f ∧
    (Active assignments f → ∀ out w, f.outWire = some (out, w) →
      (preprocessOne fl widths constants assignments known st f).info.byOutput = st.info.byOutput.insert out f) ∧
    ((¬ Active assignments f ∨ f.outWire = none) →
      (preprocessOne fl widths constants assignments known st f).info.byOutput = st.info.byOutput) := by
  unfold preprocessOne at hclean ⊢
  simp only at hclean ⊢
  by_cases hkc : (f.inWires.map (·.1)).any known.contains = true
  · exfalso
    simp only [hkc, if_true] at hclean
    repeat' split at hclean
    all_goals simp_all [panicDiag]
  · simp only [hkc] at hclean ⊢
    simp only [Bool.false_eq_true, if_false] at hclean ⊢
    by_cases hact : Active assignments f
    · have hmiss : (f.inWires.map (·.1)).filter (fun n => !assignments.contains n) = [] := by
        rw [List.filter_eq_nil_iff]
        intro n hn
        rw [hact n hn]; simp
      simp only [hmiss, List.isEmpty_nil, Bool.not_true, Bool.and_false, Bool.false_eq_true, if_false] at hclean ⊢
      refine ⟨⟨fun _ => hact, fun h => absurd hact h⟩, ?_, ?_⟩
      · intro _ out w ho
        simp only [ho] at hclean ⊢
        by_cases hclash : (known.contains out || assignments.contains out) = true
        · exfalso
          simp only [hclash, if_true] at hclean
          simp [panicDiag] at hclean
        · simp only [hclash]
          simp only [Bool.false_eq_true, if_false]
      · rintro (h | h)
        · exact absurd hact h
        · simp only [h]
    · have hmne : (f.inWires.map (·.1)).filter (fun n => !assignments.contains n) ≠ [] := by
        intro hm
        apply hact
        intro i hi
        rw [List.filter_eq_nil_iff] at hm
        simpa using hm i hi
      have hmiss : ((f.inWires.map (·.1)).filter (fun n => !assignments.contains n)).isEmpty = false := by
        cases hm : (f.inWires.map (·.1)).filter (fun n => !assignments.contains n) with
        | cons a l => rfl
        | nil => exact absurd hm hmne
      simp only [hmiss, Bool.not_false, Bool.and_true] at hclean ⊢
      by_cases hmand : f.mandatory = true
      · exfalso
        simp only [hmand, if_true] at hclean
        cases hout : f.outWire with
        | none =>
          simp only [hout] at hclean
          cases hmc : (f.inWires.map (·.1)).filter (fun n => !assignments.contains n) with
          | nil => exact hmne hmc
          | cons a l => rw [hmc] at hclean; simp at hclean
        | some ow =>
          simp only [hout] at hclean
          cases hmc : (f.inWires.map (·.1)).filter (fun n => !assignments.contains n) with
          | nil => exact hmne hmc
          | cons a l =>
            rw [hmc] at hclean
            split at hclean <;> simp at hclean
      · simp only [hmand] at hclean ⊢
        simp only [Bool.false_eq_true, if_false, if_true] at hclean ⊢
        refine ⟨⟨fun h => absurd h hmand, fun _ => ⟨?_, ?_⟩⟩, fun h => absurd h hact, fun _ => trivial⟩
        · intro out w ho hg0
          rw [List.append_eq_nil_iff, List.append_eq_nil_iff] at hclean
          have he1 := hclean.1.2
          simp only [ho] at he1
          have hc : st.graph.containsNode out = true := by
            unfold GBuild.containsNode
            simpa using hnodes out hg0
          simp only [hc, if_true] at he1
          exact hmne (by simpa using he1)
        · intro hsome
          rw [List.append_eq_nil_iff] at hclean
          have he2 := hclean.2
          obtain ⟨i, hi, hci⟩ := hsome
          have hne := filter_length_ne_of (fun n => !assignments.contains n) (f.inWires.map (·.1)) ⟨i, hi, by simp [hci]⟩
          rw [List.length_map] at hne
          have hlen : (((f.inWires.map (·.1)).filter (fun n => !assignments.contains n)).length != f.inWires.length) = true := by
            simpa using hne
          simp only [hlen, if_true] at he2
          cases hd : f.disabledIfFalse with
          | none => simp [hd] at he2
          | some en =>
            simp only [hd] at he2
            cases hg : assignments.get? en with
            | none => simp [hg] at he2
            | some expr =>
              simp only [hg] at he2
              cases hc : check fl widths.toCtx constants.toEnv expr with
              | error ds => simp [hc] at he2
              | ok ew =>
                simp only [hc] at he2
                cases hev : ev fl constants.toEnv (fixMux fl widths.toCtx constants.toEnv expr) with
                | error err => simp [hev] at he2
                | ok v =>
                  simp only [hev] at he2
                  refine ⟨en, expr, v, by first | exact hd | rfl, by first | exact hg | rfl,
                    ⟨ew, by first | exact hc | rfl⟩, by first | exact hev | rfl, ?_⟩
                  have : ¬ (v.bits > 0) := by simpa using he2
                  omega

theorem preprocess_fold_conv (fixed : List FixedFunction) (ht : FixedTableOK fixed) (g0 : GBuild)
    (hg0 : ∀ e ∈ g0.edges, assignments.contains e.2 = true) :
    ∀ (todo done : List FixedFunction) (st : PreState), done ++ todo = fixed →
      PreFacts assignments known g0 done st →
      (∀ g ∈ done, Active assignments g → ∀ n w, g.outWire = some (n, w) → st.info.byOutput.get? n = some g) →
      (∀ g ∈ done, CondF fl widths constants assignments g0 g) →
      (todo.foldl (preprocessOne fl widths constants assignments known) st).errors = [] →
      (∀ g ∈ fixed, Active assignments g → ∀ n w, g.outWire = some (n, w) →
        (todo.foldl (preprocessOne fl widths constants assignments known) st).info.byOutput.get? n = some g) ∧
      (∀ g ∈ fixed, CondF fl widths constants assignments g0 g)
  | [], done, st, hsplit, _, hcomp, hcond, _ => by
    simp only [List.append_nil] at hsplit
    subst hsplit; exact ⟨hcomp, hcond⟩
  | f :: rest, done, st, hsplit, hf, hcomp, hcond, hclean => by
    simp only [List.foldl_cons] at hclean ⊢
    have hfmem : f ∈ fixed := by rw [← hsplit]; simp
    have hstep := preprocess_fold_errors_back fl widths constants assignments known rest _ hclean
    have hfresh : ∀ o w, f.outWire = some (o, w) → o ∉ st.info.byOutput.keys := by
      intro o w ho hm
      obtain ⟨p, hp, hpe⟩ := List.mem_map.mp hm
      obtain ⟨n, g⟩ := p
      simp only at hpe; subst hpe
      obtain ⟨hgd, ⟨w', hgo⟩, _⟩ := hf.byOut n g hp
      have hnd := ht.outs
      rw [← hsplit, List.filterMap_append, List.nodup_append] at hnd
      exact hnd.2.2 n (List.mem_filterMap.mpr ⟨g, hgd, by simp [hgo]⟩) n
        (List.mem_filterMap.mpr ⟨f, List.mem_cons_self, by simp [ho]⟩) rfl
    obtain ⟨_, hf'⟩ := preprocessOne_facts fl widths constants assignments known g0 done st f hg0 (ht.ins f hfmem) hfresh hstep hf
    obtain ⟨hcf, hA, hB⟩ := preprocessOne_conv fl widths constants assignments known g0 st f hf.nodes hstep
    apply preprocess_fold_conv fixed ht g0 hg0 rest (done ++ [f]) _ (by rw [← hsplit]; simp) hf' _ _ hclean
    · intro g hg hga n w hgo
      rcases List.mem_append.mp hg with h | h
      · have hold := hcomp g h hga n w hgo
        by_cases hact : Active assignments f
        · cases ho : f.outWire with
          | none => rw [hB (Or.inr ho)]; exact hold
          | some ow =>
            obtain ⟨out, w'⟩ := ow
            rw [hA hact out w' ho]
            have hne : n ≠ out := by
              intro e
              apply hfresh out w' ho
              rw [← e]
              exact List.mem_map.mpr ⟨(n, g), AMap.mem_of_get? _ _ _ hold, rfl⟩
            rw [AMap.get?_insert_ne _ _ _ _ hne]
            exact hold
        · rw [hB (Or.inl hact)]; exact hold
      · simp at h; subst h
        rw [hA hga n w hgo]
        exact AMap.get?_insert_self _ _ _
    · intro g hg
      rcases List.mem_append.mp hg with h | h
      · exact hcond g h
      · simp at h; subst h; exact hcf
end

end ActIff

open ActIff

/-- acceptance implies the declarative conditions -/
theorem assignmentsToActions_ok_conds (fl : Flags) (o : Orders) (assignments : AMap Ex) (widths : AMap Width)
    (known : List String) (fixed : List FixedFunction) (declared : List String) (constants : AMap WireValue)
    (ho : OrdersOK o) (ht : FixedTableOK fixed) (hk : assignments.keys.Nodup)
    (hio : ∀ f ∈ fixed, ∀ g ∈ fixed, ∀ w, g.outWire = some w → w.1 ∉ f.inWires.map (·.1))
    (hout : ∀ f ∈ fixed, ∀ n w, f.outWire = some (n, w) → known.contains n = false ∧ assignments.contains n = false)
    (hka : ∀ n, known.contains n = true → assignments.contains n = false)
    (acts : List Action)
    (h : assignmentsToActions fl o assignments widths known fixed declared constants = .ok acts) :
    ActionsOK fl assignments widths known fixed constants := by
  have hrules := assignmentsToActions_rules fl o assignments widths known fixed declared constants acts ho ht hk h
  unfold assignmentsToActions at h
  simp only at h
  obtain ⟨g0wf, g0nodes, g0edges⟩ := assignGraph_spec assignments known hk
  generalize hg0 : assignGraph assignments known = g0 at h g0wf g0nodes g0edges
  generalize hpre : fixed.foldl (preprocessOne fl widths constants assignments known) { graph := g0 } = pre at h
  by_cases hpe : pre.errors.isEmpty = true
  · have hpe' : pre.errors = [] := by simpa using hpe
    simp only [hpe, Bool.not_true, Bool.false_eq_true, if_false] at h
    have hg0c : ∀ e ∈ g0.edges, assignments.contains e.2 = true := by
      intro e he
      obtain ⟨ex, hm, _⟩ := (g0edges e.1 e.2).mp he
      exact (AMap.contains_iff_mem_keys _ _).mpr (List.mem_map.mpr ⟨(e.2, ex), hm, rfl⟩)
    have hinit : PreFacts assignments known g0 [] ({ graph := g0 } : PreState) :=
      { noOut := by intro f hf; simp at hf
        byKeys := by simp [AMap.keys]
        byOut := by intro n f hf; simp at hf
        wf := g0wf
        nodes := fun n hn => hn
        edges := fun e he => Or.inl he
        noOutSub := List.Sublist.refl _
        edgesG0 := fun e he => he
        edgesFixed := by intro n f hf; simp at hf }
    have hpf := preprocess_fold_facts fl widths constants assignments known fixed ht g0 hg0c fixed [] _ (by simp) hinit
      (by rw [hpre]; exact hpe')
    have hconv := preprocess_fold_conv fl widths constants assignments known fixed ht g0 hg0c fixed [] _ (by simp) hinit
      (by intro g hg; simp at hg) (by intro g hg; simp at hg) (by rw [hpre]; exact hpe')
    rw [hpre] at hpf hconv
    obtain ⟨hcomp, hcond⟩ := hconv
    have hunused : ∀ f ∈ fixed, ¬ Active assignments f → ∀ n w, f.outWire = some (n, w) →
        ∀ p ∈ assignments, n ∉ refs p.2 := by
      intro f hf hna n w hfo p hp hr
      have hnn := ((hcond f hf).2 hna).1 n w hfo
      have hedge : (n, p.1) ∈ g0.edges := (g0edges n p.1).mpr ⟨p.2, hp, hr, (hout f hf n w hfo).1⟩
      exact hnn (g0wf.closed _ hedge).1
    rcases pre.graph.sort_spec o hpf.wf ho with ⟨order, hso, _, hcover, hordered⟩ | ⟨c, hsc, _⟩
    · rw [hso] at h
      simp only at h
      have hclean : (actionsLoop fl assignments widths declared constants pre.info.byOutput order { covered := known }).Clean := by
        generalize actionsLoop fl assignments widths declared constants pre.info.byOutput order { covered := known } = st at h
        split at h
        · rename_i herr
          have : st.errors ++ st.seenUndeclared.map (fun n => (⟨.UnsetUndeclaredWire, [n]⟩ : Diag)) = [] := by simpa using herr
          rw [List.append_eq_nil_iff] at this
          exact ⟨this.1, by simpa using this.2⟩
        · simp at h
      have hok := actionsLoop_nameOK fl assignments widths declared constants pre.info.byOutput order _ hclean
      refine ⟨fun f hf => (hcond f hf).1, hunused, fun f hf hna => ((hcond f hf).2 hna).2, hrules, ?_, ?_⟩
      · -- every read name
        intro p hp r hr
        by_cases hkn : known.contains r = true
        · exact Or.inl hkn
        · right
          have hkn' : known.contains r = false := by simpa using hkn
          have hedge : (r, p.1) ∈ g0.edges := (g0edges r p.1).mpr ⟨p.2, hp, hr, hkn'⟩
          have hnode : r ∈ pre.graph.nodes := hpf.nodes r (g0wf.closed _ hedge).1
          have hnok := hok r ((hcover r).mpr hnode)
          unfold nameOK at hnok
          cases hget : assignments.get? r with
          | some e =>
            left
            rw [← AMap.get?_isSome_iff_contains, hget]; rfl
          | none =>
            right
            rw [hget] at hnok
            simp only at hnok
            cases hby : pre.info.byOutput.get? r with
            | none => rw [hby] at hnok; cases hnok
            | some f =>
              obtain ⟨hfd, hw, hall, _⟩ := hpf.byOut r f (AMap.mem_of_get? _ _ _ hby)
              exact ⟨f, hfd, hw, hall⟩
      · -- no cycle
        rintro ⟨c, hc⟩
        apply no_relCycle_of_order (fun u v => (u, v) ∈ pre.graph.edges) order
          (fun u v huv => (hcover v).mpr (hpf.wf.closed _ huv).2)
          (fun pfx x post hs u hu => hordered pfx x post hs u hu)
        refine ⟨c, relCycle_mono ?_ c (relCycle_onCyc c hc)⟩
        rintro u v ⟨huv, ⟨w, hwu⟩, ⟨x, hvx⟩⟩
        rcases huv with ⟨e, he, hr⟩ | ⟨f, hf, ⟨fw, hfo⟩, hu⟩
        · -- `u` has a definition or is driven by a component: it is not a known name
          have hkn : known.contains u = false := by
            rcases hwu with ⟨e', he', _⟩ | ⟨g, hg, ⟨gw, hgo⟩, _⟩
            · cases hku : known.contains u with
              | false => rfl
              | true =>
                have h1 := hka u hku
                have h2 : assignments.contains u = true :=
                  (AMap.contains_iff_mem_keys _ _).mpr (List.mem_map.mpr ⟨(u, e'), he', rfl⟩)
                rw [h1] at h2; cases h2
            · exact (hout g hg u gw hgo).1
          exact hpf.edgesG0 _ ((g0edges u v).mpr ⟨e, he, hr, hkn⟩)
        · by_cases hact : Active assignments f
          · have hget := hcomp f hf hact v fw hfo
            exact hpf.edgesFixed v f (AMap.mem_of_get? _ _ _ hget) u hu
          · exfalso
            rcases hvx with ⟨e', he', hr'⟩ | ⟨g, hg, ⟨gw, hgo⟩, hv⟩
            · exact hunused f hf hact v fw hfo (x, e') he' hr'
            · exact hio g hg f hf (v, fw) hfo hv
    · rw [hsc] at h; simp at h
  · simp only [hpe] at h
    simp at h

/-- **`assignments_to_actions` succeeds exactly when the declarative conditions hold** -/
theorem assignmentsToActions_ok_iff (fl : Flags) (o : Orders) (assignments : AMap Ex) (widths : AMap Width)
    (known : List String) (fixed : List FixedFunction) (declared : List String) (constants : AMap WireValue)
    (ho : OrdersOK o) (ht : FixedTableOK fixed) (hk : assignments.keys.Nodup)
    (hio : ∀ f ∈ fixed, ∀ g ∈ fixed, ∀ w, g.outWire = some w → w.1 ∉ f.inWires.map (·.1))
    (hin : ∀ f ∈ fixed, ∀ n ∈ f.inWires.map (·.1), known.contains n = false)
    (hout : ∀ f ∈ fixed, ∀ n w, f.outWire = some (n, w) → known.contains n = false ∧ assignments.contains n = false)
    -- known names (constants, register outputs) are not assigned
    (hka : ∀ n, known.contains n = true → assignments.contains n = false) :
    (∃ acts, assignmentsToActions fl o assignments widths known fixed declared constants = .ok acts) ↔
      ActionsOK fl assignments widths known fixed constants := by
  constructor
  · rintro ⟨acts, h⟩
    exact assignmentsToActions_ok_conds fl o assignments widths known fixed declared constants ho ht hk hio hout hka acts h
  · intro hc
    exact assignmentsToActions_complete fl o assignments widths known fixed declared constants ho ht hk hio hin hout
      hc.mand hc.unused hc.partialOff hc.assign hc.read hc.acyclic

#print axioms assignmentsToActions_ok_iff
