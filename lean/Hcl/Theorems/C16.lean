import Hcl.Model.Dump
import Hcl.Spec.DumpFormat
import Hcl.Proofs.MemSorted
import Hcl.Proofs.BankDump

/-!
# C16 — the state dump shows the true machine state, completely and parseably

`Dump.state` models `dump_y86`; `Spec.DumpFormat.parse` reads the format back.
(The round trip of whole dumps is established differentially on every generated state; the theorems
below are the ingredients proved so far: numbers survive the hexadecimal rendering at every width, and
the framing of the register lines.)
-/

open Spec.DumpFormat

theorem hexVal_hexDigit : ∀ d, d < 16 → hexVal? (hexDigit d) = some d := by decide

theorem foldlM_append_single (f : Nat → Char → Option Nat) (l : List Char) (c : Char) (init : Nat) :
    (l ++ [c]).foldlM f init = (l.foldlM f init).bind (fun a => f a c) := by
  rw [List.foldlM_append]
  cases l.foldlM f init <;> simp [List.foldlM]

def hexStep (acc : Nat) (c : Char) : Option Nat := (hexVal? c).map (fun d => acc * 16 + d)

/-- **hexadecimal round trip**: reading back the digits printed for `n` gives `n` (any number below 16^fuel) -/
theorem hexDigits_roundtrip : ∀ (fuel n : Nat), n < 16 ^ fuel → (hexDigits fuel n).foldlM hexStep 0 = some n
  | 0, n, h => by simp at h; subst h; rfl
  | fuel+1, n, h => by
    simp only [hexDigits]
    split
    · rename_i hn
      simp [List.foldlM, hexStep, hexVal_hexDigit n hn]
    · rename_i hn
      have hdiv : n / 16 < 16 ^ fuel := by
        rw [Nat.pow_succ] at h
        exact Nat.div_lt_of_lt_mul (by omega)
      rw [foldlM_append_single, hexDigits_roundtrip fuel (n / 16) hdiv]
      simp only [Option.bind, hexStep, hexVal_hexDigit (n % 16) (Nat.mod_lt _ (by decide)), Option.map]
      congr 1
      omega

theorem hexDigits_ne_nil : ∀ (fuel n : Nat), 0 < fuel → hexDigits fuel n ≠ []
  | fuel+1, n, _ => by
    simp only [hexDigits]
    split <;> simp

/-- `{:x}` of any 128-bit number reads back as that number -/
theorem C16_hex_roundtrip (n : Nat) (h : n < 2 ^ 128) : parseHex (toHex n).toList = some n := by
  have hlt : n < 16 ^ 40 := Nat.lt_of_lt_of_le h (by decide)
  have hne := hexDigits_ne_nil 40 n (by decide)
  unfold parseHex toHex
  simp only [String.toList_ofList]
  have : (hexDigits 40 n).isEmpty = false := by
    cases hd : hexDigits 40 n with
    | nil => exact absurd hd hne
    | cons _ _ => rfl
  simp only [this, Bool.false_eq_true, ↓reduceIte]
  exact hexDigits_roundtrip 40 n hlt

theorem zeros_fold : ∀ (k : Nat) (ds : List Char), (List.replicate k '0' ++ ds).foldlM hexStep 0 = ds.foldlM hexStep 0
  | 0, ds => rfl
  | k + 1, ds => by
    rw [List.replicate_succ, List.cons_append, List.foldlM_cons]
    have : hexStep 0 '0' = some 0 := by decide
    rw [this]
    exact zeros_fold k ds

/-- `{:0w$x}` of any 128-bit number, at any width, reads back as that number (bank registers, memory bytes, row labels) -/
theorem C16_hexpad_roundtrip (w n : Nat) (h : n < 2 ^ 128) : parseHex (toHexPad w n).toList = some n := by
  have hlt : n < 16 ^ 40 := Nat.lt_of_lt_of_le h (by decide)
  have hne := hexDigits_ne_nil 40 n (by decide)
  unfold parseHex toHexPad padLeft
  simp only [String.toList_ofList]
  have : (List.replicate (w - (hexDigits 40 n).length) '0' ++ hexDigits 40 n).isEmpty = false := by
    cases hd : hexDigits 40 n with
    | nil => exact absurd hd hne
    | cons _ _ => simp
  simp only [this, Bool.false_eq_true, ↓reduceIte]
  exact (zeros_fold _ _).trans (hexDigits_roundtrip 40 n hlt)

/-! ### the memory section -/

open Dump in
/-- the text of the memory section is the header line followed by the texts of the tokens of the walk -/
theorem C16_memory_text (m : Mem) : Dump.memory m = Dump.memHeader ++ String.join ((Dump.memToks m).map MTok.text) := rfl

/-- **what the walk prints**, for every sorted memory (any set of used addresses below 2^64: sparse, unaligned first
    address, rows far apart, the top of the address space): the row label of the first used address, then key by key the
    empty cells up to it -- completing the row and labelling the key's own row when it lies in a later row -- and its own
    cell, then the empty cells that complete the last row -/
theorem C16_memory_tokens (m : Mem) (h : SortedFrom 0 m) : Dump.memToks m = Dump.specToks m :=
  Dump.memToks_spec m h.sorted

/-- **every used byte is shown at its own address and nothing else is**: reading the tokens back -- a byte shown in
    column `i` of the row labelled `r` is the byte at address `16 r + i` -- gives exactly the memory -/
theorem C16_memory_roundtrip (m : Mem) (h : SortedFrom 0 m) (r : Nat) : Dump.readToks (Dump.memToks m) r = m :=
  Dump.read_memToks m h.sorted r

/-- **16-byte rows**: the tokens are a sequence of complete rows, each a label followed by the cells 0, 1, .., 15 -/
theorem C16_memory_rows (m : Mem) (h : SortedFrom 0 m) : Dump.runRows none (Dump.memToks m) = some none :=
  Dump.rows_memToks m h.sorted

/-- **the hypothesis holds of every memory the simulator can be in**: the image the loader accepts is sorted, and every
    cycle keeps it so -/
theorem C16_memory_reachable (fl : Flags) (p : Program) (lines : List Bytes) (m : Mem) (s₀ t : State) (n : Nat)
    (hl : Yo.load lines = .ok m) (hi : State.init p m = .ok s₀) (hr : runN fl p n s₀ = .ok t) : SortedFrom 0 t.mem := by
  have h0 : SortedFrom 0 s₀.mem := by
    unfold State.init at hi
    obtain ⟨v, _, hi⟩ := bind_ok hi
    simp only [pure, Except.pure, Except.ok.injEq] at hi
    rw [← hi]
    exact Yo.load_sorted lines m hl
  exact runN_mem_sorted fl p n s₀ t h0 hr

/-! non-vacuity: a sparse memory with an unaligned first address, two bytes in one row, a row far away and the last byte
    of the address space -/
def exMem : Mem := [(5, 1), (7, 2), (4096, 3), (2 ^ 64 - 1, 255)]
example : SortedFrom 0 exMem := by unfold exMem SortedFrom SortedFrom SortedFrom SortedFrom SortedFrom U64; decide
example : (Dump.memToks exMem).length = 3 * 17 := by decide

/-! ### the register banks -/

/-- the text of a bank is the texts of its tokens -/
theorem C16_bank_text (vals : AMap WireValue) (b : RegisterBank) :
    Dump.bank vals b = String.join ((Dump.bankToks vals b).map Dump.BTok.text) := rfl

/-- **every register of a bank with its value, and the bank's state**: `dump_bank` prints the opening with the bank's
    label and N/S/B (bubbled wins over stalled), then -- separated only by line breaks -- one `name=value` item per
    register of the bank, in declaration order, with the value its output wire holds now and as many hexadecimal digits
    as its width needs, then the closing brace -/
theorem C16_bank_registers (vals : AMap WireValue) (b : RegisterBank) :
    ∃ body n, Dump.bankToks vals b = Dump.BTok.head b.label (Dump.statusOf vals b) :: body ++ [Dump.BTok.close, Dump.BTok.fin n] ∧
      (∀ t ∈ body, t.inner = true) ∧ body.filterMap Dump.BTok.item? = b.signals.map (Dump.shownOf vals) :=
  Dump.bankToks_shape vals b

/-- **every declared bank, once**: for banks with pairwise distinct output letters, the banks printed are a
    rearrangement of the declared banks (`P F D E M W` first, the others by letter) -/
theorem C16_banks_all_printed (vals : AMap WireValue) (banks : List RegisterBank) (h : (banks.map Dump.letterOf).Nodup) :
    Dump.customRegisters vals banks = String.join ((Dump.printedBanks banks).map (Dump.bank vals)) ∧
    (Dump.printedBanks banks).Perm banks :=
  ⟨rfl, Dump.printedBanks_perm banks h⟩
