import Hcl.Proofs.Settle
open Rust

/-! The width checker and the mux fix-up read the width table and the constants only at the names the expression
    refers to. -/

def agreeOnC (l : List String) (Γ Δ : Ctx) : Prop := ∀ x ∈ l, Γ x = Δ x

theorem agreeOnC_left {a b : List String} {Γ Δ : Ctx} (h : agreeOnC (a ++ b) Γ Δ) : agreeOnC a Γ Δ :=
  fun x hx => h x (List.mem_append_left _ hx)
theorem agreeOnC_right {a b : List String} {Γ Δ : Ctx} (h : agreeOnC (a ++ b) Γ Δ) : agreeOnC b Γ Δ :=
  fun x hx => h x (List.mem_append_right _ hx)

theorem alwaysTrue_congr (fl : Flags) (σ τ : Env) (e : Ex) (h : agreeOn (refs e) σ τ) : alwaysTrue fl σ e = alwaysTrue fl τ e := by
  unfold alwaysTrue
  rw [ev_congr fl σ τ e h]

mutual
theorem check_congr (fl : Flags) (Γ Δ : Ctx) (σ τ : Env) : ∀ (e : Ex), agreeOnC (refs e) Γ Δ → agreeOn (refs e) σ τ →
    check fl Γ σ e = check fl Δ τ e
  | .const _, _, _ => by simp [check]
  | .bin op l r, hc, he => by
      simp only [refs] at hc he
      simp only [check, check_congr fl Γ Δ σ τ l (agreeOnC_left hc) (agreeOn_left he),
        check_congr fl Γ Δ σ τ r (agreeOnC_right hc) (agreeOn_right he)]
  | .un .not e, hc, he => by
      simp only [refs] at hc he
      simp only [check, check_congr fl Γ Δ σ τ e hc he]
  | .un .neg e, hc, he => by
      simp only [refs] at hc he
      simp only [check, check_congr fl Γ Δ σ τ e hc he]
  | .un .compl e, hc, he => by
      simp only [refs] at hc he
      simp only [check, check_congr fl Γ Δ σ τ e hc he]
  | .un .plus e, hc, he => by
      simp only [refs] at hc he
      simp only [check, check_congr fl Γ Δ σ τ e hc he]
  | .wire n, hc, _ => by
      simp only [refs] at hc
      simp only [check, hc n (by simp)]
  | .slice e lo hi, hc, he => by
      simp only [refs] at hc he
      simp only [check, check_congr fl Γ Δ σ τ e hc he]
  | .concat l r, hc, he => by
      simp only [refs] at hc he
      simp only [check, check_congr fl Γ Δ σ τ l (agreeOnC_left hc) (agreeOn_left he),
        check_congr fl Γ Δ σ τ r (agreeOnC_right hc) (agreeOn_right he)]
  | .mux o, hc, he => by
      simp only [refs] at hc he
      simp only [check, checkOpts_congr fl Γ Δ σ τ o {} hc he]
  | .inSet e items, hc, he => by
      simp only [refs] at hc he
      simp only [check, check_congr fl Γ Δ σ τ e (agreeOnC_left hc) (agreeOn_left he)]
      congr 1; funext a
      rw [checkItems_congr fl Γ Δ σ τ a items (agreeOnC_right hc) (agreeOn_right he)]
theorem checkOpts_congr (fl : Flags) (Γ Δ : Ctx) (σ τ : Env) : ∀ (o : Opts) (s : MuxScan), agreeOnC (refsOpts o) Γ Δ →
    agreeOn (refsOpts o) σ τ → checkOpts fl Γ σ o s = checkOpts fl Δ τ o s
  | .nil, _, _, _ => by simp [checkOpts]
  | .cons c v rest, s, hc, he => by
      simp only [refsOpts] at hc he
      simp only [checkOpts, check_congr fl Γ Δ σ τ c (agreeOnC_left (agreeOnC_left hc)) (agreeOn_left (agreeOn_left he)),
        check_congr fl Γ Δ σ τ v (agreeOnC_right (agreeOnC_left hc)) (agreeOn_right (agreeOn_left he)),
        alwaysTrue_congr fl σ τ c (agreeOn_left (agreeOn_left he))]
      congr 1; funext _
      congr 1; funext w
      exact checkOpts_congr fl Γ Δ σ τ rest _ (agreeOnC_right hc) (agreeOn_right he)
theorem checkItems_congr (fl : Flags) (Γ Δ : Ctx) (σ τ : Env) (a : Width) : ∀ (items : Exs), agreeOnC (refsExs items) Γ Δ →
    agreeOn (refsExs items) σ τ → checkItems fl Γ σ a items = checkItems fl Δ τ a items
  | .nil, _, _ => by simp [checkItems]
  | .cons e rest, hc, he => by
      simp only [refsExs] at hc he
      simp only [checkItems, check_congr fl Γ Δ σ τ e (agreeOnC_left hc) (agreeOn_left he),
        checkItems_congr fl Γ Δ σ τ a rest (agreeOnC_right hc) (agreeOn_right he)]
end

mutual
theorem fixMux_congr (fl : Flags) (Γ Δ : Ctx) (σ τ : Env) : ∀ (e : Ex), agreeOnC (refs e) Γ Δ → agreeOn (refs e) σ τ →
    fixMux fl Γ σ e = fixMux fl Δ τ e
  | .const _, _, _ => by simp [fixMux]
  | .bin op l r, hc, he => by
      simp only [refs] at hc he
      simp only [fixMux, fixMux_congr fl Γ Δ σ τ l (agreeOnC_left hc) (agreeOn_left he),
        fixMux_congr fl Γ Δ σ τ r (agreeOnC_right hc) (agreeOn_right he)]
  | .un op e, hc, he => by
      simp only [refs] at hc he
      simp only [fixMux, fixMux_congr fl Γ Δ σ τ e hc he]
  | .wire n, _, _ => by simp [fixMux]
  | .slice e lo hi, hc, he => by
      simp only [refs] at hc he
      simp only [fixMux, fixMux_congr fl Γ Δ σ τ e hc he]
  | .concat l r, hc, he => by
      simp only [refs] at hc he
      simp only [fixMux, fixMux_congr fl Γ Δ σ τ l (agreeOnC_left hc) (agreeOn_left he),
        fixMux_congr fl Γ Δ σ τ r (agreeOnC_right hc) (agreeOn_right he)]
  | .mux o, hc, he => by
      have hchk := check_congr fl Γ Δ σ τ (.mux o) hc he
      simp only [refs] at hc he
      simp only [fixMux, fixMuxOpts_congr fl Γ Δ σ τ o hc he, hchk]
  | .inSet e items, hc, he => by
      simp only [refs] at hc he
      simp only [fixMux, fixMux_congr fl Γ Δ σ τ e (agreeOnC_left hc) (agreeOn_left he),
        fixMuxExs_congr fl Γ Δ σ τ items (agreeOnC_right hc) (agreeOn_right he)]
theorem fixMuxOpts_congr (fl : Flags) (Γ Δ : Ctx) (σ τ : Env) : ∀ (o : Opts), agreeOnC (refsOpts o) Γ Δ →
    agreeOn (refsOpts o) σ τ → fixMuxOpts fl Γ σ o = fixMuxOpts fl Δ τ o
  | .nil, _, _ => by simp [fixMuxOpts]
  | .cons c v rest, hc, he => by
      simp only [refsOpts] at hc he
      simp only [fixMuxOpts, fixMux_congr fl Γ Δ σ τ c (agreeOnC_left (agreeOnC_left hc)) (agreeOn_left (agreeOn_left he)),
        fixMux_congr fl Γ Δ σ τ v (agreeOnC_right (agreeOnC_left hc)) (agreeOn_right (agreeOn_left he)),
        fixMuxOpts_congr fl Γ Δ σ τ rest (agreeOnC_right hc) (agreeOn_right he)]
theorem fixMuxExs_congr (fl : Flags) (Γ Δ : Ctx) (σ τ : Env) : ∀ (items : Exs), agreeOnC (refsExs items) Γ Δ →
    agreeOn (refsExs items) σ τ → fixMuxExs fl Γ σ items = fixMuxExs fl Δ τ items
  | .nil, _, _ => by simp [fixMuxExs]
  | .cons e rest, hc, he => by
      simp only [refsExs] at hc he
      simp only [fixMuxExs, fixMux_congr fl Γ Δ σ τ e (agreeOnC_left hc) (agreeOn_left he),
        fixMuxExs_congr fl Γ Δ σ τ rest (agreeOnC_right hc) (agreeOn_right he)]
end

theorem checkFixEval_congr (fl : Flags) (Γ Δ : Ctx) (σ τ : Env) (e : Ex) (hc : agreeOnC (refs e) Γ Δ) (he : agreeOn (refs e) σ τ) :
    checkFixEval fl Γ σ e = checkFixEval fl Δ τ e := by
  unfold checkFixEval
  rw [check_congr fl Γ Δ σ τ e hc he, fixMux_congr fl Γ Δ σ τ e hc he,
    ev_congr fl σ τ (fixMux fl Δ τ e) (fun x hx => he x (by rw [refs_fixMux] at hx; exact hx))]
