"""C18 — debug and quiet options change what is printed, never what is simulated."""
from props import C19
from props.common_prog import judge_prog

THEOREM_MODULES = ["Hcl.Theorems.C18", "Hcl.Theorems.C18Messages", "Hcl.Tie.PinsTable"]
THEOREMS = {"Hcl.Theorems.C18Messages": ["C18_message_memory_read", "C18_message_memory_read_always", "C18_message_memory_not_read", "C18_message_memory_write", "C18_message_memory_not_written", "C18_message_register_read", "C18_message_register_read_general", "C18_message_register_read_in_cycle", "C18_message_register_write", "C18_message_assign", "C18_message_status", "C18_messages_do_not_change_state", "C18_messages_ok_iff", "C18_cycle_lines_are_action_lines", "C18_trace_extends_debug", "C18_register_names"],
            "Hcl.Theorems.C18": ["C18_ungrouped_lists", "C18_grouped_lists", "C18_listed_once", "C18_value_reads_back",
                                 "C18_value_width"],
            "Hcl.Tie.PinsTable": ["Tie.PinsTable.pinFindTableWidths", "Tie.PinsTable.pinDumpWireSubtable"]}

RULE = ("options: random S-PROG programs (all profiles, 1-12 cycles) are stepped in-process with the real step_with_output "
        "under the empty, the full and six random subsets of {-q,-d,-t,--ungroup-debug-wires,--trace-assignments}; after every "
        "cycle all wire values, registers, memory and status must equal those of the option-free run (which is itself "
        "compared with the Lean model and the specification), and under -d no table row may repeat a name or list a "
        "constant. table: the -d wire table (grouped and ungrouped) printed by the real code in every cycle is compared "
        "byte for byte with Dump.wireTable (names up to 60 bytes, widths 0-128: the value column widens beyond 22). "
        "messages: the lines --trace-assignments and -d print about every assignment and every built-in component in every cycle (memory read/write with address and data, 'not reading/writing', register read/write with number, name and value), as a sorted list per cycle, byte for byte against Dump.cycleMessages. "
        "trace/disasm: the instruction line printed in every mode except -q, for every pair of first two instruction bytes and random pcs/memories, against the model (no panic). distinct = (program text, option sample); non-trivial = accepted programs.")


def judge_options(req, impl, model, spec):
    if impl.startswith("OPTIONS-DIFF"):
        return {"corr": False, "oracle": False, "what": "an output option changed the simulation: " + impl[:300],
                "key": req, "cats": ["options-diff"]}
    j = judge_prog(req, impl, model, spec)
    if "TABLE-" in impl:
        j["oracle"] = False
        j["what"] = "the -d table " + impl[impl.index("TABLE-"):][:80]
    if not impl.startswith("ok"):
        j["key"] = None
    return j


def judge_table(req, impl, model, spec):
    rej = impl.startswith("rej")
    corr = (impl == model) or (rej and model.startswith("rej"))
    cats = ["grouped" if "(grouped 1)" in req else "ungrouped"]
    if rej:
        cats.append("rejected")
    ok = impl != "PANIC"
    what = "" if ok else "stepping with -d panicked on a program that runs without it"
    return {"corr": corr, "oracle": ok, "what": what, "key": None if rej else req, "cats": cats}


def judge_messages(req, impl, model, spec):
    rej = impl.startswith("rej")
    ok = impl != "PANIC"
    cats = ["trace-assignments" if "(assigns 1)" in req else "debug"]
    if rej:
        cats.append("rejected")
    for key, cat in (("bytes from memory at mem_addr", "memory-read"), ("not reading from memory", "not-reading"), (" to memory at ", "memory-write"),
                     ("not writing to memory", "not-writing"), (" from register ", "register-read"), (" into register ", "register-write")):
        if key in impl:
            cats.append(cat)
    return {"corr": impl == model, "oracle": ok, "what": "" if ok else "printing the activity messages panicked", "key": None if rej else req,
            "cats": cats}


def judge_trace(req, impl, model, spec):
    # the per-cycle instruction line is printed in every mode but -q: it must never take the simulation down
    ok = not impl.startswith("PANIC")
    return {"corr": impl == model, "oracle": ok, "what": "" if ok else "printing the instruction line panicked: " + req[:200],
            "key": req, "cats": ["trace"]}


def streams(tier, seed):
    q = tier == "quick"
    return [{"name": "options", "stream": "options", "count": 250 if q else 10000, "judge": judge_options},
            {"name": "table", "stream": "table", "count": 300 if q else 12000, "judge": judge_table},
            {"name": "messages", "stream": "messages", "count": 300 if q else 12000, "judge": judge_messages},
            {"name": "trace", "stream": "trace", "count": 3000 if q else 100000, "judge": judge_trace},
            {"name": "disasm", "stream": "disasm", "count": 2 if q else 10, "judge": judge_trace},
            # the same through FILES and the command line (accepted, rejected, big, not UTF-8, bare-CR, empty and malformed images, -q/-d/-t with and without TIMEOUT): the real binary, as in C19
            {"name": "cli", "stream": "cli", "count": 300 if q else 8000, "pygen": C19.pygen, "judge": C19.judge}]
