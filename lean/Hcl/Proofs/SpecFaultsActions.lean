import Hcl.Proofs.SpecFaultsMid
open Rust Reorder

/-! # Assignments and built-in components: `neededAssigned` and `ActionsOK` against the specification's parts -/

namespace SF

theorem filter_length_lt {α : Type} (p : α → Bool) (l : List α) (h : ∃ x ∈ l, p x = false) : (l.filter p).length < l.length := by
  have h1 := ActIff.filter_length_ne_of p l h
  have h2 := List.length_filter_le p l
  omega

theorem exists_of_filter_length_lt {α : Type} (p : α → Bool) : ∀ (l : List α), (l.filter p).length < l.length → ∃ x ∈ l, p x = false
  | [], h => by simp at h
  | a :: rest, h => by
    by_cases hp : p a = true
    · rw [List.filter_cons_of_pos hp] at h
      simp only [List.length_cons] at h
      obtain ⟨x, hx, hpx⟩ := exists_of_filter_length_lt p rest (by omega)
      exact ⟨x, List.mem_cons_of_mem _ hx, hpx⟩
    · exact ⟨a, List.mem_cons_self, by simpa using hp⟩

theorem compatible_of_combine (tw ew : Width) : (tw.combine ew).isSome = true ↔ Spec.compatible tw ew = true := by
  rw [combine_spec]; cases Spec.compatible tw ew <;> simp

/-! ### facts that hold after the first three stages -/

section
variable {fl : Flags} {cls : CharClass} {o : Orders} {stmts : List Stmt} {c : AMap WireValue} (hm : Mid fl cls o stmts c)
include hm

theorem Mid.assigns_get (n : String) (e : Ex) : (step1Of stmts).assignments.get? n = some e ↔ (n, e) ∈ (el stmts).assigns := by
  rw [hm.front.assignments_eq]
  have hk : (AMap.keys (el stmts).assigns).Nodup := by
    show (targets stmts).Nodup
    rw [targets_eq]; exact hm.front.targetsNodup
  exact ⟨AMap.mem_of_get? _ _ _, AMap.get?_of_mem_nodup _ _ _ hk⟩

theorem Mid.mem_assignments (p : String × Ex) : p ∈ (step1Of stmts).assignments ↔ p ∈ (el stmts).assigns := by
  rw [hm.front.assignments_eq]

omit hm in
/-- a component has all its inputs iff the specification finds none missing -/
theorem active_iff (f : FixedFunction) : Active (step1Of stmts).assignments f ↔ missingC stmts (compOf f) = [] := by
  unfold Active missingC compOf
  simp only
  rw [List.filter_eq_nil_iff]
  apply forall_congr'
  intro i
  apply forall_congr'
  intro _
  rw [assignments_contains_iff stmts, ← assigned_iff]
  cases assigned stmts i <;> simp

theorem Mid.known_spec (n : String) : known cls.isLower cls.isUpper stmts n = true ↔ (Kof fl cls stmts c).contains n = true := by
  rw [hm.known_iff]
  unfold known
  rw [hm.goodBanks]
  simp

/-- a known name (constant or register output) is neither assigned nor a built-in output -/
theorem Mid.known_not_target (n : String) (h : n ∈ constNames stmts ∨ n ∈ bankOutOf (el stmts).banks) : n ∉ targets stmts := by
  intro ht
  rcases h with h | h
  · have := hm.front.targetsNotConstant n (by rw [← targets_eq]; exact ht)
    rw [(constantsRaw_contains_iff stmts n).mpr h] at this; cases this
  · obtain ⟨b, hb, r, hr, rfl⟩ := (mem_bankOutOf _ n).mp h
    rw [el_banks] at hb
    obtain ⟨i, o', hn, _, _, _, _, hregs⟩ := (hm.front.banksOK b hb).ok
    have := (hregs r hr).outNotAssigned
    rw [← outNameOf_eq b i o' hn r, (assignments_contains_iff stmts _).mpr ht] at this
    cases this

theorem Mid.known_not_builtin (n : String) (h : n ∈ constNames stmts ∨ n ∈ bankOutOf (el stmts).banks) :
    n ∉ builtinIn ++ builtinOut := by
  intro hb
  rcases h with h | h
  · exact (hm.basic.declFresh n (List.mem_append_right _ h)).2.2 hb
  · obtain ⟨b, _, r, _, rfl⟩ := (mem_bankOutOf _ n).mp h
    have := (fixed_not_sig _ hb).1
    rw [outName_sig b r] at this; cases this

end

theorem mem_builtinOut_iff (n : String) : n ∈ builtinOut ↔ ∃ f ∈ y86FixedFunctions, ∃ w, f.outWire = some (n, w) := by
  rw [builtinOut_eq, List.mem_filterMap]
  constructor
  · rintro ⟨f, hf, h⟩
    cases ho : f.outWire with
    | none => rw [ho] at h; cases h
    | some p =>
      rw [ho] at h
      simp only [Option.map_some, Option.some.injEq] at h
      exact ⟨f, hf, p.2, by rw [ho, ← h]⟩
  · rintro ⟨f, hf, w, ho⟩
    exact ⟨f, hf, by rw [ho]; rfl⟩

theorem mem_components (f : FixedFunction) (hf : f ∈ y86FixedFunctions) : compOf f ∈ Spec.components := by
  rw [components_eq]; exact List.mem_map.mpr ⟨f, hf, rfl⟩

/-! ### the two edge lists of the specification -/

theorem mem_eAssign (isLower isUpper : Char → Bool) (stmts : List Stmt) (u v : String) :
    (u, v) ∈ eAssign isLower isUpper stmts ↔
      ∃ e, (v, e) ∈ (el stmts).assigns ∧ u ∈ refs e ∧ known isLower isUpper stmts u = false := by
  unfold eAssign
  simp only [List.mem_flatMap, List.mem_filterMap]
  constructor
  · rintro ⟨p, hp, n, hn, h⟩
    cases hk : known isLower isUpper stmts n with
    | true => rw [hk] at h; simp at h
    | false =>
      rw [hk] at h
      simp only [Bool.false_eq_true, if_false, Option.some.injEq, Prod.mk.injEq] at h
      obtain ⟨rfl, rfl⟩ := h
      exact ⟨p.2, hp, (mem_dedup _ _).mp hn, hk⟩
  · rintro ⟨e, he, hu, hk⟩
    exact ⟨(v, e), he, u, (mem_dedup _ _).mpr hu, by simp [hk]⟩

theorem mem_eComp (stmts : List Stmt) (u v : String) :
    (u, v) ∈ eComp stmts ↔ ∃ f ∈ y86FixedFunctions, (∃ w, f.outWire = some (v, w)) ∧ u ∈ f.inWires.map (·.1) ∧
      missingC stmts (compOf f) = [] := by
  unfold eComp
  rw [components_eq, List.mem_flatMap]
  constructor
  · rintro ⟨c, hc, h⟩
    obtain ⟨f, hf, rfl⟩ := List.mem_map.mp hc
    cases ho : f.outWire with
    | none => simp [compOf, ho] at h
    | some p =>
      have hco : (compOf f).output = some p.1 := by simp [compOf, ho]
      rw [hco] at h
      simp only at h
      split at h
      · rename_i hall
        obtain ⟨i, hi, he⟩ := List.mem_map.mp h
        simp only [Prod.mk.injEq] at he
        obtain ⟨rfl, rfl⟩ := he
        refine ⟨f, hf, ⟨p.2, ho⟩, hi, ?_⟩
        unfold missingC
        rw [List.filter_eq_nil_iff]
        intro x hx
        have := List.all_eq_true.mp hall x hx
        simp [this]
      · cases h
  · rintro ⟨f, hf, ⟨w, ho⟩, hu, hmiss⟩
    refine ⟨compOf f, List.mem_map.mpr ⟨f, hf, rfl⟩, ?_⟩
    have hco : (compOf f).output = some v := by simp [compOf, ho]
    rw [hco]
    simp only
    have hall : (compOf f).inputs.all (assigned stmts) = true := by
      rw [List.all_eq_true]
      intro x hx
      unfold missingC at hmiss
      rw [List.filter_eq_nil_iff] at hmiss
      have := hmiss x hx
      simpa using this
    rw [if_pos hall]
    exact List.mem_map.mpr ⟨u, hu, rfl⟩


/-! ### specification ⇒ model -/

theorem disabledC_true (stmts : List Stmt) (f : FixedFunction) (h : disabledC stmts (compOf f) = true) :
    ∃ en e, f.disabledIfFalse = some en ∧ (el stmts).assigns.lookup en = some e ∧ isConstExpr stmts e = true ∧
      Spec.dv (Spec.design stmts).Γ (constEnv stmts) e = some 0 := by
  unfold disabledC compOf at h
  simp only at h
  cases hd : f.disabledIfFalse with
  | none => rw [hd] at h; cases h
  | some en =>
    rw [hd] at h
    simp only at h
    cases hl : (el stmts).assigns.lookup en with
    | none => rw [hl] at h; cases h
    | some e =>
      rw [hl] at h
      simp only [Bool.and_eq_true, beq_iff_eq] at h
      exact ⟨en, e, rfl, hl, h.1, h.2⟩

theorem isConstExpr_iff (stmts : List Stmt) (e : Ex) : isConstExpr stmts e = true ↔ ∀ n ∈ refs e, n ∈ constNames stmts := by
  unfold isConstExpr
  rw [List.all_eq_true]
  apply forall_congr'
  intro n
  apply forall_congr'
  intro _
  simp

section
variable {fl : Flags} {cls : CharClass} {o : Orders} {stmts : List Stmt} {c : AMap WireValue} (hm : Mid fl cls o stmts c)
include hm

/-- **assignments and components, specification ⇒ model** -/
theorem actions_sound
    (hplainA : ∀ p ∈ (el stmts).assigns, ∀ cd ∈ conds p.2, Plain (K stmts) cd = true)
    (h3 : f3 cls.isLower cls.isUpper stmts = []) (h4 : f4 cls.isLower cls.isUpper stmts = [])
    (h6a : f6a cls.isLower cls.isUpper stmts = []) (h6b : f6b cls.isLower cls.isUpper stmts = [])
    (h6c : f6c cls.isLower cls.isUpper stmts = []) (hwA : wAssign fl stmts = [])
    (hcyc : Spec.cyclicNodes (eAssign cls.isLower cls.isUpper stmts ++ eComp stmts) = []) :
    (∀ n ∈ neededOf (step1Of stmts) (step3Of fl cls (step1Of stmts) c), n ∈ allTargets stmts) ∧
    ActionsOK fl (step1Of stmts).assignments (Wof fl cls stmts c) (Kof fl cls stmts c) y86FixedFunctions c := by
  have hgb := hm.goodBanks
  have H3 := (f3_nil_iff cls.isLower cls.isUpper stmts).mp h3
  have H4 := (f4_nil_iff cls.isLower cls.isUpper stmts).mp h4
  have H6a := (f6a_nil_iff cls.isLower cls.isUpper stmts).mp h6a
  have H6c := (f6c_nil_iff cls.isLower cls.isUpper stmts).mp h6c
  rw [hgb] at H6a H6c
  have HwA := (wAssign_nil_iff fl stmts).mp hwA
  have H6b : ∀ f ∈ y86FixedFunctions, (missingC stmts (compOf f) = [] ∨
      (neededC cls.isLower cls.isUpper stmts (compOf f) = false ∧
        ((missingC stmts (compOf f)).length < (compOf f).inputs.length → disabledC stmts (compOf f) = true))) :=
    fun f hf => (f6bOf_nil_iff _ _ stmts _).mp ((f6b_nil_iff _ _ stmts).mp h6b _ (mem_components f hf))
  have hexprA : ∀ p ∈ (el stmts).assigns, p.2 ∈ exprs cls.isLower cls.isUpper stmts := by
    intro p hp
    unfold exprs
    exact List.mem_append_left _ (List.mem_append_left _ (List.mem_map.mpr ⟨p, hp, rfl⟩))
  have hread : ∀ p ∈ (el stmts).assigns, ∀ r ∈ refs p.2, r ∈ readNames cls.isLower cls.isUpper stmts :=
    fun p hp r hr => (mem_readNames _ _ stmts r).mpr ⟨p.2, hexprA p hp, hr⟩
  -- a needed component has all its inputs
  have hneeded : ∀ f ∈ y86FixedFunctions, neededC cls.isLower cls.isUpper stmts (compOf f) = true →
      Active (step1Of stmts).assignments f := by
    intro f hf hn
    rcases H6b f hf with h | h
    · exact (active_iff f).mpr h
    · rw [hn] at h; cases h.1
  have hreadOut : ∀ f ∈ y86FixedFunctions, ∀ n w, f.outWire = some (n, w) → n ∈ readNames cls.isLower cls.isUpper stmts →
      Active (step1Of stmts).assignments f := by
    intro f hf n w ho hr
    apply hneeded f hf
    unfold neededC compOf
    simp only [ho, Option.map_some]
    have : (readNames cls.isLower cls.isUpper stmts).contains n = true := by simpa using hr
    rw [this]; simp
  refine ⟨?_, ?_, ?_, ?_, ?_, ?_, ?_⟩
  · -- needed names
    intro n hn
    rw [← targets_eq]
    exact H6a n (List.mem_append.mpr ((hm.needed_iff n).mp hn))
  · -- mandatory components
    intro f hf hmand
    apply hneeded f hf
    unfold neededC compOf
    simp only [hmand, Bool.true_or]
  · -- unused components
    intro f hf hna n w ho p hp hr
    rcases H6b f hf with h | h
    · exact hna ((active_iff f).mpr h)
    · have hn := h.1
      unfold neededC compOf at hn
      simp only [ho, Option.map_some, Bool.or_eq_false_iff] at hn
      have hrn := hread p ((hm.mem_assignments p).mp hp) n hr
      have : (readNames cls.isLower cls.isUpper stmts).contains n = true := by simpa using hrn
      rw [this] at hn
      cases hn.2.1
  · -- partially wired components
    intro f hf hna hsome
    rcases H6b f hf with h | h
    · exact absurd ((active_iff f).mpr h) hna
    · obtain ⟨i, hi, hci⟩ := hsome
      have hlt : (missingC stmts (compOf f)).length < (compOf f).inputs.length := by
        unfold missingC
        apply filter_length_lt
        refine ⟨i, hi, ?_⟩
        have : assigned stmts i = true := (assigned_iff stmts i).mpr ((assignments_contains_iff stmts i).mp hci)
        simp [this]
      obtain ⟨en, e, hd, hl, hce, hdv⟩ := disabledC_true stmts f (h.2 hlt)
      have hmem : (en, e) ∈ (el stmts).assigns := mem_of_lookup _ en e hl
      obtain ⟨ew, hty, _⟩ := HwA (en, e) hmem
      have hwfe := wf_assigns hm.wf _ hmem
      rw [hm.typeOf_eq e hwfe (hplainA _ hmem)] at hty
      have hck := okOf_some _ _ hty.symm
      obtain ⟨_, _, hmv⟩ := hm.dv_eq e hwfe ((isConstExpr_iff stmts e).mp hce) ew hck
      rw [hdv] at hmv
      simp only at hmv
      exact ⟨en, e, ⟨0, ew⟩, hd, (hm.assigns_get en e).mpr hmem, ⟨ew, hck⟩, hmv.1, rfl⟩
  · -- every assignment obeys the width rules
    intro n e hne
    have hmem := (hm.assigns_get n e).mp hne
    obtain ⟨ew, hty, hcomp⟩ := HwA (n, e) hmem
    have hnt : n ∈ targets stmts := List.mem_map.mpr ⟨(n, e), hmem, rfl⟩
    obtain ⟨tw, htw⟩ := Option.isSome_iff_exists.mp ((hm.Γ_some_iff n).mpr (H4 n hnt))
    rw [hm.typeOf_eq e (wf_assigns hm.wf _ hmem) (hplainA _ hmem)] at hty
    refine ⟨tw, ew, ?_, okOf_some _ _ hty.symm, (compatible_of_combine tw ew).mpr (hcomp tw htw)⟩
    rw [hm.Γ] at htw
    exact htw
  · -- every name read has a source
    intro p hp r hr
    have hp' := (hm.mem_assignments p).mp hp
    have hd := H3 p.2 (hexprA p hp') r hr
    have hrn := hread p hp' r hr
    unfold allDecls at hd
    rw [hgb] at hd
    simp only [List.mem_append] at hd
    rcases hd with (((((h | h) | h) | h) | h) | h) | h
    · exact Or.inr (Or.inl ((assignments_contains_iff stmts r).mpr (H6a r (List.mem_append_left _ h))))
    · exact Or.inl ((hm.known_iff r).mpr (Or.inl h))
    · exact Or.inr (Or.inl ((assignments_contains_iff stmts r).mpr (H6a r (List.mem_append_right _ h))))
    · exact Or.inl ((hm.known_iff r).mpr (Or.inr h))
    · exact Or.inr (Or.inl ((assignments_contains_iff stmts r).mpr (H6c r (List.mem_append_right _ h) hrn)))
    · exact Or.inr (Or.inl ((assignments_contains_iff stmts r).mpr (H6c r (List.mem_append_left _ h) hrn)))
    · obtain ⟨f, hf, w, ho⟩ := (mem_builtinOut_iff r).mp h
      exact Or.inr (Or.inr ⟨f, hf, ⟨w, ho⟩, hreadOut f hf r w ho hrn⟩)
  · -- no dependency cycle
    rintro ⟨cy, hc⟩
    apply SF.acyclic_of_cyclicNodes_nil _ hcyc
    refine ⟨cy, relCycle_mono ?_ cy (ActIff.relCycle_onCyc cy hc)⟩
    rintro u v ⟨huv, ⟨w, hwu⟩, ⟨x, hvx⟩⟩
    rcases huv with ⟨e, he, hr⟩ | ⟨f, hf, ⟨fw, hfo⟩, hu⟩
    · -- an assignment `v = e` that reads `u`; `u` is driven, so it is not a known name
      apply List.mem_append_left
      rw [mem_eAssign]
      refine ⟨e, (hm.mem_assignments _).mp he, hr, ?_⟩
      cases hk : known cls.isLower cls.isUpper stmts u with
      | false => rfl
      | true =>
        exfalso
        have hku := (hm.known_iff u).mp ((hm.known_spec u).mp hk)
        rcases hwu with ⟨e', he', _⟩ | ⟨g, hg, ⟨gw, hgo⟩, _⟩
        · exact hm.known_not_target u hku (List.mem_map.mpr ⟨(u, e'), (hm.mem_assignments _).mp he', rfl⟩)
        · exact hm.known_not_builtin u hku (List.mem_append_right _ ((mem_builtinOut_iff u).mpr ⟨g, hg, gw, hgo⟩))
    · -- a component with output `v`; something reads `v`, so the component has all its inputs
      apply List.mem_append_right
      rw [mem_eComp]
      refine ⟨f, hf, ⟨fw, hfo⟩, hu, (active_iff f).mp ?_⟩
      rcases hvx with ⟨e', he', hr'⟩ | ⟨g, hg, ⟨gw, hgo⟩, hv⟩
      · exact hreadOut f hf v fw hfo (hread _ ((hm.mem_assignments _).mp he') v hr')
      · exact absurd hv (y86_hio g hg f hf (v, fw) hfo)

end

/-! ### model ⇒ specification -/

section
variable {fl : Flags} {cls : CharClass} {o : Orders} {stmts : List Stmt} {c : AMap WireValue} (hm : Mid fl cls o stmts c)
include hm

theorem Mid.mem_allDecls (n : String) :
    n ∈ allDecls cls.isLower cls.isUpper stmts ↔
      (n ∈ wireNames stmts ∨ n ∈ constNames stmts ∨ n ∈ bankInOf (el stmts).banks ∨ n ∈ bankOutOf (el stmts).banks ∨
       n ∈ bankCtlOf (el stmts).banks ∨ n ∈ builtinIn ∨ n ∈ builtinOut) := by
  unfold allDecls
  rw [hm.goodBanks]
  simp only [List.mem_append, or_assoc]

/-- **assignments and components, model ⇒ specification** -/
theorem actions_complete
    (hplainA : ∀ p ∈ (el stmts).assigns, ∀ cd ∈ conds p.2, Plain (K stmts) cd = true)
    (hen : ∀ f ∈ y86FixedFunctions, ¬ Active (step1Of stmts).assignments f → ∀ en, f.disabledIfFalse = some en →
      ∀ e, (en, e) ∈ (el stmts).assigns → isConstExpr stmts e = true ∨ stuck (K stmts) e = true)
    (hrefsCD : ∀ e ∈ (el stmts).constDefs.map (·.2) ++ defaultsOf (goodBanks cls.isLower cls.isUpper stmts),
      ∀ n ∈ refs e, n ∈ constNames stmts)
    (hneeded : ∀ n ∈ neededOf (step1Of stmts) (step3Of fl cls (step1Of stmts) c), n ∈ allTargets stmts)
    (hact : ActionsOK fl (step1Of stmts).assignments (Wof fl cls stmts c) (Kof fl cls stmts c) y86FixedFunctions c) :
    f3 cls.isLower cls.isUpper stmts = [] ∧ f4 cls.isLower cls.isUpper stmts = [] ∧
    f6a cls.isLower cls.isUpper stmts = [] ∧ f6b cls.isLower cls.isUpper stmts = [] ∧
    f6c cls.isLower cls.isUpper stmts = [] ∧ f7 cls.isLower cls.isUpper stmts = [] ∧ wAssign fl stmts = [] ∧
    Spec.cyclicNodes (eAssign cls.isLower cls.isUpper stmts ++ eComp stmts) = [] := by
  have hgb := hm.goodBanks
  have hb := hm.basic
  -- every assigned name is declared
  have hA : ∀ n ∈ targets stmts, n ∈ allDecls cls.isLower cls.isUpper stmts := by
    intro n hn
    obtain ⟨p, hp, rfl⟩ := List.mem_map.mp hn
    obtain ⟨w, _, hw, _, _⟩ := hact.assign p.1 p.2 ((hm.assigns_get p.1 p.2).mpr hp)
    apply (hm.Γ_some_iff p.1).mp
    rw [hm.Γ]
    show ((Wof fl cls stmts c).get? p.1).isSome = true
    rw [hw]; rfl
  -- every name an assignment reads is declared
  have hB : ∀ p ∈ (el stmts).assigns, ∀ r ∈ refs p.2, r ∈ allDecls cls.isLower cls.isUpper stmts := by
    intro p hp r hr
    rcases hact.read p ((hm.mem_assignments p).mpr hp) r hr with h | h | ⟨f, hf, ⟨w, ho⟩, _⟩
    · rcases (hm.known_iff r).mp h with h | h
      · exact (hm.mem_allDecls r).mpr (Or.inr (Or.inl h))
      · exact (hm.mem_allDecls r).mpr (Or.inr (Or.inr (Or.inr (Or.inl h))))
    · exact hA r ((assignments_contains_iff stmts r).mp h)
    · exact (hm.mem_allDecls r).mpr (Or.inr (Or.inr (Or.inr (Or.inr (Or.inr (Or.inr
        ((mem_builtinOut_iff r).mpr ⟨f, hf, w, ho⟩)))))))
  have hconstD : ∀ n ∈ constNames stmts, n ∈ allDecls cls.isLower cls.isUpper stmts :=
    fun n hn => (hm.mem_allDecls n).mpr (Or.inr (Or.inl hn))
  -- an expression of the program is an assigned value, or reads constants only
  have hsplit : ∀ e ∈ exprs cls.isLower cls.isUpper stmts, (∃ p ∈ (el stmts).assigns, e = p.2) ∨
      (∀ n ∈ refs e, n ∈ constNames stmts) := by
    intro e he
    unfold exprs at he
    rw [List.append_assoc] at he
    rcases List.mem_append.mp he with h | h
    · obtain ⟨p, hp, rfl⟩ := List.mem_map.mp h
      exact Or.inl ⟨p, hp, rfl⟩
    · exact Or.inr (hrefsCD e h)
  refine ⟨?_, ?_, ?_, ?_, ?_, ?_, ?_, ?_⟩
  · -- f3
    rw [f3_nil_iff]
    intro e he n hn
    rcases hsplit e he with ⟨p, hp, rfl⟩ | h
    · exact hB p hp n hn
    · exact hconstD n (h n hn)
  · -- f4
    rw [f4_nil_iff]; exact hA
  · -- f6a
    rw [f6a_nil_iff, hgb]
    intro n hn
    rw [targets_eq]
    exact hneeded n ((hm.needed_iff n).mpr (List.mem_append.mp hn))
  · -- f6b
    rw [f6b_nil_iff, components_eq]
    intro cc hcc
    obtain ⟨f, hf, rfl⟩ := List.mem_map.mp hcc
    rw [f6bOf_nil_iff]
    by_cases hac : Active (step1Of stmts).assignments f
    · exact Or.inl ((active_iff f).mp hac)
    · right
      constructor
      · -- not needed
        unfold neededC compOf
        simp only
        have hmand : f.mandatory = false := by
          cases hmd : f.mandatory with
          | false => rfl
          | true => exact absurd (hact.mand f hf hmd) hac
        rw [hmand]
        simp only [Bool.false_or]
        cases ho : f.outWire with
        | none => rfl
        | some ow =>
          obtain ⟨out, w⟩ := ow
          simp only [Option.map_some, Bool.or_eq_false_iff]
          have hbo : out ∈ builtinOut := (mem_builtinOut_iff out).mpr ⟨f, hf, w, ho⟩
          constructor
          · cases hc : (readNames cls.isLower cls.isUpper stmts).contains out with
            | false => rfl
            | true =>
              exfalso
              have hr : out ∈ readNames cls.isLower cls.isUpper stmts := by simpa using hc
              obtain ⟨e, he, hoe⟩ := (mem_readNames _ _ stmts out).mp hr
              rcases hsplit e he with ⟨p, hp, rfl⟩ | h
              · exact hact.unused f hf hac out w ho p ((hm.mem_assignments p).mpr hp) hoe
              · exact (hb.declFresh out (List.mem_append_right _ (h out hoe))).2.2 (List.mem_append_right _ hbo)
          · cases hc : assigned stmts out with
            | false => rfl
            | true =>
              exfalso
              have ht := (assigned_iff stmts out).mp hc
              rw [targets_eq] at ht
              exact hm.front.targetsNotOutput out ht (by rw [← builtinOut_eq]; exact hbo)
      · -- partially wired: the enable signal is the constant 0
        intro hlt
        obtain ⟨i, hi, hpi⟩ := exists_of_filter_length_lt _ _ hlt
        have hai : assigned stmts i = true := by simpa using hpi
        have hci : (step1Of stmts).assignments.contains i = true :=
          (assignments_contains_iff stmts i).mpr ((assigned_iff stmts i).mp hai)
        obtain ⟨en, expr, v, hd, hget, ⟨ew, hck⟩, hev, hv0⟩ := hact.partialOff f hf hac ⟨i, hi, hci⟩
        have hmem := (hm.assigns_get en expr).mp hget
        have hwfe := wf_assigns hm.wf _ hmem
        have hall : ∀ n ∈ refs expr, n ∈ constNames stmts := by
          rcases hen f hf hac en hd expr hmem with h | h
          · exact (isConstExpr_iff stmts expr).mp h
          · exfalso
            obtain ⟨err, herr⟩ := ev_stuck_error fl c.toEnv (K stmts) (toEnv_none hm.cm.get) _
              ((stuck_fixMux fl (Wof fl cls stmts c).toCtx c.toEnv (K stmts) expr).trans h)
            rw [herr] at hev
            cases hev
        obtain ⟨_, _, hmv⟩ := hm.dv_eq expr hwfe hall ew hck
        unfold disabledC compOf
        simp only [hd]
        have hl : (el stmts).assigns.lookup en = some expr := by
          have := hget
          rw [hm.front.assignments_eq] at this
          exact this
        rw [hl]
        simp only [Bool.and_eq_true, beq_iff_eq]
        refine ⟨(isConstExpr_iff stmts expr).mpr hall, ?_⟩
        cases hdv : Spec.dv (Spec.design stmts).Γ (constEnv stmts) expr with
        | none =>
          rw [hdv] at hmv
          simp only at hmv
          rw [hmv] at hev; cases hev
        | some v' =>
          rw [hdv] at hmv
          simp only at hmv
          rw [hmv.1] at hev
          simp only [Except.ok.injEq] at hev
          rw [← hev] at hv0
          simp only at hv0
          rw [hv0]
  · -- f6c
    rw [f6c_nil_iff, hgb]
    intro n hn hr
    obtain ⟨e, he, hne⟩ := (mem_readNames _ _ stmts n).mp hr
    have hnotconst : n ∉ constNames stmts := by
      intro hc
      have := hb.declFresh n (List.mem_append_right _ hc)
      rcases List.mem_append.mp hn with h | h
      · exact this.2.2 (List.mem_append_left _ h)
      · exact this.2.1 h
    rcases hsplit e he with ⟨p, hp, rfl⟩ | h
    · rcases hact.read p ((hm.mem_assignments p).mpr hp) n hne with h | h | ⟨f, hf, ⟨w, ho⟩, _⟩
      · exfalso
        rcases (hm.known_iff n).mp h with h | h
        · exact hnotconst h
        · rcases List.mem_append.mp hn with h' | h'
          · exact hm.known_not_builtin n (Or.inr h) (List.mem_append_left _ h')
          · obtain ⟨bk, _, r, _, rfl⟩ := (mem_bankOutOf _ n).mp h
            have := (ctl_shape _ _ h').2
            rw [outName_sig bk r] at this; cases this
      · exact (assignments_contains_iff stmts n).mp h
      · exfalso
        have hbo : n ∈ builtinOut := (mem_builtinOut_iff n).mpr ⟨f, hf, w, ho⟩
        rcases List.mem_append.mp hn with h' | h'
        · exact (List.nodup_append.mp builtin_nodup).2.2 n h' n hbo rfl
        · have := (fixed_not_sig n (List.mem_append_right _ hbo)).2
          rw [(ctl_shape _ _ h').1] at this; cases this
    · exact absurd (h n hne) hnotconst
  · -- f7
    rw [f7_nil_iff]
    intro e he n hn _
    exact hrefsCD e he n hn
  · -- wAssign
    rw [wAssign_nil_iff]
    intro p hp
    obtain ⟨w, ew, hw, hck, hcomb⟩ := hact.assign p.1 p.2 ((hm.assigns_get p.1 p.2).mpr hp)
    refine ⟨ew, ?_, ?_⟩
    · rw [hm.typeOf_eq p.2 (wf_assigns hm.wf _ hp) (hplainA _ hp), hck]; rfl
    · intro tw htw
      rw [hm.Γ] at htw
      have : (Wof fl cls stmts c).get? p.1 = some tw := htw
      rw [hw] at this
      rw [← Option.some.inj this]
      exact (compatible_of_combine w ew).mp hcomb
  · -- no cycle
    apply SF.cyclicNodes_nil_of_acyclic
    rintro ⟨cy, hc⟩
    apply hact.acyclic
    refine ⟨cy, relCycle_mono ?_ cy hc⟩
    intro u v huv
    rcases List.mem_append.mp huv with h | h
    · obtain ⟨e, he, hu, _⟩ := (mem_eAssign _ _ stmts u v).mp h
      exact Or.inl ⟨e, (hm.mem_assignments _).mpr he, hu⟩
    · obtain ⟨f, hf, ho, hu, _⟩ := (mem_eComp stmts u v).mp h
      exact Or.inr ⟨f, hf, ho, hu⟩

end
end SF
