import Hcl.Graph.KahnProof

/-! Gluing the two halves: `Graph::topological_sort` = Kahn, then `find_cycle` on failure. -/

theorem TopoOK_succ_mem {g : Graph} : ∀ (order : List Node) (u v : Node),
    TopoOK g order → u ∈ order → v ∈ g.succ u → v ∈ order := by
  intro order
  induction order with
  | nil => intro u v _ hu; simp at hu
  | cons a rest ih =>
    intro u v ht hu hv
    rcases List.mem_cons.mp hu with rfl | hu
    · exact List.mem_cons_of_mem _ (ht.1 v hv)
    · exact List.mem_cons_of_mem _ (ih u v ht.2 hu hv)

theorem idxOf_cons_ne' (a b : Node) (l : List Node) (h : a ≠ b) : (a :: l).idxOf b = l.idxOf b + 1 := by
  rw [List.idxOf_cons]
  have : (a == b) = false := by simpa using h
  rw [this]; rfl

theorem TopoOK_idx {g : Graph} : ∀ (order : List Node) (u v : Node),
    TopoOK g order → order.Nodup → u ∈ order → v ∈ g.succ u → order.idxOf u < order.idxOf v := by
  intro order
  induction order with
  | nil => intro u v _ _ hu; simp at hu
  | cons a rest ih =>
    intro u v ht hnd hu hv
    have hnd' := List.nodup_cons.mp hnd
    by_cases hua : u = a
    · subst hua
      have hvr : v ∈ rest := ht.1 v hv
      have hva : v ≠ u := fun h => hnd'.1 (h ▸ hvr)
      rw [List.idxOf_cons_self, idxOf_cons_ne' _ _ _ (Ne.symm hva)]
      omega
    · have hur : u ∈ rest := by
        rcases List.mem_cons.mp hu with h | h
        · exact absurd h hua
        · exact h
      have hvr : v ∈ rest := TopoOK_succ_mem rest u v ht.2 hur hv
      have hva : v ≠ a := fun h => hnd'.1 (h ▸ hvr)
      rw [idxOf_cons_ne' _ _ _ (Ne.symm hua), idxOf_cons_ne' _ _ _ (Ne.symm hva)]
      have := ih u v ht.2 hnd'.2 hur hv
      omega

/-! ### Fuel for the DFS loop -/

def unvisitedSum (g : Graph) (p : PMap) : Nat :=
  ((g.nodes.filter (fun u => (p u).isNone)).map (fun u => (g.succ u).length)).sum

def mu (g : Graph) (s : DState) : Nat := s.stack.length + unvisitedSum g s.parents

theorem sum_filter_flip (f : Node → Nat) : ∀ (l : List Node), l.Nodup → ∀ (c : Node), c ∈ l →
    ∀ (p q : Node → Bool), p c = true → q c = false → (∀ x ∈ l, x ≠ c → p x = q x) →
    ((l.filter p).map f).sum = ((l.filter q).map f).sum + f c := by
  intro l
  induction l with
  | nil => intro _ c hc; simp at hc
  | cons a t ih =>
    intro hnd c hc p q hpc hqc hrest
    have hnd' := List.nodup_cons.mp hnd
    by_cases hac : a = c
    · subst hac
      have : t.filter p = t.filter q := by
        apply List.filter_congr
        intro x hx
        exact hrest x (List.mem_cons_of_mem _ hx) (fun h => hnd'.1 (h ▸ hx))
      rw [List.filter_cons_of_pos hpc, List.filter_cons_of_neg (by simp [hqc]), this]
      simp; omega
    · have hct : c ∈ t := by
        rcases List.mem_cons.mp hc with h | h
        · exact absurd h.symm hac
        · exact h
      have iht := ih hnd'.2 c hct p q hpc hqc (fun x hx hxc => hrest x (List.mem_cons_of_mem _ hx) hxc)
      have hpa : p a = q a := hrest a (by simp) hac
      by_cases hq : q a = true
      · have hp : p a = true := by rw [hpa]; exact hq
        rw [List.filter_cons_of_pos hp, List.filter_cons_of_pos hq]
        simp [iht]; omega
      · have hp : ¬ p a = true := by rw [hpa]; exact hq
        rw [List.filter_cons_of_neg hp, List.filter_cons_of_neg hq]
        exact iht

theorem unvisitedSum_set_seen (g : Graph) (p : PMap) (c : Node) (v : Option Node) (h : (p c).isSome) :
    unvisitedSum g (p.set c v) = unvisitedSum g p := by
  unfold unvisitedSum
  congr 2
  apply List.filter_congr
  intro x _
  by_cases hx : x = c
  · subst hx; simp [set_eq]; cases hp : p x <;> simp_all
  · rw [set_ne _ _ _ _ hx]

theorem unvisitedSum_set_fresh (g : Graph) (hnd : g.nodes.Nodup) (p : PMap) (c : Node) (v : Option Node)
    (hc : c ∈ g.nodes) (h : p c = none) :
    unvisitedSum g p = unvisitedSum g (p.set c v) + (g.succ c).length := by
  unfold unvisitedSum
  apply sum_filter_flip _ g.nodes hnd c hc
  · simp [h]
  · simp [set_eq]
  · intro x _ hx; rw [set_ne _ _ _ _ hx]

/-- entries point into the node list (needed to count each fresh node once) -/
def TargetsInNodes (g : Graph) (s : DState) : Prop := ∀ e ∈ s.stack, e.2 ∈ g.nodes

theorem step_mu (g : Graph) (n : Nat) (s s' : DState) (hnd : g.nodes.Nodup)
    (hclosed : ∀ u v, v ∈ g.succ u → v ∈ g.nodes)
    (ht : TargetsInNodes g s) (h : step g n s = .cont s') :
    mu g s' + 1 = mu g s ∧ TargetsInNodes g s' := by
  unfold step at h
  split at h
  · cases h
  · rename_i mp cur rest hst
    have hcur : cur ∈ g.nodes := ht (mp, cur) (by rw [hst]; simp)
    have hrest : ∀ e ∈ rest, e.2 ∈ g.nodes := fun e he => ht e (by rw [hst]; exact List.mem_cons_of_mem _ he)
    have hkids : ∀ e ∈ (g.succ cur).reverse.map (fun o => (some cur, o)) ++ rest, e.2 ∈ g.nodes := by
      intro e he
      rcases List.mem_append.mp he with he | he
      · simp only [List.mem_map, List.mem_reverse] at he
        obtain ⟨o, ho, rfl⟩ := he
        exact hclosed cur o ho
      · exact hrest e he
    cases hf : s.parents cur with
    | none =>
      have hmu := unvisitedSum_set_fresh g hnd s.parents cur mp hcur hf
      have hres : s' = ⟨(g.succ cur).reverse.map (fun o => (some cur, o)) ++ rest, s.parents.set cur mp⟩ := by
        cases mp with
        | none => simp only [hf, Option.isNone_none, ↓reduceIte] at h; cases h; rfl
        | some parent => simp only [hf, Option.isNone_none, ↓reduceIte, Bool.not_true, Bool.false_eq_true] at h; cases h; rfl
      subst hres
      refine ⟨?_, hkids⟩
      simp only [mu, hst, List.length_append, List.length_map, List.length_reverse, List.length_cons]
      rw [hmu]; omega
    | some v =>
      have hseen : (s.parents cur).isSome := by simp [hf]
      cases mp with
      | none =>
        simp [hf] at h
        subst h
        refine ⟨?_, hrest⟩
        simp only [mu, hst, List.length_cons]
        rw [unvisitedSum_set_seen g _ _ _ hseen]; omega
      | some parent =>
        simp only [hf, Option.isNone_some, Bool.false_eq_true, ↓reduceIte, Bool.not_false] at h
        have : s' = ⟨rest, s.parents⟩ := by
          split at h
          · split at h
            · cases h
            · cases h; rfl
          · cases h; rfl
        subst this
        exact ⟨by simp only [mu, hst, List.length_cons]; omega, hrest⟩

theorem run_fuel_ok (g : Graph) (n : Nat) (hnd : g.nodes.Nodup)
    (hclosed : ∀ u v, v ∈ g.succ u → v ∈ g.nodes) :
    ∀ (fuel : Nat) (s : DState), TargetsInNodes g s → mu g s < fuel → run g n fuel s ≠ none := by
  intro fuel
  induction fuel with
  | zero => intro s _ h; omega
  | succ f ih =>
    intro s ht hmu
    unfold run
    split
    · simp
    · simp
    · rename_i s' hs
      obtain ⟨h1, h2⟩ := step_mu g n s s' hnd hclosed ht hs
      exact ih s' h2 (by omega)

theorem findCycle_ne_none (g : Graph) (hnd : g.nodes.Nodup)
    (hclosed : ∀ u v, v ∈ g.succ u → v ∈ g.nodes) : findCycle g ≠ none := by
  unfold findCycle
  apply run_fuel_ok g _ hnd hclosed
  · intro e he; simp at he; obtain ⟨u, hu, rfl⟩ := he; exact hu
  · simp only [mu, List.length_map]
    have : unvisitedSum g (fun _ => none) = (g.nodes.map (fun u => (g.succ u).length)).sum := by
      unfold unvisitedSum
      have : g.nodes.filter (fun _ => true) = g.nodes := List.filter_eq_self.mpr (by simp)
      simp [this]
    rw [this]; omega

/-! ### The combined function -/

inductive SortResult where
  | ok (order : List Node)
  | cycle (c : List Node)
  | panic
  deriving Repr, DecidableEq

/-- `topological_sort`: the two structures describe the same edge set; `kg` carries the iteration
    orders seen by the Kahn loop, `dg` those seen by `find_cycle`. -/
def topologicalSort (kg : KGraph) (dg : Graph) : SortResult :=
  match kahn kg with
  | .ok order => .ok order
  | .cyclic => match findCycle dg with
      | some (some c) => .cycle c
      | _ => .panic            -- `panic!("find_cycle() called when no cycle present")`
  | _ => .panic

structure SameGraph (kg : KGraph) (dg : Graph) : Prop where
  nodes : ∀ x, x ∈ dg.nodes ↔ x ∈ kg.nodes
  nodup : dg.nodes.Nodup
  succ : ∀ u v, v ∈ dg.succ u ↔ v ∈ kg.succ u

/-- Main graph-level theorem: never panics; `ok` is a complete topological order; `cycle` is real. -/
theorem topologicalSort_spec (kg : KGraph) (dg : Graph) (wf : KWF kg) (same : SameGraph kg dg) :
    (∃ order, topologicalSort kg dg = .ok order ∧ order.Nodup ∧ (∀ x, x ∈ order ↔ x ∈ kg.nodes) ∧
        PredOrdered kg order) ∨
    (∃ c, topologicalSort kg dg = .cycle c ∧ IsCycle dg c) := by
  have hclosed : ∀ u v, v ∈ dg.succ u → v ∈ dg.nodes := by
    intro u v h; exact (same.nodes v).mpr (wf.closed u v ((same.succ u v).mp h)).2
  have hnd : dg.nodes.Nodup := same.nodup
  unfold topologicalSort
  cases hk : kahn kg with
  | ok order => left; exact ⟨order, rfl, kahn_ok_sound kg wf order hk⟩
  | panic => exact absurd hk (kahn_total kg wf).1
  | fuel => exact absurd hk (kahn_total kg wf).2
  | cyclic =>
    right
    cases hf : findCycle dg with
    | none => exact absurd hf (findCycle_ne_none dg hnd hclosed)
    | some r =>
      cases r with
      | some c => exact ⟨c, rfl, findCycle_sound dg c hf⟩
      | none =>
        exfalso
        obtain ⟨order, htopo, hond, hcov⟩ := findCycle_complete dg hclosed hf
        apply kahn_cyclic_no_rank kg wf hk
        refine ⟨fun u => order.idxOf u, ?_⟩
        intro u v huv
        have hu : u ∈ order := hcov u ((same.nodes u).mpr (wf.closed u v huv).1)
        exact TopoOK_idx order u v htopo hond hu ((same.succ u v).mpr huv)

#print axioms topologicalSort_spec
