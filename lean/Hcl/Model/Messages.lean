import Hcl.Model.Step
import Hcl.Model.Disasm
import Hcl.Util.Format
open Rust

/-! Model of the per-cycle activity messages of `RunningProgram::step_with_output` (program.rs):
    the `writeln!` under `trace_assignments` (one line per `Assign`) and the ones under
    `trace_fixed_functionality` (one line per built-in component action; set by `-d` and by
    `--trace-assignments`).  The `pc = …; loaded […]` line (`show_disassembly`) is `traceLine` in
    Hcl/Model/Disasm.lean and is not part of this model.

    The message of an action is computed from the state just before the action, from the very values
    `execAction` uses. -/

namespace Dump

/-- `"{out} set to 0x{value:x} (reading {bytes} bytes from memory at {address}=0x{address_bits:x})"` -/
def memReadLine (out : String) (value bytes : Nat) (address : String) (addressBits : Nat) : String :=
  out ++ " set to 0x" ++ toHex value ++ " (reading " ++ toDec bytes ++ " bytes from memory at " ++ address ++ "=0x" ++
    toHex addressBits ++ ")"

/-- `"not reading from memory since {is_read} is 0"` -/
def memNoReadLine (isRead : String) : String := "not reading from memory since " ++ isRead ++ " is 0"

/-- `"writing {in_port}={input_value} to memory at {address}=0x{address_value:x}"` (`{}` of a `WireValue` is decimal) -/
def memWriteLine (inp : String) (inputBits : Nat) (address : String) (addressBits : Nat) : String :=
  "writing " ++ inp ++ "=" ++ toDec inputBits ++ " to memory at " ++ address ++ "=0x" ++ toHex addressBits

/-- `"not writing to memory since {is_write} is 0"` -/
def memNoWriteLine (isWrite : String) : String := "not writing to memory since " ++ isWrite ++ " is 0"

/-- `"set {out} to 0x{reg:x} from register {number_wire}={number} ({name})"` -/
def regReadLine (out : String) (value : Nat) (numberWire : String) (number : Nat) : String :=
  "set " ++ out ++ " to 0x" ++ toHex value ++ " from register " ++ numberWire ++ "=" ++ toDec number ++ " (" ++
    nameRegister number ++ ")"

/-- `"writing {in_port}=0x{v:x} into register {number_wire}={number} ({name})"` -/
def regWriteLine (inp : String) (value : Nat) (numberWire : String) (number : Nat) : String :=
  "writing " ++ inp ++ "=0x" ++ toHex value ++ " into register " ++ numberWire ++ "=" ++ toDec number ++ " (" ++
    nameRegister number ++ ")"

/-- `"{name} set to 0x{bits:x}"` -/
def assignLine (name : String) (bits : Nat) : String := name ++ " set to 0x" ++ toHex bits

/-- the enable wire of a memory port: `None` is "always", otherwise `is_true()` of the wire's value -/
def enabled (s : State) : Option String → Option Bool
  | none => some true
  | some wire => (s.values.get? wire).map fun v => decide (v.bits > 0)

/-- the line(s) one action prints, given the state just BEFORE the action executes (assignment lines only when
    `assigns`); where the real code panics or returns an error before printing (`execAction` fails), nothing -/
def actionMessage (fl : Flags) (assigns : Bool) (a : Action) (s : State) : List String :=
  match a with
  | .assign name e w =>
    if assigns then
      match ev fl s.values.toEnv e >>= fun v => asWidth v w with
      | .ok r => [assignLine name r.bits]
      | .error _ => []
    else []
  | .readMem isRead address out bytes _ =>
    match enabled s isRead with
    | none => []
    | some true =>
      (match s.values.get? address with
       | some a => [memReadLine out (s.mem.read (a.bits % U64) bytes) bytes address a.bits]
       | none => [])
    | some false => [memNoReadLine (isRead.getD "")]
  | .writeMem isWrite address inp _ =>
    match enabled s isWrite with
    | none => []
    | some true =>
      (match s.values.get? address, s.values.get? inp with
       | some a, some i => [memWriteLine inp i.bits address a.bits]
       | _, _ => [])
    | some false => [memNoWriteLine (isWrite.getD "")]
  | .setStatus _ => []
  | .readReg number out =>
    match s.values.get? number with
    | some n =>
      let idx := n.bits % U64
      if idx < s.regs.length then [regReadLine out (s.regs.getD idx 0) number idx] else []
    | none => []
  | .writeReg number inp =>
    match s.values.get? number with
    | some n =>
      let idx := n.bits % U64
      if idx < s.regs.length ∧ idx ≠ 15 then
        (match s.values.get? inp with
         | some i => [regWriteLine inp (i.bits % U64) number idx]
         | none => [])
      else []
    | none => []

/-- the lines of a list of actions, in execution order: the state is threaded exactly as `execActions` does,
    and each action's line is computed in the state it executes in -/
def actionsMessages (fl : Flags) (assigns : Bool) : List Action → State → E (List String × State)
  | [], s => pure ([], s)
  | a :: rest, s => do
      let s' ← execAction fl s a
      let r ← actionsMessages fl assigns rest s'
      pure (actionMessage fl assigns a s ++ r.1, r.2)

/-- all lines of one cycle, in the order the actions execute, and the state after the cycle; an error as `stepCycle` -/
def cycleMessages (fl : Flags) (assigns : Bool) (p : Program) (s : State) : E (List String × State) := do
  let r ← actionsMessages fl assigns p.actions s
  let vals ← processBanks p.banks r.2.values
  pure (r.1, { r.2 with values := vals, cycle := r.2.cycle + 1 })

/-! ### presentation used by the comparison with the real output: lines sorted as Rust's `str` ordering
    (byte-wise lexicographic on the UTF-8 encoding) -/

def bytesLe : List UInt8 → List UInt8 → Bool
  | [], _ => true
  | _ :: _, [] => false
  | a :: as, b :: bs => a < b || (a == b && bytesLe as bs)

def lineLe (a b : String) : Bool := bytesLe a.toUTF8.toList b.toUTF8.toList

def insertLine (x : String) : List String → List String
  | [] => [x]
  | y :: rest => if lineLe x y then x :: y :: rest else y :: insertLine x rest

def sortLines (l : List String) : List String := l.foldr insertLine []

/-- `n` cycles: the sorted lines of each cycle joined with newlines and followed by `"\n=====\n"`; the second
    component is the error that stopped the run, if any (the cycle that fails contributes nothing) -/
def messagesN (fl : Flags) (assigns : Bool) (p : Program) : Nat → State → String → String × Option Err
  | 0, _, acc => (acc, none)
  | n+1, s, acc =>
    match cycleMessages fl assigns p s with
    | .ok (ls, s') => messagesN fl assigns p n s' (acc ++ "\n".intercalate (sortLines ls) ++ "\n=====\n")
    | .error e => (acc, some e)

end Dump
