import Hcl.Proofs.FaultNamedProgram
open Rust

/-! Soundness of the diagnostics of steps 3 and 4 of `Program::new` (register banks, unset wires): every diagnostic in the
    list of these steps is of one of the kinds listed in `RegDiag`/`BankDiag`/`e4Of_sound`, and the fault it claims is there. -/

namespace FaultNamed

/-! ### folds with the part of the list already processed -/

theorem foldl_prefix_inv {α β : Type} (f : β → α → β) (I : List α → β → Prop) (l : List α)
    (hstep : ∀ pre x post s, l = pre ++ x :: post → I pre s → I (pre ++ [x]) (f s x)) :
    ∀ (rest pre : List α) (s : β), l = pre ++ rest → I pre s → I l (rest.foldl f s)
  | [], pre, s, hl, h => by
    rw [List.append_nil] at hl
    rw [hl]; exact h
  | x :: rest, pre, s, hl, h => by
    rw [List.foldl_cons]
    exact foldl_prefix_inv f I l hstep rest (pre ++ [x]) (f s x) (by rw [hl]; simp) (hstep pre x rest s hl h)

/-! ### one register -/

/-- The diagnostics that the pass over the registers can record for register `r` of bank `bank` (name `[inP, outP]`),
    each with what it claims.  `S`: the register signal names met before this register; `K`: the output names of the
    registers of this bank recorded before it. -/
def RegDiag (fl : Flags) (s1 : Step1) (constants : AMap WireValue) (bank : String) (inP outP : Char)
    (S K : List String) (r : RegDecl) (d : Diag) : Prop :=
  (∃ n ∈ refs r.default, d = ⟨.NonConstantWireRead, [n]⟩ ∧ s1.wires.contains n = true ∧ constants.contains n = false) ∨
  (∃ n, (n = regInName inP r ∨ n = regOutName outP r) ∧ d = ⟨.RedeclaredWire, [n]⟩ ∧ n ∈ s1.declared) ∨
  (d = ⟨.DuplicateRegister, [bank, r.name]⟩ ∧ regOutName outP r ∈ K) ∨
  (d = ⟨.DoubleAssignedRegisterWire, [regOutName outP r]⟩ ∧ s1.assignments.contains (regOutName outP r) = true) ∨
  (d = ⟨.DoubleDeclaredRegisterOutWire, [regOutName outP r]⟩ ∧ regOutName outP r ∈ S) ∨
  (d = ⟨.DoubleDeclaredRegisterOutWire, [regInName inP r]⟩ ∧
    (regInName inP r ∈ S ∨ regInName inP r = regOutName outP r)) ∨
  (∃ ds, checkFixEval fl (wOf constants).toCtx constants.toEnv r.default = .error ds ∧ d ∈ ds) ∨
  (∃ v, checkFixEval fl (wOf constants).toCtx constants.toEnv r.default = .ok v ∧ v.width.combine r.width = none ∧
    d = ⟨.MismatchedRegisterDefaultWidths, [bank, r.name]⟩)

section
variable (fl : Flags) (cls : CharClass) (s1 : Step1) (constants : AMap WireValue)

theorem regPre_sound (bank inName outName : String) (acc : BankAcc) (seen : List String) (r : RegDecl) (d : Diag)
    (h : d ∈ (regPre s1 constants bank inName outName acc seen r).1) :
    (∃ n ∈ refs r.default, d = ⟨.NonConstantWireRead, [n]⟩ ∧ s1.wires.contains n = true ∧ constants.contains n = false) ∨
    (∃ n, (n = inName ∨ n = outName) ∧ d = ⟨.RedeclaredWire, [n]⟩ ∧ n ∈ s1.declared) ∨
    (d = ⟨.DuplicateRegister, [bank, r.name]⟩ ∧ acc.defaults.contains outName = true) ∨
    (d = ⟨.DoubleAssignedRegisterWire, [outName]⟩ ∧ s1.assignments.contains outName = true) ∨
    (d = ⟨.DoubleDeclaredRegisterOutWire, [outName]⟩ ∧ outName ∈ seen) ∨
    (d = ⟨.DoubleDeclaredRegisterOutWire, [inName]⟩ ∧ (inName ∈ seen ∨ inName = outName)) := by
  unfold regPre at h
  simp only at h
  rw [List.mem_append, List.mem_append, List.mem_append, List.mem_append, List.mem_append] at h
  rcases h with ((((h | h) | h) | h) | h) | h
  · left
    obtain ⟨n, hn, h⟩ := List.mem_flatMap.mp h
    rw [mem_dedupS] at hn
    by_cases hc : (s1.wires.contains n && !constants.contains n) = true
    · rw [if_pos hc] at h
      simp only [Bool.and_eq_true, Bool.not_eq_true'] at hc
      exact ⟨n, hn, (List.mem_replicate.mp h).2, hc.1, hc.2⟩
    · rw [if_neg hc] at h; cases h
  · right; left
    obtain ⟨n, hn, h⟩ := List.mem_flatMap.mp h
    by_cases hc : s1.declared.contains n = true
    · rw [if_pos hc] at h
      refine ⟨n, ?_, List.mem_singleton.mp h, List.contains_iff_mem.mp hc⟩
      simpa using hn
    · rw [if_neg hc] at h; cases h
  · right; right; left
    by_cases hc : acc.defaults.contains outName = true
    · rw [if_pos hc] at h
      exact ⟨List.mem_singleton.mp h, hc⟩
    · rw [if_neg hc] at h; cases h
  · right; right; right; left
    by_cases hc : s1.assignments.contains outName = true
    · rw [if_pos hc] at h
      exact ⟨List.mem_singleton.mp h, hc⟩
    · rw [if_neg hc] at h; cases h
  · right; right; right; right; left
    by_cases hc : seen.contains outName = true
    · rw [if_pos hc] at h
      exact ⟨List.mem_singleton.mp h, List.contains_iff_mem.mp hc⟩
    · rw [if_neg hc] at h; cases h
  · right; right; right; right; right
    by_cases hc : (if seen.contains outName = true then seen else seen ++ [outName]).contains inName = true
    · rw [if_pos hc] at h
      refine ⟨List.mem_singleton.mp h, ?_⟩
      have hm := List.contains_iff_mem.mp hc
      by_cases hs : seen.contains outName = true
      · rw [if_pos hs] at hm; exact Or.inl hm
      · rw [if_neg hs] at hm
        rcases List.mem_append.mp hm with hm | hm
        · exact Or.inl hm
        · exact Or.inr (List.mem_singleton.mp hm)
    · rw [if_neg hc] at h; cases h

theorem regPre_seen (bank inName outName : String) (acc : BankAcc) (seen : List String) (r : RegDecl) (n : String)
    (h : n ∈ (regPre s1 constants bank inName outName acc seen r).2) : n ∈ seen ∨ n = outName ∨ n = inName := by
  unfold regPre at h
  simp only at h
  have h1 : ∀ m, m ∈ (if seen.contains outName = true then seen else seen ++ [outName]) → m ∈ seen ∨ m = outName := by
    intro m hm
    by_cases hs : seen.contains outName = true
    · rw [if_pos hs] at hm; exact Or.inl hm
    · rw [if_neg hs] at hm
      rcases List.mem_append.mp hm with hm | hm
      · exact Or.inl hm
      · exact Or.inr (List.mem_singleton.mp hm)
  by_cases hc : (if seen.contains outName = true then seen else seen ++ [outName]).contains inName = true
  · rw [if_pos hc] at h
    rcases h1 n h with h | h
    · exact Or.inl h
    · exact Or.inr (Or.inl h)
  · rw [if_neg hc] at h
    rcases List.mem_append.mp h with h | h
    · rcases h1 n h with h | h
      · exact Or.inl h
      · exact Or.inr (Or.inl h)
    · exact Or.inr (Or.inr (List.mem_singleton.mp h))

/-- the evaluation of the default: what it adds to the diagnostics and to the bank's table of defaults -/
theorem regEval_sound (bank inName outName : String) (s : Step3) (acc : BankAcc) (r : RegDecl) (hw : r.width.ok) :
    (∀ d ∈ (regEval fl constants bank inName outName s acc r).1.errors, d ∈ s.errors ∨
      (∃ ds, checkFixEval fl (wOf constants).toCtx constants.toEnv r.default = .error ds ∧ d ∈ ds) ∨
      (∃ v, checkFixEval fl (wOf constants).toCtx constants.toEnv r.default = .ok v ∧ v.width.combine r.width = none ∧
        d = ⟨.MismatchedRegisterDefaultWidths, [bank, r.name]⟩)) ∧
    (regEval fl constants bank inName outName s acc r).1.seenRegisters = s.seenRegisters ∧
    (∀ k, (regEval fl constants bank inName outName s acc r).2.defaults.contains k = true →
      acc.defaults.contains k = true ∨ k = outName) := by
  unfold regEval
  simp only
  have hwOf : (constants.map (fun p => (p.1, p.2.width))) = wOf constants := rfl
  rw [hwOf]
  cases hcf : checkFixEval fl (wOf constants).toCtx constants.toEnv r.default with
  | error ds =>
    simp only
    refine ⟨?_, trivial, fun k hk => Or.inl hk⟩
    intro d hd
    rcases List.mem_append.mp hd with hd | hd
    · exact Or.inl hd
    · exact Or.inr (Or.inl ⟨ds, rfl, hd⟩)
  | ok value =>
    simp only
    rw [asWidth_ok value r.width hw]
    simp only
    refine ⟨?_, trivial, ?_⟩
    · intro d hd
      rcases List.mem_append.mp hd with hd | hd
      · exact Or.inl hd
      · right; right
        cases hcomb : value.width.combine r.width with
        | some w => rw [hcomb] at hd; cases hd
        | none =>
          rw [hcomb] at hd
          exact ⟨value, rfl, hcomb, List.mem_singleton.mp hd⟩
    · intro k hk
      rw [AMap.contains_insert] at hk
      simp only [Bool.or_eq_true, beq_iff_eq] at hk
      exact hk

/-- **one register**: what it adds to the diagnostics, the names seen and the bank's defaults -/
theorem step3Register_sound (bank : String) (inP outP : Char) (s : Step3) (acc : BankAcc) (r : RegDecl) (hw : r.width.ok)
    (S K : List String) (hS : ∀ n ∈ s.seenRegisters, n ∈ S) (hK : ∀ k, acc.defaults.contains k = true → k ∈ K) :
    (∀ d ∈ (step3Register fl s1 constants bank inP outP (s, acc) r).1.errors,
      d ∈ s.errors ∨ RegDiag fl s1 constants bank inP outP S K r d) ∧
    (∀ n ∈ (step3Register fl s1 constants bank inP outP (s, acc) r).1.seenRegisters,
      n ∈ S ++ [regOutName outP r, regInName inP r]) ∧
    (∀ k, (step3Register fl s1 constants bank inP outP (s, acc) r).2.defaults.contains k = true →
      k ∈ K ++ [regOutName outP r]) := by
  have hpre := regPre_sound s1 constants bank (regInName inP r) (regOutName outP r) acc s.seenRegisters r
  have hseen := regPre_seen s1 constants bank (regInName inP r) (regOutName outP r) acc s.seenRegisters r
  unfold step3Register
  unfold RegDiag
  simp only
  unfold regInName regOutName at hpre hseen ⊢
  generalize String.ofList [inP, '_'] ++ r.name = inName at hpre hseen ⊢
  generalize String.ofList [outP, '_'] ++ r.name = outName at hpre hseen ⊢
  generalize regPre s1 constants bank inName outName acc s.seenRegisters r = pre at hpre hseen ⊢
  have hpreJ : ∀ d ∈ pre.1,
      (∃ n ∈ refs r.default, d = ⟨.NonConstantWireRead, [n]⟩ ∧ s1.wires.contains n = true ∧ constants.contains n = false) ∨
      (∃ n, (n = inName ∨ n = outName) ∧ d = ⟨.RedeclaredWire, [n]⟩ ∧ n ∈ s1.declared) ∨
      (d = ⟨.DuplicateRegister, [bank, r.name]⟩ ∧ outName ∈ K) ∨
      (d = ⟨.DoubleAssignedRegisterWire, [outName]⟩ ∧ s1.assignments.contains outName = true) ∨
      (d = ⟨.DoubleDeclaredRegisterOutWire, [outName]⟩ ∧ outName ∈ S) ∨
      (d = ⟨.DoubleDeclaredRegisterOutWire, [inName]⟩ ∧ (inName ∈ S ∨ inName = outName)) ∨
      (∃ ds, checkFixEval fl (wOf constants).toCtx constants.toEnv r.default = .error ds ∧ d ∈ ds) ∨
      (∃ v, checkFixEval fl (wOf constants).toCtx constants.toEnv r.default = .ok v ∧ v.width.combine r.width = none ∧
        d = ⟨.MismatchedRegisterDefaultWidths, [bank, r.name]⟩) := by
    intro d hd
    rcases hpre d hd with h | h | h | h | h | h
    · exact Or.inl h
    · exact Or.inr (Or.inl h)
    · exact Or.inr (Or.inr (Or.inl ⟨h.1, hK _ h.2⟩))
    · exact Or.inr (Or.inr (Or.inr (Or.inl h)))
    · exact Or.inr (Or.inr (Or.inr (Or.inr (Or.inl ⟨h.1, hS _ h.2⟩))))
    · refine Or.inr (Or.inr (Or.inr (Or.inr (Or.inr (Or.inl ⟨h.1, ?_⟩)))))
      rcases h.2 with h2 | h2
      · exact Or.inl (hS _ h2)
      · exact Or.inr h2
  have hseenS : ∀ n ∈ pre.2, n ∈ S ++ [outName, inName] := by
    intro n hn
    rcases hseen n hn with h | h | h
    · exact List.mem_append_left _ (hS n h)
    · exact List.mem_append_right _ (by simp [h])
    · exact List.mem_append_right _ (by simp [h])
  by_cases hpe : pre.1.isEmpty = true
  · simp only [hpe, Bool.not_true, Bool.false_eq_true, if_false]
    obtain ⟨e1, e2, e3⟩ := regEval_sound fl constants bank inName outName
      { s with wireTypes := (s.wireTypes.insert inName .bankInput).insert outName .bankOutput,
               seenRegisters := pre.2, errors := s.errors ++ pre.1 } acc r hw
    refine ⟨?_, ?_, ?_⟩
    · intro d hd
      rcases e1 d hd with h | h | h
      · rcases List.mem_append.mp h with h | h
        · exact Or.inl h
        · exact Or.inr (hpreJ d h)
      · exact Or.inr (Or.inr (Or.inr (Or.inr (Or.inr (Or.inr (Or.inr (Or.inl h)))))))
      · exact Or.inr (Or.inr (Or.inr (Or.inr (Or.inr (Or.inr (Or.inr (Or.inr h)))))))
    · intro n hn
      rw [e2] at hn
      exact hseenS n hn
    · intro k hk
      rcases e3 k hk with h | h
      · exact List.mem_append_left _ (hK k h)
      · exact List.mem_append_right _ (List.mem_singleton.mpr h)
  · simp only [hpe, Bool.not_false, if_true]
    refine ⟨?_, hseenS, fun k hk => List.mem_append_left _ (hK k hk)⟩
    intro d hd
    rcases List.mem_append.mp hd with h | h
    · exact Or.inl h
    · exact Or.inr (hpreJ d h)

/-- **the registers of one bank**: every diagnostic added is justified at some register, relative to the registers
    before it -/
theorem regs_fold_sound (bank : String) (inP outP : Char) (regs : List RegDecl) (hw : ∀ r ∈ regs, r.width.ok)
    (s0 : Step3) (S0 : List String) (hS0 : ∀ n ∈ s0.seenRegisters, n ∈ S0) :
    (∀ d ∈ (regs.foldl (step3Register fl s1 constants bank inP outP) (s0, {})).1.errors, d ∈ s0.errors ∨
      ∃ rpre r rpost, regs = rpre ++ r :: rpost ∧
        RegDiag fl s1 constants bank inP outP (S0 ++ regNames inP outP rpre) (rpre.map (regOutName outP)) r d) ∧
    (∀ n ∈ (regs.foldl (step3Register fl s1 constants bank inP outP) (s0, {})).1.seenRegisters,
      n ∈ S0 ++ regNames inP outP regs) := by
  have key := foldl_prefix_inv (step3Register fl s1 constants bank inP outP)
    (fun rpre (st : Step3 × BankAcc) =>
      (∀ d ∈ st.1.errors, d ∈ s0.errors ∨
        ∃ rp r rpost, regs = rp ++ r :: rpost ∧
          RegDiag fl s1 constants bank inP outP (S0 ++ regNames inP outP rp) (rp.map (regOutName outP)) r d) ∧
      (∀ n ∈ st.1.seenRegisters, n ∈ S0 ++ regNames inP outP rpre) ∧
      (∀ k, st.2.defaults.contains k = true → k ∈ rpre.map (regOutName outP))) regs
    (by
      intro rpre r rpost st hl ⟨i1, i2, i3⟩
      obtain ⟨s, acc⟩ := st
      have hr : r ∈ regs := by rw [hl]; simp
      obtain ⟨e1, e2, e3⟩ := step3Register_sound fl s1 constants bank inP outP s acc r (hw r hr)
        (S0 ++ regNames inP outP rpre) (rpre.map (regOutName outP)) i2 i3
      refine ⟨?_, ?_, ?_⟩
      · intro d hd
        rcases e1 d hd with h | h
        · exact i1 d h
        · exact Or.inr ⟨rpre, r, rpost, hl, h⟩
      · intro n hn
        have := e2 n hn
        unfold regNames at this ⊢
        simpa [List.flatMap_append] using this
      · intro k hk
        have := e3 k hk
        simpa using this)
    regs [] (s0, {}) rfl
    ⟨fun d hd => Or.inl hd, by simpa [regNames] using hS0, by intro k hk; simp [AMap.contains] at hk⟩
  exact ⟨key.1, key.2.1⟩

end


/-! ### one bank, all banks -/

/-- The diagnostics that step 3 can record for bank `b`, each with what it claims; `S0`: the register signal names of
    the banks before it. -/
def BankDiag (fl : Flags) (cls : CharClass) (s1 : Step1) (constants : AMap WireValue) (S0 : List String) (b : BankDecl)
    (d : Diag) : Prop :=
  (d = ⟨.InvalidRegisterBankName, [b.name]⟩ ∧
    ¬ ∃ i o, b.name.toList = [i, o] ∧ cls.isLower i = true ∧ cls.isUpper o = true) ∨
  (∃ inP outP, b.name.toList = [inP, outP] ∧ cls.isLower inP = true ∧ cls.isUpper outP = true ∧
    ((∃ n, (n = "stall_" ++ String.ofList [outP] ∨ n = "bubble_" ++ String.ofList [outP]) ∧
        d = ⟨.RedeclaredWire, [n]⟩ ∧ n ∈ s1.declared) ∨
     (∃ rpre r rpost, b.regs = rpre ++ r :: rpost ∧
        RegDiag fl s1 constants b.name inP outP (S0 ++ regNames inP outP rpre) (rpre.map (regOutName outP)) r d)))

section
variable (fl : Flags) (cls : CharClass) (s1 : Step1) (constants : AMap WireValue)

theorem mem_ctlDiags (outP : Char) (d : Diag) (h : d ∈ ctlDiags s1 outP) :
    ∃ n, (n = "stall_" ++ String.ofList [outP] ∨ n = "bubble_" ++ String.ofList [outP]) ∧
      d = ⟨.RedeclaredWire, [n]⟩ ∧ n ∈ s1.declared := by
  unfold ctlDiags at h
  obtain ⟨n, hn, h⟩ := List.mem_flatMap.mp h
  by_cases hc : s1.declared.contains n = true
  · rw [if_pos hc] at h
    refine ⟨n, ?_, List.mem_singleton.mp h, List.contains_iff_mem.mp hc⟩
    simpa using hn
  · rw [if_neg hc] at h; cases h

theorem step3Bank_sound (s : Step3) (b : BankDecl) (hw : ∀ r ∈ b.regs, r.width.ok) (S0 : List String)
    (hS0 : ∀ n ∈ s.seenRegisters, n ∈ S0) :
    (∀ d ∈ (step3Bank fl cls s1 constants s b).errors, d ∈ s.errors ∨ BankDiag fl cls s1 constants S0 b d) ∧
    (∀ n ∈ (step3Bank fl cls s1 constants s b).seenRegisters, n ∈ S0 ++ bankRegNames b) := by
  by_cases hshape : ∃ i o, b.name.toList = [i, o]
  · obtain ⟨inP, outP, hname⟩ := hshape
    by_cases hcase : cls.isLower inP = true ∧ cls.isUpper outP = true
    · obtain ⟨hl, hu⟩ := hcase
      obtain ⟨s0, e1, e2, e3, e4⟩ := step3Bank_good fl cls s1 constants s b inP outP hname hl hu
      obtain ⟨r1, r2⟩ := regs_fold_sound fl s1 constants b.name inP outP b.regs hw s0 S0 (by rw [e4]; exact hS0)
      rw [e1, e2, bankRegNames_of_name b inP outP hname]
      refine ⟨?_, r2⟩
      intro d hd
      rcases r1 d hd with h | h
      · rw [e3] at h
        rcases List.mem_append.mp h with h | h
        · exact Or.inl h
        · exact Or.inr (Or.inr ⟨inP, outP, hname, hl, hu, Or.inl (mem_ctlDiags s1 outP d h)⟩)
      · exact Or.inr (Or.inr ⟨inP, outP, hname, hl, hu, Or.inr h⟩)
    · have hbad : ¬ ∃ i o, b.name.toList = [i, o] ∧ cls.isLower i = true ∧ cls.isUpper o = true := by
        rintro ⟨i, o, hn, hl, hu⟩
        rw [hname] at hn
        simp only [List.cons.injEq, and_true] at hn
        obtain ⟨rfl, rfl⟩ := hn
        exact hcase ⟨hl, hu⟩
      unfold step3Bank
      simp only [hname]
      rw [if_pos (by cases h1 : cls.isLower inP <;> cases h2 : cls.isUpper outP <;> simp_all)]
      refine ⟨?_, fun n hn => List.mem_append_left _ (hS0 n hn)⟩
      intro d hd
      rcases List.mem_append.mp hd with h | h
      · exact Or.inl h
      · exact Or.inr (Or.inl ⟨List.mem_singleton.mp h, hbad⟩)
  · have hbad : ¬ ∃ i o, b.name.toList = [i, o] ∧ cls.isLower i = true ∧ cls.isUpper o = true := by
      rintro ⟨i, o, hn, _, _⟩
      exact hshape ⟨i, o, hn⟩
    unfold step3Bank
    split
    · rename_i i o heq
      exact absurd ⟨i, o, heq⟩ hshape
    · refine ⟨?_, fun n hn => List.mem_append_left _ (hS0 n hn)⟩
      intro d hd
      rcases List.mem_append.mp hd with h | h
      · exact Or.inl h
      · exact Or.inr (Or.inl ⟨List.mem_singleton.mp h, hbad⟩)

/-- **all banks**: every diagnostic of step 3 is justified at some bank, relative to the banks before it -/
theorem step3Of_sound (hw : ∀ b ∈ s1.banksRaw, ∀ r ∈ b.regs, r.width.ok) (d : Diag)
    (hd : d ∈ (step3Of fl cls s1 constants).errors) :
    ∃ bpre b bpost, s1.banksRaw = bpre ++ b :: bpost ∧ BankDiag fl cls s1 constants (allRegNames bpre) b d := by
  have key := foldl_prefix_inv (step3Bank fl cls s1 constants)
    (fun bpre (s : Step3) =>
      (∀ d ∈ s.errors, ∃ bp b bpost, s1.banksRaw = bp ++ b :: bpost ∧ BankDiag fl cls s1 constants (allRegNames bp) b d) ∧
      (∀ n ∈ s.seenRegisters, n ∈ allRegNames bpre)) s1.banksRaw
    (by
      intro bpre b bpost s hl ⟨i1, i2⟩
      have hb : b ∈ s1.banksRaw := by rw [hl]; simp
      obtain ⟨e1, e2⟩ := step3Bank_sound fl cls s1 constants s b (hw b hb) (allRegNames bpre) i2
      refine ⟨?_, ?_⟩
      · intro d hd
        rcases e1 d hd with h | h
        · exact i1 d h
        · exact ⟨bpre, b, bpost, hl, h⟩
      · intro n hn
        have := e2 n hn
        unfold allRegNames at this ⊢
        simpa [List.flatMap_append] using this)
    s1.banksRaw [] { wireTypes := s1.wireTypes } rfl
    ⟨(by intro d hd; cases hd), (by intro n hn; cases hn)⟩
  exact key.1 d hd

/-! ### the register inputs recorded -/

theorem regEval_registerIns (bank inName outName : String) (s : Step3) (acc : BankAcc) (r : RegDecl) (n : String)
    (h : n ∈ (regEval fl constants bank inName outName s acc r).1.registerIns) : n ∈ s.registerIns ∨ n = inName := by
  unfold regEval at h
  simp only at h
  cases hcf : checkFixEval fl (AMap.toCtx (constants.map (fun p => (p.1, p.2.width)))) constants.toEnv r.default with
  | error ds => rw [hcf] at h; exact Or.inl h
  | ok value =>
    rw [hcf] at h
    simp only at h
    cases haw : asWidth value r.width with
    | error e => rw [haw] at h; exact Or.inl h
    | ok dv =>
      rw [haw] at h
      simp only at h
      rcases List.mem_append.mp h with h | h
      · exact Or.inl h
      · exact Or.inr (List.mem_singleton.mp h)

theorem step3Register_registerIns (bank : String) (inP outP : Char) (st : Step3 × BankAcc) (r : RegDecl) (n : String)
    (h : n ∈ (step3Register fl s1 constants bank inP outP st r).1.registerIns) :
    n ∈ st.1.registerIns ∨ (n = regInName inP r ∧ n ∉ s1.declared) := by
  obtain ⟨s, acc⟩ := st
  unfold step3Register at h
  simp only at h
  unfold regInName
  generalize String.ofList [inP, '_'] ++ r.name = inName at h ⊢
  generalize String.ofList [outP, '_'] ++ r.name = outName at h ⊢
  generalize hpre : regPre s1 constants bank inName outName acc s.seenRegisters r = pre at h
  by_cases hpe : pre.1.isEmpty = true
  · simp only [hpe, Bool.not_true, Bool.false_eq_true, if_false] at h
    rcases regEval_registerIns fl constants bank inName outName _ acc r n h with h | h
    · exact Or.inl h
    · refine Or.inr ⟨h, ?_⟩
      have hpnil : pre.1 = [] := by simpa using hpe
      obtain ⟨_, h2, _⟩ := (regPre_nil_iff s1 constants bank inName outName acc s.seenRegisters r).mp (by rw [hpre]; exact hpnil)
      rw [h]; exact h2
  · simp only [hpe, Bool.not_false, if_true] at h
    exact Or.inl h

theorem regs_fold_registerIns (bank : String) (inP outP : Char) : ∀ (regs : List RegDecl) (st : Step3 × BankAcc) (n : String),
    n ∈ (regs.foldl (step3Register fl s1 constants bank inP outP) st).1.registerIns →
    n ∈ st.1.registerIns ∨ ∃ r ∈ regs, n = regInName inP r ∧ n ∉ s1.declared
  | [], _, _, h => Or.inl h
  | x :: rest, st, n, h => by
    rw [List.foldl_cons] at h
    rcases regs_fold_registerIns bank inP outP rest _ n h with h | ⟨r, hr, h⟩
    · rcases step3Register_registerIns fl s1 constants bank inP outP st x n h with h | h
      · exact Or.inl h
      · exact Or.inr ⟨x, List.mem_cons_self, h⟩
    · exact Or.inr ⟨r, List.mem_cons_of_mem _ hr, h⟩

/-- a register input: the name `<i>_<reg>` of a register of a bank with a well-formed name, not declared by the user -/
def IsRegIn (cls : CharClass) (s1 : Step1) (banks : List BankDecl) (n : String) : Prop :=
  ∃ b ∈ banks, ∃ inP outP, b.name.toList = [inP, outP] ∧ cls.isLower inP = true ∧ cls.isUpper outP = true ∧
    ∃ r ∈ b.regs, n = regInName inP r ∧ n ∉ s1.declared

theorem step3Bank_registerIns (s : Step3) (b : BankDecl) (n : String)
    (h : n ∈ (step3Bank fl cls s1 constants s b).registerIns) : n ∈ s.registerIns ∨ IsRegIn cls s1 [b] n := by
  by_cases hshape : ∃ i o, b.name.toList = [i, o]
  · obtain ⟨inP, outP, hname⟩ := hshape
    by_cases hcase : cls.isLower inP = true ∧ cls.isUpper outP = true
    · obtain ⟨hl, hu⟩ := hcase
      obtain ⟨s0, e5, _, e2, _⟩ := step3Bank_good_banks fl cls s1 constants s b inP outP hname hl hu
      rw [e5] at h
      rcases regs_fold_registerIns fl s1 constants b.name inP outP b.regs _ n h with h | ⟨r, hr, h⟩
      · rw [e2] at h; exact Or.inl h
      · exact Or.inr ⟨b, List.mem_singleton.mpr rfl, inP, outP, hname, hl, hu, r, hr, h⟩
    · unfold step3Bank at h
      simp only [hname] at h
      rw [if_pos (by cases h1 : cls.isLower inP <;> cases h2 : cls.isUpper outP <;> simp_all)] at h
      exact Or.inl h
  · unfold step3Bank at h
    split at h
    · rename_i i o heq
      exact absurd ⟨i, o, heq⟩ hshape
    · exact Or.inl h

theorem banks_fold_registerIns : ∀ (banks : List BankDecl) (s : Step3) (n : String),
    n ∈ (banks.foldl (step3Bank fl cls s1 constants) s).registerIns → n ∈ s.registerIns ∨ IsRegIn cls s1 banks n
  | [], _, _, h => Or.inl h
  | x :: rest, s, n, h => by
    rw [List.foldl_cons] at h
    rcases banks_fold_registerIns rest _ n h with h | ⟨b, hb, h⟩
    · rcases step3Bank_registerIns fl cls s1 constants s x n h with h | ⟨b, hb, hreg⟩
      · exact Or.inl h
      · rw [List.mem_singleton] at hb
        rw [hb] at hreg
        exact Or.inr ⟨x, List.mem_cons_self, hreg⟩
    · exact Or.inr ⟨b, List.mem_cons_of_mem _ hb, h⟩

theorem step3Of_registerIns (n : String) (h : n ∈ (step3Of fl cls s1 constants).registerIns) :
    IsRegIn cls s1 s1.banksRaw n := by
  rcases banks_fold_registerIns fl cls s1 constants s1.banksRaw _ n h with h | h
  · cases h
  · exact h

end

end FaultNamed
