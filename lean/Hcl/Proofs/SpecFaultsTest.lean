import Hcl.Proofs.SpecFaultsMain
open Rust

/-! Stage (a) of task V: hand-made corner cases comparing the executable specification `Spec.faults` with acceptance by the
    model `Program.new`.  Every line prints `agree` or `DISAGREE` with both verdicts, and whether the program satisfies the
    two side conditions of `faults_nil_iff_accepted` (`CondsPlain`, `EnablesPlain`; printed as `side=cond+enab`, with `-`
    for a condition that fails).  By the theorem a `DISAGREE` can only occur where one of them fails.

    DISCREPANCIES FOUND (all in the "always true" / "constant 0" analyses; nothing else disagrees):
    D-A  (enable of a partially wired memory port, lazily evaluated)         spec rejects, model accepts
    D-B  (condition of a case expression, lazily evaluated past a wire)       spec rejects, model accepts; and the converse
    D-C  (condition containing a case expression whose value does not fit the width the rules give it)
                                                                              both directions
    They are listed with both verdicts next to the `#eval`s below (search for `DISAGREE`). -/

namespace SFT

def n (k : Nat) : Ex := .const ⟨k, .unlimited⟩
def nb (k w : Nat) : Ex := .const ⟨k, .bits w⟩
def w (s : String) : Ex := .wire s
def mux (l : List (Ex × Ex)) : Ex := .mux (Opts.ofList l)
def inS (e : Ex) (l : List Ex) : Ex := .inSet e (Exs.ofList l)
def wires (l : List (String × Nat)) : Stmt := .wires (l.map fun p => ⟨p.1, .bits p.2⟩)
def consts (l : List (String × Ex)) : Stmt := .consts (l.map fun p => ⟨p.1, p.2⟩)
def asg (name : String) (e : Ex) : Stmt := .assigns [⟨[name], e⟩]
def asgs (names : List String) (e : Ex) : Stmt := .assigns [⟨names, e⟩]
def bank (name : String) (regs : List (String × Nat × Ex)) : Stmt :=
  .bank ⟨name, regs.map fun r => ⟨r.1, .bits r.2.1, r.2.2⟩⟩
/-- the two mandatory components -/
def base : List Stmt := [asg "pc" (n 0), asg "Stat" (n 0)]

def showDiag (d : Diag) : String := (repr d.kind).pretty ++ ":" ++ " ".intercalate d.names
def showFault (f : Spec.Fault) : String := (repr f.cls).pretty ++ ":" ++ f.name

def verdictWith (fl : Flags) (cls : CharClass) (stmts : List Stmt) : String :=
  let fs := Spec.faults fl cls.isLower cls.isUpper stmts
  let m := Program.new fl cls {} y86FixedFunctions stmts
  let macc := match m with | .ok _ => true | .error _ => false
  let mtxt := match m with | .ok _ => "ok" | .error ds => "rej[" ++ ", ".intercalate (ds.map showDiag) ++ "]"
  let stxt := if fs.isEmpty then "ok" else "rej[" ++ ", ".intercalate (fs.map showFault) ++ "]"
  let side := "side=" ++ (if decide (CondsPlain stmts) then "cond" else "-") ++ "+" ++ (if decide (EnablesPlain stmts) then "enab" else "-")
  (if fs.isEmpty == macc then "agree    " else "DISAGREE ") ++ side ++ "  spec=" ++ stxt ++ "  model=" ++ mtxt

def verdict (stmts : List Stmt) : String := verdictWith {} {} stmts
def loose : Flags := { strictBinary := false, strictBoolean := false, requireMuxDefault := false,
                       disallowMultipleMuxDefault := false, disallowUnreachable := false }
def strict : Flags := { strictBinary := true }

/-! ### sanity -/
#eval verdict base
#eval verdict []
#eval verdict [asg "pc" (n 0)]
#eval verdict [asg "Stat" (n 0)]

/-! ### duplicate names of every kind -/
#eval verdict (base ++ [wires [("x", 1), ("x", 1)], asg "x" (n 0)])
#eval verdict (base ++ [wires [("x", 1)], consts [("x", n 1)], asg "x" (n 0)])
#eval verdict (base ++ [consts [("c", n 1), ("c", n 1)]])
#eval verdict (base ++ [consts [("c", n 1), ("c", n 2)]])
#eval verdict (base ++ [wires [("pc", 64)]])
#eval verdict (base ++ [wires [("mem_output", 64)]])
#eval verdict (base ++ [consts [("Stat", n 1)]])
#eval verdict (base ++ [consts [("i10bytes", n 1)]])
#eval verdict (base ++ [wires [("x_a", 4)], asg "x_a" (n 0), bank "xY" [("a", 4, n 0)]])
#eval verdict (base ++ [wires [("Y_a", 4)], asg "x_a" (n 0), asg "Y_a" (n 0), bank "xY" [("a", 4, n 0)]])
#eval verdict (base ++ [consts [("Y_a", n 0)], asg "x_a" (n 0), bank "xY" [("a", 4, n 0)]])
#eval verdict (base ++ [wires [("stall_Y", 1)], asg "stall_Y" (n 0), asg "x_a" (n 0), bank "xY" [("a", 4, n 0)]])
#eval verdict (base ++ [consts [("bubble_Y", n 0)], asg "x_a" (n 0), bank "xY" [("a", 4, n 0)]])
#eval verdict (base ++ [wires [("stall_Z", 1)], asg "stall_Z" (n 0), asg "x_a" (n 0), bank "xY" [("a", 4, n 0)]])
-- a bank declared twice / two registers of one name
#eval verdict (base ++ [asg "x_a" (n 0), bank "xY" [("a", 4, n 0)], bank "xY" [("a", 4, n 0)]])
#eval verdict (base ++ [asg "x_a" (n 0), bank "xY" [("a", 4, n 0), ("a", 4, n 0)]])
#eval verdict (base ++ [asg "x_a" (n 0), asg "x_b" (n 0), bank "xY" [("a", 4, n 0)], bank "xY" [("b", 4, n 0)]])
-- two banks sharing a letter
#eval verdict (base ++ [asg "x_a" (n 0), asg "z_b" (n 0), bank "xY" [("a", 4, n 0)], bank "zY" [("b", 4, n 0)]])
#eval verdict (base ++ [asg "x_a" (n 0), asg "z_a" (n 0), bank "xY" [("a", 4, n 0)], bank "zY" [("a", 4, n 0)]])
#eval verdict (base ++ [asg "x_a" (n 0), asg "x_b" (n 0), bank "xY" [("a", 4, n 0)], bank "xZ" [("b", 4, n 0)]])
#eval verdict (base ++ [asg "x_a" (n 0), bank "xY" [("a", 4, n 0)], bank "xZ" [("a", 4, n 0)]])
#eval verdict (base ++ [asg "x_a" (n 0), asg "z_b" (n 0), asg "stall_Y" (n 0), bank "xY" [("a", 4, n 0)], bank "zY" [("b", 4, n 0)]])
-- empty banks
#eval verdict (base ++ [bank "xY" []])
#eval verdict (base ++ [bank "xY" [], bank "xY" []])
#eval verdict (base ++ [bank "xY" [], bank "zY" []])
-- a character class in which one character is both lower and upper case
def odd : CharClass := { isLower := fun _ => true, isUpper := fun _ => true }
#eval verdictWith {} odd (base ++ [asg "x_a" (n 0), bank "xx" [("a", 4, n 0)]])
#eval verdictWith {} odd (base ++ [asg "x_a" (n 0), asg "y_a" (n 0), bank "xy" [("a", 4, n 0)], bank "yz" [("a", 4, n 0)]])
#eval verdictWith {} odd (base ++ [asg "x__a" (n 0), asg "__a" (n 0), bank "x_" [("_a", 4, n 0)], bank "_z" [("a", 4, n 0)]])
#eval verdictWith {} odd (base ++ [asg "s_x" (n 0), bank "sY" [("x", 4, n 0)]])

/-! ### bank names -/
#eval verdict (base ++ [bank "XY" []])
#eval verdict (base ++ [bank "xy" []])
#eval verdict (base ++ [bank "x" []])
#eval verdict (base ++ [bank "xYZ" []])
#eval verdict (base ++ [bank "" []])
#eval verdict (base ++ [bank "Xy" [("a", 4, n 0)]])
#eval verdict (base ++ [asg "x_a" (n 0), bank "xY" [("a", 4, n 0)], bank "XY" []])

/-! ### constants: chains, order, errors -/
#eval verdict (base ++ [consts [("a", w "b"), ("b", w "c"), ("c", w "d"), ("d", w "e"), ("e", n 5)]])
#eval verdict (base ++ [consts [("a", w "b")], consts [("b", w "c")], consts [("c", n 1)]])
#eval verdict (base ++ [consts [("a", w "a")]])
#eval verdict (base ++ [consts [("a", w "b"), ("b", w "a")]])
#eval verdict (base ++ [consts [("a", w "b"), ("b", w "c"), ("c", w "a"), ("d", n 1)]])
#eval verdict (base ++ [consts [("a", w "zz")]])
#eval verdict (base ++ [wires [("x", 1)], asg "x" (n 0), consts [("a", w "x")]])
#eval verdict (base ++ [consts [("a", w "pc")]])
#eval verdict (base ++ [consts [("a", w "mem_output")]])
#eval verdict (base ++ [consts [("a", w "Y_a")], asg "x_a" (n 0), bank "xY" [("a", 4, n 0)]])
#eval verdict (base ++ [consts [("a", w "stall_Y")], asg "x_a" (n 0), bank "xY" [("a", 4, n 0)]])
#eval verdict (base ++ [consts [("a", .bin .div (n 1) (n 0))]])
#eval verdict (base ++ [consts [("a", .bin .div (n 1) (w "z")), ("z", n 0)]])
#eval verdict (base ++ [consts [("a", .bin .div (n 1) (n 0)), ("b", w "a")]])
#eval verdict (base ++ [consts [("a", .bin .and (nb 1 2) (nb 1 3))]])
#eval verdict (base ++ [consts [("a", .bin .add (nb 1 2) (nb 1 3))]])
#eval verdictWith strict {} (base ++ [consts [("a", .bin .add (nb 1 2) (nb 1 3))]])
#eval verdict (base ++ [consts [("a", .bin .land (nb 1 2) (n 1))]])
#eval verdictWith loose {} (base ++ [consts [("a", .bin .land (nb 1 2) (n 1))]])
#eval verdict (base ++ [consts [("a", .concat (n 1) (nb 1 3))]])
#eval verdict (base ++ [consts [("a", .concat (nb 1 100) (nb 1 30))]])
#eval verdict (base ++ [consts [("a", .concat (nb 1 100) (nb 1 28))]])
#eval verdict (base ++ [consts [("a", .slice (n 5) 0 128)]])
#eval verdict (base ++ [consts [("a", .slice (nb 5 8) 0 9)]])
#eval verdict (base ++ [consts [("a", .slice (nb 5 8) 3 2)]])
#eval verdict (base ++ [consts [("a", .slice (nb 5 8) 3 3)]])
#eval verdict (base ++ [consts [("a", mux [(n 1, n 5)])]])
#eval verdict (base ++ [consts [("a", mux [(n 0, n 5)])]])
#eval verdict (base ++ [consts [("a", mux [(w "t", n 5)]), ("t", n 1)]])
#eval verdict (base ++ [consts [("a", mux [(w "t", n 5)]), ("t", n 0)]])
#eval verdict (base ++ [consts [("a", mux [(w "t", n 5), (n 1, n 6)]), ("t", n 1)]])
#eval verdict (base ++ [consts [("a", mux [(w "t", n 5), (n 1, n 6)]), ("t", n 0)]])
-- a constant used as a wire by an assignment, widths from the constant
#eval verdict (base ++ [consts [("c", nb 5 4)], wires [("x", 4)], asg "x" (w "c")])
#eval verdict (base ++ [consts [("c", nb 5 4)], wires [("x", 5)], asg "x" (w "c")])
#eval verdict (base ++ [consts [("c", .bin .add (nb 5 4) (n 1))], wires [("x", 5)], asg "x" (w "c")])
#eval verdict (base ++ [consts [("c", .bin .add (nb 5 4) (nb 1 8))], wires [("x", 8)], asg "x" (w "c")])
#eval verdict (base ++ [consts [("c", mux [(n 1, nb 5 4)])], wires [("x", 4)], asg "x" (w "c")])
#eval verdict (base ++ [consts [("c", mux [(n 1, n 5)])], wires [("x", 4)], asg "x" (w "c")])
#eval verdict (base ++ [consts [("c", mux [(n 0, nb 0 4), (n 1, n 5)])], wires [("x", 4)], asg "x" (w "c")])

/-! ### register defaults -/
#eval verdict (base ++ [wires [("x", 4)], asg "x" (n 0), asg "x_a" (n 0), bank "xY" [("a", 4, w "x")]])
#eval verdict (base ++ [asg "x_a" (n 0), bank "xY" [("a", 4, w "zz")]])
#eval verdict (base ++ [asg "x_a" (n 0), bank "xY" [("a", 4, w "c")], consts [("c", n 3)]])
#eval verdict (base ++ [asg "x_a" (n 0), bank "xY" [("a", 4, w "c")], consts [("c", nb 3 5)]])
#eval verdict (base ++ [asg "x_a" (n 0), bank "xY" [("a", 4, w "c")], consts [("c", w "d"), ("d", nb 3 4)]])
#eval verdict (base ++ [asg "x_a" (n 0), bank "xY" [("a", 4, w "Y_a")]])
#eval verdict (base ++ [asg "x_a" (n 0), bank "xY" [("a", 4, w "x_a")]])
#eval verdict (base ++ [asg "x_a" (n 0), bank "xY" [("a", 4, w "pc")]])
#eval verdict (base ++ [asg "x_a" (n 0), bank "xY" [("a", 4, w "stall_Y")]])
#eval verdict (base ++ [asg "x_a" (n 0), bank "xY" [("a", 4, .bin .div (n 1) (n 0))]])
#eval verdict (base ++ [asg "x_a" (n 0), bank "xY" [("a", 4, n 100)]])
#eval verdict (base ++ [asg "x_a" (n 0), bank "xY" [("a", 4, nb 3 5)]])
#eval verdict (base ++ [asg "x_a" (n 0), bank "xY" [("a", 4, mux [(n 1, n 100)])]])
#eval verdict (base ++ [asg "x_a" (n 0), bank "xY" [("a", 4, mux [(n 0, n 100)])]])
#eval verdict (base ++ [asg "x_a" (n 0), bank "xY" [("a", 0, n 0)]])
-- the default of a badly named bank is not looked at by either side? (both reject for the name)
#eval verdict (base ++ [bank "XY" [("a", 4, w "zz")]])
-- register outputs / inputs
#eval verdict (base ++ [bank "xY" [("a", 4, n 0)]])
#eval verdict (base ++ [asg "x_a" (n 0), asg "Y_a" (n 0), bank "xY" [("a", 4, n 0)]])
#eval verdict (base ++ [asg "x_a" (w "Y_a"), bank "xY" [("a", 4, n 0)]])
#eval verdict (base ++ [asg "x_a" (w "x_a"), bank "xY" [("a", 4, n 0)]])
#eval verdict (base ++ [asg "x_a" (n 0), asg "bubble_Y" (n 1), bank "xY" [("a", 4, n 0)]])
#eval verdict (base ++ [asg "x_a" (n 0), asg "bubble_Y" (nb 1 2), bank "xY" [("a", 4, n 0)]])
#eval verdict (base ++ [asg "x_a" (w "stall_Y"), bank "xY" [("a", 4, n 0)]])
#eval verdict (base ++ [asg "x_a" (w "stall_Y"), asg "stall_Y" (n 0), bank "xY" [("a", 4, n 0)]])
#eval verdict (base ++ [asg "x_a" (w "stall_Y"), asg "stall_Y" (w "x_a"), bank "xY" [("a", 4, n 0)]])
#eval verdict (base ++ [asg "x_a" (w "stall_Y"), asg "stall_Y" (w "Y_a"), bank "xY" [("a", 4, n 0)]])

/-! ### built-in components -/
#eval verdict (base ++ [asg "mem_readbit" (n 0)])
#eval verdict (base ++ [asg "mem_readbit" (n 1)])
#eval verdict (base ++ [asg "mem_readbit" (n 0), asg "mem_writebit" (n 0)])
#eval verdict (base ++ [asg "mem_addr" (n 0)])
#eval verdict (base ++ [asg "mem_addr" (n 0), asg "mem_readbit" (n 0)])
#eval verdict (base ++ [asg "mem_addr" (n 0), asg "mem_readbit" (n 1)])
#eval verdict (base ++ [asg "mem_addr" (n 0), asg "mem_writebit" (n 0)])
#eval verdict (base ++ [asg "mem_addr" (n 0), asg "mem_readbit" (n 0), asg "mem_writebit" (n 0)])
#eval verdict (base ++ [asg "mem_input" (n 0)])
#eval verdict (base ++ [asg "mem_input" (n 0), asg "mem_writebit" (n 0)])
#eval verdict (base ++ [consts [("z", n 0)], asg "mem_readbit" (w "z")])
#eval verdict (base ++ [consts [("z", n 1)], asg "mem_readbit" (w "z")])
#eval verdict (base ++ [wires [("x", 1)], asg "x" (n 0), asg "mem_readbit" (w "x")])
#eval verdict (base ++ [asg "mem_readbit" (nb 0 2)])
#eval verdict (base ++ [asg "mem_readbit" (.bin .div (n 0) (n 0))])
#eval verdict (base ++ [asg "mem_readbit" (.bin .sub (n 1) (n 1))])
#eval verdict (base ++ [asg "mem_readbit" (.un .not (n 1))])
#eval verdict (base ++ [asg "mem_readbit" (.slice (n 2) 0 1)])
#eval verdict (base ++ [asg "mem_readbit" (.slice (n 2) 1 2)])
#eval verdict (base ++ [asg "mem_readbit" (mux [(n 1, n 0)])])
#eval verdict (base ++ [asg "mem_readbit" (mux [(n 1, n 2)])])   -- an unsized 2 assigned to a 1-bit wire
#eval verdict (base ++ [asg "mem_readbit" (mux [(n 1, nb 0 1)])])
-- D-A: short-circuit evaluation of a disabled enable signal (the case expression never looks at `x`).
--   `wire x:1; x = 0; mem_readbit = [0 : x; 1 : 0]; pc = 0; Stat = 0;`   (mem_addr not assigned)
--   spec: rej[partialComponent:mem_addr]   model: ok.
--   The enable is not a constant expression (it mentions the wire x), so by the prose of C09 ("unless its enable input is
--   the constant 0") the specification's verdict is the defensible reading; the code accepts because `evaluate` with only
--   the constants in scope never reaches `x`.  The code is more liberal than the documented rule; harmless at run time
--   (the port really is always disabled).
#eval verdict (base ++ [wires [("x", 1)], asg "x" (n 0), asg "mem_readbit" (mux [(n 0, w "x"), (n 1, n 0)])])
--   the same with the strictness options off:  `mem_readbit = [1 : 0; x : 1]`      spec: rej   model: ok
#eval verdictWith loose {} (base ++ [wires [("x", 1)], asg "x" (n 0), asg "mem_readbit" (mux [(n 1, n 0), (w "x", n 1)])])
--   the same through an `in` set:  `mem_readbit = !(1 in {1, x})`                  spec: rej   model: ok
#eval verdict (base ++ [wires [("x", 1)], asg "x" (n 0), asg "mem_readbit" (.un .not (inS (n 1) [n 1, w "x"]))])
-- output read while an input is missing
#eval verdict (base ++ [wires [("x", 64)], asg "x" (w "mem_output")])
#eval verdict (base ++ [wires [("x", 64)], asg "x" (w "mem_output"), asg "mem_addr" (n 0)])
#eval verdict (base ++ [wires [("x", 64)], asg "x" (w "mem_output"), asg "mem_addr" (n 0), asg "mem_readbit" (n 0)])
#eval verdict (base ++ [wires [("x", 64)], asg "x" (w "mem_output"), asg "mem_readbit" (n 0)])
#eval verdict (base ++ [wires [("x", 64)], asg "x" (w "reg_outputA")])
#eval verdict (base ++ [wires [("x", 64)], asg "x" (w "reg_outputA"), asg "reg_srcA" (n 0)])
#eval verdict (base ++ [asg "reg_dstE" (n 0)])
#eval verdict (base ++ [asg "reg_inputE" (n 0)])
#eval verdict (base ++ [asg "reg_dstE" (n 0), asg "reg_inputE" (n 0)])
#eval verdict (base ++ [wires [("x", 64)], asg "x" (w "reg_dstE")])
#eval verdict (base ++ [wires [("x", 64)], asg "x" (w "mem_addr")])
#eval verdict (base ++ [wires [("x", 64)], asg "x" (w "mem_addr"), asg "mem_addr" (n 0), asg "mem_readbit" (n 0)])
#eval verdict (base ++ [asg "i10bytes" (n 0)])
#eval verdict (base ++ [asg "mem_output" (n 0)])
#eval verdict (base ++ [asg "mem_output" (n 0), asg "mem_addr" (n 0), asg "mem_readbit" (n 0)])
#eval verdict [asg "pc" (w "i10bytes"), asg "Stat" (n 0)]
#eval verdict [asg "pc" (.slice (w "i10bytes") 0 64), asg "Stat" (n 0)]
#eval verdict [asg "pc" (n 0), asg "Stat" (.slice (w "i10bytes") 0 3)]
#eval verdict [asg "pc" (n 0), asg "Stat" (w "i10bytes")]
#eval verdict (base ++ [asg "reg_srcA" (.slice (w "reg_outputA") 0 4)])
#eval verdict (base ++ [asg "reg_srcA" (.slice (w "reg_outputB") 0 4), asg "reg_srcB" (.slice (w "reg_outputA") 0 4)])
#eval verdict (base ++ [asg "reg_srcA" (.slice (w "reg_outputB") 0 4)])
#eval verdict (base ++ [asg "mem_addr" (w "mem_output"), asg "mem_readbit" (n 1)])
#eval verdict (base ++ [asg "mem_addr" (n 0), asg "mem_readbit" (.slice (w "mem_output") 0 1)])
#eval verdict (base ++ [asg "mem_addr" (w "mem_output"), asg "mem_readbit" (n 0)])

/-! ### assigned / declared / read -/
#eval verdict (base ++ [asg "x" (n 0)])
#eval verdict (base ++ [wires [("x", 1)]])
#eval verdict (base ++ [wires [("x", 1)], asg "x" (w "y")])
#eval verdict (base ++ [wires [("x", 1)], asg "x" (n 0), asg "x" (n 0)])
#eval verdict (base ++ [wires [("x", 1)], asgs ["x", "x"] (n 0)])
#eval verdict (base ++ [wires [("x", 1), ("y", 1)], asgs ["x", "y"] (n 0)])
#eval verdict (base ++ [consts [("c", n 0)], asg "c" (n 0)])
#eval verdict ([asg "pc" (n 0), asg "Stat" (n 0), asg "pc" (n 0)])
#eval verdict (base ++ [asg "" (n 0)])
#eval verdict (base ++ [wires [("", 1)], asg "" (n 0)])

/-! ### loops -/
#eval verdict (base ++ [wires [("x", 1)], asg "x" (w "x")])
#eval verdict (base ++ [wires [("x", 1), ("y", 1)], asg "x" (w "y"), asg "y" (w "x")])
#eval verdict (base ++ [wires [("x", 1), ("y", 1), ("z", 1)], asg "x" (w "y"), asg "y" (w "z"), asg "z" (w "x")])
#eval verdict (base ++ [wires [("x", 1), ("y", 1), ("z", 1)], asg "x" (w "y"), asg "y" (w "z"), asg "z" (n 0)])
#eval verdict (base ++ [wires [("x", 1)], asg "x" (mux [(n 0, w "x"), (n 1, n 0)])])
#eval verdict (base ++ [wires [("x", 4)], asg "x" (w "Y_a"), asg "x_a" (w "x"), bank "xY" [("a", 4, n 0)]])
#eval verdict (base ++ [consts [("c", n 1)], wires [("x", 4)], asg "x" (w "c")])
#eval verdict [asg "pc" (.slice (w "i10bytes") 0 64), asg "Stat" (n 0)]
#eval verdict (base ++ [wires [("x", 64)], asg "x" (w "mem_output"), asg "mem_addr" (w "x"), asg "mem_readbit" (n 0)])
#eval verdict (base ++ [wires [("x", 64)], asg "x" (w "mem_output"), asg "mem_addr" (n 0), asg "mem_readbit" (.slice (w "x") 0 1)])

/-! ### width rules in assignments -/
#eval verdict (base ++ [wires [("x", 4)], asg "x" (nb 0 5)])
#eval verdict (base ++ [wires [("x", 4)], asg "x" (n 100)])
#eval verdict (base ++ [wires [("x", 0)], asg "x" (n 0)])
#eval verdict (base ++ [wires [("x", 0)], asg "x" (nb 0 0)])
#eval verdict (base ++ [wires [("x", 0), ("y", 4)], asg "x" (.slice (w "y") 2 2), asg "y" (n 0)])
#eval verdict (base ++ [wires [("x", 0), ("y", 4)], asg "x" (n 1), asg "y" (.concat (w "x") (nb 1 4))])
#eval verdict (base ++ [wires [("x", 1), ("y", 4)], asg "x" (inS (w "y") [n 1, nb 2 4]), asg "y" (n 0)])
#eval verdict (base ++ [wires [("x", 1), ("y", 4)], asg "x" (inS (w "y") [n 1, nb 2 5]), asg "y" (n 0)])
#eval verdict (base ++ [wires [("x", 1), ("y", 4)], asg "x" (inS (w "y") []), asg "y" (n 0)])
#eval verdict [asg "pc" (nb 0 63), asg "Stat" (n 0)]
#eval verdict [asg "pc" (n 0), asg "Stat" (nb 0 4)]

/-! ### the always-true analysis -/
-- depends on a constant
#eval verdict (base ++ [consts [("t", n 1)], wires [("x", 4)], asg "x" (mux [(w "t", n 1)])])
#eval verdict (base ++ [consts [("t", n 0)], wires [("x", 4)], asg "x" (mux [(w "t", n 1)])])
#eval verdict (base ++ [consts [("t", n 1)], wires [("x", 4)], asg "x" (mux [(w "t", n 1), (n 1, n 2)])])
#eval verdict (base ++ [consts [("t", n 0)], wires [("x", 4)], asg "x" (mux [(w "t", n 1), (n 1, n 2)])])
#eval verdict (base ++ [consts [("t", n 1)], wires [("x", 4)], asg "x" (mux [(n 1, n 1), (w "t", n 2)])])
-- depends on a wire: never "always true"
#eval verdict (base ++ [wires [("x", 4), ("y", 1)], asg "y" (n 1), asg "x" (mux [(w "y", n 1)])])
#eval verdict (base ++ [wires [("x", 4), ("y", 1)], asg "y" (n 1), asg "x" (mux [(w "y", n 1), (n 1, n 0)])])
-- depends on a register output (known at start-up but not a constant)
#eval verdict (base ++ [wires [("x", 4)], asg "x" (mux [(w "Y_a", n 1)]), asg "x_a" (n 0), bank "xY" [("a", 1, n 1)]])
-- D-B: the condition is lazily evaluated past a wire.
--   `wire x:4, y:1; y = 1; x = [ [0 : y; 1 : 1] : 1 ];`       spec: rej[widthRule:x] (no always-true arm)   model: ok
--   `... x = [ (1 in {1, y}) : 1 ];`                             spec: rej[widthRule:x]                         model: ok
--   (and with a second arm `1 : 2` the verdicts swap: the model reports MultipleMuxDefaultOption, the specification accepts).
--   The condition mentions a wire, so "always true" in the sense of C08 is debatable; its value is 1 whatever the wire
--   is, so the code's verdict is semantically right and the specification (constant expressions only) is the stricter
--   reading.  Neither contradicts the prose.
#eval verdict (base ++ [wires [("x", 4), ("y", 1)], asg "y" (n 1), asg "x" (mux [(mux [(n 0, w "y"), (n 1, n 1)], n 1)])])
#eval verdict (base ++ [wires [("x", 4), ("y", 1)], asg "y" (n 1), asg "x" (mux [(inS (n 1) [n 1, w "y"], n 1)])])
-- D-C: the condition contains a case expression whose selected value does not fit the width the rules give it.
--   `wire x:4; x = [ [0 : 1'b0; 1 : 2] : 1 ];`          spec: rej[widthRule:x] (condition has value 0)   model: ok
--   `wire x:4; x = [ [0 : 1'b0; 1 : 2] : 1; 1 : 3 ];`   spec: ok                                          model: rej[MultipleMuxDefaultOption]
--   `wire x:4; x = [ ([0 : 1'b0; 1 : 2] == 0) : 1 ];`   spec: ok                                          model: rej[NoMuxDefaultOption]
--   Here the CODE is wrong with respect to its own semantics: `always_true` evaluates the condition BEFORE the width
--   fix-up of case expressions (`fix_mux_widths`), so the inner case expression yields the unsized 2, whereas at run
--   time (after the fix-up) it yields 2 mod 2^1 = 0.  In the first program the arm the checker calls "always true" is
--   never taken at run time and `x` silently takes the value 0 of an exhausted case expression; in the second the
--   checker rejects a correct program.  The specification's verdict is the right one (C08: "every case expression ends
--   in exactly one always-true arm").
#eval verdict (base ++ [wires [("x", 4)], asg "x" (mux [(mux [(n 0, nb 0 1), (n 1, n 2)], n 1)])])
#eval verdict (base ++ [wires [("x", 4)], asg "x" (mux [(mux [(n 0, nb 0 1), (n 1, n 2)], n 1), (n 1, n 3)])])
#eval verdict (base ++ [wires [("x", 4)], asg "x" (mux [(mux [(n 0, nb 0 1), (n 1, n 3)], n 1)])])
#eval verdict (base ++ [wires [("x", 4)], asg "x" (mux [(.bin .eq (mux [(n 0, nb 0 1), (n 1, n 2)]) (n 0), n 1)])])
-- a condition that divides by zero
#eval verdict (base ++ [wires [("x", 4)], asg "x" (mux [(.bin .div (n 1) (n 0), n 1), (n 1, n 3)])])
-- flags off
#eval verdictWith loose {} (base ++ [wires [("x", 4)], asg "x" (mux [(n 0, n 1)])])
#eval verdictWith loose {} (base ++ [wires [("x", 4)], asg "x" (mux [(n 1, n 1), (n 1, n 2)])])
#eval verdictWith loose {} (base ++ [wires [("x", 4)], asg "x" (mux [])])
#eval verdict (base ++ [wires [("x", 4)], asg "x" (mux [])])
#eval verdict (base ++ [wires [("x", 4)], asg "x" (mux [(n 1, nb 1 4), (n 1, nb 2 4)])])
#eval verdict (base ++ [wires [("x", 4)], asg "x" (mux [(n 1, nb 1 4), (n 0, nb 2 4)])])
#eval verdict (base ++ [wires [("x", 4)], asg "x" (mux [(n 0, nb 1 4), (n 1, nb 2 5)])])
-- the always-true analysis inside a constant that reads a later constant
#eval verdict (base ++ [consts [("a", mux [(w "b", n 1)]), ("b", mux [(w "c", n 1)]), ("c", n 1)]])
#eval verdict (base ++ [consts [("a", mux [(w "b", n 1)]), ("b", mux [(w "c", n 0)]), ("c", n 1)]])
-- the always-true analysis in the enable of a partially wired component
#eval verdict (base ++ [consts [("t", n 1)], asg "mem_readbit" (mux [(w "t", n 0)])])
#eval verdict (base ++ [consts [("t", n 0)], asg "mem_readbit" (mux [(w "t", n 0), (n 1, n 0)])])

-- conditions in the style of real programs: `in` sets of constants, comparisons of wires, `in` sets of wires
#eval verdict (base ++ [consts [("A", nb 1 4), ("B", nb 2 4)], wires [("x", 4), ("ic", 4), ("s", 4)], asg "ic" (n 0), asg "s" (n 0),
  asg "x" (mux [(inS (w "ic") [w "A", w "B"], n 1), (.bin .land (.bin .eq (w "ic") (w "A")) (inS (w "s") [w "ic", w "s"]), n 2), (n 1, n 3)])])
#eval verdict (base ++ [consts [("A", nb 1 4)], wires [("ic", 4)], asg "ic" (n 0), asg "mem_readbit" (inS (w "ic") [w "A"])])
#eval verdict (base ++ [consts [("A", nb 1 4)], wires [("ic", 4)], asg "ic" (n 0), asg "mem_readbit" (mux [(.bin .eq (w "ic") (w "A"), n 1), (n 1, n 0)])])

end SFT
