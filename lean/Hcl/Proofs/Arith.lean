import Hcl.Model.Eval
import Hcl.Spec.Denote
open Rust

/-! Arithmetic facts: masks, shifts and wrap-around of the Rust primitives in terms of `%`. -/

theorem U128_pos : 0 < U128 := by unfold U128; exact Nat.pow_pos (by decide)
theorem U128_eq : U128 = 2 ^ 128 := rfl

theorem maskBits_eq (s : Nat) (h : s ≤ 128) : maskBits s = .ok (2 ^ s - 1) := by
  unfold maskBits
  by_cases hs : s = 0
  · subst hs; rfl
  · simp only [hs, ↓reduceIte, uSub, h, bind, Except.bind, pure, Except.pure, u128Shr]
    have h1 : 128 - s < 128 := by omega
    simp only [h1, ↓reduceIte, U128]
    congr 1
    rw [Nat.shiftRight_eq_div_pow]
    have : (2:Nat)^128 = 2^s * 2^(128 - s) := by rw [← Nat.pow_add]; congr 1; omega
    rw [this]
    have hp : 0 < (2:Nat)^(128-s) := Nat.pow_pos (by decide)
    have hs' : 0 < (2:Nat)^s := Nat.pow_pos (by decide)
    generalize (2:Nat)^(128-s) = b at *
    generalize (2:Nat)^s = a at *
    apply Nat.div_eq_of_lt_le
    · have : (a - 1) * b + b = a * b := by
        cases a with
        | zero => omega
        | succ n => simp [Nat.succ_mul]
      omega
    · have : (a - 1 + 1) * b = a * b := by congr 1; omega
      rw [this]; omega

theorem Width.mask_eq (w : Width) (h : w.ok) : w.mask = .ok (w.card - 1) := by
  cases w with
  | unlimited => rfl
  | bits n => exact maskBits_eq n h

theorem and_mask (x : Nat) (w : Width) : x &&& (w.card - 1) = x % w.card := by
  cases w with
  | unlimited => exact Nat.and_two_pow_sub_one_eq_mod x 128
  | bits n => exact Nat.and_two_pow_sub_one_eq_mod x n

theorem Width.card_pos (w : Width) : 0 < w.card := by
  cases w <;> simp [Width.card, U128] <;> exact Nat.pow_pos (by decide)

theorem Spec.card_eq (w : Width) : Spec.card w = w.card := by cases w <;> rfl

/-- the number of values of an admissible width divides 2^128 -/
theorem Width.card_dvd (w : Width) (h : w.ok) : w.card ∣ U128 := by
  cases w with
  | unlimited => exact Nat.dvd_refl _
  | bits n => exact Nat.pow_dvd_pow 2 h

theorem Width.card_le (w : Width) (h : w.ok) : w.card ≤ U128 :=
  Nat.le_of_dvd U128_pos (w.card_dvd h)

theorem Width.max_ok {a b : Width} (ha : a.ok) (hb : b.ok) : (a.max b).ok := by
  match a, b, ha, hb with
  | .unlimited, _, _, hb => simpa [Width.max] using hb
  | .bits _, .unlimited, ha, _ => simpa [Width.max] using ha
  | .bits s, .bits t, ha, hb =>
    simp only [Width.max]; split
    · exact ha
    · exact hb

theorem Width.combine_ok {a b w : Width} (ha : a.ok) (hb : b.ok) (h : a.combine b = some w) : w.ok := by
  match a, b, ha, hb, h with
  | .unlimited, _, _, hb, h => simp [Width.combine] at h; subst h; exact hb
  | .bits _, .unlimited, ha, _, h => simp [Width.combine] at h; subst h; exact ha
  | .bits s, .bits t, ha, hb, h =>
    simp only [Width.combine] at h
    split at h
    · simp at h; subst h; exact ha
    · simp at h

theorem Width.max_eq_join (a b : Width) : a.max b = Spec.join a b := by
  cases a <;> cases b <;> simp [Width.max, Spec.join]
  rename_i s t
  simp only [Nat.max_def]
  split <;> split <;> first | rfl | (congr 1; omega)

theorem Width.combine_eq_join {a b w : Width} (h : a.combine b = some w) : Spec.join a b = w := by
  cases a <;> cases b <;> simp [Width.combine, Spec.join] at h ⊢
  · rename_i s t
    obtain ⟨rfl, rfl⟩ := h; simp
  · exact h
  · exact h
  · exact h

/-- masking the raw result to an admissible width -/
theorem maskStep (w : Width) (hw : w.ok) (raw : Nat) :
    (do let m ← liftR w.mask; pure (⟨raw &&& m, w⟩ : WireValue) : E WireValue)
      = .ok ⟨raw % w.card, w⟩ := by
  rw [Width.mask_eq w hw]; simp [liftR, bind, Except.bind, pure, Except.pure, and_mask]

theorem mod_mod_card (x : Nat) (w : Width) (hw : w.ok) : x % U128 % w.card = x % w.card :=
  Nat.mod_mod_of_dvd x (w.card_dvd hw)

/-- wrap-around subtraction, read as integer subtraction modulo `2^w` -/
theorem wrappingSub_mod (x y : Nat) (w : Width) (hw : w.ok) (hy : y < U128) :
    wrappingSub x y % w.card = (((x : Int) - (y : Int)) % (w.card : Int)).toNat := by
  unfold wrappingSub
  rw [mod_mod_card _ w hw]
  obtain ⟨k, hk⟩ := w.card_dvd hw
  have hpos : (0 : Int) < (w.card : Int) := by exact_mod_cast w.card_pos
  have h1 : (((x + U128 - y : Nat) : Int)) = (x : Int) - (y : Int) + (w.card : Int) * (k : Int) := by
    have : y ≤ x + U128 := by omega
    rw [Int.ofNat_sub this]
    push_cast
    rw [hk]; push_cast; omega
  have h2 : ((x : Int) - (y : Int)) % (w.card : Int) = (((x + U128 - y : Nat) : Int)) % (w.card : Int) := by
    rw [h1, Int.add_mul_emod_self_left]
  rw [h2, ← Int.natCast_emod, Int.toNat_natCast]
