import Hcl.Graph.DfsSound

/-! Completeness of the `find_cycle` model: if the loop runs to an empty deque, the graph has a
    topological numbering.  Ghost state: `chain` (current DFS path, deepest first) and `fin`
    (finished nodes, most recently finished first). -/

/-- parent links along the chain; the shallowest element is a root -/
def ChainOK (p : PMap) : List Node → Prop
  | [] => True
  | [a] => p a = some none
  | a :: b :: t => p a = some (some b) ∧ ChainOK p (b :: t)

/-- every successor of a finished node was finished earlier -/
def TopoOK (g : Graph) : List Node → Prop
  | [] => True
  | u :: rest => (∀ v ∈ g.succ u, v ∈ rest) ∧ TopoOK g rest

/-- deque shape: child entries grouped by parent along the chain (deepest first), then roots -/
inductive Grp : List Node → List (Option Node × Node) → Prop
  | roots {ch es} : (∀ e ∈ es, e.1 = none) → Grp ch es
  | same {c ch x es} : Grp (c :: ch) es → Grp (c :: ch) ((some c, x) :: es)
  | drop {c ch es} : Grp ch es → Grp (c :: ch) es

structure CInv (g : Graph) (s : DState) (chain fin : List Node) : Prop where
  chainOK : ChainOK s.parents chain
  nodup : (chain ++ fin).Nodup
  visited : ∀ x, (s.parents x).isSome ↔ x ∈ chain ∨ x ∈ fin
  topo : TopoOK g fin
  grp : Grp chain s.stack
  edges : ∀ pre a post, chain = pre ++ a :: post → ∀ v ∈ g.succ a,
            (some a, v) ∈ s.stack ∨ v ∈ fin ∨ v ∈ pre
  roots : ∀ u ∈ g.nodes, (s.parents u).isSome ∨ (none, u) ∈ s.stack
  inNodes : ∀ x ∈ chain, x ∈ g.nodes
  entriesEdge : ∀ p c, (some p, c) ∈ s.stack → c ∈ g.succ p
  rootsNodes : ∀ u, (none, u) ∈ s.stack → u ∈ g.nodes

theorem Grp.parent_mem {ch es p x} (h : Grp ch es) (hm : (some p, x) ∈ es) : p ∈ ch := by
  induction h with
  | roots hr => have := hr _ hm; simp at this
  | same _ ih =>
    rcases List.mem_cons.mp hm with heq | hm
    · cases heq; simp
    · exact ih hm
  | drop _ ih => exact List.mem_cons_of_mem _ (ih hm)

theorem Grp.tail {ch e es} (h : Grp ch (e :: es)) : Grp ch es := by
  generalize hl : e :: es = l at h
  induction h with
  | roots hr => subst hl; exact .roots (fun e he => hr e (List.mem_cons_of_mem _ he))
  | same h _ => cases hl; exact h
  | drop _ ih => exact .drop (ih hl)

/-- flushing a prefix of the chain into `fin`, deepest first -/
theorem TopoOK_flush (g : Graph) (stack : List (Option Node × Node)) :
    ∀ (pre rest fin : List Node),
      TopoOK g fin →
      (∀ pre' a post, pre ++ rest = pre' ++ a :: post → ∀ v ∈ g.succ a,
            (some a, v) ∈ stack ∨ v ∈ fin ∨ v ∈ pre') →
      (∀ a ∈ pre, ∀ v, (some a, v) ∉ stack) →
      TopoOK g (pre.reverse ++ fin) ∧
      (∀ pre' a post, rest = pre' ++ a :: post → ∀ v ∈ g.succ a,
            (some a, v) ∈ stack ∨ v ∈ pre.reverse ++ fin ∨ v ∈ pre') := by
  intro pre
  induction pre with
  | nil => intro rest fin ht hed _; exact ⟨by simpa using ht, by simpa using hed⟩
  | cons d pre ih =>
    intro rest fin ht hed hnp
    have hd : TopoOK g (d :: fin) := by
      refine ⟨?_, ht⟩
      intro v hv
      rcases hed [] d (pre ++ rest) (by simp) v hv with h | h | h
      · exact absurd h (hnp d (by simp) v)
      · exact h
      · simp at h
    have := ih rest (d :: fin) hd
      (by
        intro pre' a post heq v hv
        rcases hed (d :: pre') a post (by simp [heq]) v hv with h | h | h
        · exact Or.inl h
        · exact Or.inr (Or.inl (List.mem_cons_of_mem _ h))
        · rcases List.mem_cons.mp h with h | h
          · subst h; exact Or.inr (Or.inl (by simp))
          · exact Or.inr (Or.inr h))
      (fun a ha v => hnp a (List.mem_cons_of_mem _ ha) v)
    simpa [List.reverse_cons, List.append_assoc] using this

theorem Grp.split_front {chain p x es} (h : Grp chain ((some p, x) :: es)) :
    ∃ pre ch, chain = pre ++ p :: ch ∧ Grp (p :: ch) es := by
  generalize hl : (some p, x) :: es = l at h
  induction h with
  | roots hr => subst hl; have := hr (some p, x) (by simp); simp at this
  | same h _ => cases hl; exact ⟨[], _, rfl, h⟩
  | drop _ ih =>
    obtain ⟨pre, ch, rfl, hg⟩ := ih hl
    exact ⟨_ :: pre, ch, rfl, hg⟩

theorem Grp.roots_of_front_none {chain x es} (h : Grp chain ((none, x) :: es)) :
    ∀ e ∈ es, e.1 = none := by
  generalize hl : ((none : Option Node), x) :: es = l at h
  induction h with
  | roots hr => subst hl; exact fun e he => hr e (List.mem_cons_of_mem _ he)
  | same _ _ => cases hl
  | drop _ ih => exact ih hl

theorem Grp.push_children {c ch rest} (kids : List Node) (h : Grp ch rest) :
    Grp (c :: ch) (kids.map (fun o => (some c, o)) ++ rest) := by
  induction kids with
  | nil => exact .drop h
  | cons k ks ih => exact .same ih

theorem ChainOK_suffix {p : PMap} : ∀ (pre ch : List Node), ChainOK p (pre ++ ch) → ChainOK p ch := by
  intro pre
  induction pre with
  | nil => intro ch h; exact h
  | cons a pre ih =>
    intro ch h
    cases hpc : pre ++ ch with
    | nil =>
      have : ch = [] := by
        cases pre <;> simp_all
      subst this; trivial
    | cons b t =>
      rw [List.cons_append, hpc] at h
      exact ih ch (hpc ▸ h.2)

theorem ChainOK_congr {p q : PMap} : ∀ (ch : List Node), (∀ x ∈ ch, p x = q x) → ChainOK p ch → ChainOK q ch := by
  intro ch
  induction ch with
  | nil => intro _ _; trivial
  | cons a t ih =>
    intro hpq h
    cases t with
    | nil => simp only [ChainOK] at h ⊢; rw [← hpq a (by simp)]; exact h
    | cons b t' =>
      simp only [ChainOK] at h ⊢
      refine ⟨by rw [← hpq a (by simp)]; exact h.1, ih (fun x hx => hpq x (List.mem_cons_of_mem _ hx)) h.2⟩

/-- walking from the head of a well-formed chain reaches `cur` if it is on the chain -/
theorem walk_finds {p : PMap} {cur : Node} : ∀ (ch : List Node) (a : Node) (fuel : Nat) (acc : List Node),
    ChainOK p (a :: ch) → cur ∈ a :: ch → ch.length ≤ fuel → acc.head? = some a →
    (walk p cur fuel a acc).head? = some cur := by
  intro ch
  induction ch with
  | nil =>
    intro a fuel acc _ hmem _ hacc
    have : a = cur := by simp at hmem; exact hmem.symm
    subst this
    cases fuel <;> simp [walk, hacc]
  | cons b t ih =>
    intro a fuel acc hc hmem hf hacc
    by_cases hac : a = cur
    · subst hac; cases fuel <;> simp [walk, hacc]
    · cases fuel with
      | zero => simp at hf
      | succ f =>
        simp only [walk, hac, ↓reduceIte]
        have hpa : p a = some (some b) := hc.1
        rw [hpa]
        apply ih b f (b :: acc) hc.2
        · rcases List.mem_cons.mp hmem with h | h
          · exact absurd h.symm hac
          · exact h
        · simp at hf; omega
        · rfl

theorem nodup_subset_length : ∀ (l₁ l₂ : List Node), l₁.Nodup → (∀ x ∈ l₁, x ∈ l₂) → l₁.length ≤ l₂.length := by
  intro l₁
  induction l₁ with
  | nil => intro _ _ _; simp
  | cons a t ih =>
    intro l₂ hn hs
    have ha : a ∈ l₂ := hs a (by simp)
    have hn' := List.nodup_cons.mp hn
    have := ih (l₂.erase a) hn'.2 (by
      intro x hx
      have hxa : x ≠ a := fun h => hn'.1 (h ▸ hx)
      exact (List.mem_erase_of_ne hxa).mpr (hs x (List.mem_cons_of_mem _ hx)))
    rw [List.length_erase_of_mem ha] at this
    have hpos : 0 < l₂.length := List.length_pos_of_mem ha
    simp; omega

theorem set_isSome (p : PMap) (k : Node) (v : Option Node) (x : Node) :
    ((p.set k v) x).isSome ↔ x = k ∨ (p x).isSome := by
  unfold PMap.set; by_cases h : x = k <;> simp [h]

theorem set_ne (p : PMap) (k : Node) (v : Option Node) (x : Node) (h : x ≠ k) : (p.set k v) x = p x := by
  unfold PMap.set; simp [h]

theorem set_eq (p : PMap) (k : Node) (v : Option Node) : (p.set k v) k = some v := by
  unfold PMap.set; simp

theorem nodup_flush {pre rest fin : List Node} (h : ((pre ++ rest) ++ fin).Nodup) :
    (rest ++ (pre.reverse ++ fin)).Nodup := by
  have hp : ((pre ++ rest) ++ fin).Perm (rest ++ (pre.reverse ++ fin)) := by
    have h1 : (pre ++ rest).Perm (rest ++ pre.reverse) :=
      (List.perm_append_comm).trans (List.Perm.append_left rest (List.reverse_perm pre).symm)
    simpa [List.append_assoc] using List.Perm.append_right fin h1
  exact hp.nodup_iff.mp h

/-- the whole chain can be flushed when no child entries are pending -/
theorem flush_all {g : Graph} {s : DState} {chain fin : List Node} (inv : CInv g s chain fin)
    (hroots : ∀ e ∈ s.stack, e.1 = none) :
    TopoOK g (chain.reverse ++ fin) := by
  have := TopoOK_flush g s.stack chain [] fin inv.topo
    (by intro pre' a post heq v hv; exact inv.edges pre' a post (by simpa using heq) v hv)
    (by intro a _ v hm; have := hroots _ hm; simp at this)
  exact this.1

theorem step_done_topo (g : Graph) (n : Nat) (s : DState) (chain fin : List Node)
    (inv : CInv g s chain fin) (h : step g n s = .done) :
    ∃ order, TopoOK g order ∧ order.Nodup ∧ ∀ u ∈ g.nodes, u ∈ order := by
  unfold step at h
  split at h
  · rename_i hst
    refine ⟨chain.reverse ++ fin, flush_all inv (by rw [hst]; simp), ?_, ?_⟩
    · have := nodup_flush (pre := chain) (rest := []) (fin := fin) (by simpa using inv.nodup)
      simpa using this
    · intro u hu
      rcases inv.roots u hu with hv | hm
      · rcases (inv.visited u).mp hv with hc | hf
        · exact List.mem_append_left _ (List.mem_reverse.mpr hc)
        · exact List.mem_append_right _ hf
      · rw [hst] at hm; simp at hm
  · rename_i mp cur rest hst
    cases mp with
    | none => simp at h
    | some parent =>
      simp only at h
      split at h
      · split at h
        · split at h <;> cases h
        · cases h
      · cases h

def kidsOf (g : Graph) (cur : Node) : List (Option Node × Node) :=
  (g.succ cur).reverse.map (fun o => (some cur, o))

theorem mem_kidsOf {g : Graph} {cur : Node} {e : Option Node × Node} :
    e ∈ kidsOf g cur ↔ ∃ o ∈ g.succ cur, e = (some cur, o) := by
  unfold kidsOf; simp only [List.mem_map, List.mem_reverse]
  constructor
  · rintro ⟨o, ho, rfl⟩; exact ⟨o, ho, rfl⟩
  · rintro ⟨o, ho, rfl⟩; exact ⟨o, ho, rfl⟩

theorem grp_kids {g : Graph} {cur : Node} {ch rest} (h : Grp ch rest) :
    Grp (cur :: ch) (kidsOf g cur ++ rest) := Grp.push_children _ h

theorem singleton_split {cur a : Node} {pre post : List Node} (h : [cur] = pre ++ a :: post) :
    pre = [] ∧ a = cur ∧ post = [] := by
  cases pre with
  | nil => simp at h; exact ⟨rfl, h.1.symm, h.2⟩
  | cons b t => simp at h

theorem cinv_root_fresh {g : Graph} {s : DState} {chain fin rest : List _} {cur : Node}
    (inv : CInv g s chain fin) (hst : s.stack = (none, cur) :: rest) (hfresh : s.parents cur = none) :
    CInv g ⟨kidsOf g cur ++ rest, s.parents.set cur none⟩ [cur] (chain.reverse ++ fin) := by
  have hrest : ∀ e ∈ rest, e.1 = none := Grp.roots_of_front_none (hst ▸ inv.grp)
  have hall : ∀ e ∈ s.stack, e.1 = none := by
    intro e he; rw [hst] at he
    rcases List.mem_cons.mp he with rfl | he
    · rfl
    · exact hrest e he
  have hnd : (chain.reverse ++ fin).Nodup := by
    have := nodup_flush (pre := chain) (rest := []) (fin := fin) (by simpa using inv.nodup)
    simpa using this
  have hcur : cur ∉ chain.reverse ++ fin := by
    intro hm
    have : (s.parents cur).isSome := (inv.visited cur).mpr (by
      rcases List.mem_append.mp hm with h | h
      · exact Or.inl (List.mem_reverse.mp h)
      · exact Or.inr h)
    rw [hfresh] at this; simp at this
  refine ⟨?_, ?_, ?_, flush_all inv hall, ?_, ?_, ?_, ?_, ?_, ?_⟩
  · simp [ChainOK, set_eq]
  · exact List.nodup_cons.mpr ⟨hcur, hnd⟩
  · intro x
    simp only [set_isSome, inv.visited x, List.mem_singleton, List.mem_append, List.mem_reverse]
  · exact grp_kids (.roots hrest)
  · intro pre a post heq v hv
    obtain ⟨rfl, rfl, rfl⟩ := singleton_split heq
    left; exact List.mem_append_left _ (mem_kidsOf.mpr ⟨v, hv, rfl⟩)
  · intro u hu
    rcases inv.roots u hu with h | h
    · left; exact (set_isSome _ _ _ _).mpr (Or.inr h)
    · rw [hst] at h
      rcases List.mem_cons.mp h with h | h
      · cases h; left; exact (set_isSome _ _ _ _).mpr (Or.inl rfl)
      · right; exact List.mem_append_right _ h
  · intro x hx; simp at hx; subst hx; exact inv.rootsNodes _ (by rw [hst]; simp)
  · intro p c hm
    rcases List.mem_append.mp hm with h | h
    · obtain ⟨o, ho, heq⟩ := mem_kidsOf.mp h; cases heq; exact ho
    · exact inv.entriesEdge p c (by rw [hst]; exact List.mem_cons_of_mem _ h)
  · intro u hm
    rcases List.mem_append.mp hm with h | h
    · obtain ⟨o, _, heq⟩ := mem_kidsOf.mp h; cases heq
    · exact inv.rootsNodes u (by rw [hst]; exact List.mem_cons_of_mem _ h)

theorem cinv_root_seen {g : Graph} {s : DState} {chain fin rest : List _} {cur : Node}
    (inv : CInv g s chain fin) (hst : s.stack = (none, cur) :: rest) (hseen : (s.parents cur).isSome) :
    CInv g ⟨rest, s.parents.set cur none⟩ [] (chain.reverse ++ fin) := by
  have hrest : ∀ e ∈ rest, e.1 = none := Grp.roots_of_front_none (hst ▸ inv.grp)
  have hall : ∀ e ∈ s.stack, e.1 = none := by
    intro e he; rw [hst] at he
    rcases List.mem_cons.mp he with rfl | he
    · rfl
    · exact hrest e he
  have hnd : (chain.reverse ++ fin).Nodup := by
    have := nodup_flush (pre := chain) (rest := []) (fin := fin) (by simpa using inv.nodup)
    simpa using this
  refine ⟨trivial, by simpa using hnd, ?_, flush_all inv hall, .roots hrest, ?_, ?_, ?_, ?_, ?_⟩
  · intro x
    simp only [set_isSome, List.not_mem_nil, false_or, List.mem_append, List.mem_reverse]
    constructor
    · rintro (rfl | h)
      · exact (inv.visited _).mp hseen
      · exact (inv.visited x).mp h
    · intro h; exact Or.inr ((inv.visited x).mpr h)
  · intro pre a post heq; simp at heq
  · intro u hu
    rcases inv.roots u hu with h | h
    · left; exact (set_isSome _ _ _ _).mpr (Or.inr h)
    · rw [hst] at h
      rcases List.mem_cons.mp h with h | h
      · cases h; left; exact (set_isSome _ _ _ _).mpr (Or.inl rfl)
      · right; exact h
  · intro x hx; simp at hx
  · intro p c hm; exact inv.entriesEdge p c (by rw [hst]; exact List.mem_cons_of_mem _ hm)
  · intro u hm; exact inv.rootsNodes u (by rw [hst]; exact List.mem_cons_of_mem _ hm)

/-- common preparation when a child entry `(some p, cur)` is at the front -/
theorem child_prep {g : Graph} {s : DState} {chain fin : List Node} {rest : List _} {p cur : Node}
    (inv : CInv g s chain fin) (hst : s.stack = (some p, cur) :: rest) :
    ∃ pre ch, chain = pre ++ p :: ch ∧ Grp (p :: ch) rest ∧
      TopoOK g (pre.reverse ++ fin) ∧
      (∀ pre' a post, p :: ch = pre' ++ a :: post → ∀ v ∈ g.succ a,
            (some a, v) ∈ s.stack ∨ v ∈ pre.reverse ++ fin ∨ v ∈ pre') ∧
      ((p :: ch) ++ (pre.reverse ++ fin)).Nodup := by
  obtain ⟨pre, ch, hchain, hg⟩ := Grp.split_front (hst ▸ inv.grp)
  have hnd : ((pre ++ p :: ch) ++ fin).Nodup := hchain ▸ inv.nodup
  have hnp : ∀ a ∈ pre, ∀ v, (some a, v) ∉ s.stack := by
    intro a ha v hm
    have hin : a ∈ p :: ch := by
      have hg' : Grp (p :: ch) s.stack := by rw [hst]; exact .same hg
      exact hg'.parent_mem hm
    have h1 : (pre ++ p :: ch).Nodup := (List.nodup_append.mp hnd).1
    exact (List.nodup_append.mp h1).2.2 a ha a hin rfl
  have hf := TopoOK_flush g s.stack pre (p :: ch) fin inv.topo
    (by intro pre' a post heq v hv; exact inv.edges pre' a post (by rw [hchain]; exact heq) v hv) hnp
  exact ⟨pre, ch, hchain, hg, hf.1, hf.2, nodup_flush hnd⟩

theorem cinv_child_fresh {g : Graph} {s : DState} {chain fin : List Node} {rest : List _} {p cur : Node}
    (hclosed : ∀ u v, v ∈ g.succ u → v ∈ g.nodes)
    (inv : CInv g s chain fin) (hst : s.stack = (some p, cur) :: rest) (hfresh : s.parents cur = none) :
    ∃ chain' fin', CInv g ⟨kidsOf g cur ++ rest, s.parents.set cur (some p)⟩ chain' fin' := by
  obtain ⟨pre, ch, hchain, hg, htopo, hedges, hnd⟩ := child_prep inv hst
  have hcur_unvisited : cur ∉ chain ∧ cur ∉ fin := by
    constructor <;> intro hm
    · have : (s.parents cur).isSome := (inv.visited cur).mpr (Or.inl hm); rw [hfresh] at this; simp at this
    · have : (s.parents cur).isSome := (inv.visited cur).mpr (Or.inr hm); rw [hfresh] at this; simp at this
  have hcur_pch : cur ∉ p :: ch := fun h => hcur_unvisited.1 (by rw [hchain]; exact List.mem_append_right _ h)
  have hcur_pre : cur ∉ pre := fun h => hcur_unvisited.1 (by rw [hchain]; exact List.mem_append_left _ h)
  have hedge : cur ∈ g.succ p := inv.entriesEdge p cur (by rw [hst]; simp)
  refine ⟨cur :: p :: ch, pre.reverse ++ fin, ?_, ?_, ?_, htopo, ?_, ?_, ?_, ?_, ?_, ?_⟩
  · refine ⟨set_eq _ _ _, ?_⟩
    apply ChainOK_congr (p := s.parents) (p :: ch)
    · intro x hx; exact (set_ne _ _ _ _ (fun h => hcur_pch (by rw [← h]; exact hx))).symm
    · exact ChainOK_suffix pre (p :: ch) (hchain ▸ inv.chainOK)
  · show (cur :: ((p :: ch) ++ (pre.reverse ++ fin))).Nodup
    refine List.nodup_cons.mpr ⟨?_, hnd⟩
    intro hm
    rcases List.mem_append.mp hm with h | h
    · exact hcur_pch h
    · rcases List.mem_append.mp h with h | h
      · exact hcur_pre (List.mem_reverse.mp h)
      · exact hcur_unvisited.2 h
  · intro x
    rw [set_isSome, inv.visited x, hchain]
    simp only [List.mem_cons, List.mem_append, List.mem_reverse]
    constructor
    · rintro (h | (h | h | h) | h) <;> simp [h]
    · rintro ((h | h | h) | h | h) <;> simp [h]
  · exact grp_kids hg
  · intro pre' a post heq v hv
    cases pre' with
    | nil =>
      simp at heq; obtain ⟨rfl, _⟩ := heq
      left; exact List.mem_append_left _ (mem_kidsOf.mpr ⟨v, hv, rfl⟩)
    | cons b pre'' =>
      simp at heq; obtain ⟨rfl, heq⟩ := heq
      rcases hedges pre'' a post heq v hv with h | h | h
      · rw [hst] at h
        rcases List.mem_cons.mp h with h | h
        · cases h; right; right; simp
        · left; exact List.mem_append_right _ h
      · right; left; exact h
      · right; right; exact List.mem_cons_of_mem _ h
  · intro u hu
    rcases inv.roots u hu with h | h
    · left; exact (set_isSome _ _ _ _).mpr (Or.inr h)
    · rw [hst] at h
      rcases List.mem_cons.mp h with h | h
      · cases h
      · right; exact List.mem_append_right _ h
  · intro x hx
    rcases List.mem_cons.mp hx with rfl | hx
    · exact hclosed _ _ hedge
    · exact inv.inNodes x (by rw [hchain]; exact List.mem_append_right _ hx)
  · intro q c hm
    rcases List.mem_append.mp hm with h | h
    · obtain ⟨o, ho, heq⟩ := mem_kidsOf.mp h; cases heq; exact ho
    · exact inv.entriesEdge q c (by rw [hst]; exact List.mem_cons_of_mem _ h)
  · intro u hm
    rcases List.mem_append.mp hm with h | h
    · obtain ⟨o, _, heq⟩ := mem_kidsOf.mp h; cases heq
    · exact inv.rootsNodes u (by rw [hst]; exact List.mem_cons_of_mem _ h)

theorem cinv_child_seen {g : Graph} {s : DState} {chain fin : List Node} {rest : List _} {p cur : Node}
    (inv : CInv g s chain fin) (hst : s.stack = (some p, cur) :: rest) (hseen : (s.parents cur).isSome)
    (hnot : ∀ pre ch, chain = pre ++ p :: ch → cur ∉ p :: ch) :
    ∃ chain' fin', CInv g ⟨rest, s.parents⟩ chain' fin' := by
  obtain ⟨pre, ch, hchain, hg, htopo, hedges, hnd⟩ := child_prep inv hst
  have hcur : cur ∈ pre.reverse ++ fin := by
    rcases (inv.visited cur).mp hseen with h | h
    · rw [hchain] at h
      rcases List.mem_append.mp h with h | h
      · exact List.mem_append_left _ (List.mem_reverse.mpr h)
      · exact absurd h (hnot pre ch hchain)
    · exact List.mem_append_right _ h
  refine ⟨p :: ch, pre.reverse ++ fin, ?_, hnd, ?_, htopo, hg, ?_, ?_, ?_, ?_, ?_⟩
  · exact ChainOK_suffix pre (p :: ch) (hchain ▸ inv.chainOK)
  · intro x
    rw [inv.visited x, hchain]
    simp only [List.mem_cons, List.mem_append, List.mem_reverse]
    constructor
    · rintro ((h | h | h) | h) <;> simp [h]
    · rintro ((h | h) | h | h) <;> simp [h]
  · intro pre' a post heq v hv
    rcases hedges pre' a post heq v hv with h | h | h
    · rw [hst] at h
      rcases List.mem_cons.mp h with h | h
      · cases h; right; left; exact hcur
      · left; exact h
    · right; left; exact h
    · right; right; exact h
  · intro u hu
    rcases inv.roots u hu with h | h
    · left; exact h
    · rw [hst] at h
      rcases List.mem_cons.mp h with h | h
      · cases h
      · right; exact h
  · intro x hx; exact inv.inNodes x (by rw [hchain]; exact List.mem_append_right _ hx)
  · intro q c hm; exact inv.entriesEdge q c (by rw [hst]; exact List.mem_cons_of_mem _ hm)
  · intro u hm; exact inv.rootsNodes u (by rw [hst]; exact List.mem_cons_of_mem _ hm)

theorem step_cont_cinv (g : Graph) (n : Nat) (s s' : DState) (chain fin : List Node)
    (hclosed : ∀ u v, v ∈ g.succ u → v ∈ g.nodes) (hn : g.nodes.length ≤ n)
    (inv : CInv g s chain fin) (h : step g n s = .cont s') :
    ∃ chain' fin', CInv g s' chain' fin' := by
  unfold step at h
  split at h
  · cases h
  · rename_i mp cur rest hst
    cases mp with
    | none =>
      simp only at h
      cases h
      cases hf : s.parents cur with
      | none =>
        simp only [hf, Option.isNone_none, ↓reduceIte]
        exact ⟨_, _, cinv_root_fresh inv hst hf⟩
      | some v =>
        simp only [Option.isNone_some, Bool.false_eq_true, ↓reduceIte]
        exact ⟨_, _, cinv_root_seen inv hst (by simp [hf])⟩
    | some parent =>
      simp only at h
      cases hf : s.parents cur with
      | none =>
        simp only [hf, Option.isNone_none, Bool.not_true, Bool.false_eq_true, ↓reduceIte] at h
        cases h
        exact cinv_child_fresh hclosed inv hst hf
      | some v =>
        simp only [hf, Option.isNone_some, Bool.not_false, ↓reduceIte, Bool.false_eq_true] at h
        have hseen : (s.parents cur).isSome := by simp [hf]
        have hnot : ∀ pre ch, chain = pre ++ parent :: ch → cur ∉ parent :: ch := by
          intro pre ch hchain hmem
          have hc : ChainOK s.parents (parent :: ch) := ChainOK_suffix pre _ (hchain ▸ inv.chainOK)
          have hlen : ch.length ≤ n := by
            have h1 : chain.length ≤ g.nodes.length :=
              nodup_subset_length chain g.nodes (List.nodup_append.mp inv.nodup).1 inv.inNodes
            have h2 : ch.length ≤ chain.length := by rw [hchain]; simp; omega
            omega
          have hw := walk_finds (p := s.parents) (cur := cur) ch parent n [parent] hc hmem hlen rfl
          generalize walk s.parents cur n parent [parent] = path at h hw
          cases path with
          | nil => simp at hw
          | cons hd tl =>
            simp at hw; subst hw
            simp at h
        split at h
        · split at h
          · cases h
          · cases h; exact cinv_child_seen inv hst hseen hnot
        · cases h; exact cinv_child_seen inv hst hseen hnot

theorem run_complete (g : Graph) (n : Nat)
    (hclosed : ∀ u v, v ∈ g.succ u → v ∈ g.nodes) (hn : g.nodes.length ≤ n) :
    ∀ (fuel : Nat) (s : DState) (chain fin : List Node), CInv g s chain fin →
      run g n fuel s = some none →
      ∃ order, TopoOK g order ∧ order.Nodup ∧ ∀ u ∈ g.nodes, u ∈ order := by
  intro fuel
  induction fuel with
  | zero => intro s _ _ _ h; simp [run] at h
  | succ f ih =>
    intro s chain fin inv h
    unfold run at h
    split at h
    · rename_i hs; exact step_done_topo g n s chain fin inv hs
    · simp at h
    · rename_i s' hs
      obtain ⟨chain', fin', inv'⟩ := step_cont_cinv g n s s' chain fin hclosed hn inv hs
      exact ih s' chain' fin' inv' h

theorem findCycle_complete (g : Graph) (hclosed : ∀ u v, v ∈ g.succ u → v ∈ g.nodes)
    (h : findCycle g = some none) :
    ∃ order, TopoOK g order ∧ order.Nodup ∧ ∀ u ∈ g.nodes, u ∈ order := by
  unfold findCycle at h
  refine run_complete g _ hclosed (by omega) _ _ [] [] ?_ h
  refine ⟨trivial, by simp, ?_, trivial, .roots (by simp), ?_, ?_, ?_, ?_, ?_⟩
  · intro x; simp
  · intro pre a post heq; simp at heq
  · intro u hu; right; simp; exact hu
  · intro x hx; simp at hx
  · intro p c hm; simp at hm
  · intro u hm; simp at hm; exact hm

#print axioms findCycle_complete
