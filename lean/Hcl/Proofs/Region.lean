import Hcl.Proofs.LineTable
import Hcl.Proofs.Utf8
import Hcl.Spec.Locate

/-! `show_region` for a span inside one line of the user's text renders what `Spec.region` says. -/

namespace Io

/-! ### the bytes after the last line feed -/

theorem trail_drop (A : Bytes) : 10 ∉ A.drop (A.length - trail A) := by
  induction A using snoc_induction with
  | hnil => simp
  | hsnoc A b ih =>
    rw [trail_concat]
    by_cases hb : b = 10
    · simp [hb]
    · simp only [hb, if_false, List.length_append, List.length_cons, List.length_nil]
      have hle := trail_le A
      have : A.length + (0 + 1) - (trail A + 1) = A.length - trail A := by omega
      rw [this, List.drop_append_of_le_length (by omega)]
      intro hmem
      rcases List.mem_append.mp hmem with h | h
      · exact ih h
      · simp at h; exact hb h.symm

theorem trail_prev (A : Bytes) (h : 0 < A.length - trail A) : A[A.length - trail A - 1]? = some 10 := by
  induction A using snoc_induction with
  | hnil => simp at h
  | hsnoc A b ih =>
    rw [trail_concat] at h ⊢
    by_cases hb : b = 10
    · subst hb; simp
    · simp only [hb, if_false, List.length_append, List.length_cons, List.length_nil] at h ⊢
      have hle := trail_le A
      have e : A.length + (0 + 1) - (trail A + 1) = A.length - trail A := by omega
      rw [e] at h ⊢
      rw [List.getElem?_append_left (by omega)]
      exact ih h

theorem trail_append (A C : Bytes) (h : 10 ∉ C) : trail (A ++ C) = trail A + C.length := by
  induction C using snoc_induction with
  | hnil => simp
  | hsnoc C c ih =>
    have hc : ¬ c = 10 := by
      intro e; apply h; simp [e]
    have hC : 10 ∉ C := by
      intro e; apply h; simp [e]
    rw [← List.append_assoc, trail_concat, ih hC]
    simp [hc]; omega

/-! ### one line out of a text -/

theorem takeWhile_of_not_mem (F : Bytes) (h : 10 ∉ F) : F.takeWhile (· ≠ 10) = F := by
  induction F with
  | nil => rfl
  | cons b F ih =>
    simp only [List.mem_cons, not_or] at h
    have hb : decide (b ≠ 10) = true := by
      have : b ≠ 10 := fun e => h.1 e.symm
      simpa using this
    rw [List.takeWhile_cons]
    simp only [hb, if_true]
    rw [ih h.2]

theorem take_idxOf_succ (F : Bytes) (h : 10 ∈ F) :
    F.take (F.idxOf 10 + 1) = F.takeWhile (· ≠ 10) ++ [10] ∧ (F.takeWhile (· ≠ 10)).length = F.idxOf 10 ∧ F.idxOf 10 < F.length := by
  induction F with
  | nil => simp at h
  | cons b F ih =>
    by_cases hb : b = 10
    · subst hb; simp [List.takeWhile_cons]
    · have hbd : decide (b ≠ 10) = true := by simpa using hb
      have h' : 10 ∈ F := by
        rcases List.mem_cons.mp h with e | e
        · exact absurd e.symm hb
        · exact e
      obtain ⟨i1, i2, i3⟩ := ih h'
      have hidx : List.idxOf 10 (b :: F) = List.idxOf 10 F + 1 := by
        rw [List.idxOf_cons]
        have : (b == 10) = false := by simpa using hb
        simp [this]
      rw [hidx]
      refine ⟨?_, ?_, ?_⟩
      · rw [List.takeWhile_cons]; simp only [hbd, if_true, List.take_succ_cons, i1, List.cons_append]
      · rw [List.takeWhile_cons]; simp only [hbd, if_true, List.length_cons, i2]
      · simp only [List.length_cons]; omega

theorem takeWhile_no_lf (F : Bytes) : 10 ∉ F.takeWhile (· ≠ 10) := by
  induction F with
  | nil => simp
  | cons b F ih =>
    rw [List.takeWhile_cons]
    by_cases hb : b = 10
    · simp [hb]
    · have hbd : decide (b ≠ 10) = true := by simpa using hb
      simp only [hbd, if_true, List.mem_cons, not_or]
      exact ⟨fun e => hb e.symm, ih⟩

theorem splitInclusive_skip (C rest cur : Bytes) (h : 10 ∉ C) :
    splitInclusive (C ++ rest) cur = splitInclusive rest (C.reverse ++ cur) := by
  induction C generalizing cur with
  | nil => simp
  | cons b C ih =>
    simp only [List.mem_cons, not_or] at h
    have hb : ¬ b = 10 := fun e => h.1 e.symm
    simp only [List.cons_append, splitInclusive, hb, if_false]
    rw [ih _ h.2]
    simp

theorem lines_terminated (body : Bytes) (h : 10 ∉ body) :
    lines (body ++ [10]) = [if body.getLast? = some 13 then body.dropLast else body] := by
  unfold lines
  rw [splitInclusive_skip _ _ _ h]
  simp only [splitInclusive, if_true, List.append_nil, List.reverse_cons, List.reverse_reverse, List.map_cons, List.map_nil]
  unfold stripLine stripSuffixByte
  simp only [List.getLast?_append, List.getLast?_singleton, Option.some_or, if_true, List.dropLast_concat]
  by_cases h13 : body.getLast? = some 13 <;> simp [h13]

theorem lines_unterminated (body : Bytes) (h : 10 ∉ body) (hne : body ≠ []) : lines body = [body] := by
  unfold lines
  have := splitInclusive_skip body [] [] h
  simp only [List.append_nil] at this
  rw [this]
  cases hr : body.reverse with
  | nil => simp at hr; exact absurd hr hne
  | cons x xs =>
    simp only [splitInclusive, List.map_cons, List.map_nil]
    have hb : (x :: xs).reverse = body := by rw [← hr]; simp
    rw [hb]
    unfold stripLine stripSuffixByte
    have : ¬ body.getLast? = some 10 := by
      intro e
      exact h (List.mem_of_getLast? e)
    simp [this]

end Io

namespace Io

theorem take_no_lf (D : Bytes) (n : Nat) (h : n ≤ (D.takeWhile (· ≠ 10)).length) : 10 ∉ D.take n := by
  induction D generalizing n with
  | nil => simp
  | cons b D ih =>
    cases n with
    | zero => simp
    | succ n =>
      rw [List.takeWhile_cons] at h
      by_cases hb : b = 10
      · simp [hb] at h
      · have hbd : decide (b ≠ 10) = true := by simpa using hb
        simp only [hbd, if_true, List.length_cons] at h
        simp only [List.take_succ_cons, List.mem_cons, not_or]
        exact ⟨fun e => hb e.symm, ih n (by omega)⟩

theorem takeWhile_append_all (T D : Bytes) (h : 10 ∉ T) :
    (T ++ D).takeWhile (· ≠ 10) = T ++ D.takeWhile (· ≠ 10) := by
  induction T with
  | nil => rfl
  | cons b T ih =>
    simp only [List.mem_cons, not_or] at h
    have hbd : decide (b ≠ 10) = true := by
      have : b ≠ 10 := fun e => h.1 e.symm
      simpa using this
    rw [List.cons_append, List.takeWhile_cons]
    simp only [hbd, if_true]
    rw [ih h.2]; rfl

theorem filename_user (P U name : Bytes) (t : Nat) (ht : P.length ≤ t) :
    filename (newFromData P U name) t = .ok name := by
  have hgt : ¬ (P.length > t) := by omega
  by_cases heq : P.length = t
  · simp [filename, newFromData, lookupIndex, binarySearch, bsLoop, heq, bind, Except.bind, pure, Except.pure]
  · have hlt : P.length < t := by omega
    simp [filename, newFromData, lookupIndex, binarySearch, bsLoop, heq, hlt, hgt, Rust.uSub, bind, Except.bind, pure, Except.pure]

/-- the rendering of one located line -/
def render (name : Bytes) (lineNo : Nat) (text : Bytes) (col len : Nat) : Bytes :=
  Yo.str "     -> " ++ name ++ Yo.str ":" ++ Spec.dec lineNo ++ [10] ++
  Yo.str "     |" ++ [10] ++
  Spec.rightAlign4 (Spec.dec lineNo) ++ Yo.str " | " ++ text ++ [10] ++
  Yo.str "     | " ++ List.replicate col 32 ++ List.replicate len 94 ++ [10]

theorem region_eq_render (name U : Bytes) (s e : Nat) (r : Bytes) (h : Spec.region name U s e = some r) :
    s ≤ e ∧ e ≤ U.length ∧ Spec.column U s + (e - s) ≤ (Spec.lineText U s).length ∧ Spec.lineText U s ≠ [] ∧
      r = render name (Spec.lineNo U s) (Spec.lineText U s) (Spec.column U s) (e - s) := by
  unfold Spec.region at h
  simp only at h
  split at h
  · rename_i hc
    obtain ⟨h1, h2, h3, h4⟩ := hc
    refine ⟨h1, h2, h3, h4, ?_⟩
    simp only [Option.some.injEq] at h
    rw [← h]; rfl
  · simp at h

end Io

namespace Io

theorem str_colon : Yo.str ":" = [58] := by decide
theorem str_bar_nl : Yo.str "     |\n" = Yo.str "     |" ++ [10] := by decide

theorem idxOf_getElem? (D : Bytes) (h : 10 ∈ D) : D[D.idxOf 10]? = some 10 := by
  induction D with
  | nil => simp at h
  | cons b D ih =>
    by_cases hb : b = 10
    · subst hb; simp
    · have h' : 10 ∈ D := by
        rcases List.mem_cons.mp h with e | e
        · exact absurd e.symm hb
        · exact e
      have : (b == 10) = false := by simpa using hb
      rw [List.idxOf_cons]; simp [this, ih h']

/-- **`show_region` for a span inside one line of the user's file** -/
theorem showRegion_line (P U name : Bytes) (s e : Nat)
    (hP : P = [] ∨ P.getLast? = some 10) (hvalid : Yo.validUtf8 (P ++ U) = true)
    (hse : s ≤ e) (he : e ≤ U.length)
    (hfit : Spec.column U s + (e - s) ≤ (Spec.lineText U s).length) (hne : Spec.lineText U s ≠ []) :
    showRegion (newFromData P U name) (P.length + s) (P.length + e) =
      .ok (render name (Spec.lineNo U s) (Spec.lineText U s) (Spec.column U s) (e - s)) := by
  have hs : s ≤ U.length := by omega
  have hAlen : (U.take s).length = s := by simp [List.length_take]; omega
  -- the column and the start of the line
  have hcolle : trail (U.take s) ≤ s := by have := trail_le (U.take s); omega
  obtain ⟨col, hcol⟩ : ∃ c, c = trail (U.take s) := ⟨_, rfl⟩
  have hcolS : Spec.column U s = col := by rw [hcol]; rfl
  obtain ⟨ls, hls⟩ : ∃ l, l = s - col := ⟨_, rfl⟩
  have hT : 10 ∉ (U.take s).drop ls := by
    have := trail_drop (U.take s); rw [hAlen, ← hcol, ← hls] at this; exact this
  have hTlen : ((U.take s).drop ls).length = col := by simp [hAlen]; omega
  have hF : U.drop ls = (U.take s).drop ls ++ U.drop s := by
    conv => lhs; rw [← List.take_append_drop s U]
    rw [List.drop_append_of_le_length (by omega)]
  -- the body of the line
  have hbody : (U.drop ls).takeWhile (· ≠ 10) = (U.take s).drop ls ++ (U.drop s).takeWhile (· ≠ 10) := by
    rw [hF, takeWhile_append_all _ _ hT]
  have htextle : (Spec.lineText U s).length ≤ ((U.drop ls).takeWhile (· ≠ 10)).length := by
    unfold Spec.lineText
    simp only [hcolS, ← hls]
    split
    · simp
    · exact Nat.le_refl _
  have hspan : e - s ≤ ((U.drop s).takeWhile (· ≠ 10)).length := by
    rw [hbody, List.length_append, hTlen] at htextle; omega
  have hC : 10 ∉ (U.drop s).take (e - s) := take_no_lf _ _ hspan
  have hClen : ((U.drop s).take (e - s)).length = e - s := by simp [List.length_take]; omega
  have htakee : U.take e = U.take s ++ (U.drop s).take (e - s) := by
    have : e = s + (e - s) := by omega
    conv => lhs; rw [this]
    exact List.take_add
  have hcounte : (U.take e).count 10 = (U.take s).count 10 := by
    rw [htakee, List.count_append, List.count_eq_zero.mpr hC]; rfl
  have htraile : trail (U.take e) = col + (e - s) := by
    rw [htakee, trail_append _ _ hC, hClen, hcol]
  have hdrope : U.drop s = (U.drop s).take (e - s) ++ U.drop e := by
    conv => lhs; rw [← List.take_append_drop (e - s) (U.drop s)]
    rw [List.drop_drop]
    have : s + (e - s) = e := by omega
    rw [this]
  have hmemiff : 10 ∈ U.drop e ↔ 10 ∈ U.drop s := by
    constructor
    · intro h; rw [hdrope]; exact List.mem_append_right _ h
    · intro h; rw [hdrope] at h
      rcases List.mem_append.mp h with h | h
      · exact absurd h hC
      · exact h
  have hnexte : nextStart P U e = nextStart P U s := by
    unfold nextStart
    by_cases hm : 10 ∈ U.drop s
    · have hm' := hmemiff.mpr hm
      simp only [hm, hm', if_true]
      have : (U.drop s).idxOf 10 = (U.drop e).idxOf 10 + (e - s) := by
        conv => lhs; rw [hdrope]
        rw [List.idxOf_append, hClen]
        simp [hC]
      rw [this]; omega
    · have hm' : ¬ 10 ∈ U.drop e := fun h => hm (hmemiff.mp h)
      simp only [hm, hm', if_false]
  -- the two table lookups
  have hlnbs := lineNumberAndBounds_user P U name s hs
  have hlnbe := lineNumberAndBounds_user P U name e he
  rw [hcounte, htraile, hnexte] at hlnbe
  rw [← hcol, ← hls] at hlnbs
  have hels : e - (col + (e - s)) = ls := by omega
  rw [hels] at hlnbe
  -- the segment
  have hdatalen : (newFromData P U name).data.length = P.length + U.length := by simp [newFromData]
  have hdata : (newFromData P U name).data = P ++ U := rfl
  have hnextle : nextStart P U s ≤ P.length + U.length ∧ P.length + ls ≤ nextStart P U s := by
    unfold nextStart
    by_cases hm : 10 ∈ U.drop s
    · have := (take_idxOf_succ _ hm).2.2
      simp only [List.length_drop] at this
      simp only [hm, if_true]; omega
    · simp only [hm, if_false]; omega
  have hbbegin : Yo.isBoundary (P ++ U) (P.length + ls) = true := by
    apply Yo.validUtf8_boundary _ hvalid _ (by simp; omega)
    by_cases hz : ls = 0
    · rcases hP with hP | hP
      · left; simp [hP, hz]
      · right
        refine ⟨10, ?_, by omega⟩
        have hPpos : 0 < P.length := by
          cases P with
          | nil => simp at hP
          | cons _ _ => simp
        rw [hz, Nat.add_zero, List.getElem?_append_left (by omega), ← List.getLast?_eq_getElem?]
        exact hP
    · right
      refine ⟨10, ?_, by omega⟩
      have hprev := trail_prev (U.take s) (by rw [hAlen, ← hcol]; omega)
      rw [hAlen, ← hcol, ← hls] at hprev
      have h1 : P.length + ls - 1 = P.length + (ls - 1) := by omega
      rw [h1, List.getElem?_append_right (by omega)]
      have h2 : P.length + (ls - 1) - P.length = ls - 1 := by omega
      rw [h2]
      rw [List.getElem?_take_of_lt (by omega)] at hprev
      exact hprev
  have hbnext : Yo.isBoundary (P ++ U) (nextStart P U s) = true := by
    by_cases hm : 10 ∈ U.drop s
    · apply Yo.validUtf8_boundary _ hvalid _ (by simp; exact hnextle.1)
      right
      refine ⟨10, ?_, by omega⟩
      unfold nextStart
      simp only [hm, if_true]
      have h1 : P.length + s + (U.drop s).idxOf 10 + 1 - 1 = P.length + (s + (U.drop s).idxOf 10) := by omega
      rw [h1, List.getElem?_append_right (by omega)]
      have h2 : P.length + (s + (U.drop s).idxOf 10) - P.length = s + (U.drop s).idxOf 10 := by omega
      rw [h2, ← List.getElem?_drop]
      exact idxOf_getElem? _ hm
    · unfold nextStart
      simp only [hm, if_false]
      have : P.length + U.length = (P ++ U).length := by simp
      rw [this]; exact Yo.isBoundary_length _
  have hseg : Yo.index (P ++ U) (P.length + ls) (nextStart P U s) =
      .ok ((U.drop ls).take (nextStart P U s - (P.length + ls))) := by
    unfold Yo.index Yo.get
    have h1 : (P.length + ls ≤ nextStart P U s) := hnextle.2
    have h2 : nextStart P U s ≤ (P ++ U).length := by simp; exact hnextle.1
    have hdropPU : (P ++ U).drop (P.length + ls) = U.drop ls := by
      rw [List.drop_append, List.drop_eq_nil_of_le (by omega)]
      simp
    simp only [h1, h2, hbbegin, hbnext, decide_true, Bool.and_self, if_true, hdropPU]
    rfl
  -- the lines of the segment
  have hlines : lines ((U.drop ls).take (nextStart P U s - (P.length + ls))) = [Spec.lineText U s] := by
    by_cases hm : 10 ∈ U.drop s
    · have hmF : 10 ∈ U.drop ls := by rw [hF]; exact List.mem_append_right _ hm
      obtain ⟨g1, g2, g3⟩ := take_idxOf_succ _ hmF
      have hidx : (U.drop ls).idxOf 10 = col + (U.drop s).idxOf 10 := by
        conv => lhs; rw [hF]
        rw [List.idxOf_append, hTlen]; simp [hT]; omega
      have hn : nextStart P U s - (P.length + ls) = (U.drop ls).idxOf 10 + 1 := by
        unfold nextStart; simp only [hm, if_true]; rw [hidx]; omega
      rw [hn, g1, lines_terminated _ (takeWhile_no_lf _)]
      unfold Spec.lineText
      simp only [hcolS, ← hls]
      have : ((U.drop ls).takeWhile (· ≠ 10)).length < (U.drop ls).length := by rw [g2]; exact g3
      simp only [this, true_and]
    · have hmF : 10 ∉ U.drop ls := by
        rw [hF]; intro h
        rcases List.mem_append.mp h with h | h
        · exact hT h
        · exact hm h
      have hn : nextStart P U s - (P.length + ls) = (U.drop ls).length := by
        unfold nextStart; simp only [hm, if_false, List.length_drop]; omega
      have htw := takeWhile_of_not_mem _ hmF
      have htext : Spec.lineText U s = U.drop ls := by
        unfold Spec.lineText
        simp only [hcolS, ← hls, htw, Nat.lt_irrefl, false_and, if_false]
      rw [hn, List.take_length, htext]
      exact lines_unterminated _ hmF (by rw [← htext]; exact hne)
  -- put it together
  unfold showRegion
  have hPU : (P ++ U).length = P.length + U.length := by simp
  have hmin1 : min (P.length + e) (P ++ U).length = P.length + e := by rw [hPU]; omega
  have hmin2 : min (P.length + s) (P.length + e) = P.length + s := by omega
  have hmin3 : min (nextStart P U s) (P ++ U).length = nextStart P U s := by
    rw [hPU]; have := hnextle.1; omega
  simp only [hdata, hmin1, hmin2, bind, Except.bind, pure, Except.pure, Rust.uSub]
  rw [filename_user P U name (P.length + s) (by omega), hlnbs, hlnbe]
  simp only [hmin3, hseg]
  have hle1 : P.length + ls ≤ P.length + s := by omega
  have hle2 : P.length + ls ≤ P.length + e := by omega
  simp only [hle1, hle2, if_true, hlines, regionRows]
  have e1 : P.length + s - (P.length + ls) = col := by omega
  have e2 : P.length + e - (P.length + ls) = col + (e - s) := by omega
  have e3 : col + (e - s) - col = e - s := by omega
  simp only [e1, e2, e3, if_true, render, hcolS, Spec.lineNo, str_colon, str_bar_nl, pad4, Spec.rightAlign4, Spec.dec, decBytes,
    List.append_assoc, List.append_nil]

end Io
