import Hcl.Model.CliArgv
import Hcl.Theorems.C19

/-!
# C19 at the level of the argument vector

`Cli.mainArgv w args` is `main_real` on the argument vector `args` (without the program name) in the outside world `w`;
the theorems below hold for EVERY list of (Unicode) strings and every world.
-/

open Cli Getopts

namespace C19Argv

/-! ## vocabulary of the statements -/

/-- the argument looks like an option to getopts: it begins with `-` and is longer than that (`--` included) -/
def isOption (a : String) : Bool := isArg a.toList

/-- the arguments getopts looks at as possible options: those before the first `--` -/
def beforeTerminator (args : List String) : List String := args.takeWhile (fun a => a != "--")

/-- the arguments after the first `--` (all free) -/
def afterTerminator (args : List String) : List String := (args.dropWhile (fun a => a != "--")).drop 1

/-- the flags an argument sets (canonical names; a cluster `-qd` sets several) -/
def flagsOf (a : String) : List Name :=
  match classify a with
  | .flags ns => ns
  | _ => []

/-- the error an argument provokes by itself: an unknown option, or a flag given a value -/
def badOf (a : String) : Option OptErr :=
  match classify a with
  | .bad e => some e
  | _ => none

def isBad (a : String) : Bool := (badOf a).isSome

/-! ## `classify` -/

theorem classifyLong_cases (os : List Opt) (t : List Char) :
    (∃ e, classifyLong os t = .bad e) ∨
    (∃ n, findOpt os (Name.ofChars (splitEq t).1) = some n ∧ classifyLong os t = .flags [n]) := by
  unfold classifyLong
  cases hf : findOpt os (Name.ofChars (splitEq t).1) with
  | none => exact Or.inl ⟨.unrecognized (Name.ofChars (splitEq t).1).toString, by simp only [hf]⟩
  | some n =>
    by_cases hv : (splitEq t).2.isSome = true
    · exact Or.inl ⟨.unexpectedArgument (Name.ofChars (splitEq t).1).toString, by simp only [hf, hv, if_true]⟩
    · exact Or.inr ⟨n, rfl, by simp only [hf, hv]; rfl⟩

theorem classifyLong_ne_free (os : List Opt) (t : List Char) : classifyLong os t ≠ .free := by
  intro h
  rcases classifyLong_cases os t with ⟨e, he⟩ | ⟨n, _, hn⟩
  · rw [he] at h; cases h
  · rw [hn] at h; cases h

theorem classifyLong_ne_terminator (os : List Opt) (t : List Char) : classifyLong os t ≠ .terminator := by
  intro h
  rcases classifyLong_cases os t with ⟨e, he⟩ | ⟨n, _, hn⟩
  · rw [he] at h; cases h
  · rw [hn] at h; cases h

theorem classify_terminator_iff (a : String) : classify a = .terminator ↔ a = "--" := by
  constructor
  · intro h
    unfold classify classifyChars at h
    split at h
    · cases h
    · split at h
      · rename_i h2
        apply String.toList_inj.mp
        rw [h2]; decide
      · split at h
        · exact absurd h (classifyLong_ne_terminator _ _)
        · split at h <;> cases h
  · intro h; subst h; decide

theorem classify_free_iff (a : String) : classify a = .free ↔ isOption a = false := by
  unfold isOption
  constructor
  · intro h
    unfold classify classifyChars at h
    split at h
    · rename_i h1
      simpa using h1
    · split at h
      · cases h
      · split at h
        · exact absurd h (classifyLong_ne_free _ _)
        · split at h <;> cases h
  · intro h
    unfold classify classifyChars
    simp [h]

theorem isOption_of_flagsOf {a : String} {n : Name} (h : n ∈ flagsOf a) : isOption a = true := by
  cases hi : isOption a
  · have := (classify_free_iff a).mpr hi
    simp [flagsOf, this] at h
  · rfl

theorem isOption_of_isBad {a : String} (h : isBad a = true) : isOption a = true := by
  cases hi : isOption a
  · have := (classify_free_iff a).mpr hi
    simp [isBad, badOf, this] at h
  · rfl

theorem flagsOf_of_not_isOption {a : String} (h : isOption a = false) : flagsOf a = [] := by
  simp [flagsOf, (classify_free_iff a).mpr h]

/-- every option recorded is an option of the table -/
theorem findOpt_mem {os : List Opt} {nm n : Name} (h : findOpt os nm = some n) : n ∈ os.map (·.name) := by
  unfold findOpt at h
  split at h
  · rename_i h1
    cases h
    rw [List.any_eq_true] at h1
    obtain ⟨o, ho, he⟩ := h1
    have : o.name = nm := by simpa using he
    rw [← this]
    exact List.mem_map.mpr ⟨o, ho, rfl⟩
  · cases hf : os.find? (fun o => o.alias == some nm) with
    | none => simp [hf] at h
    | some c =>
      simp [hf] at h
      rw [← h]
      exact List.mem_map.mpr ⟨c, List.mem_of_find?_eq_some hf, rfl⟩

theorem cluster_mem {os : List Opt} : ∀ {cs : List Char} {ns : List Name}, cluster os cs = .ok ns → ∀ n ∈ ns, n ∈ os.map (·.name)
  | [], ns, h => by
    unfold cluster at h
    cases h
    intro n hn; cases hn
  | ch :: rest, ns, h => by
    unfold cluster at h
    cases hf : findOpt os (.short ch) with
    | none => simp [hf] at h
    | some n0 =>
      simp only [hf] at h
      cases hc : cluster os rest with
      | error e => simp [hc] at h
      | ok ns0 =>
        simp only [hc] at h
        cases h
        intro n hn
        rcases List.mem_cons.mp hn with rfl | hn
        · exact findOpt_mem hf
        · exact cluster_mem hc n hn

theorem flagsOf_mem {a : String} {n : Name} (h : n ∈ flagsOf a) : n ∈ opts.map (·.name) := by
  unfold flagsOf at h
  cases hc : classify a with
  | free => simp [hc] at h
  | terminator => simp [hc] at h
  | bad e => simp [hc] at h
  | flags ns =>
    simp only [hc] at h
    unfold classify classifyChars at hc
    split at hc
    · cases hc
    · split at hc
      · cases hc
      · split at hc
        · rcases classifyLong_cases opts (a.toList.drop 2) with ⟨e, he⟩ | ⟨n0, hf, hn⟩
          · rw [he] at hc; cases hc
          · rw [hn] at hc
            cases hc
            have : n = n0 := by simpa using h
            subst this
            exact findOpt_mem hf
        · split at hc
          · rename_i ns0 hcl
            cases hc
            exact cluster_mem hcl n h
          · cases hc

/-! ## the main loop in closed form -/

/-- the error of the first argument (before `--`) that is wrong by itself -/
def firstBad (l : List String) : Option OptErr := l.findSome? badOf

theorem scan_eq (args : List String) :
    scan args =
      match firstBad (beforeTerminator args) with
      | some e => .error e
      | none => .ok ((beforeTerminator args).flatMap flagsOf,
                     (beforeTerminator args).filter (fun a => !isOption a) ++ afterTerminator args) := by
  induction args with
  | nil => simp [scan, firstBad, beforeTerminator, afterTerminator]
  | cons a rest ih =>
    unfold scan
    cases hc : classify a with
    | terminator =>
      have ha : a = "--" := (classify_terminator_iff a).mp hc
      subst ha
      simp [firstBad, beforeTerminator, afterTerminator]
    | bad e =>
      have ha : a ≠ "--" := fun h => by
        rw [(classify_terminator_iff a).mpr h] at hc; cases hc
      have hb : (a != "--") = true := by simpa using ha
      simp only [beforeTerminator, List.takeWhile_cons, hb, if_true, firstBad, List.findSome?_cons, badOf, hc]
    | free =>
      have ha : a ≠ "--" := fun h => by
        rw [(classify_terminator_iff a).mpr h] at hc; cases hc
      have hb : (a != "--") = true := by simpa using ha
      have hio : isOption a = false := (classify_free_iff a).mp hc
      have hbt : beforeTerminator (a :: rest) = a :: beforeTerminator rest := by
        simp only [beforeTerminator, List.takeWhile_cons, hb, if_true]
      have hat : afterTerminator (a :: rest) = afterTerminator rest := by
        simp only [afterTerminator, List.dropWhile_cons, hb, if_true]
      have hfb : firstBad (a :: beforeTerminator rest) = firstBad (beforeTerminator rest) := by
        simp only [firstBad, List.findSome?_cons, badOf, hc]
      rw [hbt, hat, hfb, ih]
      cases firstBad (beforeTerminator rest) with
      | some e => rfl
      | none =>
        simp only [List.flatMap_cons, flagsOf_of_not_isOption hio, List.nil_append, List.filter_cons, hio,
          Bool.not_false, if_true, List.cons_append]
    | flags ns =>
      have ha : a ≠ "--" := fun h => by
        rw [(classify_terminator_iff a).mpr h] at hc; cases hc
      have hb : (a != "--") = true := by simpa using ha
      have hio : isOption a = true := by
        cases hi : isOption a
        · rw [(classify_free_iff a).mpr hi] at hc; cases hc
        · rfl
      have hbt : beforeTerminator (a :: rest) = a :: beforeTerminator rest := by
        simp only [beforeTerminator, List.takeWhile_cons, hb, if_true]
      have hat : afterTerminator (a :: rest) = afterTerminator rest := by
        simp only [afterTerminator, List.dropWhile_cons, hb, if_true]
      have hfb : firstBad (a :: beforeTerminator rest) = firstBad (beforeTerminator rest) := by
        simp only [firstBad, List.findSome?_cons, badOf, hc]
      have hfl : flagsOf a = ns := by simp only [flagsOf, hc]
      rw [hbt, hat, hfb, ih]
      cases firstBad (beforeTerminator rest) with
      | some e => rfl
      | none =>
        simp only [List.flatMap_cons, hfl, List.filter_cons, hio, Bool.not_true]
        rfl

/-- `Getopts.parse` in closed form -/
theorem parse_eq (args : List String) :
    parse args =
      match firstBad (beforeTerminator args) with
      | some e => .error e
      | none =>
        match firstDup opts ((beforeTerminator args).flatMap flagsOf) with
        | some n => .error (.duplicated n.toString)
        | none => .ok { given := (opts.map (·.name)).filter (fun n => decide (n ∈ (beforeTerminator args).flatMap flagsOf)),
                        free := (beforeTerminator args).filter (fun a => !isOption a) ++ afterTerminator args } := by
  unfold parse
  rw [scan_eq]
  cases firstBad (beforeTerminator args) <;> rfl

/-! ## when the options do not parse -/

theorem firstDup_eq_none_iff (occ : List Name) (hocc : ∀ n ∈ occ, n ∈ opts.map (·.name)) :
    firstDup opts occ = none ↔ ∀ n, occ.count n ≤ 1 := by
  unfold firstDup
  rw [List.find?_eq_none]
  constructor
  · intro h n
    by_cases hn : n ∈ occ
    · have := h n (hocc n hn)
      simpa using this
    · have : occ.count n = 0 := List.count_eq_zero.mpr hn
      omega
  · intro h n _
    have := h n
    simp only [decide_eq_true_eq]
    omega

theorem occ_mem (l : List String) : ∀ n ∈ l.flatMap flagsOf, n ∈ opts.map (·.name) := by
  intro n hn
  obtain ⟨a, _, ha⟩ := List.mem_flatMap.mp hn
  exact flagsOf_mem ha

/-- **The options fail to parse exactly when**, among the arguments before the first `--`, one is wrong by itself (an
    unknown option or a flag given a value) or some flag is set twice (by two arguments or twice in one cluster). -/
theorem parse_error_iff (args : List String) :
    (∃ e, parse args = .error e) ↔
      (∃ a ∈ beforeTerminator args, isBad a = true) ∨
      (∃ n, 2 ≤ ((beforeTerminator args).flatMap flagsOf).count n) := by
  rw [parse_eq]
  cases hfb : firstBad (beforeTerminator args) with
  | some e =>
    have : (firstBad (beforeTerminator args)).isSome = true := by rw [hfb]; rfl
    unfold firstBad at this
    rw [List.findSome?_isSome_iff] at this
    exact ⟨fun _ => Or.inl this, fun _ => ⟨e, rfl⟩⟩
  | none =>
    have hnb : ¬ ∃ a ∈ beforeTerminator args, isBad a = true := by
      rintro ⟨a, ha, hb⟩
      unfold firstBad at hfb
      rw [List.findSome?_eq_none_iff] at hfb
      have := hfb a ha
      simp [isBad, this] at hb
    cases hfd : firstDup opts ((beforeTerminator args).flatMap flagsOf) with
    | some n =>
      refine ⟨fun _ => Or.inr ⟨n, ?_⟩, fun _ => ⟨_, rfl⟩⟩
      unfold firstDup at hfd
      have := List.find?_some hfd
      simp only [decide_eq_true_eq] at this
      omega
    | none =>
      constructor
      · rintro ⟨e, he⟩; cases he
      · rintro (h | ⟨n, hn⟩)
        · exact absurd h hnb
        · have := (firstDup_eq_none_iff _ (occ_mem _)).mp hfd n
          omega

theorem parse_ok_or_error (args : List String) : (∃ m, parse args = .ok m) ∨ (∃ e, parse args = .error e) := by
  cases parse args with
  | ok m => exact Or.inl ⟨m, rfl⟩
  | error e => exact Or.inr ⟨e, rfl⟩

/-- what a successful parse returns -/
theorem parse_ok (args : List String) (m : Matches) (h : parse args = .ok m) :
    m.free = (beforeTerminator args).filter (fun a => !isOption a) ++ afterTerminator args ∧
    ∀ n, n ∈ m.given ↔ ∃ a ∈ beforeTerminator args, n ∈ flagsOf a := by
  rw [parse_eq] at h
  cases hfb : firstBad (beforeTerminator args) with
  | some e => simp [hfb] at h
  | none =>
    simp only [hfb] at h
    cases hfd : firstDup opts ((beforeTerminator args).flatMap flagsOf) with
    | some n => simp [hfd] at h
    | none =>
      simp only [hfd] at h
      cases h
      refine ⟨rfl, fun n => ?_⟩
      simp only [List.mem_filter, decide_eq_true_eq]
      constructor
      · rintro ⟨_, hn⟩; exact List.mem_flatMap.mp hn
      · intro hn
        have := List.mem_flatMap.mpr hn
        exact ⟨occ_mem _ n this, this⟩

/-- `opt_present(name)` after a successful parse: some argument before the first `--` sets that flag -/
theorem optPresent_iff (args : List String) (m : Matches) (h : parse args = .ok m) (name : String) (n : Name)
    (hn : findOpt opts (Name.ofChars name.toList) = some n) :
    m.optPresent name = true ↔ ∃ a ∈ beforeTerminator args, n ∈ flagsOf a := by
  unfold Matches.optPresent
  simp only [hn, decide_eq_true_eq]
  exact (parse_ok args m h).2 n

/-! ## `main_real` -/

theorem mainArgv_of_error (w : World) (args : List String) (e : OptErr) (h : parse args = .error e) :
    mainArgv w args = { status := 1, out := .optionMessage, handed := none } := by
  simp [mainArgv, inputOf, h, inputOfError, mainReal, outcomeOf, Out.status]

theorem mainArgv_of_ok (w : World) (args : List String) (m : Matches) (h : parse args = .ok m) :
    mainArgv w args =
      { status := (mainReal (inputOfMatches w m)).1, out := (mainReal (inputOfMatches w m)).2,
        handed := if reachesRun (mainReal (inputOfMatches w m)).2 then some (runOptionsOf m ((timeoutOf m).getD 0)) else none } := by
  simp [mainArgv, inputOf, h]

/-- a simulation was asked for, and everything main_real checks before computing the timeout is in order -/
def RunAsked (w : World) (m : Matches) : Prop :=
  m.optPresent "h" = false ∧ m.optPresent "version" = false ∧ m.optPresent "c" = false ∧
  (m.free.length = 2 ∨ m.free.length = 3) ∧ w.hclOf (freeArg m 0) = .accepted ∧ hasYoSuffix (freeArg m 1) = true

/-- the simulation was run to its end (halt, error status or timeout) on the loaded image, for `t` cycles at most -/
def RanToCompletion (w : World) (m : Matches) : Prop :=
  RunAsked w m ∧
  ∃ t, timeoutOf m = some t ∧ w.yoOf (freeArg m 1) = .loaded ∧
    w.runOf (freeArg m 0) (freeArg m 1) (runOptionsOf m t) = .finished

/-- what was asked on the command line was done -/
def Done (w : World) (m : Matches) : Prop :=
  m.optPresent "h" = true ∨
  (m.optPresent "h" = false ∧ m.optPresent "version" = true) ∨
  (m.optPresent "h" = false ∧ m.optPresent "version" = false ∧ m.optPresent "c" = true ∧
    1 ≤ m.free.length ∧ m.free.length ≤ 3 ∧ w.hclOf (freeArg m 0) = .accepted) ∨
  RanToCompletion w m

theorem timeoutOf_two (m : Matches) (h : m.free.length ≤ 2) : timeoutOf m = some Generated.cliDefaultTimeout := by
  unfold timeoutOf
  have : ¬ m.free.length > 2 := by omega
  simp only [this, if_false]

theorem timeoutOf_three (m : Matches) (h : 2 < m.free.length) : timeoutOf m = parseU32 (freeArg m 2).toList := by
  unfold timeoutOf
  simp only [h, if_true]

/-- the last disjunct of `didWhatWasAsked` on the input built from the matches -/
theorem ran_iff (w : World) (m : Matches) :
    ((inputOfMatches w m).help = false ∧ (inputOfMatches w m).version = false ∧ (inputOfMatches w m).check = false ∧
      2 ≤ (inputOfMatches w m).nfree ∧ (inputOfMatches w m).nfree ≤ 3 ∧ (inputOfMatches w m).hcl = .accepted ∧
      (inputOfMatches w m).yoHasSuffix = true ∧ ((inputOfMatches w m).nfree = 3 → (inputOfMatches w m).timeoutValid = true) ∧
      (inputOfMatches w m).yo = .loaded ∧ (inputOfMatches w m).run = .finished) ↔ RanToCompletion w m := by
  unfold RanToCompletion RunAsked
  simp only [inputOfMatches]
  constructor
  · rintro ⟨h1, h2, h3, h4, h5, h6, h7, h8, h9, h10⟩
    refine ⟨⟨h1, h2, h3, by omega, h6, h7⟩, ?_⟩
    cases ht : timeoutOf m with
    | none =>
      by_cases hl : m.free.length = 3
      · have := h8 hl
        rw [ht] at this
        cases this
      · rw [timeoutOf_two m (by omega)] at ht
        cases ht
    | some t =>
      rw [ht] at h10
      exact ⟨t, rfl, h9, h10⟩
  · rintro ⟨⟨h1, h2, h3, hl, h6, h7⟩, t, ht, h9, h10⟩
    refine ⟨h1, h2, h3, by omega, by omega, h6, h7, fun _ => by rw [ht]; rfl, h9, ?_⟩
    rw [ht]
    exact h10

theorem done_iff (w : World) (m : Matches) : didWhatWasAsked (inputOfMatches w m) ↔ Done w m := by
  unfold didWhatWasAsked Done
  rw [ran_iff]
  simp only [inputOfMatches]

/-- the final state is printed in exactly one case -/
theorem finalState_iff (a : CliInput) (hopt : a.optionError = false) :
    (mainReal a).2 = .finalState ↔
      (a.help = false ∧ a.version = false ∧ a.check = false ∧ 2 ≤ a.nfree ∧ a.nfree ≤ 3 ∧ a.hcl = .accepted ∧
        a.yoHasSuffix = true ∧ (a.nfree = 3 → a.timeoutValid = true) ∧ a.yo = .loaded ∧ a.run = .finished) := by
  obtain ⟨oe, help, version, check, nfree, hcl, suf, yo, tv, run⟩ := a
  simp only at hopt
  subst hopt
  have hn : nfree = 0 ∨ nfree = 1 ∨ nfree = 2 ∨ nfree = 3 ∨ 4 ≤ nfree := by omega
  rcases hn with rfl | rfl | rfl | rfl | h4
  · cases help <;> cases version <;> simp [mainReal, outcomeOf]
  · cases help <;> cases version <;> cases check <;> cases hcl <;> simp [mainReal, outcomeOf]
  · cases help <;> cases version <;> cases check <;> cases hcl <;> cases suf <;> cases yo <;> cases run <;>
      simp [mainReal, outcomeOf]
  · cases help <;> cases version <;> cases check <;> cases hcl <;> cases suf <;> cases yo <;> cases tv <;> cases run <;>
      simp [mainReal, outcomeOf]
  · have e1 : ¬ nfree < 1 := by omega
    have e2 : nfree > 3 := by omega
    have e3 : ¬ nfree ≤ 3 := by omega
    cases help <;> cases version <;> cases hcl <;> simp [mainReal, outcomeOf, e1, e2, e3]

/-- `run_y86` is called in exactly one situation -/
theorem reachesRun_iff (a : CliInput) (hopt : a.optionError = false) :
    reachesRun (mainReal a).2 = true ↔
      (a.help = false ∧ a.version = false ∧ a.check = false ∧ 2 ≤ a.nfree ∧ a.nfree ≤ 3 ∧ a.hcl = .accepted ∧
        a.yoHasSuffix = true ∧ (a.nfree = 3 → a.timeoutValid = true)) := by
  obtain ⟨oe, help, version, check, nfree, hcl, suf, yo, tv, run⟩ := a
  simp only at hopt
  subst hopt
  have hn : nfree = 0 ∨ nfree = 1 ∨ nfree = 2 ∨ nfree = 3 ∨ 4 ≤ nfree := by omega
  rcases hn with rfl | rfl | rfl | rfl | h4
  · cases help <;> cases version <;> simp [mainReal, outcomeOf, reachesRun]
  · cases help <;> cases version <;> cases check <;> cases hcl <;> simp [mainReal, outcomeOf, reachesRun]
  · cases help <;> cases version <;> cases check <;> cases hcl <;> cases suf <;> cases yo <;> cases run <;>
      simp [mainReal, outcomeOf, reachesRun]
  · cases help <;> cases version <;> cases check <;> cases hcl <;> cases suf <;> cases yo <;> cases tv <;> cases run <;>
      simp [mainReal, outcomeOf, reachesRun]
  · have e1 : ¬ nfree < 1 := by omega
    have e2 : nfree > 3 := by omega
    have e3 : ¬ nfree ≤ 3 := by omega
    cases help <;> cases version <;> cases hcl <;> simp [mainReal, outcomeOf, reachesRun, e1, e2, e3]

theorem exists_ok_iff {args : List String} {m : Matches} (h : parse args = .ok m) (P : Matches → Prop) :
    (∃ m', parse args = .ok m' ∧ P m') ↔ P m := by
  constructor
  · rintro ⟨m', hm', hp⟩
    rw [h] at hm'
    cases hm'
    exact hp
  · intro hp; exact ⟨m, h, hp⟩

theorem not_exists_ok {args : List String} {e : OptErr} (h : parse args = .error e) (P : Matches → Prop) :
    ¬ ∃ m', parse args = .ok m' ∧ P m' := by
  rintro ⟨m', hm', _⟩
  rw [h] at hm'
  cases hm'

theorem ite_ne {α : Type} (c : Prop) [Decidable c] (x y z : α) (hx : x ≠ z) (hy : y ≠ z) :
    (if c then x else y) ≠ z := by
  split <;> assumption

theorem out_ne_optionMessage (a : CliInput) (h : a.optionError = false) : (mainReal a).2 ≠ .optionMessage := by
  simp only [mainReal, outcomeOf, h, Bool.false_eq_true, if_false]
  repeat' (apply ite_ne)
  all_goals (intro hh; cases hh)

end C19Argv

open C19Argv

/-- **C19 (exit status), for every argument vector and every outside world.**  The status is 0 exactly when the options
    parse and what was asked was done: `-h` given (usage printed, whatever else is on the line); else `--version`
    given; else `-c` given with 1 to 3 free arguments and an acceptable file (the second and third free arguments are
    then ignored altogether); else 2 or 3 free arguments, an acceptable file, an image named `*.yo`, a timeout that is
    a decimal numeral below 2^32 (default 9999), a loadable image, and a run that is not aborted.  The status is
    otherwise 1; no other status occurs; the final state is printed in the last case only; status 0 comes with
    usage, version, `syntax OK` or the final state and nothing else. -/
theorem C19_argv_exit (w : World) (args : List String) :
    ((mainArgv w args).status = 0 ↔ ∃ m, parse args = .ok m ∧ Done w m) ∧
    ((mainArgv w args).status = 0 ∨ (mainArgv w args).status = 1) ∧
    ((mainArgv w args).out = .finalState ↔ ∃ m, parse args = .ok m ∧ RanToCompletion w m) ∧
    ((mainArgv w args).status = 0 ↔
      ((mainArgv w args).out = .usage ∨ (mainArgv w args).out = .version ∨ (mainArgv w args).out = .syntaxOk ∨
       (mainArgv w args).out = .finalState)) := by
  cases h : parse args with
  | error e =>
    rw [mainArgv_of_error w args e h]
    refine ⟨⟨fun h0 => (by cases h0), fun h1 => ?_⟩, Or.inr rfl, ⟨fun h0 => (by cases h0), fun h1 => ?_⟩, ?_⟩
    · rw [← h] at h1; exact absurd h1 (not_exists_ok h _)
    · rw [← h] at h1; exact absurd h1 (not_exists_ok h _)
    · simp
  | ok m =>
    rw [mainArgv_of_ok w args m h]
    have hs := C19_output_matches_status (inputOfMatches w m)
    refine ⟨?_, hs.2, ?_, hs.1⟩
    · rw [← h, exists_ok_iff h]
      exact (C19_exit (inputOfMatches w m) rfl).trans (done_iff w m)
    · rw [← h, exists_ok_iff h]
      exact (finalState_iff (inputOfMatches w m) rfl).trans (ran_iff w m)

/-- **C19 (malformed options).**  When, among the arguments before the first `--`, one is an unknown option or a flag
    given a value (`isBad`), or some flag is set twice, main_real prints the message of getopts and exits with status 1
    without looking at anything else: `--help` or `--version` elsewhere on the line change nothing.  This is the
    only way to get that outcome. -/
theorem C19_argv_option_error (w : World) (args : List String) :
    ((∃ a ∈ beforeTerminator args, isBad a = true) ∨ (∃ n, 2 ≤ ((beforeTerminator args).flatMap flagsOf).count n)) ↔
      mainArgv w args = { status := 1, out := .optionMessage, handed := none } := by
  rw [← parse_error_iff]
  constructor
  · rintro ⟨e, he⟩
    exact mainArgv_of_error w args e he
  · intro hm
    cases h : parse args with
    | error e => exact ⟨e, rfl⟩
    | ok m =>
      rw [mainArgv_of_ok w args m h] at hm
      have : (mainReal (inputOfMatches w m)).2 = .optionMessage := by
        have := congrArg Cli.Result.out hm
        simpa using this
      exact absurd this (out_ne_optionMessage _ rfl)

namespace C19Argv

theorem beforeTerminator_append (pre rest : List String) (h : "--" ∉ pre) :
    beforeTerminator (pre ++ rest) = pre ++ beforeTerminator rest := by
  induction pre with
  | nil => rfl
  | cons a l ih =>
    have ha : a ≠ "--" := fun e => h (by rw [e]; exact List.mem_cons_self)
    have hb : (a != "--") = true := by simpa using ha
    have hl : "--" ∉ l := fun e => h (List.mem_cons_of_mem _ e)
    have := ih hl
    unfold beforeTerminator at this ⊢
    simp only [List.cons_append, List.takeWhile_cons, hb, if_true, this]

theorem beforeTerminator_cons (a : String) (rest : List String) (h : a ≠ "--") :
    beforeTerminator (a :: rest) = a :: beforeTerminator rest := by
  have hb : (a != "--") = true := by simpa using h
  simp only [beforeTerminator, List.takeWhile_cons, hb, if_true]

theorem ne_terminator_of_isBad {a : String} (h : isBad a = true) : a ≠ "--" := by
  intro e; subst e; revert h; decide

theorem ne_terminator_of_flagsOf {a : String} {n : Name} (h : n ∈ flagsOf a) : a ≠ "--" := by
  intro e; subst e
  have : flagsOf "--" = [] := by decide
  rw [this] at h; cases h

end C19Argv

/-- a malformed option anywhere before the first `--` -/
theorem C19_argv_option_error_anywhere (w : World) (pre post : List String) (x : String)
    (hpre : "--" ∉ pre) (hx : isBad x = true) :
    mainArgv w (pre ++ x :: post) = { status := 1, out := .optionMessage, handed := none } := by
  apply (C19_argv_option_error w _).mp
  left
  refine ⟨x, ?_, hx⟩
  rw [beforeTerminator_append _ _ hpre, beforeTerminator_cons _ _ (ne_terminator_of_isBad hx)]
  simp

/-- a flag set by two arguments before the first `--` (in any spelling: `-c … --check`, `-qd … --debug`) -/
theorem C19_argv_option_twice (w : World) (pre mid post : List String) (x y : String) (n : Name)
    (hpre : "--" ∉ pre) (hmid : "--" ∉ mid) (hx : n ∈ flagsOf x) (hy : n ∈ flagsOf y) :
    mainArgv w (pre ++ x :: (mid ++ y :: post)) = { status := 1, out := .optionMessage, handed := none } := by
  apply (C19_argv_option_error w _).mp
  right
  refine ⟨n, ?_⟩
  rw [beforeTerminator_append _ _ hpre, beforeTerminator_cons _ _ (ne_terminator_of_flagsOf hx),
    beforeTerminator_append _ _ hmid, beforeTerminator_cons _ _ (ne_terminator_of_flagsOf hy)]
  simp only [List.flatMap_append, List.flatMap_cons, List.count_append]
  have h1 : 0 < (flagsOf x).count n := List.count_pos_iff.mpr hx
  have h2 : 0 < (flagsOf y).count n := List.count_pos_iff.mpr hy
  omega


/-! ## the timeout -/

namespace C19Argv

/-- the value of a string of decimal digits, most significant first -/
def decimalValue (ds : List Char) : Nat := ds.foldl (fun acc c => acc * 10 + (c.toNat - 48)) 0

theorem decimalValue_nil : decimalValue [] = 0 := rfl

theorem decimalValue_snoc (ds : List Char) (d : Char) : decimalValue (ds ++ [d]) = decimalValue ds * 10 + (d.toNat - 48) := by
  simp [decimalValue, List.foldl_append]

/-- `s` is a decimal numeral (digits `0`-`9`, at least one, an optional `+` in front, nothing else) of value `v < 2^32` -/
def IsNumeralOf (s : String) (v : Nat) : Prop :=
  ∃ digits : List Char, (s.toList = digits ∨ s.toList = '+' :: digits) ∧ digits ≠ [] ∧
    (∀ c ∈ digits, '0' ≤ c ∧ c ≤ '9') ∧ v = decimalValue digits ∧ v < 2 ^ 32

def digitsOf (s : List Char) : List Char :=
  match s with
  | '+' :: rest => rest
  | _ => s

theorem parseU32_eq (s : List Char) :
    parseU32 s =
      if (digitsOf s).isEmpty || !(digitsOf s).all (fun c => '0' ≤ c && c ≤ '9') then none
      else if decimalValue (digitsOf s) < 2 ^ 32 then some (decimalValue (digitsOf s)) else none := rfl

theorem digitsOf_plus (r : List Char) : digitsOf ('+' :: r) = r := rfl

theorem digitsOf_other (c : Char) (r : List Char) (h : c ≠ '+') : digitsOf (c :: r) = c :: r := by
  unfold digitsOf
  split
  · rename_i h2; cases h2; exact absurd rfl h
  · rfl

theorem digitsOf_cases (s : List Char) : (∃ r, s = '+' :: r ∧ digitsOf s = r) ∨ digitsOf s = s := by
  cases s with
  | nil => exact Or.inr rfl
  | cons c r =>
    by_cases h : c = '+'
    · subst h; exact Or.inl ⟨r, rfl, rfl⟩
    · exact Or.inr (digitsOf_other c r h)

theorem good_digits_iff (ds : List Char) :
    (ds.isEmpty || !ds.all (fun c => '0' ≤ c && c ≤ '9')) = false ↔ (ds ≠ [] ∧ ∀ c ∈ ds, '0' ≤ c ∧ c ≤ '9') := by
  cases ds with
  | nil => simp
  | cons a l => simp

theorem parseU32_iff (s : List Char) (v : Nat) :
    parseU32 s = some v ↔
      ∃ digits : List Char, (s = digits ∨ s = '+' :: digits) ∧ digits ≠ [] ∧
        (∀ c ∈ digits, '0' ≤ c ∧ c ≤ '9') ∧ v = decimalValue digits ∧ v < 2 ^ 32 := by
  rw [parseU32_eq]
  constructor
  · intro h
    cases hg : ((digitsOf s).isEmpty || !(digitsOf s).all (fun c => '0' ≤ c && c ≤ '9')) with
    | true => simp [hg] at h
    | false =>
      simp only [hg, Bool.false_eq_true, if_false] at h
      have hd := (good_digits_iff _).mp hg
      by_cases hv : decimalValue (digitsOf s) < 2 ^ 32
      · simp only [hv, if_true] at h
        cases h
        refine ⟨digitsOf s, ?_, hd.1, hd.2, rfl, hv⟩
        rcases digitsOf_cases s with ⟨r, hs, hr⟩ | hs
        · right; rw [hr]; exact hs
        · left; exact hs.symm
      · simp [hv] at h
  · rintro ⟨digits, hs, hne, hall, hv, hlt⟩
    have hds : digitsOf s = digits := by
      rcases hs with rfl | rfl
      · cases s with
        | nil => exact absurd rfl hne
        | cons c r =>
          apply digitsOf_other
          intro hc
          subst hc
          have := (hall '+' List.mem_cons_self).1
          revert this; decide
      · rfl
    rw [hds]
    have hg := (good_digits_iff digits).mpr ⟨hne, hall⟩
    rw [hv] at hlt
    simp only [hg, Bool.false_eq_true, if_false, hlt, if_true, hv]

theorem timeoutOf_three_iff (m : Matches) (h : m.free.length = 3) (v : Nat) :
    timeoutOf m = some v ↔ IsNumeralOf (freeArg m 2) v := by
  rw [timeoutOf_three m (by omega)]
  exact parseU32_iff _ _

end C19Argv

/-- **C19 (the timeout is honoured exactly).**  `run_y86` is called - with these run options - exactly when the options
    parse, a run is asked for (no `-h`, `--version`, `-c`; 2 or 3 free arguments; acceptable file; image named `*.yo`) and
    either there are two free arguments, and the cycle budget is the default `Generated.cliDefaultTimeout` (= 9999, extracted
    from main.rs), or the third free argument is a decimal numeral (optional `+`) of value `v < 2^32`, and the budget is `v`.
    The six other run options are the flags `-q -d -t -i --ungroup-debug-wires --trace-assignments` as given. -/
theorem C19_argv_timeout (w : World) (args : List String) (ro : RunOptions) :
    (mainArgv w args).handed = some ro ↔
      ∃ m, parse args = .ok m ∧ RunAsked w m ∧
        ((m.free.length = 2 ∧ ro = runOptionsOf m Generated.cliDefaultTimeout) ∨
         (m.free.length = 3 ∧ ∃ v, IsNumeralOf (freeArg m 2) v ∧ ro = runOptionsOf m v)) := by
  cases h : parse args with
  | error e =>
    rw [mainArgv_of_error w args e h]
    constructor
    · intro h0; cases h0
    · intro h1; rw [← h] at h1; exact absurd h1 (not_exists_ok h _)
  | ok m =>
    rw [mainArgv_of_ok w args m h, ← h, exists_ok_iff h]
    have hr := reachesRun_iff (inputOfMatches w m) rfl
    simp only [inputOfMatches] at hr
    unfold RunAsked
    constructor
    · intro h0
      by_cases hrr : reachesRun (mainReal (inputOfMatches w m)).2 = true
      · simp only [hrr, if_true] at h0
        obtain ⟨h1, h2, h3, h4, h5, h6, h7, h8⟩ := hr.mp hrr
        refine ⟨⟨h1, h2, h3, by omega, h6, h7⟩, ?_⟩
        by_cases hl : m.free.length = 3
        · right
          have := h8 hl
          cases ht : timeoutOf m with
          | none => rw [ht] at this; cases this
          | some v =>
            rw [ht] at h0
            refine ⟨hl, v, (timeoutOf_three_iff m hl v).mp ht, ?_⟩
            cases h0; rfl
        · left
          have hl2 : m.free.length = 2 := by omega
          rw [timeoutOf_two m (by omega)] at h0
          cases h0
          exact ⟨hl2, rfl⟩
      · simp [hrr] at h0
    · rintro ⟨⟨h1, h2, h3, hl, h6, h7⟩, hcase⟩
      rcases hcase with ⟨hl2, hro⟩ | ⟨hl3, v, hv, hro⟩
      · have hrr : reachesRun (mainReal (inputOfMatches w m)).2 = true :=
          hr.mpr ⟨h1, h2, h3, by omega, by omega, h6, h7, fun h3 => by omega⟩
        rw [timeoutOf_two m (by omega)]
        simp only [hrr, if_true, hro]
        rfl
      · have ht := (timeoutOf_three_iff m hl3 v).mpr hv
        have hrr : reachesRun (mainReal (inputOfMatches w m)).2 = true :=
          hr.mpr ⟨h1, h2, h3, by omega, by omega, h6, h7, fun _ => by rw [ht]; rfl⟩
        rw [ht]
        simp only [hrr, if_true, hro]
        rfl

/-- a third free argument that is not such a numeral: status 1, the message `timeout … is not a valid number`, no run -/
theorem C19_argv_bad_timeout (w : World) (args : List String) (m : Matches) (h : parse args = .ok m)
    (hr : RunAsked w m) (h3 : m.free.length = 3) (hbad : ¬ ∃ v, IsNumeralOf (freeArg m 2) v) :
    mainArgv w args = { status := 1, out := .badTimeout, handed := none } := by
  obtain ⟨h1, h2, h3', hl, h6, h7⟩ := hr
  have ht : timeoutOf m = none := by
    cases ht : timeoutOf m with
    | none => rfl
    | some v => exact absurd ⟨v, (timeoutOf_three_iff m h3 v).mp ht⟩ hbad
  rw [mainArgv_of_ok w args m h]
  simp [mainReal, outcomeOf, inputOfMatches, h1, h2, h3', h3, h6, h7, ht, Out.status, reachesRun]

/-! ## the options commute -/

namespace C19Argv

theorem beforeTerminator_of_not_mem (args : List String) (h : "--" ∉ args) :
    beforeTerminator args = args ∧ afterTerminator args = [] := by
  induction args with
  | nil => exact ⟨rfl, rfl⟩
  | cons a l ih =>
    have ha : a ≠ "--" := fun e => h (by rw [e]; exact List.mem_cons_self)
    have hb : (a != "--") = true := by simpa using ha
    have hl : "--" ∉ l := fun e => h (List.mem_cons_of_mem _ e)
    obtain ⟨i1, i2⟩ := ih hl
    unfold beforeTerminator at i1
    unfold afterTerminator at i2
    unfold beforeTerminator afterTerminator
    simp only [List.takeWhile_cons, List.dropWhile_cons, hb, if_true, i1, i2, and_self]

theorem flatMap_flagsOf_filter (l : List String) : l.flatMap flagsOf = (l.filter isOption).flatMap flagsOf := by
  induction l with
  | nil => rfl
  | cons a l ih =>
    cases hi : isOption a
    · simp only [List.flatMap_cons, List.filter_cons, hi, flagsOf_of_not_isOption hi, List.nil_append, ih]
      rfl
    · simp only [List.flatMap_cons, List.filter_cons, hi, if_true, ih]

theorem firstBad_none_iff (l : List String) : firstBad l = none ↔ ∀ a ∈ l.filter isOption, isBad a = false := by
  unfold firstBad
  rw [List.findSome?_eq_none_iff]
  constructor
  · intro h a ha
    have := h a (List.mem_filter.mp ha).1
    simp [isBad, this]
  · intro h a ha
    cases hi : isOption a
    · simp [badOf, (classify_free_iff a).mpr hi]
    · have := h a (List.mem_filter.mpr ⟨ha, hi⟩)
      simpa [isBad] using this

theorem parse_no_terminator (args : List String) (h : "--" ∉ args) :
    parse args =
      match firstBad args with
      | some e => .error e
      | none =>
        match firstDup opts (args.flatMap flagsOf) with
        | some n => .error (.duplicated n.toString)
        | none => .ok { given := (opts.map (·.name)).filter (fun n => decide (n ∈ args.flatMap flagsOf)),
                        free := args.filter (fun a => !isOption a) } := by
  rw [parse_eq, (beforeTerminator_of_not_mem args h).1, (beforeTerminator_of_not_mem args h).2, List.append_nil]

theorem mainArgv_congr (w : World) (a b : List String) (h : (parse a).toOption = (parse b).toOption) :
    mainArgv w a = mainArgv w b := by
  cases ha : parse a with
  | error e =>
    cases hb : parse b with
    | error e' => rw [mainArgv_of_error w a e ha, mainArgv_of_error w b e' hb]
    | ok m' => rw [ha, hb] at h; cases h
  | ok m =>
    cases hb : parse b with
    | error e' => rw [ha, hb] at h; cases h
    | ok m' =>
      rw [ha, hb] at h
      have : m = m' := by
        simp only [Except.toOption] at h
        exact Option.some.inj h
      subst this
      rw [mainArgv_of_ok w a m ha, mainArgv_of_ok w b m hb]

theorem parse_shuffle (args args' : List String) (hterm : "--" ∉ args)
    (hfree : args.filter (fun a => !isOption a) = args'.filter (fun a => !isOption a))
    (hopt : (args.filter isOption).Perm (args'.filter isOption)) :
    (parse args').toOption = (parse args).toOption := by
  have hterm' : "--" ∉ args' := by
    intro hm
    have : "--" ∈ args'.filter isOption := List.mem_filter.mpr ⟨hm, by decide⟩
    exact hterm (List.mem_filter.mp (hopt.mem_iff.mpr this)).1
  rw [parse_no_terminator args hterm, parse_no_terminator args' hterm']
  have hocc : (args.flatMap flagsOf).Perm (args'.flatMap flagsOf) := by
    rw [flatMap_flagsOf_filter args, flatMap_flagsOf_filter args']
    exact hopt.flatMap_right flagsOf
  have hbad : firstBad args = none ↔ firstBad args' = none := by
    rw [firstBad_none_iff, firstBad_none_iff]
    exact ⟨fun h a ha => h a (hopt.mem_iff.mpr ha), fun h a ha => h a (hopt.mem_iff.mp ha)⟩
  cases h1 : firstBad args with
  | some e =>
    cases h2 : firstBad args' with
    | some e' => rfl
    | none => rw [hbad.mpr h2] at h1; cases h1
  | none =>
    rw [hbad.mp h1]
    have hdup : firstDup opts (args'.flatMap flagsOf) = firstDup opts (args.flatMap flagsOf) := by
      unfold firstDup
      congr 1
      funext n
      rw [hocc.count_eq]
    have hgiven : (opts.map (·.name)).filter (fun n => decide (n ∈ args'.flatMap flagsOf)) =
        (opts.map (·.name)).filter (fun n => decide (n ∈ args.flatMap flagsOf)) := by
      apply List.filter_congr
      intro n _
      simp only [hocc.mem_iff]
    simp only [hdup, hgiven, hfree]

end C19Argv

/-- **C19 (the order of the options does not matter).**  Two argument vectors without `--` that have the same free
    arguments in the same order, and the same option arguments up to order - wherever they stand among the free ones -
    give the same result: same status, same kind of output, same options and timeout handed to the simulation; and
    getopts returns the same matches, or fails on both.  (WHICH message is printed when several options are wrong does
    depend on the order - the first wrong argument wins, duplicates are reported last - and an argument moved across `--`
    changes its meaning: see the examples below.) -/
theorem C19_argv_options_commute (w : World) (args args' : List String) (hterm : "--" ∉ args)
    (hfree : args.filter (fun a => !isOption a) = args'.filter (fun a => !isOption a))
    (hopt : (args.filter isOption).Perm (args'.filter isOption)) :
    mainArgv w args' = mainArgv w args ∧ (parse args').toOption = (parse args).toOption :=
  ⟨mainArgv_congr w args' args (parse_shuffle args args' hterm hfree hopt), parse_shuffle args args' hterm hfree hopt⟩

/-! ## which spellings are options (the table of main.rs made explicit) -/

namespace C19Argv

/-- the canonical name of an option that has a long name -/
def L (s : String) : Name := .long s.toList

/-- the option table of main.rs, as `parse` sees it -/
theorem opts_eq : opts =
  [⟨L "check", some (.short 'c')⟩, ⟨L "debug", some (.short 'd')⟩, ⟨L "quiet", some (.short 'q')⟩,
   ⟨L "testing", some (.short 't')⟩, ⟨L "help", some (.short 'h')⟩, ⟨L "interactive", some (.short 'i')⟩,
   ⟨L "ungroup-debug-wires", none⟩, ⟨L "trace-assignments", none⟩, ⟨L "version", none⟩] := by decide

/-- the short option letters -/
def shortNames : List Char := ['c', 'd', 'q', 't', 'h', 'i']

/-- the long option names -/
def longNames : List (List Char) :=
  ["check".toList, "debug".toList, "quiet".toList, "testing".toList, "help".toList, "interactive".toList,
   "ungroup-debug-wires".toList, "trace-assignments".toList, "version".toList]

theorem findOpt_short_isSome (ch : Char) : (findOpt opts (.short ch)).isSome = true ↔ ch ∈ shortNames := by
  rw [opts_eq]
  by_cases h1 : ch = 'c'
  · subst h1; decide
  by_cases h2 : ch = 'd'
  · subst h2; decide
  by_cases h3 : ch = 'q'
  · subst h3; decide
  by_cases h4 : ch = 't'
  · subst h4; decide
  by_cases h5 : ch = 'h'
  · subst h5; decide
  by_cases h6 : ch = 'i'
  · subst h6; decide
  simp [findOpt, L, shortNames, h1, h2, h3, h4, h5, h6, Ne.symm h1, Ne.symm h2, Ne.symm h3, Ne.symm h4, Ne.symm h5, Ne.symm h6]

theorem findOpt_long_isSome (s : List Char) : (findOpt opts (.long s)).isSome = true ↔ s ∈ longNames := by
  rw [opts_eq]
  by_cases h : s ∈ longNames
  · simp only [longNames, List.mem_cons, List.not_mem_nil, or_false] at h
    rcases h with h | h | h | h | h | h | h | h | h <;> subst h <;> decide
  · simp only [h, iff_false]
    simp only [longNames, List.mem_cons, List.not_mem_nil, or_false, not_or] at h
    obtain ⟨h1, h2, h3, h4, h5, h6, h7, h8, h9⟩ := h
    simp [findOpt, L]
    exact ⟨fun e => h1 e.symm, fun e => h2 e.symm, fun e => h3 e.symm, fun e => h4 e.symm, fun e => h5 e.symm,
      fun e => h6 e.symm, fun e => h7 e.symm, fun e => h8 e.symm, fun e => h9 e.symm⟩

/-- a name after `--` is known: a long name of the table, or ONE short option letter -/
def knownLong (nm : List Char) : Prop := nm ∈ longNames ∨ ∃ ch ∈ shortNames, nm = [ch]

theorem shortNames_ascii {ch : Char} (h : ch ∈ shortNames) : ch.toNat < 128 := by
  simp only [shortNames, List.mem_cons, List.not_mem_nil, or_false] at h
  rcases h with h | h | h | h | h | h <;> subst h <;> decide

theorem singleton_not_long (c : Char) : [c] ∉ longNames := by
  intro h
  simp only [longNames, List.mem_cons, List.not_mem_nil, or_false] at h
  rcases h with h | h | h | h | h | h | h | h | h <;> (have := congrArg List.length h; simp only [List.length_singleton] at this; revert this; decide)

theorem findOpt_ofChars_isSome (nm : List Char) : (findOpt opts (Name.ofChars nm)).isSome = true ↔ knownLong nm := by
  unfold knownLong
  cases nm with
  | nil =>
    simp only [Name.ofChars]
    rw [findOpt_long_isSome]
    constructor
    · intro h; exact Or.inl h
    · rintro (h | ⟨ch, _, h⟩)
      · exact h
      · cases h
  | cons c r =>
    cases r with
    | nil =>
      simp only [Name.ofChars]
      by_cases hc : c.toNat < 128
      · simp only [hc, if_true]
        rw [findOpt_short_isSome]
        constructor
        · intro h; exact Or.inr ⟨c, h, rfl⟩
        · rintro (h | ⟨ch, hch, h⟩)
          · exact absurd h (singleton_not_long c)
          · cases h; exact hch
      · simp only [hc, if_false]
        rw [findOpt_long_isSome]
        constructor
        · intro h; exact Or.inl h
        · rintro (h | ⟨ch, hch, h⟩)
          · exact h
          · cases h; exact absurd (shortNames_ascii hch) hc
    | cons d r' =>
      simp only [Name.ofChars]
      rw [findOpt_long_isSome]
      constructor
      · intro h; exact Or.inl h
      · rintro (h | ⟨ch, _, h⟩)
        · exact h
        · cases h

theorem splitEq_snd_isSome (t : List Char) : (splitEq t).2.isSome = true ↔ '=' ∈ t := by
  induction t with
  | nil => simp [splitEq]
  | cons c cs ih =>
    unfold splitEq
    by_cases h : c = '='
    · subst h; simp
    · simp only [h, if_false, ih, List.mem_cons]
      constructor
      · intro h'; exact Or.inr h'
      · rintro (h' | h')
        · exact absurd h'.symm h
        · exact h'

theorem splitEq_fst (t : List Char) : (splitEq t).1 = t.takeWhile (fun c => c != '=') := by
  induction t with
  | nil => rfl
  | cons c cs ih =>
    unfold splitEq
    by_cases h : c = '='
    · subst h; simp
    · have hb : (c != '=') = true := by simpa using h
      simp only [h, if_false, ih, List.takeWhile_cons, hb, if_true]

theorem cluster_ok_iff (cs : List Char) : (∃ ns, cluster opts cs = .ok ns) ↔ ∀ ch ∈ cs, ch ∈ shortNames := by
  induction cs with
  | nil => simp [cluster]
  | cons c r ih =>
    unfold cluster
    cases hf : findOpt opts (.short c) with
    | none =>
      have : ¬ c ∈ shortNames := by
        rw [← findOpt_short_isSome, hf]; simp
      simp only [List.mem_cons, forall_eq_or_imp, this, false_and, iff_false]
      rintro ⟨ns, h⟩; cases h
    | some n =>
      have hc : c ∈ shortNames := by
        rw [← findOpt_short_isSome, hf]; rfl
      simp only [List.mem_cons, forall_eq_or_imp, hc, true_and]
      rw [← ih]
      cases cluster opts r with
      | ok ns => exact ⟨fun _ => ⟨ns, rfl⟩, fun _ => ⟨_, rfl⟩⟩
      | error e =>
        constructor
        · rintro ⟨ns, h⟩; cases h
        · rintro ⟨ns, h⟩; cases h

/-- **which arguments are wrong by themselves**: `--name` or `--name=value` where a value is given or the name is
    neither a long name of the table nor one short letter; `-letters` where some letter is not a short option. -/
theorem isBad_iff (a : String) :
    isBad a = true ↔
      (∃ tail, a.toList = '-' :: '-' :: tail ∧ tail ≠ [] ∧
        ('=' ∈ tail ∨ ¬ knownLong (tail.takeWhile (fun c => c != '=')))) ∨
      (∃ c rest, a.toList = '-' :: c :: rest ∧ c ≠ '-' ∧ ∃ ch ∈ c :: rest, ch ∉ shortNames) := by
  unfold isBad badOf classify classifyChars
  cases hl : a.toList with
  | nil => simp [isArg]
  | cons c0 r0 =>
    cases r0 with
    | nil => simp [isArg]
    | cons c1 r1 =>
      by_cases h0 : c0 = '-'
      · subst h0
        by_cases h1 : c1 = '-'
        · subst h1
          cases r1 with
          | nil => simp [isArg]
          | cons c2 r2 =>
            have hne : ¬ ('-' :: '-' :: c2 :: r2 = ['-', '-']) := by simp
            simp only [isArg, beq_self_eq_true, Bool.not_true, Bool.false_eq_true, if_false, hne, List.drop_succ_cons,
              List.drop_zero, List.head?_cons, if_true]
            have hR : ((∃ tail, '-' :: '-' :: c2 :: r2 = '-' :: '-' :: tail ∧ tail ≠ [] ∧
                  ('=' ∈ tail ∨ ¬ knownLong (tail.takeWhile (fun c => c != '=')))) ∨
                (∃ c rest, '-' :: '-' :: c2 :: r2 = '-' :: c :: rest ∧ c ≠ '-' ∧ ∃ ch ∈ c :: rest, ch ∉ shortNames)) ↔
                ('=' ∈ c2 :: r2 ∨ ¬ knownLong ((c2 :: r2).takeWhile (fun c => c != '='))) := by
              constructor
              · rintro (⟨tail, ht, _, h⟩ | ⟨c, rest, hcr, hc, _⟩)
                · simp only [List.cons.injEq, true_and] at ht
                  rw [← ht] at h; exact h
                · simp only [List.cons.injEq, true_and] at hcr
                  exact absurd hcr.1.symm hc
              · intro h
                exact Or.inl ⟨c2 :: r2, rfl, by simp, h⟩
            rw [hR, ← splitEq_fst, ← splitEq_snd_isSome, ← findOpt_ofChars_isSome]
            unfold classifyLong
            cases hf : findOpt opts (Name.ofChars (splitEq (c2 :: r2)).1) with
            | none => simp [hf]
            | some n =>
              by_cases hv : (splitEq (c2 :: r2)).2.isSome = true
              · simp [hf, hv]
              · simp [hf, hv]
        · have hne : ¬ ('-' :: c1 :: r1 = ['-', '-']) := by simp [h1]
          have hh : ¬ (some c1 = some '-') := by simp [h1]
          simp only [isArg, beq_self_eq_true, Bool.not_true, Bool.false_eq_true, if_false, hne, List.drop_succ_cons,
            List.drop_zero, List.head?_cons, hh]
          have hcl := cluster_ok_iff (c1 :: r1)
          cases hc : cluster opts (c1 :: r1) with
          | ok ns =>
            have := hcl.mp ⟨ns, hc⟩
            simp only [Option.isSome_none, Bool.false_eq_true, false_iff, not_or, not_exists, not_and]
            refine ⟨fun t ht => ?_, fun c r hcr _ ch hch => ?_⟩
            · simp only [List.cons.injEq, true_and] at ht
              exact absurd ht.1 h1
            · simp only [List.cons.injEq, true_and] at hcr
              obtain ⟨rfl, rfl⟩ := hcr
              intro hn; exact hn (this ch hch)
          | error e =>
            have : ¬ ∀ ch ∈ c1 :: r1, ch ∈ shortNames := fun h => by
              obtain ⟨ns, hns⟩ := hcl.mpr h
              rw [hc] at hns; cases hns
            simp only [Option.isSome_some, true_iff]
            right
            refine ⟨c1, r1, rfl, h1, ?_⟩
            apply Classical.byContradiction
            intro hno
            apply this
            intro ch hch
            apply Classical.byContradiction
            intro hn
            exact hno ⟨ch, hch, hn⟩
      · have : isArg (c0 :: c1 :: r1) = false := by simp [isArg, h0]
        simp only [this, Bool.not_false, if_true, Option.isSome_none, Bool.false_eq_true, false_iff, not_or, not_exists, not_and]
        refine ⟨fun t ht => ?_, fun c r hcr => ?_⟩
        · simp only [List.cons.injEq] at ht
          exact absurd ht.1 h0
        · simp only [List.cons.injEq] at hcr
          exact absurd hcr.1 h0

/-- `-h`, `--version`, `-c` are present exactly when an argument before the first `--` sets them: for help these are
    `-h`, `--help`, `--h` and the clusters that contain `h` (`flagsOf` is computable: see the examples) -/
theorem help_present_iff (args : List String) (m : Matches) (h : parse args = .ok m) :
    m.optPresent "h" = true ↔ ∃ a ∈ beforeTerminator args, L "help" ∈ flagsOf a :=
  optPresent_iff args m h "h" (L "help") (by decide)

theorem version_present_iff (args : List String) (m : Matches) (h : parse args = .ok m) :
    m.optPresent "version" = true ↔ ∃ a ∈ beforeTerminator args, L "version" ∈ flagsOf a :=
  optPresent_iff args m h "version" (L "version") (by decide)

theorem check_present_iff (args : List String) (m : Matches) (h : parse args = .ok m) :
    m.optPresent "c" = true ↔ ∃ a ∈ beforeTerminator args, L "check" ∈ flagsOf a :=
  optPresent_iff args m h "c" (L "check") (by decide)

example : flagsOf "-h" = [L "help"] ∧ flagsOf "--help" = [L "help"] ∧ flagsOf "--h" = [L "help"] ∧
    flagsOf "-qh" = [L "quiet", L "help"] ∧ flagsOf "--Help" = [] ∧ flagsOf "help" = [] := by decide

end C19Argv

/-! ## concrete argument vectors (evaluated by the kernel) -/

namespace C19Argv

deriving instance DecidableEq for Except

/-- a world where every file is fine and every run finishes -/
def fine : World := { hclOf := fun _ => .accepted, yoOf := fun _ => .loaded, runOf := fun _ _ _ => .finished }
/-- a world where no HCL file can be read -/
def nofile : World := { hclOf := fun _ => .unreadable, yoOf := fun _ => .loaded, runOf := fun _ _ _ => .finished }

-- clusters, `--`, options after `--` are free arguments
example : parse ["-qd", "a.hcl", "--", "-x", "b"] = .ok { given := [L "debug", L "quiet"], free := ["a.hcl", "-x", "b"] } := by decide
-- options may follow the free arguments; a lone `-` is a free argument
example : parse ["a.hcl", "-", "-t", "--version"] = .ok { given := [L "testing", L "version"], free := ["a.hcl", "-"] } := by decide
-- ODDITY: a ONE-letter name after `--` is looked up as a short option: `--c` is `-c`, `--h` is `-h`
example : parse ["--c", "a.hcl", "--h"] = .ok { given := [L "check", L "help"], free := ["a.hcl"] } := by decide
-- but no abbreviations of long names
example : parse ["--versio"] = .error (.unrecognized "versio") := by decide
example : parse ["--che"] = .error (.unrecognized "che") := by decide
-- a flag given a value (even an empty one)
example : parse ["--check=1"] = .error (.unexpectedArgument "check") := by decide
example : parse ["--c="] = .error (.unexpectedArgument "c") := by decide
example : parse ["-c=1"] = .error (.unrecognized "=") := by decide
-- an unknown name wins over the value
example : parse ["--no-such=1"] = .error (.unrecognized "no-such") := by decide
-- unknown options, non-ASCII included
example : parse ["-x"] = .error (.unrecognized "x") := by decide
example : parse ["-qé"] = .error (.unrecognized "é") := by decide
example : parse ["--é"] = .error (.unrecognized "é") := by decide
example : parse ["---"] = .error (.unrecognized "-") := by decide
example : parse ["--="] = .error (.unrecognized "") := by decide
example : parse ["a.hcl", "b.yo", "-1"] = .error (.unrecognized "1") := by decide
-- an option twice, in any spelling; the name reported is the long one, the first of the TABLE that is repeated
example : parse ["-qq"] = .error (.duplicated "quiet") := by decide
example : parse ["-t", "-d", "--debug", "--t"] = .error (.duplicated "debug") := by decide
-- the first wrong argument wins over a later one and over duplicates
example : parse ["-q", "-q", "--bogus", "-x"] = .error (.unrecognized "bogus") := by decide
example : optionMessage ["-x", "--bogus"] = some "Unrecognized option: 'x'" := by decide
example : optionMessage ["--bogus", "-x"] = some "Unrecognized option: 'bogus'" := by decide
example : optionMessage ["--help="] = some "Option 'help' does not take an argument" := by decide
example : optionMessage ["-c", "--check"] = some "Option 'check' given more than once" := by decide

-- `-h` wins over everything that parses ...
example : mainArgv nofile ["x", "y", "z", "t", "--version", "-c", "-h"] = { status := 0, out := .usage, handed := none } := by decide
-- ... but not over a malformed option
example : mainArgv fine ["-h", "--bogus"] = { status := 1, out := .optionMessage, handed := none } := by decide
example : mainArgv fine ["--version", "--version"] = { status := 1, out := .optionMessage, handed := none } := by decide
example : mainArgv fine ["--version"] = { status := 0, out := .version, handed := none } := by decide
example : mainArgv fine [] = { status := 1, out := .usageError, handed := none } := by decide
-- ODDITY: under `-c` a second and a third free argument are accepted and ignored (the usage text says otherwise)
example : mainArgv fine ["-c", "a.hcl", "not-an-image", "not-a-number"] = { status := 0, out := .syntaxOk, handed := none } := by decide
-- ODDITY: with four free arguments the file is read first: an unreadable file gives the read error, not the usage text
example : mainArgv nofile ["a", "b", "c", "d"] = { status := 1, out := .readError, handed := none } := by decide
example : mainArgv fine ["a", "b", "c", "d"] = { status := 1, out := .usageError, handed := none } := by decide
-- the run, its options (quiet, debug, test, interactive, ungroup, trace) and its timeout
example : mainArgv fine ["a.hcl", "b.yo"] =
    { status := 0, out := .finalState, handed := some ⟨false, false, false, false, false, false, 9999⟩ } := by decide
example : mainArgv fine ["-qt", "a.hcl", "--trace-assignments", "b.yo", "+007", "-i"] =
    { status := 0, out := .finalState, handed := some ⟨true, false, true, true, false, true, 7⟩ } := by decide
example : (mainArgv fine ["a.hcl", "b.yo", "4294967295"]).handed.map (·.timeout) = some 4294967295 := by decide
example : mainArgv fine ["a.hcl", "b.yo", "4294967296"] = { status := 1, out := .badTimeout, handed := none } := by decide
example : mainArgv fine ["a.hcl", "b.yo", "٣"] = { status := 1, out := .badTimeout, handed := none } := by decide
example : mainArgv fine ["a.hcl", "b.yo", ""] = { status := 1, out := .badTimeout, handed := none } := by decide
example : mainArgv fine ["a.hcl", "b.yo.txt"] = { status := 1, out := .notYo, handed := none } := by decide
example : mainArgv fine ["a.hcl", "été.yo"] = { status := 0, out := .finalState, handed := some (runOptionsOf { given := [], free := [] } 9999) } := by decide
-- `--` does NOT commute with the options: before it `-c` is the flag, after it `-c` is the name of the image
example : mainArgv fine ["-c", "--", "a.hcl"] = { status := 0, out := .syntaxOk, handed := none } := by decide
example : mainArgv fine ["--", "-c", "a.hcl"] = { status := 1, out := .notYo, handed := none } := by decide
-- a numeral that begins with `-` can only be passed after `--`, and is then rejected as a timeout
example : mainArgv fine ["--", "a.hcl", "b.yo", "-1"] = { status := 1, out := .badTimeout, handed := none } := by decide

end C19Argv

#print axioms C19_argv_exit
#print axioms C19_argv_option_error
#print axioms C19_argv_option_error_anywhere
#print axioms C19_argv_option_twice
#print axioms C19_argv_timeout
#print axioms C19_argv_bad_timeout
#print axioms C19_argv_options_commute
#print axioms C19Argv.parse_error_iff
#print axioms C19Argv.parse_ok
#print axioms C19Argv.optPresent_iff
#print axioms C19Argv.isBad_iff
#print axioms C19Argv.help_present_iff
