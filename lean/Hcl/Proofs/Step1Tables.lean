import Hcl.Proofs.Accepted
open Rust

/-! What the tables of step 1 say about the statements: declared wires are needed, assigned names are assigned somewhere. -/

/-- `n` is declared by a `wire` statement -/
def DeclaredWire (stmts : List Stmt) (n : String) : Prop := ∃ ds, Stmt.wires ds ∈ stmts ∧ ∃ d ∈ ds, d.name = n

/-- `n` is a target of an assignment statement -/
def AssignedIn (stmts : List Stmt) (n : String) : Prop := ∃ as, Stmt.assigns as ∈ stmts ∧ ∃ a ∈ as, n ∈ a.names

section
variable (FN FO : List String)

theorem step1Const_needed (s : Step1) (d : ConstDecl) : (step1Const FN s d).needed = s.needed := rfl
theorem step1Name_needed (v : Ex) (s : Step1) (n : String) : (step1Name FO v s n).needed = s.needed := rfl

theorem step1Wire_needed (s : Step1) (d : WireDecl) (n : String) :
    n ∈ (step1Wire FN s d).needed ↔ n ∈ s.needed ∨ n = d.name := by
  unfold step1Wire
  simp only
  rw [mem_setInsert]
  rfl

theorem foldl_needed_eq {β : Type} (f : Step1 → β → Step1) (hf : ∀ s x, (f s x).needed = s.needed) :
    ∀ (l : List β) (s : Step1), (l.foldl f s).needed = s.needed
  | [], _ => rfl
  | x :: rest, s => by rw [List.foldl_cons, foldl_needed_eq f hf rest, hf]

theorem wires_fold_needed : ∀ (ds : List WireDecl) (s : Step1) (n : String),
    n ∈ (ds.foldl (step1Wire FN) s).needed ↔ n ∈ s.needed ∨ ∃ d ∈ ds, d.name = n
  | [], s, n => by simp
  | d :: rest, s, n => by
    rw [List.foldl_cons, wires_fold_needed rest, step1Wire_needed]
    constructor
    · rintro ((h | h) | ⟨d', hd', h⟩)
      · exact Or.inl h
      · exact Or.inr ⟨d, List.mem_cons_self, h.symm⟩
      · exact Or.inr ⟨d', List.mem_cons_of_mem _ hd', h⟩
    · rintro (h | ⟨d', hd', h⟩)
      · exact Or.inl (Or.inl h)
      · rcases List.mem_cons.mp hd' with rfl | h'
        · exact Or.inl (Or.inr h.symm)
        · exact Or.inr ⟨d', h', h⟩

theorem step1Stmt_needed (s : Step1) (st : Stmt) (n : String) :
    n ∈ (step1Stmt FN FO s st).needed ↔ n ∈ s.needed ∨ ∃ ds, st = .wires ds ∧ ∃ d ∈ ds, d.name = n := by
  cases st with
  | consts ds =>
    have : (step1Stmt FN FO s (.consts ds)).needed = s.needed := foldl_needed_eq _ (step1Const_needed FN) ds s
    rw [this]; simp
  | wires ds =>
    show n ∈ (ds.foldl (step1Wire FN) s).needed ↔ _
    rw [wires_fold_needed]
    simp
  | assigns as =>
    have : (step1Stmt FN FO s (.assigns as)).needed = s.needed := by
      apply foldl_needed_eq
      intro s a
      exact foldl_needed_eq _ (step1Name_needed FO a.value) a.names s
    rw [this]; simp
  | bank b => simp [step1Stmt]

theorem step1_fold_needed : ∀ (stmts : List Stmt) (s : Step1) (n : String),
    n ∈ (stmts.foldl (step1Stmt FN FO) s).needed ↔ n ∈ s.needed ∨ DeclaredWire stmts n
  | [], s, n => by simp [DeclaredWire]
  | st :: rest, s, n => by
    rw [List.foldl_cons, step1_fold_needed rest, step1Stmt_needed]
    unfold DeclaredWire
    constructor
    · rintro ((h | ⟨ds, rfl, hd⟩) | ⟨ds, hm, hd⟩)
      · exact Or.inl h
      · exact Or.inr ⟨ds, List.mem_cons_self, hd⟩
      · exact Or.inr ⟨ds, List.mem_cons_of_mem _ hm, hd⟩
    · rintro (h | ⟨ds, hm, hd⟩)
      · exact Or.inl (Or.inl h)
      · rcases List.mem_cons.mp hm with rfl | h'
        · exact Or.inl (Or.inr ⟨ds, rfl, hd⟩)
        · exact Or.inr ⟨ds, h', hd⟩

/-! the assigned names -/

theorem step1Name_assignments (v : Ex) (s : Step1) (name n : String) :
    (step1Name FO v s name).assignments.contains n = true ↔ s.assignments.contains n = true ∨ n = name := by
  unfold step1Name
  simp only
  rw [AMap.contains_insert]
  simp only [Bool.or_eq_true, beq_iff_eq]

theorem names_fold_assignments (v : Ex) : ∀ (names : List String) (s : Step1) (n : String),
    (names.foldl (step1Name FO v) s).assignments.contains n = true ↔ s.assignments.contains n = true ∨ n ∈ names
  | [], s, n => by simp
  | x :: rest, s, n => by
    rw [List.foldl_cons, names_fold_assignments v rest, step1Name_assignments]
    simp only [List.mem_cons]
    constructor
    · rintro ((h | h) | h)
      · exact Or.inl h
      · exact Or.inr (Or.inl h)
      · exact Or.inr (Or.inr h)
    · rintro (h | h | h)
      · exact Or.inl (Or.inl h)
      · exact Or.inl (Or.inr h)
      · exact Or.inr h

theorem assigns_fold_assignments : ∀ (as : List Assignment) (s : Step1) (n : String),
    (as.foldl (step1Assign FO) s).assignments.contains n = true ↔ s.assignments.contains n = true ∨ ∃ a ∈ as, n ∈ a.names
  | [], s, n => by simp
  | a :: rest, s, n => by
    rw [List.foldl_cons, assigns_fold_assignments rest]
    unfold step1Assign
    rw [names_fold_assignments]
    constructor
    · rintro ((h | h) | ⟨a', ha', h⟩)
      · exact Or.inl h
      · exact Or.inr ⟨a, List.mem_cons_self, h⟩
      · exact Or.inr ⟨a', List.mem_cons_of_mem _ ha', h⟩
    · rintro (h | ⟨a', ha', h⟩)
      · exact Or.inl (Or.inl h)
      · rcases List.mem_cons.mp ha' with rfl | h'
        · exact Or.inl (Or.inr h)
        · exact Or.inr ⟨a', h', h⟩

theorem foldl_assignments_eq {β : Type} (f : Step1 → β → Step1) (hf : ∀ s x, (f s x).assignments = s.assignments) :
    ∀ (l : List β) (s : Step1), (l.foldl f s).assignments = s.assignments
  | [], _ => rfl
  | x :: rest, s => by rw [List.foldl_cons, foldl_assignments_eq f hf rest, hf]

theorem step1Stmt_assignments (s : Step1) (st : Stmt) (n : String) :
    (step1Stmt FN FO s st).assignments.contains n = true ↔
      s.assignments.contains n = true ∨ ∃ as, st = .assigns as ∧ ∃ a ∈ as, n ∈ a.names := by
  cases st with
  | consts ds =>
    have : (step1Stmt FN FO s (.consts ds)).assignments = s.assignments := foldl_assignments_eq (step1Const FN) (fun _ _ => rfl) ds s
    rw [this]; simp
  | wires ds =>
    have : (step1Stmt FN FO s (.wires ds)).assignments = s.assignments := foldl_assignments_eq (step1Wire FN) (fun _ _ => rfl) ds s
    rw [this]; simp
  | assigns as =>
    show (as.foldl (step1Assign FO) s).assignments.contains n = true ↔ _
    rw [assigns_fold_assignments]
    simp
  | bank b => simp [step1Stmt]

theorem step1_fold_assignments : ∀ (stmts : List Stmt) (s : Step1) (n : String),
    (stmts.foldl (step1Stmt FN FO) s).assignments.contains n = true ↔ s.assignments.contains n = true ∨ AssignedIn stmts n
  | [], s, n => by simp [AssignedIn]
  | st :: rest, s, n => by
    rw [List.foldl_cons, step1_fold_assignments rest, step1Stmt_assignments]
    unfold AssignedIn
    constructor
    · rintro ((h | ⟨as, rfl, hd⟩) | ⟨as, hm, hd⟩)
      · exact Or.inl h
      · exact Or.inr ⟨as, List.mem_cons_self, hd⟩
      · exact Or.inr ⟨as, List.mem_cons_of_mem _ hm, hd⟩
    · rintro (h | ⟨as, hm, hd⟩)
      · exact Or.inl (Or.inl h)
      · rcases List.mem_cons.mp hm with rfl | h'
        · exact Or.inl (Or.inr ⟨as, rfl, hd⟩)
        · exact Or.inr ⟨as, h', hd⟩
end

/-- an accepted program assigns every name that step 1 recorded as needing an assignment -/
theorem Program_new_needed (fl : Flags) (cls : CharClass) (o : Orders) (stmts : List Stmt) (p : Program)
    (h : Program.new fl cls o y86FixedFunctions stmts = .ok p) :
    ∀ n ∈ (step1Of stmts).needed, (step1Of stmts).assignments.contains n = true := by
  unfold Program.new at h
  simp only at h
  generalize hs1 : List.foldl (step1Stmt _ _) (step1Init y86FixedFunctions) stmts = s1 at h
  have hs1' : step1Of stmts = s1 := hs1
  rw [hs1']
  split at h
  · simp at h
  · split at h
    · simp at h
    · rename_i constants hconst
      split at h
      · simp at h
      · rename_i herrs3
        simp only [Bool.not_eq_true', List.isEmpty_eq_false_iff, ne_eq, Decidable.not_not, List.append_eq_nil_iff] at herrs3
        intro n hn
        have he4 := herrs3.2
        rw [List.flatMap_eq_nil_iff] at he4
        have := he4 n (by rw [mem_foldl_setInsert]; exact Or.inl hn)
        by_cases hc : s1.assignments.contains n = true
        · exact hc
        · exfalso
          have hc' : s1.assignments.contains n = false := by simpa using hc
          rw [hc'] at this
          simp only [Bool.false_eq_true, if_false] at this
          split at this
          · cases this
          · split at this <;> cases this

/-! ### no name is assigned twice -/

/-- all targets of all assignment statements, in order -/
def allTargets (stmts : List Stmt) : List String :=
  stmts.flatMap fun st => match st with
    | .assigns as => as.flatMap (·.names)
    | _ => []

section
variable (FN FO : List String)

theorem step1Name_clean (v : Ex) (s : Step1) (name : String) (h : (step1Name FO v s name).errors = []) :
    s.errors = [] ∧ s.assigned.contains name = false := by
  unfold step1Name at h
  simp only [List.append_eq_nil_iff] at h
  refine ⟨h.1, ?_⟩
  cases hc : s.assigned.contains name with
  | false => rfl
  | true => rw [hc] at h; simp at h

theorem step1Name_assigned (v : Ex) (s : Step1) (name n : String) :
    n ∈ (step1Name FO v s name).assigned ↔ n ∈ s.assigned ∨ n = name := by
  unfold step1Name
  simp only
  exact mem_setInsert _ _ _

theorem names_fold_clean (v : Ex) : ∀ (names : List String) (s : Step1), (names.foldl (step1Name FO v) s).errors = [] →
    s.errors = [] ∧ names.Nodup ∧ (∀ n ∈ names, s.assigned.contains n = false) ∧
    ∀ n, n ∈ (names.foldl (step1Name FO v) s).assigned ↔ n ∈ s.assigned ∨ n ∈ names
  | [], s, h => by
    refine ⟨h, List.nodup_nil, ?_, by simp⟩
    intro n hn; cases hn
  | x :: rest, s, h => by
    rw [List.foldl_cons] at h ⊢
    obtain ⟨h1, h2, h3, h4⟩ := names_fold_clean v rest _ h
    obtain ⟨a1, a2⟩ := step1Name_clean FO v s x h1
    refine ⟨a1, ?_, ?_, ?_⟩
    · rw [List.nodup_cons]
      refine ⟨?_, h2⟩
      intro hx
      have := h3 x hx
      have hm : x ∈ (step1Name FO v s x).assigned := (step1Name_assigned FO v s x x).mpr (Or.inr rfl)
      rw [List.contains_eq_mem, decide_eq_false_iff_not] at this
      exact this hm
    · intro n hn
      rcases List.mem_cons.mp hn with rfl | hn'
      · exact a2
      · have := h3 n hn'
        rw [List.contains_eq_mem, decide_eq_false_iff_not] at this ⊢
        intro hm
        exact this ((step1Name_assigned FO v s x n).mpr (Or.inl hm))
    · intro n
      rw [h4, step1Name_assigned]
      simp only [List.mem_cons]
      constructor
      · rintro ((h | h) | h)
        · exact Or.inl h
        · exact Or.inr (Or.inl h)
        · exact Or.inr (Or.inr h)
      · rintro (h | h | h)
        · exact Or.inl (Or.inl h)
        · exact Or.inl (Or.inr h)
        · exact Or.inr h

theorem assigns_fold_clean : ∀ (as : List Assignment) (s : Step1), (as.foldl (step1Assign FO) s).errors = [] →
    s.errors = [] ∧ (as.flatMap (·.names)).Nodup ∧ (∀ n ∈ as.flatMap (·.names), s.assigned.contains n = false) ∧
    ∀ n, n ∈ (as.foldl (step1Assign FO) s).assigned ↔ n ∈ s.assigned ∨ n ∈ as.flatMap (·.names)
  | [], s, h => by
    refine ⟨h, List.nodup_nil, ?_, by simp⟩
    intro n hn; cases hn
  | a :: rest, s, h => by
    rw [List.foldl_cons] at h ⊢
    obtain ⟨h1, h2, h3, h4⟩ := assigns_fold_clean rest _ h
    unfold step1Assign at h1 h3 h4
    obtain ⟨a1, a2, a3, a4⟩ := names_fold_clean FO a.value a.names s h1
    refine ⟨a1, ?_, ?_, ?_⟩
    · rw [List.flatMap_cons, List.nodup_append]
      refine ⟨a2, h2, ?_⟩
      intro x hx y hy hxy
      subst hxy
      have := h3 x hy
      rw [List.contains_eq_mem, decide_eq_false_iff_not] at this
      exact this ((a4 x).mpr (Or.inr hx))
    · intro n hn
      rw [List.flatMap_cons, List.mem_append] at hn
      rcases hn with hn | hn
      · exact a3 n hn
      · have := h3 n hn
        rw [List.contains_eq_mem, decide_eq_false_iff_not] at this ⊢
        intro hm
        exact this ((a4 n).mpr (Or.inl hm))
    · intro n
      unfold step1Assign
      rw [h4, a4, List.flatMap_cons, List.mem_append]
      constructor
      · rintro ((h | h) | h)
        · exact Or.inl h
        · exact Or.inr (Or.inl h)
        · exact Or.inr (Or.inr h)
      · rintro (h | h | h)
        · exact Or.inl (Or.inl h)
        · exact Or.inl (Or.inr h)
        · exact Or.inr h

theorem foldl_keep {β : Type} (f : Step1 → β → Step1) (hf : ∀ s x, (f s x).assigned = s.assigned ∧ ((f s x).errors = [] → s.errors = [])) :
    ∀ (l : List β) (s : Step1), (l.foldl f s).assigned = s.assigned ∧ ((l.foldl f s).errors = [] → s.errors = [])
  | [], _ => ⟨rfl, id⟩
  | x :: rest, s => by
    rw [List.foldl_cons]
    obtain ⟨a, b⟩ := foldl_keep f hf rest (f s x)
    exact ⟨a.trans (hf s x).1, fun h => (hf s x).2 (b h)⟩

theorem step1Stmt_clean (s : Step1) (st : Stmt) (h : (step1Stmt FN FO s st).errors = []) :
    s.errors = [] ∧ (allTargets [st]).Nodup ∧ (∀ n ∈ allTargets [st], s.assigned.contains n = false) ∧
    ∀ n, n ∈ (step1Stmt FN FO s st).assigned ↔ n ∈ s.assigned ∨ n ∈ allTargets [st] := by
  have hdd : ∀ (s : Step1) (name : String), (checkDoubleDeclare FN s name).assigned = s.assigned ∧
      ((checkDoubleDeclare FN s name).errors = [] → s.errors = []) := by
    intro s name
    unfold checkDoubleDeclare
    refine ⟨rfl, ?_⟩
    simp only [List.append_eq_nil_iff]
    exact fun hh => hh.1
  cases st with
  | assigns as =>
    have := assigns_fold_clean FO as s h
    have e : allTargets [Stmt.assigns as] = as.flatMap (·.names) := by simp [allTargets]
    rw [e]
    exact this
  | consts ds =>
    obtain ⟨a, b⟩ := foldl_keep (step1Const FN) (fun s d => ⟨(hdd s d.name).1, fun hh => (hdd s d.name).2 hh⟩) ds s
    refine ⟨b h, by simp [allTargets], by simp [allTargets], ?_⟩
    intro n
    show n ∈ (ds.foldl (step1Const FN) s).assigned ↔ _
    rw [a]; simp [allTargets]
  | wires ds =>
    obtain ⟨a, b⟩ := foldl_keep (step1Wire FN) (fun s d => ⟨(hdd s d.name).1, fun hh => (hdd s d.name).2 hh⟩) ds s
    refine ⟨b h, by simp [allTargets], by simp [allTargets], ?_⟩
    intro n
    show n ∈ (ds.foldl (step1Wire FN) s).assigned ↔ _
    rw [a]; simp [allTargets]
  | bank b =>
    refine ⟨h, by simp [allTargets], by simp [allTargets], ?_⟩
    intro n; simp [allTargets, step1Stmt]

theorem step1_fold_clean : ∀ (stmts : List Stmt) (s : Step1), (stmts.foldl (step1Stmt FN FO) s).errors = [] →
    s.errors = [] ∧ (allTargets stmts).Nodup ∧ (∀ n ∈ allTargets stmts, s.assigned.contains n = false) ∧
    ∀ n, n ∈ (stmts.foldl (step1Stmt FN FO) s).assigned ↔ n ∈ s.assigned ∨ n ∈ allTargets stmts
  | [], s, h => ⟨h, by simp [allTargets], by simp [allTargets], by simp [allTargets]⟩
  | st :: rest, s, h => by
    rw [List.foldl_cons] at h ⊢
    obtain ⟨h1, h2, h3, h4⟩ := step1_fold_clean rest _ h
    obtain ⟨a1, a2, a3, a4⟩ := step1Stmt_clean FN FO s st h1
    have hsplit : allTargets (st :: rest) = allTargets [st] ++ allTargets rest := by simp [allTargets]
    rw [hsplit]
    refine ⟨a1, ?_, ?_, ?_⟩
    · rw [List.nodup_append]
      refine ⟨a2, h2, ?_⟩
      intro x hx y hy hxy
      subst hxy
      have := h3 x hy
      rw [List.contains_eq_mem, decide_eq_false_iff_not] at this
      exact this ((a4 x).mpr (Or.inr hx))
    · intro n hn
      rcases List.mem_append.mp hn with hn | hn
      · exact a3 n hn
      · have := h3 n hn
        rw [List.contains_eq_mem, decide_eq_false_iff_not] at this ⊢
        intro hm
        exact this ((a4 n).mpr (Or.inl hm))
    · intro n
      rw [h4, a4, List.mem_append]
      constructor
      · rintro ((h | h) | h)
        · exact Or.inl h
        · exact Or.inr (Or.inl h)
        · exact Or.inr (Or.inr h)
      · rintro (h | h | h)
        · exact Or.inl (Or.inl h)
        · exact Or.inl (Or.inr h)
        · exact Or.inr h
end

/-! ### no name is declared twice -/

/-- all names declared by `wire` and `const` statements, in order -/
def allDeclared (stmts : List Stmt) : List String :=
  stmts.flatMap fun st => match st with
    | .wires ds => ds.map (·.name)
    | .consts ds => ds.map (·.name)
    | _ => []

section
variable (FN FO : List String)

theorem checkDoubleDeclare_clean (s : Step1) (name : String) (h : (checkDoubleDeclare FN s name).errors = []) :
    s.errors = [] ∧ s.declared.contains name = false ∧ FN.contains name = false := by
  unfold checkDoubleDeclare at h
  simp only [List.append_eq_nil_iff] at h
  refine ⟨h.1, ?_, ?_⟩
  · cases hc : s.declared.contains name with
    | false => rfl
    | true => rw [hc] at h; simp at h
  · cases hc : s.declared.contains name with
    | true => rw [hc] at h; simp at h
    | false =>
      rw [hc] at h
      cases hf : FN.contains name with
      | false => rfl
      | true => rw [hf] at h; simp at h

theorem checkDoubleDeclare_declared (s : Step1) (name n : String) :
    n ∈ (checkDoubleDeclare FN s name).declared ↔ n ∈ s.declared ∨ n = name := by
  unfold checkDoubleDeclare
  simp only
  exact mem_setInsert _ _ _

/-- a fold of steps each of which declares one name -/
theorem decl_fold_clean {β : Type} (f : Step1 → β → Step1) (nm : β → String)
    (hf : ∀ s x, ((f s x).errors = [] → (checkDoubleDeclare FN s (nm x)).errors = []) ∧
      (f s x).declared = (checkDoubleDeclare FN s (nm x)).declared) :
    ∀ (l : List β) (s : Step1), (l.foldl f s).errors = [] →
    s.errors = [] ∧ (l.map nm).Nodup ∧ (∀ n ∈ l.map nm, s.declared.contains n = false ∧ FN.contains n = false) ∧
    ∀ n, n ∈ (l.foldl f s).declared ↔ n ∈ s.declared ∨ n ∈ l.map nm
  | [], s, h => by
    refine ⟨h, List.nodup_nil, ?_, by simp⟩
    intro n hn; cases hn
  | x :: rest, s, h => by
    rw [List.foldl_cons] at h ⊢
    obtain ⟨h1, h2, h3, h4⟩ := decl_fold_clean f nm hf rest _ h
    obtain ⟨a1, a2, a3⟩ := checkDoubleDeclare_clean FN s (nm x) ((hf s x).1 h1)
    have hdecl : ∀ n, n ∈ (f s x).declared ↔ n ∈ s.declared ∨ n = nm x := by
      intro n; rw [(hf s x).2]; exact checkDoubleDeclare_declared FN s (nm x) n
    refine ⟨a1, ?_, ?_, ?_⟩
    · rw [List.map_cons, List.nodup_cons]
      refine ⟨?_, h2⟩
      intro hx
      have := (h3 _ hx).1
      rw [List.contains_eq_mem, decide_eq_false_iff_not] at this
      exact this ((hdecl _).mpr (Or.inr rfl))
    · intro n hn
      rw [List.map_cons] at hn
      rcases List.mem_cons.mp hn with rfl | hn'
      · exact ⟨a2, a3⟩
      · refine ⟨?_, (h3 n hn').2⟩
        have := (h3 n hn').1
        rw [List.contains_eq_mem, decide_eq_false_iff_not] at this ⊢
        intro hm
        exact this ((hdecl n).mpr (Or.inl hm))
    · intro n
      rw [h4, hdecl, List.map_cons, List.mem_cons]
      constructor
      · rintro ((h | h) | h)
        · exact Or.inl h
        · exact Or.inr (Or.inl h)
        · exact Or.inr (Or.inr h)
      · rintro (h | h | h)
        · exact Or.inl (Or.inl h)
        · exact Or.inl (Or.inr h)
        · exact Or.inr h

theorem foldl_keep_declared {β : Type} (f : Step1 → β → Step1)
    (hf : ∀ s x, (f s x).declared = s.declared ∧ ((f s x).errors = [] → s.errors = [])) :
    ∀ (l : List β) (s : Step1), (l.foldl f s).declared = s.declared ∧ ((l.foldl f s).errors = [] → s.errors = [])
  | [], _ => ⟨rfl, id⟩
  | x :: rest, s => by
    rw [List.foldl_cons]
    obtain ⟨a, b⟩ := foldl_keep_declared f hf rest (f s x)
    exact ⟨a.trans (hf s x).1, fun h => (hf s x).2 (b h)⟩

theorem step1Stmt_decl_clean (s : Step1) (st : Stmt) (h : (step1Stmt FN FO s st).errors = []) :
    s.errors = [] ∧ (allDeclared [st]).Nodup ∧ (∀ n ∈ allDeclared [st], s.declared.contains n = false ∧ FN.contains n = false) ∧
    ∀ n, n ∈ (step1Stmt FN FO s st).declared ↔ n ∈ s.declared ∨ n ∈ allDeclared [st] := by
  cases st with
  | wires ds =>
    have e : allDeclared [Stmt.wires ds] = ds.map (·.name) := by simp [allDeclared]
    rw [e]
    exact decl_fold_clean FN (step1Wire FN) (·.name) (fun s d => ⟨fun hh => hh, rfl⟩) ds s h
  | consts ds =>
    have e : allDeclared [Stmt.consts ds] = ds.map (·.name) := by simp [allDeclared]
    rw [e]
    exact decl_fold_clean FN (step1Const FN) (·.name) (fun s d => ⟨fun hh => hh, rfl⟩) ds s h
  | assigns as =>
    have hname : ∀ (v : Ex) (s : Step1) (n : String), (step1Name FO v s n).declared = s.declared ∧
        ((step1Name FO v s n).errors = [] → s.errors = []) := by
      intro v s n
      refine ⟨rfl, ?_⟩
      unfold step1Name
      simp only [List.append_eq_nil_iff]
      exact fun hh => hh.1
    obtain ⟨a, b⟩ := foldl_keep_declared (step1Assign FO)
      (fun s a => foldl_keep_declared (step1Name FO a.value) (hname a.value) a.names s) as s
    refine ⟨b h, by simp [allDeclared], by simp [allDeclared], ?_⟩
    intro n
    show n ∈ (as.foldl (step1Assign FO) s).declared ↔ _
    rw [a]; simp [allDeclared]
  | bank b =>
    refine ⟨h, by simp [allDeclared], by simp [allDeclared], ?_⟩
    intro n; simp [allDeclared, step1Stmt]

theorem step1_fold_decl_clean : ∀ (stmts : List Stmt) (s : Step1), (stmts.foldl (step1Stmt FN FO) s).errors = [] →
    s.errors = [] ∧ (allDeclared stmts).Nodup ∧ (∀ n ∈ allDeclared stmts, s.declared.contains n = false ∧ FN.contains n = false) ∧
    ∀ n, n ∈ (stmts.foldl (step1Stmt FN FO) s).declared ↔ n ∈ s.declared ∨ n ∈ allDeclared stmts
  | [], s, h => ⟨h, by simp [allDeclared], by simp [allDeclared], by simp [allDeclared]⟩
  | st :: rest, s, h => by
    rw [List.foldl_cons] at h ⊢
    obtain ⟨h1, h2, h3, h4⟩ := step1_fold_decl_clean rest _ h
    obtain ⟨a1, a2, a3, a4⟩ := step1Stmt_decl_clean FN FO s st h1
    have hsplit : allDeclared (st :: rest) = allDeclared [st] ++ allDeclared rest := by simp [allDeclared]
    rw [hsplit]
    refine ⟨a1, ?_, ?_, ?_⟩
    · rw [List.nodup_append]
      refine ⟨a2, h2, ?_⟩
      intro x hx y hy hxy
      subst hxy
      have := (h3 x hy).1
      rw [List.contains_eq_mem, decide_eq_false_iff_not] at this
      exact this ((a4 x).mpr (Or.inr hx))
    · intro n hn
      rcases List.mem_append.mp hn with hn | hn
      · exact a3 n hn
      · refine ⟨?_, (h3 n hn).2⟩
        have := (h3 n hn).1
        rw [List.contains_eq_mem, decide_eq_false_iff_not] at this ⊢
        intro hm
        exact this ((a4 n).mpr (Or.inl hm))
    · intro n
      rw [h4, a4, List.mem_append]
      constructor
      · rintro ((h | h) | h)
        · exact Or.inl h
        · exact Or.inr (Or.inl h)
        · exact Or.inr (Or.inr h)
      · rintro (h | h | h)
        · exact Or.inl (Or.inl h)
        · exact Or.inl (Or.inr h)
        · exact Or.inr h
end

/-! ### the register banks recorded are the `register` statements -/

section
variable (FN FO : List String)

theorem foldl_banksRaw_eq {β : Type} (f : Step1 → β → Step1) (hf : ∀ s x, (f s x).banksRaw = s.banksRaw) :
    ∀ (l : List β) (s : Step1), (l.foldl f s).banksRaw = s.banksRaw
  | [], _ => rfl
  | x :: rest, s => by rw [List.foldl_cons, foldl_banksRaw_eq f hf rest, hf]

theorem step1Stmt_banksRaw (s : Step1) (st : Stmt) :
    (step1Stmt FN FO s st).banksRaw = s.banksRaw ++ (match st with | .bank b => [b] | _ => []) := by
  cases st with
  | consts ds => simp only [List.append_nil]; exact foldl_banksRaw_eq (step1Const FN) (fun _ _ => rfl) ds s
  | wires ds => simp only [List.append_nil]; exact foldl_banksRaw_eq (step1Wire FN) (fun _ _ => rfl) ds s
  | assigns as =>
    simp only [List.append_nil]
    exact foldl_banksRaw_eq (step1Assign FO) (fun s a => foldl_banksRaw_eq (step1Name FO a.value) (fun _ _ => rfl) a.names s) as s
  | bank b => rfl

theorem step1_fold_banksRaw : ∀ (stmts : List Stmt) (s : Step1),
    (stmts.foldl (step1Stmt FN FO) s).banksRaw = s.banksRaw ++ stmts.filterMap (fun st => match st with | .bank b => some b | _ => none)
  | [], s => by simp
  | st :: rest, s => by
    rw [List.foldl_cons, step1_fold_banksRaw rest, step1Stmt_banksRaw, List.append_assoc]
    congr 1
    cases st <;> simp
end

theorem step1Of_banksRaw (stmts : List Stmt) :
    (step1Of stmts).banksRaw = stmts.filterMap (fun st => match st with | .bank b => some b | _ => none) := by
  unfold step1Of
  rw [step1_fold_banksRaw]
  have : (step1Init y86FixedFunctions).banksRaw = [] := by decide +kernel
  rw [this, List.nil_append]
