"""C07 — a program that passes checking never fails or misbehaves at run time."""
from props import C19
import re
from props.common_prog import judge_prog

THEOREM_MODULES = ["Hcl.Theorems.C07", "Hcl.Tie.Ops", "Hcl.Theorems.FromText"]
THEOREMS = {"Hcl.Theorems.FromText": ["C07_from_text", "Parser.parseProgram_wf", "Lexer.constant_wf"],
            "Hcl.Tie.Ops": ["Tie.Ops.binopKind", "Tie.Ops.applyRawArms", "Tie.Ops.binopApplyText", "Tie.Ops.unopApplyText", "Tie.Ops.maskText"], "Hcl.Theorems.C07": ["Program_new_sound'", "C07_accepted", "Program_new_sound", "assignmentsToActions_sound", "C07_cycle", "C07_soundness",
                                 "C07_values_fit", "C07_expression", "execAction_sound", "processBanks_sound", "ev_correct",
                                 "GBuild.sort_spec", "check_err", "step3_facts", "resolveConstants_constOK", "banks_fold_ok"]}

RULE = ("S-EXPR and S-PROG (all profiles) as for C02/C01, plus the width-mutated S-EXPR stream (programs at the edge of "
        "acceptance). Oracle: an accepted program's run ends every cycle with 'ok' or an explicit DivideByZero report — "
        "never a panic, RuntimeMismatchedWidths, NoBitWidth or UndeclaredWireRead — and every wire value printed fits "
        "its printed width. distinct = distinct program texts; non-trivial = accepted programs.")

_val = re.compile(r"=(\d+)/(\d+|u)")


def judge(req, impl, model, spec):
    j = judge_prog(req, impl, model, spec)
    if impl.startswith("ok"):
        m = re.search(r"end=(\S+)", impl)
        if m and m.group(1) not in ("ok", "DivideByZero"):
            j["oracle"] = False
            j["what"] = "accepted program failed at run time with " + m.group(1)
        for v, w in _val.findall(impl):
            bits = 128 if w == "u" else int(w)
            if int(v) >> bits:
                j["oracle"] = False
                j["what"] = "value %s does not fit width %s" % (v, w)
                break
    else:
        j["key"] = None
    return j


def streams(tier, seed):
    q = tier == "quick"
    out = [{"name": "expr", "stream": "expr", "count": 2500 if q else 100000, "judge": judge},
           {"name": "expr-mutated", "stream": "expr-mutated", "count": 2500 if q else 100000, "judge": judge}]
    for p in ("dag", "banks", "regfile", "memory", "status"):
        out.append({"name": "prog-" + p, "stream": "prog", "count": 120 if q else 4000, "extra": (p,), "judge": judge})
    # programs with one planted fault: what "passes checking" means is part of the property
    out.append({"name": "prog-fault", "stream": "prog-fault", "count": 400 if q else 15000, "judge": judge})
    # what the user sees goes through the command line and the two files: the real binary on accepted, rejected, big, not-UTF-8, bare-CR files, good and malformed images, all options and TIMEOUT forms (as in C19)
    out.append({"name": "cli", "stream": "cli", "count": 200 if q else 5000, "pygen": C19.pygen, "judge": C19.judge})
    return out
