import Hcl.Proofs.ActionsValid
import Hcl.Proofs.NoPanicStages
import Hcl.Proofs.SortVerdict
open Rust

/-! Whether `assignments_to_actions` accepts does not depend on the iteration orders. -/

/-- what the loop demands of one name, whatever the state of the loop -/
def nameOK (fl : Flags) (assignments : AMap Ex) (widths : AMap Width) (constants : AMap WireValue)
    (byOutput : AMap FixedFunction) (name : String) : Bool :=
  match assignments.get? name with
  | some expr =>
    match widths.get? name with
    | some w =>
      match check fl widths.toCtx constants.toEnv expr with
      | .ok ew => (w.combine ew).isSome
      | .error _ => false
    | none => false
  | none => (byOutput.get? name).isSome

section
variable (fl : Flags) (assignments : AMap Ex) (widths : AMap Width) (declared : List String)
  (constants : AMap WireValue) (byOutput : AMap FixedFunction)

theorem loopStep_clean_nameOK (st : LoopState) (name : String)
    (hclean : (loopStep fl assignments widths declared constants byOutput st name).Clean) :
    nameOK fl assignments widths constants byOutput name = true := by
  unfold nameOK
  cases h1 : assignments.get? name with
  | some expr =>
    cases h2 : widths.get? name with
    | none =>
      exfalso
      unfold loopStep LoopState.Clean at hclean
      simp only [h1, h2] at hclean
      split at hclean <;> simp at hclean
    | some w =>
      cases h3 : check fl widths.toCtx constants.toEnv expr with
      | error ds =>
        exfalso
        unfold loopStep LoopState.Clean at hclean
        simp only [h1, h2, h3] at hclean
        have hds : ds ≠ [] := check_err fl _ _ expr ds h3
        split at hclean <;> simp_all
      | ok ew =>
        cases h4 : w.combine ew with
        | some _ => simp only [h3, h4]; rfl
        | none =>
          exfalso
          unfold loopStep LoopState.Clean at hclean
          simp only [h1, h2, h3, h4] at hclean
          split at hclean <;> simp_all
  | none =>
    cases h2 : byOutput.get? name with
    | none =>
      exfalso
      unfold loopStep LoopState.Clean at hclean
      simp only [h1, h2] at hclean
      split at hclean <;> simp_all [setInsert_ne_nil]
    | some f => rfl

theorem actionsLoop_nameOK (names : List String) (st : LoopState)
    (hclean : (actionsLoop fl assignments widths declared constants byOutput names st).Clean) :
    ∀ n ∈ names, nameOK fl assignments widths constants byOutput n = true := by
  induction names generalizing st with
  | nil => intro n hn; cases hn
  | cons name rest ih =>
    have hstep : actionsLoop fl assignments widths declared constants byOutput (name :: rest) st =
        actionsLoop fl assignments widths declared constants byOutput rest
          (loopStep fl assignments widths declared constants byOutput st name) := by
      simp [actionsLoop]
    rw [hstep] at hclean
    have hc1 := actionsLoop_clean_back fl assignments widths declared constants byOutput rest _ hclean
    intro n hn
    rcases List.mem_cons.mp hn with h | h
    · subst h; exact loopStep_clean_nameOK fl assignments widths declared constants byOutput st n hc1
    · exact ih _ hclean n h

/-- a turn of the loop in which the `assert!`s hold and the name meets the demands reports nothing -/
theorem loopStep_ok (st : LoopState) (name : String)
    (hrefs : ∀ e, assignments.get? name = some e → ∀ r ∈ refs e, r ∈ st.covered)
    (hfix : ∀ f, assignments.get? name = none → byOutput.get? name = some f → ∀ i ∈ f.inWires.map (·.1), i ∈ st.covered)
    (hok : nameOK fl assignments widths constants byOutput name = true) (hs : st.Clean) :
    (loopStep fl assignments widths declared constants byOutput st name).Clean := by
  unfold nameOK at hok
  unfold LoopState.Clean at hs ⊢
  unfold loopStep
  cases h1 : assignments.get? name with
  | some expr =>
    rw [h1] at hok
    have hall : (refs expr).all st.covered.contains = true := by
      rw [List.all_eq_true]
      intro r hr
      simpa using hrefs expr h1 r hr
    simp only [hall, if_true]
    cases h2 : widths.get? name with
    | none => rw [h2] at hok; cases hok
    | some w =>
      rw [h2] at hok
      simp only at hok ⊢
      cases h3 : check fl widths.toCtx constants.toEnv expr with
      | error ds => rw [h3] at hok; cases hok
      | ok ew =>
        rw [h3] at hok
        simp only at hok ⊢
        cases h4 : w.combine ew with
        | none => rw [h4] at hok; cases hok
        | some _ => exact hs
  | none =>
    rw [h1] at hok
    simp only at hok ⊢
    cases h2 : byOutput.get? name with
    | some f =>
      have hall : (f.inWires.map (·.1)).all st.covered.contains = true := by
        rw [List.all_eq_true]
        intro i hi
        simpa using hfix f h1 h2 i hi
      simp only [hall, if_true]
      exact hs
    | none => rw [h2] at hok; cases hok

theorem actionsLoop_clean_of : ∀ (names : List String) (st : LoopState),
    (∀ pre x post, names = pre ++ x :: post →
      (∀ e, assignments.get? x = some e → ∀ r ∈ refs e, r ∈ st.covered ∨ r ∈ pre) ∧
      (∀ f, assignments.get? x = none → byOutput.get? x = some f → ∀ i ∈ f.inWires.map (·.1), i ∈ st.covered ∨ i ∈ pre)) →
    (∀ n ∈ names, nameOK fl assignments widths constants byOutput n = true) → st.Clean →
    (actionsLoop fl assignments widths declared constants byOutput names st).Clean
  | [], st, _, _, hs => hs
  | name :: rest, st, hord, hok, hs => by
    have hstep : actionsLoop fl assignments widths declared constants byOutput (name :: rest) st =
        actionsLoop fl assignments widths declared constants byOutput rest
          (loopStep fl assignments widths declared constants byOutput st name) := by
      simp [actionsLoop]
    rw [hstep]
    obtain ⟨h0a, h0b⟩ := hord [] name rest rfl
    have hr0 : ∀ e, assignments.get? name = some e → ∀ r ∈ refs e, r ∈ st.covered :=
      fun e he r hr => by rcases h0a e he r hr with h | h; exact h; simp at h
    have hf0 : ∀ f, assignments.get? name = none → byOutput.get? name = some f → ∀ i ∈ f.inWires.map (·.1), i ∈ st.covered :=
      fun f h1 h2 i hi => by rcases h0b f h1 h2 i hi with h | h; exact h; simp at h
    have hc := loopStep_ok fl assignments widths declared constants byOutput st name hr0 hf0 (hok name List.mem_cons_self) hs
    obtain ⟨_, hcov⟩ := loopStep_np fl widths constants assignments declared byOutput st name hr0 hf0
      (by rw [hs.1]; exact noPanic_nil)
    apply actionsLoop_clean_of rest _ _ (fun n hn => hok n (List.mem_cons_of_mem _ hn)) hc
    intro pre x post hsplit
    obtain ⟨ha, hb⟩ := hord (name :: pre) x post (by rw [hsplit]; rfl)
    constructor
    · intro e he r hr
      rcases ha e he r hr with h | h
      · exact Or.inl ((hcov r).mpr (Or.inl h))
      · rcases List.mem_cons.mp h with h2 | h2
        · exact Or.inl ((hcov r).mpr (Or.inr h2))
        · exact Or.inr h2
    · intro f h1 h2 i hi
      rcases hb f h1 h2 i hi with h | h
      · exact Or.inl ((hcov i).mpr (Or.inl h))
      · rcases List.mem_cons.mp h with h3 | h3
        · exact Or.inl ((hcov i).mpr (Or.inr h3))
        · exact Or.inr h3
end

/-- **what one iteration order accepts, every order accepts** -/
theorem assignmentsToActions_verdict (fl : Flags) (o₁ o₂ : Orders) (assignments : AMap Ex) (widths : AMap Width)
    (known : List String) (fixed : List FixedFunction) (declared : List String) (constants : AMap WireValue)
    (acts₁ : List Action) (ho₁ : OrdersOK o₁) (ho₂ : OrdersOK o₂) (ht : FixedTableOK fixed) (hk : assignments.keys.Nodup)
    (h₁ : assignmentsToActions fl o₁ assignments widths known fixed declared constants = .ok acts₁) :
    ∃ acts₂, assignmentsToActions fl o₂ assignments widths known fixed declared constants = .ok acts₂ := by
  unfold assignmentsToActions at h₁ ⊢
  simp only at h₁ ⊢
  obtain ⟨g0wf, g0nodes, g0edges⟩ := assignGraph_spec assignments known hk
  generalize hg0 : assignGraph assignments known = g0 at h₁ g0wf g0nodes g0edges ⊢
  generalize hpre : fixed.foldl (preprocessOne fl widths constants assignments known) { graph := g0 } = pre at h₁ ⊢
  by_cases hpe : pre.errors.isEmpty = true
  · have hpe' : pre.errors = [] := by simpa using hpe
    simp only [hpe, Bool.not_true, Bool.false_eq_true, if_false] at h₁ ⊢
    have hg0c : ∀ e ∈ g0.edges, assignments.contains e.2 = true := by
      intro e he
      obtain ⟨ex, hm, _⟩ := (g0edges e.1 e.2).mp he
      exact (AMap.contains_iff_mem_keys _ _).mpr (List.mem_map.mpr ⟨(e.2, ex), hm, rfl⟩)
    have hinit : PreFacts assignments known g0 [] ({ graph := g0 } : PreState) :=
      { noOut := by intro f hf; simp at hf
        byKeys := by simp [AMap.keys]
        byOut := by intro n f hf; simp at hf
        wf := g0wf
        nodes := fun n hn => hn
        edges := fun e he => Or.inl he
        noOutSub := List.Sublist.refl _
        edgesG0 := fun e he => he
        edgesFixed := by intro n f hf; simp at hf }
    have hpf := preprocess_fold_facts fl widths constants assignments known fixed ht g0 hg0c fixed [] _ (by simp) hinit
      (by rw [hpre]; exact hpe')
    rw [hpre] at hpf
    rcases pre.graph.sort_spec o₁ hpf.wf ho₁ with ⟨order₁, hso₁, _, hcover₁, _⟩ | ⟨c, hsc, _⟩
    · rcases pre.graph.sort_spec o₂ hpf.wf ho₂ with ⟨order₂, hso₂, _, hcover₂, hordered⟩ | ⟨c, hsc, _⟩
      · rw [hso₁] at h₁; rw [hso₂]
        simp only at h₁ ⊢
        have hclean₁ : (actionsLoop fl assignments widths declared constants pre.info.byOutput order₁ { covered := known }).Clean := by
          generalize actionsLoop fl assignments widths declared constants pre.info.byOutput order₁ { covered := known } = st₁ at h₁
          split at h₁
          · rename_i herr
            have : st₁.errors ++ st₁.seenUndeclared.map (fun n => (⟨.UnsetUndeclaredWire, [n]⟩ : Diag)) = [] := by simpa using herr
            rw [List.append_eq_nil_iff] at this
            exact ⟨this.1, by simpa using this.2⟩
          · simp at h₁
        have hok := actionsLoop_nameOK fl assignments widths declared constants pre.info.byOutput order₁ _ hclean₁
        have hclean₂ : (actionsLoop fl assignments widths declared constants pre.info.byOutput order₂ { covered := known }).Clean := by
          apply actionsLoop_clean_of fl assignments widths declared constants pre.info.byOutput order₂ _ _
            (fun n hn => hok n ((hcover₁ n).mpr ((hcover₂ n).mp hn))) ⟨rfl, rfl⟩
          intro pfx x post hsplit
          constructor
          · intro e he r hr
            by_cases hkn : known.contains r = true
            · left; simpa using hkn
            · right
              have hkn' : known.contains r = false := by simpa using hkn
              have hedge : (r, x) ∈ g0.edges := (g0edges r x).mpr ⟨e, AMap.mem_of_get? _ _ _ he, hr, hkn'⟩
              exact hordered pfx x post hsplit r (hpf.edgesG0 _ hedge)
          · intro f _ h2 i hi
            right
            exact hordered pfx x post hsplit i (hpf.edgesFixed x f (AMap.mem_of_get? _ _ _ h2) i hi)
        generalize actionsLoop fl assignments widths declared constants pre.info.byOutput order₂ { covered := known } = st₂ at hclean₂
        refine ⟨st₂.result ++ pre.info.noOutput.map (·.action), ?_⟩
        rw [hclean₂.1, hclean₂.2]
        simp
      · exfalso
        obtain ⟨c', hc'⟩ := (pre.graph.sort_verdict o₁ o₂ hpf.wf ho₁ ho₂).mpr ⟨c, hsc⟩
        rw [hso₁] at hc'; cases hc'
    · rw [hsc] at h₁; simp at h₁
  · simp only [hpe] at h₁
    simp at h₁

/-! ### the diagnostics of the loop do not depend on the order -/

/-- what the loop reports for one name, whatever the state of the loop (when the `assert!`s hold) -/
def nameErrs (fl : Flags) (assignments : AMap Ex) (widths : AMap Width) (declared : List String) (constants : AMap WireValue)
    (byOutput : AMap FixedFunction) (name : String) : List Diag :=
  match assignments.get? name with
  | some expr =>
    match widths.get? name with
    | some w =>
      match check fl widths.toCtx constants.toEnv expr with
      | .ok ew => (match w.combine ew with
        | some _ => []
        | none => [(⟨.MismatchedWireWidths, [name]⟩ : Diag)])
      | .error ds => ds
    | none => [⟨.UndeclaredWireAssigned, [name]⟩]
  | none =>
    match byOutput.get? name with
    | some _ => []
    | none => if declared.contains name then [⟨.UnsetWire, [name]⟩] else []

/-- the names the loop finds neither assigned, driven by a component, nor declared -/
def nameUndecl (assignments : AMap Ex) (declared : List String) (byOutput : AMap FixedFunction) (name : String) : Bool :=
  (assignments.get? name).isNone && (byOutput.get? name).isNone && !declared.contains name

section
variable (fl : Flags) (assignments : AMap Ex) (widths : AMap Width) (declared : List String)
  (constants : AMap WireValue) (byOutput : AMap FixedFunction)

theorem loopStep_errs (st : LoopState) (name : String)
    (hrefs : ∀ e, assignments.get? name = some e → ∀ r ∈ refs e, r ∈ st.covered)
    (hfix : ∀ f, assignments.get? name = none → byOutput.get? name = some f → ∀ i ∈ f.inWires.map (·.1), i ∈ st.covered) :
    (loopStep fl assignments widths declared constants byOutput st name).errors =
      st.errors ++ nameErrs fl assignments widths declared constants byOutput name ∧
    (loopStep fl assignments widths declared constants byOutput st name).seenUndeclared =
      (if nameUndecl assignments declared byOutput name then setInsert st.seenUndeclared name else st.seenUndeclared) := by
  unfold loopStep nameErrs nameUndecl
  cases h1 : assignments.get? name with
  | some expr =>
    have hall : (refs expr).all st.covered.contains = true := by
      rw [List.all_eq_true]
      intro r hr
      simpa using hrefs expr h1 r hr
    simp only [hall, if_true, Option.isNone_some, Bool.false_and, Bool.false_eq_true, if_false]
    cases h2 : widths.get? name with
    | none => exact ⟨rfl, rfl⟩
    | some w =>
      simp only
      cases h3 : check fl widths.toCtx constants.toEnv expr with
      | error ds => exact ⟨rfl, rfl⟩
      | ok ew =>
        simp only
        cases h4 : w.combine ew with
        | none => exact ⟨rfl, rfl⟩
        | some _ => exact ⟨by simp, rfl⟩
  | none =>
    simp only [Option.isNone_none, Bool.true_and]
    cases h2 : byOutput.get? name with
    | some f =>
      have hall : (f.inWires.map (·.1)).all st.covered.contains = true := by
        rw [List.all_eq_true]
        intro i hi
        simpa using hfix f h1 h2 i hi
      simp only [hall, if_true, Option.isNone_some, Bool.false_and, Bool.false_eq_true, if_false]
      exact ⟨by simp, trivial⟩
    | none =>
      simp only [Option.isNone_none, Bool.true_and]
      by_cases hd : declared.contains name = true
      · simp only [hd, if_true, Bool.not_true, Bool.false_eq_true, if_false]
        simp
      · have hd' : declared.contains name = false := by simpa using hd
        simp only [hd', Bool.false_eq_true, if_false, Bool.not_false, if_true]
        exact ⟨by simp, trivial⟩

theorem actionsLoop_errs : ∀ (names : List String) (st : LoopState),
    (∀ pre x post, names = pre ++ x :: post →
      (∀ e, assignments.get? x = some e → ∀ r ∈ refs e, r ∈ st.covered ∨ r ∈ pre) ∧
      (∀ f, assignments.get? x = none → byOutput.get? x = some f → ∀ i ∈ f.inWires.map (·.1), i ∈ st.covered ∨ i ∈ pre)) →
    (actionsLoop fl assignments widths declared constants byOutput names st).errors =
      st.errors ++ names.flatMap (nameErrs fl assignments widths declared constants byOutput) ∧
    (actionsLoop fl assignments widths declared constants byOutput names st).seenUndeclared =
      (names.filter (nameUndecl assignments declared byOutput)).foldl setInsert st.seenUndeclared
  | [], st, _ => by simp [actionsLoop]
  | name :: rest, st, hord => by
    have hstep : actionsLoop fl assignments widths declared constants byOutput (name :: rest) st =
        actionsLoop fl assignments widths declared constants byOutput rest
          (loopStep fl assignments widths declared constants byOutput st name) := by
      simp [actionsLoop]
    rw [hstep]
    obtain ⟨h0a, h0b⟩ := hord [] name rest rfl
    have hr0 : ∀ e, assignments.get? name = some e → ∀ r ∈ refs e, r ∈ st.covered :=
      fun e he r hr => by rcases h0a e he r hr with h | h; exact h; simp at h
    have hf0 : ∀ f, assignments.get? name = none → byOutput.get? name = some f → ∀ i ∈ f.inWires.map (·.1), i ∈ st.covered :=
      fun f h1 h2 i hi => by rcases h0b f h1 h2 i hi with h | h; exact h; simp at h
    obtain ⟨e1, e2⟩ := loopStep_errs fl assignments widths declared constants byOutput st name hr0 hf0
    have hcov : ∀ n, n ∈ (loopStep fl assignments widths declared constants byOutput st name).covered ↔ n ∈ st.covered ∨ n = name := by
      intro n
      unfold loopStep
      simp only
      repeat' split
      all_goals exact mem_setInsert _ _ _
    obtain ⟨a1, a2⟩ := actionsLoop_errs rest (loopStep fl assignments widths declared constants byOutput st name) (by
      intro pre x post hsplit
      obtain ⟨ha, hb⟩ := hord (name :: pre) x post (by rw [hsplit]; rfl)
      constructor
      · intro e he r hr
        rcases ha e he r hr with h | h
        · exact Or.inl ((hcov r).mpr (Or.inl h))
        · rcases List.mem_cons.mp h with h2 | h2
          · exact Or.inl ((hcov r).mpr (Or.inr h2))
          · exact Or.inr h2
      · intro f h1 h2 i hi
        rcases hb f h1 h2 i hi with h | h
        · exact Or.inl ((hcov i).mpr (Or.inl h))
        · rcases List.mem_cons.mp h with h3 | h3
          · exact Or.inl ((hcov i).mpr (Or.inr h3))
          · exact Or.inr h3)
    refine ⟨?_, ?_⟩
    · rw [a1, e1, List.flatMap_cons, List.append_assoc]
    · rw [a2, e2, List.filter_cons]
      split <;> rfl
end

/-- **what acceptance demands of every assignment**: its target has a width, the width checker accepts its expression,
    and the two widths are compatible -/
theorem assignmentsToActions_rules (fl : Flags) (o : Orders) (assignments : AMap Ex) (widths : AMap Width)
    (known : List String) (fixed : List FixedFunction) (declared : List String) (constants : AMap WireValue)
    (acts : List Action) (ho : OrdersOK o) (ht : FixedTableOK fixed) (hk : assignments.keys.Nodup)
    (h : assignmentsToActions fl o assignments widths known fixed declared constants = .ok acts) :
    ∀ n e, assignments.get? n = some e → ∃ w ew, widths.get? n = some w ∧
      check fl widths.toCtx constants.toEnv e = .ok ew ∧ (w.combine ew).isSome = true := by
  unfold assignmentsToActions at h
  simp only at h
  obtain ⟨g0wf, g0nodes, g0edges⟩ := assignGraph_spec assignments known hk
  generalize hg0 : assignGraph assignments known = g0 at h g0wf g0nodes g0edges
  generalize hpre : fixed.foldl (preprocessOne fl widths constants assignments known) { graph := g0 } = pre at h
  by_cases hpe : pre.errors.isEmpty = true
  · have hpe' : pre.errors = [] := by simpa using hpe
    simp only [hpe, Bool.not_true, Bool.false_eq_true, if_false] at h
    have hg0c : ∀ e ∈ g0.edges, assignments.contains e.2 = true := by
      intro e he
      obtain ⟨ex, hm, _⟩ := (g0edges e.1 e.2).mp he
      exact (AMap.contains_iff_mem_keys _ _).mpr (List.mem_map.mpr ⟨(e.2, ex), hm, rfl⟩)
    have hinit : PreFacts assignments known g0 [] ({ graph := g0 } : PreState) :=
      { noOut := by intro f hf; simp at hf
        byKeys := by simp [AMap.keys]
        byOut := by intro n f hf; simp at hf
        wf := g0wf
        nodes := fun n hn => hn
        edges := fun e he => Or.inl he
        noOutSub := List.Sublist.refl _
        edgesG0 := fun e he => he
        edgesFixed := by intro n f hf; simp at hf }
    have hpf := preprocess_fold_facts fl widths constants assignments known fixed ht g0 hg0c fixed [] _ (by simp) hinit
      (by rw [hpre]; exact hpe')
    rw [hpre] at hpf
    rcases pre.graph.sort_spec o hpf.wf ho with ⟨order, hso, _, hcover, _⟩ | ⟨c, hsc, _⟩
    · rw [hso] at h
      simp only at h
      have hclean : (actionsLoop fl assignments widths declared constants pre.info.byOutput order { covered := known }).Clean := by
        generalize actionsLoop fl assignments widths declared constants pre.info.byOutput order { covered := known } = st at h
        split at h
        · rename_i herr
          have : st.errors ++ st.seenUndeclared.map (fun n => (⟨.UnsetUndeclaredWire, [n]⟩ : Diag)) = [] := by simpa using herr
          rw [List.append_eq_nil_iff] at this
          exact ⟨this.1, by simpa using this.2⟩
        · simp at h
      have hok := actionsLoop_nameOK fl assignments widths declared constants pre.info.byOutput order _ hclean
      intro n e hne
      have hn : n ∈ order := by
        rw [hcover]
        exact hpf.nodes n (g0nodes n (List.mem_map.mpr ⟨(n, e), AMap.mem_of_get? _ _ _ hne, rfl⟩))
      have := hok n hn
      unfold nameOK at this
      rw [hne] at this
      simp only at this
      cases hw : widths.get? n with
      | none => rw [hw] at this; cases this
      | some w =>
        rw [hw] at this
        simp only at this
        cases hc : check fl widths.toCtx constants.toEnv e with
        | error ds => rw [hc] at this; cases this
        | ok ew =>
          rw [hc] at this
          exact ⟨w, ew, rfl, rfl, this⟩
    · rw [hsc] at h; simp at h
  · simp only [hpe] at h
    simp at h
