//! Correspondence streams built from the generators.
use crate::gen;
use crate::proggen::{self, Profile};
use crate::progrun::{run_program, run_program_rep, run_to_end};
use crate::rng::Rng;

type Emit<'a> = &'a mut dyn FnMut(String, String);

/// S-EXPR: one type-directed expression assigned to a wire, operands driven by constants, one cycle.
pub fn expr(rng: &mut Rng, count: u64, mutate: bool, emit: Emit) {
    for _ in 0..count {
        let depth = rng.range(1, 5) as u32;
        let (prog, sc) = gen::expr_program(rng, depth, mutate);
        let tags = if sc.counts.contains_key("nested-case-condition") { "(tags nested-case-condition) " } else { "" };
        let out = run_program(&prog.text, 1, &[], &format!("{}(text {})", tags, sexp_escape(&prog.text)));
        match out.request {
            Some(req) => emit(req, out.result),
            None => emit(format!("(noparse {})", sexp_escape(&prog.text)), out.result),
        }
    }
}

/// program text as a single atom: whitespace and parentheses are replaced so that the S-expression
/// reader of the driver skips it (it is there for the human reading a replay)
pub fn sexp_escape(text: &str) -> String {
    text.chars().map(|c| match c { ' ' | '\t' | '\r' => '␣', '\n' => '⏎', '(' => '⦅', ')' => '⦆', c => c }).collect()
}

pub fn profile_of(name: &str) -> Profile {
    match name { "banks" => Profile::Banks, "regfile" => Profile::RegFile, "memory" => Profile::Memory,
                 "status" => Profile::Status, _ => Profile::Dag }
}

/// S-PROG: whole programs, stepped several cycles
pub fn prog(rng: &mut Rng, count: u64, profile: &str, emit: Emit) {
    for _ in 0..count {
        let g = proggen::program(rng, profile_of(profile));
        let text = if rng.chance(1, 3) { proggen::render_program_decorated(rng, &g.stmts) } else { proggen::render_program(&g.stmts) };
        let repeats: u32 = std::env::var("VERIF_REPEATS").ok().and_then(|x| x.parse().ok()).unwrap_or(4);
        let out = run_program_rep(&text, g.cycles, &g.mem, &format!("(tags {}) (text {})", g.tags.join(" "), sexp_escape(&text)), repeats);
        match out.request {
            Some(req) => emit(req, out.result),
            None => emit(format!("(noparse {})", sexp_escape(&text)), out.result),
        }
    }
}

/// the program of one `prog-fault` / `prog-loop` / `prog-multi` case: a generated program with the fault planted, what was
/// planted and the name concerned
pub fn faulty_program(rng: &mut Rng, kind: &str) -> (proggen::Generated, &'static str, String) {
    let profile = *rng.pick(&[Profile::Dag, Profile::Banks, Profile::RegFile, Profile::Memory]);
    let mut g = proggen::program(rng, profile);
    let (what, name) = if kind == "loop" { proggen::inject_loop(rng, &mut g) }
        else if kind == "multi" {
            // two or three independent faults in different expressions: all of them must be reported, in every build
            let pool: [&str; 6] = ["wire mfc:8; mfc = mfa & mfb;", "wire mfd:1; mfd = mfa && mfb;", "wire mfe:8; mfe = mfa[4..2];",
                "wire mff:8; mff = ghostwire + 1;", "wire mfg:8; mfg = (mfa .. 3);", "wire mfh:8; mfh = [ mfa == 1 : mfb; 1 : mfa ];"];
            let mut idx: Vec<usize> = (0..pool.len()).collect();
            rng.shuffle(&mut idx);
            let n = rng.range(2, 3) as usize;
            // now and then a long batch of diagnostics of one kind (more than ten wires never assigned, or read without
            // being declared): every one of them is reported, whatever order the tables are walked in
            if rng.chance(1, 6) {
                let many = rng.range(11, 24);
                let undeclared = rng.chance(1, 2);
                let mut text = String::new();
                for i in 0..many {
                    if undeclared { text.push_str(&format!("wire mq{}:8; mq{} = ghost_q{} + 1; ", i, i, i)); }
                    else { text.push_str(&format!("wire mq{}:8; ", i)); }
                }
                let atq = rng.below(g.stmts.len() as u64 + 1) as usize;
                g.stmts.insert(atq, proggen::Stmt::Raw(text));
            }
            let at0 = rng.below(g.stmts.len() as u64 + 1) as usize;
            g.stmts.insert(at0, proggen::Stmt::Raw(String::from("wire mfa:8, mfb:4; mfa = 1; mfb = 2;")));
            for k in 0..n {
                let at = rng.below(g.stmts.len() as u64 + 1) as usize;
                g.stmts.insert(at, proggen::Stmt::Raw(String::from(pool[idx[k]])));
            }
            ("none", String::from("-"))
        }
        else { proggen::inject_fault(rng, &mut g) };
    (g, what, name)
}

/// S-PROG with one injected fault (C09) or loop (C10); the injected name is passed along
pub fn prog_faulty(rng: &mut Rng, count: u64, kind: &str, emit: Emit) {
    for _ in 0..count {
        let (g, what, name) = faulty_program(rng, kind);
        let text = proggen::render_program(&g.stmts);
        let repeats: u32 = std::env::var("VERIF_REPEATS").ok().and_then(|x| x.parse().ok()).unwrap_or(4);
        let out = run_program_rep(&text, 2, &g.mem, &format!("(inject {} {}) (text {})", what, name, sexp_escape(&text)), repeats);
        match out.request {
            Some(req) => emit(req, out.result),
            None => emit(format!("(noparse {})", sexp_escape(&text)), out.result),
        }
    }
}

/// S-PROG status profile driven through `run()` with a timeout: when does it stop and what does it report
pub fn run(rng: &mut Rng, count: u64, emit: Emit) {
    for _ in 0..count {
        let g = proggen::program(rng, Profile::Status);
        let text = proggen::render_program(&g.stmts);
        let timeout = match rng.below(6) { 0 => 0, 1 => 1, _ => rng.below(15) as u32 };
        let out = run_to_end(&text, timeout, &g.mem, &format!("(text {})", sexp_escape(&text)));
        match out.request {
            Some(req) => emit(req, out.result),
            None => emit(format!("(noparse {})", sexp_escape(&text)), out.result),
        }
    }
}

/// S-DISASM: all first-two-byte combinations, a few immediates each, through the real disassembler
pub fn disasm(rng: &mut Rng, count: u64, emit: Emit) {
    // count = number of immediates per (b0, b1)
    for b0 in 0u128..256 {
        for b1 in 0u128..256 {
            for k in 0..count {
                let imm: u128 = match k { 0 => 0, 1 => 1, 2 => 1u128 << 63, 3 => (1u128 << 64) - 1, _ => rng.next() as u128 };
                // jXX/call take the immediate from byte 1 on; the others from byte 2 on: fill both views
                let value = b0 | (b1 << 8) | (imm << 16);
                let value = value & ((1u128 << 80) - 1);
                let res = std::panic::catch_unwind(move || hclrs::verif_hooks::disassemble_to_string(value));
                match res {
                    Ok((n, text)) => emit(format!("(disasm {})", value), format!("{}|{}", n, text)),
                    Err(_) => emit(format!("(disasm {})", value), String::from("PANIC")),
                }
            }
        }
    }
}

/// the `pc = ...; loaded [...]` line of real runs: one cycle at a random pc, or three cycles at a fixed pc during
/// which the program overwrites the instruction bytes (the line must follow the memory, cycle by cycle)
pub fn trace(rng: &mut Rng, count: u64, emit: Emit) {
    use std::fmt::Write;
    for _ in 0..count {
        let pc: u64 = match rng.below(4) { 0 => rng.below(64), 1 => u64::MAX - rng.below(12), _ => rng.next() };
        let mut mem: Vec<(u64, u8)> = Vec::new();
        for i in 0..10u64 {
            if rng.chance(9, 10) {
                let b = if i == 0 { ((rng.below(13) << 4) | rng.below(8)) as u8 } else { rng.below(256) as u8 };
                mem.push((pc.wrapping_add(i), b));
            }
        }
        let selfmod = rng.chance(1, 3);
        let newval: u64 = ((rng.below(13) << 4) | rng.below(8)) | (rng.next() << 8);
        let text = if selfmod {
            format!("pc = 0x{:x}; Stat = STAT_AOK; mem_addr = 0x{:x}; mem_writebit = 1; mem_readbit = 0; mem_input = 0x{:x};\n", pc, pc, newval)
        } else { format!("pc = 0x{:x}; Stat = STAT_HLT;\n", pc) };
        let cycles = if selfmod { 3 } else { 1 };
        crate::watch::note_text("trace", &text);
        let contents = hclrs::FileContents::new_from_data(hclrs::verif_hooks::y86_preamble(), &text, "t.hcl");
        let mem2 = mem.clone();
        let lines: Vec<String> = std::panic::catch_unwind(std::panic::AssertUnwindSafe(|| match hclrs::parse_y86_hcl(&contents) {
            Err(_) => vec![String::from("rejected"); cycles],
            Ok(program) => {
                let mut rp = hclrs::RunningProgram::new_y86(program);
                rp.verif_set_memory(&mem2);
                let mut res = Vec::new();
                for _ in 0..cycles {
                    let mut out: Vec<u8> = Vec::new();
                    match rp.step_with_output(&mut out) {
                        Ok(()) => res.push(String::from_utf8_lossy(&out).lines().find(|l| l.starts_with("pc = ")).unwrap_or("no-line").to_string()),
                        Err(_) => res.push(String::from("step-error")),
                    }
                }
                res
            }
        })).unwrap_or(vec![String::from("PANIC"); cycles]);
        // the memory each cycle starts with: the image, then the image with the stored value
        let mut cur: std::collections::BTreeMap<u64, u8> = mem.iter().cloned().collect();
        for (k, line) in lines.iter().enumerate() {
            if k == 1 {
                for j in 0..8u64 { cur.insert(pc.wrapping_add(j), ((newval >> (8 * j)) & 0xff) as u8); }
            }
            let mut req = format!("(trace {} (mem", pc);
            for (a, b) in &cur { write!(req, " ({} {})", a, b).unwrap(); }
            req.push_str("))");
            emit(req, line.clone());
        }
    }
}

/// the bytes of one `yo` / `yo-malformed` case
pub fn yo_input(rng: &mut Rng, malformed: bool) -> Vec<u8> {
    let mut file: Vec<u8> = Vec::new();
    let nlines = rng.below(8);
    for _ in 0..nlines {
        let eol: &[u8] = if rng.chance(1, 5) { b"\r\n" } else { b"\n" };
        match rng.below(8) {
            0 => file.extend_from_slice(b"                            | # a comment"),
            1 => file.extend_from_slice(b""),
            2 => file.extend_from_slice(b"  .pos 0x100 no bar here"),
            3 => file.extend_from_slice(format!("0x{:03x}:                      | label:", rng.below(4096)).as_bytes()),
            _ => {
                let addr = match rng.below(4) { 0 => 0, 1 => 0xff6 + rng.below(10), _ => rng.below(4096) };
                let n = rng.below(11) as usize;
                let upper = rng.chance(1, 4);
                let mut hex = String::new();
                for _ in 0..n { let b = rng.below(256); if upper { hex.push_str(&format!("{:02X}", b)); } else { hex.push_str(&format!("{:02x}", b)); } }
                let line = if upper { format!("0x{:03X}: {:<20} |   insn", addr, hex) } else { format!("0x{:03x}: {:<20} |   insn", addr, hex) };
                file.extend_from_slice(line.as_bytes());
            }
        }
        file.extend_from_slice(eol);
    }
    if rng.chance(1, 6) && file.ends_with(b"\n") { file.pop(); }
    if malformed && !file.is_empty() {
        // damage the file: one or two byte-level edits
        for _ in 0..rng.range(1, 2) {
            let pos = rng.below(file.len() as u64) as usize;
            match rng.below(9) {
                0 => { file.remove(pos); }
                1 => { file.insert(pos, b' '); }
                2 => { file[pos] = *rng.pick(&[b'+', b'-', b'g', b'|', b':', b'x', b' ', b'0']); }
                3 => { file[pos] = 0xC3; if pos + 1 < file.len() { file[pos + 1] = 0xA9; } }      // e-acute
                4 => { file[pos] = 0xFF; }                                                       // invalid UTF-8
                5 => { file.truncate(pos); }
                6 => { let e = "\u{20ac}".as_bytes(); for (k, b) in e.iter().enumerate() { if pos + k < file.len() { file[pos + k] = *b; } } }
                7 => { file.insert(pos, b'\n'); }
                _ => { file.insert(pos, *rng.pick(&[b'a', b'F', b'9'])); }
            }
            if file.is_empty() { break; }
        }
    }
    file
}

/// S-YO: yas listings, valid and malformed, through the real loader
pub fn yo(rng: &mut Rng, count: u64, malformed: bool, emit: Emit) {
    for _ in 0..count {
        let file = yo_input(rng, malformed);
        let f2 = file.clone();
        let res = std::panic::catch_unwind(move || hclrs::verif_hooks::load_y86(&f2));
        let result = match res {
            Err(_) => String::from("PANIC"),
            Ok(Ok(bytes)) => format!("ok {}", bytes.iter().map(|(a, b)| format!("{}:{}", a, b)).collect::<Vec<_>>().join(",")),
            Ok(Err(e)) => format!("err {}", hclrs::verif_hooks::error_summary(&e).first().map(|d| d.kind).unwrap_or("?")),
        };
        emit(format!("(yo {})", file.iter().map(|b| b.to_string()).collect::<Vec<_>>().join(" ")), result);
    }
}

/// S-DUMP: arbitrary machine states rendered by the real `dump_y86_str`
pub fn dump(rng: &mut Rng, count: u64, emit: Emit) {
    use std::fmt::Write;
    use crate::gen::{interesting_value, W};
    for _ in 0..count {
        // a program that only declares banks (with names of various lengths) and drives their inputs with constants
        let mut text = String::new();
        let letters = ["pP", "fF", "dD", "eE", "mM", "wW", "xY", "aB", "zQ", "\u{e9}\u{c9}", "k\u{1e00}"];
        let mut chosen: Vec<&str> = letters.to_vec();
        rng.shuffle(&mut chosen);
        let nb = rng.below(7) as usize;
        for b in 0..nb {
            let name = chosen[b];
            let cs: Vec<char> = name.chars().collect();
            let nregs = rng.range(1, 12);
            let mut decl = format!("register {} {{", name);
            let mut assigns = String::new();
            for r in 0..nregs {
                let w = if rng.chance(1, 10) { 0 } else { rng.range(1, 128) };
                let len = match rng.below(5) { 0 => 1, 1 => rng.range(20, 80), _ => rng.range(2, 9) } as usize;
                let mut rname = format!("r{}", r);
                while rname.len() < len { rname.push(*rng.pick(&['a', 'Z', '_', '9', 'q'])); }
                if rng.chance(1, 15) { rname.push('\u{e9}'); }
                write!(decl, " {}:{} = 0;", rname, w).unwrap();
                write!(assigns, "{}_{} = 0;\n", cs[0], rname).unwrap();
            }
            decl.push_str(" }\n");
            text.push_str(&decl);
            text.push_str(&assigns);
        }
        text.push_str("pc = 0; Stat = STAT_AOK;\n");
        crate::watch::note_text("dump", &text);
        let full = format!("{}{}", hclrs::verif_hooks::y86_preamble(), text);
        let sexp = match hclrs::verif_hooks::parse_statements(&full) { Ok(s) => s, Err(_) => { emit(format!("(noparse {})", sexp_escape(&text)), String::from("noparse")); continue; } };
        let contents = hclrs::FileContents::new_from_data(hclrs::verif_hooks::y86_preamble(), &text, "t.hcl");
        let program = match hclrs::parse_y86_hcl(&contents) { Ok(p) => p, Err(_) => { emit(format!("(rejected {})", sexp_escape(&text)), String::from("rejected")); continue; } };
        let banks = program.verif_banks();
        let mut rp = hclrs::RunningProgram::new_y86(program);
        let mut req = format!("(dump {} {}", crate::progrun::flags_sexp(), crate::progrun::cls_sexp(&text));
        // registers
        req.push_str(" (regs");
        for i in 0..16 {
            let v = match rng.below(5) { 0 => 0, 1 => u64::MAX, 2 => rng.below(65536), _ => rng.next() };
            let v = if i == 15 { 0 } else { v };
            rp.verif_set_register(i, v);
            write!(req, " {}", v).unwrap();
        }
        req.push(')');
        // memory
        let mut mem: Vec<(u64, u8)> = Vec::new();
        let nclusters = rng.below(5);
        for _ in 0..nclusters {
            let base = match rng.below(5) { 0 => rng.below(48), 1 => u64::MAX - rng.below(40), 2 => rng.below(1 << 20), _ => rng.next() };
            let n = rng.range(1, 20);
            for j in 0..n { if rng.chance(3, 4) { mem.push((base.wrapping_add(j), rng.below(256) as u8)); } }
        }
        mem.sort(); mem.dedup_by_key(|x| x.0);
        rp.verif_set_memory(&mem);
        req.push_str(" (mem");
        for (a, b) in &mem { write!(req, " ({} {})", a, b).unwrap(); }
        req.push(')');
        // bank values and control signals
        req.push_str(" (vals");
        for (_label, signals, _defaults, stall, bubble) in &banks {
            for (_i, o, w) in signals {
                let bits = interesting_value(rng, match w { Some(n) => W::Bits(*n), None => W::Unl });
                rp.verif_set_value(o, bits, *w);
                write!(req, " ({} {} {})", o, bits, crate::progrun::width_str(*w)).unwrap();
            }
            for ctl in [stall, bubble] {
                let bit = if rng.chance(1, 3) { 1 } else { 0 };
                rp.verif_set_value(ctl, bit, Some(1));
                write!(req, " ({} {} 1)", ctl, bit).unwrap();
            }
        }
        let stat = rng.below(8) as u128;
        if rng.chance(4, 5) { rp.verif_set_value("Stat", stat, Some(3)); write!(req, " (Stat {} 3)", stat).unwrap(); }
        req.push(')');
        let cycle = match rng.below(4) { 0 => 0, 1 => rng.below(20), 2 => rng.below(100000), _ => 9999 } as u32;
        let timeout = match rng.below(4) { 0 => cycle, 1 => cycle + 1, 2 => 9999, _ => rng.below(30) as u32 };
        rp.verif_set_cycle(cycle);
        let mut opts = hclrs::RunOptions::default();
        opts.set_timeout(timeout);
        let test_mode = rng.chance(1, 5);
        if test_mode { opts.set_test(); }
        rp.set_options(opts);
        let result = match std::panic::catch_unwind(std::panic::AssertUnwindSafe(|| {
            // the same state printed several times must give the same text (C12)
            let first = rp.dump_y86_str();
            for _ in 0..5 {
                let again = rp.dump_y86_str();
                if again != first { return format!("NONDETERMINISTIC-DUMP first: {} other: {}", first, again); }
            }
            first
        })) {
            Ok(s) => s,
            Err(_) => String::from("PANIC"),
        };
        let esc: String = sexp_escape(&result).replace("\u{2423}\u{2423}", "\u{2423}\u{2423}");
        write!(req, " (cycle {}) (timeout {}) (showbanks {}) (impltext {}) {})", cycle, timeout, if test_mode { 0 } else { 1 }, esc, crate::progrun::stmts_fields(&sexp)).unwrap();
        emit(req, result);
    }
}

/// C18: the same program under all 32 subsets of the output options; the states must not depend on them,
/// and the -d table must list the values the wires really hold
pub fn options(rng: &mut Rng, count: u64, emit: Emit) {
    use std::fmt::Write;
    for _ in 0..count {
        let profile = *rng.pick(&[Profile::Dag, Profile::Banks, Profile::RegFile, Profile::Memory, Profile::Status]);
        let g = proggen::program(rng, profile);
        let text = proggen::render_program(&g.stmts);
        let base = run_program(&text, g.cycles, &g.mem, &format!("(tags options) (text {})", sexp_escape(&text)));
        let mut result = base.result.clone();
        if base.accepted {
            crate::watch::note_text("options", &text);
            let contents = hclrs::FileContents::new_from_data(hclrs::verif_hooks::y86_preamble(), &text, "t.hcl");
            // a sample of the 32 subsets: always the full set, the empty set and 6 random ones
            let mut subsets: Vec<u32> = vec![0, 31];
            for _ in 0..6 { subsets.push(rng.below(32) as u32); }
            for sub in subsets {
                let program = match hclrs::parse_y86_hcl(&contents) { Ok(p) => p, Err(_) => { result = String::from("OPTIONS-DIFF second build rejected"); break; } };
                let constants: Vec<String> = program.verif_constants().iter().map(|c| c.0.clone()).collect();
                let mut rp = hclrs::RunningProgram::new_y86(program);
                rp.verif_set_memory(&g.mem);
                let mut o = hclrs::RunOptions::default();
                if sub & 1 != 0 { o.set_quiet(); }
                if sub & 2 != 0 { o.set_debug(); }
                if sub & 4 != 0 { o.set_test(); }
                if sub & 8 != 0 { o.set_no_group_wire_values(); }
                if sub & 16 != 0 { o.set_trace_assignments(); }
                rp.set_options(o);
                let mut states = String::from("ok");
                let mut fin = String::from("ok");
                for _ in 0..g.cycles {
                    let mut out: Vec<u8> = Vec::new();
                    // values as they are just before the clock edge are what the table shows: recompute from a twin
                    let stepped = match std::panic::catch_unwind(std::panic::AssertUnwindSafe(|| rp.step_with_output(&mut out))) {
                        Ok(r) => r,
                        Err(_) => { fin = String::from("PANIC-UNDER-OPTIONS"); break; }
                    };
                    match stepped {
                        Ok(()) => {
                            write!(states, " {}", crate::progrun::state_string(&rp)).unwrap();
                            if sub & 2 != 0 {
                                // every row "name  0xVALUE" of the table: the name must be a non-constant wire, listed once
                                let textout = String::from_utf8_lossy(&out).into_owned();
                                let mut seen = std::collections::BTreeSet::new();
                                for line in textout.lines() {
                                    let parts: Vec<&str> = line.split_whitespace().collect();
                                    if parts.len() == 2 && parts[1].starts_with("0x") && !line.contains(" set to ") {
                                        if parts[0] == "Wire" { continue; }
                                        if !seen.insert(parts[0].to_string()) { fin = format!("TABLE-DUPLICATE {}", parts[0]); }
                                        if constants.iter().any(|c| c == parts[0]) { fin = format!("TABLE-LISTS-CONSTANT {}", parts[0]); }
                                    }
                                }
                            }
                        }
                        Err(e) => { fin = crate::progrun::diag_string(&hclrs::verif_hooks::error_summary(&e)); break; }
                    }
                }
                write!(states, " end={}", fin).unwrap();
                // the same options through `run()`, which prints the state between cycles (unless quiet) and at the end
                // (unless testing): printing must not change how far the run gets or where it ends
                if fin == "ok" && states == base.result {
                    let program2 = match hclrs::parse_y86_hcl(&contents) { Ok(p) => p, Err(_) => { result = String::from("OPTIONS-DIFF third build rejected"); break; } };
                    let mut rp2 = hclrs::RunningProgram::new_y86(program2);
                    rp2.verif_set_memory(&g.mem);
                    let mut o2 = hclrs::RunOptions::default();
                    if sub & 1 != 0 { o2.set_quiet(); }
                    if sub & 2 != 0 { o2.set_debug(); }
                    if sub & 4 != 0 { o2.set_test(); }
                    if sub & 8 != 0 { o2.set_no_group_wire_values(); }
                    if sub & 16 != 0 { o2.set_trace_assignments(); }
                    o2.set_timeout(g.cycles);
                    rp2.set_options(o2);
                    let mut sink: Vec<u8> = Vec::new();
                    let ran = std::panic::catch_unwind(std::panic::AssertUnwindSafe(|| rp2.run(&mut sink)));
                    // the reference: the same program stepped quietly until done or the budget is used up
                    let program3 = match hclrs::parse_y86_hcl(&contents) { Ok(p) => p, Err(_) => { result = String::from("OPTIONS-DIFF fourth build rejected"); break; } };
                    let mut rp3 = hclrs::RunningProgram::new_y86(program3);
                    rp3.verif_set_memory(&g.mem);
                    let mut o3 = hclrs::RunOptions::default();
                    o3.set_quiet();
                    o3.set_timeout(g.cycles);
                    rp3.set_options(o3);
                    let mut sink3 = std::io::sink();
                    let ran3 = std::panic::catch_unwind(std::panic::AssertUnwindSafe(|| rp3.run(&mut sink3)));
                    let describe = |r: &std::thread::Result<Result<(), hclrs::Error>>, rp: &hclrs::RunningProgram| -> String {
                        match r {
                            Err(_) => String::from("PANIC"),
                            Ok(Err(e)) => format!("error {}", crate::progrun::diag_string(&hclrs::verif_hooks::error_summary(e))),
                            Ok(Ok(())) => format!("cycle={} {}", rp.cycle(), crate::progrun::state_string(rp)),
                        }
                    };
                    let a = describe(&ran, &rp2);
                    let b = describe(&ran3, &rp3);
                    if a != b {
                        result = format!("OPTIONS-DIFF run() under subset {} gives {} but quietly {}", sub, &a[..a.len().min(200)], &b[..b.len().min(200)]);
                        break;
                    }
                }
                if states != base.result {
                    result = format!("OPTIONS-DIFF subset {} gives {} instead of {}", sub, &states[..states.len().min(200)], &base.result[..base.result.len().min(200)]);
                    break;
                }
            }
        }
        match base.request {
            Some(req) => emit(req, result),
            None => emit(format!("(noparse {})", sexp_escape(&text)), result),
        }
    }
}

/// C18: the `-d` wire table of every cycle, grouped and ungrouped
pub fn table(rng: &mut Rng, count: u64, emit: Emit) {
    use std::fmt::Write;
    for _ in 0..count {
        let profile = *rng.pick(&[Profile::Dag, Profile::Banks, Profile::RegFile, Profile::Memory]);
        let g = proggen::program(rng, profile);
        let mut text = proggen::render_program(&g.stmts);
        // wires whose names differ only in the case of their letters: the table sorts them ignoring case first and
        // by the exact name second, so their order is fixed although they come out of a hash map
        if rng.chance(2, 3) {
            for group in [["valQ", "valq", "VALQ", "vAlQ"], ["ifnZ", "iFnZ", "IFNZ", "ifnz"]].iter() {
                let k = rng.range(0, 4) as usize;
                for (j, n) in group.iter().enumerate() { if j <= k { text.push_str(&format!("wire {}:{}; {} = {};\n", n, 4 + 4 * j, n, j + 1)); } }
            }
        }
        let grouped = rng.chance(2, 3);
        crate::watch::note_text("table", &text);
        let full = format!("{}{}", hclrs::verif_hooks::y86_preamble(), text);
        let sexp = match hclrs::verif_hooks::parse_statements(&full) { Ok(s) => s, Err(_) => { emit(format!("(noparse {})", sexp_escape(&text)), String::from("noparse")); continue; } };
        let contents = hclrs::FileContents::new_from_data(hclrs::verif_hooks::y86_preamble(), &text, "t.hcl");
        let result = std::panic::catch_unwind(std::panic::AssertUnwindSafe(|| match hclrs::parse_y86_hcl(&contents) {
            Err(e) => format!("rej {}", crate::progrun::diag_string(&hclrs::verif_hooks::error_summary(&e))),
            Ok(program) => {
                let mut rp = hclrs::RunningProgram::new_y86(program);
                rp.verif_set_memory(&g.mem);
                let mut o = hclrs::RunOptions::default();
                o.set_debug();
                if !grouped { o.set_no_group_wire_values(); }
                rp.set_options(o);
                let mut all = String::new();
                let mut fin = String::from("ok");
                for _ in 0..g.cycles {
                    let mut out: Vec<u8> = Vec::new();
                    match rp.step_with_output(&mut out) {
                        Ok(()) => {
                            let t = String::from_utf8_lossy(&out).into_owned();
                            let start = t.find("Values of").unwrap_or(t.len());
                            all.push_str(&t[start..]);
                            all.push_str("=====\n");
                        }
                        Err(e) => { fin = crate::progrun::diag_string(&hclrs::verif_hooks::error_summary(&e)); break; }
                    }
                }
                format!("{}end={}", all, fin)
            }
        })).unwrap_or(String::from("PANIC"));
        let mut memf = String::from("(mem");
        for (a, b) in &g.mem { write!(memf, " ({} {})", a, b).unwrap(); }
        memf.push(')');
        emit(format!("(table {} {} (cycles {}) (grouped {}) {} (text {}) {})", crate::progrun::flags_sexp(), crate::progrun::cls_sexp(&text),
                     g.cycles, if grouped { 1 } else { 0 }, memf, sexp_escape(&text), crate::progrun::stmts_fields(&sexp)), result);
    }
}

pub fn random_text(rng: &mut Rng) -> String {
    let atoms: [&str; 68] = ["wire", "const", "register", "in", "x", "foo_1", "Stat", "pc", "é", "ñame", "Ω", "a\u{301}", "_t", "0", "1", "42", "0x1F", "0xff", "0b101", "0b", "0x",
        "0b102", "12ab", "1x5", "7b101", "340282366920938463463374607431768211455", "340282366920938463463374607431768211456", "0xffffffffffffffffffffffffffffffffg",
        "\u{b2}", "\u{663}", "\u{bd}", "1\u{b2}", "x\u{b2}", "\u{2167}",
        "=", "==", "!=", "<", "<=", "<<", ">", ">=", ">>", "&", "&&", "|", "||", "^", "~", "!", "+", "-", "*", "/", "(", ")", "[", "]", "{", "}", ":", ";", ",", "..", ".", "#c\n", "// c\n", "/* c */"];
    let extras: [&str; 14] = [" ", " ", "\n", "\r\n", "\t", "/*", "*/", "/*/", "**/", "$", "@", "\u{2028}", "\u{a0}", "\u{3000}"];
    let n = rng.range(0, 30);
    let mut t = String::new();
    for _ in 0..n {
        if rng.chance(3, 4) { t.push_str(*rng.pick(&atoms[..])); } else { t.push_str(*rng.pick(&extras[..])); }
        if rng.chance(1, 2) { t.push(' '); }
    }
    if rng.chance(1, 6) {
        let zeros = rng.range(120, 135) as usize;
        t.push_str(" 0b"); for _ in 0..zeros { t.push(if rng.chance(1, 2) { '0' } else { '1' }); }
    }
    t
}

pub fn cls3_sexp(text: &str) -> String {
    use std::fmt::Write;
    let mut seen = std::collections::BTreeSet::new();
    for c in text.chars() { if !c.is_ascii() { seen.insert(c); } }
    let mut s = String::from("(cls");
    for c in seen {
        write!(s, " ({} {} {} {})", c as u32, c.is_whitespace() as u8, c.is_alphabetic() as u8, c.is_alphanumeric() as u8).unwrap();
    }
    s.push(')');
    s
}

/// S-LEX: the real lexer alone on token soup, literals at the 128-bit boundary, comments, Unicode
pub fn lex(rng: &mut Rng, count: u64, emit: Emit) {
    for _ in 0..count {
        let text = random_text(rng);
        let t2 = text.clone();
        crate::watch::note_text("lex", &t2);
        let res = std::panic::catch_unwind(move || hclrs::verif_hooks::lex(&t2));
        let result = match res {
            Err(_) => String::from("PANIC"),
            Ok((toks, err)) => {
                let mut items: Vec<String> = toks.iter().map(|(s, t, e)| format!("{}:{}:{}", s, t, e)).collect();
                if let Some(es) = err {
                    for d in es {
                        let sp: Vec<String> = d.spans.iter().map(|(a, b)| if d.kind == "InvalidConstant" { format!("{}:{}", a, b) } else { format!("{}", a) }).collect();
                        items.push(format!("ERR:{}:{}", d.kind, sp.join(":")));
                    }
                }
                items.join(" ")
            }
        };
        let cps: Vec<String> = text.chars().map(|c| (c as u32).to_string()).collect();
        emit(format!("(lex {} (text {}))", cls3_sexp(&text), cps.join(" ")), result);
    }
}

/// S-LITERAL: literals of known value (decimal, either-case hexadecimal, binary of known digit count) between
/// comments and blanks; the expected token list is known by construction
pub fn literal(rng: &mut Rng, count: u64, emit: Emit) {
    let trivia: [&str; 10] = [" ", "  ", "\n", "\r\n", "\t", " /* c */ ", " # 12 0x3\n", " // 0b1\r\n", " /** 5 **/ ", " /* 1\n2 */ "];
    for _ in 0..count {
        let n = rng.range(1, 5);
        let mut text = String::new();
        let mut expected: Vec<String> = Vec::new();
        let mut failed = false;
        if rng.chance(1, 2) { text.push_str(*rng.pick(&trivia[..])); }
        for _ in 0..n {
            // a value of a random magnitude
            let bits = rng.range(0, 129) as u32;
            let raw: u128 = ((rng.next() as u128) << 64) | rng.next() as u128;
            let value: u128 = if bits == 0 { 0 } else if bits >= 128 { raw | (1u128 << 127) } else { (raw & ((1u128 << bits) - 1)) | (1u128 << (bits - 1)) };
            let start = text.len();
            let kind = rng.range(0, 10);
            let mut too_big = false;
            let width: String;
            match kind {
                0..=2 => {
                    let zeros = if rng.chance(1, 4) { rng.range(1, 4) as usize } else { 0 };
                    let mut digits = format!("{}{}", "0".repeat(zeros), value);
                    if rng.chance(1, 8) {
                        // one past the largest: 2^128 + small, written out by long addition on the decimal string of u128::MAX
                        digits = String::from(*rng.pick(&["340282366920938463463374607431768211456", "340282366920938463463374607431768211457",
                            "999999999999999999999999999999999999999", "1000000000000000000000000000000000000000"][..]));
                        too_big = true;
                    }
                    text.push_str(&digits);
                    width = String::from("u");
                }
                3..=5 => {
                    let zeros = if rng.chance(1, 4) { rng.range(1, 4) as usize } else { 0 };
                    let mut hex = format!("{}{:x}", "0".repeat(zeros), value);
                    hex = hex.chars().map(|c| if rng.chance(1, 2) { c.to_ascii_uppercase() } else { c }).collect();
                    if rng.chance(1, 8) { hex = format!("1{:032x}", value); too_big = true; }
                    text.push_str("0x"); text.push_str(&hex);
                    width = String::from("u");
                }
                _ => {
                    let extra = if rng.chance(1, 3) { rng.range(0, 6) as usize } else { 0 };
                    let body = if bits == 0 { String::from("0") } else { format!("{:b}", value) };
                    let digits = format!("{}{}", "0".repeat(extra), body);
                    if digits.len() > 128 { too_big = true; }
                    text.push_str("0b"); text.push_str(&digits);
                    width = digits.len().to_string();
                }
            }
            let end = text.len();
            if too_big {
                expected.push(format!("ERR:InvalidConstant:{}:{}", start, end));
                failed = true;
                break;
            }
            expected.push(format!("{}:CONST:{}:{}:{}", start, value, width, end));
            text.push_str(*rng.pick(&trivia[..]));
            if rng.chance(1, 3) { text.push_str(*rng.pick(&trivia[..])); }
        }
        let _ = failed;
        let t2 = text.clone();
        crate::watch::note_text("literal", &t2);
        let res = std::panic::catch_unwind(move || hclrs::verif_hooks::lex(&t2));
        let got = match res {
            Err(_) => String::from("PANIC"),
            Ok((toks, err)) => {
                let mut items: Vec<String> = toks.iter().map(|(s, t, e)| format!("{}:{}:{}", s, t, e)).collect();
                if let Some(es) = err {
                    for d in es {
                        let sp: Vec<String> = d.spans.iter().map(|(a, b)| if d.kind == "InvalidConstant" { format!("{}:{}", a, b) } else { format!("{}", a) }).collect();
                        items.push(format!("ERR:{}:{}", d.kind, sp.join(":")));
                    }
                }
                items.join(" ")
            }
        };
        let want = expected.join(" ");
        let result = if got == want { format!("same {}", got) } else { format!("DIFF-LITERAL got {} expected {}", got, want) };
        let cps: Vec<String> = text.chars().map(|c| (c as u32).to_string()).collect();
        emit(format!("(lex {} (text {}))", cls3_sexp(&text), cps.join(" ")), result);
    }
}

pub fn hex_of(bytes: &[u8]) -> String { bytes.iter().map(|b| format!("{:02x}", b)).collect() }

/// a small text of `n` lines mixing ASCII, multi-byte characters, blank lines, LF / CRLF / bare CR
pub fn random_lines(rng: &mut Rng, maxlines: u64) -> String {
    let pieces: [&str; 14] = ["wire x : 8;", "x = y + 1;", "", "  ", "\t", "é = 1", "# c", "€€", "a", "Stat = STAT_AOK; pc = 0;", "ab\u{301}c", "[ 1 : 2; ]", "/* c", "*/"];
    let eols: [&str; 6] = ["\n", "\n", "\n", "\r\n", "\n\n", "\r"];
    let n = rng.below(maxlines + 1);
    let mut t = String::new();
    for _ in 0..n {
        t.push_str(*rng.pick(&pieces[..]));
        if rng.chance(1, 3) { t.push(' '); t.push_str(*rng.pick(&pieces[..])); }
        t.push_str(*rng.pick(&eols[..]));
    }
    if rng.chance(1, 3) { t.push_str(*rng.pick(&pieces[..])); }
    t
}

/// S-REGION: `FileContents::show_region` / `line_number_and_bounds` / `range` on small texts and arbitrary spans
pub fn region(rng: &mut Rng, count: u64, emit: Emit) {
    use hclrs::FileContents;
    for _ in 0..count {
        let pre: String = match rng.below(6) { 0 => String::from("\n"), 1 => String::from("const A = 1;\nconst B = 2;\n"), 2 => String::from("x\ny"),
            3 => String::new(), 4 => String::from("é\n\n"), _ => String::from("const A = 1;\n") };
        let user = random_lines(rng, 6);
        let name: &str = *rng.pick(&["t.hcl", "é.hcl", "a b.hcl"][..]);
        let total = pre.len() + user.len();
        let (start, end): (usize, usize) = match rng.below(10) {
            0 => (rng.below(total as u64 + 3) as usize, rng.below(total as u64 + 3) as usize),
            1 => (rng.below(total as u64 + 1) as usize, usize::MAX),
            2 => (usize::MAX, usize::MAX),
            3 => (total, total),
            4 => { let s = rng.below(total as u64 + 1) as usize; (s, s) }
            _ => { let s = pre.len() + rng.below(user.len() as u64 + 1) as usize; (s, s + rng.below(7) as usize) }
        };
        let (p2, u2, n2) = (pre.clone(), user.clone(), name.to_string());
        let res = std::panic::catch_unwind(move || {
            crate::watch::note_text("region", &u2);
            let fc = FileContents::new_from_data(&p2, &u2, &n2);
            let shown = fc.show_region(start, end);
            let clamp = |x: usize| std::cmp::min(x, p2.len() + u2.len());
            let (a, b, c) = fc.line_number_and_bounds(clamp(start));
            let r = fc.range(clamp(start), clamp(end));
            format!("ok {} lnb={}:{}:{} range={}", hex_of(shown.as_bytes()), a, b, c, hex_of(r.as_bytes()))
        });
        let result = match res { Ok(s) => s, Err(_) => String::from("PANIC") };
        let bl = |b: &[u8]| b.iter().map(|x| x.to_string()).collect::<Vec<_>>().join(" ");
        emit(format!("(region (pre {}) (user {}) (name {}) (start {}) (end {}))", bl(pre.as_bytes()), bl(user.as_bytes()), bl(name.as_bytes()), start, end), result);
    }
}

/// the located regions of a rendered diagnostic text: header `     -> file:line` with the rows under it
pub fn regions_of(text: &str) -> Vec<String> {
    let mut out: Vec<String> = Vec::new();
    let mut cur: Option<String> = None;
    for line in text.split_inclusive('\n') {
        let is_row = line.starts_with("     |") || {
            let b = line.as_bytes();
            b.len() >= 7 && &b[4..7] == b" | " && b[..4].iter().all(|c| *c == b' ' || c.is_ascii_digit()) && b[3].is_ascii_digit()
        };
        if line.starts_with("     -> ") {
            if let Some(c) = cur.take() { out.push(c); }
            cur = Some(String::from(line));
        } else if is_row && cur.is_some() {
            cur.as_mut().unwrap().push_str(line);
        } else if let Some(c) = cur.take() { out.push(c); }
    }
    if let Some(c) = cur.take() { out.push(c); }
    out
}

/// one `diag` case: the user text with one planted fault, the kind of fault, the planted span (offsets into the user
/// text), a second span that has to be shown as well (if any) and the long name used by `undeclared-read`
pub struct DiagInput { pub user: String, pub kname: &'static str, pub planted: (usize, usize), pub planted2: Option<(usize, usize)>, pub longname: String }

pub fn diag_input(rng: &mut Rng) -> DiagInput {
    let eol: &str = if rng.chance(1, 4) { "\r\n" } else { "\n" };
    let filler: [&str; 7] = ["", "# a comment", "   ", "/* block */", "// c style", "/* two", "   lines */ "];
    let mut lines: Vec<String> = Vec::new();
    let mut push_fill = |rng: &mut Rng, lines: &mut Vec<String>| {
        for _ in 0..rng.below(3) {
            let f = *rng.pick(&filler[..]);
            if f == "/* two" { lines.push(String::from("/* two")); lines.push(String::from("   lines */ ")); }
            else if f != "   lines */ " { lines.push(String::from(f)); }
        }
    };
    let base: [&str; 10] = ["wire a : 8;", "a = 1;", "wire b : 4;", "b = 2;", "pc = 0;", "Stat = STAT_AOK;", "wire c : 8;", "c = a;",
        "register fD { k : 8 = 0; }", "f_k = D_k;"];
    let kind = rng.below(23);
    let indent: String = " ".repeat(rng.below(5) as usize);
    let lead: &str = *rng.pick(&["", "", "a = 1; ", "/* c */ "][..]);
    // (fault line, column of the offending span within the line, its length, kind name, line replaced or inserted)
    let longname: String = format!("undeclared_{}", "x".repeat(rng.below(30) as usize));
    let (fault, tok_col, tok_len, kname, replaces): (String, usize, usize, &str, Option<&str>) = match kind {
        0 => { let l = format!("{}c = {} + 1;", indent, longname); (l, indent.len() + 4, longname.len(), "undeclared-read", Some("c = a;")) }
        1 => { let l = format!("{}c = 1 + ;", indent); (l, indent.len() + 8, 1, "unexpected-token", Some("c = a;")) }
        2 => { let l = format!("{}c = b;", indent); (l, indent.len() + 4, 1, "width-mismatch", Some("c = a;")) }
        3 => { let l = format!("{}wire d : 8; c = d;", indent); (l, indent.len() + 5, 5, "never-assigned", Some("c = a;")) }
        4 => { let l = format!("{}c = 0b102;", indent); (l, indent.len() + 8, 1, "bad-literal", Some("c = a;")) }
        5 => { let l = format!("{}wire a : 8;", indent); (l, indent.len() + 5, 5, "redeclared", None) }
        6 => { let l = format!("{}c = [ a == 1 : 2; ];", indent); (l, indent.len() + 4, 15, "no-default", Some("c = a;")) }
        7 => { let l = format!("{}c = a $ 1;", indent); (l, indent.len() + 6, 1, "bad-character", Some("c = a;")) }
        8 => { let l = format!("{}c = [ a == 1 : a; 1 : b; ];", indent); (l, indent.len() + 22, 1, "case-width-mismatch", Some("c = a;")) }
        11 => { let l = format!("{}c = 0x100000000000000000000000000000000;", indent); (l, indent.len() + 4, 35, "too-wide-literal", Some("c = a;")) }
        12 => { let l = format!("{}register qR {{ v : 8 = 0b101; }}", indent); (l, indent.len() + 22, 5, "register-default-width", None) }
        13 => { let l = format!("{}c = (a .. 0xA5)[0..8];", indent); (l, indent.len() + 10, 4, "concat-right-unsized", Some("c = a;")) }
        14 => { let l = format!("{}c = (0xA5 .. a)[0..8];", indent); (l, indent.len() + 5, 4, "concat-left-unsized", Some("c = a;")) }
        15 => { let l = format!("{}c = [ a && 1 : 1; 1 : 2 ];", indent); (l, indent.len() + 6, 1, "non-boolean-operand", Some("c = a;")) }
        16 => { let l = format!("{}c = a[4..20];", indent); (l, indent.len() + 4, 8, "bit-index-out-of-range", Some("c = a;")) }
        17 => { let l = format!("{}c = (b == a);", indent); (l, indent.len() + 5, 1, "compare-width-mismatch", Some("c = a;")) }
        18 => { let l = format!("{}c = (a ..\n{}       0xA5)[0..8];", indent, indent); (l, indent.len() * 2 + 17, 4, "concat-second-line", Some("c = a;")) }
        9 => { let l = format!("{}zz = 1;", indent); (l, indent.len(), 2, "undeclared-assigned", None) }
        22 => { let l = format!("{}c = a .. b;", indent); (l, indent.len() + 6, 2, "unexpected-dotdot", Some("c = a;")) }
        // a second bank with the same input letter declares a register of the same name: both declarations are shown
        20 | 21 => { let l = format!("{}register fE {{ k : 8 = 0; }}", indent); (l, indent.len() + 14, 9, "dup-register", None) }
        _ => { let l = format!("{}c = a[4..2];", indent); (l, indent.len() + 4, 7, "bad-slice", Some("c = a;")) }
    };
    let _ = lead;
    // assemble: declarations first so that the fault is the only one
    let mut order: Vec<String> = Vec::new();
    for b in base.iter() {
        if Some(*b) == replaces { continue; }
        order.push(String::from(*b));
    }
    // the statements may come in any order except that the file stays valid; shuffle a little
    for i in (1..order.len()).rev() { let j = rng.below(i as u64 + 1) as usize; order.swap(i, j); }
    let fault_at = rng.below(order.len() as u64 + 1) as usize;
    let mut fault_line_no = 0usize;
    push_fill(rng, &mut lines);
    for (i, st) in order.iter().enumerate() {
        if i == fault_at { lines.push(fault.clone()); fault_line_no = lines.len(); push_fill(rng, &mut lines); }
        lines.push(st.clone());
        push_fill(rng, &mut lines);
    }
    if fault_at == order.len() { lines.push(fault.clone()); fault_line_no = lines.len(); if rng.chance(1, 2) { push_fill(rng, &mut lines); } }
    let mut user = String::new();
    let mut fault_off = 0usize;
    for (i, l) in lines.iter().enumerate() {
        if i + 1 == fault_line_no { fault_off = user.len(); }
        user.push_str(l);
        if i + 1 < lines.len() || rng.chance(2, 3) { user.push_str(eol); }
    }
    // a second place that the diagnostic has to show: the other declaration
    let planted2: Option<(usize, usize)> = match kname {
        "redeclared" => user.match_indices("wire a : 8;").map(|(i, _)| i + 5).find(|i| *i != fault_off + tok_col).map(|i| (i, i + 5)),
        "dup-register" => user.find("register fD {").map(|i| (i + 14, i + 23)),
        _ => None,
    };
    DiagInput { user, kname, planted: (fault_off + tok_col, fault_off + tok_col + tok_len), planted2, longname }
}

/// S-DIAG: one fault planted at a known line and column of an otherwise valid program; the rendered diagnostics
/// of the real code (parse_y86_hcl + Error::format_for_contents, real preamble) are cut into their located regions
pub fn diag(rng: &mut Rng, count: u64, emit: Emit) {
    use hclrs::{parse_y86_hcl, FileContents};
    use std::panic::{catch_unwind, AssertUnwindSafe};
    let pre = hclrs::verif_hooks::y86_preamble();
    for _ in 0..count {
        let DiagInput { user, kname, planted, planted2, longname } = diag_input(rng);
        let name = "t.hcl";
        crate::watch::note_text("diag", &user);
        let contents = FileContents::new_from_data(pre, &user, name);
        let res = catch_unwind(AssertUnwindSafe(|| {
            match parse_y86_hcl(&contents) {
                Ok(_) => (String::from("accepted"), Vec::new(), Vec::new()),
                Err(e) => {
                    let mut buf: Vec<u8> = Vec::new();
                    e.format_for_contents(&mut buf, &contents).unwrap();
                    let text = String::from_utf8_lossy(&buf).into_owned();
                    let nerr = text.lines().filter(|l| l.starts_with("error:")).count();
                    let mut spans: Vec<(usize, usize)> = Vec::new();
                    for d in hclrs::verif_hooks::error_summary(&e) { for sp in d.spans { spans.push(sp); } }
                    // the message itself must name the offending wire, in quotes, where the planted fault is about a wire
                    let named = match kname { "undeclared-read" => Some(longname.clone()), "never-assigned" => Some(String::from("d")),
                        "redeclared" => Some(String::from("a")), "undeclared-assigned" => Some(String::from("zz")), _ => None };
                    let nm = match named {
                        Some(n) => if text.lines().any(|l| l.starts_with("error:") && l.contains(&format!("'{}'", n))) { " named=1" } else { " named=0" },
                        None => "",
                    };
                    (format!("err errors={}{}", std::cmp::min(nerr, 1), nm), regions_of(&text), spans)
                }
            }
        }));
        let (result, shown, spans) = match res { Ok(x) => x, Err(_) => (String::from("PANIC"), Vec::new(), Vec::new()) };
        let bl = |b: &[u8]| b.iter().map(|x| x.to_string()).collect::<Vec<_>>().join(" ");
        let mut shown_hex: Vec<String> = shown.iter().map(|r| hex_of(r.as_bytes())).collect();
        shown_hex.sort();
        let result = if result.starts_with("err") { format!("{} shown={}", result, shown_hex.len()) } else { result };
        let p2 = match planted2 { Some((a, b)) => format!(" (planted2 {} {})", a, b), None => String::new() };
        emit(format!("(diag (prelen {}) (user {}) (name {}) (kind {}) (planted {} {}){} (spans {}) (shown {}))",
                     pre.len(), bl(user.as_bytes()), bl(name.as_bytes()), kname, planted.0, planted.1, p2,
                     spans.iter().map(|(a, b)| format!("({} {})", a, b)).collect::<Vec<_>>().join(" "),
                     shown_hex.join(" ")), result);
    }
}

/// the text of one `anytext` case and how it was made
pub fn anytext_input(rng: &mut Rng) -> (String, String) {
    let toks: [&str; 43] = ["wire", "const", "register", "in", "x", "pc", "Stat", "=", "==", ";", ":", ",", "(", ")", "[", "]", "{", "}", "..",
        "+", "-", "*", "/", "&&", "||", "!", "~", "<", ">>", "0", "1", "0b101", "0x1f", "8", "é", "€", "/*", "*/", "#", "\"", "\u{b2}", "\u{663}", "\u{bd}"];
    let mode = rng.below(13);
    let mut bytes: Vec<u8> = if mode == 0 { random_text(rng).into_bytes() } else if mode == 8 {
        // a half-wired built-in component whose enable signal is a constant expression of any kind
        let nasty: [&str; 16] = ["0b11[3..1]", "1/0", "[0:1]", "0b11 && 1", "(0xffffffffffffffffffffffffffffffff .. 0b1)", "[1 : 0x100; 0 : 0b1]",
            "0", "1", "undefined_w", "-0", "0b1[0..0]", "!0b11", "1 in {0b11, 0b1}", "[0b1 : 0b0; 1 : 1]", "0b0", "(1 .. 1)"];
        let e = *rng.pick(&nasty[..]);
        let body = match rng.below(3) {
            0 => format!("mem_writebit = {};\nmem_addr = 0;\n", e),
            1 => format!("mem_writebit = {};\nmem_input = 0;\n", e),
            _ => format!("mem_readbit = {};\n", e),
        };
        format!("pc = 0; Stat = STAT_AOK;\n{}", body).into_bytes()
    } else {
        let profile = *rng.pick(&[Profile::Dag, Profile::Banks, Profile::RegFile, Profile::Memory, Profile::Status]);
        let mut g = proggen::program(rng, profile);
        // one planted fault of any class (names of every shape, ASCII or not): the diagnostics are rendered below
        if mode == 9 {
            if rng.chance(1, 3) {
                // an undeclared name of unusual shape, assigned or read
                // ... or a name that is close to several declared ones (a prefix of two built-in names; another capitalisation
                // of three declared wires): whatever the diagnostic suggests must not depend on the run
                let n = if rng.chance(1, 3) { String::from(*rng.pick(&["reg_src", "reg_dst", "reg_output", "reg_input", "REG_SRCA", "stat", "Kk"][..])) } else { proggen::odd_name(rng) };
                let at = rng.below(g.stmts.len() as u64 + 1) as usize;
                let stmt = if n == "Kk" { String::from("wire kk:8; kk = 1; wire KK:8; KK = 2; wire kK:8; kK = 3; wire zz8:8; zz8 = Kk + 1;") }
                    else if rng.chance(1, 2) { format!("{} = 1;", n) } else { format!("wire zz9:8; zz9 = {} + 1;", n) };
                g.stmts.insert(at, proggen::Stmt::Raw(stmt));
            } else { proggen::inject_fault(rng, &mut g); }
        }
        if mode == 10 {
            // a bit selection whose bounds are beyond any width, on sized and unsized operands, where it is evaluated while
            // the program is built (constant, register default) or at run time (assignment)
            let hi = *rng.pick(&[129u128, 130, 200, 255, 256, 300, 65535, 1u128 << 64][..]);
            let lo = *rng.pick(&[0u128, 1, 100, 128, 129, 254][..]);
            let operand = *rng.pick(&["0xFF", "5", "(1+2)", "STAT_AOK", "0b1", "pc", "i10bytes", "(0xffffffffffffffffffffffffffffffff)", "-1"][..]);
            let sel = format!("{}[{}..{}]", operand, lo, hi);
            let stmt = match rng.below(4) {
                0 => format!("const ZQ9 = {};", sel),
                1 => format!("register qZ {{ a : 8 = {}; }} q_a = Z_a;", sel),
                2 => format!("wire zz9:8; zz9 = {};", sel),
                _ => format!("const ZQ9 = 1; wire zz9:64; zz9 = [ZQ9 == 1 : {}; 1 : 0];", sel),
            };
            let at = rng.below(g.stmts.len() as u64 + 1) as usize;
            g.stmts.insert(at, proggen::Stmt::Raw(stmt));
        }
        if mode == 11 {
            // case expressions of every shape: three to six arms of widths 3, 5 or unsized, each condition either the
            // constant 1 or a comparison; all the diagnostics about them (widths disagree, no / several defaults, arms
            // after the default) must render
            let narms = rng.range(3, 6);
            let mut arms = String::new();
            for _ in 0..narms {
                let cond = if rng.chance(1, 3) { String::from("1") } else { format!("zz8 == {}", rng.below(4)) };
                let val = *rng.pick(&["0b001", "0b00001", "2", "0b101", "zz8", "0b00010"][..]);
                arms.push_str(&format!(" {} : {};", cond, val));
            }
            let stmt = format!("wire zz8:3; zz8 = 1; wire zz9:{}; zz9 = [{} ];", rng.pick(&[3, 5, 8][..]), arms);
            let at = rng.below(g.stmts.len() as u64 + 1) as usize;
            g.stmts.insert(at, proggen::Stmt::Raw(stmt));
        }
        proggen::render_program(&g.stmts).into_bytes()
    };
    let mut how = String::from("soup");
    if mode != 0 && !bytes.is_empty() {
        match mode {
            8 => { how = String::from("half-wired-component"); }
            9 => { how = String::from("fault-injected"); }
            10 => { how = String::from("huge-slice-bounds"); }
            11 => { how = String::from("case-expression-shapes"); }
            12 => {
                // a forgotten semicolon at the end of a line, followed by a comment (or a blank) that ends in a character of
                // more than one byte: the error is at the first token of the next line
                let text = String::from_utf8_lossy(&bytes).into_owned();
                let mut lines: Vec<String> = text.split('\n').map(|l| l.to_string()).collect();
                let cands: Vec<usize> = (0..lines.len()).filter(|i| lines[*i].trim_end().ends_with(';') && *i + 1 < lines.len()).collect();
                if !cands.is_empty() {
                    let i = *rng.pick(&cands[..]);
                    let cut = lines[i].trim_end().len() - 1;
                    lines[i].truncate(cut);
                    lines[i].push_str(*rng.pick(&[" # aqu\u{ed}", " // fin de l\u{ed}nea \u{2014}", " /* \u{3b1} */ \u{a0}", "\u{a0}", " # \u{65e5}\u{672c}", " #\u{e9}"][..]));
                }
                bytes = lines.join("\n").into_bytes();
                how = String::from("missing-semicolon-before-non-ascii");
            }
            1 => { let cut = rng.below(bytes.len() as u64 + 1) as usize; bytes.truncate(cut); how = String::from("truncated"); }
            2 | 3 | 4 => {
                // edit at a blank: insert, delete or substitute one token
                let text = String::from_utf8_lossy(&bytes).into_owned();
                let mut words: Vec<String> = text.split(' ').map(|w| w.to_string()).collect();
                let k = rng.below(words.len() as u64) as usize;
                let t = String::from(*rng.pick(&toks[..]));
                if mode == 2 { words.insert(k, t); how = String::from("token-inserted"); }
                else if mode == 3 { words.remove(k); how = String::from("token-deleted"); }
                else { words[k] = t; how = String::from("token-substituted"); }
                bytes = words.join(" ").into_bytes();
            }
            5 => {
                let text = String::from_utf8_lossy(&bytes).into_owned();
                let eol = *rng.pick(&["\r\n", "\r", "\n\n"][..]);
                bytes = text.replace("\n", eol).into_bytes();
                how = String::from("line-endings");
            }
            6 => {
                let pos = rng.below(bytes.len() as u64) as usize;
                let junk: &[u8] = *rng.pick(&[&b"\xff"[..], &b"\xc3"[..], &b"\xe2\x82"[..], &b"\xc3\xa9"[..], &b"\xf0\x9f\x98\x80"[..], &b"\x00"[..],
                    &b"\xc2\xa0"[..], &b"\xe2\x80\xa8"[..], &b"\xe3\x80\x80"[..], &b"\xc2\x85"[..]][..]);
                for (j, b) in junk.iter().enumerate() { bytes.insert(pos + j, *b); }
                if rng.chance(1, 2) { bytes.truncate(pos + junk.len()); }
                how = String::from("non-ascii-or-invalid-utf8");
            }
            _ => {
                // end inside a literal, a comment or a multi-byte character
                let tail: &[u8] = *rng.pick(&[&b" x = 0x"[..], &b" x = 0b"[..], &b" /* never closed"[..], &b" x = 12"[..], &b" # c"[..], &b" x = \xe2\x82"[..], &b" x = y\xe2\x82\xac"[..], &b" /"[..], &b" ."[..],
                    // an unfinished statement followed by blanks of more than one byte, a comment, or nothing
                    &b" x = 1 +\xc2\xa0\n\n"[..], &b" x = 1 +\xe2\x80\xa8 \n"[..], &b" x = (\xe3\x80\x80  "[..], &b" wire q\xc2\xa0\xc2\xa0"[..],
                    &b" x = [ 1 : 2;\xc2\x85\n"[..], &b" register qR {\n  a : 8 = 0\n"[..], &b" x = 1 + # c\n\n"[..], &b" x = 1 + /* c */ \n"[..]][..]);
                bytes.extend_from_slice(tail);
                how = String::from("ends-inside-a-token");
            }
        }
    }
    // a byte order mark in front of the text (as some editors write): it is not blank space for the lexer, so the file is
    // rejected at line 1, column 1 - and nothing may be dropped from the text without the line table knowing
    if rng.chance(1, 25) {
        let mut b: Vec<u8> = vec![0xef, 0xbb, 0xbf];
        b.extend_from_slice(&bytes);
        bytes = b;
        how.push_str("+bom");
    }
    let text = String::from_utf8_lossy(&bytes).into_owned();
    (text, how)
}

/// S-TEXT: arbitrary texts as HCL files (token soup, truncations and single-token edits of valid programs, CR/CRLF,
/// non-ASCII, invalid UTF-8 made lossy like the real reader does): parse, build, and render the diagnostics
pub fn anytext(rng: &mut Rng, count: u64, emit: Emit) {
    use hclrs::{parse_y86_hcl, FileContents};
    use std::panic::{catch_unwind, AssertUnwindSafe};
    let pre = hclrs::verif_hooks::y86_preamble();
    for _ in 0..count {
        let (text, how) = anytext_input(rng);
        // rendering of the diagnostics, like main() does
        let t2 = text.clone();
        let rendered = catch_unwind(AssertUnwindSafe(|| {
            crate::watch::note_text("anytext", &t2);
            let contents = FileContents::new_from_data(pre, &t2, "t.hcl");
            match parse_y86_hcl(&contents) {
                Ok(_) => String::from("accepted"),
                Err(e) => {
                    let mut buf: Vec<u8> = Vec::new();
                    e.format_for_contents(&mut buf, &contents).unwrap();
                    let out = String::from_utf8_lossy(&buf).into_owned();
                    let nerr = out.lines().filter(|l| l.starts_with("error:")).count();
                    let internal = out.contains("nternal") as u8;
                    let builtin = out.contains("<builtin>") as u8;
                    format!("errors={}/internal={}/builtin={}", std::cmp::min(nerr, 1), internal, builtin)
                }
            }
        }));
        let rendered = match rendered { Ok(r) => r, Err(_) => String::from("RENDER-PANIC") };
        let out = run_program_rep(&text, 1, &[], &format!("(text {})", sexp_escape(&text)), 1);
        match out.request {
            Some(req) => emit(format!("(anytext (how {}) (render {}) {})", how, rendered, req), out.result),
            None => {
                let t3 = text.clone();
                crate::watch::note_text("lex", &t3);
                let res = catch_unwind(move || hclrs::verif_hooks::lex(&t3));
                let lexed = match res {
                    Err(_) => String::from("PANIC"),
                    Ok((toks, err)) => {
                        let mut items: Vec<String> = toks.iter().map(|(s, t, e)| format!("{}:{}:{}", s, t, e)).collect();
                        if let Some(es) = err {
                            for d in es {
                                let sp: Vec<String> = d.spans.iter().map(|(a, b)| if d.kind == "InvalidConstant" { format!("{}:{}", a, b) } else { format!("{}", a) }).collect();
                                items.push(format!("ERR:{}:{}", d.kind, sp.join(":")));
                            }
                        }
                        items.join(" ")
                    }
                };
                let cps: Vec<String> = text.chars().map(|c| (c as u32).to_string()).collect();
                emit(format!("(anytext (how {}) (render {}) (outcome {}) (lex {} (text {})))", how, rendered,
                             sexp_escape(&out.result), cls3_sexp(&text), cps.join(" ")), lexed);
            }
        }
    }
}

fn strip_spans(sexp: &str) -> String {
    // "(tag S E " -> "(tag "
    let mut out = String::new();
    let b: Vec<char> = sexp.chars().collect();
    let mut i = 0;
    while i < b.len() {
        out.push(b[i]);
        if b[i] == '(' && i + 1 < b.len() && b[i + 1].is_ascii_alphabetic() {
            // copy tag
            let mut j = i + 1;
            while j < b.len() && b[j].is_ascii_alphabetic() { out.push(b[j]); j += 1; }
            // skip " S E"
            let mut k = j;
            for _ in 0..2 {
                if k < b.len() && b[k] == ' ' { let mut m = k + 1; while m < b.len() && b[m].is_ascii_digit() { m += 1; } if m > k + 1 { k = m; } }
            }
            i = k;
            continue;
        }
        i += 1;
    }
    out
}

/// S-PARSE: expression trees written with minimal and with full parentheses must parse to the same tree
pub fn parse(rng: &mut Rng, count: u64, emit: Emit) {
    use crate::gen::{render, render_min, GExpr, Scope, W};
    let ops: Vec<&'static str> = vec!["||", "&&", "==", "!=", "<", "<=", ">", ">=", "|", "^", "&", "<<", ">>", "+", "-", "*", "/"];
    let mut exhaustive: Vec<GExpr> = Vec::new();
    let leaf = |n: &str| GExpr::Name(n.to_string());
    // all ordered pairs and triples of binary operators, both groupings of the tree
    for a in &ops { for b in &ops {
        exhaustive.push(GExpr::Bin(a, Box::new(GExpr::Bin(b, Box::new(leaf("x")), Box::new(leaf("y")))), Box::new(leaf("z"))));
        exhaustive.push(GExpr::Bin(a, Box::new(leaf("x")), Box::new(GExpr::Bin(b, Box::new(leaf("y")), Box::new(leaf("z"))))));
    } }
    for u in &["-", "~", "!", "+"] { for a in &ops {
        exhaustive.push(GExpr::Bin(a, Box::new(GExpr::Un(u, Box::new(leaf("x")))), Box::new(leaf("y"))));
        exhaustive.push(GExpr::Bin(a, Box::new(leaf("x")), Box::new(GExpr::Un(u, Box::new(leaf("y"))))));
        exhaustive.push(GExpr::Un(u, Box::new(GExpr::Bin(a, Box::new(leaf("x")), Box::new(leaf("y"))))));
        exhaustive.push(GExpr::Bin(a, Box::new(GExpr::In(Box::new(leaf("x")), vec![leaf("p"), leaf("q")])), Box::new(leaf("y"))));
        exhaustive.push(GExpr::In(Box::new(GExpr::Bin(a, Box::new(leaf("x")), Box::new(leaf("y")))), vec![leaf("p")]));
    } }
    let total = count as usize;
    for idx in 0..total {
        let e = if idx < exhaustive.len() { exhaustive[idx].clone() } else if rng.chance(1, 3) {
            // random triples
            let a = *rng.pick(&ops[..]); let b = *rng.pick(&ops[..]); let c = *rng.pick(&ops[..]);
            let inner = GExpr::Bin(b, Box::new(leaf("x")), Box::new(leaf("y")));
            let mid = if rng.chance(1, 2) { GExpr::Bin(a, Box::new(inner), Box::new(leaf("z"))) } else { GExpr::Bin(a, Box::new(leaf("z")), Box::new(inner)) };
            if rng.chance(1, 2) { GExpr::Bin(c, Box::new(mid), Box::new(leaf("w"))) } else { GExpr::Bin(c, Box::new(leaf("w")), Box::new(mid)) }
        } else {
            let (mut sc, _) = crate::gen::operand_scope(rng);
            let w = if rng.chance(1, 4) { W::Unl } else { W::Bits(*rng.pick(&crate::gen::WIDTHS)) };
            let depth = rng.range(1, 4) as u32;
            let _ = Scope::new(vec![]);
            crate::gen::gen(rng, &mut sc, w, depth)
        };
        let tmin = render_min(&e);
        let tfull = render(&e);
        crate::watch::note_text("parse", &tfull);
        let pmin = hclrs::verif_hooks::parse_expr(&tmin);
        let pfull = hclrs::verif_hooks::parse_expr(&tfull);
        // the same text with comments, blanks, CR/LF put where it has a blank, and wrapped in redundant parentheses
        let mut ttriv = String::new();
        for ch in tmin.chars() {
            if ch == ' ' && rng.chance(1, 2) {
                ttriv.push_str(*rng.pick(&["  ", "\n", "\r\n", "\t", " /* c */ ", " # c\n", " // c\r\n", " /***/ ", "\r"][..]));
            } else { ttriv.push(ch); }
        }
        if rng.chance(1, 3) { ttriv = format!("(({}))", ttriv); }
        let ptriv = hclrs::verif_hooks::parse_expr(&ttriv);
        let result = match (&pmin, &pfull, &ptriv) {
            (Ok(a), Ok(b), Ok(c)) => if strip_spans(a) != strip_spans(b) { format!("DIFF min={} full={}", strip_spans(a), strip_spans(b)) }
                else if strip_spans(a) != strip_spans(c) { format!("DIFF-TRIVIA min={} trivia={}", strip_spans(a), strip_spans(c)) }
                else { format!("same {}", a) },
            (Err(_), _, _) => format!("ERR-min {}", tmin),
            (_, Err(_), _) => format!("ERR-full {}", tfull),
            (_, _, Err(_)) => format!("ERR-trivia {}", ttriv.replace('\n', "\\n").replace('\r', "\\r")),
        };
        let cps: Vec<String> = tmin.chars().map(|c| (c as u32).to_string()).collect();
        emit(format!("(parse {} (text {}) (src {}))", cls3_sexp(&tmin), cps.join(" "), sexp_escape(&tmin)), result);
    }
}

/// C12 ("renaming wires consistently or reordering statements leaves every wire's value in every cycle and the final
/// machine state unchanged"): a generated program, the same statements shuffled, and the program with every declared
/// wire and constant renamed, all through the real code; the three must agree (the result reported is the first
/// program's, or a description of the disagreement)
pub fn reorder(rng: &mut Rng, count: u64, emit: Emit) {
    fn rename_expr(e: &crate::gen::GExpr, f: &dyn Fn(&str) -> String) -> crate::gen::GExpr {
        use crate::gen::GExpr::*;
        match e {
            Const(v, w, sp) => Const(*v, *w, *sp),
            Name(n) => Name(f(n)),
            Bin(op, a, b) => Bin(*op, Box::new(rename_expr(a, f)), Box::new(rename_expr(b, f))),
            Un(op, a) => Un(*op, Box::new(rename_expr(a, f))),
            Mux(arms) => Mux(arms.iter().map(|(c, v)| (rename_expr(c, f), rename_expr(v, f))).collect()),
            Slice(a, lo, hi) => Slice(Box::new(rename_expr(a, f)), *lo, *hi),
            Concat(a, b) => Concat(Box::new(rename_expr(a, f)), Box::new(rename_expr(b, f))),
            In(a, items) => In(Box::new(rename_expr(a, f)), items.iter().map(|x| rename_expr(x, f)).collect()),
        }
    }
    // values of a state string sorted by (renamed) name; diagnostics as a sorted list
    fn canon(result: &str, f: &dyn Fn(&str) -> String, names_in_diags: bool) -> String {
        if result.starts_with("ok") {
            let mut out = String::new();
            for part in result.split(' ') {
                if part.starts_with('{') {
                    let inner = &part[1..part.len() - 1];
                    let mut secs = inner.splitn(2, '|');
                    let vals = secs.next().unwrap_or("");
                    let rest = secs.next().unwrap_or("");
                    let mut items: Vec<String> = vals.split(',').filter(|x| !x.is_empty()).map(|kv| {
                        let mut p = kv.splitn(2, '=');
                        let n = p.next().unwrap_or("");
                        format!("{}={}", f(n), p.next().unwrap_or(""))
                    }).collect();
                    items.sort();
                    out.push_str(&format!("{{{}|{}}} ", items.join(","), rest));
                } else { out.push_str(part); out.push(' '); }
            }
            out
        } else if result.starts_with("rej") {
            let mut items: Vec<String> = result.split(' ').skip(1).map(|d| {
                let mut p = d.split(':');
                let kind = p.next().unwrap_or("").to_string();
                if kind == "WireLoop" || !names_in_diags { kind } else {
                    let names: Vec<String> = p.map(|n| f(n)).collect();
                    format!("{}:{}", kind, names.join(":"))
                }
            }).collect();
            items.sort();
            format!("rej {}", items.join(" "))
        } else { result.to_string() }
    }
    for _ in 0..count {
        let profile = *rng.pick(&[Profile::Dag, Profile::Banks, Profile::RegFile, Profile::Memory, Profile::Status]);
        let mut g = proggen::program(rng, profile);
        // a fault now and then: rejection must not depend on the order or the names either
        if rng.chance(1, 5) { proggen::inject_fault(rng, &mut g); }
        let text = proggen::render_program(&g.stmts);
        let base = run_program(&text, g.cycles, &g.mem, &format!("(tags reorder) (text {})", sexp_escape(&text)));
        let mut result = base.result.clone();
        let id = |n: &str| n.to_string();
        // the statements in another order
        let mut st2 = g.stmts.clone();
        rng.shuffle(&mut st2);
        let text2 = proggen::render_program(&st2);
        let r2 = run_program(&text2, g.cycles, &g.mem, "");
        if canon(&r2.result, &id, true) != canon(&base.result, &id, true) {
            result = format!("REORDER-DIFF shuffled statements give {} instead of {} for {}", &r2.result[..r2.result.len().min(160)],
                &base.result[..base.result.len().min(160)], sexp_escape(&text2));
        } else if !g.stmts.iter().any(|s| matches!(s, proggen::Stmt::Raw(_))) {
            // every declared wire and constant under a new name
            let mut declared: Vec<String> = Vec::new();
            for s in &g.stmts { match s { proggen::Stmt::Wire(n, _) | proggen::Stmt::Const(n, _) => declared.push(n.clone()), _ => {} } }
            let salt = rng.below(1000);
            let style = rng.below(3);
            let f = move |n: &str| -> String {
                if declared.iter().any(|d| d == n) {
                    match style { 0 => format!("zq{}k{}", n, salt), 1 => format!("{}_{}", n.to_uppercase(), salt), _ => format!("\u{e9}{}\u{3b1}", n) }
                } else { n.to_string() }
            };
            let st3: Vec<proggen::Stmt> = g.stmts.iter().map(|s| match s {
                proggen::Stmt::Wire(n, w) => proggen::Stmt::Wire(f(n), *w),
                proggen::Stmt::Const(n, e) => proggen::Stmt::Const(f(n), rename_expr(e, &f)),
                proggen::Stmt::Assign(ns, e) => proggen::Stmt::Assign(ns.iter().map(|n| f(n)).collect(), rename_expr(e, &f)),
                proggen::Stmt::Bank(n, regs) => proggen::Stmt::Bank(n.clone(), regs.iter().map(|(r, w, d)| (r.clone(), *w, rename_expr(d, &f))).collect()),
                proggen::Stmt::Raw(t) => proggen::Stmt::Raw(t.clone()),
            }).collect();
            let text3 = proggen::render_program(&st3);
            let r3 = run_program(&text3, g.cycles, &g.mem, "");
            if canon(&r3.result, &id, false) != canon(&base.result, &f, false) {
                result = format!("RENAME-DIFF renamed wires give {} instead of {} for {}", &r3.result[..r3.result.len().min(160)],
                    &base.result[..base.result.len().min(160)], sexp_escape(&text3));
            }
        }
        match base.request {
            Some(req) => emit(req, result),
            None => emit(format!("(noparse {})", sexp_escape(&text)), result),
        }
    }
}

/// C18: the lines `--trace-assignments` and `-d` print about assignments and built-in components in every cycle (the order
/// of the lines follows the evaluation order, which depends on hash seeds: they are compared as a sorted list)
pub fn messages(rng: &mut Rng, count: u64, emit: Emit) {
    use std::fmt::Write;
    for _ in 0..count {
        let profile = *rng.pick(&[Profile::Dag, Profile::Banks, Profile::RegFile, Profile::RegFile, Profile::Memory, Profile::Memory]);
        let g = proggen::program(rng, profile);
        let text = proggen::render_program(&g.stmts);
        let assigns = rng.chance(1, 2);
        crate::watch::note_text("messages", &text);
        let full = format!("{}{}", hclrs::verif_hooks::y86_preamble(), text);
        let sexp = match hclrs::verif_hooks::parse_statements(&full) { Ok(s) => s, Err(_) => { emit(format!("(noparse {})", sexp_escape(&text)), String::from("noparse")); continue; } };
        let contents = hclrs::FileContents::new_from_data(hclrs::verif_hooks::y86_preamble(), &text, "t.hcl");
        let result = std::panic::catch_unwind(std::panic::AssertUnwindSafe(|| match hclrs::parse_y86_hcl(&contents) {
            Err(e) => format!("rej {}", crate::progrun::diag_string(&hclrs::verif_hooks::error_summary(&e))),
            Ok(program) => {
                let mut rp = hclrs::RunningProgram::new_y86(program);
                rp.verif_set_memory(&g.mem);
                let mut o = hclrs::RunOptions::default();
                o.set_quiet();
                if assigns { o.set_trace(); } else { o.set_debug(); o.set_quiet(); o.set_debug(); }
                rp.set_options(o);
                let mut all = String::new();
                let mut fin = String::from("ok");
                for _ in 0..g.cycles {
                    let mut out: Vec<u8> = Vec::new();
                    match rp.step_with_output(&mut out) {
                        Ok(()) => {
                            let t = String::from_utf8_lossy(&out).into_owned();
                            // without --trace-assignments the -d table follows the messages: keep what comes before it
                            let end = t.find("Values of").unwrap_or(t.len());
                            let mut lines: Vec<&str> = t[..end].lines().filter(|l| !l.is_empty()).collect();
                            lines.sort();
                            all.push_str(&lines.join("\n"));
                            all.push_str("\n=====\n");
                        }
                        Err(e) => { fin = crate::progrun::diag_string(&hclrs::verif_hooks::error_summary(&e)); break; }
                    }
                }
                format!("{}end={}", all, fin)
            }
        })).unwrap_or(String::from("PANIC"));
        let mut memf = String::from("(mem");
        for (a, b) in &g.mem { write!(memf, " ({} {})", a, b).unwrap(); }
        memf.push(')');
        emit(format!("(messages {} {} (cycles {}) (assigns {}) {} (text {}) {})", crate::progrun::flags_sexp(), crate::progrun::cls_sexp(&text),
                     g.cycles, if assigns { 1 } else { 0 }, memf, sexp_escape(&text), crate::progrun::stmts_fields(&sexp)), result);
    }
}
