import Hcl.Proofs.ParseParensCtx
import Hcl.Proofs.LexRun
open Parser Lexer

/-!
# C11 — an expression means the same as its fully parenthesised form; layout at every place the lexer reaches

`Parser.D` is the expression grammar as a derivation relation on token kinds, with the rule that every `SimpleTerm`
position admits a parenthesised expression; the parser model finds every derivation, whatever the token positions.
-/

/-- the parser finds every derivation of the grammar (redundant parentheses anywhere included) -/
theorem C11_parser_complete {x : Ex} {ts : List Tok} (h : D (.tier 0) (.e x) ts) (toks : Toks) (hk : kinds toks = ts) :
    ∃ px s e, parseTier (14 * toks.length + 40) 0 toks = (some (px, s, e, []) : P PEx) ∧ px.erase = x :=
  Parser.parse_complete h toks hk

/-- an extra pair of parentheses around any expression in any operand position is a derivation of the same tree -/
theorem C11_parens_anywhere {x : Ex} {ts : List Tok} {m : Nat} (h : D (.tier m) (.e x) ts) (hm : m ≤ 10) {k : Nat}
    (hk : k ≤ 10) : D (.tier k) (.e x) (.OpenParen :: (ts ++ [.CloseParen])) :=
  D.parens h hm hk

/-- **the fully parenthesised and the minimally parenthesised rendering of a tree both parse to the tree** -/
theorem C11_fully_parenthesised_form (x : Ex) (hx : okEx x = true) (toks toks' : Toks) (hk : kinds toks = ppMin x)
    (hk' : kinds toks' = ppFull x) : parseE toks = some (x, []) ∧ parseE toks' = some (x, []) :=
  ⟨Parser.parseE_ppMin x hx toks hk, Parser.parseE_ppFull x hx toks' hk'⟩

/-- layout at any place the lexer reaches, stated with `Reach` only -/
theorem C11_layout_at_reached_place (cls : CharCls) (t b w : List Char) (pre : List Item) (o : Nat)
    (hreach : Reach cls (sizeOf' (t ++ b)) (t ++ b) 0 pre b o) (ha : ∀ p, Agree cls p b (w ++ b)) (hw : Skips cls w b) :
    parseProgram cls (t ++ (w ++ b)) = parseProgram cls (t ++ b) :=
  Lexer.parseProgram_insert_reach cls t b w pre o hreach ha hw

#print axioms C11_parser_complete
#print axioms C11_fully_parenthesised_form
#print axioms C11_layout_at_reached_place
