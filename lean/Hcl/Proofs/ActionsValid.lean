import Hcl.Proofs.ActionsSound
import Hcl.Proofs.Settle

/-! The value-writing part of an accepted program's action list is a *valid schedule* in the sense of C01
    (`ValidFrom`): every such action is pure, outputs are pairwise distinct, and no action reads a wire that it
    or a later action writes. -/

theorem pure_writes (a : Action) (h : a.isPure = true) : a.writes = [a.out] := by
  cases a <;> simp_all [Action.isPure, Action.writes, Action.out]

/-- from a schedule with distinct outputs none of which is initially available -/
theorem sched_to_validFrom : ∀ (l : List Action) (avail before : List String),
    Sched avail l → (∀ a ∈ l, a.isPure = true) → (l.map Action.out).Nodup →
    (∀ b ∈ before, b ∉ l.map Action.out) → (∀ n ∈ avail, n ∉ l.map Action.out) → ValidFrom before l
  | [], _, _, _, _, _, _, _ => trivial
  | a :: rest, avail, before, hs, hp, hnd, hb, hav => by
    simp only [List.map_cons, List.nodup_cons] at hnd
    have hpa := hp a List.mem_cons_self
    refine ⟨hpa, ?_, hnd.1, ?_, ?_⟩
    · intro h; exact hb _ h (by simp)
    · intro x hx; exact hav x (hs.1 x hx)
    · apply sched_to_validFrom rest (avail ++ a.writes) (a.out :: before) hs.2
        (fun b hb' => hp b (List.mem_cons_of_mem _ hb')) hnd.2
      · intro b hb' hm
        rcases List.mem_cons.mp hb' with h | h
        · subst h; exact hnd.1 hm
        · exact hb b h (by simp [hm])
      · intro n hn hm
        rcases List.mem_append.mp hn with h | h
        · exact hav n h (by simp [hm])
        · rw [pure_writes a hpa] at h
          simp at h; subst h; exact hnd.1 hm

section
variable (fl : Flags) (assignments : AMap Ex) (widths : AMap Width) (declared : List String)
  (constants : AMap WireValue) (byOutput : AMap FixedFunction)

/-- what a clean turn of the loop does: it appends exactly one action, which writes the name being processed -/
theorem loopStep_clean_cases (st : LoopState) (name : String)
    (hby : ∀ n f, byOutput.get? n = some f → f.action.isPure = true ∧ f.action.writes = [n])
    (hclean : (loopStep fl assignments widths declared constants byOutput st name).Clean) :
    ∃ a, (loopStep fl assignments widths declared constants byOutput st name).result = st.result ++ [a] ∧
      a.isPure = true ∧ a.out = name ∧ ((assignments.get? name).isSome = true ∨ (byOutput.get? name).isSome = true) := by
  cases h1 : assignments.get? name with
  | some expr =>
    cases h2 : widths.get? name with
    | none =>
      exfalso
      unfold loopStep LoopState.Clean at hclean
      simp only [h1, h2] at hclean
      split at hclean <;> simp at hclean
    | some w =>
      cases h3 : check fl widths.toCtx constants.toEnv expr with
      | error ds =>
        exfalso
        unfold loopStep LoopState.Clean at hclean
        simp only [h1, h2, h3] at hclean
        have hds : ds ≠ [] := check_err fl _ _ expr ds h3
        split at hclean <;> simp_all
      | ok ew =>
        refine ⟨Action.assign name (fixMux fl widths.toCtx constants.toEnv expr) w, ?_, rfl, rfl, Or.inl rfl⟩
        unfold loopStep
        simp only [h1, h2, h3]
        repeat' split
        all_goals rfl
  | none =>
    cases h2 : byOutput.get? name with
    | none =>
      exfalso
      unfold loopStep LoopState.Clean at hclean
      simp only [h1, h2] at hclean
      split at hclean <;> simp_all [setInsert_ne_nil]
    | some f =>
      obtain ⟨hp, hw⟩ := hby name f h2
      refine ⟨f.action, ?_, hp, ?_, Or.inr rfl⟩
      · unfold loopStep
        simp only [h1, h2]
        split <;> rfl
      · have := pure_writes f.action hp
        rw [hw] at this
        simp at this; exact this.symm

theorem actionsLoop_outs (names : List String) (st : LoopState)
    (hby : ∀ n f, byOutput.get? n = some f → f.action.isPure = true ∧ f.action.writes = [n])
    (hclean : (actionsLoop fl assignments widths declared constants byOutput names st).Clean) :
    ∃ added, (actionsLoop fl assignments widths declared constants byOutput names st).result = st.result ++ added ∧
      added.map Action.out = names ∧ (∀ a ∈ added, a.isPure = true) ∧
      ∀ n ∈ names, (assignments.get? n).isSome = true ∨ (byOutput.get? n).isSome = true := by
  induction names generalizing st with
  | nil => exact ⟨[], by simp [actionsLoop], rfl, by simp, by simp⟩
  | cons name rest ih =>
    have hstep : actionsLoop fl assignments widths declared constants byOutput (name :: rest) st =
        actionsLoop fl assignments widths declared constants byOutput rest
          (loopStep fl assignments widths declared constants byOutput st name) := by
      simp [actionsLoop]
    rw [hstep] at hclean ⊢
    have hc1 := actionsLoop_clean_back fl assignments widths declared constants byOutput rest _ hclean
    obtain ⟨a, ha1, ha2, ha3, ha4⟩ := loopStep_clean_cases fl assignments widths declared constants byOutput st name hby hc1
    obtain ⟨added, hb1, hb2, hb3, hb4⟩ := ih _ hclean
    refine ⟨a :: added, ?_, ?_, ?_, ?_⟩
    · rw [hb1, ha1]; simp
    · simp [ha3, hb2]
    · intro b hb
      rcases List.mem_cons.mp hb with h | h
      · subst h; exact ha2
      · exact hb3 b h
    · intro n hn
      rcases List.mem_cons.mp hn with h | h
      · subst h; exact ha4
      · exact hb4 n h
end

/-- the table of built-in components: a component has an output wire exactly when its action writes a value -/
theorem y86Fixed_pure : y86FixedFunctions.all (fun f => f.outWire.isSome == f.action.isPure) = true := by decide

/-- **the actions of an accepted program**: `pre ++ fin`, where `pre` (the value-writing actions) is a valid
    schedule over the known values and `fin` are the state-changing actions -/
theorem assignmentsToActions_valid (fl : Flags) (o : Orders) (assignments : AMap Ex) (widths : AMap Width)
    (known : List String) (fixed : List FixedFunction) (declared : List String) (constants : AMap WireValue)
    (actions : List Action) (ho : OrdersOK o) (ht : FixedTableOK fixed) (hk : assignments.keys.Nodup)
    (hpure : ∀ f ∈ fixed, f.outWire.isSome = f.action.isPure)
    (hdisj : ∀ k ∈ assignments.keys, k ∉ known)
    (h : assignmentsToActions fl o assignments widths known fixed declared constants = .ok actions) :
    ∃ pre fin, actions = pre ++ fin ∧ ValidFrom [] pre ∧ (∀ a ∈ fin, a.isPure = false) ∧
      Sched known pre ∧ (∀ n ∈ known, n ∉ pre.map Action.out) ∧
      (∀ k ∈ assignments.keys, k ∈ pre.map Action.out) ∧ fin.Sublist (fixed.map (·.action)) := by
  unfold assignmentsToActions at h
  simp only at h
  obtain ⟨g0wf, g0nodes, g0edges⟩ := assignGraph_spec assignments known hk
  generalize hg0 : assignGraph assignments known = g0 at h g0wf g0nodes g0edges
  generalize hpre : fixed.foldl (preprocessOne fl widths constants assignments known) { graph := g0 } = pre at h
  by_cases hpe : pre.errors.isEmpty = true
  · have hpe' : pre.errors = [] := by simpa using hpe
    simp only [hpe, Bool.not_true, Bool.false_eq_true, if_false] at h
    have hg0c : ∀ e ∈ g0.edges, assignments.contains e.2 = true := by
      intro e he
      obtain ⟨ex, hm, _⟩ := (g0edges e.1 e.2).mp he
      exact (AMap.contains_iff_mem_keys _ _).mpr (List.mem_map.mpr ⟨(e.2, ex), hm, rfl⟩)
    have hinit : PreFacts assignments known g0 [] ({ graph := g0 } : PreState) :=
      { noOut := by intro f hf; simp at hf
        byKeys := by simp [AMap.keys]
        byOut := by intro n f hf; simp at hf
        wf := g0wf
        nodes := fun n hn => hn
        edges := fun e he => Or.inl he
        noOutSub := List.Sublist.refl _
        edgesG0 := fun e he => he
        edgesFixed := by intro n f hf; simp at hf }
    have hpf := preprocess_fold_facts fl widths constants assignments known fixed ht g0 hg0c fixed [] _ (by simp) hinit
      (by rw [hpre]; exact hpe')
    rw [hpre] at hpf
    rcases pre.graph.sort_spec o hpf.wf ho with ⟨order, hso, hond, hcover, _⟩ | ⟨c, hsc, _⟩
    · rw [hso] at h
      simp only at h
      generalize hst : actionsLoop fl assignments widths declared constants pre.info.byOutput order { covered := known } = st at h
      by_cases herr : (st.errors ++ st.seenUndeclared.map (fun n => (⟨.UnsetUndeclaredWire, [n]⟩ : Diag))).isEmpty = true
      · simp only [herr, if_true, Except.ok.injEq] at h
        have hclean : st.Clean := by
          have : st.errors ++ st.seenUndeclared.map (fun n => (⟨.UnsetUndeclaredWire, [n]⟩ : Diag)) = [] := by simpa using herr
          rw [List.append_eq_nil_iff] at this
          exact ⟨this.1, by simpa using this.2⟩
        have hbyfix : ∀ n f, pre.info.byOutput.get? n = some f → f ∈ fixed ∧ fixedFnOK f = true ∧ ∃ w, f.outWire = some (n, w) := by
          intro n f hget
          have := hpf.byOut n f (AMap.mem_of_get? _ _ _ hget)
          exact ⟨this.1, ht.fn f this.1, this.2.1⟩
        have hby : ∀ n f, pre.info.byOutput.get? n = some f → f.action.isPure = true ∧ f.action.writes = [n] := by
          intro n f hget
          obtain ⟨hf, hok, w, hout⟩ := hbyfix n f hget
          refine ⟨?_, ?_⟩
          · rw [← hpure f hf, hout]; rfl
          · rw [fixedFnOK_writes hok, hout]
        have hinitL : LoopFacts known (GoodAction fl assignments widths constants fixed) ({ covered := known } : LoopState) :=
          { sched := trivial, covered := fun n hn => Or.inl hn, good := by intro a ha; simp at ha }
        obtain ⟨hfacts, hcov⟩ := actionsLoop_facts fl assignments widths declared constants pre.info.byOutput known fixed order _ hbyfix
          (by rw [hst]; exact hclean) hinitL
        obtain ⟨added, hres, houts, hpureA, hkinds⟩ := actionsLoop_outs fl assignments widths declared constants pre.info.byOutput order _ hby
          (by rw [hst]; exact hclean)
        rw [hst] at hfacts hcov hres
        simp only [List.nil_append] at hres
        have hknown_out : ∀ n ∈ known, n ∉ order := by
          intro n hn hmem
          rcases hkinds n hmem with h1 | h1
          · have : n ∈ assignments.keys := by
              rw [← AMap.contains_iff_mem_keys, ← AMap.get?_isSome_iff_contains]; exact h1
            exact hdisj n this hn
          · cases hg : pre.info.byOutput.get? n with
            | none => rw [hg] at h1; simp at h1
            | some f =>
              have := (hpf.byOut n f (AMap.mem_of_get? _ _ _ hg)).2.2.2.2
              have hc : known.contains n = true := by simpa using hn
              rw [hc] at this; cases this
        refine ⟨st.result, pre.info.noOutput.map (·.action), h.symm, ?_, ?_, hfacts.sched, ?_, ?_, hpf.noOutSub.map _⟩
        · rw [hres]
          apply sched_to_validFrom added known [] (by rw [← hres]; exact hfacts.sched) hpureA (by rw [houts]; exact hond)
          · intro b hb; simp at hb
          · intro n hn; rw [houts]; exact hknown_out n hn
        · intro a ha
          obtain ⟨f, hf, rfl⟩ := List.mem_map.mp ha
          obtain ⟨hfd, hnone, _⟩ := hpf.noOut f hf
          have := hpure f hfd
          rw [hnone] at this
          simpa using this.symm
        · intro n hn; rw [hres, houts]; exact hknown_out n hn
        · intro k hk'
          rw [hres, houts]
          exact (hcover k).mpr (hpf.nodes k (g0nodes k hk'))
      · simp only [herr] at h
        simp at h
    · rw [hsc] at h; simp at h
  · simp only [hpe] at h
    simp at h

/-! ### the actions do not depend on the iteration order -/

/-- the action the loop emits for a name (when it emits one) depends only on the tables, not on the order -/
def actionOf (fl : Flags) (assignments : AMap Ex) (widths : AMap Width) (constants : AMap WireValue)
    (byOutput : AMap FixedFunction) (name : String) : Option Action :=
  match assignments.get? name with
  | some e => (widths.get? name).map (fun w => Action.assign name (fixMux fl widths.toCtx constants.toEnv e) w)
  | none => (byOutput.get? name).map (·.action)

section
variable (fl : Flags) (assignments : AMap Ex) (widths : AMap Width) (declared : List String)
  (constants : AMap WireValue) (byOutput : AMap FixedFunction)

theorem loopStep_clean_actionOf (st : LoopState) (name : String)
    (hclean : (loopStep fl assignments widths declared constants byOutput st name).Clean) :
    ∃ a, (loopStep fl assignments widths declared constants byOutput st name).result = st.result ++ [a] ∧
      actionOf fl assignments widths constants byOutput name = some a := by
  cases h1 : assignments.get? name with
  | some expr =>
    cases h2 : widths.get? name with
    | none =>
      exfalso
      unfold loopStep LoopState.Clean at hclean
      simp only [h1, h2] at hclean
      split at hclean <;> simp at hclean
    | some w =>
      cases h3 : check fl widths.toCtx constants.toEnv expr with
      | error ds =>
        exfalso
        unfold loopStep LoopState.Clean at hclean
        simp only [h1, h2, h3] at hclean
        have hds : ds ≠ [] := check_err fl _ _ expr ds h3
        split at hclean <;> simp_all
      | ok ew =>
        refine ⟨Action.assign name (fixMux fl widths.toCtx constants.toEnv expr) w, ?_, ?_⟩
        · unfold loopStep
          simp only [h1, h2, h3]
          repeat' split
          all_goals rfl
        · simp [actionOf, h1, h2]
  | none =>
    cases h2 : byOutput.get? name with
    | none =>
      exfalso
      unfold loopStep LoopState.Clean at hclean
      simp only [h1, h2] at hclean
      split at hclean <;> simp_all [setInsert_ne_nil]
    | some f =>
      refine ⟨f.action, ?_, ?_⟩
      · unfold loopStep
        simp only [h1, h2]
        split <;> rfl
      · simp [actionOf, h1, h2]

theorem actionsLoop_result (names : List String) (st : LoopState)
    (hclean : (actionsLoop fl assignments widths declared constants byOutput names st).Clean) :
    (actionsLoop fl assignments widths declared constants byOutput names st).result =
      st.result ++ names.filterMap (actionOf fl assignments widths constants byOutput) ∧
    ∀ n ∈ names, (actionOf fl assignments widths constants byOutput n).isSome = true := by
  induction names generalizing st with
  | nil => simp [actionsLoop]
  | cons name rest ih =>
    have hstep : actionsLoop fl assignments widths declared constants byOutput (name :: rest) st =
        actionsLoop fl assignments widths declared constants byOutput rest
          (loopStep fl assignments widths declared constants byOutput st name) := by
      simp [actionsLoop]
    rw [hstep] at hclean ⊢
    have hc1 := actionsLoop_clean_back fl assignments widths declared constants byOutput rest _ hclean
    obtain ⟨a, ha1, ha2⟩ := loopStep_clean_actionOf fl assignments widths declared constants byOutput st name hc1
    obtain ⟨hb1, hb2⟩ := ih _ hclean
    constructor
    · rw [hb1, ha1, List.filterMap_cons, ha2]
      simp
    · intro n hn
      rcases List.mem_cons.mp hn with h | h
      · subst h; rw [ha2]; rfl
      · exact hb2 n h
end

/-- two iteration orders: the same set of actions -/
theorem assignmentsToActions_order_independent (fl : Flags) (o₁ o₂ : Orders) (assignments : AMap Ex) (widths : AMap Width)
    (known : List String) (fixed : List FixedFunction) (declared : List String) (constants : AMap WireValue)
    (acts₁ acts₂ : List Action) (ho₁ : OrdersOK o₁) (ho₂ : OrdersOK o₂) (ht : FixedTableOK fixed) (hk : assignments.keys.Nodup)
    (hpure : ∀ f ∈ fixed, f.outWire.isSome = f.action.isPure)
    (h₁ : assignmentsToActions fl o₁ assignments widths known fixed declared constants = .ok acts₁)
    (h₂ : assignmentsToActions fl o₂ assignments widths known fixed declared constants = .ok acts₂) :
    ∃ pre₁ pre₂ fin, acts₁ = pre₁ ++ fin ∧ acts₂ = pre₂ ++ fin ∧ (∀ a, a ∈ pre₁ ↔ a ∈ pre₂) ∧
      (∀ a ∈ pre₁, a.isPure = true) ∧ (∀ a ∈ pre₂, a.isPure = true) ∧ (∀ a ∈ fin, a.isPure = false) := by
  unfold assignmentsToActions at h₁ h₂
  simp only at h₁ h₂
  obtain ⟨g0wf, g0nodes, g0edges⟩ := assignGraph_spec assignments known hk
  generalize hg0 : assignGraph assignments known = g0 at h₁ h₂ g0wf g0nodes g0edges
  generalize hpre : fixed.foldl (preprocessOne fl widths constants assignments known) { graph := g0 } = pre at h₁ h₂
  by_cases hpe : pre.errors.isEmpty = true
  · have hpe' : pre.errors = [] := by simpa using hpe
    simp only [hpe, Bool.not_true, Bool.false_eq_true, if_false] at h₁ h₂
    have hg0c : ∀ e ∈ g0.edges, assignments.contains e.2 = true := by
      intro e he
      obtain ⟨ex, hm, _⟩ := (g0edges e.1 e.2).mp he
      exact (AMap.contains_iff_mem_keys _ _).mpr (List.mem_map.mpr ⟨(e.2, ex), hm, rfl⟩)
    have hinit : PreFacts assignments known g0 [] ({ graph := g0 } : PreState) :=
      { noOut := by intro f hf; simp at hf
        byKeys := by simp [AMap.keys]
        byOut := by intro n f hf; simp at hf
        wf := g0wf
        nodes := fun n hn => hn
        edges := fun e he => Or.inl he
        noOutSub := List.Sublist.refl _
        edgesG0 := fun e he => he
        edgesFixed := by intro n f hf; simp at hf }
    have hpf := preprocess_fold_facts fl widths constants assignments known fixed ht g0 hg0c fixed [] _ (by simp) hinit
      (by rw [hpre]; exact hpe')
    rw [hpre] at hpf
    rcases pre.graph.sort_spec o₁ hpf.wf ho₁ with ⟨order₁, hso₁, _, hcover₁, _⟩ | ⟨c, hsc, _⟩
    · rcases pre.graph.sort_spec o₂ hpf.wf ho₂ with ⟨order₂, hso₂, _, hcover₂, _⟩ | ⟨c, hsc, _⟩
      · rw [hso₁] at h₁; rw [hso₂] at h₂
        simp only at h₁ h₂
        generalize hst₁ : actionsLoop fl assignments widths declared constants pre.info.byOutput order₁ { covered := known } = st₁ at h₁
        generalize hst₂ : actionsLoop fl assignments widths declared constants pre.info.byOutput order₂ { covered := known } = st₂ at h₂
        have clean_of : ∀ (st : LoopState) (acts : List Action),
            (if (st.errors ++ st.seenUndeclared.map (fun n => (⟨.UnsetUndeclaredWire, [n]⟩ : Diag))).isEmpty = true
              then (Except.ok (st.result ++ pre.info.noOutput.map (·.action)) : C (List Action))
              else .error (st.errors ++ st.seenUndeclared.map (fun n => (⟨.UnsetUndeclaredWire, [n]⟩ : Diag)))) = .ok acts →
            st.Clean ∧ acts = st.result ++ pre.info.noOutput.map (·.action) := by
          intro st acts hh
          split at hh
          · rename_i herr
            have : st.errors ++ st.seenUndeclared.map (fun n => (⟨.UnsetUndeclaredWire, [n]⟩ : Diag)) = [] := by simpa using herr
            rw [List.append_eq_nil_iff] at this
            simp only [Except.ok.injEq] at hh
            exact ⟨⟨this.1, by simpa using this.2⟩, hh.symm⟩
          · simp at hh
        obtain ⟨hc₁, he₁⟩ := clean_of st₁ acts₁ h₁
        obtain ⟨hc₂, he₂⟩ := clean_of st₂ acts₂ h₂
        obtain ⟨hr₁, _⟩ := actionsLoop_result fl assignments widths declared constants pre.info.byOutput order₁ _ (by rw [hst₁]; exact hc₁)
        obtain ⟨hr₂, _⟩ := actionsLoop_result fl assignments widths declared constants pre.info.byOutput order₂ _ (by rw [hst₂]; exact hc₂)
        rw [hst₁] at hr₁; rw [hst₂] at hr₂
        simp only [List.nil_append] at hr₁ hr₂
        have hpureOf : ∀ (n : String) (a : Action),
            actionOf fl assignments widths constants pre.info.byOutput n = some a → a.isPure = true := by
          intro n a ha
          unfold actionOf at ha
          cases hg : assignments.get? n with
          | some e =>
            rw [hg] at ha
            simp only [Option.map_eq_some_iff] at ha
            obtain ⟨w, _, rfl⟩ := ha
            rfl
          | none =>
            rw [hg] at ha
            simp only [Option.map_eq_some_iff] at ha
            obtain ⟨f, hf, rfl⟩ := ha
            obtain ⟨hfd, ⟨w, hw⟩, _⟩ := hpf.byOut n f (AMap.mem_of_get? _ _ _ hf)
            rw [← hpure f hfd, hw]; rfl
        refine ⟨st₁.result, st₂.result, pre.info.noOutput.map (·.action), he₁, he₂, ?_, ?_, ?_, ?_⟩
        · intro a
          rw [hr₁, hr₂, List.mem_filterMap, List.mem_filterMap]
          constructor
          · rintro ⟨n, hn, ha⟩; exact ⟨n, (hcover₂ n).mpr ((hcover₁ n).mp hn), ha⟩
          · rintro ⟨n, hn, ha⟩; exact ⟨n, (hcover₁ n).mpr ((hcover₂ n).mp hn), ha⟩
        · intro a ha
          rw [hr₁, List.mem_filterMap] at ha
          obtain ⟨n, _, hn⟩ := ha
          exact hpureOf n a hn
        · intro a ha
          rw [hr₂, List.mem_filterMap] at ha
          obtain ⟨n, _, hn⟩ := ha
          exact hpureOf n a hn
        · intro a ha
          obtain ⟨f, hf, rfl⟩ := List.mem_map.mp ha
          obtain ⟨hfd, hnone, _⟩ := hpf.noOut f hf
          have := hpure f hfd
          rw [hnone] at this
          simpa using this.symm
      · rw [hsc] at h₂; simp at h₂
    · rw [hsc] at h₁; simp at h₁
  · simp only [hpe] at h₁
    simp at h₁
