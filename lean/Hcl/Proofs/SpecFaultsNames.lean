import Hcl.Proofs.SpecFaultsElab
import Hcl.Proofs.SpecFaultsBanks
open Rust Reorder

/-! # The names the specification lists and the names the model knows

Built-in components, well-named banks, register signal names, and the exact meaning of "no name is declared twice"
(`f1 = []`) in the model's terms. -/

namespace SF

theorem flatMap_congr' {α β : Type} (f g : α → List β) : ∀ (l : List α), (∀ a ∈ l, f a = g a) → l.flatMap f = l.flatMap g
  | [], _ => rfl
  | a :: rest, h => by
    rw [List.flatMap_cons, List.flatMap_cons, h a List.mem_cons_self,
      flatMap_congr' f g rest (fun x hx => h x (List.mem_cons_of_mem _ hx))]

/-! ### the built-in components -/

def compOf (f : FixedFunction) : Spec.Component :=
  ⟨f.inWires.map (·.1), f.outWire.map (·.1), f.disabledIfFalse, f.mandatory⟩

theorem components_eq : Spec.components = y86FixedFunctions.map compOf := rfl

theorem builtinOut_eq : builtinOut = y86FixedFunctions.filterMap (fun f => f.outWire.map (·.1)) := by decide

theorem builtin_nodup : (builtinIn ++ builtinOut).Nodup := by decide +kernel

theorem builtin_sub1 : (builtinIn ++ builtinOut).all (fun n => (fixedNamesOf y86FixedFunctions).contains n) = true := by
  decide +kernel
theorem builtin_sub2 : (fixedNamesOf y86FixedFunctions).all (fun n => (builtinIn ++ builtinOut).contains n) = true := by
  decide +kernel

theorem mem_builtin_iff (n : String) : n ∈ builtinIn ++ builtinOut ↔ n ∈ fixedNamesOf y86FixedFunctions := by
  constructor
  · intro h
    have := List.all_eq_true.mp builtin_sub1 n h
    simpa using this
  · intro h
    have := List.all_eq_true.mp builtin_sub2 n h
    simpa using this

theorem builtinIn_mem_iff (n : String) : n ∈ builtinIn ↔ ∃ f ∈ y86FixedFunctions, n ∈ f.inWires.map (·.1) := by
  unfold builtinIn
  rw [mem_dedup, components_eq, List.mem_flatMap]
  constructor
  · rintro ⟨c, hc, hn⟩
    obtain ⟨f, hf, rfl⟩ := List.mem_map.mp hc
    exact ⟨f, hf, hn⟩
  · rintro ⟨f, hf, hn⟩
    exact ⟨compOf f, List.mem_map.mpr ⟨f, hf, rfl⟩, hn⟩

theorem fixed_not_sig (n : String) (h : n ∈ builtinIn ++ builtinOut) : secondIsUnderscore n = false ∧ isCtlName n = false := by
  have hn := (mem_builtin_iff n).mp h
  have a := List.all_eq_true.mp y86_names_not_sig n hn
  have b := List.all_eq_true.mp y86_names_not_ctl n hn
  exact ⟨by simpa using a, by simpa using b⟩

/-! ### well-named banks -/

theorem goodName_iff (isLower isUpper : Char → Bool) (b : BankDecl) :
    goodName isLower isUpper b = true ↔ ∃ i o, b.name.toList = [i, o] ∧ isLower i = true ∧ isUpper o = true := by
  unfold goodName
  constructor
  · intro h
    split at h
    · rename_i i o heq
      simp only [Bool.and_eq_true] at h
      exact ⟨i, o, heq, h.1, h.2⟩
    · cases h
  · rintro ⟨i, o, heq, h1, h2⟩
    simp only [heq, h1, h2, Bool.and_self]

theorem goodName_congr (isLower isUpper : Char → Bool) (b g : BankDecl) (h : g.name = b.name) :
    goodName isLower isUpper g = goodName isLower isUpper b := by
  unfold goodName; rw [h]

theorem bankFaults_nil_iff (isLower isUpper : Char → Bool) (stmts : List Stmt) :
    bankFaults isLower isUpper stmts = [] ↔ ∀ b ∈ (el stmts).banks, goodName isLower isUpper b = true := by
  unfold bankFaults
  rw [List.map_eq_nil_iff, List.filter_eq_nil_iff]
  constructor
  · intro h b hb
    have := h b hb
    simp only [Bool.not_eq_true', Bool.not_eq_false] at this
    obtain ⟨g, hg, hgn⟩ := List.any_eq_true.mp this
    have hgg : goodName isLower isUpper g = true := (List.mem_filter.mp hg).2
    rw [← goodName_congr isLower isUpper b g (by simpa using hgn)]
    exact hgg
  · intro h b hb
    simp only [Bool.not_eq_true', Bool.not_eq_false]
    exact List.any_eq_true.mpr ⟨b, List.mem_filter.mpr ⟨hb, h b hb⟩, by simp⟩

theorem goodBanks_eq (isLower isUpper : Char → Bool) (stmts : List Stmt)
    (h : ∀ b ∈ (el stmts).banks, goodName isLower isUpper b = true) :
    goodBanks isLower isUpper stmts = (step1Of stmts).banksRaw := by
  unfold goodBanks
  rw [List.filter_eq_self.mpr h, el_banks]

theorem mem_goodBanks (isLower isUpper : Char → Bool) (stmts : List Stmt) (b : BankDecl) :
    b ∈ goodBanks isLower isUpper stmts ↔ b ∈ (step1Of stmts).banksRaw ∧ goodName isLower isUpper b = true := by
  unfold goodBanks; rw [List.mem_filter, el_banks]

/-! ### register signal names -/

theorem inNameOf_eq (b : BankDecl) (i o : Char) (h : b.name.toList = [i, o]) (r : RegDecl) : inNameOf b r = regInName i r := by
  unfold inNameOf regInName; rw [h]; rfl

theorem outNameOf_eq (b : BankDecl) (i o : Char) (h : b.name.toList = [i, o]) (r : RegDecl) : outNameOf b r = regOutName o r := by
  unfold outNameOf regOutName; rw [h]; rfl

theorem sigsOfDecl_eq (b : BankDecl) (i o : Char) (h : b.name.toList = [i, o]) :
    sigsOfDecl b = b.regs.map fun r => (regInName i r, regOutName o r, r.width) := by
  unfold sigsOfDecl; simp only [h]

theorem stallOf_eq (b : BankDecl) (i o : Char) (h : b.name.toList = [i, o]) : stallOf b = "stall_" ++ String.ofList [o] := by
  unfold stallOf; rw [h]; rfl
theorem bubbleOf_eq (b : BankDecl) (i o : Char) (h : b.name.toList = [i, o]) : bubbleOf b = "bubble_" ++ String.ofList [o] := by
  unfold bubbleOf; rw [h]; rfl

/-- a bank whose name has two characters -/
def TwoChar (b : BankDecl) : Prop := ∃ i o, b.name.toList = [i, o]

theorem sigs_in (b : BankDecl) (h : TwoChar b) : (sigsOfDecl b).map (·.1) = b.regs.map (inNameOf b) := by
  obtain ⟨i, o, hn⟩ := h
  rw [sigsOfDecl_eq b i o hn, List.map_map]
  apply List.map_congr_left
  intro r _
  exact (inNameOf_eq b i o hn r).symm

theorem sigs_out (b : BankDecl) (h : TwoChar b) : (sigsOfDecl b).map (·.2.1) = b.regs.map (outNameOf b) := by
  obtain ⟨i, o, hn⟩ := h
  rw [sigsOfDecl_eq b i o hn, List.map_map]
  apply List.map_congr_left
  intro r _
  exact (outNameOf_eq b i o hn r).symm

theorem bankInOf_eq (gb : List BankDecl) (h : ∀ b ∈ gb, TwoChar b) :
    bankInOf gb = gb.flatMap (fun bd => (sigsOfDecl bd).map (·.1)) := by
  unfold bankInOf
  apply flatMap_congr'
  intro b hb
  exact (sigs_in b (h b hb)).symm

theorem bankOutOf_eq (gb : List BankDecl) (h : ∀ b ∈ gb, TwoChar b) :
    bankOutOf gb = gb.flatMap (fun bd => (sigsOfDecl bd).map (·.2.1)) := by
  unfold bankOutOf
  apply flatMap_congr'
  intro b hb
  exact (sigs_out b (h b hb)).symm

theorem mem_bankInOf (gb : List BankDecl) (n : String) :
    n ∈ bankInOf gb ↔ ∃ b ∈ gb, ∃ r ∈ b.regs, n = inNameOf b r := by
  unfold bankInOf
  simp only [List.mem_flatMap, List.mem_map]
  constructor
  · rintro ⟨b, hb, r, hr, e⟩; exact ⟨b, hb, r, hr, e.symm⟩
  · rintro ⟨b, hb, r, hr, e⟩; exact ⟨b, hb, r, hr, e.symm⟩

theorem mem_bankOutOf (gb : List BankDecl) (n : String) :
    n ∈ bankOutOf gb ↔ ∃ b ∈ gb, ∃ r ∈ b.regs, n = outNameOf b r := by
  unfold bankOutOf
  simp only [List.mem_flatMap, List.mem_map]
  constructor
  · rintro ⟨b, hb, r, hr, e⟩; exact ⟨b, hb, r, hr, e.symm⟩
  · rintro ⟨b, hb, r, hr, e⟩; exact ⟨b, hb, r, hr, e.symm⟩

theorem mem_bankCtlOf (gb : List BankDecl) (n : String) :
    n ∈ bankCtlOf gb ↔ ∃ b ∈ gb, n = stallOf b ∨ n = bubbleOf b := by
  unfold bankCtlOf
  rw [mem_dedup]
  simp only [List.mem_flatMap, List.mem_cons, List.not_mem_nil, or_false]
  rfl

theorem inName_sig (b : BankDecl) (r : RegDecl) : secondIsUnderscore (inNameOf b r) = true :=
  isSigName_second ⟨b.name.toList.head!, r.name, rfl⟩
theorem outName_sig (b : BankDecl) (r : RegDecl) : secondIsUnderscore (outNameOf b r) = true :=
  isSigName_second ⟨b.name.toList.getLast!, r.name, rfl⟩

theorem ctl_shape (gb : List BankDecl) (n : String) (h : n ∈ bankCtlOf gb) : isCtlName n = true ∧ secondIsUnderscore n = false := by
  obtain ⟨b, _, rfl | rfl⟩ := (mem_bankCtlOf gb n).mp h
  · exact ⟨stall_isCtl _, stall_not_sig _⟩
  · exact ⟨bubble_isCtl _, bubble_not_sig _⟩

/-! ### the model's list of register names -/

theorem bankRegNames_perm (b : BankDecl) (h : TwoChar b) :
    (bankRegNames b).Perm (b.regs.map (inNameOf b) ++ b.regs.map (outNameOf b)) := by
  obtain ⟨i, o, hn⟩ := h
  rw [bankRegNames_of_name b i o hn]
  unfold regNames
  have h1 : (b.regs.flatMap fun r => [regOutName o r, regInName i r]) =
      b.regs.flatMap (fun r => [outNameOf b r] ++ [inNameOf b r]) := by
    apply flatMap_congr'
    intro r _
    rw [outNameOf_eq b i o hn, inNameOf_eq b i o hn]; rfl
  rw [h1]
  refine (flatMap_append_perm' (fun r => [outNameOf b r]) (fun r => [inNameOf b r]) b.regs).trans ?_
  rw [flatMap_single_fun, flatMap_single_fun]
  exact List.perm_append_comm

theorem allRegNames_perm : ∀ (gb : List BankDecl), (∀ b ∈ gb, TwoChar b) →
    (allRegNames gb).Perm (bankInOf gb ++ bankOutOf gb)
  | [], _ => by simp [allRegNames, bankInOf, bankOutOf]
  | b :: rest, h => by
    rw [allRegNames_cons]
    have ih := allRegNames_perm rest (fun x hx => h x (List.mem_cons_of_mem _ hx))
    have hb := bankRegNames_perm b (h b List.mem_cons_self)
    have e1 : bankInOf (b :: rest) = b.regs.map (inNameOf b) ++ bankInOf rest := by simp [bankInOf]
    have e2 : bankOutOf (b :: rest) = b.regs.map (outNameOf b) ++ bankOutOf rest := by simp [bankOutOf]
    rw [e1, e2]
    refine (List.Perm.append hb ih).trans ?_
    -- (I ++ O) ++ (IR ++ OR) ~ (I ++ IR) ++ (O ++ OR)
    rw [List.append_assoc, List.append_assoc]
    apply List.Perm.append_left
    rw [← List.append_assoc, ← List.append_assoc]
    apply List.Perm.append_right
    exact List.perm_append_comm

/-! ### "no name is declared twice" -/

/-- the seven segments of the specification's list of declared names, grouped as the model sees them -/
theorem allDecls_assoc (isLower isUpper : Char → Bool) (stmts : List Stmt) :
    allDecls isLower isUpper stmts =
      (wireNames stmts ++ constNames stmts) ++
      ((bankInOf (goodBanks isLower isUpper stmts) ++ bankOutOf (goodBanks isLower isUpper stmts)) ++
       (bankCtlOf (goodBanks isLower isUpper stmts) ++ (builtinIn ++ builtinOut))) := by
  unfold allDecls
  simp only [List.append_assoc]

/-- four lists without repetitions that are pairwise disjoint -/
theorem nodup_four (a b c d : List String) :
    (a ++ (b ++ (c ++ d))).Nodup ↔
      a.Nodup ∧ b.Nodup ∧ c.Nodup ∧ d.Nodup ∧
      (∀ x ∈ a, x ∉ b ∧ x ∉ c ∧ x ∉ d) ∧ (∀ x ∈ b, x ∉ c ∧ x ∉ d) ∧ (∀ x ∈ c, x ∉ d) := by
  simp only [List.nodup_append, List.mem_append]
  constructor
  · rintro ⟨ha, ⟨hb, ⟨hc, hd, hcd⟩, hbcd⟩, habcd⟩
    refine ⟨ha, hb, hc, hd, ?_, ?_, ?_⟩
    · intro x hx
      exact ⟨fun h => habcd x hx x (Or.inl h) rfl, fun h => habcd x hx x (Or.inr (Or.inl h)) rfl,
        fun h => habcd x hx x (Or.inr (Or.inr h)) rfl⟩
    · intro x hx
      exact ⟨fun h => hbcd x hx x (Or.inl h) rfl, fun h => hbcd x hx x (Or.inr h) rfl⟩
    · intro x hx h
      exact hcd x hx x h rfl
  · rintro ⟨ha, hb, hc, hd, h1, h2, h3⟩
    refine ⟨ha, ⟨hb, ⟨hc, hd, ?_⟩, ?_⟩, ?_⟩
    · intro x hx y hy e; subst e; exact h3 x hx hy
    · intro x hx y hy e
      subst e
      rcases hy with hy | hy
      · exact (h2 x hx).1 hy
      · exact (h2 x hx).2 hy
    · intro x hx y hy e
      subst e
      rcases hy with hy | hy | hy
      · exact (h1 x hx).1 hy
      · exact (h1 x hx).2.1 hy
      · exact (h1 x hx).2.2 hy

/-- **`f1 = []` in the model's terms**, for well-named banks: wires and constants are pairwise distinct and none is a
    built-in name, a register signal or a control signal of a bank, and the register signals are pairwise distinct -/
theorem f1_nil_iff (isLower isUpper : Char → Bool) (stmts : List Stmt) :
    f1 isLower isUpper stmts = [] ↔
      ((wireNames stmts ++ constNames stmts).Nodup ∧
       (bankInOf (goodBanks isLower isUpper stmts) ++ bankOutOf (goodBanks isLower isUpper stmts)).Nodup ∧
       ∀ x ∈ wireNames stmts ++ constNames stmts,
         x ∉ bankInOf (goodBanks isLower isUpper stmts) ++ bankOutOf (goodBanks isLower isUpper stmts) ∧
         x ∉ bankCtlOf (goodBanks isLower isUpper stmts) ∧ x ∉ builtinIn ++ builtinOut) := by
  unfold f1
  rw [dupFaults_nil_iff, allDecls_assoc, nodup_four]
  constructor
  · rintro ⟨a, b, _, _, h1, _, _⟩
    exact ⟨a, b, h1⟩
  · rintro ⟨a, b, h1⟩
    refine ⟨a, b, nodup_dedup _, builtin_nodup, h1, ?_, ?_⟩
    · intro x hx
      have hs : secondIsUnderscore x = true := by
        rcases List.mem_append.mp hx with h | h
        · obtain ⟨bk, _, r, _, rfl⟩ := (mem_bankInOf _ x).mp h; exact inName_sig bk r
        · obtain ⟨bk, _, r, _, rfl⟩ := (mem_bankOutOf _ x).mp h; exact outName_sig bk r
      refine ⟨fun h => ?_, fun h => ?_⟩
      · have := (ctl_shape _ x h).2; rw [hs] at this; cases this
      · have := (fixed_not_sig x h).1; rw [hs] at this; cases this
    · intro x hx h
      have := (fixed_not_sig x h).2
      rw [(ctl_shape _ x hx).1] at this; cases this

end SF
