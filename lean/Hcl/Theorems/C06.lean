import Hcl.Theorems.C07
import Hcl.Proofs.Settle
open Rust

/-!
# C06 — a run stops exactly at the first non-OK status or at the timeout, and says which

`runLoop` models `RunningProgram::run` (`while !self.done() { step }`) with explicit fuel whose
exhaustion is the distinct outcome `none`; `banner`/`reportLines` model the header selection and the
`Cycles run:` / `Error code:` lines of `dump_y86`.
-/

theorem execAction_cycle (fl : Flags) (s t : State) (a : Action) (h : execAction fl s a = .ok t) : t.cycle = s.cycle := by
  by_cases hp : a.isPure = true
  · rw [execAction_pure fl s a hp] at h
    obtain ⟨v, _, h⟩ := bind_ok h
    simp only [pure, Except.pure] at h; cases h; rfl
  · cases a with
    | assign n e w => simp [Action.isPure] at hp
    | readReg number out => simp [Action.isPure] at hp
    | readMem isRead address out bytes instr => simp [Action.isPure] at hp
    | writeReg number inp =>
      simp only [execAction] at h
      obtain ⟨n, _, h⟩ := bind_ok h
      split at h
      · obtain ⟨i, _, h⟩ := bind_ok h
        simp only [pure, Except.pure] at h; cases h; rfl
      · simp only [pure, Except.pure] at h; cases h; rfl
    | writeMem isWrite address inp bytes =>
      have key : ∀ (b : Bool), (if b = true then (do
            let a ← getOrPanic s.values address
            let i ← getOrPanic s.values inp
            pure { s with mem := s.mem.write (a.bits % U64) i.bits bytes } : E State)
          else pure s) = .ok t → t.cycle = s.cycle := by
        intro b hb
        cases b with
        | false => simp [pure, Except.pure] at hb; rw [← hb]
        | true =>
          simp only [↓reduceIte] at hb
          obtain ⟨a', _, hb⟩ := bind_ok hb
          obtain ⟨i, _, hb⟩ := bind_ok hb
          simp only [pure, Except.pure] at hb; cases hb; rfl
      cases isWrite with
      | none => simp only [execAction] at h; exact key true h
      | some wr =>
        simp only [execAction] at h
        obtain ⟨v, _, h⟩ := bind_ok h
        exact key _ h
    | setStatus w =>
      simp only [execAction] at h
      obtain ⟨v, _, h⟩ := bind_ok h
      simp only [pure, Except.pure] at h; cases h; rfl

theorem execActions_cycle (fl : Flags) : ∀ (acts : List Action) (s t : State), execActions fl acts s = .ok t → t.cycle = s.cycle
  | [], s, t, h => by simp [execActions, pure, Except.pure] at h; rw [h]
  | a :: rest, s, t, h => by
    simp only [execActions] at h
    obtain ⟨s₁, h₁, h₂⟩ := bind_ok h
    rw [execActions_cycle fl rest s₁ t h₂, execAction_cycle fl s s₁ a h₁]

/-- a cycle advances the cycle counter by exactly one -/
theorem stepCycle_cycle (fl : Flags) (p : Program) (s t : State) (h : stepCycle fl p s = .ok t) : t.cycle = s.cycle + 1 := by
  simp only [stepCycle] at h
  obtain ⟨s₁, h₁, h⟩ := bind_ok h
  obtain ⟨v, _, h⟩ := bind_ok h
  simp only [pure, Except.pure] at h; cases h
  simp [execActions_cycle fl _ s s₁ h₁]

theorem runN_cycle (fl : Flags) (p : Program) : ∀ (k : Nat) (s t : State), runN fl p k s = .ok t → t.cycle = s.cycle + k
  | 0, s, t, h => by simp [runN, pure, Except.pure] at h; rw [h]; rfl
  | k+1, s, t, h => by
    simp only [runN] at h
    obtain ⟨s₁, h₁, h₂⟩ := bind_ok h
    rw [runN_cycle fl p k s₁ t h₂, stepCycle_cycle fl p s s₁ h₁]; omega

/-- **termination**: the loop never runs out of fuel when given more than `timeout - cycle` of it
    (so `run` terminates within `timeout` cycles) -/
theorem C06_terminates (fl : Flags) (p : Program) (timeout : Nat) : ∀ (fuel : Nat) (s : State),
    0 < fuel → timeout < s.cycle + fuel → runLoop fl p timeout fuel s ≠ none
  | 0, _, h, _ => by omega
  | fuel+1, s, _, h => by
    simp only [runLoop]
    split
    · simp
    · rename_i hd
      have hlt : s.cycle < timeout := by
        simp only [isDone, Bool.or_eq_true, decide_eq_true_eq, not_or] at hd
        omega
      split
      · rename_i s' hs'
        have := stepCycle_cycle fl p s s' hs'
        exact C06_terminates fl p timeout fuel s' (by omega) (by omega)
      · simp

/-- **exact stopping point**: when `run` returns normally after `k` further cycles, the state is
    done (status neither AOK nor BUB, or the cycle budget used up), no earlier state of the run was
    done, and it executed exactly `k` cycles. -/
theorem C06_stop (fl : Flags) (p : Program) (timeout : Nat) : ∀ (fuel : Nat) (s t : State),
    runLoop fl p timeout fuel s = some (.ok t) →
    ∃ k, runN fl p k s = .ok t ∧ t.cycle = s.cycle + k ∧ isDone t timeout = true ∧
      ∀ j, j < k → ∃ sj, runN fl p j s = .ok sj ∧ isDone sj timeout = false
  | 0, s, t, h => by simp [runLoop] at h
  | fuel+1, s, t, h => by
    simp only [runLoop] at h
    split at h
    · rename_i hd
      simp only [pure, Except.pure, Option.some.injEq, Except.ok.injEq] at h; subst h
      exact ⟨0, rfl, rfl, hd, fun j hj => by omega⟩
    · rename_i hd
      split at h
      · rename_i s' hs'
        obtain ⟨k, hk, hc, hdone, hearlier⟩ := C06_stop fl p timeout fuel s' t h
        refine ⟨k + 1, by simp [runN, hs', hk, bind, Except.bind], ?_, hdone, ?_⟩
        · rw [hc, stepCycle_cycle fl p s s' hs']; omega
        · intro j hj
          cases j with
          | zero => exact ⟨s, rfl, by simpa using hd⟩
          | succ j =>
            obtain ⟨sj, hsj, hdj⟩ := hearlier j (by omega)
            exact ⟨sj, by simp [runN, hs', hsj, bind, Except.bind], hdj⟩
      · simp [throw, throwThe, MonadExceptOf.throw] at h

/-- the number of cycles a run executes never exceeds the timeout; with timeout 0 none is executed -/
theorem C06_within_timeout (fl : Flags) (p : Program) (timeout fuel : Nat) (s t : State) (hs : s.cycle = 0)
    (h : runLoop fl p timeout fuel s = some (.ok t)) : t.cycle ≤ timeout := by
  obtain ⟨k, hk, hc, _, hearlier⟩ := C06_stop fl p timeout fuel s t h
  cases k with
  | zero => omega
  | succ k =>
    obtain ⟨sj, hsj, hdj⟩ := hearlier k (by omega)
    -- the state before the last cycle was not done, so its cycle count was below the timeout
    have hcj : sj.cycle = s.cycle + k := runN_cycle fl p k s sj hsj
    simp only [isDone, Bool.or_eq_false_iff, decide_eq_false_iff_not] at hdj
    omega

/-- **what the report says** -/
theorem C06_report (s : State) (timeout : Nat) :
    (banner s timeout = .halted ↔ statusOr s 1 = 2) ∧
    (statusOr s 1 ≠ 2 → s.cycle ≥ timeout → banner s timeout = .timedOut s.cycle) ∧
    (statusOr s 1 ≠ 2 → s.cycle < timeout → isDone s timeout = true →
        banner s timeout = .error ∧ reportLines s timeout = (some s.cycle, some (statusOr s 255))) ∧
    (∀ c e, reportLines s timeout = (some c, e) → c = s.cycle) := by
  refine ⟨?_, ?_, ?_, ?_⟩
  · unfold banner halted
    constructor
    · intro h; split at h
      · rename_i hh; simpa using hh
      · split at h <;> (try split at h) <;> cases h
    · intro h; simp [h]
  · intro h1 h2; unfold banner halted timedOut; simp [h1, h2]
  · intro h1 h2 h3
    have ht : ¬ s.cycle ≥ timeout := by omega
    unfold banner reportLines halted timedOut
    simp [h1, ht, h3]
  · intro c e h
    unfold reportLines at h
    split at h
    · simp only [Prod.mk.injEq, Option.some.injEq] at h; exact h.1.symm
    · cases h

/-! ### for every accepted program -/

theorem runLoop_sound {fl : Flags} {Γ : Ctx} {κ : Env} {p : Program} {avail : List String}
    (hp : ProgramOK fl Γ κ p avail) (timeout : Nat) : ∀ (fuel : Nat) (s : State),
    StateOK Γ s → (∀ x ∈ avail, s.values.contains x = true) → (∀ b ∈ p.banks, BankOK Γ s.values b) →
    0 < fuel → timeout < s.cycle + fuel →
    runLoop fl p timeout fuel s = some (.error .divideByZero) ∨
    ∃ t, runLoop fl p timeout fuel s = some (.ok t) ∧ isDone t timeout = true
  | 0, _, _, _, _, h, _ => by omega
  | fuel+1, s, hs, hav, hb, _, hf => by
    simp only [runLoop]
    by_cases hd : isDone s timeout = true
    · simp only [hd, if_true]
      exact Or.inr ⟨s, rfl, hd⟩
    · simp only [hd]
      rcases stepCycle_sound hp s hs hav hb with ⟨s₁, h₁, hs₁, hc₁, hm₁⟩ | herr
      · simp only [h₁]
        have hnd : s.cycle < timeout := by
          unfold isDone at hd
          simp at hd
          omega
        exact runLoop_sound hp timeout fuel s₁ hs₁ (fun x hx => hm₁ x (hav x hx))
          (fun b hbb => (hb b hbb).mono hm₁) (by omega) (by omega)
      · simp only [herr]
        exact Or.inl rfl

/-- **C06 for every accepted program**: started from the initial state on any memory image with any timeout, the run
    loop of an accepted program ends (it never needs more than `timeout + 1` turns), and it ends either in a state that
    is done — its status is neither AOK nor BUB, or the cycle budget is used up — after at most `timeout` cycles, or
    with an explicit division-by-zero report; no other failure is possible. -/
theorem C06_accepted (fl : Flags) (cls : CharClass) (o : Orders) (stmts : List Stmt) (p : Program)
    (ho : OrdersOK o) (hwf : StmtsWF stmts)
    (h : Program.new fl cls o y86FixedFunctions stmts = .ok p) (mem : Mem) (hmem : mem.BytesOK) (timeout : Nat) :
    ∃ s0, State.init p mem = .ok s0 ∧
      (runLoop fl p timeout (timeout + 1) s0 = some (.error .divideByZero) ∨
       ∃ t, runLoop fl p timeout (timeout + 1) s0 = some (.ok t) ∧ isDone t timeout = true ∧ t.cycle ≤ timeout) := by
  obtain ⟨W, known, hp, vals, hv1, hv2, hv3, hv4⟩ := Program_new_sound fl cls o stmts p ho hwf h
  refine ⟨{ values := vals, regs := List.replicate 16 0, mem := mem }, ?_, ?_⟩
  · simp [State.init, hv1, bind, Except.bind, pure, Except.pure]
  · have hs : StateOK W.toCtx { values := vals, regs := List.replicate 16 0, mem := mem } :=
      { vals := hv2, regsLen := by simp, regsBound := by intro r hr; simp at hr; rw [hr]; simp [U64]
        memBytes := hmem }
    rcases runLoop_sound hp timeout (timeout + 1) _ hs hv3 hv4 (by omega) (by simp) with h1 | ⟨t, h1, h2⟩
    · exact Or.inl h1
    · exact Or.inr ⟨t, h1, h2, C06_within_timeout fl p timeout (timeout + 1) _ t rfl h1⟩
