import Hcl.Proofs.SpecFaultsNames
open Rust Reorder

/-! # What each part of `Spec.faults` being empty says, in plain terms -/

namespace SF

section
variable (fl : Flags) (isLower isUpper : Char → Bool) (stmts : List Stmt)

theorem f2_nil_iff : f2 stmts = [] ↔ (targets stmts).Nodup := dupFaults_nil_iff _ _

theorem mem_readNames (n : String) :
    n ∈ readNames isLower isUpper stmts ↔ ∃ e ∈ exprs isLower isUpper stmts, n ∈ refs e := by
  unfold readNames
  rw [mem_dedup, List.mem_flatMap]

theorem f3_nil_iff : f3 isLower isUpper stmts = [] ↔
    ∀ e ∈ exprs isLower isUpper stmts, ∀ n ∈ refs e, n ∈ allDecls isLower isUpper stmts := by
  unfold f3
  rw [testFaults_nil_iff]
  constructor
  · intro h e he n hn
    exact (declared_iff _ _ _ n).mp (h n ((mem_readNames _ _ _ n).mpr ⟨e, he, hn⟩))
  · intro h n hn
    obtain ⟨e, he, hne⟩ := (mem_readNames _ _ _ n).mp hn
    exact (declared_iff _ _ _ n).mpr (h e he n hne)

theorem f4_nil_iff : f4 isLower isUpper stmts = [] ↔ ∀ n ∈ targets stmts, n ∈ allDecls isLower isUpper stmts := by
  unfold f4
  rw [testFaults_nil_iff]
  constructor
  · intro h n hn; exact (declared_iff _ _ _ n).mp (h n ((mem_dedup _ n).mpr hn))
  · intro h n hn; exact (declared_iff _ _ _ n).mpr (h n ((mem_dedup _ n).mp hn))

theorem f5_nil_iff : f5 isLower isUpper stmts = [] ↔
    ∀ n ∈ targets stmts, n ∉ bankOutOf (goodBanks isLower isUpper stmts) ∧ n ∉ builtinOut ∧ n ∉ constNames stmts := by
  unfold f5
  rw [testFaults_nil_iff']
  constructor
  · intro h n hn
    have := h n ((mem_dedup _ n).mpr hn)
    simp only [Bool.or_eq_false_iff, List.contains_eq_mem, decide_eq_false_iff_not] at this
    exact ⟨this.1.1, this.1.2, this.2⟩
  · intro h n hn
    obtain ⟨a, b, c⟩ := h n ((mem_dedup _ n).mp hn)
    simp only [Bool.or_eq_false_iff, List.contains_eq_mem, decide_eq_false_iff_not]
    exact ⟨⟨a, b⟩, c⟩

theorem f6a_nil_iff : f6a isLower isUpper stmts = [] ↔
    ∀ n ∈ wireNames stmts ++ bankInOf (goodBanks isLower isUpper stmts), n ∈ targets stmts := by
  unfold f6a
  rw [testFaults_nil_iff]
  apply forall_congr'
  intro n
  apply forall_congr'
  intro _
  exact assigned_iff stmts n

theorem f6c_nil_iff : f6c isLower isUpper stmts = [] ↔
    ∀ n ∈ builtinIn ++ bankCtlOf (goodBanks isLower isUpper stmts), n ∈ readNames isLower isUpper stmts → n ∈ targets stmts := by
  unfold f6c
  rw [testFaults_nil_iff']
  apply forall_congr'
  intro n
  apply forall_congr'
  intro _
  have ha := assigned_iff stmts n
  cases h1 : (readNames isLower isUpper stmts).contains n with
  | false =>
    have : n ∉ readNames isLower isUpper stmts := by simpa using h1
    simp [this]
  | true =>
    have : n ∈ readNames isLower isUpper stmts := by simpa using h1
    cases h2 : assigned stmts n with
    | false =>
      have hn : n ∉ targets stmts := fun hm => by rw [ha.mpr hm] at h2; cases h2
      simp [this, hn]
    | true => simp [ha.mp h2]

theorem f7_nil_iff : f7 isLower isUpper stmts = [] ↔
    ∀ e ∈ (el stmts).constDefs.map (·.2) ++ defaultsOf (goodBanks isLower isUpper stmts), ∀ n ∈ refs e,
      n ∈ allDecls isLower isUpper stmts → n ∈ constNames stmts := by
  unfold f7
  rw [List.flatMap_eq_nil_iff]
  apply forall_congr'
  intro e
  apply forall_congr'
  intro _
  rw [testFaults_nil_iff']
  constructor
  · intro h n hn hd
    have := h n ((mem_dedup _ n).mpr hn)
    rw [(declared_iff _ _ _ n).mpr hd] at this
    simpa using this
  · intro h n hn
    cases hd : declared isLower isUpper stmts n with
    | false => rfl
    | true =>
      have := h n ((mem_dedup _ n).mp hn) ((declared_iff _ _ _ n).mp hd)
      simp [this]

theorem f6b_nil_iff : f6b isLower isUpper stmts = [] ↔ ∀ c ∈ Spec.components, f6bOf isLower isUpper stmts c = [] :=
  List.flatMap_eq_nil_iff

/-- is the component needed: mandatory, or its output is read or assigned -/
def neededC (c : Spec.Component) : Bool :=
  c.mandatory || (match c.output with
    | some o => (readNames isLower isUpper stmts).contains o || assigned stmts o | none => false)

def missingC (c : Spec.Component) : List String := c.inputs.filter (fun i => !assigned stmts i)

theorem f6bOf_nil_iff (c : Spec.Component) :
    f6bOf isLower isUpper stmts c = [] ↔
      (missingC stmts c = [] ∨ (neededC isLower isUpper stmts c = false ∧
        ((missingC stmts c).length < c.inputs.length → disabledC stmts c = true))) := by
  unfold f6bOf missingC neededC
  simp only
  generalize c.inputs.filter (fun i => !assigned stmts i) = m
  generalize (c.mandatory || (match c.output with
    | some o => (readNames isLower isUpper stmts).contains o || assigned stmts o | none => false)) = nd
  cases m with
  | nil => simp
  | cons a rest =>
    simp only [List.isEmpty_cons, Bool.false_eq_true, if_false]
    cases nd with
    | true => simp
    | false =>
      simp only [Bool.false_eq_true, if_false]
      by_cases hl : (a :: rest).length < c.inputs.length
      · cases hd : disabledC stmts c <;> simp
      · simp

theorem wAssign_nil_iff : wAssign fl stmts = [] ↔ ∀ p ∈ (el stmts).assigns,
    ∃ ew, Spec.typeOf fl (Spec.design stmts).Γ (isTrue stmts) p.2 = some ew ∧
      ∀ tw, (Spec.design stmts).Γ p.1 = some tw → Spec.compatible tw ew = true := by
  unfold wAssign
  rw [List.filterMap_eq_nil_iff]
  apply forall_congr'
  intro p
  apply forall_congr'
  intro _
  cases h1 : Spec.typeOf fl (Spec.design stmts).Γ (isTrue stmts) p.2 with
  | none => simp
  | some ew =>
    cases h2 : (Spec.design stmts).Γ p.1 with
    | none => simp
    | some tw => cases hc : Spec.compatible tw ew <;> simp [hc]

theorem wDefault_nil_iff : wDefault fl isLower isUpper stmts = [] ↔
    ∀ b ∈ goodBanks isLower isUpper stmts, ∀ r ∈ b.regs,
      ∃ ew, Spec.typeOf fl (Spec.design stmts).Γ (isTrue stmts) r.default = some ew ∧ Spec.compatible r.width ew = true ∧
        (Spec.dv (Spec.design stmts).Γ (constEnv stmts) r.default).isSome = true := by
  unfold wDefault
  rw [List.flatMap_eq_nil_iff]
  apply forall_congr'
  intro b
  apply forall_congr'
  intro _
  rw [List.filterMap_eq_nil_iff]
  apply forall_congr'
  intro r
  apply forall_congr'
  intro _
  cases h1 : Spec.typeOf fl (Spec.design stmts).Γ (isTrue stmts) r.default with
  | none => simp
  | some ew =>
    cases hc : Spec.compatible r.width ew <;>
      cases hd : (Spec.dv (Spec.design stmts).Γ (constEnv stmts) r.default).isSome <;> simp [hc]

theorem loops_nil_iff : loops isLower isUpper stmts = [] ↔
    (Spec.cyclicNodes (eAssign isLower isUpper stmts ++ eComp stmts) = [] ∧ Spec.cyclicNodes (eConst stmts) = []) := by
  unfold loops
  rw [List.map_eq_nil_iff, List.append_eq_nil_iff]

end
end SF
