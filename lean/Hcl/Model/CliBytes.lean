import Hcl.Model.CliArgv

/-! The argument vector as the operating system hands it over: byte strings.  `main_real` reads it with `env::args_os()`
    and gives it to `getopts`, whose `parse` first converts EVERY argument with `OsStr::to_str` and returns
    `Fail::UnrecognizedOption(format!("{:?}", arg))` for the first one that is not valid UTF-8 - before it looks at any
    option, so wherever the argument stands (also after `--`).  (Before fix 2b593d7 `main_real` used `env::args()`, which
    panics on such an argument: exit status 101.) -/

namespace Cli

/-- `OsStr::to_str` -/
def argOfBytes (bs : List UInt8) : Option String := String.fromUTF8? (ByteArray.mk bs.toArray)

def mainArgvBytes (w : World) (args : List (List UInt8)) : Result :=
  match args.mapM argOfBytes with
  | some ss => mainArgv w ss
  | none => { status := 1, out := .optionMessage, handed := none }

def hexDigitUpper (n : Nat) : Char := if n < 10 then Char.ofNat (48 + n) else Char.ofNat (55 + n)

/-- `{:?}` of an `OsStr` whose valid stretches are plain ASCII letters, digits, `.`, `-`, `_` (all the generator writes next to
    the invalid bytes): those as they are, every other byte as `\xHH` -/
def debugBytes (bs : List UInt8) : String :=
  "\"" ++ String.join (bs.map fun b =>
    if b.toNat < 128 then String.singleton (Char.ofNat b.toNat)
    else "\\x" ++ String.ofList [hexDigitUpper (b.toNat / 16), hexDigitUpper (b.toNat % 16)]) ++ "\""

/-- the line on standard error -/
def optionMessageBytes (args : List (List UInt8)) : Option String :=
  match args.mapM argOfBytes with
  | some ss => optionMessage ss
  | none => (args.find? fun a => (argOfBytes a).isNone).map fun a => "Unrecognized option: '" ++ debugBytes a ++ "'"

end Cli
