import Hcl.Proofs.ProgramSpansPoints
import Hcl.Theorems.C14Stmts

/-!
# C14 — which span each diagnostic of `Program::new` carries

`Program.newSp` (Hcl/Model/ProgramSp.lean) is `Program.new` over the spanned statements of
Hcl/Model/ParserStmtsSp.lean; its diagnostics `DiagSp` carry the spans the Rust `Error` values carry (compared with the
real ones, as multisets of (kind, names, spans), on every rejected program of the stream `render`: `diag-spans-agree`
of the driver).

* `C14_diag_erase`: forgetting the spans gives `Program.new` on the statements without spans -- same verdict, same
  program, same diagnostics in the same order -- for all inputs.
* `C14_diag_points_at_step1`: the diagnostics of a rejection in step 1 (redeclared names, doubly assigned wires,
  assigned constants, constants that read a wire or an undeclared name) are located as `Spec.PointsAt`
  (Hcl/Spec/DiagSpans.lean) asks: at declarations / assignment targets / occurrences of the very name they are about.
* `C14_diag_names_in_text`: for a program parsed from a text, a declaration span or target span that `Spec.PointsAt`
  speaks of starts, in the text, with the name the diagnostic is about.
-/

open Parser Lexer Spec

/-- **C14, erasure**: `Program.newSp` is `Program.new` with spans added to the diagnostics and nothing else changed -/
theorem C14_diag_erase (fl : Flags) (cls : CharClass) (o : Orders) (fixed : List FixedFunction) (ss : List SStmt) :
    (Program.newSp fl cls o fixed ss).mapError (List.map DiagSp.erase) =
      Program.new fl cls o fixed (ss.map SStmt.erase) :=
  newSp_erase fl cls o fixed ss

/-- the names of the built-in wires, as `Program::new` collects them -/
def Parser.fixedNamesOf (fixed : List FixedFunction) : List String :=
  dedupS (fixed.flatMap fun f => f.inWires.map (·.1) ++ (match f.outWire with | some (n, _) => [n] | none => []))
def Parser.fixedOutOf (fixed : List FixedFunction) : List String := fixed.filterMap fun f => f.outWire.map (·.1)

/-- the diagnostics step 1 of `Program.newSp` finds -/
def Parser.step1Diags (fixed : List FixedFunction) (ss : List SStmt) : List DiagSp :=
  let t1 := ss.foldl (step1StmtSp (fixedNamesOf fixed) (fixedOutOf fixed)) { s := step1Init fixed }
  t1.errs ++ assignedConstSp t1 ++ constRefErrorsSp t1

/-- when step 1 finds a diagnostic, the program is rejected with exactly the diagnostics of step 1 -/
theorem C14_diag_step1_verdict (fl : Flags) (cls : CharClass) (o : Orders) (fixed : List FixedFunction) (ss : List SStmt)
    (h : step1Diags fixed ss ≠ []) : Program.newSp fl cls o fixed ss = .error (step1Diags fixed ss) := by
  have he : (step1Diags fixed ss).isEmpty = false := by
    cases hd : step1Diags fixed ss with
    | nil => exact absurd hd h
    | cons a r => rfl
  show (if !(step1Diags fixed ss).isEmpty then Except.error (step1Diags fixed ss) else _) = _
  rw [he]
  rfl

/-- **C14, step 1 points at the offending place**: every diagnostic of step 1 shows, in the order of its message, spans
    that `Spec.PointsAt` accepts for its kind and the name it is about -/
theorem C14_diag_points_at_step1 (fixed : List FixedFunction) (ss : List SStmt) :
    ∀ d ∈ step1Diags fixed ss, PointsAt ss d.erase d.spans :=
  step1_points_at (fixedNamesOf fixed) (fixedOutOf fixed) fixed ss

/-- the text holds the name `n` at byte offset `start` -/
def SpelledAt (text : List Char) (n : String) (start : Nat) : Prop :=
  ∃ pre post, text = pre ++ n.toList ++ post ∧ sizeOf' pre = start

/-- **C14, the located names are in the text**: for a program parsed from a text, the span of a declaration of `n` and
    the span of an assignment target `n` (what `Spec.PointsAt` demands of `UnsetWire`, `RedeclaredWire`,
    `RedeclaredBuiltinWire`, `DoubleAssignedWire`, `DoubleAssignedFixedOutWire`, `AssignedConstant`,
    `UndeclaredWireAssigned`) start exactly where the text spells `n`; a target's span ends where the name ends -/
theorem C14_diag_names_in_text (cls : CharCls) (text : List Char) (ss : List SStmt)
    (h : parseProgramSp cls text = some ss) (n : String) (sp : Span) :
    ((n, sp) ∈ declsOf ss → SpelledAt text n sp.1) ∧
    (TargetOf ss n sp → SpelledAt text n sp.1 ∧ sp.2 = sp.1 + sizeOf' n.toList) := by
  have hn := C14_statement_names cls text ss h
  constructor
  · intro hd
    obtain ⟨st, hst, hp⟩ := List.mem_flatMap.mp hd
    cases st with
    | consts ds =>
      obtain ⟨d, hd2, he⟩ := List.mem_map.mp hp
      obtain ⟨pre, post, h1, h2, _⟩ := hn _ hst (d.name, d.nameSpan) (List.mem_map.mpr ⟨d, hd2, rfl⟩)
      injection he with he1 he2
      subst he1; subst he2
      exact ⟨pre, post, h1, h2⟩
    | wires ds =>
      obtain ⟨d, hd2, he⟩ := List.mem_map.mp hp
      obtain ⟨pre, post, h1, h2, _⟩ := hn _ hst (d.name, (d.span.1, d.span.1 + sizeOf' d.name.toList))
        (List.mem_map.mpr ⟨d, hd2, rfl⟩)
      injection he with he1 he2
      subst he1; subst he2
      exact ⟨pre, post, h1, h2⟩
    | assigns as => simp at hp
    | bank b => simp at hp
  · rintro ⟨x, hx⟩
    obtain ⟨st, hst, hp⟩ := List.mem_flatMap.mp hx
    cases st with
    | assigns as =>
      obtain ⟨a, ha, hp2⟩ := List.mem_flatMap.mp hp
      obtain ⟨nm, hnm, he⟩ := List.mem_map.mp hp2
      obtain ⟨pre, post, h1, h2, h3⟩ := hn _ hst nm (List.mem_flatMap.mpr ⟨a, ha, hnm⟩)
      injection he with he1 he2
      injection he2 with he2 he3
      subst he1; subst he2
      exact ⟨⟨pre, post, h1, h2⟩, h3⟩
    | consts ds => simp at hp
    | wires ds => simp at hp
    | bank b => simp at hp

#print axioms C14_diag_erase
#print axioms C14_diag_step1_verdict
#print axioms C14_diag_points_at_step1
#print axioms C14_diag_names_in_text
