import Hcl.Ast

/-! Model of lexer.rs.  Input text is a `List Char`; positions are UTF-8 byte offsets
    (`char_indices`).  Rust's Unicode predicates are the parameter `cls`. -/

namespace Lexer

structure CharCls where
  isWhitespace : Char → Bool
  isAlphabetic : Char → Bool
  isAlphanumeric : Char → Bool

/-- ASCII behaviour of `char::is_whitespace/is_alphabetic/is_alphanumeric` -/
def asciiCls : CharCls :=
  { isWhitespace := fun c => c == ' ' || ('\t' ≤ c && c ≤ '\r'),
    isAlphabetic := fun c => ('a' ≤ c && c ≤ 'z') || ('A' ≤ c && c ≤ 'Z'),
    isAlphanumeric := fun c => ('a' ≤ c && c ≤ 'z') || ('A' ≤ c && c ≤ 'Z') || ('0' ≤ c && c ≤ '9') }

inductive Tok where
  | AndAnd | OrOr | Equal | NotEqual | GreaterEqual | Greater | LessEqual | Less | Assign
  | RightShift | LeftShift | Comma | Semicolon | Plus | Minus | And | Or | Xor | Times | Divide | Not
  | Constant (v : WireValue)
  | OpenParen | CloseParen | OpenBrace | CloseBrace | OpenBracket | CloseBracket
  | Colon | Complement | DotDot | Wire | Const | Register | In
  | Identifier (name : String)
  deriving Repr, DecidableEq, Inhabited

inductive LexErr where
  | lexical (loc : Nat)
  | invalidConstant (s e : Nat)
  | unterminatedComment (loc : Nat)
  | outOfFuel
  deriving Repr, DecidableEq

def isHex (c : Char) : Bool := ('0' ≤ c && c ≤ '9') || ('a' ≤ c && c ≤ 'f') || ('A' ≤ c && c ≤ 'F')
def isDec (c : Char) : Bool := '0' ≤ c && c ≤ '9'
def isBin (c : Char) : Bool := '0' ≤ c && c ≤ '1'

def size (c : Char) : Nat := c.utf8Size

def sizeOf' (cs : List Char) : Nat := (cs.map size).sum

/-- `get_while`: the longest prefix satisfying `f`, with its length in bytes -/
def spanWhile (f : Char → Bool) : List Char → List Char × List Char
  | [] => ([], [])
  | c :: rest => if f c then let (a, b) := spanWhile f rest; (c :: a, b) else ([], c :: rest)

def digitVal (c : Char) : Nat :=
  if '0' ≤ c && c ≤ '9' then c.toNat - 48 else if 'a' ≤ c && c ≤ 'f' then c.toNat - 87 else c.toNat - 55

/-- `u128::from_str_radix`: `none` on overflow -/
def parseRadix (radix : Nat) (ds : List Char) : Option Nat :=
  let v := ds.foldl (fun acc c => acc * radix + digitVal c) 0
  if v < 2 ^ 128 then some v else none

def keyword (name : String) : Tok :=
  if name == "wire" then .Wire else if name == "const" then .Const else if name == "register" then .Register
  else if name == "in" then .In else .Identifier name

/-- `handle_constant(i)`: `first` is the digit at byte offset `i`, `rest` what follows it; `total` the input length in bytes.
    Returns the token with its span and the remaining input with its offset. -/
def handleConstant (i : Nat) (first : Char) (rest : List Char) (total : Nat) :
    Except LexErr ((Nat × Tok × Nat) × List Char × Nat) :=
  let single : Except LexErr ((Nat × Tok × Nat) × List Char × Nat) :=
    .ok ((i, .Constant ⟨first.toNat - 48, .unlimited⟩, i + 1), rest, i + 1)
  match rest with
  | [] => single
  | c2 :: rest2 =>
    if c2 == 'x' then
      -- expect_or_error(is_hexadecimal_char) consumes one character
      match rest2 with
      | [] => .error (.lexical total)
      | h :: _ =>
        if !isHex h then .error (.lexical (i + 2)) else
        let (digits, after) := spanWhile isHex rest2
        let e := i + 2 + sizeOf' digits
        match parseRadix 16 digits with
        | some v => .ok ((i, .Constant ⟨v, .unlimited⟩, e), after, e)
        | none => .error (.invalidConstant i e)
    else if c2 == 'b' then
      match rest2 with
      | [] => .error (.lexical total)
      | h :: _ =>
        if !isBin h then .error (.lexical (i + 2)) else
        let (digits, after) := spanWhile isBin rest2
        let e := i + 2 + sizeOf' digits
        match after with
        | d :: _ => if isDec d then .error (.lexical e) else
            if digits.length > 128 then .error (.invalidConstant i e) else
            (match parseRadix 2 digits with
             | some v => .ok ((i, .Constant ⟨v, .bits digits.length⟩, e), after, e)
             | none => .error (.invalidConstant i e))
        | [] =>
            if digits.length > 128 then .error (.invalidConstant i e) else
            (match parseRadix 2 digits with
             | some v => .ok ((i, .Constant ⟨v, .bits digits.length⟩, e), after, e)
             | none => .error (.invalidConstant i e))
    else if isDec c2 then
      let (digits, after) := spanWhile isDec (first :: rest)
      let e := i + sizeOf' digits
      match parseRadix 10 digits with
      | some v => .ok ((i, .Constant ⟨v, .unlimited⟩, e), after, e)
      | none => .error (.invalidConstant i e)
    else single

/-- skip a `/* ... */` comment; `cs` starts right after the `/` (at the `*`); `none` = unterminated -/
def skipBlock : Nat → List Char → Nat → Option (List Char × Nat)
  | 0, _, _ => none
  | fuel+1, cs, off =>
    let (skipped, after) := spanWhile (· != '*') cs
    let off := off + sizeOf' skipped
    match after with
    | [] => none
    | _star :: after2 =>
      match after2 with
      | '/' :: after3 => some (after3, off + 2)
      | _ => skipBlock fuel after2 (off + 1)

inductive Item where
  | tok (s : Nat) (t : Tok) (e : Nat)
  | err (e : LexErr)
  deriving Repr, DecidableEq

/-- one turn of the iterator's loop: the items produced and where it goes on, or the end (end of input, or an error) -/
inductive Step where
  | stop (items : List Item)
  | more (items : List Item) (cs : List Char) (off : Nat)

/-- a one-character token -/
def simpleStep (rest : List Char) (i next : Nat) (t : Tok) : Step := .more [.tok i t (i + 1)] rest next

/-- a token that may be extended by a second character (`&` / `&&`, `<` / `<<` / `<=`, ...) -/
def chooseStep (rest : List Char) (i next : Nat) (dflt : Tok) (opts : List (Char × Tok)) : Step :=
  match rest with
  | d :: rest2 =>
    match opts.find? (fun o => o.1 == d) with
    | some o => .more [.tok i o.2 (i + 2)] rest2 (next + size d)
    | none => .more [.tok i dflt (i + 1)] rest next
  | [] => .more [.tok i dflt (i + 1)] rest next

/-- `#` and `//` comments: up to the end of the line -/
def lineCommentStep (rest : List Char) (next : Nat) : Step :=
  let (skipped, after) := spanWhile (fun d => d != '\n' && d != '\r') rest
  .more [] after (next + sizeOf' skipped)

/-- `/`: a line comment, a block comment or the division sign -/
def slashStep (rest : List Char) (i next : Nat) : Step :=
  match rest with
  | '/' :: _ => lineCommentStep rest next
  | '*' :: _ =>
    match skipBlock (rest.length + 1) rest next with
    | some (after, off') => .more [] after off'
    | none => .stop [.err (.unterminatedComment i)]
  | _ => simpleStep rest i next .Divide

/-- operators, punctuation, comments -/
def punctStep (c : Char) (rest : List Char) (i next : Nat) : Step :=
  if c == '#' then lineCommentStep rest next
  else if c == '/' then slashStep rest i next
  else if c == '&' then chooseStep rest i next .And [('&', .AndAnd)]
  else if c == '|' then chooseStep rest i next .Or [('|', .OrOr)]
  else if c == '=' then chooseStep rest i next .Assign [('=', .Equal)]
  else if c == '>' then chooseStep rest i next .Greater [('>', .RightShift), ('=', .GreaterEqual)]
  else if c == '<' then chooseStep rest i next .Less [('<', .LeftShift), ('=', .LessEqual)]
  else if c == '!' then chooseStep rest i next .Not [('=', .NotEqual)]
  else if c == ':' then simpleStep rest i next .Colon
  else if c == '~' then simpleStep rest i next .Complement
  else if c == ',' then simpleStep rest i next .Comma
  else if c == ';' then simpleStep rest i next .Semicolon
  else if c == '.' then
    match rest with
    | '.' :: rest2 => .more [.tok i .DotDot (i + 2)] rest2 (next + 1)
    | _ => .stop [.err (.lexical i)]
  else if c == '+' then simpleStep rest i next .Plus
  else if c == '-' then simpleStep rest i next .Minus
  else if c == '^' then simpleStep rest i next .Xor
  else if c == '*' then simpleStep rest i next .Times
  else if c == '(' then simpleStep rest i next .OpenParen
  else if c == ')' then simpleStep rest i next .CloseParen
  else if c == '[' then simpleStep rest i next .OpenBracket
  else if c == ']' then simpleStep rest i next .CloseBracket
  else if c == '{' then simpleStep rest i next .OpenBrace
  else if c == '}' then simpleStep rest i next .CloseBrace
  else .stop [.err (.lexical i)]

def identStep (cls : CharCls) (c : Char) (rest : List Char) (i next : Nat) : Step :=
  let (more, after) := spanWhile (fun d => cls.isAlphanumeric d || d == '_') rest
  let e := next + sizeOf' more
  .more [.tok i (keyword (String.ofList (c :: more))) e] after e

def constantStep (c : Char) (rest : List Char) (i total : Nat) : Step :=
  match handleConstant i c rest total with
  | .ok ((s, t, e), after, off') => .more [.tok s t e] after off'
  | .error err => .stop [.err err]

def lexStep (cls : CharCls) (total : Nat) (cs : List Char) (off : Nat) : Step :=
  match cs with
  | [] => .stop []
  | c :: rest =>
    let next := off + size c
    if cls.isWhitespace c then .more [] rest next
    else if cls.isAlphabetic c || c == '_' then identStep cls c rest off next
    else if isDec c then constantStep c rest off total
    else punctStep c rest off next

/-- the iterator, run to the end of input or to the first lexical error; running out of `fuel` is marked -/
def lexAll (cls : CharCls) (total : Nat) : Nat → List Char → Nat → List Item
  | 0, _, _ => [.err .outOfFuel]
  | fuel+1, cs, off =>
    match lexStep cls total cs off with
    | .stop items => items
    | .more items cs' off' => items ++ lexAll cls total fuel cs' off'

def lex (cls : CharCls) (input : List Char) : List Item :=
  lexAll cls (sizeOf' input) (input.length + 1) input 0

end Lexer
