import Hcl.Proofs.NamesAreIdentifiers
import Hcl.Proofs.LexLiterals
open Rust Lexer Parser

/-!
# The statements parsed from a text are well-formed

`StmtsWF stmts` (Hcl/Proofs/Stage1.lean) is the hypothesis "what the lexer and the grammar guarantee" of the theorems about
`Program.new`: every literal fits its width (128 bits when unsized), every declared width and every upper slice bound is
at most 128.  Here it is PROVED for the statements `parseProgram` answers:

* the lexer only makes `Constant` tokens whose value is well-formed (`Lexer.constant_wf`): a binary literal of `n ≤ 128`
  digits has width `n` and a value below `2^n`; hexadecimal and decimal literals are unsized and below `2^128`
  (`u128::from_str_radix` fails otherwise, which is a lexical error);
* an expression derived from well-formed constants is well-formed (`Parser.D_wf`): the bounds of a slice are
  `SimpleConstant`s, at most 128;
* a `WidthConstant` is at most 128 (`Parser.DS_wf`).
-/

/-! ## Lexer: every constant token is well-formed -/

namespace Lexer

/-- the literal fits its width, which is at most 128 (128 bits when unsized): `wfEx` of the constant expression -/
def WfConst (v : WireValue) : Prop := wfEx (.const v) = true

theorem wfConst_unlimited (n : Nat) (h : n < 2 ^ 128) : WfConst ⟨n, .unlimited⟩ := by
  unfold WfConst wfEx
  simp only [decide_eq_true_eq]
  exact h

theorem wfConst_bits (n k : Nat) (hk : k ≤ 128) (h : n < 2 ^ k) : WfConst ⟨n, .bits k⟩ := by
  unfold WfConst wfEx
  simp only [Bool.and_eq_true, decide_eq_true_eq]
  exact ⟨hk, h⟩

def CTokOK : Tok → Prop
  | .Constant v => WfConst v
  | _ => True

def CItemsOK (items : List Item) : Prop := ∀ s t e, Item.tok s t e ∈ items → CTokOK t

def CStepOK : Step → Prop
  | .stop items => CItemsOK items
  | .more items _ _ => CItemsOK items

theorem cItems_nil : CItemsOK [] := by
  intro s t e h; cases h

theorem cItems_err (x : LexErr) : CItemsOK [.err x] := by
  intro s t e h
  simp at h

theorem cItems_single (s : Nat) (t : Tok) (e : Nat) (h : CTokOK t) : CItemsOK [.tok s t e] := by
  intro s' t' e' hm
  simp only [List.mem_cons, List.not_mem_nil, or_false, Item.tok.injEq] at hm
  obtain ⟨_, rfl, _⟩ := hm
  exact h

theorem cItems_append {a b : List Item} (ha : CItemsOK a) (hb : CItemsOK b) : CItemsOK (a ++ b) := by
  intro s t e hm
  rcases List.mem_append.mp hm with h | h
  · exact ha s t e h
  · exact hb s t e h

theorem cStep_simple (rest : List Char) (i next : Nat) (t : Tok) (h : CTokOK t) : CStepOK (simpleStep rest i next t) := by
  unfold simpleStep CStepOK
  exact cItems_single _ _ _ h

theorem cStep_choose (rest : List Char) (i next : Nat) (dflt : Tok) (opts : List (Char × Tok))
    (hd : CTokOK dflt) (ho : ∀ o ∈ opts, CTokOK o.2) : CStepOK (chooseStep rest i next dflt opts) := by
  unfold chooseStep
  cases rest with
  | nil => exact cItems_single _ _ _ hd
  | cons d rest2 =>
    simp only
    cases hf : opts.find? (fun o => o.1 == d) with
    | some o => exact cItems_single _ _ _ (ho o (List.mem_of_find?_eq_some hf))
    | none => exact cItems_single _ _ _ hd

theorem cStep_lineComment (rest : List Char) (next : Nat) : CStepOK (lineCommentStep rest next) := by
  unfold lineCommentStep
  cases spanWhile (fun d => d != '\n' && d != '\r') rest with
  | mk a b => exact cItems_nil

theorem cStep_slash (rest : List Char) (i next : Nat) : CStepOK (slashStep rest i next) := by
  unfold slashStep
  split
  · exact cStep_lineComment _ next
  · split
    · exact cItems_nil
    · exact cItems_err _
  · exact cStep_simple rest i next .Divide trivial

theorem cStep_ite {p : Prop} [Decidable p] {a b : Step} (ha : CStepOK a) (hb : CStepOK b) : CStepOK (if p then a else b) := by
  split <;> assumption

theorem cStep_dot (rest : List Char) (i next : Nat) :
    CStepOK (match (generalizing := false) rest with
      | '.' :: rest2 => .more [.tok i .DotDot (i + 2)] rest2 (next + 1)
      | _ => .stop [.err (.lexical i)]) := by
  split
  · exact cItems_single _ _ _ trivial
  · exact cItems_err _

theorem cStep_punct (c : Char) (rest : List Char) (i next : Nat) : CStepOK (punctStep c rest i next) := by
  unfold punctStep
  repeat' apply cStep_ite
  all_goals first
    | exact cStep_simple rest i next _ trivial
    | exact cStep_lineComment rest next
    | exact cStep_slash rest i next
    | exact cStep_dot rest i next
    | exact cItems_err _
    | (apply cStep_choose
       · trivial
       · intro o ho
         simp only [List.mem_cons, List.not_mem_nil, or_false] at ho
         first
           | (rcases ho with rfl | rfl <;> trivial)
           | (subst ho; trivial))

theorem cTok_keyword (name : String) : CTokOK (keyword name) := by
  unfold keyword
  repeat' split
  all_goals trivial

theorem isBin_digitVal (c : Char) (h : isBin c = true) : digitVal c < 2 := by
  unfold isBin at h
  simp only [Bool.and_eq_true, decide_eq_true_eq] at h
  have h1 := (char_le_iff _ _).mp h.1
  have h2 := (char_le_iff _ _).mp h.2
  have h9 : ('0' ≤ c && c ≤ '9') = true := by
    simp only [Bool.and_eq_true, decide_eq_true_eq]
    refine ⟨h.1, (char_le_iff _ _).mpr ?_⟩
    have : ('1' : Char).toNat = 49 := by decide
    have : ('9' : Char).toNat = 57 := by decide
    omega
  unfold digitVal
  rw [if_pos h9]
  have : ('0' : Char).toNat = 48 := by decide
  have : ('1' : Char).toNat = 49 := by decide
  omega

theorem parseRadix_lt (radix : Nat) (ds : List Char) (v : Nat) (h : parseRadix radix ds = some v) : v < 2 ^ 128 := by
  rw [parseRadix_eq] at h
  split at h
  · simp only [Option.some.injEq] at h
    subst h
    assumption
  · cases h

theorem parseRadix_bin_lt (ds : List Char) (hall : ∀ c ∈ ds, isBin c = true) (v : Nat) (h : parseRadix 2 ds = some v) :
    v < 2 ^ ds.length := by
  rw [parseRadix_eq] at h
  split at h
  · simp only [Option.some.injEq] at h
    subst h
    have := foldl_digits_lt 2 (by decide) ds 0 (fun c hc => isBin_digitVal c (hall c hc))
    simpa [digitsVal] using this
  · cases h

theorem char_toNat_lt (c : Char) : c.toNat < 2 ^ 32 := by
  have := c.val.toNat_lt
  exact this

/-- **`handle_constant` only makes well-formed constants** -/
theorem handleConstant_wf (i : Nat) (first : Char) (rest : List Char) (total : Nat) (s : Nat) (t : Tok) (e : Nat)
    (after : List Char) (off' : Nat) (h : handleConstant i first rest total = .ok ((s, t, e), after, off')) :
    CTokOK t := by
  have hsingle : WfConst ⟨first.toNat - 48, .unlimited⟩ := by
    apply wfConst_unlimited
    have := char_toNat_lt first
    omega
  unfold handleConstant at h
  simp only at h
  cases rest with
  | nil =>
    simp only [Except.ok.injEq, Prod.mk.injEq] at h
    obtain ⟨⟨_, rfl, _⟩, _, _⟩ := h
    exact hsingle
  | cons c2 rest2 =>
    simp only at h
    by_cases hx : (c2 == 'x') = true
    · simp only [hx, if_true] at h
      cases rest2 with
      | nil => simp at h
      | cons hd tl =>
        simp only at h
        split at h
        · cases h
        · cases hsp : spanWhile isHex (hd :: tl) with
          | mk digits aft =>
            rw [hsp] at h
            simp only at h
            split at h
            · rename_i v hv
              simp only [Except.ok.injEq, Prod.mk.injEq] at h
              obtain ⟨⟨_, rfl, _⟩, _, _⟩ := h
              exact wfConst_unlimited _ (parseRadix_lt _ _ _ hv)
            · cases h
    · have hx' : (c2 == 'x') = false := by simpa using hx
      simp only [hx', Bool.false_eq_true, if_false] at h
      by_cases hb : (c2 == 'b') = true
      · simp only [hb, if_true] at h
        cases rest2 with
        | nil => simp at h
        | cons hd tl =>
          simp only at h
          split at h
          · cases h
          · cases hsp : spanWhile isBin (hd :: tl) with
            | mk digits aft =>
              rw [hsp] at h
              simp only at h
              have hall := spanWhile_taken_all _ _ _ _ hsp
              have fin : ∀ (v : Nat), ¬ digits.length > 128 → parseRadix 2 digits = some v →
                  (Except.ok ((i, Tok.Constant ⟨v, .bits digits.length⟩, i + 2 + sizeOf' digits), aft, i + 2 + sizeOf' digits) :
                  Except LexErr ((Nat × Tok × Nat) × List Char × Nat)) = .ok ((s, t, e), after, off') → CTokOK t := by
                intro v hlen hv hok
                simp only [Except.ok.injEq, Prod.mk.injEq] at hok
                obtain ⟨⟨_, rfl, _⟩, _, _⟩ := hok
                exact wfConst_bits _ _ (by omega) (parseRadix_bin_lt digits hall v hv)
              split at h
              · split at h
                · cases h
                · split at h
                  · cases h
                  · rename_i hlen
                    split at h
                    · rename_i v hv
                      exact fin v hlen hv h
                    · cases h
              · split at h
                · cases h
                · rename_i hlen
                  split at h
                  · rename_i v hv
                    exact fin v hlen hv h
                  · cases h
      · have hb' : (c2 == 'b') = false := by simpa using hb
        simp only [hb', Bool.false_eq_true, if_false] at h
        split at h
        · cases hsp : spanWhile isDec (first :: c2 :: rest2) with
          | mk digits aft =>
            rw [hsp] at h
            simp only at h
            split at h
            · rename_i v hv
              simp only [Except.ok.injEq, Prod.mk.injEq] at h
              obtain ⟨⟨_, rfl, _⟩, _, _⟩ := h
              exact wfConst_unlimited _ (parseRadix_lt _ _ _ hv)
            · cases h
        · simp only [Except.ok.injEq, Prod.mk.injEq] at h
          obtain ⟨⟨_, rfl, _⟩, _, _⟩ := h
          exact hsingle

theorem lexStep_cOK (cls : CharCls) (total : Nat) (cs : List Char) (off : Nat) : CStepOK (lexStep cls total cs off) := by
  unfold lexStep
  cases cs with
  | nil => exact cItems_nil
  | cons c rest =>
    simp only
    split
    · exact cItems_nil
    · split
      · unfold identStep
        cases hsp : spanWhile (fun d => cls.isAlphanumeric d || d == '_') rest with
        | mk more after => exact cItems_single _ _ _ (cTok_keyword _)
      · split
        · unfold constantStep
          cases hcst : handleConstant off c rest total with
          | error e => exact cItems_err _
          | ok r =>
            obtain ⟨⟨s, t, e⟩, after, off'⟩ := r
            exact cItems_single _ _ _ (handleConstant_wf off c rest total s t e after off' hcst)
        · exact cStep_punct c rest off _

theorem lexAll_cOK (cls : CharCls) (total : Nat) : ∀ (fuel : Nat) (cs : List Char) (off : Nat),
    CItemsOK (lexAll cls total fuel cs off)
  | 0, _, _ => cItems_err _
  | fuel + 1, cs, off => by
    unfold lexAll
    have h := lexStep_cOK cls total cs off
    cases hs : lexStep cls total cs off with
    | stop items => rw [hs] at h; exact h
    | more items cs' off' =>
      rw [hs] at h
      exact cItems_append h (lexAll_cOK cls total fuel cs' off')

/-- **Every constant token of the lexer is well-formed**: with a width of `n ≤ 128` bits its value is below `2^n`,
    without a width below `2^128` -/
theorem constant_wf (cls : CharCls) (text : List Char) (s e : Nat) (v : WireValue)
    (h : Item.tok s (.Constant v) e ∈ lex cls text) : WfConst v :=
  lexAll_cOK cls _ _ _ _ s _ e h

end Lexer

/-! ## Parser: expressions and statements derived from well-formed constants are well-formed -/

namespace Parser

/-- every constant among the token kinds is well-formed -/
def ConstsOK (ts : List Tok) : Prop := ∀ v, Tok.Constant v ∈ ts → WfConst v

theorem ConstsOK.sub {ts ts' : List Tok} (h : ConstsOK ts) (hs : ∀ t ∈ ts', t ∈ ts) : ConstsOK ts' :=
  fun v hv => h v (hs _ hv)

/-- well-formedness of what a category builds -/
def wfV : Val → Bool
  | .e x => wfEx x
  | .o o => wfOpts o
  | .i i => wfExs i

/-- the rest of a chain is parsed with a left operand, which must be well-formed already -/
def preC : Cat → Prop
  | .chain _ _ acc => wfEx acc = true
  | _ => True

/-- **An expression derived from well-formed constants is well-formed.** -/
theorem D_wf {c : Cat} {v : Val} {ts : List Tok} (h : D c v ts) : preC c → ConstsOK ts → wfV v = true := by
  induction h with
  | const v => intro _ hc; exact hc v List.mem_cons_self
  | wire n => intro _ _; rfl
  | paren _ ih => intro _ hc; exact ih trivial (hc.sub (by intro t ht; simp [ht]))
  | concat _ _ ih1 ih2 =>
    intro _ hc
    have h1 := ih1 trivial (hc.sub (by intro t ht; simp [ht]))
    have h2 := ih2 trivial (hc.sub (by intro t ht; simp [ht]))
    simp only [wfV] at h1 h2 ⊢
    simp only [wfEx, h1, h2, Bool.and_self]
  | mux _ ih =>
    intro _ hc
    have h1 := ih trivial (hc.sub (by intro t ht; simp [ht]))
    simp only [wfV] at h1 ⊢
    simp only [wfEx, h1]
  | simpleTerm _ ih => intro _ hc; exact ih trivial hc
  | un _ _ ih =>
    intro _ hc
    have h1 := ih trivial (hc.sub (by intro t ht; simp [ht]))
    simp only [wfV] at h1 ⊢
    simp only [wfEx, h1]
  | slice _ hlo hhi ih =>
    intro _ hc
    have h1 := ih trivial (hc.sub (by intro t ht; simp [ht]))
    simp only [wfV] at h1 ⊢
    simp only [wfEx, h1, Bool.true_and, decide_eq_true_eq]
    exact hhi
  | termTier _ ih => intro _ hc; exact ih trivial hc
  | inPass _ _ ih => intro _ hc; exact ih trivial hc
  | inSet _ _ _ ih1 ih2 =>
    intro _ hc
    have h1 := ih1 trivial (hc.sub (by intro t ht; simp [ht]))
    have h2 := ih2 trivial (hc.sub (by intro t ht; simp [ht]))
    simp only [wfV] at h1 h2 ⊢
    simp only [wfEx, h1, h2, Bool.and_self]
  | flatPass _ _ _ ih => intro _ hc; exact ih trivial hc
  | flatBin _ _ _ _ _ ih1 ih2 =>
    intro _ hc
    have h1 := ih1 trivial (hc.sub (by intro t ht; simp [ht]))
    have h2 := ih2 trivial (hc.sub (by intro t ht; simp [ht]))
    simp only [wfV] at h1 h2 ⊢
    simp only [wfEx, h1, h2, Bool.and_self]
  | chainTier _ _ _ _ ih1 ih2 =>
    intro _ hc
    have h1 := ih1 trivial (hc.sub (by intro t ht; simp [ht]))
    exact ih2 h1 (hc.sub (by intro t ht; simp [ht]))
  | chainNil _ => intro hp _; exact hp
  | chainCons _ _ _ _ ih1 ih2 =>
    intro hp hc
    have h1 := ih1 trivial (hc.sub (by intro t ht; simp [ht]))
    simp only [wfV] at h1
    simp only [preC] at hp
    refine ih2 ?_ (hc.sub (by intro t ht; simp [ht]))
    simp only [preC, wfEx, h1, hp, Bool.and_self]
  | optsNil => intro _ _; rfl
  | optsLast _ _ ih1 ih2 =>
    intro _ hc
    have h1 := ih1 trivial (hc.sub (by intro t ht; simp [ht]))
    have h2 := ih2 trivial (hc.sub (by intro t ht; simp [ht]))
    simp only [wfV] at h1 h2 ⊢
    simp only [wfOpts, h1, h2, Bool.and_self]
  | optsCons _ _ _ ih1 ih2 ih3 =>
    intro _ hc
    have h1 := ih1 trivial (hc.sub (by intro t ht; simp [ht]))
    have h2 := ih2 trivial (hc.sub (by intro t ht; simp [ht]))
    have h3 := ih3 trivial (hc.sub (by intro t ht; simp [ht]))
    simp only [wfV] at h1 h2 h3 ⊢
    simp only [wfOpts, h1, h2, h3, Bool.and_self]
  | itemsNil => intro _ _; rfl
  | itemsLast _ ih =>
    intro _ hc
    have h1 := ih trivial hc
    simp only [wfV] at h1 ⊢
    simp only [wfExs, h1, Bool.and_self]
  | itemsCons _ _ ih1 ih2 =>
    intro _ hc
    have h1 := ih1 trivial (hc.sub (by intro t ht; simp [ht]))
    have h2 := ih2 trivial (hc.sub (by intro t ht; simp [ht]))
    simp only [wfV] at h1 h2 ⊢
    simp only [wfExs, h1, h2, Bool.and_self]

theorem D_expr_wf {x : Ex} {ts : List Tok} (h : D (.tier 0) (.e x) ts) (hc : ConstsOK ts) : wfEx x = true :=
  D_wf h trivial hc

theorem DWires.wf {ds : List WireDecl} {ts : List Tok} (h : DWires ds ts) : ∀ d ∈ ds, d.width.ok := by
  induction h with
  | nil => intro d hd; cases hd
  | one hw =>
    intro d hd
    simp only [List.mem_cons, List.not_mem_nil, or_false] at hd
    subst hd
    exact hw
  | cons hw _ ih =>
    intro d hd
    rcases List.mem_cons.mp hd with rfl | hd
    · exact hw
    · exact ih d hd

theorem DConsts.wf {ds : List ConstDecl} {ts : List Tok} (h : DConsts ds ts) (hc : ConstsOK ts) :
    ∀ d ∈ ds, wfEx d.value = true := by
  induction h with
  | nil => intro d hd; cases hd
  | one dv =>
    intro d hd
    simp only [List.mem_cons, List.not_mem_nil, or_false] at hd
    subst hd
    exact D_expr_wf dv (hc.sub (by intro t ht; simp [ht]))
  | cons dv _ ih =>
    intro d hd
    rcases List.mem_cons.mp hd with rfl | hd
    · exact D_expr_wf dv (hc.sub (by intro t ht; simp [ht]))
    · exact ih (hc.sub (by intro t ht; simp [ht])) d hd

theorem DAssignment.wf {a : Assignment} {ts : List Tok} (h : DAssignment a ts) (hc : ConstsOK ts) : wfEx a.value = true := by
  cases h with
  | mk _ _ de => exact D_expr_wf de (hc.sub (by intro t ht; simp [ht]))

theorem DAssigns.wf {as : List Assignment} {ts : List Tok} (h : DAssigns as ts) (hc : ConstsOK ts) :
    ∀ a ∈ as, wfEx a.value = true := by
  induction h with
  | one d =>
    intro a ha
    simp only [List.mem_cons, List.not_mem_nil, or_false] at ha
    subst ha
    exact d.wf hc
  | oneComma d =>
    intro a ha
    simp only [List.mem_cons, List.not_mem_nil, or_false] at ha
    subst ha
    exact d.wf (hc.sub (by intro t ht; simp [ht]))
  | cons d _ ih =>
    intro a ha
    rcases List.mem_cons.mp ha with rfl | ha
    · exact d.wf (hc.sub (by intro t ht; simp [ht]))
    · exact ih (hc.sub (by intro t ht; simp [ht])) a ha

theorem DRegs.wf {ds : List RegDecl} {ts : List Tok} (h : DRegs ds ts) (hc : ConstsOK ts) :
    ∀ r ∈ ds, r.width.ok ∧ wfEx r.default = true := by
  induction h with
  | nil => intro r hr; cases hr
  | one hw dv =>
    intro r hr
    simp only [List.mem_cons, List.not_mem_nil, or_false] at hr
    subst hr
    exact ⟨hw, D_expr_wf dv (hc.sub (by intro t ht; simp [ht]))⟩
  | cons hw dv _ ih =>
    intro r hr
    rcases List.mem_cons.mp hr with rfl | hr
    · exact ⟨hw, D_expr_wf dv (hc.sub (by intro t ht; simp [ht]))⟩
    · exact ih (hc.sub (by intro t ht; simp [ht])) r hr

theorem DBank.wf {b : BankDecl} {ts : List Tok} (h : DBank b ts) (hc : ConstsOK ts) : declOK (.bank b) := by
  cases h with
  | mk d => exact d.wf (hc.sub (by intro t ht; simp [ht]))

theorem DNeed.wf {st : Stmt} {ts : List Tok} (h : DNeed st ts) (hc : ConstsOK ts) : declOK st := by
  cases h with
  | wires d => exact d.wf
  | consts d => exact d.wf (hc.sub (by intro t ht; simp [ht]))
  | assigns d => exact d.wf hc

/-- **Statements derived from well-formed constants are well-formed.** -/
theorem DS_wf {started : Bool} {l : List Stmt} {ts : List Tok} (h : DS started l ts) (hc : ConstsOK ts) : StmtsWF l := by
  induction h with
  | nil => intro st hst; cases hst
  | semi _ ih => exact ih (hc.sub (by intro t ht; simp [ht]))
  | bank db _ ih =>
    intro st hst
    rcases List.mem_cons.mp hst with rfl | hst
    · exact db.wf (hc.sub (by intro t ht; simp [ht]))
    · exact ih (hc.sub (by intro t ht; simp [ht])) st hst
  | stmt dn _ ih =>
    intro st hst
    rcases List.mem_cons.mp hst with rfl | hst
    · exact dn.wf (hc.sub (by intro t ht; simp [ht]))
    · exact ih (hc.sub (by intro t ht; simp [ht])) st hst
  | last dn =>
    intro st hst
    simp only [List.mem_cons, List.not_mem_nil, or_false] at hst
    subst hst
    exact dn.wf hc

/-- **The statements parsed from a text are well-formed**: literals fit their widths (128 bits when unsized), declared
    widths and upper slice bounds are at most 128 -- the hypothesis `StmtsWF` of the theorems about `Program.new`. -/
theorem parseProgram_wf (cls : CharCls) (text : List Char) (stmts : List Stmt)
    (hp : Parser.parseProgram cls text = some stmts) : StmtsWF stmts := by
  obtain ⟨toks, ht, hd⟩ := (parseProgram_iff_DS cls text stmts).mp hp
  apply DS_wf hd
  intro v hv
  obtain ⟨s, e, hm⟩ := tokensOf_mem _ toks ht _ hv
  exact constant_wf cls text s e v hm

end Parser

#print axioms Lexer.constant_wf
#print axioms Parser.D_wf
#print axioms Parser.parseProgram_wf
