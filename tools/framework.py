#!/usr/bin/env python3
"""Shared machinery of ./check: build steps, axiom audit, stream execution, verdict, evidence.

Verdict rule (DESIGN.md section 2):
  1. regenerate Generated.lean, build the property's theorem modules, audit axioms
     -> a failure is a broken proof obligation;
  2. run the property's correspondence streams: impl result vs model result
     -> a difference is a broken correspondence;
  3. on every case also compare impl vs spec (direct oracle) -> a failure is a concrete violation;
  4. obligation/correspondence broken but no concrete failing input after the search budget
     -> VIOLATION ... no-failing-input-found.
"""
import fcntl
import hashlib
import json
import os
import re
import subprocess
import sys
import time

VERIF = os.path.dirname(os.path.dirname(os.path.abspath(__file__)))
REPO = os.environ.get("VERIF_REPO", "/repo")
LEAN_DIR = os.path.join(VERIF, "lean")
BUILD = os.path.join(VERIF, "build")
HARNESS_DIR = os.path.join(VERIF, "harness")
DRIVER = os.path.join(LEAN_DIR, ".lake", "build", "bin", "driver")
ALLOWED_AXIOMS = {"propext", "Classical.choice", "Quot.sound"}
FORBIDDEN = re.compile(r"\b(sorry|admit|native_decide|bv_decide|implemented_by|unsafe)\b|^\s*axiom\s|maxHeartbeats\s+0\b", re.M)

TRUSTED_BASE = [
    "Lean 4.33 kernel; axioms allowed in property theorems: propext, Classical.choice, Quot.sound (audited by #print axioms on every run)",
    "tools/extract.py (translator /repo -> lean/Hcl/Generated.lean) and the tie theorems that compare it with the hand model by decide",
    "harness (Rust, in-process, cargo feature verif-hooks) and lean driver: the correspondence is differential sampling of impl vs hand-written model",
    "Hcl/Spec: the reading of the property statement as Lean definitions",
    "all of /repo/src is modelled, not verified; LALRPOP automaton, getopts, std collections/formatting/IO are not modelled",
]


def log(msg):
    print(msg, flush=True)


def run(cmd, cwd=None, env=None, timeout=None, input_data=None):
    e = dict(os.environ)
    e.setdefault("CARGO_NET_OFFLINE", "true")
    if env:
        e.update(env)
    p = subprocess.run(cmd, cwd=cwd, env=e, stdout=subprocess.PIPE, stderr=subprocess.STDOUT,
                       timeout=timeout, input=input_data)
    return p.returncode, p.stdout.decode("utf-8", "replace")


class BuildLock:
    """serialise builds between concurrently running checks"""
    def __enter__(self):
        os.makedirs(BUILD, exist_ok=True)
        self.f = open(os.path.join(BUILD, ".lock"), "w")
        fcntl.flock(self.f, fcntl.LOCK_EX)
        return self

    def __exit__(self, *a):
        fcntl.flock(self.f, fcntl.LOCK_UN)
        self.f.close()


def strip_lean_comments(text):
    # remove /- ... -/ (nested) and -- line comments
    out = []
    i = 0
    depth = 0
    n = len(text)
    while i < n:
        if text.startswith("/-", i):
            depth += 1
            i += 2
        elif depth > 0 and text.startswith("-/", i):
            depth -= 1
            i += 2
        elif depth > 0:
            i += 1
        elif text.startswith("--", i):
            j = text.find("\n", i)
            i = n if j < 0 else j
        else:
            out.append(text[i])
            i += 1
    return "".join(out)


def source_scan():
    """reject sorry/admit/axiom/native_decide/... anywhere in the Lean sources (comments stripped)"""
    bad = []
    for root, _, files in os.walk(LEAN_DIR):
        if ".lake" in root:
            continue
        for f in files:
            if f.endswith(".lean"):
                p = os.path.join(root, f)
                t = strip_lean_comments(open(p).read())
                for m in FORBIDDEN.finditer(t):
                    bad.append("%s: %s" % (os.path.relpath(p, VERIF), m.group(0).strip()))
    return bad


def regenerate():
    rc, out = run([sys.executable, os.path.join(VERIF, "tools", "extract.py")])
    return rc == 0, out


def lake_build(targets):
    rc, out = run(["lake", "build"] + targets, cwd=LEAN_DIR, timeout=3600)
    return rc == 0, out


def audit_axioms(module, theorems):
    """returns (ok, {theorem: [axioms]}, raw output)"""
    os.makedirs(BUILD, exist_ok=True)
    path = os.path.join(BUILD, "Audit_%s.lean" % module.replace(".", "_"))
    with open(path, "w") as f:
        f.write("import %s\n" % module)
        for t in theorems:
            f.write("#print axioms %s\n" % t)
    rc, out = run(["lake", "env", "lean", path], cwd=LEAN_DIR, timeout=1800)
    result = {}
    ok = rc == 0
    flat = re.sub(r"\s+", " ", out)
    for t in theorems:
        m = re.search(r"'%s' depends on axioms: \[([^\]]*)\]" % re.escape(t), flat)
        if m:
            axs = [a.strip() for a in m.group(1).split(",") if a.strip()]
        elif re.search(r"'%s' does not depend on any axioms" % re.escape(t), flat):
            axs = []
        else:
            ok = False
            result[t] = None
            continue
        result[t] = axs
        if not set(axs) <= ALLOWED_AXIOMS:
            ok = False
    return ok, result, out


def build_harness(features=None, target_suffix=""):
    env = {}
    cmd = ["cargo", "build", "--offline"]
    tdir = os.path.join(BUILD, "harness-target" + target_suffix)
    env["CARGO_TARGET_DIR"] = tdir
    if features is not None:
        cmd += ["--no-default-features"]
        if features:
            cmd += ["--features", ",".join("hclrs/" + f for f in features)]
    lock = os.path.join(HARNESS_DIR, "Cargo.lock")
    if not os.path.exists(lock) and os.path.exists(os.path.join(REPO, "Cargo.lock")):
        import shutil
        shutil.copy(os.path.join(REPO, "Cargo.lock"), lock)
    rc, out = run(cmd, cwd=HARNESS_DIR, env=env, timeout=3600)
    return rc == 0, out, os.path.join(tdir, "debug", "hclv")


def build_binary():
    """the hclrs binary itself, built from /repo's working tree into /verif/build (never into /repo/target)"""
    tdir = os.path.join(BUILD, "repo-target")
    rc, out = run(["cargo", "build", "--offline"], cwd=REPO, env={"CARGO_TARGET_DIR": tdir}, timeout=3600)
    return rc == 0, out, os.path.join(tdir, "debug", "hclrs")


def run_stream(binary, stream, seed, count, extra=(), tag=None, pygen=None):
    """run the harness generator (or a Python generator) and the lean driver; returns list of (request, impl, answer)"""
    os.makedirs(BUILD, exist_ok=True)
    tag = tag or stream
    gen = os.path.join(BUILD, "stream-%s-%d.txt" % (tag, os.getpid()))
    if pygen is not None:
        pygen(seed, count, gen)
        rc, out = 0, ""
    else:
        rc, out = run([binary, "gen", stream, str(seed), str(count), gen] + [str(x) for x in extra], timeout=7200)
    if rc != 0:
        raise RuntimeError("harness failed on stream %s: %s" % (stream, out[-2000:]))
    reqs, impls = [], []
    with open(gen, encoding="utf-8", errors="replace") as f:
        for line in f:
            line = line.rstrip("\n")
            if not line:
                continue
            a, _, b = line.partition("\t")
            reqs.append(a)
            impls.append(b)
    data = ("\n".join(reqs) + "\n").encode("utf-8") if reqs else b""
    p = subprocess.run([DRIVER], input=data, stdout=subprocess.PIPE, stderr=subprocess.PIPE, timeout=7200)
    if p.returncode != 0:
        raise RuntimeError("driver failed: %s" % p.stderr.decode()[-2000:])
    answers = p.stdout.decode("utf-8", "replace").split("\n")
    if answers and answers[-1] == "":
        answers.pop()
    os.unlink(gen)
    if len(answers) != len(reqs):
        raise RuntimeError("driver answered %d lines for %d requests (stream %s)" % (len(answers), len(reqs), stream))
    return list(zip(reqs, impls, answers))


def split_answer(ans):
    """'M <model> ;; S <spec>' -> (model, spec)"""
    if not ans.startswith("M "):
        return ans, ""
    m, _, s = ans[2:].partition(" ;; S ")
    s, _, v = s.partition(" ;; V ")
    return m, (s if not v else s + "\x00" + v)


def load_known_findings():
    p = os.path.join(VERIF, "KNOWN_FINDINGS.json")
    if not os.path.exists(p):
        return []
    return json.load(open(p)).get("findings", [])


class Outcome:
    def __init__(self, prop, tier, seed):
        self.prop = prop
        self.tier = tier
        self.seed = seed
        self.t0 = time.time()
        self.obligations = []       # (name, ok, detail)
        self.evaluations = 0
        self.distinct = set()
        self.samples = []
        self.histogram = {}
        self.corr_failures = []     # (stream, request, impl, model)
        self.oracle_failures = []   # (stream, request, impl, spec, what)
        self.known_hits = []
        self.notes = []
        self.theorems = {}
        self.streams = []

    def obligation(self, name, ok, detail=""):
        self.obligations.append((name, bool(ok), detail))
        if not ok:
            log("OBLIGATION-BROKEN %s: %s" % (name, detail[-1500:]))

    def count(self, key, n=1):
        self.histogram[key] = self.histogram.get(key, 0) + n

    def case(self, stream, request, nontrivial_key=None, sample=False):
        self.evaluations += 1
        if nontrivial_key is not None:
            self.distinct.add(hashlib.sha1(nontrivial_key.encode("utf-8", "replace")).digest()[:8])
        if sample and len(self.samples) < 6:
            self.samples.append({"stream": stream, "request": request[:600]})

    def broken(self):
        return [o for o in self.obligations if not o[1]]


def finish(out, rule, checker_cmd, extra_cov=None, replay_hint=None):
    """apply the verdict rule, write evidence, print VIOLATION lines, return exit code"""
    prop = out.prop
    known = [k for k in load_known_findings() if (k.get("property") == prop or prop in k.get("also", [])) and k.get("status") == "known"]
    violations = []
    os.makedirs(os.path.join(VERIF, "replays"), exist_ok=True)
    # concrete failing inputs (direct oracle)
    unmatched = []
    for fail in out.oracle_failures:
        matched = None
        for k in known:
            if re.search(k["match"], fail["what"] + " " + fail["request"]):
                matched = k
                break
        if matched:
            out.known_hits.append((matched, fail))
        else:
            unmatched.append(fail)
    seen_known = set()
    for k, fail in out.known_hits:
        if k["id"] not in seen_known:
            seen_known.add(k["id"])
            log("KNOWN-FINDING: property=%s %s" % (prop, k["what"]))
    exit_code = 0
    if unmatched:
        fail = unmatched[0]
        path = os.path.join("replays", "%s-%s-%d.json" % (prop, out.tier, out.seed))
        json.dump({"property": prop, "kind": "failing-input", "stream": fail["stream"], "request": fail["request"],
                   "impl": fail["impl"], "spec": fail["spec"], "what": fail["what"],
                   "replay_cmd": "./check %s --replay %s" % (prop, path),
                   "more": [f["what"] for f in unmatched[1:20]]},
                  open(os.path.join(VERIF, path), "w"), indent=1)
        log("VIOLATION property=%s replay=%s" % (prop, path))
        exit_code = 1
    elif out.broken() or out.corr_failures:
        path = os.path.join("replays", "%s-%s-%d.json" % (prop, out.tier, out.seed))
        json.dump({"property": prop, "kind": "no-failing-input-found",
                   "broken_obligations": [{"name": n, "detail": d[-3000:]} for n, ok, d in out.obligations if not ok],
                   "broken_correspondence": out.corr_failures[:10],
                   "replay_cmd": "./check %s --tier %s" % (prop, out.tier)},
                  open(os.path.join(VERIF, path), "w"), indent=1)
        log("VIOLATION property=%s replay=%s no-failing-input-found" % (prop, path))
        exit_code = 1
    n_obl = len(out.obligations)
    n_ok = len([o for o in out.obligations if o[1]])
    cov = {
        "obligations": n_obl,
        "discharged": n_ok,
        "checker_cmd": checker_cmd,
        "trusted_base": TRUSTED_BASE,
        "evaluations": out.evaluations,
        "distinct_nontrivial": len(out.distinct),
        "rule": rule,
        "samples": out.samples if out.samples else [{"obligation": o[0]} for o in out.obligations[:5]],
        "obligation_list": [{"name": n, "ok": ok} for n, ok, _ in out.obligations],
        "theorem_axioms": out.theorems,
        "streams": out.streams,
        "input_distribution": dict(sorted(out.histogram.items())),
        "correspondence_failures": len(out.corr_failures),
        "oracle_failures": len(out.oracle_failures),
        "known_findings_hit": sorted(seen_known),
    }
    if extra_cov:
        cov.update(extra_cov)
    ev = {
        "property_id": prop,
        "tier": out.tier,
        "seed": out.seed,
        "level": "proof",
        "coverage": cov,
        "assumptions": TRUSTED_BASE + out.notes,
        "wall_s": round(time.time() - out.t0, 2),
        "violations": len(unmatched) + (1 if (exit_code == 1 and not unmatched) else 0),
    }
    os.makedirs(os.path.join(VERIF, "evidence"), exist_ok=True)
    json.dump(ev, open(os.path.join(VERIF, "evidence", prop + ".json"), "w"), indent=1)
    log("%s: %d/%d obligations, %d evaluations (%d distinct non-trivial), corr-fail=%d oracle-fail=%d, %.1fs -> exit %d"
        % (prop, n_ok, n_obl, out.evaluations, len(out.distinct), len(out.corr_failures), len(out.oracle_failures),
           time.time() - out.t0, exit_code))
    return exit_code
