import Hcl.Model.Io

/-! `slice::binary_search_by` as compiled finds, in a sorted table whose first key is not above the
    target, the greatest index whose key is not above the target. -/

namespace Io

def Sorted (keys : List Nat) : Prop := ∀ i j, i ≤ j → j < keys.length → keys.getD i 0 ≤ keys.getD j 0

theorem bsLoop_spec (keys : List Nat) (t : Nat) (hs : Sorted keys) :
    ∀ fuel size base, 1 ≤ size → size ≤ fuel → base + size ≤ keys.length →
      (base = 0 ∨ keys.getD base 0 ≤ t) →
      (∀ j, base + size ≤ j → j < keys.length → t < keys.getD j 0) →
      let r := bsLoop keys t fuel size base
      r < keys.length ∧ (r = 0 ∨ keys.getD r 0 ≤ t) ∧ (∀ j, r < j → j < keys.length → t < keys.getD j 0) := by
  intro fuel
  induction fuel with
  | zero => intro size base h1 h2; omega
  | succ fuel ih =>
    intro size base h1 h2 hb hlow hhigh
    simp only [bsLoop]
    by_cases hsz : size > 1
    · simp only [hsz, if_true]
      by_cases hgt : keys.getD (base + size / 2) 0 > t
      · simp only [hgt, if_true]
        apply ih (size - size / 2) base (by omega) (by omega) (by omega) hlow
        intro j hj hjl
        have : keys.getD (base + size / 2) 0 ≤ keys.getD j 0 := hs _ _ (by omega) hjl
        omega
      · simp only [hgt, if_false]
        apply ih (size - size / 2) (base + size / 2) (by omega) (by omega) (by omega) (Or.inr (by omega))
        intro j hj hjl
        exact hhigh j (by omega) hjl
    · simp only [hsz, if_false]
      have : size = 1 := by omega
      subst this
      exact ⟨by omega, hlow, fun j hj hjl => hhigh j (by omega) hjl⟩

/-- **the table lookup of io.rs** (`binary_search_by_key` followed by `Err(x) => x - 1`) -/
theorem lookupIndex_spec (keys : List Nat) (t : Nat) (hs : Sorted keys) (hne : keys ≠ []) (h0 : keys.getD 0 0 ≤ t) :
    ∃ i, lookupIndex keys t = .ok i ∧ i < keys.length ∧ keys.getD i 0 ≤ t ∧
      ∀ j, i < j → j < keys.length → t < keys.getD j 0 := by
  have hlen : 0 < keys.length := List.length_pos_iff.mpr hne
  have hl := bsLoop_spec keys t hs keys.length keys.length 0 (by omega) (by omega) (by omega) (Or.inl rfl)
    (fun j hj hjl => by omega)
  simp only at hl
  obtain ⟨hr, hle, hhigh⟩ := hl
  have hle' : keys.getD (bsLoop keys t keys.length keys.length 0) 0 ≤ t := by
    rcases hle with h | h
    · rw [h]; exact h0
    · exact h
  refine ⟨bsLoop keys t keys.length keys.length 0, ?_, hr, hle', hhigh⟩
  unfold lookupIndex binarySearch
  have : ¬ keys.length = 0 := by omega
  rw [if_neg this]
  generalize bsLoop keys t keys.length keys.length 0 = b at *
  by_cases heq : keys.getD b 0 = t
  · simp only [heq, if_true]; rfl
  · have hlt : keys.getD b 0 < t := by omega
    simp only [heq, hlt, if_true, if_false, Rust.uSub]
    have : 1 ≤ b + 1 := by omega
    simp only [this, if_true]
    rfl

/-- the greatest index below the target is unique -/
theorem greatest_unique (keys : List Nat) (t i k : Nat)
    (hi : i < keys.length) (hki : keys.getD i 0 ≤ t) (hhi : ∀ j, i < j → j < keys.length → t < keys.getD j 0)
    (hk : k < keys.length) (hkk : keys.getD k 0 ≤ t) (hhk : ∀ j, k < j → j < keys.length → t < keys.getD j 0) : i = k := by
  rcases Nat.lt_trichotomy i k with h | h | h
  · have := hhi k h hk; omega
  · exact h
  · have := hhk i h hi; omega

end Io
