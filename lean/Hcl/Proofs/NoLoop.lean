import Hcl.Proofs.CheckErr

/-! No diagnostic of the checker reports a loop. -/

def NoLoop (ds : List Diag) : Prop := ∀ d ∈ ds, d.kind ≠ .WireLoop

theorem noLoop_append {a b : List Diag} (ha : NoLoop a) (hb : NoLoop b) : NoLoop (a ++ b) := by
  intro d hd
  rcases List.mem_append.mp hd with h | h
  · exact ha d h
  · exact hb d h

theorem noLoop_nil : NoLoop [] := by intro d hd; simp at hd

mutual
theorem check_nl (fl : Flags) (Γ : Ctx) (κ : Env) : ∀ (e : Ex) (ds : List Diag), check fl Γ κ e = .error ds → NoLoop ds
  | .const v, ds, h => by simp [check, pure, Except.pure] at h
  | .wire n, ds, h => by
      unfold check at h
      split at h
      · simp [pure, Except.pure] at h
      · simp [throw, throwThe, MonadExceptOf.throw] at h; rw [← h]; simp [NoLoop]
  | .bin op l r, ds, h => by
      have ihl := check_nl fl Γ κ l
      have ihr := check_nl fl Γ κ r
      unfold check at h
      simp only [bind, Except.bind, pure, Except.pure, throw, throwThe, MonadExceptOf.throw] at h
      repeat' split at h
      all_goals first
        | (injection h with h; subst h; first | exact ihl _ ‹_› | exact ihr _ ‹_›)
        | (injection h with h; rw [← h]; simp [NoLoop])
        | simp at h
  | .un op e, ds, h => by
      have ih := check_nl fl Γ κ e
      cases op <;>
      · unfold check at h
        try simp only [bind, Except.bind, pure, Except.pure] at h
        first
          | exact ih _ h
          | (split at h
             · injection h with h; subst h; exact ih _ ‹_›
             · simp at h)
  | .slice e lo hi, ds, h => by
      have ih := check_nl fl Γ κ e
      unfold check at h
      simp only [bind, Except.bind, pure, Except.pure, throw, throwThe, MonadExceptOf.throw] at h
      repeat' split at h
      all_goals first
        | (injection h with h; subst h; exact ih _ ‹_›)
        | (injection h with h; rw [← h]; simp [NoLoop])
        | simp at h
  | .concat l r, ds, h => by
      have ihl := check_nl fl Γ κ l
      have ihr := check_nl fl Γ κ r
      unfold check at h
      simp only [bind, Except.bind, pure, Except.pure, throw, throwThe, MonadExceptOf.throw] at h
      repeat' split at h
      all_goals first
        | (injection h with h; subst h; first | exact ihl _ ‹_› | exact ihr _ ‹_›)
        | (injection h with h; rw [← h]; simp [NoLoop])
        | simp at h
  | .mux opts, ds, h => by
      have ih := checkOpts_nl fl Γ κ opts
      unfold check at h
      simp only [bind, Except.bind, pure, Except.pure, throw, throwThe, MonadExceptOf.throw] at h
      repeat' split at h
      all_goals first
        | (injection h with h; subst h; exact ih _ _ ‹_›)
        | (injection h with h; rw [← h]; simp [NoLoop])
        | simp at h
  | .inSet e items, ds, h => by
      have ih := check_nl fl Γ κ e
      unfold check at h
      simp only [bind, Except.bind, pure, Except.pure, throw, throwThe, MonadExceptOf.throw] at h
      split at h
      · injection h with h; subst h; exact ih _ ‹_›
      · rename_i a ha
        have ih2 := checkItems_nl fl Γ κ a items
        split at h
        · injection h with h; subst h; exact ih2.1 _ ‹_›
        · rename_i errs herrs
          split at h
          · simp at h
          · injection h with h; subst h
            exact ih2.2 _ herrs
theorem checkOpts_nl (fl : Flags) (Γ : Ctx) (κ : Env) : ∀ (opts : Opts) (s : MuxScan) (ds : List Diag),
    checkOpts fl Γ κ opts s = .error ds → NoLoop ds
  | .nil, s, ds, h => by simp [checkOpts, pure, Except.pure] at h
  | .cons c v rest, s, ds, h => by
      have ihc := check_nl fl Γ κ c
      have ihv := check_nl fl Γ κ v
      unfold checkOpts at h
      simp only [bind, Except.bind] at h
      split at h
      · injection h with h; subst h; exact ihc _ ‹_›
      · split at h
        · injection h with h; subst h; exact ihv _ ‹_›
        · exact checkOpts_nl fl Γ κ rest _ _ h
theorem checkItems_nl (fl : Flags) (Γ : Ctx) (κ : Env) (a : Width) : ∀ (items : Exs),
    (∀ ds, checkItems fl Γ κ a items = .error ds → NoLoop ds) ∧ (∀ l, checkItems fl Γ κ a items = .ok l → NoLoop l)
  | .nil => by
      constructor
      · intro ds h; simp [checkItems, pure, Except.pure] at h
      · intro l h; simp [checkItems, pure, Except.pure] at h; subst h; simp [NoLoop]
  | .cons e rest => by
      have ihe := check_nl fl Γ κ e
      have ihr := checkItems_nl fl Γ κ a rest
      constructor
      · intro ds h
        unfold checkItems at h
        simp only [bind, Except.bind, pure, Except.pure] at h
        split at h
        · injection h with h; subst h; exact ihe _ ‹_›
        · split at h
          · injection h with h; subst h; exact ihr.1 _ ‹_›
          · split at h <;> simp at h
      · intro l h
        unfold checkItems at h
        simp only [bind, Except.bind, pure, Except.pure] at h
        split at h
        · simp at h
        · split at h
          · simp at h
          · rename_i more hmore
            split at h
            · injection h with h; subst h; exact ihr.2 _ hmore
            · injection h with h; subst h
              intro d hd
              rcases List.mem_cons.mp hd with h1 | h1
              · subst h1; simp
              · exact ihr.2 _ hmore d h1
end
