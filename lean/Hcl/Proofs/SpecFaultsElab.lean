import Hcl.Proofs.SpecFaultsParts
open Rust Reorder

/-! # The specification's elaboration is the model's list of definitions

`(stmts.foldl Spec.elabStmt {})` collects exactly `constDefs stmts`, `wireDefs stmts`, `assignDefs stmts` and the bank
declarations; under the no-duplicate conditions these ARE the step-1 tables of the model (ReorderTables.lean). -/

namespace SF

/-! ### `Spec.dedup` is `dedupS` -/

theorem dedup_eq (l : List String) : Spec.dedup l = dedupS l := rfl

theorem mem_dedup (l : List String) (x : String) : x ∈ Spec.dedup l ↔ x ∈ l := by
  rw [dedup_eq]; exact mem_dedupS l x

theorem nodup_dedup (l : List String) : (Spec.dedup l).Nodup := by
  rw [dedup_eq]; exact nodup_dedupS l

theorem count_eq (l : List String) (n : String) : Spec.count l n = l.count n := by
  unfold Spec.count
  rw [List.count_eq_length_filter]

/-- "no name occurs twice" as the specification tests it -/
theorem dupFaults_nil_iff (l : List String) (mk : String → Spec.Fault) :
    ((Spec.dedup l).filterMap fun n => if Spec.count l n > 1 then some (mk n) else none) = [] ↔ l.Nodup := by
  rw [List.filterMap_eq_nil_iff, List.nodup_iff_count]
  constructor
  · intro h a
    by_cases ha : a ∈ l
    · have := h a ((mem_dedup l a).mpr ha)
      rw [count_eq] at this
      by_cases hc : l.count a > 1
      · rw [if_pos hc] at this; cases this
      · omega
    · rw [List.count_eq_zero.mpr ha]; omega
  · intro h a _
    rw [count_eq]
    have := h a
    rw [if_neg (by omega)]

/-- a list of faults, one for every member of `l` that fails the test `ok`, is empty iff all pass -/
theorem testFaults_nil_iff (l : List String) (ok : String → Bool) (mk : String → Spec.Fault) :
    (l.filterMap fun n => if ok n then none else some (mk n)) = [] ↔ ∀ n ∈ l, ok n = true := by
  rw [List.filterMap_eq_nil_iff]
  apply forall_congr'
  intro n
  apply forall_congr'
  intro _
  cases ok n <;> simp

theorem testFaults_nil_iff' (l : List String) (bad : String → Bool) (mk : String → Spec.Fault) :
    (l.filterMap fun n => if bad n then some (mk n) else none) = [] ↔ ∀ n ∈ l, bad n = false := by
  rw [List.filterMap_eq_nil_iff]
  apply forall_congr'
  intro n
  apply forall_congr'
  intro _
  cases bad n <;> simp

/-! ### the elaboration -/

theorem foldl_elab_constDefs : ∀ (stmts : List Stmt) (a : Spec.Elab),
    (stmts.foldl Spec.elabStmt a).constDefs = a.constDefs ++ constDefs stmts
  | [], a => by simp [constDefs]
  | st :: rest, a => by
    rw [List.foldl_cons, foldl_elab_constDefs rest]
    cases st <;> simp [Spec.elabStmt, constDefs, stmtConsts]

theorem foldl_elab_wireWidths : ∀ (stmts : List Stmt) (a : Spec.Elab),
    (stmts.foldl Spec.elabStmt a).wireWidths = a.wireWidths ++ wireDefs stmts
  | [], a => by simp [wireDefs]
  | st :: rest, a => by
    rw [List.foldl_cons, foldl_elab_wireWidths rest]
    cases st <;> simp [Spec.elabStmt, wireDefs, stmtWires]

theorem foldl_elab_assigns : ∀ (stmts : List Stmt) (a : Spec.Elab),
    (stmts.foldl Spec.elabStmt a).assigns = a.assigns ++ assignDefs stmts
  | [], a => by simp [assignDefs]
  | st :: rest, a => by
    rw [List.foldl_cons, foldl_elab_assigns rest]
    cases st <;> simp [Spec.elabStmt, assignDefs, stmtAssigns]

def bankDecls (stmts : List Stmt) : List BankDecl :=
  stmts.filterMap (fun st => match st with | .bank b => some b | _ => none)

theorem foldl_elab_banks : ∀ (stmts : List Stmt) (a : Spec.Elab),
    (stmts.foldl Spec.elabStmt a).banks = a.banks ++ bankDecls stmts
  | [], a => by simp [bankDecls]
  | st :: rest, a => by
    rw [List.foldl_cons, foldl_elab_banks rest]
    cases st <;> simp [Spec.elabStmt, bankDecls]

theorem el_constDefs (stmts : List Stmt) : (el stmts).constDefs = constDefs stmts := by
  unfold el; rw [foldl_elab_constDefs]; rfl
theorem el_wireWidths (stmts : List Stmt) : (el stmts).wireWidths = wireDefs stmts := by
  unfold el; rw [foldl_elab_wireWidths]; rfl
theorem el_assigns (stmts : List Stmt) : (el stmts).assigns = assignDefs stmts := by
  unfold el; rw [foldl_elab_assigns]; rfl
theorem el_banks (stmts : List Stmt) : (el stmts).banks = (step1Of stmts).banksRaw := by
  unfold el; rw [foldl_elab_banks, step1Of_banksRaw]; rfl

theorem constNames_eq (stmts : List Stmt) : constNames stmts = stmts.flatMap constKeys := by
  unfold constNames; rw [el_constDefs]; exact constDefs_keys stmts
theorem wireNames_eq (stmts : List Stmt) : wireNames stmts = stmts.flatMap wireKeys := by
  unfold wireNames; rw [el_wireWidths]; exact wireDefs_keys stmts
theorem targets_eq (stmts : List Stmt) : targets stmts = allTargets stmts := by
  unfold targets; rw [el_assigns]; exact assignDefs_keys stmts

/-! ### declared names: wires and constants -/

theorem declKeys_eq (st : Stmt) : declKeys st = wireKeys st ++ constKeys st := by
  cases st <;> simp [declKeys, wireKeys, constKeys]

theorem flatMap_append_perm' {α β : Type} (f g : α → List β) : ∀ (l : List α),
    (l.flatMap fun x => f x ++ g x).Perm (l.flatMap f ++ l.flatMap g)
  | [] => by simp
  | x :: rest => by
    simp only [List.flatMap_cons]
    have ih := flatMap_append_perm' f g rest
    -- f x ++ g x ++ R  ~  f x ++ F ++ (g x ++ G)
    have h1 : (f x ++ g x ++ (rest.flatMap fun x => f x ++ g x)).Perm (f x ++ g x ++ (rest.flatMap f ++ rest.flatMap g)) :=
      List.Perm.append_left _ ih
    refine h1.trans ?_
    rw [List.append_assoc, List.append_assoc]
    apply List.Perm.append_left
    rw [← List.append_assoc, ← List.append_assoc]
    apply List.Perm.append_right
    exact List.perm_append_comm

/-- the declared names of the model are, up to order, the wires followed by the constants -/
theorem allDeclared_perm_names (stmts : List Stmt) : (allDeclared stmts).Perm (wireNames stmts ++ constNames stmts) := by
  rw [allDeclared_eq, wireNames_eq, constNames_eq]
  have : stmts.flatMap declKeys = stmts.flatMap (fun st => wireKeys st ++ constKeys st) := by
    congr 1; funext st; exact declKeys_eq st
  rw [this]
  exact flatMap_append_perm' wireKeys constKeys stmts

theorem mem_allDeclared_iff (stmts : List Stmt) (n : String) :
    n ∈ allDeclared stmts ↔ n ∈ wireNames stmts ∨ n ∈ constNames stmts := by
  rw [(allDeclared_perm_names stmts).mem_iff, List.mem_append]

theorem allDeclared_nodup_iff (stmts : List Stmt) :
    (allDeclared stmts).Nodup ↔ (wireNames stmts ++ constNames stmts).Nodup :=
  (allDeclared_perm_names stmts).nodup_iff

/-- the model's table of constant definitions has a name iff the specification lists it -/
theorem constantsRaw_contains_iff (stmts : List Stmt) (n : String) :
    (step1Of stmts).constantsRaw.contains n = true ↔ n ∈ constNames stmts := by
  rw [step1Of_constant_iff, constNames_eq, mem_flatMap_constKeys]

theorem assignments_contains_iff (stmts : List Stmt) (n : String) :
    (step1Of stmts).assignments.contains n = true ↔ n ∈ targets stmts := by
  rw [step1Of_assignments_contains_iff, targets_eq]

theorem assigned_iff (stmts : List Stmt) (n : String) : assigned stmts n = true ↔ n ∈ targets stmts := by
  unfold assigned; simp

theorem declared_iff (isLower isUpper : Char → Bool) (stmts : List Stmt) (n : String) :
    declared isLower isUpper stmts n = true ↔ n ∈ allDecls isLower isUpper stmts := by
  unfold declared; simp

theorem mem_wireNames_iff (stmts : List Stmt) (n : String) : n ∈ wireNames stmts ↔ DeclaredWire stmts n := by
  rw [wireNames_eq, mem_flatMap_wireKeys]; rfl

end SF
