import Hcl.Generated

/-! Text pins (written by tools/mkpins.py): the comment-free, whitespace-normalised bodies of functions that the
    hand-written model transcribes, as they were when the model was last validated against them.  An edit of one
    of these functions makes the `rfl` below fail; the check then looks for an input on which model and code
    differ, and reports the property as no longer shown to hold when it finds none. -/

namespace Tie.PinsRun

/-- `pub fn run<W: Write>`, src/program.rs -/
theorem pinRun : Generated.pinRun = ("while !self.done() { if self.options.show_registers_and_memory { self.dump_y86(out)?; } self.step_with_output(out)?; match self.options.prompt { Some(ref prompt) => prompt(), None => {} } } Ok(())" : String) := by rfl

/-- `pub fn set_timeout(&mut self, new_timeout: u32)`, src/program.rs -/
theorem pinSetTimeout : Generated.pinSetTimeout = ("self.timeout = new_timeout;" : String) := by rfl

/-- `pub fn status_or_default(&self, default: u8)`, src/program.rs -/
theorem pinStatusOrDefault : Generated.pinStatusOrDefault = ("let value = self.values.get(\"Stat\").unwrap_or(&WireValue::from_u64(default as u64)).bits; value as u8" : String) := by rfl

/-- `pub fn halted(&self)`, src/program.rs -/
theorem pinHalted : Generated.pinHalted = ("self.status_or_default(1) == 2" : String) := by rfl

/-- `pub fn timed_out(&self)`, src/program.rs -/
theorem pinTimedOut : Generated.pinTimedOut = ("self.cycle >= self.options.timeout" : String) := by rfl

end Tie.PinsRun
