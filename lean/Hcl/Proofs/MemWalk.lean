import Hcl.Model.Dump

/-! The memory walk of `dump_memory_y86`: which tokens it prints for a sorted memory. -/

namespace Dump

theorem U64_eq : U64 = 16 * 2 ^ 60 := by unfold U64; decide

theorem mod16_modU64 (x : Nat) : (x % U64) % 16 = x % 16 := by
  rw [U64_eq]
  exact Nat.mod_mul_right_mod x 16 (2 ^ 60)

/-- `n` empty cells starting at address `cur` -/
def nonesFrom (cur n : Nat) : List MTok := (List.range n).map fun j => MTok.cell ((cur + j) % 16) none

theorem nonesFrom_zero (cur : Nat) : nonesFrom cur 0 = [] := rfl

theorem nonesFrom_succ (cur n : Nat) : nonesFrom cur (n + 1) = MTok.cell (cur % 16) none :: nonesFrom (cur + 1) n := by
  unfold nonesFrom
  rw [List.range_succ_eq_map, List.map_cons, List.map_map]
  congr 1
  apply List.map_congr_left
  intro j _
  simp only [Function.comp, Nat.succ_eq_add_one]
  congr 2
  omega

theorem nonesFrom_congr (a b n : Nat) (h : a % 16 = b % 16) : nonesFrom a n = nonesFrom b n := by
  unfold nonesFrom
  apply List.map_congr_left
  intro j _
  congr 1
  omega

theorem walkStep_mid (k v cur : Nat) (toks : List MTok) (st : Bool) (h : cur % 16 ≠ 0) :
    walkStep k v ⟨cur, toks, st⟩ =
      ⟨(cur + 1) % U64, toks ++ [MTok.cell (cur % 16) (if cur == k then some v else none)], (cur + 1) % U64 == 0⟩ := by
  unfold walkStep
  have : (cur % 16 == 0) = false := by simpa using h
  simp only [this, Bool.false_eq_true, if_false]

theorem walkStep_start (k v cur : Nat) (toks : List MTok) (st : Bool) (h : cur % 16 = 0) :
    walkStep k v ⟨cur, toks, st⟩ =
      ⟨(k / 16 * 16 + 1) % U64, toks ++ [MTok.label (k / 16)] ++ [MTok.cell 0 (if k / 16 * 16 == k then some v else none)],
        (k / 16 * 16 + 1) % U64 == 0⟩ := by
  unfold walkStep
  have : (cur % 16 == 0) = true := by simpa using h
  simp only [this, if_true, Nat.mul_mod_left, Nat.mul_div_cancel _ (by decide : 0 < 16)]

/-- a run of empty cells inside a row, strictly before the key -/
theorem walkKey_nones (k v : Nat) (hk : k < U64) : ∀ (n cur : Nat) (toks : List MTok) (f : Nat),
    (∀ j, j < n → (cur + j) % 16 ≠ 0) → cur + n ≤ k →
    walkKey k v (n + f) ⟨cur, toks, false⟩ = walkKey k v f ⟨cur + n, toks ++ nonesFrom cur n, false⟩
  | 0, cur, toks, f, _, _ => by simp [nonesFrom_zero]
  | n + 1, cur, toks, f, hrow, hle => by
    have e : n + 1 + f = (n + f) + 1 := by omega
    rw [e, walkKey]
    have hc : (!false && decide (cur ≤ k)) = true := by simp; omega
    simp only [hc, if_true]
    rw [walkStep_mid k v cur toks false (by simpa using hrow 0 (by omega))]
    have hne : (cur == k) = false := by simp; omega
    have hnext : (cur + 1) % U64 = cur + 1 := Nat.mod_eq_of_lt (by omega)
    have hstop : (cur + 1 == 0) = false := by simp
    simp only [hne, Bool.false_eq_true, if_false, hnext, hstop]
    rw [walkKey_nones k v hk n (cur + 1) _ f (fun j hj => by have := hrow (j + 1) (by omega); rwa [show cur + (j + 1) = cur + 1 + j by omega] at this) (by omega)]
    rw [nonesFrom_succ, List.append_assoc]
    congr 2
    omega

/-- the step that prints the key's own cell (not at a row start) ends the loop -/
theorem walkKey_hit (k v : Nat) (hk : k < U64) (toks : List MTok) (f : Nat) (h : k % 16 ≠ 0) :
    walkKey k v (f + 1) ⟨k, toks, false⟩ = ⟨(k + 1) % U64, toks ++ [MTok.cell (k % 16) (some v)], (k + 1) % U64 == 0⟩ := by
  rw [walkKey]
  have hc : (!false && decide (k ≤ k)) = true := by simp
  simp only [hc, if_true]
  rw [walkStep_mid k v k toks false h]
  simp only [beq_self_eq_true, if_true]
  cases f with
  | zero => rfl
  | succ f =>
    rw [walkKey]
    rcases Nat.lt_or_ge (k + 1) U64 with h1 | h1
    · have hnext : (k + 1) % U64 = k + 1 := Nat.mod_eq_of_lt h1
      have : ¬ (k + 1 ≤ k) := by omega
      simp [hnext, this]
    · have hnext : (k + 1) % U64 = 0 := by
        have : k + 1 = U64 := by omega
        rw [this, Nat.mod_self]
      simp [hnext]

theorem walkKey_done (k v : Nat) (hk : k < U64) (toks : List MTok) (f : Nat) :
    walkKey k v f ⟨(k + 1) % U64, toks, (k + 1) % U64 == 0⟩ = ⟨(k + 1) % U64, toks, (k + 1) % U64 == 0⟩ := by
  cases f with
  | zero => rfl
  | succ f =>
    rw [walkKey]
    rcases Nat.lt_or_ge (k + 1) U64 with h1 | h1
    · have hnext : (k + 1) % U64 = k + 1 := Nat.mod_eq_of_lt h1
      have : ¬ (k + 1 ≤ k) := by omega
      simp [hnext, this]
    · have hnext : (k + 1) % U64 = 0 := by
        have : k + 1 = U64 := by omega
        rw [this, Nat.mod_self]
      simp [hnext]

theorem walkKey_unfold (k v cur : Nat) (toks : List MTok) (g : Nat) (h : cur ≤ k) :
    walkKey k v (g + 1) ⟨cur, toks, false⟩ = walkKey k v g (walkStep k v ⟨cur, toks, false⟩) := by
  rw [walkKey]
  have hc : (!false && decide (cur ≤ k)) = true := by simp; exact h
  simp only [hc, if_true]

/-- the tokens for a key whose row has to be started -/
def rowStartToks (k v : Nat) : List MTok :=
  MTok.label (k / 16) :: nonesFrom (k / 16 * 16) (k % 16) ++ [MTok.cell (k % 16) (some v)]

theorem walkKey_rowStart (k v : Nat) (hk : k < U64) (cur : Nat) (toks : List MTok) (fuel : Nat)
    (h0 : cur % 16 = 0) (hle : cur ≤ k) (hf : 17 ≤ fuel) :
    walkKey k v fuel ⟨cur, toks, false⟩ = ⟨(k + 1) % U64, toks ++ rowStartToks k v, (k + 1) % U64 == 0⟩ := by
  have hU : U64 % 16 = 0 := by rw [U64_eq, Nat.mul_mod_right]
  obtain ⟨g, rfl⟩ : ∃ g, fuel = g + 1 := ⟨fuel - 1, by omega⟩
  rw [walkKey_unfold k v cur toks g hle, walkStep_start k v cur toks false h0]
  have hc1 : k / 16 * 16 + 1 < U64 := by omega
  have hnext : (k / 16 * 16 + 1) % U64 = k / 16 * 16 + 1 := Nat.mod_eq_of_lt hc1
  have hstop : (k / 16 * 16 + 1 == 0) = false := by simp
  rw [hnext, hstop]
  unfold rowStartToks
  by_cases hk0 : k % 16 = 0
  · have hck : k / 16 * 16 = k := by omega
    rw [hk0, nonesFrom_zero]
    simp only [hck, beq_self_eq_true, if_true]
    have hn : (k + 1) % U64 = k + 1 := by rw [← hck]; exact hnext
    have := walkKey_done k v hk (toks ++ [MTok.label (k / 16)] ++ [MTok.cell 0 (some v)]) g
    rw [hn] at this ⊢
    have hs : (k + 1 == 0) = false := by simp
    rw [hs] at this ⊢
    rw [this]
    simp
  · have hck : (k / 16 * 16 == k) = false := by simp; omega
    simp only [hck, Bool.false_eq_true, if_false]
    obtain ⟨f, rfl⟩ : ∃ f, g = (k % 16 - 1) + (f + 1) := ⟨g - (k % 16 - 1) - 1, by omega⟩
    rw [walkKey_nones k v hk (k % 16 - 1) (k / 16 * 16 + 1) _ (f + 1)
      (by intro j hj; omega) (by omega)]
    have hcur : k / 16 * 16 + 1 + (k % 16 - 1) = k := by omega
    rw [hcur, walkKey_hit k v hk _ f hk0]
    congr 1
    have : k % 16 = (k % 16 - 1) + 1 := by omega
    rw [this, nonesFrom_succ]
    have hm : k / 16 * 16 % 16 = 0 := Nat.mul_mod_left _ _
    rw [hm]
    simp [List.append_assoc]

/-- the tokens the loop prints for key `k` when the walk stands at `cur ≤ k` -/
def keyToks (cur k v : Nat) : List MTok :=
  if cur % 16 = 0 then rowStartToks k v
  else if cur / 16 = k / 16 then nonesFrom cur (k - cur) ++ [MTok.cell (k % 16) (some v)]
  else nonesFrom cur (16 - cur % 16) ++ rowStartToks k v

theorem walkKey_key (k v : Nat) (hk : k < U64) (cur : Nat) (toks : List MTok) (hle : cur ≤ k) :
    walkKey k v 34 ⟨cur, toks, false⟩ = ⟨(k + 1) % U64, toks ++ keyToks cur k v, (k + 1) % U64 == 0⟩ := by
  unfold keyToks
  by_cases h0 : cur % 16 = 0
  · rw [if_pos h0]
    exact walkKey_rowStart k v hk cur toks 34 h0 hle (by omega)
  · rw [if_neg h0]
    by_cases hrow : cur / 16 = k / 16
    · rw [if_pos hrow]
      obtain ⟨f, hf⟩ : ∃ f, 34 = (k - cur) + (f + 1) := ⟨34 - (k - cur) - 1, by omega⟩
      rw [hf, walkKey_nones k v hk (k - cur) cur toks (f + 1) (by intro j hj; omega) (by omega)]
      have hcur : cur + (k - cur) = k := by omega
      rw [hcur, walkKey_hit k v hk _ f (by omega)]
      simp [List.append_assoc]
    · rw [if_neg hrow]
      have hlt : cur / 16 < k / 16 := by
        rcases Nat.lt_or_ge (cur / 16) (k / 16) with h | h
        · exact h
        · exfalso; have : k / 16 ≤ cur / 16 := h; have := Nat.div_le_div_right (c := 16) hle; omega
      obtain ⟨f, hf⟩ : ∃ f, 34 = (16 - cur % 16) + f := ⟨34 - (16 - cur % 16), by omega⟩
      rw [hf, walkKey_nones k v hk (16 - cur % 16) cur toks f (by intro j hj; omega) (by omega)]
      rw [walkKey_rowStart k v hk _ _ f (by omega) (by omega) (by omega)]
      simp [List.append_assoc]

/-! ### the whole walk -/

/-- strictly increasing addresses below 2^64 (what iterating a `BTreeMap<u64, u8>` yields) -/
def SortedMem : Mem → Prop
  | [] => True
  | [(k, _)] => k < U64
  | (k, _) :: (k', v') :: rest => k < k' ∧ SortedMem ((k', v') :: rest)

theorem SortedMem.head_lt : ∀ {k v : Nat} {rest : Mem}, SortedMem ((k, v) :: rest) → k < U64
  | _, _, [], h => h
  | _, _, (_, _) :: _, h => Nat.lt_trans h.1 (SortedMem.head_lt h.2)

theorem SortedMem.tail : ∀ {k v : Nat} {rest : Mem}, SortedMem ((k, v) :: rest) → SortedMem rest
  | _, _, [], _ => trivial
  | _, _, (_, _) :: _, h => h.2

def specFrom : Nat → Mem → List MTok
  | _, [] => []
  | cur, (k, v) :: rest => keyToks cur k v ++ specFrom (k + 1) rest

/-- where the walk stands after the last key -/
def endCur : Nat → Mem → Nat
  | cur, [] => cur
  | _, (k, _) :: rest => endCur ((k + 1) % U64) rest

def foldStep (w : Walk) (p : Nat × Nat) : Walk := walkKey p.1 p.2 34 { w with stop := false }

theorem fold_spec : ∀ (m : Mem) (cur : Nat) (toks : List MTok) (st : Bool), SortedMem m →
    (∀ k v rest, m = (k, v) :: rest → cur ≤ k) →
    (m.foldl foldStep ⟨cur, toks, st⟩).toks = toks ++ specFrom cur m ∧ (m.foldl foldStep ⟨cur, toks, st⟩).cur = endCur cur m
  | [], cur, toks, st, _, _ => by simp [specFrom, endCur]
  | (k, v) :: rest, cur, toks, st, hs, hle => by
    have hk := hs.head_lt
    have hck := hle k v rest rfl
    simp only [List.foldl_cons, foldStep]
    rw [walkKey_key k v hk cur toks hck]
    have hnext : ∀ k' v' rest', rest = (k', v') :: rest' → (k + 1) % U64 = k + 1 ∧ k + 1 ≤ k' := by
      intro k' v' rest' hr
      subst hr
      have h1 : k < k' := hs.1
      have h2 : k' < U64 := hs.2.head_lt
      exact ⟨Nat.mod_eq_of_lt (by omega), by omega⟩
    obtain ⟨a1, a2⟩ := fold_spec rest ((k + 1) % U64) (toks ++ keyToks cur k v) ((k + 1) % U64 == 0) hs.tail
      (fun k' v' rest' hr => by rw [(hnext k' v' rest' hr).1]; exact (hnext k' v' rest' hr).2)
    refine ⟨?_, ?_⟩
    · rw [a1, specFrom, List.append_assoc]
      congr 2
      cases rest with
      | nil => rfl
      | cons p rest' => rw [(hnext p.1 p.2 rest' rfl).1]
    · rw [a2]; rfl

theorem padRow_zero (f : Nat) (w : Walk) (h : w.cur % 16 = 0) : padRow f w = w := by
  cases f with
  | zero => rfl
  | succ f =>
    rw [padRow]
    have : (w.cur % 16 != 0) = false := by simp [h]
    simp only [this, Bool.false_eq_true, if_false]

theorem padRow_toks : ∀ (n cur : Nat) (toks : List MTok) (st : Bool) (f : Nat), cur % 16 + n = 16 → cur % 16 ≠ 0 →
    (padRow (n + f) ⟨cur, toks, st⟩).toks = toks ++ nonesFrom cur n
  | 0, cur, toks, st, f, h, _ => by omega
  | n + 1, cur, toks, st, f, h, h0 => by
    have e : n + 1 + f = (n + f) + 1 := by omega
    rw [e, padRow]
    have hc : (cur % 16 != 0) = true := by simp [h0]
    simp only [hc, if_true]
    have hmod : ((cur + 1) % U64) % 16 = (cur + 1) % 16 := mod16_modU64 _
    by_cases hn : n = 0
    · subst hn
      rw [padRow_zero _ _ (by show ((cur + 1) % U64) % 16 = 0; rw [hmod]; omega)]
      rw [nonesFrom_succ, nonesFrom_zero]
    · rw [padRow_toks n ((cur + 1) % U64) _ false f (by rw [hmod]; omega) (by rw [hmod]; omega)]
      rw [nonesFrom_succ, List.append_assoc]
      congr 1
      simp only [List.singleton_append, List.cons.injEq, true_and]
      exact nonesFrom_congr _ _ _ (by rw [hmod])

/-- the empty cells that complete a row from address `c` on -/
def finishToks (c : Nat) : List MTok := if c % 16 = 0 then [] else nonesFrom c (16 - c % 16)

theorem padRow_finish (cur : Nat) (toks : List MTok) (st : Bool) :
    (padRow 17 ⟨cur, toks, st⟩).toks = toks ++ finishToks cur := by
  unfold finishToks
  by_cases h : cur % 16 = 0
  · rw [if_pos h, padRow_zero 17 _ h]; simp
  · rw [if_neg h]
    obtain ⟨f, hf⟩ : ∃ f, 17 = (16 - cur % 16) + f := ⟨17 - (16 - cur % 16), by omega⟩
    rw [hf]
    exact padRow_toks (16 - cur % 16) cur toks st f (by omega) h

/-- **the tokens of the memory section**: for every sorted memory, row start of the first address, then key by key,
    then the completion of the last row -/
def specToks : Mem → List MTok
  | [] => []
  | (k0, v0) :: rest => specFrom (k0 / 16 * 16) ((k0, v0) :: rest) ++ finishToks (endCur (k0 / 16 * 16) ((k0, v0) :: rest))

theorem memToks_spec (m : Mem) (h : SortedMem m) : memToks m = specToks m := by
  cases m with
  | nil => rfl
  | cons p rest =>
    obtain ⟨k0, v0⟩ := p
    unfold memToks specToks
    simp only
    have hfold : (fun (w : Walk) (p : Nat × Nat) => walkKey p.1 p.2 34 { w with stop := false }) = foldStep := rfl
    rw [hfold]
    obtain ⟨a1, a2⟩ := fold_spec ((k0, v0) :: rest) (k0 / 16 * 16) [] false h
      (fun k v r hr => by cases hr; omega)
    generalize List.foldl foldStep ⟨k0 / 16 * 16, [], false⟩ ((k0, v0) :: rest) = w at a1 a2
    obtain ⟨wc, wt, ws⟩ := w
    simp only at a1 a2
    rw [padRow_finish, a1, a2]
    simp

/-! ### reading the tokens back -/

/-- the bytes the tokens show, each with the address that its row label and its column give it -/
def readToks : List MTok → Nat → Mem
  | [], _ => []
  | .label r :: rest, _ => readToks rest r
  | .cell i (some v) :: rest, r => (16 * r + i, v) :: readToks rest r
  | .cell _ none :: rest, r => readToks rest r

/-- the row in force after the tokens -/
def lastRow : List MTok → Nat → Nat
  | [], r => r
  | .label r :: rest, _ => lastRow rest r
  | .cell _ _ :: rest, r => lastRow rest r

theorem read_append : ∀ (a b : List MTok) (r : Nat), readToks (a ++ b) r = readToks a r ++ readToks b (lastRow a r)
  | [], b, r => rfl
  | .label r' :: a, b, r => by simp only [List.cons_append, readToks, lastRow]; exact read_append a b r'
  | .cell i (some v) :: a, b, r => by simp only [List.cons_append, readToks, lastRow, read_append a b r]
  | .cell i none :: a, b, r => by simp only [List.cons_append, readToks, lastRow]; exact read_append a b r

theorem lastRow_append : ∀ (a b : List MTok) (r : Nat), lastRow (a ++ b) r = lastRow b (lastRow a r)
  | [], b, r => rfl
  | .label r' :: a, b, r => by simp only [List.cons_append, lastRow]; exact lastRow_append a b r'
  | .cell i x :: a, b, r => by simp only [List.cons_append, lastRow]; exact lastRow_append a b r

theorem read_nones : ∀ (n c r : Nat), readToks (nonesFrom c n) r = [] ∧ lastRow (nonesFrom c n) r = r
  | 0, c, r => ⟨rfl, rfl⟩
  | n + 1, c, r => by
    rw [nonesFrom_succ]
    simp only [readToks, lastRow]
    exact read_nones n (c + 1) r

theorem read_rowStart (k v r : Nat) : readToks (rowStartToks k v) r = [(k, v)] ∧ lastRow (rowStartToks k v) r = k / 16 := by
  unfold rowStartToks
  rw [read_append, lastRow_append]
  simp only [readToks, lastRow]
  rw [(read_nones _ _ _).1, (read_nones _ _ _).2]
  simp only [List.nil_append, List.cons.injEq, Prod.mk.injEq, and_true]
  omega

theorem read_keyToks (cur k v r : Nat) (hle : cur ≤ k) (hr : cur % 16 = 0 ∨ r = cur / 16) :
    readToks (keyToks cur k v) r = [(k, v)] ∧ lastRow (keyToks cur k v) r = k / 16 := by
  unfold keyToks
  by_cases h0 : cur % 16 = 0
  · rw [if_pos h0]; exact read_rowStart k v r
  · rw [if_neg h0]
    by_cases hrow : cur / 16 = k / 16
    · rw [if_pos hrow, read_append, lastRow_append, (read_nones _ _ _).1, (read_nones _ _ _).2]
      simp only [readToks, lastRow, List.nil_append, List.cons.injEq, Prod.mk.injEq, and_true]
      rcases hr with h | h
      · exact absurd h h0
      · subst h; omega
    · rw [if_neg hrow, read_append, lastRow_append, (read_nones _ _ _).1, (read_nones _ _ _).2]
      exact read_rowStart k v r

theorem read_specFrom : ∀ (m : Mem) (cur r : Nat), SortedMem m → (∀ k v rest, m = (k, v) :: rest → cur ≤ k) →
    (cur % 16 = 0 ∨ r = cur / 16) → readToks (specFrom cur m) r = m
  | [], _, _, _, _, _ => rfl
  | (k, v) :: rest, cur, r, hs, hle, hr => by
    rw [specFrom, read_append, (read_keyToks cur k v r (hle k v rest rfl) hr).1, (read_keyToks cur k v r (hle k v rest rfl) hr).2]
    rw [read_specFrom rest (k + 1) (k / 16) hs.tail
      (fun k' v' rest' h => by subst h; have : k < k' := hs.1; omega) (by omega)]
    rfl

theorem read_finish (c r : Nat) : readToks (finishToks c) r = [] := by
  unfold finishToks
  split
  · rfl
  · exact (read_nones _ _ _).1

/-- **token round trip**: reading back what the memory section prints gives exactly the memory -/
theorem read_memToks (m : Mem) (h : SortedMem m) (r : Nat) : readToks (memToks m) r = m := by
  rw [memToks_spec m h]
  cases m with
  | nil => rfl
  | cons p rest =>
    obtain ⟨k0, v0⟩ := p
    unfold specToks
    rw [read_append, read_finish, List.append_nil]
    exact read_specFrom _ _ r h (fun k v r' hr => by cases hr; omega) (Or.inl (Nat.mul_mod_left _ _))

/-! ### the tokens form complete rows -/

def nextPos (p : Nat) : Option Nat := if p = 15 then none else some (p + 1)

/-- reading rows: `none` = at a row boundary (a label must follow), `some p` = cell `p` of the current row must follow;
    the result is the state after the tokens, or `none` if they do not have this shape -/
def runRows : Option Nat → List MTok → Option (Option Nat)
  | s, [] => some s
  | none, .label _ :: rest => runRows (some 0) rest
  | none, .cell _ _ :: _ => none
  | some _, .label _ :: _ => none
  | some p, .cell i _ :: rest => if i = p then runRows (nextPos p) rest else none

def posOf (c : Nat) : Option Nat := if c % 16 = 0 then none else some (c % 16)

theorem posOf_congr (a b : Nat) (h : a % 16 = b % 16) : posOf a = posOf b := by unfold posOf; rw [h]

theorem nextPos_eq (k : Nat) : nextPos (k % 16) = posOf (k + 1) := by
  unfold nextPos posOf
  by_cases h : k % 16 = 15
  · have : (k + 1) % 16 = 0 := by omega
    rw [if_pos h, if_pos this]
  · have h1 : (k + 1) % 16 ≠ 0 := by omega
    have h2 : (k + 1) % 16 = k % 16 + 1 := by omega
    rw [if_neg h, if_neg h1, h2]

theorem run_nones : ∀ (n c : Nat) (rest : List MTok), c % 16 + n < 16 →
    runRows (some (c % 16)) (nonesFrom c n ++ rest) = runRows (some (c % 16 + n)) rest
  | 0, c, rest, _ => rfl
  | n + 1, c, rest, h => by
    rw [nonesFrom_succ, List.cons_append, runRows, if_pos rfl]
    have : nextPos (c % 16) = some ((c + 1) % 16) := by
      unfold nextPos
      rw [if_neg (by omega)]
      congr 1; omega
    rw [this, run_nones n (c + 1) rest (by omega)]
    congr 2; omega

/-- empty cells up to the end of the row -/
theorem run_nones_end (c : Nat) (rest : List MTok) (h : c % 16 ≠ 0) :
    runRows (some (c % 16)) (nonesFrom c (16 - c % 16) ++ rest) = runRows none rest := by
  have e : 16 - c % 16 = (15 - c % 16) + 1 := by omega
  have hsplit : nonesFrom c (16 - c % 16) = nonesFrom c (15 - c % 16) ++ [MTok.cell 15 none] := by
    rw [e]
    unfold nonesFrom
    rw [List.range_succ, List.map_append]
    simp only [List.map_cons, List.map_nil]
    congr 3
    omega
  rw [hsplit, List.append_assoc, run_nones _ _ _ (by omega)]
  have : c % 16 + (15 - c % 16) = 15 := by omega
  rw [this]
  simp only [List.singleton_append, runRows, if_true]
  rfl

theorem run_rowStart (k v : Nat) (rest : List MTok) :
    runRows none (rowStartToks k v ++ rest) = runRows (posOf (k + 1)) rest := by
  unfold rowStartToks
  simp only [List.cons_append, runRows]
  rw [List.append_assoc]
  have h0 : k / 16 * 16 % 16 = 0 := Nat.mul_mod_left _ _
  have := run_nones (k % 16) (k / 16 * 16) ([MTok.cell (k % 16) (some v)] ++ rest) (by rw [h0]; omega)
  rw [h0] at this
  rw [this, Nat.zero_add]
  simp only [List.singleton_append, runRows, if_true]
  rw [nextPos_eq]

theorem run_keyToks (cur k v : Nat) (rest : List MTok) (hle : cur ≤ k) :
    runRows (posOf cur) (keyToks cur k v ++ rest) = runRows (posOf (k + 1)) rest := by
  unfold keyToks
  by_cases h0 : cur % 16 = 0
  · rw [if_pos h0]
    have : posOf cur = none := by unfold posOf; rw [if_pos h0]
    rw [this]; exact run_rowStart k v rest
  · rw [if_neg h0]
    have hp : posOf cur = some (cur % 16) := by unfold posOf; rw [if_neg h0]
    rw [hp]
    by_cases hrow : cur / 16 = k / 16
    · rw [if_pos hrow, List.append_assoc, run_nones _ _ _ (by omega)]
      have : cur % 16 + (k - cur) = k % 16 := by omega
      rw [this]
      simp only [List.singleton_append, runRows, if_true]
      rw [nextPos_eq]
    · rw [if_neg hrow, List.append_assoc, run_nones_end cur _ h0]
      exact run_rowStart k v rest

/-- the address after the last key -/
def endPlain : Nat → Mem → Nat
  | cur, [] => cur
  | _, (k, _) :: rest => endPlain (k + 1) rest

theorem endCur_mod : ∀ (m : Mem) (a b : Nat), a % 16 = b % 16 → endCur a m % 16 = endPlain b m % 16
  | [], _, _, h => h
  | (k, _) :: rest, _, _, _ => endCur_mod rest _ _ (mod16_modU64 _)

theorem run_specFrom : ∀ (m : Mem) (cur : Nat) (rest : List MTok), SortedMem m →
    (∀ k v r, m = (k, v) :: r → cur ≤ k) →
    runRows (posOf cur) (specFrom cur m ++ rest) = runRows (posOf (endPlain cur m)) rest
  | [], _, _, _, _ => rfl
  | (k, v) :: tl, cur, rest, hs, hle => by
    rw [specFrom, List.append_assoc, run_keyToks cur k v _ (hle k v tl rfl)]
    exact run_specFrom tl (k + 1) rest hs.tail (fun k' v' r h => by subst h; have : k < k' := hs.1; omega)

theorem run_finish (c : Nat) : runRows (posOf c) (finishToks c) = some none := by
  unfold finishToks posOf
  by_cases h : c % 16 = 0
  · rw [if_pos h, if_pos h]; rfl
  · rw [if_neg h, if_neg h]
    have := run_nones_end c [] h
    rw [List.append_nil] at this
    rw [this]; rfl

/-- **the memory section consists of complete rows**: a label, then the sixteen cells 0..15 in order, repeated -/
theorem rows_memToks (m : Mem) (h : SortedMem m) : runRows none (memToks m) = some none := by
  rw [memToks_spec m h]
  cases m with
  | nil => rfl
  | cons p rest =>
    obtain ⟨k0, v0⟩ := p
    unfold specToks
    have h0 : posOf (k0 / 16 * 16) = none := by unfold posOf; rw [if_pos (Nat.mul_mod_left _ _)]
    have key : runRows (posOf (k0 / 16 * 16)) (specFrom (k0 / 16 * 16) ((k0, v0) :: rest) ++
        finishToks (endCur (k0 / 16 * 16) ((k0, v0) :: rest))) = some none := by
      rw [run_specFrom _ _ _ h (fun k v r hr => by cases hr; omega)]
      rw [posOf_congr _ (endCur (k0 / 16 * 16) ((k0, v0) :: rest)) (endCur_mod _ _ _ rfl).symm]
      exact run_finish _
    rw [h0] at key
    exact key
end Dump

/-! ### every memory the simulator reaches is sorted -/

/-- strictly increasing addresses in `[lo, 2^64)` -/
def SortedFrom : Nat → Mem → Prop
  | _, [] => True
  | lo, (k, _) :: rest => lo ≤ k ∧ k < U64 ∧ SortedFrom (k + 1) rest

theorem SortedFrom.weaken : ∀ {m : Mem} {lo lo' : Nat}, SortedFrom lo m → lo' ≤ lo → SortedFrom lo' m
  | [], _, _, _, _ => trivial
  | (_, _) :: _, _, _, h, hl => ⟨Nat.le_trans hl h.1, h.2.1, h.2.2⟩

theorem SortedFrom.sorted : ∀ {m : Mem} {lo : Nat}, SortedFrom lo m → Dump.SortedMem m
  | [], _, _ => trivial
  | [(_, _)], _, h => h.2.1
  | (_, _) :: (_, _) :: _, _, h => ⟨by have := h.2.2.1; omega, SortedFrom.sorted h.2.2⟩

theorem Mem.insert_sortedFrom : ∀ (m : Mem) (lo a v : Nat), SortedFrom lo m → lo ≤ a → a < U64 → SortedFrom lo (m.insert a v)
  | [], lo, a, v, _, hl, ha => ⟨hl, ha, trivial⟩
  | (k, x) :: rest, lo, a, v, h, hl, ha => by
    unfold Mem.insert
    by_cases h1 : a < k
    · rw [if_pos h1]
      exact ⟨hl, ha, by omega, h.2.1, h.2.2⟩
    · rw [if_neg h1]
      by_cases h2 : a = k
      · rw [if_pos h2]
        subst h2
        exact ⟨hl, ha, h.2.2⟩
      · rw [if_neg h2]
        exact ⟨h.1, h.2.1, Mem.insert_sortedFrom rest (k + 1) a v h.2.2 (by omega) ha⟩

theorem Mem.write_sortedFrom (m : Mem) (addr value : Nat) (h : SortedFrom 0 m) : ∀ n, SortedFrom 0 (m.write addr value n)
  | 0 => h
  | n + 1 => by
    unfold Mem.write
    exact Mem.insert_sortedFrom _ 0 _ _ (Mem.write_sortedFrom m addr value h n) (Nat.zero_le _)
      (Nat.mod_lt _ (by unfold U64; exact Nat.pow_pos (by decide)))
