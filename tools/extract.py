#!/usr/bin/env python3
"""Translator: /repo sources -> lean/Hcl/Generated.lean (regenerated on every run).

Strict recognisers for the table-like parts of the code.  When a recogniser does not match, the entry
is emitted as the distinguished string "UNRECOGNISED: <text>", which keeps the file compiling but makes
the tie theorems (Hcl/Tie/*.lean, proved by `decide`) fail.
"""
import os
import re
import sys

VERIF = os.path.dirname(os.path.dirname(os.path.abspath(__file__)))
REPO = os.environ.get("VERIF_REPO", "/repo")


def read(p):
    return open(os.path.join(REPO, p), encoding="utf-8").read()


def norm(s):
    return re.sub(r"\s+", " ", s).strip()


def lstr(s):
    return '"' + s.replace("\\", "\\\\").replace('"', '\\"').replace("\n", "\\n") + '"'


def llist(items):
    return "[" + ", ".join(items) + "]"


def strip_comments(src):
    src = re.sub(r"//[^\n]*", "", src)
    return re.sub(r"/\*.*?\*/", "", src, flags=re.S)


def fn_body(src, header):
    """text between the braces of the item starting with `header`"""
    if header.startswith("re:"):
        m = re.search(header[3:], src)
        i = m.start() if m else -1
    else:
        i = src.find(header)
    if i < 0:
        return None
    j = src.find("{", i)
    depth = 0
    k = j
    while k < len(src):
        if src[k] == "{":
            depth += 1
        elif src[k] == "}":
            depth -= 1
            if depth == 0:
                return src[j + 1:k]
        k += 1
    return None


def split_arms(body):
    """split a match body into `pattern => expr` arms at top-level commas"""
    arms = []
    depth = 0
    cur = ""
    for ch in body:
        if ch in "({[":
            depth += 1
        elif ch in ")}]":
            depth -= 1
        if ch == "," and depth == 0:
            if cur.strip():
                arms.append(cur)
            cur = ""
        else:
            cur += ch
    if cur.strip():
        arms.append(cur)
    out = []
    for a in arms:
        if "=>" in a:
            p, e = a.split("=>", 1)
            out.append((norm(p), norm(e)))
    return out


def match_body(fbody):
    i = fbody.find("match self")
    if i < 0:
        i = fbody.find("match ")
    j = fbody.find("{", i)
    depth = 0
    k = j
    while k < len(fbody):
        if fbody[k] == "{":
            depth += 1
        elif fbody[k] == "}":
            depth -= 1
            if depth == 0:
                return fbody[j + 1:k]
        k += 1
    return ""


def extract_ast(out):
    src = strip_comments(read("src/ast.rs"))
    # strictness constants
    consts = re.findall(r"const\s+(\w+)\s*:\s*bool\s*=\s*cfg!\(feature\s*=\s*\"([^\"]+)\"\)\s*;", src)
    out.append("def strictnessConsts : List (String × String) := " + llist("(%s, %s)" % (lstr(a), lstr(b)) for a, b in consts))
    # kind table
    body = fn_body(src, "fn kind(self)")
    arms = split_arms(match_body(body)) if body else []
    out.append("def binopKind : List (String × String) := " + llist(
        "(%s, %s)" % (lstr(p.replace("BinOpCode::", "")), lstr(e.replace("BinOpKind::", ""))) for p, e in arms))
    # apply_raw
    body = fn_body(src, "fn apply_raw(self")
    arms = split_arms(match_body(body)) if body else []
    out.append("def applyRawArms : List (String × String) := " + llist(
        "(%s, %s)" % (lstr(p.replace("BinOpCode::", "")), lstr(e)) for p, e in arms))
    # BinOpCode::apply: the text of the whole function (it is short and every token matters)
    body = fn_body(src, "fn apply(self, left: WireValue, right: WireValue)")
    out.append("def binopApplyText : String := " + lstr(norm(body or "UNRECOGNISED")))
    # unop apply
    i = src.find("impl UnOpCode")
    body = fn_body(src[i:], "fn apply(self, value: WireValue)") if i >= 0 else None
    out.append("def unopApplyText : String := " + lstr(norm(body or "UNRECOGNISED")))
    # mask, combine, max
    for name, hdr in (("maskText", "pub fn mask(self)"), ("combineText", "pub fn combine(self, other: WireWidth)"),
                      ("maxText", "pub fn max(self, other: WireWidth)")):
        out.append("def %s : String := %s" % (name, lstr(norm(fn_body(src, hdr) or "UNRECOGNISED"))))


def extract_cargo(out):
    src = read("Cargo.toml")
    m = re.search(r"^default\s*=\s*\[([^\]]*)\]", src, flags=re.M)
    feats = re.findall(r'"([^"]+)"', m.group(1)) if m else ["UNRECOGNISED"]
    out.append("def defaultFeatures : List String := " + llist(lstr(f) for f in feats))


def extract_program(out):
    raw = read("src/program.rs")
    src = strip_comments(raw)
    m = re.search(r'pub const Y86_PREAMBLE: &\'static str = "(.*?)";', raw, flags=re.S)
    pre = m.group(1) if m else "UNRECOGNISED"
    out.append("def preamble : String := " + lstr(pre))
    out.append("def preambleBytes : List Nat := " + llist(str(b) for b in pre.encode("utf-8")))
    # constants of the preamble: name = literal / name
    pre_nc = re.sub(r"#[^\n]*", "", pre)
    consts = re.findall(r"(\w+)\s*=\s*([0-9A-Za-z_]+)\s*[,;]", pre_nc)
    out.append("def preambleConsts : List (String × String) := " + llist("(%s, %s)" % (lstr(a), lstr(b)) for a, b in consts))
    # fixed functions
    body = fn_body(src, "pub fn y86_fixed_functions()")
    ffs = []
    if body:
        # expand the read_port / write_port helpers
        def expand(m):
            kind, a, b = m.group(1), m.group(2), m.group(3)
            if kind == "read_port":
                return ('FF{ name: "register file read port with %s", in: [("%s", 4)], out: ("%s", 64), action: ReadProgramRegister(%s,%s), '
                        'enable: None, mandatory: false }') % (a, a, b, a, b)
            return ('FF{ name: "register file write port with %s", in: [("%s", 4), ("%s", 64)], out: None, action: WriteProgramRegister(%s,%s), '
                    'enable: None, mandatory: false }') % (a, a, b, a, b)
        for m in re.finditer(r"FixedFunction::(read_port|write_port)\(\"(\w+)\",\s*\"(\w+)\"\)|FixedFunction\s*\{", body):
            if m.group(1):
                kind, a, b = m.group(1), m.group(2), m.group(3)
                if kind == "read_port":
                    ffs.append(("in:%s:4" % a, "out:%s:64" % b, "readreg", "-", "false"))
                else:
                    ffs.append(("in:%s:4,%s:64" % (a, b), "out:-", "writereg", "-", "false"))
            else:
                # a literal FixedFunction { ... }
                j = m.end() - 1
                depth = 0
                k = j
                while k < len(body):
                    if body[k] == "{":
                        depth += 1
                    elif body[k] == "}":
                        depth -= 1
                        if depth == 0:
                            break
                    k += 1
                item = body[j:k + 1]
                ins = re.findall(r'WireDecl::synthetic\("(\w+)",\s*(\d+)\)', item.split("out_wire")[0])
                om = re.search(r'out_wire:\s*(None|Some\(WireDecl::synthetic\("(\w+)",\s*(\d+)\)\))', item)
                outw = "-" if (not om or om.group(1) == "None") else "%s:%s" % (om.group(2), om.group(3))
                am = re.search(r"action:\s*Action::(\w+)", item)
                act = {"SetStatus": "setstatus", "ReadMemory": "readmem", "WriteMemory": "writemem"}.get(am.group(1) if am else "", "UNRECOGNISED")
                if act == "readmem" and re.search(r"is_instruction:\s*true", item):
                    act = "readimem"
                em = re.search(r'disabled_if_false:\s*(None|Some\(String::from\("(\w+)"\)\))', item)
                en = "-" if (not em or em.group(1) == "None") else em.group(2)
                mm = re.search(r"mandatory:\s*(true|false)", item)
                ffs.append(("in:" + ",".join("%s:%s" % x for x in ins), "out:" + outw, act, en, mm.group(1) if mm else "UNRECOGNISED"))
    out.append("def fixedFunctions : List (String × String × String × String × String) := " + llist(
        "(%s, %s, %s, %s, %s)" % tuple(lstr(x) for x in f) for f in ffs))
    m = re.search(r"const Y86_STATUSES: \[&'static str; \d+\] = \[(.*?)\];", src, flags=re.S)
    sts = re.findall(r'"([^"]*)"', m.group(1)) if m else ["UNRECOGNISED"]
    out.append("def statuses : List String := " + llist(lstr(s) for s in sts))
    m = re.search(r"let order = \[([^\]]*)\];", src)
    order = re.findall(r"'(.)'", m.group(1)) if m else []
    out.append("def bankOrder : List Char := " + llist("'%s'" % c for c in order))
    m = re.search(r"timeout:\s*(\d+),", fn_body(src, "fn default() -> RunOptions") or "")
    out.append("def defaultTimeout : Nat := " + (m.group(1) if m else "0"))
    # done(): the exact condition text
    out.append("def doneText : String := " + lstr(norm(fn_body(src, "pub fn done(&self)") or "UNRECOGNISED")))
    out.append("def processBanksText : String := " + lstr(norm(fn_body(src, "fn process_register_banks(&self") or "UNRECOGNISED")))
    out.append("def memoryReadText : String := " + lstr(norm(fn_body(src, "pub fn read(&self, address: u64, bytes: u8)") or "UNRECOGNISED")))
    out.append("def memoryWriteText : String := " + lstr(norm(fn_body(src, "pub fn write(&mut self, address: u64, value: u128, bytes: u8)") or "UNRECOGNISED")))


def extract_disasm(out):
    src = strip_comments(read("src/y86_disasm.rs"))
    m = re.search(r"const Y86_REGISTERS: \[&'static str; \d+\] = \[(.*?)\];", src, flags=re.S)
    out.append("def disasmRegisters : List String := " + llist(lstr(s) for s in (re.findall(r'"([^"]*)"', m.group(1)) if m else ["UNRECOGNISED"])))
    m = re.search(r"const Y86_IFUNS: \[&'static str; \d+\] = \[(.*?)\];", src, flags=re.S)
    out.append("def disasmIfuns : List String := " + llist(lstr(s) for s in (re.findall(r'"([^"]*)"', m.group(1)) if m else ["UNRECOGNISED"])))
    out.append("def disasmText : String := " + lstr(norm(fn_body(src, "pub fn disassemble<W: Write>") or "UNRECOGNISED")))


def extract_lexer(out):
    src = re.sub(r"//[^\n]*", "", read("src/lexer.rs"))    # block comments are not stripped: "/*" occurs in string literals here
    kws = re.findall(r'"(\w+)"\s*=>\s*Tok::(\w+)', fn_body(src, "fn resolve_identifier") or "")
    out.append("def keywords : List (String × String) := " + llist("(%s, %s)" % (lstr(a), lstr(b)) for a, b in kws))
    nb = fn_body(src, "fn next(&mut self)") or ""
    simple = re.findall(r"'(.)'\s*=>\s*simple_token\(i,\s*Tok::(\w+)\)", nb)
    out.append("def simpleTokens : List (Char × String) := " + llist("('%s', %s)" % (c, lstr(t)) for c, t in simple))
    choose = re.findall(r"'(.)'\s*=>\s*self\.choose_token\(i,\s*Tok::(\w+),\s*&\[(.*?)\]\)", nb)
    items = []
    for c, dflt, opts in choose:
        pairs = re.findall(r"\('(.)',\s*Tok::(\w+)\)", opts)
        items.append("('%s', %s, %s)" % (c, lstr(dflt), llist("('%s', %s)" % (a, lstr(b)) for a, b in pairs)))
    out.append("def chooseTokens : List (Char × String × List (Char × String)) := " + llist(items))
    out.append("def handleConstantText : String := " + lstr(norm(fn_body(src, "fn handle_constant(&mut self, i: usize)") or "UNRECOGNISED")))


def extract_grammar(out):
    src = read("src/parser.lalrpop")
    src = re.sub(r"//[^\n]*", "", src)
    tiers = re.findall(r"^(Expr\w+)\s*=\s*(BinTier|BinTierNonAssoc)<(\w+),\s*(\w+)>;", src, flags=re.M)
    out.append("def grammarTiers : List (String × String × String × String) := " + llist(
        "(%s, %s, %s, %s)" % tuple(lstr(x) for x in t) for t in tiers))
    ops = []
    for m in re.finditer(r"^(BinOp\w+|UnOp)\s*:\s*\w+\s*=\s*\{(.*?)\};", src, flags=re.M | re.S):
        for tok, code in re.findall(r'"([^"]+)"\s*=>\s*(?:BinOpCode|UnOpCode)::(\w+)', m.group(2)):
            ops.append((m.group(1), tok, code))
    out.append("def grammarOps : List (String × String × String) := " + llist("(%s, %s, %s)" % tuple(lstr(x) for x in o) for o in ops))
    m = re.search(r"^ExprIn\s*:\s*SpannedExpr\s*=\s*\{(.*?)^\};", src, flags=re.M | re.S)
    inner = re.findall(r"<e:(\w+)>", m.group(1)) if m else []
    out.append("def grammarInOperand : List String := " + llist(lstr(x) for x in sorted(set(inner))))
    bounds = re.findall(r"if constant\.bits <= (\d+)", src)
    out.append("def grammarBounds : List Nat := " + llist(bounds))


def extract_main(out):
    src = strip_comments(read("src/main.rs"))
    opts = re.findall(r'opts\.optflag\("(\w*)",\s*"([\w-]+)"', src)
    out.append("def cliOptions : List (String × String) := " + llist("(%s, %s)" % (lstr(a), lstr(b)) for a, b in opts))
    m = re.search(r"\}\s*else\s*\{\s*(\d+)\s*\};\s*run_options\.set_timeout", src)
    out.append("def cliDefaultTimeout : Nat := " + (m.group(1) if m else "0"))
    out.append("def cliYoSuffix : List String := " + llist(lstr(x) for x in re.findall(r'ends_with\("([^"]+)"\)', src)))


# Text pins: the normalised, comment-free body of every function the hand-written model transcribes.  Each is compared
# (Hcl/Tie/Pins*.lean, written by tools/mkpins.py when a change of /repo has been reviewed) with the text the model was
# last validated against, so that any edit of a modelled function is noticed even when no stream input exposes it.
PINS = [
    # (Lean name, group = Tie module suffix, file, header)
    ("pinLoadLine", "Yo", "src/program.rs", "fn load_line_y86(&mut self"),
    ("pinLoadFrom", "Yo", "src/program.rs", "pub fn load_from_y86<R: BufRead>"),
    ("pinDumpMemory", "Dump", "src/program.rs", "fn dump_memory_y86<W: Write>"),
    ("pinDumpBank", "Dump", "src/program.rs", "fn dump_bank<W: Write>"),
    ("pinDumpCustom", "Dump", "src/program.rs", "fn dump_custom_registers_y86<W: Write>"),
    ("pinDumpRegisters", "Dump", "src/program.rs", "fn dump_program_registers_y86<W: Write>"),
    ("pinDumpY86", "Dump", "src/program.rs", "pub fn dump_y86<W: Write>"),
    ("pinNameStatus", "Dump", "src/program.rs", "pub fn name_status_y86(&self)"),
    ("pinTopologicalSort", "Graph", "src/program.rs", "fn topological_sort(&self)"),
    ("pinFindCycle", "Graph", "src/program.rs", "fn find_cycle(&self)"),
    ("pinResolveConstants", "Build", "src/program.rs", "fn resolve_constants(exprs"),
    ("pinPreprocessFixed", "Build", "src/program.rs", "fn preprocess_fixed<'a>("),
    ("pinAssignmentsToActions", "Build", "src/program.rs", "fn assignments_to_actions<'a>("),
    ("pinProgramNew", "Build", "src/program.rs", "re:pub fn new\\(\\s*statements: Vec<Statement>"),
    ("pinInitialState", "Init", "src/program.rs", "pub fn initial_state(&self)"),
    ("pinStepWithOutput", "Step", "src/program.rs", "pub fn step_with_output<W: Write>"),
    ("pinRun", "Run", "src/program.rs", "pub fn run<W: Write>"),
    ("pinSetTimeout", "Run", "src/program.rs", "pub fn set_timeout(&mut self, new_timeout: u32)"),
    ("pinStatusOrDefault", "Run", "src/program.rs", "pub fn status_or_default(&self, default: u8)"),
    ("pinHalted", "Run", "src/program.rs", "pub fn halted(&self)"),
    ("pinTimedOut", "Run", "src/program.rs", "pub fn timed_out(&self)"),
    ("pinMarkNewlines", "Io", "src/io.rs", "fn mark_newlines(offset"),
    ("pinFilename", "Io", "src/io.rs", "pub fn filename(&self, index: usize)"),
    ("pinLineNumberAndBounds", "Io", "src/io.rs", "pub fn line_number_and_bounds(&self, index: usize)"),
    ("pinShowRegion", "Io", "src/io.rs", "pub fn show_region(&self, start: usize, end: usize)"),
    ("pinFindTableWidths", "Table", "src/program.rs", "fn find_table_widths(&self"),
    ("pinDumpWireSubtable", "Table", "src/program.rs", "fn dump_wire_subtable<W: Write>"),
    ("pinGetWidthAndCheck", "Check", "src/ast.rs", "pub fn get_width_and_check<'a>("),
    ("pinFixMuxWidths", "Check", "src/ast.rs", "pub fn fix_mux_widths<'a>("),
    ("pinEvaluate", "Check", "src/ast.rs", "pub fn evaluate<'a>("),
    ("pinApplyToAll", "Refs", "src/ast.rs", "pub fn apply_to_all<'a, 'b, F>("),
    ("pinApplyToAllMut", "Refs", "src/ast.rs", "pub fn apply_to_all_mut<F>("),
    ("pinReferencedWires", "Refs", "src/ast.rs", "pub fn referenced_wires<'a>("),
    ("pinFindReferences", "Refs", "src/ast.rs", "pub fn find_references<'a>("),
    ("pinMainReal", "Main", "src/main.rs", "fn main_real()"),
    ("pinFormatForContents", "Errors", "src/errors.rs", "pub fn format_for_contents<W: Write>"),
    ("pinFormatTokenList", "Errors", "src/errors.rs", "fn format_token_list(tokens"),
    ("pinListWithAnd", "Errors", "src/errors.rs", "fn list_with_and<"),
    ("pinFindCloseNames", "Errors", "src/errors.rs", "pub fn find_close_names_in<"),
    ("pinAsWidth", "Value", "src/ast.rs", "pub fn as_width(self, new_width: WireWidth)"),
    ("pinValueOp", "Value", "src/ast.rs", "pub fn op<F>(self, other: WireValue"),
    ("pinGrammarFile", "Grammar", "src/parser.lalrpop", "FILE"),
    ("pinRunY86", "Main", "src/main.rs", "fn run_y86<W: Write>("),
    ("pinNewFromData", "Io", "src/io.rs", "pub fn new_from_data("),
    ("pinNewFromFile", "Io", "src/io.rs", "pub fn new_from_file_with_preamble("),
    ("pinLexerNext", "Lexer", "src/lexer.rs", "fn next(&mut self)"),
    ("pinLexerChooseToken", "Lexer", "src/lexer.rs", "fn choose_token(&mut self"),
    ("pinLexerGetWhile", "Lexer", "src/lexer.rs", "fn get_while<F>(&mut self"),
    ("pinLexerInternalNext", "Lexer", "src/lexer.rs", "fn internal_next(&mut self)"),
    ("pinLexerResolveIdentifier", "Lexer", "src/lexer.rs", "fn resolve_identifier(&self"),
]


def extract_pins(out):
    cache = {}
    for name, _group, path, header in PINS:
        if path not in cache:
            # lexer.rs has "/*" inside literals: only its line comments are removed (as extract_lexer does)
            cache[path] = re.sub(r"//[^\n]*", "", read(path)) if path == "src/lexer.rs" else strip_comments(read(path))
        # "FILE": the whole file (the grammar: the parser model transcribes all of it; only `//` comments are removed)
        body = re.sub(r"//[^\n]*", "", read(path)) if header == "FILE" else fn_body(cache[path], header)
        out.append("def %s : String := %s" % (name, lstr(norm(body) if body is not None else "UNRECOGNISED")))


def main():
    out = []
    for f in (extract_ast, extract_cargo, extract_program, extract_disasm, extract_lexer, extract_grammar, extract_main, extract_pins):
        try:
            f(out)
        except Exception as e:  # a recogniser that crashes marks its table unrecognised
            out.append("def unrecognised_%s : String := %s" % (f.__name__, lstr("UNRECOGNISED: %r" % (e,))))
    text = "/-! GENERATED by tools/extract.py from /repo on every run.  Do not edit. -/\nnamespace Generated\n\n" + \
        "\n\n".join(out) + "\n\nend Generated\n"
    path = os.path.join(VERIF, "lean", "Hcl", "Generated.lean")
    old = open(path, encoding="utf-8").read() if os.path.exists(path) else None
    if old != text:
        open(path, "w", encoding="utf-8").write(text)


main()
