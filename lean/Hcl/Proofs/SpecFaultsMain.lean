import Hcl.Proofs.SpecFaultsActions
import Hcl.Proofs.SpecFaultsRegs
open Rust Reorder

/-!
# `Spec.faults … = []` ⇔ `Program.new` accepts — under two explicit side conditions

`Spec.faults` (Hcl/Spec/Accept.lean) is the executable oracle of the differential tests; `Program.new` is the model of
`Program::new`.  The equivalence requested as `faults_nil_iff_accepted` is **false as stated** (see the `DISAGREE`
cases in `SpecFaultsTest.lean`): the two sides use different "always true" analyses for the conditions of case
expressions and different "is the constant 0" analyses for the enable input of a partially wired memory port:

* the model (like the Rust code, `SpannedExpr::always_true`) *evaluates* the condition with only the constants in scope,
  before the width fix-up of case expressions: evaluation is lazy (a case expression stops at the first true arm, an
  `in` set at the first match), so a condition that mentions a wire can still evaluate; and the value of a nested case
  expression is not truncated to the width the rules give it;
* the specification demands a *constant expression* (all names constants) and uses the value the language gives it.

The two analyses agree on **plain** conditions (`SF.Plain`, SpecFaultsPlain.lean): either evaluation is certain to reach
a non-constant (`SF.stuck`: a non-constant operand of an operator, in the first condition of a case expression, in the
scrutinee or the first member of an `in` set), or the condition contains no case expression and every name is a constant.
`SF.Eager` (no case expression, members of `in` sets constant) is a special case (`SF.eager_plain`).
Under `CondsPlain` (every case-expression condition of the program is plain) the oracle's "accept" is sound; with
`EnablesPlain` in addition (for a memory port that lacks an input, a value assigned to its enable input
`mem_readbit`/`mem_writebit` is a constant expression or stuck) the equivalence holds.
-/

/-- the expressions of a statement -/
def SF.exprsOf : Stmt → List Ex
  | .consts ds => ds.map (·.value)
  | .wires _ => []
  | .assigns as => as.map (·.value)
  | .bank b => b.regs.map (·.default)

/-- the assignments of a statement -/
def SF.assignsOf : Stmt → List Assignment
  | .assigns as => as
  | _ => []

/-- the enable inputs of the built-in components: `mem_readbit`, `mem_writebit` -/
def SF.enableNames : List String := y86FixedFunctions.filterMap (·.disabledIfFalse)

example : SF.enableNames = ["mem_readbit", "mem_writebit"] := by decide

/-- **side condition 1**: every condition of every case expression in the program (at any depth, in assigned values,
    constant definitions and register defaults) is *plain*: either it contains no case expression and mentions only
    names declared by `const` or is certain to read a name that is not (`SF.stuck`; then it may contain case expressions) -/
def CondsPlain (stmts : List Stmt) : Prop :=
  ∀ st ∈ stmts, ∀ e ∈ SF.exprsOf st, ∀ cd ∈ SF.conds e, SF.Plain (SF.K stmts) cd = true

/-- **side condition 2**: for a built-in component that lacks an input (only then does the enable input matter for
    acceptance), a value assigned to its enable input (`mem_readbit`, `mem_writebit`) is a constant expression
    (mentions only names declared by `const`) or is certain to read a name that is not -/
def EnablesPlain (stmts : List Stmt) : Prop :=
  ∀ f ∈ y86FixedFunctions, (∃ i ∈ f.inWires.map (·.1), i ∉ allTargets stmts) → ∀ en ∈ f.disabledIfFalse.toList,
    ∀ st ∈ stmts, ∀ a ∈ SF.assignsOf st, en ∈ a.names →
      ((refs a.value).all (SF.K stmts) = true ∨ SF.stuck (SF.K stmts) a.value = true)

instance (stmts : List Stmt) : Decidable (CondsPlain stmts) := by unfold CondsPlain; exact inferInstance
instance (stmts : List Stmt) : Decidable (EnablesPlain stmts) := by unfold EnablesPlain; exact inferInstance

/-- in particular when all conditions are eager -/
theorem condsPlain_of_eager (stmts : List Stmt)
    (h : ∀ st ∈ stmts, ∀ e ∈ SF.exprsOf st, ∀ cd ∈ SF.conds e, SF.Eager (SF.K stmts) cd = true) : CondsPlain stmts :=
  fun st hst e he cd hcd => SF.eager_plain _ cd (h st hst e he cd hcd)

namespace SF

/-! ### the side conditions over the collected tables -/

theorem mem_assigns_stmt {stmts : List Stmt} (p : String × Ex) (hp : p ∈ (el stmts).assigns) :
    ∃ as, Stmt.assigns as ∈ stmts ∧ ∃ a ∈ as, p.1 ∈ a.names ∧ p.2 = a.value := by
  rw [el_assigns] at hp
  obtain ⟨st, hst, hm⟩ := List.mem_flatMap.mp hp
  cases st with
  | assigns as =>
    obtain ⟨a, ha, hm'⟩ := List.mem_flatMap.mp hm
    obtain ⟨n, hn, rfl⟩ := List.mem_map.mp hm'
    exact ⟨as, hst, a, ha, hn, rfl⟩
  | wires _ => cases hm
  | consts _ => cases hm
  | bank _ => cases hm

theorem plain_assigns {stmts : List Stmt} (h : CondsPlain stmts) :
    ∀ p ∈ (el stmts).assigns, ∀ cd ∈ conds p.2, Plain (K stmts) cd = true := by
  intro p hp cd hcd
  obtain ⟨as, hst, a, ha, _, hv⟩ := mem_assigns_stmt p hp
  rw [hv] at hcd
  exact h _ hst a.value (List.mem_map.mpr ⟨a, ha, rfl⟩) cd hcd

theorem plain_consts {stmts : List Stmt} (h : CondsPlain stmts) :
    ∀ p ∈ (el stmts).constDefs, ∀ cd ∈ conds p.2, Plain (K stmts) cd = true := by
  intro p hp cd hcd
  rw [el_constDefs] at hp
  obtain ⟨st, hst, hm⟩ := List.mem_flatMap.mp hp
  cases st with
  | consts ds =>
    obtain ⟨d, hd, rfl⟩ := List.mem_map.mp hm
    exact h _ hst d.value (List.mem_map.mpr ⟨d, hd, rfl⟩) cd hcd
  | wires _ => cases hm
  | assigns _ => cases hm
  | bank _ => cases hm

theorem plain_defaults {stmts : List Stmt} (h : CondsPlain stmts) :
    ∀ b ∈ (el stmts).banks, ∀ r ∈ b.regs, ∀ cd ∈ conds r.default, Plain (K stmts) cd = true := by
  intro b hb r hr cd hcd
  rw [el_banks] at hb
  exact h _ ((mem_banksRaw b).mp hb) r.default (List.mem_map.mpr ⟨r, hr, rfl⟩) cd hcd

theorem plain_enables {stmts : List Stmt} (h : EnablesPlain stmts) :
    ∀ f ∈ y86FixedFunctions, ¬ Active (step1Of stmts).assignments f → ∀ en, f.disabledIfFalse = some en →
      ∀ e, (en, e) ∈ (el stmts).assigns → isConstExpr stmts e = true ∨ stuck (K stmts) e = true := by
  intro f hf hna en hd e he
  obtain ⟨as, hst, a, ha, hn, hv⟩ := mem_assigns_stmt (en, e) he
  simp only at hn hv
  rw [hv]
  have hmiss : ∃ i ∈ f.inWires.map (·.1), i ∉ allTargets stmts := by
    apply Classical.byContradiction
    intro hno
    apply hna
    intro i hi
    apply (step1Of_assignments_contains_iff stmts i).mpr
    apply Classical.byContradiction
    intro hni
    exact hno ⟨i, hi, hni⟩
  exact h f hf hmiss en (by rw [hd]; simp) (.assigns as) hst a ha hn

end SF

open SF

/-- **soundness of the oracle's "accept"**: when every case-expression condition is plain, a program in which the
    specification finds no fault is accepted by `Program::new`, whatever the iteration order of the hash tables -/
theorem faults_nil_imp_accepted (fl : Flags) (cls : CharClass) (o : Orders) (stmts : List Stmt) (ho : OrdersOK o)
    (hwf : StmtsWF stmts) (hce : CondsPlain stmts)
    (h : Spec.faults fl cls.isLower cls.isUpper stmts = []) :
    ∃ p, Program.new fl cls o y86FixedFunctions stmts = .ok p := by
  obtain ⟨hbank, h1, h2, h3, h4, h5, h6a, h6b, h6c, h7, hwA, hwC, hwD, hloops⟩ :=
    (faults_nil_iff fl cls.isLower cls.isUpper stmts).mp h
  have hb : Basic cls stmts := (basic_iff cls stmts).mpr ⟨hbank, h1⟩
  have hgb := hb.goodBanks
  obtain ⟨hcycA, hcycC⟩ := (loops_nil_iff cls.isLower cls.isUpper stmts).mp hloops
  have HR := reads_consts cls.isLower cls.isUpper stmts h3 h7
  have hrefs : ∀ p ∈ (el stmts).constDefs, ∀ r ∈ refs p.2, r ∈ constNames stmts :=
    fun p hp r hr => HR p.2 (List.mem_append_left _ (List.mem_map.mpr ⟨p, hp, rfl⟩)) r hr
  obtain ⟨c, hc, hcm, hok⟩ := consts_sound fl o ho hb (wf_constDefs hwf) hrefs (plain_consts hce) hwC hcycC
  have H5 := (f5_nil_iff cls.isLower cls.isUpper stmts).mp h5
  have hdeclNodup : (allDeclared stmts).Nodup := (allDeclared_nodup_iff stmts).mpr hb.declNodup
  have hraw : (step1Of stmts).constantsRaw = (el stmts).constDefs := by
    rw [step1Of_constantsRaw_eq stmts hdeclNodup, el_constDefs]
  have front : Front fl cls o stmts c :=
    { declNodup := hdeclNodup
      declNotBuiltin := by
        intro n hn hfix
        have hx := List.mem_append.mpr ((mem_allDeclared_iff stmts n).mp hn)
        exact (hb.declFresh n hx).2.2 ((mem_builtin_iff n).mpr hfix)
      targetsNodup := by
        rw [← targets_eq]; exact (f2_nil_iff stmts).mp h2
      targetsNotOutput := by
        intro n hn
        rw [← targets_eq] at hn
        rw [← builtinOut_eq]
        exact (H5 n hn).2.1
      targetsNotConstant := by
        intro n hn
        rw [← targets_eq] at hn
        cases hcn : (step1Of stmts).constantsRaw.contains n with
        | false => rfl
        | true => exact absurd ((constantsRaw_contains_iff stmts n).mp hcn) (H5 n hn).2.2
      constantsReadConstants := by
        intro p hp r hr
        rw [hraw] at hp
        exact (constantsRaw_contains_iff stmts r).mpr (hrefs p hp r hr)
      constantsResolve := by rw [hraw]; exact hc
      banksOK := banks_sound fl hb hwf hcm hok (plain_defaults hce) h3 h5 h7 hwD
      registerNamesNodup := by
        rw [← el_banks]
        exact ((allRegNames_perm _ hb.twoChar).nodup_iff).mpr hb.regNodup }
  have hm : Mid fl cls o stmts c := ⟨front, hwf, hcm⟩
  obtain ⟨hneeded, hact⟩ := actions_sound hm (plain_assigns hce) h3 h4 h6a h6b h6c hwA hcycA
  exact Program_new_of_faultless fl cls o stmts ho hwf c
    { declNodup := front.declNodup, declNotBuiltin := front.declNotBuiltin, targetsNodup := front.targetsNodup
      targetsNotOutput := front.targetsNotOutput, targetsNotConstant := front.targetsNotConstant
      constantsReadConstants := front.constantsReadConstants, constantsResolve := front.constantsResolve
      banksOK := front.banksOK, registerNamesNodup := front.registerNamesNodup
      neededAssigned := hneeded, actionsOK := hact }

/-- **completeness of the oracle**: when in addition the enable inputs of the memory ports are assigned constant
    expressions or stuck expressions, an accepted program has no fault according to the specification -/
theorem accepted_imp_faults_nil (fl : Flags) (cls : CharClass) (o : Orders) (stmts : List Stmt) (ho : OrdersOK o)
    (hwf : StmtsWF stmts) (hce : CondsPlain stmts) (hen : EnablesPlain stmts)
    (h : ∃ p, Program.new fl cls o y86FixedFunctions stmts = .ok p) :
    Spec.faults fl cls.isLower cls.isUpper stmts = [] := by
  obtain ⟨c, hF⟩ := (Program_new_ok_iff fl cls o stmts ho hwf).mp h
  have front := hF.front
  have hb := front.basic
  have hraw := front.constantsRaw_eq
  have hrefs : ∀ p ∈ (el stmts).constDefs, ∀ r ∈ refs p.2, r ∈ constNames stmts := by
    intro p hp r hr
    rw [← hraw] at hp
    exact (constantsRaw_contains_iff stmts r).mp (front.constantsReadConstants p hp r hr)
  have hc : resolveConstants fl o (el stmts).constDefs = .ok c := by rw [← hraw]; exact front.constantsResolve
  obtain ⟨hcm, _, hwC, hcycC⟩ := consts_complete fl o ho hb (wf_constDefs hwf) hrefs (plain_consts hce) c hc
  have hm : Mid fl cls o stmts c := ⟨front, hwf, hcm⟩
  obtain ⟨hrefsD, hwD⟩ := banks_complete hm (plain_defaults hce)
  have hrefsCD : ∀ e ∈ (el stmts).constDefs.map (·.2) ++ defaultsOf (goodBanks cls.isLower cls.isUpper stmts),
      ∀ n ∈ refs e, n ∈ constNames stmts := by
    intro e he
    rcases List.mem_append.mp he with h' | h'
    · obtain ⟨p, hp, rfl⟩ := List.mem_map.mp h'
      exact hrefs p hp
    · exact hrefsD e h'
  obtain ⟨h3, h4, h6a, h6b, h6c, h7, hwA, hcycA⟩ :=
    actions_complete hm (plain_assigns hce) (plain_enables hen) hrefsCD hF.neededAssigned hF.actionsOK
  obtain ⟨hbank, h1⟩ := (basic_iff cls stmts).mp hb
  have h2 : f2 stmts = [] := by
    rw [f2_nil_iff, targets_eq]; exact front.targetsNodup
  have h5 : f5 cls.isLower cls.isUpper stmts = [] := by
    rw [f5_nil_iff, hm.goodBanks]
    intro n hn
    refine ⟨fun hx => hm.known_not_target n (Or.inr hx) hn, ?_, fun hx => hm.known_not_target n (Or.inl hx) hn⟩
    rw [builtinOut_eq]
    exact front.targetsNotOutput n (by rw [← targets_eq]; exact hn)
  exact (faults_nil_iff fl cls.isLower cls.isUpper stmts).mpr
    ⟨hbank, h1, h2, h3, h4, h5, h6a, h6b, h6c, h7, hwA, hwC, hwD,
      (loops_nil_iff cls.isLower cls.isUpper stmts).mpr ⟨hcycA, hcycC⟩⟩

/-- **the specification and the model accept the same programs**, for programs whose case-expression conditions are plain
    and whose memory-port enable signals are constant or stuck expressions.  (Without the two side conditions the
    statement is false in both directions: `SpecFaultsTest.lean`.) -/
theorem faults_nil_iff_accepted (fl : Flags) (cls : CharClass) (o : Orders) (stmts : List Stmt) (ho : OrdersOK o)
    (hwf : StmtsWF stmts) (hce : CondsPlain stmts) (hen : EnablesPlain stmts) :
    Spec.faults fl cls.isLower cls.isUpper stmts = [] ↔ ∃ p, Program.new fl cls o y86FixedFunctions stmts = .ok p :=
  ⟨faults_nil_imp_accepted fl cls o stmts ho hwf hce, accepted_imp_faults_nil fl cls o stmts ho hwf hce hen⟩

/-- **the design the specification reads off an accepted program has the program's tables**: for an accepted program
    (with plain conditions) the width table of `Spec.design stmts` is the model's final width table, and its constants
    are the program's constants, value and width -/
theorem accepted_design_tables (fl : Flags) (cls : CharClass) (o : Orders) (stmts : List Stmt) (ho : OrdersOK o)
    (hwf : StmtsWF stmts) (hce : CondsPlain stmts) (p : Program)
    (h : Program.new fl cls o y86FixedFunctions stmts = .ok p) :
    (∀ n, (Spec.design stmts).Γ n =
      (finalWires (step1Of stmts) p.constants (step3Of fl cls (step1Of stmts) p.constants)).toCtx n) ∧
    (∀ n ∈ constNames stmts, ∃ w, (Spec.design stmts).Γ n = some w ∧
      p.constants.toEnv n = some ⟨(Spec.design stmts).consts.get n, w⟩) := by
  have hF := Program_new_faultless fl cls o stmts ho hwf p h
  have front := hF.front
  have hb := front.basic
  have hraw := front.constantsRaw_eq
  have hrefs : ∀ q ∈ (el stmts).constDefs, ∀ r ∈ refs q.2, r ∈ constNames stmts := by
    intro q hq r hr
    rw [← hraw] at hq
    exact (constantsRaw_contains_iff stmts r).mp (front.constantsReadConstants q hq r hr)
  have hc : resolveConstants fl o (el stmts).constDefs = .ok p.constants := by rw [← hraw]; exact front.constantsResolve
  obtain ⟨hcm, _, _, _⟩ := consts_complete fl o ho hb (wf_constDefs hwf) hrefs (plain_consts hce) p.constants hc
  have hm : Mid fl cls o stmts p.constants := ⟨front, hwf, hcm⟩
  refine ⟨fun n => by rw [hm.Γ], ?_⟩
  intro n hn
  obtain ⟨w, hw⟩ := Option.isSome_iff_exists.mp (((cst_inv stmts).has_iff_lookup n).mp (hcm.all n hn))
  refine ⟨w, by rw [hb.Γ_const n hn]; exact hw, ?_⟩
  rw [hcm.get n, design_consts]
  unfold specEnv
  rw [hw]; rfl

/-! ### non-vacuity: the side conditions on concrete programs -/

namespace SF.Example
def lit (k : Nat) : Ex := .const ⟨k, .unlimited⟩
/-- `const A = 4'd1; wire ic:4, x:4; ic = 0; x = [ ic in {A} : 1; ic == A && x in {ic} : 2; 1 : 3 ]; pc = 0; Stat = 0;
    mem_readbit = [ ic == A : 1; 1 : 0 ];` — conditions in the style of real programs -/
def prog : List Stmt :=
  [ .consts [⟨"A", .const ⟨1, .bits 4⟩⟩],
    .wires [⟨"ic", .bits 4⟩, ⟨"x", .bits 4⟩],
    .assigns [⟨["ic"], lit 0⟩, ⟨["pc"], lit 0⟩, ⟨["Stat"], lit 0⟩],
    .assigns [⟨["x"], .mux (.cons (.inSet (.wire "ic") (.cons (.wire "A") .nil)) (lit 1)
                 (.cons (.bin .land (.bin .eq (.wire "ic") (.wire "A")) (.inSet (.wire "x") (.cons (.wire "ic") .nil))) (lit 2)
                 (.cons (lit 1) (lit 3) .nil)))⟩],
    .assigns [⟨["mem_readbit"], .mux (.cons (.bin .eq (.wire "ic") (.wire "A")) (lit 1) (.cons (lit 1) (lit 0) .nil))⟩] ]

example : CondsPlain prog ∧ EnablesPlain prog := by decide +kernel

/-- the program of discrepancy D-C (`wire x:4; x = [ [0 : 1'b0; 1 : 2] : 1 ]; …`) violates the first side condition -/
def progDC : List Stmt :=
  [ .wires [⟨"x", .bits 4⟩],
    .assigns [⟨["pc"], lit 0⟩, ⟨["Stat"], lit 0⟩],
    .assigns [⟨["x"], .mux (.cons (.mux (.cons (lit 0) (.const ⟨0, .bits 1⟩) (.cons (lit 1) (lit 2) .nil))) (lit 1) .nil)⟩] ]

example : ¬ CondsPlain progDC := by decide +kernel
end SF.Example

#print axioms faults_nil_imp_accepted
#print axioms accepted_imp_faults_nil
#print axioms faults_nil_iff_accepted
#print axioms accepted_design_tables
