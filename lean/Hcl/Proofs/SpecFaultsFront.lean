import Hcl.Proofs.SpecFaultsConsts
open Rust Reorder

/-! # The model's tables for a program that passes the first three stages, against the specification's

`Front` collects the first nine fields of `Faultless` (everything before the built-in components and the assignments).
From it: the model's tables are the definition lists, step 3 records nothing, its banks are the declarations', and the
final width table `finalWires` is the specification's `Γ` (`Γ_eq`). -/

namespace SF

/-! ### well-formedness of the collected expressions -/

theorem wf_constDefs {stmts : List Stmt} (hwf : StmtsWF stmts) : ∀ p ∈ (el stmts).constDefs, wfEx p.2 = true := by
  intro p hp
  rw [el_constDefs] at hp
  obtain ⟨st, hst, hm⟩ := List.mem_flatMap.mp hp
  cases st with
  | consts ds =>
    obtain ⟨d, hd, rfl⟩ := List.mem_map.mp hm
    exact hwf _ hst d hd
  | wires _ => cases hm
  | assigns _ => cases hm
  | bank _ => cases hm

theorem wf_assigns {stmts : List Stmt} (hwf : StmtsWF stmts) : ∀ p ∈ (el stmts).assigns, wfEx p.2 = true := by
  intro p hp
  rw [el_assigns] at hp
  obtain ⟨st, hst, hm⟩ := List.mem_flatMap.mp hp
  cases st with
  | assigns as =>
    obtain ⟨a, ha, hm'⟩ := List.mem_flatMap.mp hm
    obtain ⟨n, _, rfl⟩ := List.mem_map.mp hm'
    exact hwf _ hst a ha
  | wires _ => cases hm
  | consts _ => cases hm
  | bank _ => cases hm

theorem mem_banksRaw {stmts : List Stmt} (b : BankDecl) : b ∈ (step1Of stmts).banksRaw ↔ Stmt.bank b ∈ stmts := by
  rw [step1Of_banksRaw, List.mem_filterMap]
  constructor
  · rintro ⟨st, hst, hm⟩
    cases st with
    | bank b' => simp only [Option.some.injEq] at hm; subst hm; exact hst
    | wires _ => cases hm
    | consts _ => cases hm
    | assigns _ => cases hm
  · intro h; exact ⟨_, h, rfl⟩

theorem wf_banks {stmts : List Stmt} (hwf : StmtsWF stmts) :
    ∀ b ∈ (step1Of stmts).banksRaw, ∀ r ∈ b.regs, r.width.ok ∧ wfEx r.default = true := by
  intro b hb r hr
  exact hwf _ ((mem_banksRaw b).mp hb) r hr

/-! ### the first nine fields of `Faultless` -/

structure Front (fl : Flags) (cls : CharClass) (o : Orders) (stmts : List Stmt) (c : AMap WireValue) : Prop where
  declNodup : (allDeclared stmts).Nodup
  declNotBuiltin : ∀ n ∈ allDeclared stmts, n ∉ fixedNamesOf y86FixedFunctions
  targetsNodup : (allTargets stmts).Nodup
  targetsNotOutput : ∀ n ∈ allTargets stmts, n ∉ y86FixedFunctions.filterMap fun f => f.outWire.map (·.1)
  targetsNotConstant : ∀ n ∈ allTargets stmts, (step1Of stmts).constantsRaw.contains n = false
  constantsReadConstants : ∀ p ∈ (step1Of stmts).constantsRaw, ∀ r ∈ refs p.2, (step1Of stmts).constantsRaw.contains r = true
  constantsResolve : resolveConstants fl o (step1Of stmts).constantsRaw = .ok c
  banksOK : ∀ b ∈ (step1Of stmts).banksRaw, BankDeclOK fl cls (step1Of stmts) c b
  registerNamesNodup : (allRegNames (step1Of stmts).banksRaw).Nodup

theorem Faultless.front {fl : Flags} {cls : CharClass} {o : Orders} {stmts : List Stmt} {c : AMap WireValue}
    (h : Faultless fl cls o stmts c) : Front fl cls o stmts c :=
  ⟨h.declNodup, h.declNotBuiltin, h.targetsNodup, h.targetsNotOutput, h.targetsNotConstant, h.constantsReadConstants,
   h.constantsResolve, h.banksOK, h.registerNamesNodup⟩

section
variable {fl : Flags} {cls : CharClass} {o : Orders} {stmts : List Stmt} {c : AMap WireValue}
  (hf : Front fl cls o stmts c)
include hf

theorem Front.assignments_eq : (step1Of stmts).assignments = (el stmts).assigns := by
  rw [step1Of_assignments_eq stmts hf.targetsNodup, el_assigns]

theorem Front.constantsRaw_eq : (step1Of stmts).constantsRaw = (el stmts).constDefs := by
  rw [step1Of_constantsRaw_eq stmts hf.declNodup, el_constDefs]

theorem Front.wires_eq : (step1Of stmts).wires = y86W0 ++ (el stmts).wireWidths := by
  rw [step1Of_wires_eq stmts hf.declNodup hf.declNotBuiltin, el_wireWidths]

theorem Front.twoChar : ∀ b ∈ (el stmts).banks, TwoChar b := by
  intro b hb
  rw [el_banks] at hb
  obtain ⟨i, o, h, _⟩ := (hf.banksOK b hb).ok
  exact ⟨i, o, h⟩

/-- the name-level agreement, from the model's conditions -/
theorem Front.basic : Basic cls stmts where
  good := by
    intro b hb
    rw [el_banks] at hb
    obtain ⟨i, o, h, h1, h2, _⟩ := (hf.banksOK b hb).ok
    exact (goodName_iff _ _ b).mpr ⟨i, o, h, h1, h2⟩
  declNodup := (allDeclared_nodup_iff stmts).mp hf.declNodup
  regNodup := by
    have := hf.registerNamesNodup
    rw [← el_banks] at this
    exact ((allRegNames_perm _ hf.twoChar).nodup_iff).mp this
  declFresh := by
    intro x hx
    have hxd : x ∈ allDeclared stmts := (mem_allDeclared_iff stmts x).mpr (List.mem_append.mp hx)
    have hxs : x ∈ (step1Of stmts).declared := (step1Of_declared_iff stmts x).mpr hxd
    refine ⟨?_, ?_, ?_⟩
    · intro hm
      rcases List.mem_append.mp hm with hm | hm
      · obtain ⟨b, hb, r, hr, rfl⟩ := (mem_bankInOf _ x).mp hm
        rw [el_banks] at hb
        obtain ⟨i, o, hn, _, _, _, _, hregs⟩ := (hf.banksOK b hb).ok
        rw [inNameOf_eq b i o hn] at hxs
        exact (hregs r hr).notDeclared.1 hxs
      · obtain ⟨b, hb, r, hr, rfl⟩ := (mem_bankOutOf _ x).mp hm
        rw [el_banks] at hb
        obtain ⟨i, o, hn, _, _, _, _, hregs⟩ := (hf.banksOK b hb).ok
        rw [outNameOf_eq b i o hn] at hxs
        exact (hregs r hr).notDeclared.2 hxs
    · intro hm
      obtain ⟨b, hb, hx'⟩ := (mem_bankCtlOf _ x).mp hm
      rw [el_banks] at hb
      obtain ⟨i, o, hn, _, _, h1, h2, _⟩ := (hf.banksOK b hb).ok
      rcases hx' with rfl | rfl
      · rw [stallOf_eq b i o hn] at hxs; exact h1 hxs
      · rw [bubbleOf_eq b i o hn] at hxs; exact h2 hxs
    · intro hm
      exact hf.declNotBuiltin x hxd ((mem_builtin_iff x).mp hm)

/-- the model-side facts about the tables (as `Program_new_complete` assembles them) -/
theorem Front.tables (hwf : StmtsWF stmts) :
    TablesHyp (fixedNamesOf y86FixedFunctions) y86W0 (step1Of stmts) c (step3Of fl cls (step1Of stmts) c) ∧
    (step3Of fl cls (step1Of stmts) c).errors = [] := by
  obtain ⟨s1inv, _⟩ := step1_fold_inv (fixedNamesOf y86FixedFunctions)
    (y86FixedFunctions.filterMap fun f => f.outWire.map (·.1)) y86W0 stmts (step1Init y86FixedFunctions) hwf step1Init_inv
  have hs1i : S1Inv (fixedNamesOf y86FixedFunctions) y86W0 (step1Of stmts) := s1inv
  have hs1clean : (step1Of stmts).errors = [] :=
    (step1Of_errors_nil_iff stmts).mpr ⟨hf.declNodup, hf.declNotBuiltin, hf.targetsNodup, hf.targetsNotOutput⟩
  have hw : ∀ b ∈ (step1Of stmts).banksRaw, ∀ r ∈ b.regs, r.width.ok := fun b hb r hr => (hs1i.banks b hb r hr).1
  have hs3clean := (step3Of_errors_nil_iff fl cls (step1Of stmts) c hw).mpr ⟨hf.banksOK, hf.registerNamesNodup⟩
  have hcok := resolveConstants_constOK fl o (step1Of stmts).constantsRaw c hs1i.cWf hf.constantsResolve
  have hckeys := resolveConstants_keys fl o (step1Of stmts).constantsRaw c hf.constantsResolve
  have hs3f : S3Facts (step1Of stmts).declared (fun n => (step1Of stmts).assignments.contains n = false)
      (step3Of fl cls (step1Of stmts) c) {} := step3_facts fl cls (step1Of stmts) c hw hs3clean
  exact ⟨{ s1inv := hs1i, s1clean := hs1clean, cok := hcok, ckeys := hckeys, s3f := hs3f
           fnShape := by
             intro n hn
             have a := List.all_eq_true.mp y86_names_not_sig n hn
             have b := List.all_eq_true.mp y86_names_not_ctl n hn
             exact ⟨by simpa using a, by simpa using b⟩ }, hs3clean⟩

end
end SF

namespace SF

section
variable {fl : Flags} {cls : CharClass} {o : Orders} {stmts : List Stmt} {c : AMap WireValue}
  (hf : Front fl cls o stmts c) (hwf : StmtsWF stmts)
include hf hwf

theorem Front.bankPairs_mem (p : String × Width) :
    p ∈ bankPairs (step3Of fl cls (step1Of stmts) c).banks ↔ p ∈ specBankWidths (el stmts).banks := by
  obtain ⟨hyp, hclean⟩ := hf.tables hwf
  rw [bankPairs_exact fl cls _ c (fun b hb r hr => (hyp.s1inv.banks b hb r hr).1) hclean, mem_specBankWidths_iff_pairs, el_banks]

theorem Front.bankOuts_eq : bankOuts (step3Of fl cls (step1Of stmts) c).banks = bankOutOf (el stmts).banks := by
  obtain ⟨hyp, hclean⟩ := hf.tables hwf
  rw [bankOuts_exact fl cls _ c (fun b hb r hr => (hyp.s1inv.banks b hb r hr).1) hclean, bankOutOf_eq _ hf.twoChar, el_banks]

theorem Front.bankIns_eq : bankIns (step3Of fl cls (step1Of stmts) c).banks = bankInOf (el stmts).banks := by
  obtain ⟨hyp, hclean⟩ := hf.tables hwf
  rw [bankIns_exact fl cls _ c (fun b hb r hr => (hyp.s1inv.banks b hb r hr).1) hclean, bankInOf_eq _ hf.twoChar, el_banks]

/-- every entry the banks contribute is what the final table says -/
theorem Front.pairVal (p : String × Width) (hp : p ∈ bankPairs (step3Of fl cls (step1Of stmts) c).banks) :
    (finalWires (step1Of stmts) c (step3Of fl cls (step1Of stmts) c)).get? p.1 = some p.2 := by
  obtain ⟨hyp, _⟩ := hf.tables hwf
  obtain ⟨b, hb, hcase⟩ := (mem_bankPairs _ _).mp hp
  rcases hcase with ⟨sg, hsg, rfl | rfl⟩ | rfl | rfl
  · exact (finalWires_sig hyp b hb sg hsg).2
  · exact (finalWires_sig hyp b hb sg hsg).1
  · exact (finalWires_ctl hyp b hb).1
  · exact (finalWires_ctl hyp b hb).2

/-- **the width tables coincide** -/
theorem Front.Γ_eq (hm : ConstsMatch stmts c) (n : String) :
    (Spec.design stmts).Γ n = (finalWires (step1Of stmts) c (step3Of fl cls (step1Of stmts) c)).toCtx n := by
  obtain ⟨hyp, hclean⟩ := hf.tables hwf
  have hb := hf.basic
  have hkeysC : ∀ p ∈ constPairs (step1Of stmts).constantsRaw.keys c, p.1 ∈ constNames stmts := by
    intro p hp
    obtain ⟨_, hk, _, _⟩ := (mem_constPairs _ _ _).mp hp
    rw [hf.constantsRaw_eq] at hk
    exact hk
  have hkeysB : ∀ p ∈ bankPairs (step3Of fl cls (step1Of stmts) c).banks,
      p.1 ∈ bankInOf (el stmts).banks ∨ p.1 ∈ bankOutOf (el stmts).banks ∨ p.1 ∈ bankCtlOf (el stmts).banks := by
    intro p hp
    exact (keys_specBankWidths _ hf.twoChar p.1).mp (List.mem_map.mpr ⟨p, (hf.bankPairs_mem hwf p).mp hp, rfl⟩)
  show _ = (finalWires (step1Of stmts) c (step3Of fl cls (step1Of stmts) c)).get? n
  by_cases h1 : n ∈ wireNames stmts
  · have hfresh := hb.declFresh n (List.mem_append_left _ h1)
    rw [hb.Γ_wire n h1]
    unfold finalWires
    rw [get?_insertAll_none, get?_insertAll_none]
    · rw [hf.wires_eq]
      show _ = (y86W0 ++ (el stmts).wireWidths).lookup n
      rw [lookup_append_right]
      show n ∉ AMap.keys y86W0
      unfold y86W0
      rw [y86_wires_keys, ← mem_builtin_iff]
      exact hfresh.2.2
    · intro p hp e
      rcases hkeysB p hp with h | h | h
      · exact hfresh.1 (List.mem_append_left _ (e ▸ h))
      · exact hfresh.1 (List.mem_append_right _ (e ▸ h))
      · exact hfresh.2.1 (e ▸ h)
    · intro p hp e
      exact hb.const_not_wire n (e ▸ hkeysC p hp) h1
  · by_cases h2 : n ∈ bankInOf (el stmts).banks ∨ n ∈ bankOutOf (el stmts).banks ∨ n ∈ bankCtlOf (el stmts).banks
    · rw [hb.Γ_bank n h2]
      obtain ⟨p, hp, hpn⟩ := List.mem_map.mp ((keys_specBankWidths _ hf.twoChar n).mpr h2)
      obtain ⟨a, w0⟩ := p
      simp only at hpn; subst hpn
      have hR := hf.pairVal hwf (a, w0) ((hf.bankPairs_mem hwf _).mpr hp)
      simp only at hR
      rw [hR]
      apply lookup_of_mem_functional _ _ _ hp
      intro w' hw'
      have := hf.pairVal hwf (a, w') ((hf.bankPairs_mem hwf _).mpr hw')
      simp only at this
      rw [hR] at this
      exact (Option.some.inj this).symm
    · by_cases h3 : n ∈ constNames stmts
      · rw [hb.Γ_const n h3]
        have hhas := hm.all n h3
        obtain ⟨w, hw⟩ := Option.isSome_iff_exists.mp (((cst_inv stmts).has_iff_lookup n).mp hhas)
        have hcn : c.get? n = some ⟨(cst stmts).2.get n, w⟩ := by
          show c.toEnv n = _
          rw [hm.get n]; unfold specEnv; rw [hw]; rfl
        rw [hw, finalWires_const hyp n _ hcn]
      · rw [hb.Γ_rest n h1 h2, cst_lookup_none stmts n h3]
        show Spec.builtinWidths.lookup n = _
        by_cases h4 : n ∈ fixedNamesOf y86FixedFunctions
        · rw [finalWires_fixed hyp n h4, builtinWidths_eq]; rfl
        · rw [lookup_none_of_not_key _ n (by rw [builtinWidths_keys]; exact h4)]
          cases hg : (finalWires (step1Of stmts) c (step3Of fl cls (step1Of stmts) c)).get? n with
          | none => rfl
          | some w =>
            exfalso
            unfold finalWires at hg
            rcases get?_insertAll_cases _ _ _ _ hg with g1 | g1
            · rcases get?_insertAll_cases _ _ _ _ g1 with g2 | g2
              · rw [hf.wires_eq] at g2
                have hmem := mem_of_lookup _ n w g2
                rcases List.mem_append.mp hmem with g3 | g3
                · apply h4
                  have : n ∈ AMap.keys y86W0 := List.mem_map.mpr ⟨(n, w), g3, rfl⟩
                  unfold y86W0 at this
                  rw [y86_wires_keys] at this
                  exact this
                · exact h1 (List.mem_map.mpr ⟨(n, w), g3, rfl⟩)
              · exact h2 (hkeysB (n, w) g2)
            · exact h3 (hkeysC (n, w) g1)

end
end SF
