import Hcl.Model.Disasm
import Hcl.Spec.Y86
import Hcl.Spec.Machine

/-!
# C20 — the instruction trace shows the fetched bytes and their Y86-64 disassembly

`Spec.Instr`/`Spec.encode`/`Spec.pretty` are the CS:APP instruction forms, their byte encodings and
assembly text; `disassemble`/`traceLine` model `y86_disasm.rs` and the trace line of program.rs.
-/

open Spec

theorem leValue_le8 (v : Nat) (rest : List Nat) : leValue (le8 v ++ rest) = v % 2 ^ 64 + 2 ^ 64 * leValue rest := by
  simp only [le8, List.range, List.range.loop, List.map, List.cons_append, List.nil_append, leValue]
  simp only [Nat.reducePow, Nat.pow_zero, Nat.div_one]
  omega

theorem nameRegister_eq : ∀ r, r < 16 → nameRegister r = regName r := by decide

theorem nameCc_eq (c : Cond) : nameCc c.code = (if c = .always then "(always)" else c.suffix) := by
  cases c <;> rfl

/-- **C20, disassembly.** For every valid Y86-64 instruction (every opcode, condition/function code,
    register pair and 64-bit immediate) and whatever bytes follow it in memory, the disassembler
    consumes exactly the instruction's length and prints its CS:APP text. -/
theorem C20_disasm (i : Instr) (hv : i.valid) (rest : List Nat) :
    disassemble (leValue (encode i ++ rest)) = ((encode i).length, pretty i) := by
  cases i with
  | halt =>
    have : leValue (encode .halt ++ rest) = 0 + 256 * leValue rest := by simp [encode, leValue]
    rw [this]; unfold disassemble
    have h1 : (0 + 256 * leValue rest) / 16 % 16 = 0 := by omega
    simp only [h1, disasmFields, encode, pretty, List.length_cons, List.length_nil]
  | nop =>
    have : leValue (encode .nop ++ rest) = 16 + 256 * leValue rest := by simp [encode, leValue]
    rw [this]; unfold disassemble
    have h1 : (16 + 256 * leValue rest) / 16 % 16 = 1 := by omega
    simp only [h1, disasmFields, encode, pretty, List.length_cons, List.length_nil]
  | ret =>
    have : leValue (encode .ret ++ rest) = 144 + 256 * leValue rest := by simp [encode, leValue]
    rw [this]; unfold disassemble
    have h1 : (144 + 256 * leValue rest) / 16 % 16 = 9 := by omega
    simp only [h1, disasmFields, encode, pretty, List.length_cons, List.length_nil]
  | cmov c ra rb =>
    obtain ⟨hra, hrb⟩ := hv
    have hc : c.code < 7 := by cases c <;> decide
    have : leValue (encode (.cmov c ra rb) ++ rest) = (32 + c.code) + 256 * ((ra * 16 + rb) + 256 * leValue rest) := by
      simp [encode, leValue]
    rw [this]; unfold disassemble
    generalize leValue rest = R
    have h1 : (32 + c.code + 256 * (ra * 16 + rb + 256 * R)) / 16 % 16 = 2 := by omega
    have h2 : (32 + c.code + 256 * (ra * 16 + rb + 256 * R)) % 16 = c.code := by omega
    have h3 : (32 + c.code + 256 * (ra * 16 + rb + 256 * R)) / 4096 % 16 = ra := by omega
    have h4 : (32 + c.code + 256 * (ra * 16 + rb + 256 * R)) / 256 % 16 = rb := by omega
    simp only [h1, h2, h3, h4, disasmFields, nameRegister_eq ra (by omega), nameRegister_eq rb (by omega), nameCc_eq]
    cases c <;> simp [encode, pretty, Cond.code, Cond.suffix]
  | irmovq v rb =>
    obtain ⟨hv, hrb⟩ := hv
    have : leValue (encode (.irmovq v rb) ++ rest) = 48 + 256 * ((240 + rb) + 256 * (v % 2 ^ 64 + 2 ^ 64 * leValue rest)) := by
      simp only [encode, List.cons_append, List.nil_append, leValue, List.append_assoc, leValue_le8]
    rw [this]; unfold disassemble
    generalize leValue rest = R
    have hvm : v % 2 ^ 64 = v := Nat.mod_eq_of_lt hv
    rw [hvm]
    have h1 : (48 + 256 * (240 + rb + 256 * (v + 2 ^ 64 * R))) / 16 % 16 = 3 := by omega
    have h4 : (48 + 256 * (240 + rb + 256 * (v + 2 ^ 64 * R))) / 256 % 16 = rb := by omega
    have h5 : (48 + 256 * (240 + rb + 256 * (v + 2 ^ 64 * R))) / 65536 % 2 ^ 64 = v := by omega
    simp only [h1, h4, h5, disasmFields, nameRegister_eq rb (by omega)]
    simp [encode, pretty, le8]
  | rmmovq ra d rb =>
    obtain ⟨hra, hd, hrb⟩ := hv
    have : leValue (encode (.rmmovq ra d rb) ++ rest) = 64 + 256 * ((ra * 16 + rb) + 256 * (d % 2 ^ 64 + 2 ^ 64 * leValue rest)) := by
      simp only [encode, List.cons_append, List.nil_append, leValue, List.append_assoc, leValue_le8]
    rw [this]; unfold disassemble
    generalize leValue rest = R
    have hdm : d % 2 ^ 64 = d := Nat.mod_eq_of_lt hd
    rw [hdm]
    have h1 : (64 + 256 * (ra * 16 + rb + 256 * (d + 2 ^ 64 * R))) / 16 % 16 = 4 := by omega
    have h3 : (64 + 256 * (ra * 16 + rb + 256 * (d + 2 ^ 64 * R))) / 4096 % 16 = ra := by omega
    have h4 : (64 + 256 * (ra * 16 + rb + 256 * (d + 2 ^ 64 * R))) / 256 % 16 = rb := by omega
    have h5 : (64 + 256 * (ra * 16 + rb + 256 * (d + 2 ^ 64 * R))) / 65536 % 2 ^ 64 = d := by omega
    simp only [h1, h3, h4, h5, disasmFields, nameRegister_eq ra (by omega), nameRegister_eq rb (by omega)]
    simp [encode, pretty, le8]
  | mrmovq d rb ra =>
    obtain ⟨hra, hd, hrb⟩ := hv
    have : leValue (encode (.mrmovq d rb ra) ++ rest) = 80 + 256 * ((ra * 16 + rb) + 256 * (d % 2 ^ 64 + 2 ^ 64 * leValue rest)) := by
      simp only [encode, List.cons_append, List.nil_append, leValue, List.append_assoc, leValue_le8]
    rw [this]; unfold disassemble
    generalize leValue rest = R
    have hdm : d % 2 ^ 64 = d := Nat.mod_eq_of_lt hd
    rw [hdm]
    have h1 : (80 + 256 * (ra * 16 + rb + 256 * (d + 2 ^ 64 * R))) / 16 % 16 = 5 := by omega
    have h3 : (80 + 256 * (ra * 16 + rb + 256 * (d + 2 ^ 64 * R))) / 4096 % 16 = ra := by omega
    have h4 : (80 + 256 * (ra * 16 + rb + 256 * (d + 2 ^ 64 * R))) / 256 % 16 = rb := by omega
    have h5 : (80 + 256 * (ra * 16 + rb + 256 * (d + 2 ^ 64 * R))) / 65536 % 2 ^ 64 = d := by omega
    simp only [h1, h3, h4, h5, disasmFields, nameRegister_eq ra (by omega), nameRegister_eq rb (by omega)]
    simp [encode, pretty, le8]
  | op o ra rb =>
    obtain ⟨hra, hrb⟩ := hv
    have hc : o.code < 4 := by cases o <;> decide
    have : leValue (encode (.op o ra rb) ++ rest) = (96 + o.code) + 256 * ((ra * 16 + rb) + 256 * leValue rest) := by
      simp [encode, leValue]
    rw [this]; unfold disassemble
    generalize leValue rest = R
    have h1 : (96 + o.code + 256 * (ra * 16 + rb + 256 * R)) / 16 % 16 = 6 := by omega
    have h2 : (96 + o.code + 256 * (ra * 16 + rb + 256 * R)) % 16 = o.code := by omega
    have h3 : (96 + o.code + 256 * (ra * 16 + rb + 256 * R)) / 4096 % 16 = ra := by omega
    have h4 : (96 + o.code + 256 * (ra * 16 + rb + 256 * R)) / 256 % 16 = rb := by omega
    simp only [h1, h2, h3, h4, disasmFields, nameRegister_eq ra (by omega), nameRegister_eq rb (by omega)]
    cases o <;> simp [encode, pretty, AluOp.code, AluOp.name]
  | jmp c dest =>
    have hd : dest < 2 ^ 64 := hv
    have hc : c.code < 7 := by cases c <;> decide
    have : leValue (encode (.jmp c dest) ++ rest) = (112 + c.code) + 256 * (dest % 2 ^ 64 + 2 ^ 64 * leValue rest) := by
      simp only [encode, List.cons_append, List.nil_append, leValue, List.append_assoc, leValue_le8]
    rw [this]; unfold disassemble
    generalize leValue rest = R
    have hdm : dest % 2 ^ 64 = dest := Nat.mod_eq_of_lt hd
    rw [hdm]
    have h1 : (112 + c.code + 256 * (dest + 2 ^ 64 * R)) / 16 % 16 = 7 := by omega
    have h2 : (112 + c.code + 256 * (dest + 2 ^ 64 * R)) % 16 = c.code := by omega
    have h5 : (112 + c.code + 256 * (dest + 2 ^ 64 * R)) / 256 % 2 ^ 64 = dest := by omega
    simp only [h1, h2, h5, disasmFields, nameCc_eq]
    cases c <;> simp [encode, pretty, Cond.code, Cond.suffix, le8]
  | call dest =>
    have hd : dest < 2 ^ 64 := hv
    have : leValue (encode (.call dest) ++ rest) = 128 + 256 * (dest % 2 ^ 64 + 2 ^ 64 * leValue rest) := by
      simp only [encode, List.cons_append, List.nil_append, leValue, List.append_assoc, leValue_le8]
    rw [this]; unfold disassemble
    generalize leValue rest = R
    have hdm : dest % 2 ^ 64 = dest := Nat.mod_eq_of_lt hd
    rw [hdm]
    have h1 : (128 + 256 * (dest + 2 ^ 64 * R)) / 16 % 16 = 8 := by omega
    have h5 : (128 + 256 * (dest + 2 ^ 64 * R)) / 256 % 2 ^ 64 = dest := by omega
    simp only [h1, h5, disasmFields]
    simp [encode, pretty, le8]
  | pushq ra =>
    have hra : ra < 15 := hv
    have : leValue (encode (.pushq ra) ++ rest) = 160 + 256 * ((ra * 16 + 15) + 256 * leValue rest) := by
      simp [encode, leValue]
    rw [this]; unfold disassemble
    generalize leValue rest = R
    have h1 : (160 + 256 * (ra * 16 + 15 + 256 * R)) / 16 % 16 = 10 := by omega
    have h3 : (160 + 256 * (ra * 16 + 15 + 256 * R)) / 4096 % 16 = ra := by omega
    simp only [h1, h3, disasmFields, nameRegister_eq ra (by omega)]
    simp [encode, pretty]
  | popq ra =>
    have hra : ra < 15 := hv
    have : leValue (encode (.popq ra) ++ rest) = 176 + 256 * ((ra * 16 + 15) + 256 * leValue rest) := by
      simp [encode, leValue]
    rw [this]; unfold disassemble
    generalize leValue rest = R
    have h1 : (176 + 256 * (ra * 16 + 15 + 256 * R)) / 16 % 16 = 11 := by omega
    have h3 : (176 + 256 * (ra * 16 + 15 + 256 * R)) / 4096 % 16 = ra := by omega
    simp only [h1, h3, disasmFields, nameRegister_eq ra (by omega)]
    simp [encode, pretty]

/-- **C20, invalid opcodes.** A first byte whose opcode nibble is above 0xB is marked invalid and shown alone. -/
theorem C20_invalid (instr : Nat) (h : (instr / 16) % 16 > 11) : disassemble instr = (1, "<invalid>") := by
  unfold disassemble
  have hlt : (instr / 16) % 16 < 16 := Nat.mod_lt _ (by decide)
  generalize (instr / 16) % 16 = k at h hlt
  have : k = 12 ∨ k = 13 ∨ k = 14 ∨ k = 15 := by omega
  rcases this with rfl | rfl | rfl | rfl <;> rfl

/-! ### the trace line -/

theorem add_byte_lt (x b p : Nat) (hx : x < p) (hb : b < 256) : x + b * p < p * 256 := by
  have : b * p ≤ 255 * p := Nat.mul_le_mul_right _ (by omega)
  omega

theorem rdLE_lt (mem : Nat → Nat) (hb : ∀ a, mem a < 256) (a : Nat) : ∀ n, Spec.rdLE mem a n < 256 ^ n
  | 0 => by simp [Spec.rdLE]
  | n+1 => by
    rw [Nat.pow_succ]
    exact add_byte_lt _ _ _ (rdLE_lt mem hb a n) (hb _)

/-- byte `i` of a little-endian read is the memory byte at `addr + i` (mod 2^64) -/
theorem rdLE_byte (mem : Nat → Nat) (hb : ∀ a, mem a < 256) (a : Nat) : ∀ n i, i < n →
    (Spec.rdLE mem a n / 256 ^ i) % 256 = mem ((a + i) % 2 ^ 64)
  | 0, i, h => by omega
  | n+1, i, h => by
    show ((Spec.rdLE mem a n + mem ((a + n) % 2 ^ 64) * 256 ^ n) / 256 ^ i) % 256 = mem ((a + i) % 2 ^ 64)
    have hx := rdLE_lt mem hb a n
    by_cases hi : i = n
    · subst hi
      rw [Nat.add_mul_div_right _ _ (Nat.pow_pos (by decide)), Nat.div_eq_of_lt hx, Nat.zero_add]
      exact Nat.mod_eq_of_lt (hb _)
    · have hlt : i < n := by omega
      obtain ⟨d, hd⟩ : ∃ d, n = i + (d + 1) := ⟨n - i - 1, by omega⟩
      have hp : (256 : Nat) ^ n = 256 ^ d * 256 * 256 ^ i := by
        rw [hd, Nat.pow_add, Nat.pow_succ, Nat.mul_comm]
      have hpow : mem ((a + n) % 2 ^ 64) * 256 ^ n = (mem ((a + n) % 2 ^ 64) * 256 ^ d * 256) * 256 ^ i := by
        rw [hp, Nat.mul_assoc, Nat.mul_assoc, Nat.mul_assoc]
      rw [hpow, Nat.add_mul_div_right _ _ (Nat.pow_pos (by decide)), Nat.add_mul_mod_self_right]
      exact rdLE_byte mem hb a n i hlt

theorem disassemble_len_le (x : Nat) : (disassemble x).1 ≤ 10 := by
  unfold disassemble
  have hlt : (x / 16) % 16 < 16 := Nat.mod_lt _ (by decide)
  generalize (x / 16) % 16 = k at hlt
  generalize x % 16 = f
  generalize (x / 4096) % 16 = ra
  generalize (x / 256) % 16 = rb
  generalize (x / 65536) % 2 ^ 64 = d
  generalize (x / 256) % 2 ^ 64 = de
  have : k = 0 ∨ k = 1 ∨ k = 2 ∨ k = 3 ∨ k = 4 ∨ k = 5 ∨ k = 6 ∨ k = 7 ∨ k = 8 ∨ k = 9 ∨ k = 10 ∨ k = 11 ∨
      k = 12 ∨ k = 13 ∨ k = 14 ∨ k = 15 := by omega
  rcases this with rfl | rfl | rfl | rfl | rfl | rfl | rfl | rfl | rfl | rfl | rfl | rfl | rfl | rfl | rfl | rfl <;>
    simp [disasmFields]

theorem traceLine_bytes (pc value : Nat) (f : Nat → Nat)
    (h : ∀ i, i < (disassemble value).1 → (value / 256 ^ i) % 256 = f i) :
    traceLine pc value =
      "pc = 0x" ++ toHex pc ++ "; loaded [" ++
        String.join ((List.range (disassemble value).1).map fun i => toHexPad 2 (f i) ++ " ")
        ++ ": " ++ (disassemble value).2 ++ "]" := by
  unfold traceLine
  generalize disassemble value = r at h
  obtain ⟨n, text⟩ := r
  simp only
  have : ((List.range n).map fun i => toHexPad 2 ((value / 256 ^ i) % 256) ++ " ") =
      ((List.range n).map fun i => toHexPad 2 (f i) ++ " ") := by
    apply List.map_congr_left
    intro i hi
    rw [h i (List.mem_range.mp hi)]
  rw [this]

/-- **C20, trace line.** The line shows the current pc, then exactly the instruction's bytes as they
    are in memory at `pc, pc+1, ...` (addresses modulo 2^64), in memory order, then the disassembly. -/
theorem C20_line (mem : Nat → Nat) (hb : ∀ a, mem a < 256) (pc : Nat) :
    traceLine pc (Spec.rdLE mem pc 10) =
      "pc = 0x" ++ toHex pc ++ "; loaded [" ++
        String.join ((List.range (disassemble (Spec.rdLE mem pc 10)).1).map fun i => toHexPad 2 (mem ((pc + i) % 2 ^ 64)) ++ " ")
        ++ ": " ++ (disassemble (Spec.rdLE mem pc 10)).2 ++ "]" :=
  traceLine_bytes pc _ _ (fun i hi =>
    rdLE_byte mem hb pc 10 i (Nat.lt_of_lt_of_le hi (disassemble_len_le _)))
