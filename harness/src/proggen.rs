//! S-PROG: DAG-shaped programs using register banks and every built-in component.
use crate::gen::{self, gen, interesting_value, render, GExpr, Scope, W, WIDTHS};
use crate::rng::Rng;

#[derive(Clone, Debug)]
pub enum Stmt {
    Wire(String, u8),
    Assign(Vec<String>, GExpr),
    Const(String, GExpr),
    Bank(String, Vec<(String, u8, GExpr)>),
    Raw(String),
}

pub fn render_stmt(s: &Stmt) -> String {
    match s {
        Stmt::Wire(n, w) => format!("wire {}:{};", n, w),
        Stmt::Assign(ns, e) => format!("{} = {};", ns.join(" = "), render(e)),
        Stmt::Const(n, e) => format!("const {} = {};", n, render(e)),
        Stmt::Bank(n, regs) => {
            let mut s = format!("register {} {{", n);
            for (r, w, d) in regs { s.push_str(&format!(" {}:{} = {};", r, w, render(d))); }
            s.push_str(" }");
            s
        }
        Stmt::Raw(t) => t.clone(),
    }
}

pub fn render_program(stmts: &[Stmt]) -> String {
    stmts.iter().map(render_stmt).collect::<Vec<_>>().join("\n") + "\n"
}

/// the same program with comments of every kind (odd spellings of block comments included) and blank lines between the
/// statements: the meaning is unchanged
pub fn render_program_decorated(rng: &mut Rng, stmts: &[Stmt]) -> String {
    let extras: [&str; 14] = ["# note", "// note; x = 1;", "/* block */", "/** doc **/", "/**/", "/***/", "/* ** */", "/* a\n   b */", "", "   ",
        "# caf\u{e9}", "/* \u{3b1} * / */", "//", "#"];
    let mut out = String::new();
    for s in stmts {
        if rng.chance(1, 2) { out.push_str(*rng.pick(&extras[..])); out.push('\n'); }
        out.push_str(&render_stmt(s));
        if rng.chance(1, 4) { out.push(' '); out.push_str(*rng.pick(&["# tail", "// tail", "/* tail */", "/** tail **/"][..])); }
        out.push('\n');
    }
    out
}

#[derive(Clone, Copy, PartialEq, Eq, Debug)]
pub enum Profile { Dag, Banks, RegFile, Memory, Status }

pub struct Generated {
    pub stmts: Vec<Stmt>,
    pub mem: Vec<(u64, u8)>,
    pub cycles: u32,
    pub tags: Vec<&'static str>,
    /// wires in dependency order (for loop injection): (name, width)
    pub order: Vec<(String, u8)>,
}

fn small(rng: &mut Rng, w: u8) -> GExpr {
    GExpr::Const(interesting_value(rng, W::Bits(w)), if w > 0 { W::Bits(w) } else { W::Unl }, 3)
}

/// expression of width `w` that varies from cycle to cycle (built from the counter register C_n : 8)
fn varying(rng: &mut Rng, sc: &mut Scope, w: u8, depth: u32) -> GExpr {
    if w == 0 { return gen(rng, sc, W::Bits(0), 1); }
    let base = match rng.below(4) {
        0 => GExpr::Name("C_n".into()),
        1 => GExpr::Bin("*", Box::new(GExpr::Name("C_n".into())), Box::new(GExpr::Const(rng.range(3, 37) as u128, W::Unl, 0))),
        2 => GExpr::Bin("^", Box::new(GExpr::Name("C_n".into())), Box::new(GExpr::Bin(">>", Box::new(GExpr::Name("C_n".into())), Box::new(GExpr::Const(rng.range(1, 3) as u128, W::Unl, 0))))),
        _ => GExpr::Bin("+", Box::new(GExpr::Name("C_n".into())), Box::new(gen(rng, sc, W::Bits(8), depth.min(2)))),
    };
    // base is 8 bits wide
    if w == 8 { base }
    else if w < 8 { let lo = rng.below((8 - w) as u64 + 1) as u8; GExpr::Slice(Box::new(base), lo, lo + w) }
    else {
        // widen: concatenate generated high part
        let hi = gen(rng, sc, W::Bits(w - 8), depth.min(2));
        GExpr::Concat(Box::new(hi), Box::new(base))
    }
}

pub fn program(rng: &mut Rng, profile: Profile) -> Generated {
    let mut stmts: Vec<Stmt> = Vec::new();
    let mut tags: Vec<&'static str> = Vec::new();
    let mut order: Vec<(String, u8)> = Vec::new();
    let mut readable: Vec<(String, W)> = vec![
        ("REG_RSP".into(), W::Bits(4)), ("REG_NONE".into(), W::Bits(4)), ("STAT_AOK".into(), W::Bits(3)),
        ("OPQ".into(), W::Bits(4)), ("true".into(), W::Unl), ("FALSE".into(), W::Unl)];
    // counter bank, always present: drives change over the cycles
    stmts.push(Stmt::Bank("cC".into(), vec![("n".into(), 8, GExpr::Const(rng.below(4) as u128, W::Unl, 0))]));
    stmts.push(Stmt::Assign(vec!["c_n".into()], GExpr::Bin("+", Box::new(GExpr::Name("C_n".into())), Box::new(GExpr::Const(1, W::Unl, 0)))));
    readable.push(("C_n".into(), W::Bits(8)));
    // user constants, possibly depending on each other
    let nconst = rng.below(3);
    for i in 0..nconst {
        let w = if rng.chance(1, 3) { W::Unl } else { W::Bits(*rng.pick(&WIDTHS)) };
        let consts: Vec<(String, W)> = readable.iter().filter(|x| x.0 != "C_n").cloned().collect();
        let mut sc = Scope::new(consts);
        let e = gen(rng, &mut sc, w, 2);
        let name = format!("K{}", i);
        stmts.push(Stmt::Const(name.clone(), e));
        readable.push((name, w));
    }
    // extra banks
    let nbanks = match profile { Profile::Banks => rng.range(1, 3), _ => rng.below(2) };
    let bank_names = ["fD", "dE", "eM", "mW", "xY", "pP", "qZ"];
    let mut chosen: Vec<&str> = bank_names.to_vec();
    rng.shuffle(&mut chosen);
    struct BankInfo { inp: char, out: char, regs: Vec<(String, u8)> }
    let mut banks: Vec<BankInfo> = Vec::new();
    for b in 0..nbanks as usize {
        let name = chosen[b];
        let nregs = rng.range(1, 4);
        let mut regs = Vec::new();
        let mut decl = Vec::new();
        for r in 0..nregs {
            let w = if rng.chance(1, 12) { 0 } else { *rng.pick(&WIDTHS[1..]) };
            // now and then a name so long that the register does not fit on a line of the state dump by itself
            let rname = if rng.chance(1, 12) { format!("r{}_{}", r, "x".repeat(rng.range(40, 75) as usize)) } else { format!("r{}", r) };
            // defaults: a fitting constant, an unsized constant that does NOT fit the register (it must be truncated),
            // a negated constant, or a constant expression of the register's width
            let dflt = match rng.below(5) {
                0 | 1 => GExpr::Const(interesting_value(rng, W::Bits(w)), W::Unl, 1),
                2 => GExpr::Const(interesting_value(rng, W::Unl), W::Unl, rng.below(3) as u8),
                3 => GExpr::Un("-", Box::new(GExpr::Const(rng.range(1, 300) as u128, W::Unl, 0))),
                _ => { let mut sc = Scope::new(vec![]); gen(rng, &mut sc, W::Bits(w), 1) }
            };
            decl.push((rname.clone(), w, dflt));
            regs.push((rname, w));
        }
        stmts.push(Stmt::Bank(name.into(), decl));
        let cs: Vec<char> = name.chars().collect();
        for (r, w) in &regs { readable.push((format!("{}_{}", cs[1], r), W::Bits(*w))); }
        banks.push(BankInfo { inp: cs[0], out: cs[1], regs });
        tags.push("bank");
    }
    // the pool of things still to define, in a random dependency order
    #[derive(Clone)]
    enum Item { Plain(u8), Port(&'static str, u8), BankIn(String, u8), Ctl(String) }
    let mut items: Vec<Item> = Vec::new();
    let nplain = match profile { Profile::Dag => rng.range(4, 22), _ => rng.range(1, 8) };
    for _ in 0..nplain { items.push(Item::Plain(*rng.pick(&WIDTHS))); }
    let use_regfile = profile == Profile::RegFile || rng.chance(1, 3);
    let use_mem = profile == Profile::Memory || rng.chance(1, 3);
    if use_regfile {
        tags.push("regfile");
        items.push(Item::Port("reg_srcA", 4));
        if rng.chance(2, 3) { items.push(Item::Port("reg_srcB", 4)); }
        if rng.chance(4, 5) { items.push(Item::Port("reg_dstE", 4)); items.push(Item::Port("reg_inputE", 64)); }
        if rng.chance(3, 5) { items.push(Item::Port("reg_dstM", 4)); items.push(Item::Port("reg_inputM", 64)); }
    }
    let mut writebit_zero = false;
    if use_mem {
        tags.push("memory");
        items.push(Item::Port("mem_addr", 64));
        items.push(Item::Port("mem_readbit", 1));
        items.push(Item::Port("mem_writebit", 1));
        if rng.chance(4, 5) { items.push(Item::Port("mem_input", 64)); } else { writebit_zero = true; }
    }
    for b in &banks {
        for (r, w) in &b.regs { items.push(Item::BankIn(format!("{}_{}", b.inp, r), *w)); }
        if rng.chance(1, 2) { items.push(Item::Ctl(format!("stall_{}", b.out))); }
        if rng.chance(1, 2) { items.push(Item::Ctl(format!("bubble_{}", b.out))); }
    }
    if rng.chance(1, 3) { items.push(Item::Ctl("stall_C".into())); }
    if rng.chance(1, 4) { items.push(Item::Ctl("bubble_C".into())); }
    items.push(Item::Port("pc", 64));
    items.push(Item::Port("Stat", 3));
    rng.shuffle(&mut items);
    let mut defined: Vec<String> = Vec::new();
    let mut idx = 0;
    let depth = match profile { Profile::Dag => 3, _ => 2 };
    for item in items {
        let mut sc = Scope::new(readable.clone());
        match item {
            Item::Plain(w) => {
                let name = format!("w{}", idx);
                idx += 1;
                let e = if rng.chance(1, 3) { varying(rng, &mut sc, w, depth) } else { gen(rng, &mut sc, W::Bits(w), depth) };
                stmts.push(Stmt::Wire(name.clone(), w));
                // chained assignment now and then
                if rng.chance(1, 10) {
                    let twin = format!("w{}", idx);
                    idx += 1;
                    stmts.push(Stmt::Wire(twin.clone(), w));
                    stmts.push(Stmt::Assign(vec![name.clone(), twin.clone()], e));
                    readable.push((twin.clone(), W::Bits(w)));
                    order.push((twin, w));
                } else {
                    stmts.push(Stmt::Assign(vec![name.clone()], e));
                }
                readable.push((name.clone(), W::Bits(w)));
                order.push((name, w));
            }
            Item::BankIn(name, w) => {
                let e = if rng.chance(1, 2) { varying(rng, &mut sc, w, depth) } else { gen(rng, &mut sc, W::Bits(w), depth) };
                stmts.push(Stmt::Assign(vec![name.clone()], e));
                readable.push((name.clone(), W::Bits(w)));
                order.push((name, w));
            }
            Item::Ctl(name) => {
                // stall/bubble patterns: asserted on some cycles, both together sometimes
                let k = rng.range(0, 7) as u128;
                let e = match rng.below(3) {
                    0 => GExpr::Bin("==", Box::new(GExpr::Slice(Box::new(GExpr::Name("C_n".into())), 0, 3)), Box::new(GExpr::Const(k, W::Unl, 0))),
                    1 => GExpr::Slice(Box::new(GExpr::Name("C_n".into())), (k % 4) as u8, (k % 4) as u8 + 1),
                    _ => gen(rng, &mut sc, W::Bits(1), 2),
                };
                stmts.push(Stmt::Assign(vec![name.clone()], e));
                readable.push((name.clone(), W::Bits(1)));
                order.push((name, 1));
            }
            Item::Port(name, w) => {
                let e = match name {
                    "Stat" => match profile {
                        Profile::Status => {
                            let at = rng.range(0, 6) as u128;
                            let code = rng.below(8) as u128;
                            let before = if rng.chance(1, 3) { 0 } else { 1 };
                            GExpr::Mux(vec![
                                (GExpr::Bin("==", Box::new(GExpr::Name("C_n".into())), Box::new(GExpr::Const(at, W::Unl, 0))), GExpr::Const(code, W::Bits(3), 3)),
                                (GExpr::Const(1, W::Unl, 0), GExpr::Const(before, W::Bits(3), 3))])
                        }
                        _ => if rng.chance(1, 2) { GExpr::Name("STAT_AOK".into()) } else { gen(rng, &mut sc, W::Bits(3), 2) },
                    },
                    "reg_srcA" | "reg_srcB" | "reg_dstE" | "reg_dstM" => {
                        match rng.below(5) {
                            0 => GExpr::Name("REG_NONE".into()),
                            1 => GExpr::Slice(Box::new(GExpr::Name("C_n".into())), 0, 4),
                            2 => GExpr::Bin("&", Box::new(GExpr::Slice(Box::new(GExpr::Name("C_n".into())), 0, 4)), Box::new(GExpr::Const(rng.below(16) as u128, W::Bits(4), 3))),
                            3 => small(rng, 4),
                            _ => varying(rng, &mut sc, 4, 2),
                        }
                    }
                    "mem_addr" | "pc" => {
                        match rng.below(6) {
                            0 => GExpr::Const(rng.below(40) as u128, W::Unl, 1),
                            1 => GExpr::Bin("-", Box::new(GExpr::Const(0, W::Bits(64), 3)), Box::new(GExpr::Concat(Box::new(GExpr::Const(0, W::Bits(56), 3)), Box::new(GExpr::Slice(Box::new(GExpr::Name("C_n".into())), 0, 8))))),
                            2 => GExpr::Concat(Box::new(GExpr::Const(0, W::Bits(56), 3)), Box::new(GExpr::Name("C_n".into()))),
                            3 => GExpr::Bin("*", Box::new(GExpr::Concat(Box::new(GExpr::Const(0, W::Bits(56), 3)), Box::new(GExpr::Name("C_n".into())))), Box::new(GExpr::Const(rng.range(1, 9) as u128, W::Unl, 0))),
                            _ => varying(rng, &mut sc, 64, 2),
                        }
                    }
                    "mem_writebit" if writebit_zero => GExpr::Const(0, W::Unl, 0),
                    // stores of zero, and of small values whose upper bytes are zero: bytes that are written count as used
                    // even when the value stored is what a read of never-used memory would have returned
                    "mem_input" if rng.chance(1, 4) => GExpr::Const(*rng.pick(&[0u128, 0, 1, 0xff00, 0x1_0000_0000][..]), W::Unl, 1),
                    "mem_writebit" if rng.chance(1, 3) => GExpr::Const(1, W::Unl, 0),
                    // a constant enable that is not zero but whose lowest bit is: the one-bit wire is 0, the port is off
                    "mem_writebit" | "mem_readbit" if rng.chance(1, 6) => GExpr::Const(*rng.pick(&[2u128, 4, 6, 0x10][..]), W::Unl, 0),
                    _ => if rng.chance(1, 2) { varying(rng, &mut sc, w, depth) } else { gen(rng, &mut sc, W::Bits(w), depth) },
                };
                stmts.push(Stmt::Assign(vec![name.to_string()], e));
                readable.push((name.to_string(), W::Bits(w)));
                order.push((name.to_string(), w));
                defined.push(name.to_string());
                let has = |n: &str| defined.iter().any(|d| d == n);
                // outputs become readable once all inputs of the component are assigned
                for (out, ow, ins) in [("i10bytes", 80u8, vec!["pc"]), ("mem_output", 64, vec!["mem_addr", "mem_readbit"]),
                                       ("reg_outputA", 64, vec!["reg_srcA"]), ("reg_outputB", 64, vec!["reg_srcB"])] {
                    if ins.iter().all(|i| has(i)) && ins.contains(&name) && !readable.iter().any(|r| r.0 == out) {
                        readable.push((out.to_string(), W::Bits(ow)));
                    }
                }
            }
        }
    }
    // memory image
    let mut mem: Vec<(u64, u8)> = Vec::new();
    let nbytes = rng.below(24);
    for _ in 0..nbytes {
        let a = match rng.below(4) { 0 => rng.below(64), 1 => u64::MAX - rng.below(16), 2 => rng.below(300), _ => rng.next() };
        mem.push((a, rng.below(256) as u8));
    }
    mem.sort(); mem.dedup_by_key(|x| x.0);
    // statement order is irrelevant to the meaning: shuffle
    rng.shuffle(&mut stmts);
    let cycles = rng.range(1, 12) as u32;
    let _ = gen::ARITH;
    Generated { stmts, mem, cycles, tags, order }
}

fn assigned_names(g: &Generated) -> Vec<String> {
    let mut v = Vec::new();
    for s in &g.stmts { if let Stmt::Assign(ns, _) = s { for n in ns { v.push(n.clone()); } } }
    v
}

fn bank_outputs(g: &Generated) -> Vec<String> {
    let mut v = Vec::new();
    for s in &g.stmts { if let Stmt::Bank(n, regs) = s { let o = n.chars().nth(1).unwrap(); for r in regs { v.push(format!("{}_{}", o, r.0)); } } }
    v
}

/// introduce one name fault; returns (fault class, name concerned)
/// names of unusual shapes for wires that are not declared: one to three characters of one to three bytes each, an
/// underscore in second place (the shape of a register signal), near-misses of existing names
pub fn odd_name(rng: &mut Rng) -> String {
    rng.pick(&["\u{e9}", "\u{e9}t", "\u{e9}tat", "\u{e9}_x", "x_\u{e9}", "\u{65e5}\u{672c}\u{8a9e}", "\u{65e5}_\u{672c}", "f_pc9", "F_zz", "ab", "a", "q_",
        "stat", "PC", "Mem_addr", "reg_outputa", "stat_aok", "\u{df}", "\u{df}_", "_\u{e9}", "x\u{e9}", "\u{e9}\u{e9}\u{e9}"]).to_string()
}

pub fn inject_fault(rng: &mut Rng, g: &mut Generated) -> (&'static str, String) {
    let assigned = assigned_names(g);
    let wires: Vec<(String, u8)> = g.stmts.iter().filter_map(|s| if let Stmt::Wire(n, w) = s { Some((n.clone(), *w)) } else { None }).collect();
    let outs = bank_outputs(g);
    let consts: Vec<String> = g.stmts.iter().filter_map(|s| if let Stmt::Const(n, _) = s { Some(n.clone()) } else { None }).collect();
    let at = rng.below(g.stmts.len() as u64 + 1) as usize;
    let one = GExpr::Const(1, W::Unl, 0);
    match rng.below(17) {
        0 | 1 => {
            // drop the assignment of one name
            let victim = rng.pick(&assigned).clone();
            let mut done = false;
            for s in g.stmts.iter_mut() {
                if let Stmt::Assign(ns, _) = s {
                    if !done && ns.contains(&victim) {
                        if ns.len() == 1 { *s = Stmt::Raw(String::new()); } else { ns.retain(|x| *x != victim); }
                        done = true;
                    }
                }
            }
            ("unassigned", victim)
        }
        2 => {
            let victim = rng.pick(&assigned).clone();
            g.stmts.insert(at, Stmt::Assign(vec![victim.clone()], one));
            ("assigned-twice", victim)
        }
        3 => {
            if wires.is_empty() { g.stmts.insert(at, Stmt::Raw("wire pc:64;".into())); return ("redeclared", "pc".into()); }
            let (n, w) = rng.pick(&wires).clone();
            g.stmts.insert(at, Stmt::Wire(n.clone(), if rng.chance(1, 2) { w } else { 8 }));
            ("redeclared", n)
        }
        4 => {
            // declare a wire under a name that already means something else
            let mut pool: Vec<String> = vec!["pc".into(), "Stat".into(), "i10bytes".into(), "mem_addr".into(), "reg_outputA".into(),
                                             "STAT_AOK".into(), "REG_RSP".into(), "true".into(), "C_n".into(), "c_n".into(), "stall_C".into(), "bubble_C".into()];
            pool.extend(outs.iter().cloned());
            pool.extend(consts.iter().cloned());
            let n = rng.pick(&pool).clone();
            g.stmts.insert(at, Stmt::Raw(format!("wire {}:8;", n)));
            ("redeclared-other", n)
        }
        5 => {
            // a constant under a name already taken
            let mut pool: Vec<String> = vec!["pc".into(), "STAT_HLT".into(), "C_n".into(), "c_n".into(), "mem_output".into()];
            pool.extend(wires.iter().map(|x| x.0.clone()));
            let n = rng.pick(&pool).clone();
            g.stmts.insert(at, Stmt::Raw(format!("const {} = 3;", n)));
            ("redeclared-const", n)
        }
        6 => {
            let mut pool: Vec<String> = vec!["i10bytes".into(), "mem_output".into(), "reg_outputA".into(), "reg_outputB".into(), "C_n".into(),
                                             "STAT_AOK".into(), "true".into(), "REG_NONE".into(), "NOP".into()];
            pool.extend(outs.iter().cloned());
            pool.extend(consts.iter().cloned());
            let n = rng.pick(&pool).clone();
            g.stmts.insert(at, Stmt::Assign(vec![n.clone()], one));
            ("assigned-driven", n)
        }
        7 => {
            let n = if rng.chance(1, 2) { format!("undecl{}", rng.below(100)) } else { odd_name(rng) };
            g.stmts.insert(at, Stmt::Raw(format!("wire zz9:8; zz9 = {} + 1;", n)));
            ("read-undeclared", n)
        }
        8 => {
            let n = if rng.chance(1, 2) { format!("ghost{}", rng.below(100)) } else { odd_name(rng) };
            g.stmts.insert(at, Stmt::Assign(vec![n.clone()], one));
            ("assigned-undeclared", n)
        }
        9 => {
            let mut pool: Vec<String> = vec!["C_n".into(), "c_n".into(), "pc".into(), "Stat".into()];
            pool.extend(wires.iter().map(|x| x.0.clone()));
            let n = rng.pick(&pool).clone();
            g.stmts.insert(at, Stmt::Raw(format!("const KW9 = {} + 1;", n)));
            ("const-reads-wire", n)
        }
        10 => {
            let mut pool: Vec<String> = vec!["C_n".into(), "pc".into()];
            pool.extend(wires.iter().map(|x| x.0.clone()));
            let n = rng.pick(&pool).clone();
            g.stmts.insert(at, Stmt::Raw(format!("register zQ {{ k:8 = {}; }} z_k = 1;", n)));
            ("default-reads-wire", n)
        }
        11 => {
            // ASCII and non-ASCII names: one character of two bytes, two characters of four bytes, letters without case,
            // and (valid) pairs lower/upper outside ASCII
            let bad = rng.pick(&["Xy", "abc", "x", "xy", "XY", "x1", "_X", "\u{e9}", "\u{e9}\u{e9}", "\u{c9}\u{c9}", "\u{65e5}\u{672c}",
                "\u{df}x", "\u{e9}1", "\u{e9}E", "x\u{c9}", "\u{c9}", "\u{65e5}"]).to_string();
            g.stmts.insert(at, Stmt::Raw(format!("register {} {{ k:8 = 0; }}", bad)));
            ("bad-bank-name", bad)
        }
        12 => {
            // component given some but not all of its inputs
            let (stmt, n) = match rng.below(4) {
                0 => ("reg_dstE = 3;", "reg_inputE"),
                1 => ("reg_inputM = 7;", "reg_dstM"),
                2 => ("mem_input = 9;", "mem_addr"),
                _ => ("mem_readbit = 1;", "mem_addr"),
            };
            if assigned.iter().any(|a| stmt.starts_with(a.as_str())) { g.stmts.insert(at, Stmt::Raw(String::new())); return ("none", "-".into()); }
            g.stmts.insert(at, Stmt::Raw(stmt.into()));
            ("partial", n.into())
        }
        14 => {
            // two banks with the same input letter declare a register of the same name: its input wire exists twice
            let w2 = *rng.pick(&[4u8, 8, 8, 16]);
            g.stmts.insert(at, Stmt::Raw(format!("register zQ {{ k:8 = 0; }} register zR {{ k:{} = 0; }} z_k = 1;", w2)));
            ("duplicate-bank-input", "z_k".into())
        }
        15 => {
            // two banks with the same output letter: the output wire (and stall_/bubble_) exists twice
            g.stmts.insert(at, Stmt::Raw(String::from("register yQ { k:8 = 0; } register zQ { k:8 = 0; } y_k = 1; z_k = 2;")));
            ("duplicate-bank-output", "Q_k".into())
        }
        16 => {
            // one bank declares a register twice
            g.stmts.insert(at, Stmt::Raw(String::from("register zQ { k:8 = 0; k:8 = 1; } z_k = 1;")));
            ("duplicate-register", "k".into())
        }
        _ => {
            // read an output of a component that has no inputs
            let (out, inp) = *rng.pick(&[("reg_outputB", "reg_srcB"), ("mem_output", "mem_addr"), ("reg_outputA", "reg_srcA")]);
            if assigned.iter().any(|a| a == inp) { g.stmts.insert(at, Stmt::Raw(String::new())); return ("none", "-".into()); }
            g.stmts.insert(at, Stmt::Raw(format!("wire zz8:64; zz8 = {};", out)));
            ("needs-input", inp.into())
        }
    }
}

/// try to close a dependency loop (the result may or may not be cyclic: the specification decides)
pub fn inject_loop(rng: &mut Rng, g: &mut Generated) -> (&'static str, String) {
    let at = rng.below(g.stmts.len() as u64 + 1) as usize;
    let assigned = assigned_names(g);
    match rng.below(10) {
        8 | 9 => {
            // a ring of 3 to 20 wires or constants whose names are in no particular order, declared in any order
            let n = rng.range(3, 20) as usize;
            let consts = rng.chance(1, 3);
            let mut ids: Vec<usize> = (0..n).collect();
            for i in (1..n).rev() { let j = rng.below(i as u64 + 1) as usize; ids.swap(i, j); }
            let name = |k: usize| if consts { format!("RK{:02}", ids[k]) } else { format!("rw{:02}", ids[k]) };
            let mut order: Vec<usize> = (0..n).collect();
            for i in (1..n).rev() { let j = rng.below(i as u64 + 1) as usize; order.swap(i, j); }
            let mut text = String::new();
            for &k in &order {
                if consts { text.push_str(&format!("const {} = {} + 1; ", name(k), name((k + 1) % n))); }
                else { text.push_str(&format!("wire {}:8; {} = {} + 1; ", name(k), name(k), name((k + 1) % n))); }
            }
            g.stmts.insert(at, Stmt::Raw(text));
            (if consts { "const-ring" } else { "wire-ring" }, name(0))
        }
        0 => { g.stmts.insert(at, Stmt::Raw("wire la:8; la = la + 1;".into())); ("self-loop", "la".into()) }
        1 => { g.stmts.insert(at, Stmt::Raw("wire la:8, lb:8; la = lb ^ 1; lb = [la == 0 : 3; 1 : la];".into())); ("two-loop", "la".into()) }
        2 => { g.stmts.insert(at, Stmt::Raw("wire la:8, lb:8, lc:1; la = lb; lb = (lc .. la[0..7]); lc = la in { 1, 2 };".into())); ("three-loop", "la".into()) }
        3 => { g.stmts.insert(at, Stmt::Raw("const LK1 = LK2 + 1, LK2 = LK1;".into())); ("const-loop", "LK1".into()) }
        4 => {
            // through a register bank: not a loop
            g.stmts.insert(at, Stmt::Raw("register zQ { k:8 = 0; } z_k = Q_k + 1;".into())); ("through-bank", "z_k".into())
        }
        5 => {
            // through a built-in component, if its input is assigned here: wrap the existing assignment
            let (inp, out) = *rng.pick(&[("mem_addr", "mem_output"), ("pc", "i10bytes[0..64]"), ("reg_srcA", "reg_outputA[0..4]"), ("mem_readbit", "mem_output[0..1]")]);
            let mut name = String::from("-");
            for s in g.stmts.iter_mut() {
                if let Stmt::Assign(ns, e) = s {
                    if ns.len() == 1 && ns[0] == inp {
                        let old = render(e);
                        *s = Stmt::Raw(format!("{} = ({}) ^ {};", inp, old, out));
                        name = inp.to_string();
                        break;
                    }
                }
            }
            // the loop through the data read port also counts when the port is switched off by a constant
            if inp == "mem_addr" && name != "-" && rng.chance(1, 2) {
                for s in g.stmts.iter_mut() {
                    if let Stmt::Assign(ns, _) = s {
                        if ns.len() == 1 && ns[0] == "mem_readbit" {
                            *s = Stmt::Raw(String::from(*rng.pick(&["mem_readbit = 0;", "mem_readbit = false;", "mem_readbit = 1 - 1;"])));
                            return ("through-disabled-component", name);
                        }
                    }
                }
            }
            ("through-component", name)
        }
        6 => {
            // write side of the register file / memory: not a loop
            if assigned.iter().any(|a| a == "reg_inputE") || !assigned.iter().any(|a| a == "reg_srcA") {
                g.stmts.insert(at, Stmt::Raw(String::new())); return ("none", "-".into());
            }
            g.stmts.insert(at, Stmt::Raw("reg_inputE = reg_outputA + 1; reg_dstE = reg_srcA;".into())); ("through-write-port", "reg_inputE".into())
        }
        _ => {
            // back edge from a late wire to an early one
            if g.order.len() < 2 { g.stmts.insert(at, Stmt::Raw(String::new())); return ("none", "-".into()); }
            let i = rng.below(g.order.len() as u64 - 1) as usize;
            let j = rng.range(i as u64 + 1, g.order.len() as u64 - 1) as usize;
            let early = g.order[i].0.clone();
            let late = g.order[j].0.clone();
            let mut name = String::from("-");
            for s in g.stmts.iter_mut() {
                if let Stmt::Assign(ns, e) = s {
                    if ns.len() == 1 && ns[0] == early {
                        let old = render(e);
                        *s = Stmt::Raw(format!("{} = [ {} == {} : {}; 1 : {} ];", early, late, late, old, old));
                        name = early.clone();
                        break;
                    }
                }
            }
            ("back-edge", name)
        }
    }
}
