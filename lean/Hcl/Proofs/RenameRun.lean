import Hcl.Proofs.RenameVerdict
open Rust

/-! Running a renamed program on a renamed state: every step of the simulator commutes with the renaming
    (both fail, or both succeed with states related by the renaming). -/

def State.rename (π : String → String) (s : State) : State := { s with values := s.values.rn π id }

/-- both fail, or both succeed and the second result is the image of the first -/
def ERel {α β : Type} (f : α → β) (x : E α) (y : E β) : Prop :=
  match x, y with
  | .ok a, .ok b => b = f a
  | .error _, .error _ => True
  | _, _ => False

theorem ERel.bind {α α' β β' : Type} {f : α → α'} {g : β → β'} {x : E α} {y : E α'} {k : α → E β} {k' : α' → E β'}
    (h : ERel f x y) (hk : ∀ a, ERel g (k a) (k' (f a))) : ERel g (x >>= k) (y >>= k') := by
  cases x with
  | error e =>
    cases y with
    | error e' => trivial
    | ok b => exact h.elim
  | ok a =>
    cases y with
    | error e' => exact h.elim
    | ok b =>
      have : b = f a := h
      subst this
      exact hk a

theorem ERel.of_ern {α β : Type} (π : String → String) (f : α → β) (x : E α) : ERel f x (ern π f x) := by
  cases x with
  | error e => trivial
  | ok a => rfl

theorem ERel.same {α : Type} (x : E α) : ERel id x x := by
  cases x with
  | error e => trivial
  | ok a => rfl

theorem ERel.pure {α β : Type} (f : α → β) (a : α) : ERel f (Pure.pure a) (Pure.pure (f a)) := rfl

theorem ERel.ok_of_ok {α β : Type} {f : α → β} {x : E α} {y : E β} (h : ERel f x y) {a : α} (hx : x = .ok a) :
    y = .ok (f a) := by
  subst hx
  cases y with
  | error e => exact h.elim
  | ok b => have : b = f a := h; rw [this]

theorem getOrPanic_rel {π : String → String} (hi : Inj π) (vals : AMap WireValue) (n : String) :
    ERel id (getOrPanic vals n) (getOrPanic (vals.rn π id) (π n)) := by
  unfold getOrPanic
  rw [AMap.rn_get? hi]
  cases vals.get? n with
  | none => trivial
  | some v => rfl

theorem setOrPanic_rel {π : String → String} (hi : Inj π) (vals : AMap WireValue) (n : String) (v : WireValue) :
    ERel (AMap.rn π id) (setOrPanic vals n v) (setOrPanic (vals.rn π id) (π n) v) := by
  unfold setOrPanic
  rw [AMap.rn_contains hi]
  split
  · have := AMap.rn_insert hi (id : WireValue → WireValue) vals n v
    simp only [id] at this
    show _ = _
    exact this.symm
  · trivial

theorem state_insert_rename {π : String → String} (hi : Inj π) (s : State) (n : String) (v : WireValue) :
    ({ s.rename π with values := (s.rename π).values.insert (π n) v } : State) =
      State.rename π { s with values := s.values.insert n v } := by
  have := AMap.rn_insert hi (id : WireValue → WireValue) s.values n v
  simp only [id] at this
  simp only [State.rename, this]

theorem execAction_rel {π : String → String} (hi : Inj π) (fl : Flags) (s : State) (a : Action) :
    ERel (State.rename π) (execAction fl s a) (execAction fl (s.rename π) (a.rename π)) := by
  have hv : (s.rename π).values = s.values.rn π id := rfl
  have hregs : (s.rename π).regs = s.regs := rfl
  have hmem : (s.rename π).mem = s.mem := rfl
  cases a with
  | assign name e w =>
    simp only [Action.rename, execAction]
    rw [hv, ev_rename π fl s.values.toEnv _ (AMap.rn_toEnv hi s.values) e]
    apply ERel.bind (ERel.of_ern π id _); intro v
    apply ERel.bind (ERel.same _); intro r
    rw [← hv, state_insert_rename hi]
    rfl
  | readReg number out =>
    simp only [Action.rename, execAction]
    rw [hv]
    apply ERel.bind (getOrPanic_rel hi _ _); intro n
    rw [← hv, state_insert_rename hi, hregs]
    rfl
  | readMem isRead address out bytes isI =>
    cases isRead with
    | none =>
      simp only [Action.rename, execAction, Option.map_none]
      apply ERel.bind (ERel.same _); intro doRead
      simp only [id]
      split
      · rw [hv]
        apply ERel.bind (getOrPanic_rel hi _ _); intro a
        rw [← hv, state_insert_rename hi, hmem]
        rfl
      · apply ERel.bind (ERel.same _); intro z
        rw [state_insert_rename hi]
        rfl
    | some wire =>
      simp only [Action.rename, execAction, Option.map_some]
      rw [hv]
      apply ERel.bind (getOrPanic_rel hi _ _); intro v
      apply ERel.bind (ERel.same _); intro doRead
      rw [← hv]
      simp only [id]
      split
      · rw [hv]
        apply ERel.bind (getOrPanic_rel hi _ _); intro a
        rw [← hv, state_insert_rename hi, hmem]
        rfl
      · apply ERel.bind (ERel.same _); intro z
        rw [state_insert_rename hi]
        rfl
  | writeReg number inp =>
    simp only [Action.rename, execAction]
    rw [hv]
    apply ERel.bind (getOrPanic_rel hi _ _); intro n
    simp only [id, hregs]
    split
    · apply ERel.bind (getOrPanic_rel hi _ _); intro i
      rfl
    · rfl
  | writeMem isWrite address inp bytes =>
    cases isWrite with
    | none =>
      simp only [Action.rename, execAction, Option.map_none]
      apply ERel.bind (ERel.same _); intro doWrite
      simp only [id]
      split
      · rw [hv]
        apply ERel.bind (getOrPanic_rel hi _ _); intro a
        apply ERel.bind (getOrPanic_rel hi _ _); intro i
        rfl
      · rfl
    | some wire =>
      simp only [Action.rename, execAction, Option.map_some]
      rw [hv]
      apply ERel.bind (getOrPanic_rel hi _ _); intro v
      apply ERel.bind (ERel.same _); intro doWrite
      rw [← hv]
      simp only [id]
      split
      · rw [hv]
        apply ERel.bind (getOrPanic_rel hi _ _); intro a
        apply ERel.bind (getOrPanic_rel hi _ _); intro i
        rfl
      · rfl
  | setStatus inWire =>
    simp only [Action.rename, execAction]
    rw [hv]
    apply ERel.bind (getOrPanic_rel hi _ _); intro v
    rfl

theorem execActions_rel {π : String → String} (hi : Inj π) (fl : Flags) :
    ∀ (acts : List Action) (s : State),
    ERel (State.rename π) (execActions fl acts s) (execActions fl (acts.map (Action.rename π)) (s.rename π))
  | [], s => rfl
  | a :: rest, s => by
    simp only [List.map_cons, execActions]
    apply ERel.bind (execAction_rel hi fl s a); intro s'
    exact execActions_rel hi fl rest s'

/-! ### the register banks -/

theorem foldlM_erel {π : String → String} {β β' : Type} (f : AMap WireValue → β → E (AMap WireValue))
    (f' : AMap WireValue → β' → E (AMap WireValue)) (g : β → β')
    (hf : ∀ v b, ERel (AMap.rn π id) (f v b) (f' (v.rn π id) (g b))) :
    ∀ (l : List β) (v : AMap WireValue), ERel (AMap.rn π id) (l.foldlM f v) ((l.map g).foldlM f' (v.rn π id))
  | [], _ => rfl
  | b :: rest, v => by
    simp only [List.map_cons, List.foldlM_cons]
    apply ERel.bind (hf v b); intro v'
    exact foldlM_erel f f' g hf rest v'

theorem loadOne_rel {π : String → String} (hi : Inj π) (vals : AMap WireValue) (sig : String × String × Width) :
    ERel (AMap.rn π id) (loadOne vals sig) (loadOne (vals.rn π id) (π sig.1, π sig.2.1, sig.2.2)) := by
  unfold loadOne
  apply ERel.bind (getOrPanic_rel hi _ _); intro nv
  exact setOrPanic_rel hi _ _ _

theorem processBank_rel {π : String → String} (hi : Inj π) (vals : AMap WireValue) (bank : RegisterBank) :
    ERel (AMap.rn π id) (processBank vals bank) (processBank (vals.rn π id) (bank.rename π)) := by
  unfold processBank
  have h1 : (bank.rename π).stall = π bank.stall := rfl
  have h2 : (bank.rename π).bubble = π bank.bubble := rfl
  have h3 : (bank.rename π).defaults = bank.defaults.map fun p => (π p.1, id p.2) := rfl
  have h4 : (bank.rename π).signals = bank.signals.map fun sg => (π sg.1, π sg.2.1, sg.2.2) := rfl
  rw [h1, h2, h3, h4]
  apply ERel.bind (getOrPanic_rel hi _ _); intro st
  apply ERel.bind (getOrPanic_rel hi _ _); intro bu
  simp only [id]
  split
  · apply foldlM_erel
    intro v p
    exact setOrPanic_rel hi _ _ _
  · split
    · apply foldlM_erel
      intro v sg
      exact loadOne_rel hi v sg
    · rfl

theorem processBanks_rel {π : String → String} (hi : Inj π) (banks : List RegisterBank) (vals : AMap WireValue) :
    ERel (AMap.rn π id) (processBanks banks vals) (processBanks (banks.map (RegisterBank.rename π)) (vals.rn π id)) := by
  unfold processBanks
  apply foldlM_erel
  intro v b
  exact processBank_rel hi v b

theorem stepCycle_rel {π : String → String} (hi : Inj π) (fl : Flags) (p : Program) (s : State) :
    ERel (State.rename π) (stepCycle fl p s) (stepCycle fl (p.rename π) (s.rename π)) := by
  unfold stepCycle
  have h1 : (p.rename π).actions = p.actions.map (Action.rename π) := rfl
  have h2 : (p.rename π).banks = p.banks.map (RegisterBank.rename π) := rfl
  rw [h1, h2]
  apply ERel.bind (execActions_rel hi fl _ _); intro s'
  have hv : (s'.rename π).values = s'.values.rn π id := rfl
  rw [hv]
  apply ERel.bind (processBanks_rel hi _ _); intro vals
  rfl

theorem statusOr_rename {π : String → String} (hi : Inj π) (hstat : π "Stat" = "Stat") (s : State) (d : Nat) :
    statusOr (s.rename π) d = statusOr s d := by
  unfold statusOr
  have : (s.rename π).values.get? "Stat" = s.values.get? "Stat" := by
    have := AMap.rn_get? hi (id : WireValue → WireValue) s.values "Stat"
    rw [hstat] at this
    rw [show (s.rename π).values = s.values.rn π id from rfl, this]
    cases s.values.get? "Stat" <;> rfl
  rw [this]

theorem isDone_rename {π : String → String} (hi : Inj π) (hstat : π "Stat" = "Stat") (s : State) (timeout : Nat) :
    isDone (s.rename π) timeout = isDone s timeout := by
  unfold isDone
  rw [statusOr_rename hi hstat]
  rfl

/-- a whole run of the renamed program from the renamed state: it takes the same course -/
theorem runLoop_rename {π : String → String} (hi : Inj π) (hstat : π "Stat" = "Stat") (fl : Flags) (p : Program) (timeout : Nat) :
    ∀ (fuel : Nat) (s t : State), runLoop fl p timeout fuel s = some (.ok t) →
      runLoop fl (p.rename π) timeout fuel (s.rename π) = some (.ok (t.rename π))
  | 0, _, _, h => by simp [runLoop] at h
  | fuel + 1, s, t, h => by
    unfold runLoop at h ⊢
    rw [isDone_rename hi hstat]
    by_cases hd : isDone s timeout = true
    · simp only [hd, if_true, Option.some.injEq, pure, Except.pure, Except.ok.injEq] at h ⊢
      rw [h]
    · simp only [hd, Bool.false_eq_true, if_false] at h ⊢
      cases hs : stepCycle fl p s with
      | error e => rw [hs] at h; simp [throw, throwThe, MonadExceptOf.throw] at h
      | ok s' =>
        rw [hs] at h
        rw [(stepCycle_rel hi fl p s).ok_of_ok hs]
        exact runLoop_rename hi hstat fl p timeout fuel s' t h

/-! ### the initial state -/

theorem initialValues_rel {π : String → String} (hi : Inj π) (p : Program) :
    ERel (AMap.rn π id) p.initialValues (p.rename π).initialValues := by
  unfold Program.initialValues
  have h1 : (p.rename π).constants = p.constants.rn π id := rfl
  have h2 : (p.rename π).banks = p.banks.map (RegisterBank.rename π) := rfl
  rw [h1, h2]
  apply foldlM_erel
  intro v bank
  have h3 : (bank.rename π).signals = bank.signals.map fun sg => (π sg.1, π sg.2.1, sg.2.2) := rfl
  have h4 : (bank.rename π).stall = π bank.stall := rfl
  have h5 : (bank.rename π).bubble = π bank.bubble := rfl
  have h6 : (bank.rename π).defaults = bank.defaults.rn π id := rfl
  rw [h3, h4, h5, h6]
  refine ERel.bind (f := AMap.rn π id) ?_ ?_
  · apply foldlM_erel
    intro v sg
    simp only [AMap.rn_get? hi]
    cases bank.defaults.get? sg.2.1 with
    | none => trivial
    | some d =>
      simp only [Option.map_some, id]
      have e1 := AMap.rn_insert hi (id : WireValue → WireValue) v sg.1 d
      have e2 := AMap.rn_insert hi (id : WireValue → WireValue) (v.insert sg.1 d) sg.2.1 d
      simp only [id] at e1 e2
      show _ = _
      rw [e2, e1]
  · intro v'
    have e1 := AMap.rn_insert hi (id : WireValue → WireValue) v' bank.bubble ⟨0, .bits 1⟩
    have e2 := AMap.rn_insert hi (id : WireValue → WireValue) (v'.insert bank.bubble ⟨0, .bits 1⟩) bank.stall ⟨0, .bits 1⟩
    simp only [id] at e1 e2
    show _ = _
    rw [e2, e1]

theorem init_rel {π : String → String} (hi : Inj π) (p : Program) (mem : Mem) :
    ERel (State.rename π) (State.init p mem) (State.init (p.rename π) mem) := by
  unfold State.init
  apply ERel.bind (initialValues_rel hi p); intro vals
  rfl
