import Hcl.Generated

/-! Tie between the tables extracted from /repo on this run (`Hcl/Generated.lean`) and the values the
    hand-written model was validated against.  A change of the source shows up as a failing `rfl` here. -/

namespace Tie.Disasm

theorem disasmRegisters : Generated.disasmRegisters = (["%rax", "%rcx", "%rdx", "%rbx", "%rsp", "%rbp", "%rsi", "%rdi", "%r8", "%r9", "%r10", "%r11", "%r12", "%r13", "%r14", "NONE"] : List String) := by rfl

theorem disasmIfuns : Generated.disasmIfuns = (["(always)", "le", "l", "e", "ne", "ge", "g"] : List String) := by rfl

theorem disasmText : Generated.disasmText = ("let icode: u8 = ((instruction >> 4) & 0xF) as u8; let ifun: u8 = (instruction & 0xF) as u8; let ra: u8 = ((instruction >> 12) & 0xF) as u8; let rb: u8 = ((instruction >> 8) & 0xF) as u8; let disp: u64 = (instruction >> 16) as u64; let dest: u64 = (instruction >> 8) as u64; let used_bytes = match icode { 0 => { write!(w, \"halt\")?; 1 }, 1 => { write!(w, \"nop\")?; 1 }, 2 => { match ifun { 0 => write!(w, \"rrmovq {}, {}\", name_register(ra), name_register(rb))?, _ => write!(w, \"cmov{} {}, {}\", name_cc(ifun), name_register(ra), name_register(rb))?, }; 2 }, 3 => { write!(w, \"irmovq $0x{:x}, {}\", disp, name_register(rb))?; 10 }, 4 => { write!(w, \"rmmovq {}, 0x{:x}({})\", name_register(ra), disp, name_register(rb))?; 10 }, 5 => { write!(w, \"mrmovq 0x{:x}({}), {}\", disp, name_register(rb), name_register(ra))?; 10 }, 6 => { let mnemonic = match ifun { 0 => \"addq\", 1 => \"subq\", 2 => \"andq\", 3 => \"xorq\", _ => \"<unknown OPq>\", }; write!(w, \"{} {}, {}\", mnemonic, name_register(ra), name_register(rb))?; 2 }, 7 => { match ifun { 0 => write!(w, \"jmp 0x{:x}\", dest)?, _ => write!(w, \"j{} 0x{:x}\", name_cc(ifun), dest)?, }; 9 }, 8 => { write!(w, \"call 0x{:x}\", dest)?; 9 }, 9 => { write!(w, \"ret\")?; 1 }, 10 => { write!(w, \"pushq {}\", name_register(ra))?; 2 }, 11 => { write!(w, \"popq {}\", name_register(ra))?; 2 }, _ => { write!(w, \"<invalid>\")?; 1 } }; return Ok(used_bytes);" : String) := by rfl

end Tie.Disasm
