import Hcl.Proofs.Region

/-! `show_region` never panics: for every preamble and user text that are valid UTF-8 and every pair of
    offsets whatsoever, every subtraction, index and slice in it is in range. -/

namespace Io

theorem markFrom_prev (off : Nat) (A : Bytes) (i idx : Nat) :
    ∀ p ∈ markFrom off A i idx, ∃ j, p.1 = off + i + j + 1 ∧ A[j]? = some 10 := by
  induction A generalizing i idx with
  | nil => simp [markFrom]
  | cons b A ih =>
    intro p hp
    simp only [markFrom] at hp
    by_cases hb : b = 10
    · simp only [hb, if_true, List.mem_cons] at hp
      rcases hp with rfl | hp
      · exact ⟨0, by simp, by simp [hb]⟩
      · obtain ⟨j, h1, h2⟩ := ih _ _ p hp
        exact ⟨j + 1, by omega, by simpa using h2⟩
    · simp only [hb, if_false] at hp
      obtain ⟨j, h1, h2⟩ := ih _ _ p hp
      exact ⟨j + 1, by omega, by simpa using h2⟩

theorem isBoundary_append_left (P U : Bytes) (k : Nat) : Yo.isBoundary (P ++ U) (P.length + k) = Yo.isBoundary U k := by
  unfold Yo.isBoundary
  rw [List.getElem?_append_right (by omega)]
  have : P.length + k - P.length = k := by omega
  rw [this]
  simp only [List.length_append]
  by_cases h : k = U.length
  · simp [h]
  · have h1 : (P.length + k == P.length + U.length) = false := by
      apply beq_false_of_ne; omega
    have h2 : (k == U.length) = false := beq_false_of_ne h
    rw [h1, h2]

/-- every key of the table is a character boundary of the data, at most its length -/
theorem table_keys_ok (P U name : Bytes) (hP : Yo.validUtf8 P = true) (hU : Yo.validUtf8 U = true) :
    ∀ p ∈ (newFromData P U name).newlines, p.1 ≤ (P ++ U).length ∧ Yo.isBoundary (P ++ U) p.1 = true := by
  have hvalid := Yo.validUtf8_append _ P U (Nat.le_refl _) hP hU
  intro p hp
  have hlen : (P ++ U).length = P.length + U.length := by simp
  simp only [newFromData, List.mem_append, markNewlines, List.mem_cons] at hp
  rcases hp with (rfl | hp) | (rfl | hp)
  · exact ⟨by simp, Yo.validUtf8_boundary _ hvalid 0 (by simp) (Or.inl rfl)⟩
  · obtain ⟨j, h1, h2⟩ := markFrom_prev 0 P 0 1 p hp
    have hk := (markFrom_keys 0 P 0 1 p hp).2
    refine ⟨by omega, Yo.validUtf8_boundary _ hvalid _ (by omega) (Or.inr ⟨10, ?_, by omega⟩)⟩
    have : p.1 - 1 = j := by omega
    rw [this, List.getElem?_append_left]
    · exact h2
    · have : j < P.length := by
        rcases Nat.lt_or_ge j P.length with h | h
        · exact h
        · rw [List.getElem?_eq_none h] at h2; simp at h2
      exact this
  · refine ⟨by simp, ?_⟩
    have := isBoundary_append_left P U 0
    simp only [Nat.add_zero] at this
    rw [this]
    exact (Yo.validUtf8_good _ U (Nat.le_refl _) hU).1
  · obtain ⟨j, h1, h2⟩ := markFrom_prev P.length U 0 1 p hp
    have hk := (markFrom_keys P.length U 0 1 p hp).2
    refine ⟨by omega, Yo.validUtf8_boundary _ hvalid _ (by omega) (Or.inr ⟨10, ?_, by omega⟩)⟩
    have : p.1 - 1 = P.length + j := by omega
    rw [this, List.getElem?_append_right (by omega)]
    have : P.length + j - P.length = j := by omega
    rw [this]; exact h2

theorem table_sorted (P U name : Bytes) : Sorted ((newFromData P U name).newlines.map (·.1)) := by
  apply sorted_of_pairwise
  simp only [newFromData]
  rw [List.map_append, List.pairwise_append]
  refine ⟨markNewlines_sorted _ _, markNewlines_sorted _ _, ?_⟩
  intro a ha b hb
  obtain ⟨p, hp, rfl⟩ := List.mem_map.mp ha
  obtain ⟨q, hq, rfl⟩ := List.mem_map.mp hb
  have := markNewlines_keys 0 P p hp
  have := markNewlines_keys P.length U q hq
  omega

/-- **`line_number_and_bounds` is total** on positions up to the end of the data, and its bounds enclose the
    position and are character boundaries -/
theorem lineNumberAndBounds_total (P U name : Bytes) (hP : Yo.validUtf8 P = true) (hU : Yo.validUtf8 U = true)
    (t : Nat) (ht : t ≤ (P ++ U).length) :
    ∃ n b nx, lineNumberAndBounds (newFromData P U name) t = .ok (n, b, nx) ∧ b ≤ t ∧ t ≤ nx ∧ nx ≤ (P ++ U).length ∧
      Yo.isBoundary (P ++ U) b = true ∧ Yo.isBoundary (P ++ U) nx = true := by
  have hkeys := table_keys_ok P U name hP hU
  have hsorted := table_sorted P U name
  generalize hT : (newFromData P U name).newlines = T at hkeys hsorted
  have hTne : T ≠ [] := by rw [← hT]; simp [newFromData, markNewlines]
  have hfirst : (T.map (·.1)).getD 0 0 ≤ t := by
    rw [← hT]; simp [newFromData, markNewlines]
  have hne : T.map (·.1) ≠ [] := by simpa using hTne
  obtain ⟨i, hlook, hi, hki, hhi⟩ := lookupIndex_spec _ t hsorted hne hfirst
  have hi' : i < T.length := by simpa using hi
  have hTpos : 1 ≤ T.length := by omega
  have hcur : T[i]? = some T[i] := List.getElem?_eq_getElem hi'
  have hkey : T[i].1 ≤ t := by
    simpa [List.getD_eq_getElem?_getD, List.getElem?_map, hcur] using hki
  have hdata : (newFromData P U name).data = P ++ U := rfl
  unfold lineNumberAndBounds
  rw [hT, hlook]
  simp only [bind, Except.bind, pure, Except.pure, Rust.uSub, hTpos, if_true, hdata]
  by_cases hlast : i = T.length - 1
  · simp only [hlast, if_true]
    have hcur' : T[T.length - 1]? = some T[i] := by rw [← hlast]; exact hcur
    rw [hcur']
    exact ⟨_, _, _, rfl, hkey, ht, Nat.le_refl _, (hkeys _ (List.getElem_mem hi')).2, Yo.isBoundary_length _⟩
  · have hi1 : i + 1 < T.length := by omega
    have hnext : T[i + 1]? = some T[i + 1] := List.getElem?_eq_getElem hi1
    simp only [hlast, if_false, hnext, hcur]
    have hgt : t < T[i + 1].1 := by
      have := hhi (i + 1) (by omega) (by simpa using hi1)
      simpa [List.getD_eq_getElem?_getD, List.getElem?_map, hnext] using this
    have hk1 := hkeys _ (List.getElem_mem hi1)
    exact ⟨_, _, _, rfl, hkey, by omega, hk1.1, (hkeys _ (List.getElem_mem hi')).2, hk1.2⟩

theorem filename_total (P U name : Bytes) (t : Nat) : ∃ r, filename (newFromData P U name) t = .ok r := by
  by_cases h : P.length ≤ t
  · exact ⟨_, filename_user P U name t h⟩
  · by_cases h0 : t = 0
    · subst h0
      have hgt : P.length > 0 := by omega
      exact ⟨builtinName, by
        simp [filename, newFromData, lookupIndex, binarySearch, bsLoop, hgt, bind, Except.bind, pure, Except.pure]⟩
    · have hgt : P.length > t := by omega
      have hlt : 0 < t := by omega
      have hne0 : ¬ 0 = t := by omega
      exact ⟨builtinName, by
        simp [filename, newFromData, lookupIndex, binarySearch, bsLoop, hgt, hne0, hlt, Rust.uSub, bind, Except.bind, pure, Except.pure]⟩

/-- **`show_region` never panics**, whatever the two offsets are -/
theorem showRegion_total (P U name : Bytes) (hP : Yo.validUtf8 P = true) (hU : Yo.validUtf8 U = true)
    (start end_ : Nat) : ∃ r, showRegion (newFromData P U name) start end_ = .ok r := by
  have hdata : (newFromData P U name).data = P ++ U := rfl
  unfold showRegion
  simp only [hdata]
  generalize he : min end_ (P ++ U).length = e
  generalize hs : min start e = s
  have hele : e ≤ (P ++ U).length := by omega
  have hsle : s ≤ e := by omega
  obtain ⟨nm, hnm⟩ := filename_total P U name s
  obtain ⟨n1, b1, x1, h1, hb1, _, _, hbd1, _⟩ := lineNumberAndBounds_total P U name hP hU s (by omega)
  obtain ⟨n2, b2, x2, h2, hb2, hx2, hx2l, _, hbd2⟩ := lineNumberAndBounds_total P U name hP hU e hele
  simp only [hnm, h1, h2, bind, Except.bind, pure, Except.pure, Rust.uSub]
  have hm : min x2 (P ++ U).length = x2 := by omega
  simp only [hm, hb1, hb2, if_true]
  have hidx : Yo.index (P ++ U) b1 x2 = .ok (((P ++ U).drop b1).take (x2 - b1)) := by
    unfold Yo.index Yo.get
    have g1 : b1 ≤ x2 := by omega
    simp only [g1, hx2l, hbd1, hbd2, decide_true, Bool.and_self, if_true]
    rfl
  simp only [hidx]
  exact ⟨_, rfl⟩

end Io
