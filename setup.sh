#!/bin/sh
# Build the framework from files on disk only (offline).
set -e
cd "$(dirname "$0")"
export CARGO_NET_OFFLINE=true
mkdir -p build evidence replays
python3 tools/extract.py
(cd lean && lake build Hcl driver)
[ -f harness/Cargo.lock ] || cp /repo/Cargo.lock harness/Cargo.lock
(cd harness && CARGO_TARGET_DIR=/verif/build/harness-target cargo build --offline)
echo setup done
