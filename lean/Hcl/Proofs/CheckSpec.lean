import Hcl.Proofs.Scan
open Rust

/-! The checker decides exactly the documented width rules: `check` succeeds with width `w` iff
    `Spec.typeOf` yields `w` (all five strictness flags, every expression). -/

theorem typeOfOpts_length (fl : Flags) (Γ : String → Option Width) (isTrue : Ex → Bool) :
    ∀ (opts : Opts) (ws : List Width), Spec.typeOfOpts fl Γ isTrue opts = some ws → ws.length = (Spec.condTruth isTrue opts).length
  | .nil, ws, h => by simp [Spec.typeOfOpts] at h; subst h; rfl
  | .cons c v rest, ws, h => by
    simp only [Spec.typeOfOpts, bind, Option.bind] at h
    cases hc : Spec.typeOf fl Γ isTrue c with
    | none => simp [hc] at h
    | some cw =>
      cases hv : Spec.typeOf fl Γ isTrue v with
      | none => simp [hc, hv] at h
      | some vw =>
        cases hr : Spec.typeOfOpts fl Γ isTrue rest with
        | none => simp [hc, hv, hr] at h
        | some rs =>
          simp [hc, hv, hr] at h; subst h
          simp [Spec.condTruth, typeOfOpts_length fl Γ isTrue rest rs hr]

def mismatch : Diag := ⟨.MismatchedExprWidths, []⟩

mutual
/-- **C08, expressions.** -/
theorem check_eq_typeOf (fl : Flags) (Γ : Ctx) (κ : Env) :
    ∀ e : Ex, okOf (check fl Γ κ e) = Spec.typeOf fl Γ (alwaysTrue fl κ) e
  | .const v => by simp [check, Spec.typeOf, okOf_pure]
  | .wire n => by
      simp only [check, Spec.typeOf]
      cases Γ n <;> rfl
  | .bin op l r => by
      have hl := check_eq_typeOf fl Γ κ l
      have hr := check_eq_typeOf fl Γ κ r
      have hclass : Spec.classOf op = (match op.kind with
          | .boolCombine => .logic | .boolFromEq => .compare | .equalWidth => .bitwise | .equalWidthWeak => .arith) := by
        cases op <;> rfl
      simp only [Spec.typeOf, ← hl, ← hr, hclass]
      rw [check]
      cases hk : op.kind <;> simp only
      · -- boolCombine
        cases hcl : check fl Γ κ l with
        | error _ => cases fl.strictBoolean <;> simp [okOf, bind, Except.bind, Option.bind]
        | ok a =>
          cases hcr : check fl Γ κ r with
          | error _ =>
            cases hsb : fl.strictBoolean <;> simp [okOf, bind, Except.bind, Option.bind, possiblyBoolean_eq]
            cases Spec.isBool a <;> simp [okOf, throw, throwThe, MonadExceptOf.throw]
          | ok b =>
            cases hsb : fl.strictBoolean <;>
              simp [okOf, bind, Except.bind, Option.bind, possiblyBoolean_eq, pure, Except.pure]
            cases Spec.isBool a <;> cases Spec.isBool b <;> simp [okOf, throw, throwThe, MonadExceptOf.throw, pure, Except.pure]
      · -- boolFromEq
        cases hcl : check fl Γ κ l with
        | error _ => simp [okOf, bind, Except.bind, Option.bind]
        | ok a =>
          cases hcr : check fl Γ κ r with
          | error _ => simp [okOf, bind, Except.bind, Option.bind]
          | ok b =>
            simp only [okOf, bind, Except.bind, Option.bind, combine_spec]
            cases Spec.compatible a b <;> simp [okOf, throw, throwThe, MonadExceptOf.throw, pure, Except.pure]
      · -- equalWidth
        cases hcl : check fl Γ κ l with
        | error _ => simp [okOf, bind, Except.bind, Option.bind]
        | ok a =>
          cases hcr : check fl Γ κ r with
          | error _ => simp [okOf, bind, Except.bind, Option.bind]
          | ok b =>
            simp only [okOf, bind, Except.bind, Option.bind, combine_spec]
            cases Spec.compatible a b <;> simp [okOf, throw, throwThe, MonadExceptOf.throw, pure, Except.pure]
      · -- equalWidthWeak
        cases hcl : check fl Γ κ l with
        | error _ => cases fl.strictBinary <;> simp [okOf, bind, Except.bind, Option.bind]
        | ok a =>
          cases hcr : check fl Γ κ r with
          | error _ => cases fl.strictBinary <;> simp [okOf, bind, Except.bind, Option.bind]
          | ok b =>
            cases hsb : fl.strictBinary <;>
              simp only [okOf, bind, Except.bind, Option.bind, combine_spec, max_join, pure, Except.pure, Bool.false_eq_true,
                ↓reduceIte, Bool.false_and, Bool.true_and]
            cases Spec.compatible a b <;> simp [okOf, throw, throwThe, MonadExceptOf.throw, pure, Except.pure]
  | .un op e => by
      have he := check_eq_typeOf fl Γ κ e
      cases op <;> simp only [check, Spec.typeOf, okOf_bind, ← he]
      cases check fl Γ κ e <;> rfl
  | .slice e lo hi => by
      have he := check_eq_typeOf fl Γ κ e
      simp only [check, Spec.typeOf, ← he]
      by_cases hlh : lo > hi
      · simp only [hlh, ↓reduceIte, okOf_throw]
        cases check fl Γ κ e <;> simp [okOf, Option.bind] <;> omega
      · simp only [hlh, ↓reduceIte, okOf_bind]
        cases hc : check fl Γ κ e with
        | error _ => rfl
        | ok a =>
          have hle : lo ≤ hi := by omega
          cases a with
          | unlimited => simp [okOf, Option.bind, hle, pure, Except.pure]
          | bits n =>
            simp only [okOf, Option.bind]
            by_cases hh : hi > n
            · have : ¬ hi ≤ n := by omega
              simp [hh, this, okOf, throw, throwThe, MonadExceptOf.throw]
            · have : hi ≤ n := by omega
              simp [hh, this, okOf, pure, Except.pure, hle]
  | .concat l r => by
      have hl := check_eq_typeOf fl Γ κ l
      have hr := check_eq_typeOf fl Γ κ r
      simp only [check, Spec.typeOf, okOf_bind, ← hl, ← hr]
      cases hcl : check fl Γ κ l with
      | error _ => rfl
      | ok a =>
        cases a with
        | unlimited => rfl
        | bits x =>
          simp only [okOf, Option.bind, okOf_bind]
          cases hcr : check fl Γ κ r with
          | error _ => rfl
          | ok b =>
            cases b with
            | unlimited => rfl
            | bits y =>
              by_cases h : x + y ≤ 128 <;>
                simp [h, okOf, bind, Except.bind, Option.bind, pure, Except.pure, throw, throwThe, MonadExceptOf.throw]
  | .mux opts => by
      have ho := checkOpts_eq fl Γ κ opts {}
      simp only [check, Spec.typeOf, okOf_bind, ho]
      cases hto : Spec.typeOfOpts fl Γ (alwaysTrue fl κ) opts with
      | none => rfl
      | some ws =>
        have hlen := typeOfOpts_length fl Γ (alwaysTrue fl κ) opts ws hto
        have f1 := scanAll_seenTrue ws (Spec.condTruth (alwaysTrue fl κ) opts) {} hlen
        have f2 := scanAll_seenTwice ws (Spec.condTruth (alwaysTrue fl κ) opts) {} hlen
        have f3 := scanAll_unreachable ws (Spec.condTruth (alwaysTrue fl κ) opts) {} hlen
        have fw := scanAll_width ws (Spec.condTruth (alwaysTrue fl κ) opts) {} hlen
        simp only [Option.map, Option.bind]
        simp only [f1, f2, f3, fw, bind, Except.bind, Bool.false_or, pure, Except.pure, throw, throwThe, MonadExceptOf.throw,
          widthFrom, countTrue]
        have hunl : ∀ r : Width, Width.unlimited.combine r = some r := by intro r; cases r <;> rfl
        have hempty : (Spec.condTruth (alwaysTrue fl κ) opts).isEmpty = true →
            (Spec.condTruth (alwaysTrue fl κ) opts).dropLast.any id = false := by
          intro h; cases hct : Spec.condTruth (alwaysTrue fl κ) opts <;> simp_all
        cases hcw : Spec.commonWidth ws with
        | none =>
          simp only [Option.bind]
          repeat' split
          all_goals simp_all [okOf]
        | some w =>
          simp only [Option.bind, hunl]
          cases hfl1 : fl.requireMuxDefault <;> cases hfl2 : fl.disallowMultipleMuxDefault <;> cases hfl3 : fl.disallowUnreachable <;>
            cases hany : (Spec.condTruth (alwaysTrue fl κ) opts).any id <;>
            cases hdl : (Spec.condTruth (alwaysTrue fl κ) opts).dropLast.any id <;>
            cases hem : (Spec.condTruth (alwaysTrue fl κ) opts).isEmpty <;>
            by_cases hcnt : ((Spec.condTruth (alwaysTrue fl κ) opts).filter id).length > 1 <;>
            simp_all [okOf] <;>
            (try (have hn : ¬ 1 < ((Spec.condTruth (alwaysTrue fl κ) opts).filter id).length := by omega
                  simp [hn]))
  | .inSet e items => by
      have he := check_eq_typeOf fl Γ κ e
      simp only [check, Spec.typeOf, okOf_bind, ← he]
      cases hc : check fl Γ κ e with
      | error _ => rfl
      | ok a =>
        simp only [okOf, Option.bind, okOf_bind]
        have hi := checkItems_eq fl Γ κ a items
        cases hci : checkItems fl Γ κ a items with
        | error _ =>
          rw [hci] at hi; simp only [okOf] at hi
          cases hti : Spec.typeOfItems fl Γ (alwaysTrue fl κ) items with
          | none => simp [bind, Except.bind, okOf, Option.bind]
          | some ws => rw [hti] at hi; simp at hi
        | ok errs =>
          rw [hci] at hi; simp only [okOf] at hi
          cases hti : Spec.typeOfItems fl Γ (alwaysTrue fl κ) items with
          | none => rw [hti] at hi; simp at hi
          | some ws =>
            rw [hti] at hi; simp only [Option.map, Option.some.injEq] at hi
            subst hi
            simp only [bind, Except.bind, Option.bind]
            by_cases hall : ws.all (Spec.compatible a) = true
            · have : ws.filter (fun w => !Spec.compatible a w) = [] := by
                rw [List.filter_eq_nil_iff]
                intro w hw; simp [List.all_eq_true.mp hall w hw]
              simp [hall, this, okOf, pure, Except.pure]
            · have : ((ws.filter (fun w => !Spec.compatible a w)).map (fun _ => mismatch)).isEmpty = false := by
                cases hf : ws.filter (fun w => !Spec.compatible a w) with
                | nil =>
                  exfalso; apply hall
                  rw [List.all_eq_true]; intro w hw
                  have := List.filter_eq_nil_iff.mp hf w hw
                  simpa using this
                | cons _ _ => rfl
              simp [hall, this, okOf, throw, throwThe, MonadExceptOf.throw]
/-- the loop over the options: it succeeds iff all conditions and arms are typed, and then the scan state is `scanAll` -/
theorem checkOpts_eq (fl : Flags) (Γ : Ctx) (κ : Env) :
    ∀ (opts : Opts) (s : MuxScan), okOf (checkOpts fl Γ κ opts s) =
      (Spec.typeOfOpts fl Γ (alwaysTrue fl κ) opts).map (fun ws => scanAll s ws (Spec.condTruth (alwaysTrue fl κ) opts))
  | .nil, s => by simp [checkOpts, Spec.typeOfOpts, Spec.condTruth, scanAll, okOf_pure]
  | .cons c v rest, s => by
      have hc := check_eq_typeOf fl Γ κ c
      have hv := check_eq_typeOf fl Γ κ v
      rw [checkOpts, Spec.typeOfOpts, Spec.condTruth, okOf_bind, ← hc]
      cases hcc : check fl Γ κ c with
      | error _ => rfl
      | ok cw =>
        rw [okOf_ok, Option.bind, okOf_bind, ← hv]
        cases hcv : check fl Γ κ v with
        | error _ => rfl
        | ok aw =>
          rw [okOf_ok, Option.bind, checkOpts_eq fl Γ κ rest]
          cases Spec.typeOfOpts fl Γ (alwaysTrue fl κ) rest with
          | none => rfl
          | some ws =>
            simp only [Option.map, bind, Option.bind, scanAll, scanStep]
            first
              | rfl
              | (congr 2; cases s.seenTrue <;> cases alwaysTrue fl κ c <;> rfl)
/-- the loop over the members of an `in` set: one mismatch diagnostic per incompatible member -/
theorem checkItems_eq (fl : Flags) (Γ : Ctx) (κ : Env) (a : Width) :
    ∀ items : Exs, okOf (checkItems fl Γ κ a items) =
      (Spec.typeOfItems fl Γ (alwaysTrue fl κ) items).map (fun ws => (ws.filter (fun w => !Spec.compatible a w)).map (fun _ => mismatch))
  | .nil => by simp [checkItems, Spec.typeOfItems, okOf_pure]
  | .cons e rest => by
      have he := check_eq_typeOf fl Γ κ e
      rw [checkItems, Spec.typeOfItems, okOf_bind, ← he]
      cases hc : check fl Γ κ e with
      | error _ => rfl
      | ok b =>
        rw [okOf_ok, Option.bind, okOf_bind, checkItems_eq fl Γ κ a rest]
        cases Spec.typeOfItems fl Γ (alwaysTrue fl κ) rest with
        | none => rfl
        | some ws =>
          simp only [Option.map, bind, Option.bind, combine_spec]
          by_cases hcomp : Spec.compatible a b = true
          · simp [hcomp, okOf_pure]
          · simp [hcomp, okOf_pure, mismatch]
end

/-- **C08, expressions (iff form).**  The checker accepts an expression at width `w` exactly when the
    documented width rules give it width `w`. -/
theorem C08_expr (fl : Flags) (Γ : Ctx) (κ : Env) (e : Ex) (w : Width) :
    check fl Γ κ e = .ok w ↔ Spec.typeOf fl Γ (alwaysTrue fl κ) e = some w := by
  rw [← check_eq_typeOf]
  cases check fl Γ κ e <;> simp [okOf]
