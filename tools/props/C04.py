"""C04 — the Y86 register file reads old values, writes at cycle end, M port wins."""
from props import C19
import re
from props.common_prog import judge_prog

THEOREM_MODULES = ["Hcl.Theorems.C04", "Hcl.Theorems.Effects", "Hcl.Tie.Fixed", "Hcl.Tie.PinsStep"]
THEOREMS = {"Hcl.Theorems.Effects": ["C04_C05_accepted_effect", "portWrite_spec", "writeMem_effect", "writeReg_effect"], "Hcl.Tie.Fixed": ["Tie.Fixed.fixedFunctions"], "Hcl.Theorems.C04": ["C04_accepted_order", "C04_read", "C04_write_port", "C04_write_E_then_M", "C04_M_wins", "C04_reg15",
                                 "C04_reg15_invariant", "regWrite_get_other"],
            "Hcl.Tie.PinsStep": ["Tie.PinsStep.pinStepWithOutput"]}

RULE = ("S-PROG regfile profile: reg_srcA/B, reg_dstE/M driven from a counter (small ranges, masks, REG_NONE) so that "
        "dstE = dstM, src = dst in the same cycle and register 15 on every port all occur; inputs are random 64-bit "
        "expressions; 1-12 cycles. The 16 program registers (through the verif-hooks accessor: the dump omits register 15), "
        "reg_outputA/B and all other wires are compared after every cycle with the Lean model and with Spec.cycle "
        "(reads of start-of-cycle registers; E then M; 15 never written). Collision/REG_NONE coverage is counted.")

_w = lambda name: re.compile(name + r"=(\d+)/")


def judge(req, impl, model, spec):
    j = judge_prog(req, impl, model, spec)
    if not impl.startswith("ok") or "tag-regfile" not in j["cats"]:
        j["key"] = None
        return j
    for cyc in impl.split("} {"):
        g = {}
        for n in ("reg_dstE", "reg_dstM", "reg_srcA", "reg_srcB"):
            m = _w(n).search(cyc)
            if m:
                g[n] = int(m.group(1))
        if "reg_dstE" in g and g.get("reg_dstE") == g.get("reg_dstM") and g["reg_dstE"] != 15:
            j["cats"].append("dstE=dstM")
        if any(g.get(s) is not None and g.get(s) in (g.get("reg_dstE"), g.get("reg_dstM")) for s in ("reg_srcA", "reg_srcB")):
            j["cats"].append("src=dst-same-cycle")
        if 15 in g.values():
            j["cats"].append("reg15-on-a-port")
    j["cats"] = sorted(set(j["cats"]))
    return j


def streams(tier, seed):
    q = tier == "quick"
    return [{"name": "prog-regfile", "stream": "prog", "count": 600 if q else 20000, "extra": ("regfile",), "judge": judge},
            # what the user sees goes through the command line and the two files: the real binary on accepted, rejected, big, not-UTF-8, bare-CR files, good and malformed images, all options and TIMEOUT forms (as in C19)
            {"name": "cli", "stream": "cli", "count": 200 if q else 5000, "pygen": C19.pygen, "judge": C19.judge}]
