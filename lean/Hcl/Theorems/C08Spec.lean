import Hcl.Proofs.SpecFaultsMain
open Rust

/-!
# C08 / C09 / C10 — the executable specification and the model agree

`Spec.faults` (Hcl/Spec/Accept.lean) is the staging-free, executable statement of "what is a fault" that the
differential tests use as their oracle: the real program must be accepted exactly when the list is empty.  These
theorems relate it to the model of `Program::new` for every statement list, not only the generated ones.

The equivalence needs two side conditions, both decidable properties of the statements, because the real checker's
"is this condition always true" and "is this enable input the constant 0" tests evaluate the *raw* expression over the
constants only, lazily, before the width fix-up (see known finding D28 and the discrepancies D-A, D-B recorded in
DESIGN.md): `CondsPlain` -- every case-expression condition either contains no case expression and mentions only
constants, or is certain to read a wire; `EnablesPlain` -- the enable input of a partially wired component is assigned a
constant expression or one certain to read a wire.  Every generated program and every ordinary HCL program satisfies both.
-/

/-- the oracle's "accept" is sound: no fault listed ⇒ the constructor accepts -/
theorem C08_spec_accepts_sound (fl : Flags) (cls : CharClass) (o : Orders) (stmts : List Stmt) (ho : OrdersOK o)
    (hwf : StmtsWF stmts) (hce : CondsPlain stmts) (h : Spec.faults fl cls.isLower cls.isUpper stmts = []) :
    ∃ p, Program.new fl cls o y86FixedFunctions stmts = .ok p :=
  faults_nil_imp_accepted fl cls o stmts ho hwf hce h

/-- and complete: accepted ⇒ no fault listed -/
theorem C08_spec_accepts_complete (fl : Flags) (cls : CharClass) (o : Orders) (stmts : List Stmt) (ho : OrdersOK o)
    (hwf : StmtsWF stmts) (hce : CondsPlain stmts) (hen : EnablesPlain stmts)
    (h : ∃ p, Program.new fl cls o y86FixedFunctions stmts = .ok p) :
    Spec.faults fl cls.isLower cls.isUpper stmts = [] :=
  accepted_imp_faults_nil fl cls o stmts ho hwf hce hen h

/-- **the specification decides acceptance** (under the two side conditions) -/
theorem C08_spec_faults_iff_accepted (fl : Flags) (cls : CharClass) (o : Orders) (stmts : List Stmt) (ho : OrdersOK o)
    (hwf : StmtsWF stmts) (hce : CondsPlain stmts) (hen : EnablesPlain stmts) :
    Spec.faults fl cls.isLower cls.isUpper stmts = [] ↔ ∃ p, Program.new fl cls o y86FixedFunctions stmts = .ok p :=
  faults_nil_iff_accepted fl cls o stmts ho hwf hce hen

#print axioms C08_spec_faults_iff_accepted
