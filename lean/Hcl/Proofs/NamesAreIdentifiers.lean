import Hcl.Proofs.ParseStmtsSound
import Hcl.Proofs.LexLayout
import Hcl.Proofs.Step1Tables
import Hcl.Theorems.C16ReadBack
import Hcl.Theorems.C07
open Rust Lexer Parser

/-!
# The names a dump prints are identifiers of the source text

`C16_dump_readback` / `Dump.state_readback` assume `GoodBank s.values b` for every printed register bank: the label of
the bank and the names of its registers contain no blank, `(`, `=` or line feed, and the values fit 128 bits.  For a
program that was PARSED from a text this is automatic:

1. **Lexer** (`Lexer.identifier_shape`, `Lexer.identifier_chars`): the name of every `Identifier` token consists of
   identifier characters (a first character that is alphabetic or `_`, then alphanumeric characters or `_`), and is not
   a keyword.
2. **Parser** (`Parser.names_are_tokens`): every declared name of the statements `parseProgram` answers (wires,
   constants, assignment targets, register banks and their registers) is the name of an `Identifier` token of the text.
3. **Program** (`Program_new_banks_from_decls`): every bank record of an accepted program carries the name of a
   `register` statement as its label, and the input wire of each signal is `x_` followed by the name of a register
   of that statement (`x` the first letter of the bank's name).

`C16_names_from_text` puts the three together; `C16_values_fit` is the value bound for the reachable states, and
`C16_goodBank_from_text` the hypothesis of the read-back theorem itself.
-/

/-! ## 1. Lexer: identifier tokens consist of identifier characters -/

namespace Lexer

/-- the lexer's test for the first character of an identifier -/
def idStart (cls : CharCls) (c : Char) : Bool := cls.isAlphabetic c || c == '_'

/-- the lexer's test for the further characters of an identifier -/
def idCont (cls : CharCls) (c : Char) : Bool := cls.isAlphanumeric c || c == '_'

/-- a character that may occur in an identifier: it passes the test for the first or for the further characters -/
def IdChar (cls : CharCls) (c : Char) : Prop := idStart cls c = true ∨ idCont cls c = true

/-- the shape of an identifier: a start character and then continuation characters -/
def IdName (cls : CharCls) (name : String) : Prop :=
  ∃ c more, name.toList = c :: more ∧ idStart cls c = true ∧ ∀ d ∈ more, idCont cls d = true

/-- a classification under which a blank, a line feed, `(` and `=` are neither alphabetic nor alphanumeric (true of
    Rust's `char::is_alphabetic`/`is_alphanumeric`, and of `asciiCls`) -/
structure ClsSane (cls : CharCls) : Prop where
  alpha : ∀ c, c = ' ' ∨ c = '\n' ∨ c = '(' ∨ c = '=' → cls.isAlphabetic c = false
  alnum : ∀ c, c = ' ' ∨ c = '\n' ∨ c = '(' ∨ c = '=' → cls.isAlphanumeric c = false

theorem asciiCls_sane : ClsSane asciiCls where
  alpha := by
    intro c h
    rcases h with rfl | rfl | rfl | rfl <;> decide
  alnum := by
    intro c h
    rcases h with rfl | rfl | rfl | rfl <;> decide

/-- under a sane classification none of the four characters is an identifier character -/
theorem IdChar.ne_special {cls : CharCls} (hc : ClsSane cls) {c : Char} (h : IdChar cls c) :
    c ≠ ' ' ∧ c ≠ '\n' ∧ c ≠ '(' ∧ c ≠ '=' := by
  have key : ∀ x, x = ' ' ∨ x = '\n' ∨ x = '(' ∨ x = '=' → c ≠ x := by
    intro x hx hcx
    subst hcx
    have h1 := hc.alpha c hx
    have h2 := hc.alnum c hx
    have h3 : (c == '_') = false := by rcases hx with rfl | rfl | rfl | rfl <;> decide
    unfold IdChar idStart idCont at h
    rw [h1, h2, h3] at h
    simp at h
  exact ⟨key _ (Or.inl rfl), key _ (Or.inr (Or.inl rfl)), key _ (Or.inr (Or.inr (Or.inl rfl))),
    key _ (Or.inr (Or.inr (Or.inr rfl)))⟩

theorem IdName.chars {cls : CharCls} {name : String} (h : IdName cls name) : ∀ c ∈ name.toList, IdChar cls c := by
  obtain ⟨c0, more, hl, h0, hm⟩ := h
  intro c hc
  rw [hl] at hc
  rcases List.mem_cons.mp hc with rfl | hc
  · exact Or.inl h0
  · exact Or.inr (hm c hc)

/-- what an identifier token must satisfy: the shape of a name, and not one of the four keywords -/
def TokOK (cls : CharCls) : Tok → Prop
  | .Identifier name => IdName cls name ∧ name ≠ "wire" ∧ name ≠ "const" ∧ name ≠ "register" ∧ name ≠ "in"
  | _ => True

def ItemsOK (cls : CharCls) (items : List Item) : Prop := ∀ s t e, Item.tok s t e ∈ items → TokOK cls t

def StepIdOK (cls : CharCls) : Step → Prop
  | .stop items => ItemsOK cls items
  | .more items _ _ => ItemsOK cls items

theorem itemsOK_nil (cls : CharCls) : ItemsOK cls [] := by
  intro s t e h; cases h

theorem itemsOK_err (cls : CharCls) (x : LexErr) : ItemsOK cls [.err x] := by
  intro s t e h
  simp at h

theorem itemsOK_single (cls : CharCls) (s : Nat) (t : Tok) (e : Nat) (h : TokOK cls t) : ItemsOK cls [.tok s t e] := by
  intro s' t' e' hm
  simp only [List.mem_cons, List.not_mem_nil, or_false, Item.tok.injEq] at hm
  obtain ⟨_, rfl, _⟩ := hm
  exact h

theorem itemsOK_append {cls : CharCls} {a b : List Item} (ha : ItemsOK cls a) (hb : ItemsOK cls b) : ItemsOK cls (a ++ b) := by
  intro s t e hm
  rcases List.mem_append.mp hm with h | h
  · exact ha s t e h
  · exact hb s t e h

theorem spanWhile_taken_all (f : Char → Bool) : ∀ (l a b : List Char), spanWhile f l = (a, b) → ∀ d ∈ a, f d = true
  | [], a, b, h => by
    unfold spanWhile at h
    simp only [Prod.mk.injEq] at h
    obtain ⟨rfl, _⟩ := h
    intro d hd; cases hd
  | c :: rest, a, b, h => by
    unfold spanWhile at h
    by_cases hc : f c = true
    · rw [if_pos hc] at h
      cases hsp : spanWhile f rest with
      | mk a' b' =>
        rw [hsp] at h
        simp only [Prod.mk.injEq] at h
        obtain ⟨rfl, _⟩ := h
        intro d hd
        rcases List.mem_cons.mp hd with rfl | hd
        · exact hc
        · exact spanWhile_taken_all f rest a' b' hsp d hd
    · rw [if_neg hc] at h
      simp only [Prod.mk.injEq] at h
      obtain ⟨rfl, _⟩ := h
      intro d hd; cases hd

theorem stepIdOK_simple (cls : CharCls) (rest : List Char) (i next : Nat) (t : Tok) (h : TokOK cls t) :
    StepIdOK cls (simpleStep rest i next t) := by
  unfold simpleStep StepIdOK
  exact itemsOK_single cls _ _ _ h

theorem stepIdOK_choose (cls : CharCls) (rest : List Char) (i next : Nat) (dflt : Tok) (opts : List (Char × Tok))
    (hd : TokOK cls dflt) (ho : ∀ o ∈ opts, TokOK cls o.2) : StepIdOK cls (chooseStep rest i next dflt opts) := by
  unfold chooseStep
  cases rest with
  | nil => exact itemsOK_single cls _ _ _ hd
  | cons d rest2 =>
    simp only
    cases hf : opts.find? (fun o => o.1 == d) with
    | some o => exact itemsOK_single cls _ _ _ (ho o (List.mem_of_find?_eq_some hf))
    | none => exact itemsOK_single cls _ _ _ hd

theorem stepIdOK_lineComment (cls : CharCls) (rest : List Char) (next : Nat) : StepIdOK cls (lineCommentStep rest next) := by
  unfold lineCommentStep
  cases spanWhile (fun d => d != '\n' && d != '\r') rest with
  | mk a b => exact itemsOK_nil cls

theorem stepIdOK_slash (cls : CharCls) (rest : List Char) (i next : Nat) : StepIdOK cls (slashStep rest i next) := by
  unfold slashStep
  split
  · exact stepIdOK_lineComment cls _ next
  · split
    · exact itemsOK_nil cls
    · exact itemsOK_err cls _
  · exact stepIdOK_simple cls rest i next .Divide trivial

theorem stepIdOK_ite {cls : CharCls} {p : Prop} [Decidable p] {a b : Step}
    (ha : StepIdOK cls a) (hb : StepIdOK cls b) : StepIdOK cls (if p then a else b) := by
  split <;> assumption

theorem stepIdOK_dot (cls : CharCls) (rest : List Char) (i next : Nat) :
    StepIdOK cls (match (generalizing := false) rest with
      | '.' :: rest2 => .more [.tok i .DotDot (i + 2)] rest2 (next + 1)
      | _ => .stop [.err (.lexical i)]) := by
  split
  · exact itemsOK_single cls _ _ _ trivial
  · exact itemsOK_err cls _

theorem stepIdOK_punct (cls : CharCls) (c : Char) (rest : List Char) (i next : Nat) : StepIdOK cls (punctStep c rest i next) := by
  unfold punctStep
  repeat' apply stepIdOK_ite
  all_goals first
    | exact stepIdOK_simple cls rest i next _ trivial
    | exact stepIdOK_lineComment cls rest next
    | exact stepIdOK_slash cls rest i next
    | exact stepIdOK_dot cls rest i next
    | exact itemsOK_err cls _
    | (apply stepIdOK_choose
       · trivial
       · intro o ho
         simp only [List.mem_cons, List.not_mem_nil, or_false] at ho
         first
           | (rcases ho with rfl | rfl <;> trivial)
           | (subst ho; trivial))

/-- `handle_constant` yields a constant -/
theorem handleConstant_tok (i : Nat) (first : Char) (rest : List Char) (total : Nat) (s : Nat) (t : Tok) (e : Nat)
    (after : List Char) (off' : Nat) (h : handleConstant i first rest total = .ok ((s, t, e), after, off')) :
    ∃ v, t = .Constant v := by
  unfold handleConstant at h
  simp only at h
  repeat' split at h
  all_goals first
    | (simp only [Except.ok.injEq, Prod.mk.injEq] at h
       obtain ⟨⟨_, rfl, _⟩, _⟩ := h
       exact ⟨_, rfl⟩)
    | cases h

theorem tokOK_keyword (cls : CharCls) (c : Char) (more : List Char) (hc : idStart cls c = true)
    (hm : ∀ d ∈ more, idCont cls d = true) : TokOK cls (keyword (String.ofList (c :: more))) := by
  unfold keyword
  split
  · trivial
  · rename_i h1
    split
    · trivial
    · rename_i h2
      split
      · trivial
      · rename_i h3
        split
        · trivial
        · rename_i h4
          refine ⟨⟨c, more, String.toList_ofList, hc, hm⟩, ?_, ?_, ?_, ?_⟩
          · intro h; exact h1 (by rw [h]; rfl)
          · intro h; exact h2 (by rw [h]; rfl)
          · intro h; exact h3 (by rw [h]; rfl)
          · intro h; exact h4 (by rw [h]; rfl)

theorem lexStep_idOK (cls : CharCls) (total : Nat) (cs : List Char) (off : Nat) : StepIdOK cls (lexStep cls total cs off) := by
  unfold lexStep
  cases cs with
  | nil => exact itemsOK_nil cls
  | cons c rest =>
    simp only
    split
    · exact itemsOK_nil cls
    · split
      · rename_i hst
        unfold identStep
        cases hsp : spanWhile (fun d => cls.isAlphanumeric d || d == '_') rest with
        | mk more after =>
          exact itemsOK_single cls _ _ _ (tokOK_keyword cls c more hst (spanWhile_taken_all _ _ _ _ hsp))
      · split
        · unfold constantStep
          cases hcst : handleConstant off c rest total with
          | error e => exact itemsOK_err cls _
          | ok r =>
            obtain ⟨⟨s, t, e⟩, after, off'⟩ := r
            obtain ⟨v, rfl⟩ := handleConstant_tok off c rest total s t e after off' hcst
            exact itemsOK_single cls _ _ _ trivial
        · exact stepIdOK_punct cls c rest off _

theorem lexAll_idOK (cls : CharCls) (total : Nat) : ∀ (fuel : Nat) (cs : List Char) (off : Nat),
    ItemsOK cls (lexAll cls total fuel cs off)
  | 0, _, _ => itemsOK_err cls _
  | fuel + 1, cs, off => by
    unfold lexAll
    have h := lexStep_idOK cls total cs off
    cases hs : lexStep cls total cs off with
    | stop items => rw [hs] at h; exact h
    | more items cs' off' =>
      rw [hs] at h
      exact itemsOK_append h (lexAll_idOK cls total fuel cs' off')

/-- **The shape of an identifier token**: the name is a start character (alphabetic or `_`) followed by continuation
    characters (alphanumeric or `_`), and it is none of the keywords `wire`, `const`, `register`, `in`. -/
theorem identifier_shape (cls : CharCls) (text : List Char) (s e : Nat) (name : String)
    (h : Item.tok s (.Identifier name) e ∈ lex cls text) :
    IdName cls name ∧ name ≠ "wire" ∧ name ≠ "const" ∧ name ≠ "register" ∧ name ≠ "in" :=
  lexAll_idOK cls _ _ _ _ s _ e h

/-- **Every identifier token consists of identifier characters only.** -/
theorem identifier_chars (cls : CharCls) (text : List Char) (s e : Nat) (name : String)
    (h : Item.tok s (.Identifier name) e ∈ lex cls text) : ∀ c ∈ name.toList, IdChar cls c :=
  (identifier_shape cls text s e name h).1.chars

/-- under a sane classification an identifier token contains no blank, line feed, `(` or `=` -/
theorem identifier_no_special (cls : CharCls) (hc : ClsSane cls) (text : List Char) (s e : Nat) (name : String)
    (h : Item.tok s (.Identifier name) e ∈ lex cls text) :
    ∀ c ∈ name.toList, c ≠ ' ' ∧ c ≠ '\n' ∧ c ≠ '(' ∧ c ≠ '=' :=
  fun c hm => (identifier_chars cls text s e name h c hm).ne_special hc

end Lexer

/-! ## 2. Parser: every declared name is the name of an identifier token -/

namespace Parser

/-- the names a statement introduces or assigns: the wires, the constants, the targets of the assignments, the register
    bank and its registers -/
def declNames : Stmt → List String
  | .wires ds => ds.map (·.name)
  | .consts ds => ds.map (·.name)
  | .assigns as => as.flatMap (·.names)
  | .bank b => b.name :: b.regs.map (·.name)

theorem DWires.names {ds : List WireDecl} {ts : List Tok} (h : DWires ds ts) : ∀ d ∈ ds, Tok.Identifier d.name ∈ ts := by
  induction h with
  | nil => intro d hd; cases hd
  | one _ =>
    intro d hd
    simp only [List.mem_cons, List.not_mem_nil, or_false] at hd
    subst hd
    exact List.mem_cons_self
  | cons _ _ ih =>
    intro d hd
    rcases List.mem_cons.mp hd with rfl | hd
    · exact List.mem_cons_self
    · exact List.mem_cons_of_mem _ (List.mem_cons_of_mem _ (List.mem_cons_of_mem _ (List.mem_cons_of_mem _ (ih d hd))))

theorem DConsts.names {ds : List ConstDecl} {ts : List Tok} (h : DConsts ds ts) : ∀ d ∈ ds, Tok.Identifier d.name ∈ ts := by
  induction h with
  | nil => intro d hd; cases hd
  | one _ =>
    intro d hd
    simp only [List.mem_cons, List.not_mem_nil, or_false] at hd
    subst hd
    exact List.mem_cons_self
  | cons _ _ ih =>
    intro d hd
    rcases List.mem_cons.mp hd with rfl | hd
    · exact List.mem_cons_self
    · exact List.mem_cons_of_mem _ (List.mem_cons_of_mem _ (List.mem_append_right _ (List.mem_cons_of_mem _ (ih d hd))))

theorem DTargets.names {names : List String} {ts : List Tok} (h : DTargets names ts) : ∀ n ∈ names, Tok.Identifier n ∈ ts := by
  induction h with
  | nil => intro n hn; cases hn
  | cons _ ih =>
    intro n hn
    rcases List.mem_cons.mp hn with rfl | hn
    · exact List.mem_cons_self
    · exact List.mem_cons_of_mem _ (List.mem_cons_of_mem _ (ih n hn))

theorem DAssignment.names {a : Assignment} {ts : List Tok} (h : DAssignment a ts) : ∀ n ∈ a.names, Tok.Identifier n ∈ ts := by
  cases h with
  | mk _ dt _ => intro n hn; exact List.mem_append_left _ (dt.names n hn)

theorem DAssigns.names {as : List Assignment} {ts : List Tok} (h : DAssigns as ts) :
    ∀ a ∈ as, ∀ n ∈ a.names, Tok.Identifier n ∈ ts := by
  induction h with
  | one d =>
    intro a ha
    simp only [List.mem_cons, List.not_mem_nil, or_false] at ha
    subst ha
    exact d.names
  | oneComma d =>
    intro a ha n hn
    simp only [List.mem_cons, List.not_mem_nil, or_false] at ha
    subst ha
    exact List.mem_append_left _ (d.names n hn)
  | cons d _ ih =>
    intro a ha n hn
    rcases List.mem_cons.mp ha with rfl | ha
    · exact List.mem_append_left _ (d.names n hn)
    · exact List.mem_append_right _ (List.mem_cons_of_mem _ (ih a ha n hn))

theorem DRegs.names {ds : List RegDecl} {ts : List Tok} (h : DRegs ds ts) : ∀ r ∈ ds, Tok.Identifier r.name ∈ ts := by
  induction h with
  | nil => intro r hr; cases hr
  | one _ _ =>
    intro r hr
    simp only [List.mem_cons, List.not_mem_nil, or_false] at hr
    subst hr
    exact List.mem_cons_self
  | cons _ _ _ ih =>
    intro r hr
    rcases List.mem_cons.mp hr with rfl | hr
    · exact List.mem_cons_self
    · exact List.mem_cons_of_mem _ (List.mem_cons_of_mem _ (List.mem_cons_of_mem _ (List.mem_cons_of_mem _
        (List.mem_append_right _ (List.mem_cons_of_mem _ (ih r hr))))))

theorem DBank.names {b : BankDecl} {ts : List Tok} (h : DBank b ts) :
    Tok.Identifier b.name ∈ ts ∧ ∀ r ∈ b.regs, Tok.Identifier r.name ∈ ts := by
  cases h with
  | mk d =>
    refine ⟨List.mem_cons_self, ?_⟩
    intro r hr
    exact List.mem_cons_of_mem _ (List.mem_cons_of_mem _ (List.mem_append_left _ (d.names r hr)))

theorem DBank.declNames {b : BankDecl} {ts : List Tok} (h : DBank b ts) : ∀ n ∈ declNames (.bank b), Tok.Identifier n ∈ ts := by
  intro n hn
  unfold Parser.declNames at hn
  rcases List.mem_cons.mp hn with rfl | hn
  · exact h.names.1
  · obtain ⟨r, hr, rfl⟩ := List.mem_map.mp hn
    exact h.names.2 r hr

theorem DNeed.names {st : Stmt} {ts : List Tok} (h : DNeed st ts) : ∀ n ∈ declNames st, Tok.Identifier n ∈ ts := by
  cases h with
  | wires d =>
    intro n hn
    obtain ⟨w, hw, rfl⟩ := List.mem_map.mp hn
    exact List.mem_cons_of_mem _ (d.names w hw)
  | consts d =>
    intro n hn
    obtain ⟨w, hw, rfl⟩ := List.mem_map.mp hn
    exact List.mem_cons_of_mem _ (d.names w hw)
  | assigns d =>
    intro n hn
    obtain ⟨a, ha, hna⟩ := List.mem_flatMap.mp hn
    exact d.names a ha n hna

/-- every name of a derived statement list occurs as an identifier among the token kinds -/
theorem DS.names {started : Bool} {l : List Stmt} {ts : List Tok} (h : DS started l ts) :
    ∀ st ∈ l, ∀ n ∈ declNames st, Tok.Identifier n ∈ ts := by
  induction h with
  | nil => intro st hst; cases hst
  | semi _ ih => intro st hst n hn; exact List.mem_cons_of_mem _ (ih st hst n hn)
  | bank db _ ih =>
    intro st hst n hn
    rcases List.mem_cons.mp hst with rfl | hst
    · exact List.mem_cons_of_mem _ (List.mem_append_left _ (db.declNames n hn))
    · exact List.mem_cons_of_mem _ (List.mem_append_right _ (ih st hst n hn))
  | stmt dn _ ih =>
    intro st hst n hn
    rcases List.mem_cons.mp hst with rfl | hst
    · exact List.mem_append_left _ (dn.names n hn)
    · exact List.mem_append_right _ (List.mem_cons_of_mem _ (ih st hst n hn))
  | last dn =>
    intro st hst
    simp only [List.mem_cons, List.not_mem_nil, or_false] at hst
    subst hst
    exact dn.names

/-- the tokens handed to the parser are the lexer's items -/
theorem tokensOf_mem : ∀ (items : List Item) (toks : Toks), tokensOf items = some toks →
    ∀ t ∈ kinds toks, ∃ s e, Item.tok s t e ∈ items
  | [], toks, h => by
    rw [tokensOf_nil] at h
    simp only [Option.some.injEq] at h
    subst h
    intro t ht; cases ht
  | .err x :: r, toks, h => by rw [tokensOf_err] at h; cases h
  | .tok s t e :: r, toks, h => by
    rw [tokensOf_tok] at h
    cases hr : tokensOf r with
    | none => rw [hr] at h; cases h
    | some ts =>
      rw [hr] at h
      simp only [Option.map_some, Option.some.injEq] at h
      subst h
      intro t' ht'
      rw [kinds_cons] at ht'
      rcases List.mem_cons.mp ht' with rfl | ht'
      · exact ⟨s, e, List.mem_cons_self⟩
      · obtain ⟨s', e', hm⟩ := tokensOf_mem r ts hr t' ht'
        exact ⟨s', e', List.mem_cons_of_mem _ hm⟩

/-- **Every name of a parsed program is the name of an identifier token of its text**: the wires, the constants, the
    targets of the assignments, the register banks and their registers. -/
theorem names_are_tokens (cls : CharCls) (text : List Char) (stmts : List Stmt) (hp : parseProgram cls text = some stmts) :
    ∀ st ∈ stmts, ∀ n ∈ declNames st, ∃ s e, Item.tok s (.Identifier n) e ∈ lex cls text := by
  obtain ⟨toks, ht, hd⟩ := (parseProgram_iff_DS cls text stmts).mp hp
  intro st hst n hn
  exact tokensOf_mem _ toks ht _ (hd.names st hst n hn)

/-- the bank and register names in particular -/
theorem bank_names_are_tokens (cls : CharCls) (text : List Char) (stmts : List Stmt) (hp : parseProgram cls text = some stmts)
    (b : BankDecl) (hb : Stmt.bank b ∈ stmts) :
    (∃ s e, Item.tok s (.Identifier b.name) e ∈ lex cls text) ∧
    ∀ r ∈ b.regs, ∃ s e, Item.tok s (.Identifier r.name) e ∈ lex cls text :=
  ⟨names_are_tokens cls text stmts hp _ hb _ List.mem_cons_self,
   fun r hr => names_are_tokens cls text stmts hp _ hb _ (List.mem_cons_of_mem _ (List.mem_map.mpr ⟨r, hr, rfl⟩))⟩

/-- every name of a parsed program is an identifier: a start character, then continuation characters, and no keyword -/
theorem names_are_identifiers (cls : CharCls) (text : List Char) (stmts : List Stmt) (hp : parseProgram cls text = some stmts) :
    ∀ st ∈ stmts, ∀ n ∈ declNames st, IdName cls n ∧ n ≠ "wire" ∧ n ≠ "const" ∧ n ≠ "register" ∧ n ≠ "in" := by
  intro st hst n hn
  obtain ⟨s, e, hm⟩ := names_are_tokens cls text stmts hp st hst n hn
  exact identifier_shape cls text s e n hm

end Parser

/-! ## 3. Program: the bank records carry the names of the `register` statements -/

/-- the signal `step3Register` records for the register `r` of a bank whose name is the two letters `inP outP` -/
def signalOf (inP outP : Char) (r : RegDecl) : String × String × Width :=
  (String.ofList [inP, '_'] ++ r.name, String.ofList [outP, '_'] ++ r.name, r.width)

/-- the register name the dump prints for a recorded signal is the declared name -/
theorem regNameOf_signalOf (inP outP : Char) (r : RegDecl) : Dump.regNameOf (signalOf inP outP r).1 = r.name := by
  unfold Dump.regNameOf signalOf
  simp only
  rw [String.toList_append, String.toList_ofList]
  simp

/-- the bank record `b` was made from the declaration `bd`: same name, and every signal belongs to a register of `bd` -/
def BankFrom (bd : BankDecl) (b : RegisterBank) : Prop :=
  b.label = bd.name ∧ ∃ inP outP, bd.name.toList = [inP, outP] ∧ ∀ sg ∈ b.signals, ∃ r ∈ bd.regs, sg = signalOf inP outP r

section
variable (fl : Flags) (cc : CharClass) (s1 : Step1) (constants : AMap WireValue)

theorem step3Register_shape (bank : String) (inP outP : Char) (s : Step3) (acc : BankAcc) (r : RegDecl) :
    (step3Register fl s1 constants bank inP outP (s, acc) r).1.banks = s.banks ∧
    ((step3Register fl s1 constants bank inP outP (s, acc) r).2.signals = acc.signals ∨
     (step3Register fl s1 constants bank inP outP (s, acc) r).2.signals = acc.signals ++ [signalOf inP outP r]) := by
  unfold step3Register
  simp only
  split
  · exact ⟨rfl, Or.inl rfl⟩
  · unfold regEval
    simp only
    split
    · split
      · exact ⟨rfl, Or.inr rfl⟩
      · exact ⟨rfl, Or.inl rfl⟩
    · exact ⟨rfl, Or.inl rfl⟩

theorem step3Register_fold_shape (bank : String) (inP outP : Char) : ∀ (regs : List RegDecl) (s : Step3) (acc : BankAcc),
    (regs.foldl (step3Register fl s1 constants bank inP outP) (s, acc)).1.banks = s.banks ∧
    ∀ sg ∈ (regs.foldl (step3Register fl s1 constants bank inP outP) (s, acc)).2.signals,
      sg ∈ acc.signals ∨ ∃ r ∈ regs, sg = signalOf inP outP r
  | [], s, acc => ⟨rfl, fun sg h => Or.inl h⟩
  | r :: rest, s, acc => by
    rw [List.foldl_cons]
    obtain ⟨h1, h2⟩ := step3Register_shape fl s1 constants bank inP outP s acc r
    cases hst : step3Register fl s1 constants bank inP outP (s, acc) r with
    | mk s' acc' =>
      rw [hst] at h1 h2
      obtain ⟨g1, g2⟩ := step3Register_fold_shape bank inP outP rest s' acc'
      refine ⟨g1.trans h1, ?_⟩
      intro sg hsg
      rcases g2 sg hsg with h | ⟨r', hr', rfl⟩
      · rcases h2 with h2 | h2
        · rw [h2] at h; exact Or.inl h
        · rw [h2] at h
          rcases List.mem_append.mp h with h | h
          · exact Or.inl h
          · simp only [List.mem_cons, List.not_mem_nil, or_false] at h
            exact Or.inr ⟨r, List.mem_cons_self, h⟩
      · exact Or.inr ⟨r', List.mem_cons_of_mem _ hr', rfl⟩

/-- one `register` statement adds at most one record, made from it -/
theorem step3Bank_shape (s : Step3) (bd : BankDecl) :
    (step3Bank fl cc s1 constants s bd).banks = s.banks ∨
    ∃ b, (step3Bank fl cc s1 constants s bd).banks = s.banks ++ [b] ∧ BankFrom bd b := by
  unfold step3Bank
  split
  · rename_i inP outP hname
    split
    · exact Or.inl rfl
    · simp only
      generalize hs0 : ({ s with
          errors := s.errors ++ _, defaulted := _, wireTypes := _ } : Step3) = s0
      have hb0 : s0.banks = s.banks := by rw [← hs0]
      obtain ⟨g1, g2⟩ := step3Register_fold_shape fl s1 constants bd.name inP outP bd.regs s0 {}
      cases hf : bd.regs.foldl (step3Register fl s1 constants bd.name inP outP) (s0, {}) with
      | mk s' acc =>
        rw [hf] at g1 g2
        simp only
        refine Or.inr ⟨_, by rw [g1, hb0], rfl, inP, outP, hname, ?_⟩
        intro sg hsg
        rcases g2 sg hsg with h | h
        · cases h
        · exact h
  · exact Or.inl rfl

theorem step3_fold_banksFrom : ∀ (decls : List BankDecl) (s : Step3),
    ∀ b ∈ (decls.foldl (step3Bank fl cc s1 constants) s).banks, b ∈ s.banks ∨ ∃ bd ∈ decls, BankFrom bd b
  | [], s, b, hb => Or.inl hb
  | bd :: rest, s, b, hb => by
    rw [List.foldl_cons] at hb
    rcases step3_fold_banksFrom rest _ b hb with h | ⟨bd', hbd', hfrom⟩
    · rcases step3Bank_shape fl cc s1 constants s bd with h2 | ⟨b', h2, hfrom⟩
      · rw [h2] at h; exact Or.inl h
      · rw [h2] at h
        rcases List.mem_append.mp h with h | h
        · exact Or.inl h
        · simp only [List.mem_cons, List.not_mem_nil, or_false] at h
          subst h
          exact Or.inr ⟨bd, List.mem_cons_self, hfrom⟩
    · exact Or.inr ⟨bd', List.mem_cons_of_mem _ hbd', hfrom⟩
end

/-- the bank records of an accepted program are those of step 3 on the `register` statements (whatever the built-in
    components are) -/
theorem Program_new_banks (fl : Flags) (cc : CharClass) (o : Orders) (fixed : List FixedFunction) (stmts : List Stmt)
    (p : Program) (h : Program.new fl cc o fixed stmts = .ok p) :
    ∃ (s1 : Step1) (constants : AMap WireValue),
      s1.banksRaw = stmts.filterMap (fun st => match st with | .bank b => some b | _ => none) ∧
      p.banks = (s1.banksRaw.foldl (step3Bank fl cc s1 constants) { wireTypes := s1.wireTypes }).banks := by
  unfold Program.new at h
  simp only at h
  generalize hs1 : List.foldl (step1Stmt _ _) (step1Init fixed) stmts = s1 at h
  have hraw : s1.banksRaw = stmts.filterMap (fun st => match st with | .bank b => some b | _ => none) := by
    rw [← hs1, step1_fold_banksRaw]
    have h0 : (step1Init fixed).banksRaw = [] := by
      unfold step1Init
      apply foldl_banksRaw_eq
      intro s f
      have h1 : (f.inWires.foldl (fun s (w : String × Nat) =>
          { s with wireTypes := s.wireTypes.insert w.1 .builtinInput, wires := s.wires.insert w.1 (.bits w.2) }) s).banksRaw =
          s.banksRaw := by
        apply foldl_banksRaw_eq
        intro _ _; rfl
      cases f.outWire with
      | none => exact h1
      | some q => exact h1
    rw [h0, List.nil_append]
    congr 1
  split at h
  · cases h
  · split at h
    · cases h
    · rename_i constants _
      split at h
      · cases h
      · split at h
        · cases h
        · split at h
          · cases h
          · simp only [Except.ok.injEq] at h
            subst h
            exact ⟨s1, constants, hraw, rfl⟩

/-- **The bank records of an accepted program come from its `register` statements**: each has the name of a statement
    `register xY { ... }` as its label, and each of its signals is `(x_r, Y_r, width)` for a register `r` of that
    statement, so that the name the dump prints for it (`regNameOf`) is `r`'s name. -/
theorem Program_new_banks_from_decls (fl : Flags) (cc : CharClass) (o : Orders) (fixed : List FixedFunction)
    (stmts : List Stmt) (p : Program) (h : Program.new fl cc o fixed stmts = .ok p) :
    ∀ b ∈ p.banks, ∃ bd, Stmt.bank bd ∈ stmts ∧ b.label = bd.name ∧
      ∀ sg ∈ b.signals, ∃ r ∈ bd.regs, Dump.regNameOf sg.1 = r.name := by
  obtain ⟨s1, constants, hraw, hb⟩ := Program_new_banks fl cc o fixed stmts p h
  intro b hbm
  rw [hb] at hbm
  rcases step3_fold_banksFrom fl cc s1 constants s1.banksRaw _ b hbm with h0 | ⟨bd, hbd, hlabel, inP, outP, _, hsig⟩
  · cases h0
  · rw [hraw] at hbd
    obtain ⟨st, hst, hsome⟩ := List.mem_filterMap.mp hbd
    have hst' : Stmt.bank bd ∈ stmts := by
      cases st with
      | bank b' => simp only [Option.some.injEq] at hsome; subst hsome; exact hst
      | consts _ => cases hsome
      | wires _ => cases hsome
      | assigns _ => cases hsome
    refine ⟨bd, hst', hlabel, ?_⟩
    intro sg hsg
    obtain ⟨r, hr, rfl⟩ := hsig sg hsg
    exact ⟨r, hr, regNameOf_signalOf inP outP r⟩

/-! ## The names of a program that was parsed from a text -/

/-- **The name hypotheses of `GoodBank` hold for every program parsed from a text**: whatever the flags, the character
    classes and the iteration orders, the label of every register bank of the accepted program and the name of every
    register the dump prints contain no blank, no `(` resp. `=`, and no line feed -- they are identifiers of the
    text. -/
theorem C16_names_from_text (cls : CharCls) (hc : ClsSane cls) (text : List Char) (stmts : List Stmt)
    (hp : Parser.parseProgram cls text = some stmts)
    (fl : Flags) (cc : CharClass) (o : Orders) (p : Program) (h : Program.new fl cc o y86FixedFunctions stmts = .ok p) :
    ∀ b ∈ p.banks, (∀ c ∈ b.label.toList, c ≠ ' ' ∧ c ≠ '(' ∧ c ≠ '\n') ∧
      (∀ sg ∈ b.signals, ∀ c ∈ (Dump.regNameOf sg.1).toList, c ≠ ' ' ∧ c ≠ '=' ∧ c ≠ '\n') := by
  intro b hb
  obtain ⟨bd, hbd, hlabel, hsig⟩ := Program_new_banks_from_decls fl cc o y86FixedFunctions stmts p h b hb
  obtain ⟨⟨s, e, hname⟩, hregs⟩ := Parser.bank_names_are_tokens cls text stmts hp bd hbd
  constructor
  · intro c hcm
    rw [hlabel] at hcm
    obtain ⟨h1, h2, h3, _⟩ := Lexer.identifier_no_special cls hc text s e bd.name hname c hcm
    exact ⟨h1, h3, h2⟩
  · intro sg hsg c hcm
    obtain ⟨r, hr, hrn⟩ := hsig sg hsg
    rw [hrn] at hcm
    obtain ⟨s', e', hm⟩ := hregs r hr
    obtain ⟨h1, h2, _, h4⟩ := Lexer.identifier_no_special cls hc text s' e' r.name hm c hcm
    exact ⟨h1, h4, h2⟩

/-- the same, saying what the names are: identifiers of the text in the lexer's sense -/
theorem C16_names_are_identifiers (cls : CharCls) (text : List Char) (stmts : List Stmt)
    (hp : Parser.parseProgram cls text = some stmts)
    (fl : Flags) (cc : CharClass) (o : Orders) (p : Program) (h : Program.new fl cc o y86FixedFunctions stmts = .ok p) :
    ∀ b ∈ p.banks, Lexer.IdName cls b.label ∧ ∀ sg ∈ b.signals, Lexer.IdName cls (Dump.regNameOf sg.1) := by
  intro b hb
  obtain ⟨bd, hbd, hlabel, hsig⟩ := Program_new_banks_from_decls fl cc o y86FixedFunctions stmts p h b hb
  have hn := Parser.names_are_identifiers cls text stmts hp _ hbd
  constructor
  · rw [hlabel]
    exact (hn _ List.mem_cons_self).1
  · intro sg hsg
    obtain ⟨r, hr, hrn⟩ := hsig sg hsg
    rw [hrn]
    exact (hn _ (List.mem_cons_of_mem _ (List.mem_map.mpr ⟨r, hr, rfl⟩))).1

/-! ## The values of the reachable states fit 128 bits -/

theorem bitsOf_fit {Γ : Ctx} {vals : AMap WireValue} (hΓ : CtxOK Γ) (hv : ValsOK Γ vals) (n : String) :
    Dump.bitsOf vals n < 2 ^ 128 := by
  unfold Dump.bitsOf
  cases hg : vals.get? n with
  | none => exact Nat.pow_pos (by decide)
  | some v =>
    obtain ⟨h1, h2⟩ := hv n v hg
    have hok := hΓ n _ h1
    simp only
    cases hw : v.width with
    | unlimited => rw [hw] at h2; exact h2
    | bits k =>
      rw [hw] at h2 hok
      exact Nat.lt_of_lt_of_le h2 (Nat.pow_le_pow_right (by decide) hok)

/-- **The value bound of `GoodBank`**: in every state an accepted program reaches from its initial state, on any memory
    image, every wire (in particular every register output) holds a value below `2^128`. -/
theorem C16_values_fit (fl : Flags) (cc : CharClass) (o : Orders) (stmts : List Stmt) (p : Program)
    (ho : OrdersOK o) (hwf : StmtsWF stmts) (h : Program.new fl cc o y86FixedFunctions stmts = .ok p)
    (mem : Mem) (hmem : mem.BytesOK) (n : Nat) (s0 s : State) (h0 : State.init p mem = .ok s0)
    (hrun : runN fl p n s0 = .ok s) : ∀ name, Dump.bitsOf s.values name < 2 ^ 128 := by
  obtain ⟨W, known, hp, vals, hv1, hv2, hv3, hv4⟩ := Program_new_sound fl cc o stmts p ho hwf h
  have hinit : State.init p mem = .ok { values := vals, regs := List.replicate 16 0, mem := mem } := by
    simp [State.init, hv1, bind, Except.bind, pure, Except.pure]
  rw [hinit] at h0
  simp only [Except.ok.injEq] at h0
  subst h0
  have hs : StateOK W.toCtx { values := vals, regs := List.replicate 16 0, mem := mem } :=
    { vals := hv2, regsLen := by simp, regsBound := by intro r hr; simp at hr; rw [hr]; simp [U64]
      memBytes := hmem }
  rcases C07_soundness hp n _ hs hv3 hv4 with ⟨s', h1, hs', _⟩ | h1
  · rw [h1] at hrun
    simp only [Except.ok.injEq] at hrun
    subst hrun
    exact bitsOf_fit hp.ctx hs'.vals
  · rw [h1] at hrun
    cases hrun

/-! ## The hypothesis of the read-back theorem -/

namespace Dump

theorem byLetter_subset (banks : List RegisterBank) : ∀ q ∈ byLetter banks, q.2 ∈ banks := by
  unfold byLetter
  have key : ∀ (l : List RegisterBank) (acc : List (Char × RegisterBank)) (P : RegisterBank → Prop),
      (∀ b ∈ l, P b) → (∀ q ∈ acc, P q.2) →
      ∀ q ∈ l.foldl (fun acc b =>
        let c := letterOf b
        if acc.any (fun p => p.1 == c) then acc.map (fun p => if p.1 == c then (c, b) else p) else acc ++ [(c, b)]) acc,
        P q.2 := by
    intro l
    induction l with
    | nil => intro acc P _ hacc q hq; exact hacc q hq
    | cons b rest ih =>
      intro acc P hl hacc q hq
      rw [List.foldl_cons] at hq
      refine ih _ P (fun b' hb' => hl b' (List.mem_cons_of_mem _ hb')) ?_ q hq
      intro q' hq'
      simp only at hq'
      split at hq'
      · obtain ⟨q0, hq0, rfl⟩ := List.mem_map.mp hq'
        split
        · exact hl b List.mem_cons_self
        · exact hacc q0 hq0
      · rcases List.mem_append.mp hq' with h | h
        · exact hacc q' h
        · simp only [List.mem_cons, List.not_mem_nil, or_false] at h
          subst h
          exact hl b List.mem_cons_self
  exact key banks [] (· ∈ banks) (fun b hb => hb) (by intro q hq; cases hq)

/-- the dump prints banks of the program only -/
theorem printedBanks_subset (banks : List RegisterBank) : ∀ b ∈ printedBanks banks, b ∈ banks := by
  intro b hb
  unfold printedBanks at hb
  simp only at hb
  obtain ⟨c, _, hc⟩ := List.mem_filterMap.mp hb
  unfold bankFor at hc
  cases hf : (byLetter banks).find? (fun p => p.1 == c) with
  | none => rw [hf] at hc; cases hc
  | some q =>
    rw [hf] at hc
    simp only [Option.map_some, Option.some.injEq] at hc
    subst hc
    exact byLetter_subset banks q (List.mem_of_find?_eq_some hf)

end Dump

/-- **`GoodBank` is automatic for a program parsed from a text**: in every state the accepted program reaches from its
    initial state, every bank the dump prints has an identifier as label, identifiers as register names, and values
    that fit 128 bits -- the hypothesis `hbanks` of `C16_dump_readback`. -/
theorem C16_goodBank_from_text (cls : CharCls) (hc : ClsSane cls) (text : List Char) (stmts : List Stmt)
    (hp : Parser.parseProgram cls text = some stmts)
    (fl : Flags) (cc : CharClass) (o : Orders) (p : Program) (ho : OrdersOK o) (hwf : StmtsWF stmts)
    (h : Program.new fl cc o y86FixedFunctions stmts = .ok p)
    (mem : Mem) (hmem : mem.BytesOK) (n : Nat) (s0 s : State) (h0 : State.init p mem = .ok s0)
    (hrun : runN fl p n s0 = .ok s) :
    ∀ b ∈ Dump.printedBanks p.banks, Dump.GoodBank s.values b := by
  intro b hb
  obtain ⟨h1, h2⟩ := C16_names_from_text cls hc text stmts hp fl cc o p h b (Dump.printedBanks_subset p.banks b hb)
  exact ⟨h1, h2, fun sg _ => C16_values_fit fl cc o stmts p ho hwf h mem hmem n s0 s h0 hrun sg.2.1⟩

/-- the read-back theorem for a program parsed from a text: the hypothesis on the banks is discharged -/
theorem C16_dump_readback_from_text (cls : CharCls) (hc : ClsSane cls) (text : List Char) (stmts : List Stmt)
    (hp : Parser.parseProgram cls text = some stmts)
    (fl : Flags) (cc : CharClass) (o : Orders) (p : Program) (ho : OrdersOK o) (hwf : StmtsWF stmts)
    (h : Program.new fl cc o y86FixedFunctions stmts = .ok p)
    (mem : Mem) (hmem : mem.BytesOK) (n : Nat) (s0 s : State) (h0 : State.init p mem = .ok s0)
    (hrun : runN fl p n s0 = .ok s) (timeout : Nat) (showBanks : Bool)
    (hr : ∀ i, i < 15 → s.regs.getD i 0 < 2 ^ 64) (hm : SortedFrom 0 s.mem) (hb : ∀ kv ∈ s.mem, kv.2 < 256)
    (hcyc : s.cycle < 10 ^ 45) :
    let P := Spec.DumpFormat.parse (Dump.state s p.banks timeout showBanks)
    P.banks = (if showBanks && !p.banks.isEmpty then (Dump.printedBanks p.banks).map (Dump.bankEntry s.values) else []) ∧
    P.bytes = s.mem ∧ P.framed = true ∧ P.openBank = false :=
  have H := C16_dump_readback s p.banks timeout showBanks hr hm hb
    (fun _ => C16_goodBank_from_text cls hc text stmts hp fl cc o p ho hwf h mem hmem n s0 s h0 hrun) hcyc
  ⟨H.2.1, H.2.2.1, H.2.2.2.1, H.2.2.2.2.1⟩

#print axioms Lexer.identifier_shape
#print axioms Lexer.identifier_chars
#print axioms Lexer.asciiCls_sane
#print axioms Parser.names_are_tokens
#print axioms Program_new_banks_from_decls
#print axioms C16_names_from_text
#print axioms C16_names_are_identifiers
#print axioms C16_values_fit
#print axioms C16_goodBank_from_text
#print axioms C16_dump_readback_from_text
