import Hcl.Proofs.EvalCorrect
import Hcl.Proofs.CheckSpec
import Hcl.Proofs.FlagRun

/-!
# C17 — each strictness option changes exactly the check it names, nothing else
-/

/-- **C17, evaluation.**  The strictness options never influence evaluation: an expression accepted
    under two option sets has the same width under both and evaluates to the same result under both,
    for every valuation. -/
theorem C17_eval_flag_independent {fl₁ fl₂ : Flags} {Γ : Ctx} {κ σ : Env} (hΓ : CtxOK Γ) (hσ : EnvOK Γ σ)
    (e : Ex) (w₁ w₂ : Width) (hwf : wfEx e = true)
    (h₁ : check fl₁ Γ κ e = .ok w₁) (h₂ : check fl₂ Γ κ e = .ok w₂) :
    w₁ = w₂ ∧ ev fl₁ σ (fixMux fl₁ Γ κ e) = ev fl₂ σ (fixMux fl₂ Γ κ e) := by
  obtain ⟨_, hs1, hv1⟩ := ev_correct hΓ e w₁ (hσ.on _) hwf h₁
  obtain ⟨_, hs2, hv2⟩ := ev_correct hΓ e w₂ (hσ.on _) hwf h₂
  have hw : w₁ = w₂ := by rw [hs1, hs2]
  subst hw
  refine ⟨rfl, ?_⟩
  cases hd : Spec.dv Γ (val σ) e with
  | none => simp only [hd] at hv1 hv2; rw [hv1, hv2]
  | some v => simp only [hd] at hv1 hv2; rw [hv1.1, hv2.1]

/-- the flags that are off only ever remove a rejection: an expression accepted with every option on
    is accepted, at the same width, with any subset of the options -/
def allOn : Flags := ⟨true, true, true, true, true⟩

/-- **C17, acceptance.** For every combination of the five options, the checker accepts an expression
    exactly when it passes the always-on rules plus the rules of the options that are enabled
    (`Spec.typeOf` takes the flags as a parameter and mentions each flag only in the rule it names). -/
theorem C17_accept (fl : Flags) (Γ : Ctx) (κ : Env) (e : Ex) (w : Width) :
    check fl Γ κ e = .ok w ↔ Spec.typeOf fl Γ (alwaysTrue fl κ) e = some w :=
  C08_expr fl Γ κ e w

/-! ### whole programs -/

/-- **C17, programs**: a statement list accepted under two combinations of the strictness options is built into the
    same program under both: the same constants, the same actions (the width fix-up of case expressions included), the
    same register banks and tables -/
theorem C17_accepted_same_program (fl₁ fl₂ : Flags) (cls : CharClass) (o : Orders) (stmts : List Stmt) (p₁ p₂ : Program)
    (hwf : StmtsWF stmts)
    (h₁ : Program.new fl₁ cls o y86FixedFunctions stmts = .ok p₁)
    (h₂ : Program.new fl₂ cls o y86FixedFunctions stmts = .ok p₂) : p₁ = p₂ :=
  Program_new_flag fl₁ fl₂ cls o stmts p₁ p₂ hwf h₁ h₂

/-- **C17, "a program accepted under two combinations simulates identically under both"**: from the initial state on any
    memory image, with any timeout, the run loop gives the same answer under both option sets -- the same final state
    (every wire, register, memory byte, the status and the cycle count) or the same division-by-zero report -/
theorem C17_accepted_same_run (fl₁ fl₂ : Flags) (cls : CharClass) (o : Orders) (stmts : List Stmt) (p₁ p₂ : Program)
    (ho : OrdersOK o) (hwf : StmtsWF stmts)
    (h₁ : Program.new fl₁ cls o y86FixedFunctions stmts = .ok p₁)
    (h₂ : Program.new fl₂ cls o y86FixedFunctions stmts = .ok p₂) (mem : Mem) (hmem : mem.BytesOK) (timeout fuel : Nat) :
    p₁ = p₂ ∧ ∃ s0, State.init p₁ mem = .ok s0 ∧ runLoop fl₁ p₁ timeout fuel s0 = runLoop fl₂ p₂ timeout fuel s0 :=
  Program_new_flag_run fl₁ fl₂ cls o stmts p₁ p₂ ho hwf h₁ h₂ mem hmem timeout fuel
