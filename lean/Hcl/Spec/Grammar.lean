/-!
# Operator precedence of HCL as documented (specification)

From tightest to loosest; binary operators of one level group left to right, except comparisons,
which do not chain.
-/

namespace Spec

/-- the levels of binary operators, tightest first, with the operator symbols of each and whether the level chains -/
def precTable : List (List String × Bool) :=
  [(["*", "/"], true), (["+", "-"], true), (["<<", ">>"], true), (["&"], true), (["^"], true), (["|"], true),
   (["in"], false), (["==", "!=", "<=", ">=", "<", ">"], false), (["&&"], true), (["||"], true)]

/-- CS:APP values of the predefined names -/
def csappValues : List (String × Nat) :=
  [("STAT_BUB", 0), ("STAT_AOK", 1), ("STAT_HLT", 2), ("STAT_ADR", 3), ("STAT_INS", 4), ("STAT_PIP", 6),
   ("REG_RAX", 0), ("REG_RCX", 1), ("REG_RDX", 2), ("REG_RBX", 3), ("REG_RSP", 4), ("REG_RBP", 5), ("REG_RSI", 6), ("REG_RDI", 7),
   ("REG_R8", 8), ("REG_R9", 9), ("REG_R10", 10), ("REG_R11", 11), ("REG_R12", 12), ("REG_R13", 13), ("REG_R14", 14), ("REG_NONE", 15),
   ("HALT", 0), ("NOP", 1), ("RRMOVQ", 2), ("IRMOVQ", 3), ("RMMOVQ", 4), ("MRMOVQ", 5), ("OPQ", 6), ("JXX", 7), ("CALL", 8), ("RET", 9),
   ("PUSHQ", 10), ("POPQ", 11), ("CMOVXX", 2),
   ("ALWAYS", 0), ("LE", 1), ("LT", 2), ("EQ", 3), ("NE", 4), ("GE", 5), ("GT", 6),
   ("ADDQ", 0), ("SUBQ", 1), ("ANDQ", 2), ("XORQ", 3), ("true", 1), ("false", 0), ("TRUE", 1), ("FALSE", 0)]

end Spec
