import Hcl.Proofs.DumpReadBack
open Rust
open Spec.DumpFormat

/-! # The whole state dump can be read back -/

namespace Spec.DumpFormat

/-! ### `String.toNat?` on decimal digits -/

theorem forIn_digits (f : Char → Option Bool × Bool → Id (ForInStep (Option Bool × Bool))) :
    ∀ (l : List Char) (b : Bool), (∀ c ∈ l, ∀ b, f c (none, b) = pure (ForInStep.yield (none, true))) →
    forIn l (none, b) f = (pure (none, if l.isEmpty then b else true) : Id _)
  | [], b, _ => rfl
  | c :: l, b, h => by
    rw [List.forIn_cons, h c (List.mem_cons_self ..) b]
    simp only [pure_bind]
    rw [forIn_digits f l true (fun c' hc' => h c' (List.mem_cons_of_mem _ hc'))]
    cases l <;> rfl

theorem isDigit_ne_underscore (c : Char) (h : c.isDigit = true) : c ≠ '_' := by
  intro e; subst e; revert h; decide

/-- a non-empty list of decimal digits is read as the number it denotes -/
theorem toNat?_digits (l : List Char) (hne : l ≠ []) (hd : ∀ c ∈ l, c.isDigit = true) :
    (String.ofList l).toNat? = some (l.foldl (fun n c => n * 10 + (c.toNat - 48)) 0) := by
  unfold String.toNat? String.Slice.toNat?
  have h1 : (String.ofList l).toSlice.isNat = true := by
    unfold String.Slice.isNat
    simp only [String.Slice.forIn_eq_forIn_toList, String.copy_toSlice, String.toList_ofList]
    rw [forIn_digits _ l false]
    · cases l with
      | nil => exact absurd rfl hne
      | cons _ _ => rfl
    · intro c hc b
      simp only [isDigit_ne_underscore c (hd c hc), hd c hc, ↓reduceIte]
  rw [if_pos h1, String.Slice.foldl_eq_foldl_toList, String.copy_toSlice, String.toList_ofList]
  congr 1
  have : ∀ (l : List Char) (a : Nat), (∀ c ∈ l, c.isDigit = true) →
      List.foldl (fun n c => if c = '_' then n else n * 10 + (c.toNat - '0'.toNat)) a l =
        List.foldl (fun n c => n * 10 + (c.toNat - 48)) a l := by
    intro l
    induction l with
    | nil => intro a _; rfl
    | cons c l ih =>
      intro a h
      rw [List.foldl_cons, List.foldl_cons, if_neg (isDigit_ne_underscore c (h c (List.mem_cons_self ..)))]
      exact ih _ (fun c' hc' => h c' (List.mem_cons_of_mem _ hc'))
  exact this l 0 hd

theorem decDigit_ok : ∀ d, d < 10 → (Char.ofNat (48 + d)).isDigit = true ∧ (Char.ofNat (48 + d)).toNat - 48 = d := by decide

theorem decDigits_isDigit : ∀ (fuel n : Nat) (c : Char), c ∈ decDigits fuel n → c.isDigit = true
  | 0, _, c, h => by simp [decDigits] at h
  | fuel + 1, n, c, h => by
    simp only [decDigits] at h
    split at h
    · rename_i hn
      simp only [List.mem_cons, List.not_mem_nil, or_false] at h
      subst h; exact (decDigit_ok n hn).1
    · rcases List.mem_append.mp h with h | h
      · exact decDigits_isDigit fuel _ c h
      · simp only [List.mem_cons, List.not_mem_nil, or_false] at h
        subst h; exact (decDigit_ok (n % 10) (Nat.mod_lt _ (by decide))).1

theorem decDigits_ne_nil : ∀ (fuel n : Nat), 0 < fuel → decDigits fuel n ≠ []
  | fuel + 1, n, _ => by
    simp only [decDigits]
    split <;> simp

theorem decDigits_fold : ∀ (fuel n : Nat), n < 10 ^ fuel →
    (decDigits fuel n).foldl (fun n c => n * 10 + (c.toNat - 48)) 0 = n
  | 0, n, h => by simp at h; subst h; rfl
  | fuel + 1, n, h => by
    simp only [decDigits]
    split
    · rename_i hn
      simp only [List.foldl_cons, List.foldl_nil, (decDigit_ok n hn).2]; omega
    · have hdiv : n / 10 < 10 ^ fuel := by
        rw [Nat.pow_succ] at h
        exact Nat.div_lt_of_lt_mul (by omega)
      rw [List.foldl_append, decDigits_fold fuel (n / 10) hdiv]
      simp only [List.foldl_cons, List.foldl_nil, (decDigit_ok (n % 10) (Nat.mod_lt _ (by decide))).2]
      omega

/-- **decimal round trip**: `String.toNat?` reads `toDec n` back as `n` -/
theorem toNat?_toDec (n : Nat) (h : n < 10 ^ 45) : (toDec n).toNat? = some n := by
  unfold toDec
  rw [toNat?_digits _ (decDigits_ne_nil 45 n (by decide)) (decDigits_isDigit 45 n), decDigits_fold 45 n h]

end Spec.DumpFormat

namespace Spec.DumpFormat
open Dump

/-! ### the lines outside the sections -/

theorem stripPrefix_append (a b : List Char) : stripPrefix a (a ++ b) = some b := by
  unfold stripPrefix
  rw [if_pos (List.isPrefixOf_iff_prefix.mpr (List.prefix_append a b)), List.drop_left]

/-- a line of the frame that starts and ends with `+`: the reader leaves the memory section, nothing else changes -/
theorem parseLine_plus (p : Parsed) (mid : List Char) :
    parseLine p ('+' :: (mid ++ ['+'])) = { p with inMemory := false } := by
  unfold parseLine
  have h1 : stripPrefix "Cycles run: ".toList ('+' :: (mid ++ ['+'])) = none := by
    rw [show "Cycles run: ".toList = 'C' :: "ycles run: ".toList from rfl]
    simp [stripPrefix, List.isPrefixOf]
  have h2 : stripPrefix "Error code: ".toList ('+' :: (mid ++ ['+'])) = none := by
    rw [show "Error code: ".toList = 'E' :: "rror code: ".toList from rfl]
    simp [stripPrefix, List.isPrefixOf]
  have h3 : ('+' :: (mid ++ ['+'])).getLastD ' ' = '+' := by
    rw [show '+' :: (mid ++ ['+']) = ('+' :: mid) ++ ['+'] from rfl, getLastD_snoc]
  have h4 : delim '+' = true := by decide
  simp only [h1, h2, h3, h4, List.isEmpty_cons, Bool.false_eq_true, ↓reduceIte, List.headD_cons, Bool.and_true, beq_self_eq_true]

/-- the `Cycles run:` line -/
theorem parseLine_cycles (p : Parsed) (r : List Char) :
    parseLine p ("Cycles run: ".toList ++ r) = { p with cyclesRun := (String.ofList r).toNat? } := by
  unfold parseLine
  have h0 : ("Cycles run: ".toList ++ r).isEmpty = false := by
    rw [show "Cycles run: ".toList = 'C' :: "ycles run: ".toList from rfl]; rfl
  simp only [h0, stripPrefix_append, Bool.false_eq_true, ↓reduceIte]

/-- the `Error code:` line -/
theorem parseLine_error (p : Parsed) (r : List Char) :
    parseLine p ("Error code: ".toList ++ r) = { p with errorCode := some r } := by
  unfold parseLine
  have h0 : ("Error code: ".toList ++ r).isEmpty = false := by
    rw [show "Error code: ".toList = 'E' :: "rror code: ".toList from rfl]; rfl
  have h1 : stripPrefix "Cycles run: ".toList ("Error code: ".toList ++ r) = none := by
    rw [show "Cycles run: ".toList = 'C' :: "ycles run: ".toList from rfl,
      show "Error code: ".toList = 'E' :: "rror code: ".toList from rfl]
    simp [stripPrefix, List.isPrefixOf]
  simp only [h0, h1, stripPrefix_append, Bool.false_eq_true, ↓reduceIte]

end Spec.DumpFormat

namespace Dump

/-! ### header, footer and tail of `dump_y86` -/

/-- a text that is one line of the frame from `+` to `+` -/
def PlusText (t : String) : Prop := ∃ mid, NoNl mid ∧ t.toList = '+' :: (mid ++ ['+', '\n'])

theorem readLines_plus (t : String) (h : PlusText t) (p : Parsed) (rest : List Char) :
    readLines p (t.toList ++ rest) = readLines { p with inMemory := false } rest := by
  obtain ⟨mid, hm, e⟩ := h
  have e2 : t.toList ++ rest = ('+' :: (mid ++ ['+'])) ++ '\n' :: rest := by
    rw [e]; simp [List.append_assoc]
  rw [e2, readLines_line _ _ _ (nn_cons (by decide) (nn_append hm (nn_cons (by decide) nn_nil))), parseLine_plus]

theorem nn_dec (fuel n : Nat) : NoNl (decDigits fuel n) := by
  intro c hc e
  have := decDigits_isDigit fuel n c hc
  subst e; revert this; decide

theorem toDec_toList (n : Nat) : (toDec n).toList = decDigits 45 n := by
  unfold toDec; rw [String.toList_ofList]

theorem nn_decPad (w n : Nat) : NoNl (decPad w n).toList := by
  unfold decPad padLeft
  rw [String.toList_ofList]
  exact nn_append (nn_spaces _) (nn_dec 45 n)

def stateHd (s : State) (timeout : Nat) : String :=
  if halted s then "+----------------------- halted in state: ------------------------------+\n"
    else if timedOut s timeout then "+------------ timed out after " ++ decPad 5 s.cycle ++ " cycles in state: -------------------+\n"
    else if isDone s timeout then "+------------------- error caused in state: ----------------------------+\n"
    else "+------------------- between cycles " ++ decPad 4 s.cycle ++ " and " ++ decPad 4 (s.cycle + 1) ++ " ----------------------+\n"

def stateFt (s : State) (timeout : Nat) : String :=
  if halted s then "+--------------------- (end of halted state) ---------------------------+\n"
    else if isDone s timeout && !timedOut s timeout then "+-------------------- (end of error state) -----------------------------+\n"
    else "+-----------------------------------------------------------------------+\n"

def stateTail (s : State) (timeout : Nat) : String :=
  if isDone s timeout && !timedOut s timeout then
      "Cycles run: " ++ toDec s.cycle ++ "\n" ++
        (if !halted s && !timedOut s timeout then "Error code: " ++ statusName (statusOr s 255) ++ "\n" else "")
    else ""

def stateBanks (s : State) (banks : List RegisterBank) (showBanks : Bool) : String :=
  if showBanks && !banks.isEmpty then customRegisters s.values banks else ""

theorem state_eq (s : State) (banks : List RegisterBank) (timeout : Nat) (showBanks : Bool) :
    Dump.state s banks timeout showBanks =
      stateHd s timeout ++ programRegisters s.regs ++ stateBanks s banks showBanks ++ memory s.mem ++ stateFt s timeout ++
        stateTail s timeout := rfl

theorem stateHd_plus (s : State) (timeout : Nat) : PlusText (stateHd s timeout) := by
  unfold stateHd
  split
  · exact ⟨"----------------------- halted in state: ------------------------------".toList, by unfold NoNl; decide, rfl⟩
  · split
    · refine ⟨"------------ timed out after ".toList ++ ((decPad 5 s.cycle).toList ++ " cycles in state: -------------------".toList),
        nn_append (by unfold NoNl; decide) (nn_append (nn_decPad _ _) (by unfold NoNl; decide)), ?_⟩
      simp only [String.toList_append]
      rw [show "+------------ timed out after ".toList = '+' :: "------------ timed out after ".toList from rfl,
        show " cycles in state: -------------------+\n".toList = " cycles in state: -------------------".toList ++ ['+', '\n'] from rfl]
      simp [List.append_assoc]
    · split
      · exact ⟨"------------------- error caused in state: ----------------------------".toList, by unfold NoNl; decide, rfl⟩
      · refine ⟨"------------------- between cycles ".toList ++ ((decPad 4 s.cycle).toList ++ (" and ".toList ++
            ((decPad 4 (s.cycle + 1)).toList ++ " ----------------------".toList))),
          nn_append (by unfold NoNl; decide) (nn_append (nn_decPad _ _) (nn_append (by unfold NoNl; decide)
            (nn_append (nn_decPad _ _) (by unfold NoNl; decide)))), ?_⟩
        simp only [String.toList_append]
        rw [show "+------------------- between cycles ".toList = '+' :: "------------------- between cycles ".toList from rfl,
          show " ----------------------+\n".toList = " ----------------------".toList ++ ['+', '\n'] from rfl]
        simp [List.append_assoc]

theorem stateFt_plus (s : State) (timeout : Nat) : PlusText (stateFt s timeout) := by
  unfold stateFt
  split
  · exact ⟨"--------------------- (end of halted state) ---------------------------".toList, by unfold NoNl; decide, rfl⟩
  · split
    · exact ⟨"-------------------- (end of error state) -----------------------------".toList, by unfold NoNl; decide, rfl⟩
    · exact ⟨"-----------------------------------------------------------------------".toList, by unfold NoNl; decide, rfl⟩

theorem nn_statusName (st : Nat) : NoNl (statusName st).toList := by
  unfold statusName
  split
  · unfold NoNl; decide
  · unfold NoNl; decide
  · unfold NoNl; decide
  · unfold NoNl; decide
  · unfold NoNl; decide
  · unfold NoNl; decide
  · rw [String.toList_append]
    rw [toDec_toList]
    exact nn_append (nn_dec 45 _) (by unfold NoNl; decide)

/-- the state after the tail: the number of cycles, and the error line as it stands -/
def tailState (s : State) (timeout : Nat) (p : Parsed) : Parsed :=
  if isDone s timeout && !timedOut s timeout then
    { p with cyclesRun := some s.cycle,
             errorCode := if !halted s && !timedOut s timeout then some (statusName (statusOr s 255)).toList else p.errorCode }
  else p

theorem readLines_tail (s : State) (timeout : Nat) (hc : s.cycle < 10 ^ 45) (p : Parsed) :
    readLines p (stateTail s timeout).toList = tailState s timeout p := by
  unfold stateTail tailState
  split
  · have hcy : NoNl ("Cycles run: ".toList ++ (toDec s.cycle).toList) := by
      rw [toDec_toList]
      exact nn_append (by unfold NoNl; decide) (nn_dec 45 _)
    split
    · have e : ("Cycles run: " ++ toDec s.cycle ++ "\n" ++ ("Error code: " ++ statusName (statusOr s 255) ++ "\n")).toList =
          ("Cycles run: ".toList ++ (toDec s.cycle).toList) ++ '\n' ::
            (("Error code: ".toList ++ (statusName (statusOr s 255)).toList) ++ '\n' :: []) := by
        simp only [String.toList_append]
        rw [show "\n".toList = ['\n'] from rfl]
        simp [List.append_assoc]
      rw [e, readLines_line _ _ _ hcy, parseLine_cycles, String.ofList_toList, toNat?_toDec _ hc,
        readLines_line _ _ _ (nn_append (by unfold NoNl; decide) (nn_statusName _)), parseLine_error, readLines_nil]
    · have e : ("Cycles run: " ++ toDec s.cycle ++ "\n" ++ "").toList =
          ("Cycles run: ".toList ++ (toDec s.cycle).toList) ++ '\n' :: [] := by
        simp only [String.toList_append]
        rw [show "\n".toList = ['\n'] from rfl, show "".toList = [] from rfl]
        simp
      rw [e, readLines_line _ _ _ hcy, parseLine_cycles, String.ofList_toList, toNat?_toDec _ hc, readLines_nil]
  · exact readLines_nil p

theorem readLines_stateBanks (s : State) (banks : List RegisterBank) (showBanks : Bool)
    (hbanks : showBanks = true → ∀ b ∈ printedBanks banks, GoodBank s.values b) (p : Parsed) (hob : p.openBank = false)
    (rest : List Char) :
    readLines p ((stateBanks s banks showBanks).toList ++ rest) =
      readLines { p with banks := p.banks ++
        (if showBanks && !banks.isEmpty then (printedBanks banks).map (bankEntry s.values) else []) } rest := by
  unfold stateBanks
  split
  · rename_i h
    have hs : showBanks = true := by
      cases showBanks
      · simp at h
      · rfl
    unfold customRegisters
    rw [banks_readLines s.values _ (hbanks hs) p hob]
  · rw [parsed_banks_nil]; rfl

end Dump

namespace Dump

/-! ### the whole dump -/

/-- the fifteen program registers as the reader records them -/
def regPairsOf (r : List Nat) : List (String × Nat) :=
  [("RAX", r.getD 0 0), ("RCX", r.getD 1 0), ("RDX", r.getD 2 0), ("RBX", r.getD 3 0), ("RSP", r.getD 4 0), ("RBP", r.getD 5 0),
   ("RSI", r.getD 6 0), ("RDI", r.getD 7 0), ("R8", r.getD 8 0), ("R9", r.getD 9 0), ("R10", r.getD 10 0), ("R11", r.getD 11 0),
   ("R12", r.getD 12 0), ("R13", r.getD 13 0), ("R14", r.getD 14 0)]

/-- **everything the reader records for a whole dump**, as one state -/
theorem state_parse (s : State) (banks : List RegisterBank) (timeout : Nat) (showBanks : Bool)
    (hr : ∀ i, i < 15 → s.regs.getD i 0 < 2 ^ 64) (hm : SortedFrom 0 s.mem) (hb : ∀ kv ∈ s.mem, kv.2 < 256)
    (hbanks : showBanks = true → ∀ b ∈ printedBanks banks, GoodBank s.values b) (hc : s.cycle < 10 ^ 45) :
    parse (Dump.state s banks timeout showBanks) =
      tailState s timeout
        { regs := regPairsOf s.regs,
          banks := if showBanks && !banks.isEmpty then (printedBanks banks).map (bankEntry s.values) else [],
          bytes := s.mem, framed := true, openBank := false, inMemory := false, cyclesRun := none, errorCode := none } := by
  rw [parse_eq, state_eq]
  simp only [String.toList_append, List.append_assoc]
  rw [readLines_plus _ (stateHd_plus s timeout), programRegisters_readLines s.regs hr _ rfl rfl,
    readLines_stateBanks s banks showBanks hbanks _ rfl, memory_readLines s.mem hm hb _ rfl,
    readLines_plus _ (stateFt_plus s timeout), readLines_tail s timeout hc]
  rfl

theorem tailState_fields (s : State) (timeout : Nat) (p : Parsed) :
    (tailState s timeout p).regs = p.regs ∧ (tailState s timeout p).banks = p.banks ∧ (tailState s timeout p).bytes = p.bytes ∧
    (tailState s timeout p).framed = p.framed ∧ (tailState s timeout p).openBank = p.openBank ∧
    (tailState s timeout p).inMemory = p.inMemory ∧
    (tailState s timeout p).cyclesRun = (if isDone s timeout && !timedOut s timeout then some s.cycle else p.cyclesRun) := by
  unfold tailState
  split <;> exact ⟨rfl, rfl, rfl, rfl, rfl, rfl, rfl⟩

/-- **the whole state dump can be read back**: from the text of `dump_y86` the reader recovers the fifteen program
    registers, the groups of the printed register banks (when they are shown), exactly the memory, and the number of
    cycles run when the simulation is over; every framed line passes the frame test and no group is left open -/
theorem state_readback (s : State) (banks : List RegisterBank) (timeout : Nat) (showBanks : Bool)
    (hr : ∀ i, i < 15 → s.regs.getD i 0 < 2 ^ 64) (hm : SortedFrom 0 s.mem) (hb : ∀ kv ∈ s.mem, kv.2 < 256)
    (hbanks : showBanks = true → ∀ b ∈ Dump.printedBanks banks, GoodBank s.values b)
    (hc : s.cycle < 10 ^ 45) :
    let P := parse (Dump.state s banks timeout showBanks)
    P.regs = [("RAX", s.regs.getD 0 0), ("RCX", s.regs.getD 1 0), ("RDX", s.regs.getD 2 0), ("RBX", s.regs.getD 3 0),
              ("RSP", s.regs.getD 4 0), ("RBP", s.regs.getD 5 0), ("RSI", s.regs.getD 6 0), ("RDI", s.regs.getD 7 0),
              ("R8", s.regs.getD 8 0), ("R9", s.regs.getD 9 0), ("R10", s.regs.getD 10 0), ("R11", s.regs.getD 11 0),
              ("R12", s.regs.getD 12 0), ("R13", s.regs.getD 13 0), ("R14", s.regs.getD 14 0)] ∧
    P.banks = (if showBanks && !banks.isEmpty then (Dump.printedBanks banks).map (bankEntry s.values) else []) ∧
    P.bytes = s.mem ∧ P.framed = true ∧ P.openBank = false ∧
    P.cyclesRun = (if isDone s timeout && !timedOut s timeout then some s.cycle else none) := by
  intro P
  have hP : P = _ := state_parse s banks timeout showBanks hr hm hb hbanks hc
  obtain ⟨h1, h2, h3, h4, h5, _, h7⟩ := tailState_fields s timeout
    { regs := regPairsOf s.regs,
      banks := if showBanks && !banks.isEmpty then (printedBanks banks).map (bankEntry s.values) else [],
      bytes := s.mem, framed := true, openBank := false, inMemory := false, cyclesRun := none, errorCode := none }
  rw [hP]
  exact ⟨h1, h2, h3, h4, h5, h7⟩

/-- the error line is kept verbatim when it is printed, and the reader ends outside the memory section -/
theorem state_readback_error (s : State) (banks : List RegisterBank) (timeout : Nat) (showBanks : Bool)
    (hr : ∀ i, i < 15 → s.regs.getD i 0 < 2 ^ 64) (hm : SortedFrom 0 s.mem) (hb : ∀ kv ∈ s.mem, kv.2 < 256)
    (hbanks : showBanks = true → ∀ b ∈ Dump.printedBanks banks, GoodBank s.values b) (hc : s.cycle < 10 ^ 45) :
    (parse (Dump.state s banks timeout showBanks)).errorCode =
      (if (isDone s timeout && !timedOut s timeout) && (!halted s && !timedOut s timeout)
        then some (statusName (statusOr s 255)).toList else none) ∧
    (parse (Dump.state s banks timeout showBanks)).inMemory = false := by
  rw [state_parse s banks timeout showBanks hr hm hb hbanks hc]
  unfold tailState
  split
  · split
    · exact ⟨by simp [*], rfl⟩
    · exact ⟨by simp [*], rfl⟩
  · exact ⟨by simp [*], rfl⟩

end Dump

#print axioms Spec.DumpFormat.toNat?_toDec
#print axioms Dump.state_parse
#print axioms Dump.state_readback
#print axioms Dump.state_readback_error
