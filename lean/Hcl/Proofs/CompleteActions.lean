import Hcl.Proofs.ActionsVerdict
import Hcl.Proofs.NoLoopStages
open Rust

/-! Sufficient, declarative conditions for `assignments_to_actions` to succeed. -/

/-- the dependency relation used for loop detection -/
def ActDep (assignments : AMap Ex) (fixed : List FixedFunction) (u v : String) : Prop :=
  (∃ e, (v, e) ∈ assignments ∧ u ∈ refs e) ∨
  (∃ f ∈ fixed, (∃ w, f.outWire = some (v, w)) ∧ u ∈ f.inWires.map (·.1))

/-- all inputs of the component are assigned -/
def Active (assignments : AMap Ex) (f : FixedFunction) : Prop :=
  ∀ i ∈ f.inWires.map (·.1), assignments.contains i = true

/-! ### the Y86 table: no input is also an output -/

def noInOutB (fixed : List FixedFunction) : Bool :=
  fixed.all fun f => fixed.all fun g =>
    match g.outWire with
    | some w => !(f.inWires.map (·.1)).contains w.1
    | none => true

theorem noInOutB_spec (fixed : List FixedFunction) (h : noInOutB fixed = true) :
    ∀ f ∈ fixed, ∀ g ∈ fixed, ∀ w, g.outWire = some w → w.1 ∉ f.inWires.map (·.1) := by
  intro f hf g hg w hw
  unfold noInOutB at h
  rw [List.all_eq_true] at h
  have h1 := h f hf
  rw [List.all_eq_true] at h1
  have h2 := h1 g hg
  rw [hw] at h2
  simpa using h2

theorem y86_hio : ∀ f ∈ y86FixedFunctions, ∀ g ∈ y86FixedFunctions, ∀ w, g.outWire = some w →
    w.1 ∉ f.inWires.map (·.1) :=
  noInOutB_spec y86FixedFunctions (by decide)

/-! ### the nodes of the assignment graph -/

theorem addDeps_nodes_upper' (known : List String) (target : String) : ∀ (srcs : List String) (g : GBuild) (n : Node),
    n ∈ (addDeps known target srcs g).nodes → n ∈ g.nodes ∨ n = target ∨ (n ∈ srcs ∧ known.contains n = false)
  | [], g, n, h => Or.inl h
  | s :: rest, g, n, h => by
    unfold addDeps at h
    simp only [List.foldl_cons] at h
    by_cases hk : known.contains s = true
    · simp only [hk, if_true] at h
      rcases addDeps_nodes_upper' known target rest g n h with h1 | h1 | h1
      · exact Or.inl h1
      · exact Or.inr (Or.inl h1)
      · exact Or.inr (Or.inr ⟨List.mem_cons_of_mem _ h1.1, h1.2⟩)
    · have hk' : known.contains s = false := by simpa using hk
      simp only [hk', Bool.false_eq_true, if_false] at h
      rcases addDeps_nodes_upper' known target rest (g.insert s target) n h with h1 | h1 | h1
      · have h1' : n ∈ setInsert (setInsert g.nodes s) target := h1
        rw [mem_setInsert, mem_setInsert] at h1'
        rcases h1' with (h2 | h2) | h2
        · exact Or.inl h2
        · exact Or.inr (Or.inr ⟨by rw [h2]; exact List.mem_cons_self, by rw [h2]; exact hk'⟩)
        · exact Or.inr (Or.inl h2)
      · exact Or.inr (Or.inl h1)
      · exact Or.inr (Or.inr ⟨List.mem_cons_of_mem _ h1.1, h1.2⟩)

theorem assignGraphFrom_nodes_upper (known : List String) : ∀ (l : List (String × Ex)) (g : GBuild) (n : Node),
    n ∈ (assignGraphFrom known l g).nodes →
    n ∈ g.nodes ∨ ∃ p ∈ l, n = p.1 ∨ (n ∈ refs p.2 ∧ known.contains n = false)
  | [], g, n, h => Or.inl h
  | p :: rest, g, n, h => by
    have hstep : assignGraphFrom known (p :: rest) g =
        assignGraphFrom known rest (addDeps known p.1 (dedupS (refs p.2)) (g.addNode p.1)) := rfl
    rw [hstep] at h
    rcases assignGraphFrom_nodes_upper known rest _ n h with h1 | ⟨q, hq, h1⟩
    · rcases addDeps_nodes_upper' known p.1 (dedupS (refs p.2)) (g.addNode p.1) n h1 with h2 | h2 | h2
      · have h2' : n ∈ setInsert g.nodes p.1 := h2
        rw [mem_setInsert] at h2'
        rcases h2' with h3 | h3
        · exact Or.inl h3
        · exact Or.inr ⟨p, List.mem_cons_self, Or.inl h3⟩
      · exact Or.inr ⟨p, List.mem_cons_self, Or.inl h2⟩
      · exact Or.inr ⟨p, List.mem_cons_self, Or.inr ⟨(mem_dedupS _ _).mp h2.1, h2.2⟩⟩
    · exact Or.inr ⟨q, List.mem_cons_of_mem _ hq, h1⟩

/-- a node of the assignment graph is an assigned name or a name read by an assignment that is not known -/
theorem assignGraph_nodes_upper (assignments : AMap Ex) (known : List String) (n : Node)
    (h : n ∈ (assignGraph assignments known).nodes) :
    assignments.contains n = true ∨ ∃ p ∈ assignments, n ∈ refs p.2 ∧ known.contains n = false := by
  rw [assignGraph_eq] at h
  rcases assignGraphFrom_nodes_upper known assignments {} n h with h1 | ⟨p, hp, h1 | h1⟩
  · simp at h1
  · left
    rw [AMap.contains_iff_mem_keys]
    exact List.mem_map.mpr ⟨p, hp, h1.symm⟩
  · exact Or.inr ⟨p, hp, h1⟩

/-! ### `preprocess_fixed` reports nothing -/

section
variable (fl : Flags) (widths : AMap Width) (constants : AMap WireValue) (assignments : AMap Ex) (known : List String)

/-- what holds of the fold over the table under the conditions: no error so far, the nodes of the graph are those of the
    assignment graph and the input and output names of the active components met, and every active component with an
    output is recorded under its output -/
structure PreInv (g0 : GBuild) (done : List FixedFunction) (st : PreState) : Prop where
  errs : st.errors = []
  nodesUp : ∀ n ∈ st.graph.nodes, n ∈ g0.nodes ∨
    ∃ f ∈ done, Active assignments f ∧ (n ∈ f.inWires.map (·.1) ∨ ∃ w, f.outWire = some (n, w))
  byComplete : ∀ f ∈ done, Active assignments f → ∀ n w, f.outWire = some (n, w) → st.info.byOutput.contains n = true

theorem filter_length_ne {α : Type} (p : α → Bool) : ∀ (l : List α), (l.filter p).length ≠ l.length → ∃ x ∈ l, p x = false
  | [], h => by simp at h
  | a :: l, h => by
    by_cases hp : p a = true
    · rw [List.filter_cons_of_pos hp] at h
      simp only [List.length_cons, ne_eq, Nat.add_right_cancel_iff] at h
      obtain ⟨x, hx, hpx⟩ := filter_length_ne p l h
      exact ⟨x, List.mem_cons_of_mem _ hx, hpx⟩
    · exact ⟨a, List.mem_cons_self, by simpa using hp⟩

theorem preprocessOne_inv (g0 : GBuild) (done : List FixedFunction) (st : PreState) (f : FixedFunction)
    (hin : ∀ n ∈ f.inWires.map (·.1), known.contains n = false)
    (hout : ∀ n w, f.outWire = some (n, w) → known.contains n = false ∧ assignments.contains n = false)
    (hmand : f.mandatory = true → Active assignments f)
    (hfreshNode : ¬ Active assignments f → ∀ n w, f.outWire = some (n, w) → n ∉ st.graph.nodes)
    (hpartial : ¬ Active assignments f → (∃ i ∈ f.inWires.map (·.1), assignments.contains i = true) →
        ∃ en expr v, f.disabledIfFalse = some en ∧ assignments.get? en = some expr ∧
          (∃ ew, check fl widths.toCtx constants.toEnv expr = .ok ew) ∧
          ev fl constants.toEnv (fixMux fl widths.toCtx constants.toEnv expr) = .ok v ∧ v.bits = 0)
    (hinv : PreInv assignments g0 done st) :
    PreInv assignments g0 (done ++ [f]) (preprocessOne fl widths constants assignments known st f) := by
  have hkc : (f.inWires.map (·.1)).any known.contains = false := by
    rw [List.any_eq_false]
    intro n hn
    rw [hin n hn]; simp
  have hnodes : ∀ n ∈ st.graph.nodes, n ∈ g0.nodes ∨
      ∃ g ∈ done ++ [f], Active assignments g ∧ (n ∈ g.inWires.map (·.1) ∨ ∃ w, g.outWire = some (n, w)) := by
    intro n hn
    rcases hinv.nodesUp n hn with h | ⟨g, hg, h⟩
    · exact Or.inl h
    · exact Or.inr ⟨g, List.mem_append_left _ hg, h⟩
  unfold preprocessOne
  simp only [hkc, Bool.false_eq_true, if_false]
  by_cases hact : Active assignments f
  · have hmiss : (f.inWires.map (·.1)).filter (fun n => !assignments.contains n) = [] := by
      rw [List.filter_eq_nil_iff]
      intro n hn
      rw [hact n hn]; simp
    simp only [hmiss, List.isEmpty_nil, Bool.not_true, Bool.and_false, Bool.false_eq_true, if_false]
    cases ho : f.outWire with
    | none =>
      simp only
      refine ⟨hinv.errs, hnodes, ?_⟩
      intro g hg hga n w hgo
      rcases List.mem_append.mp hg with h | h
      · exact hinv.byComplete g h hga n w hgo
      · simp at h; subst h; rw [ho] at hgo; cases hgo
    | some ow =>
      obtain ⟨out, w⟩ := ow
      obtain ⟨h1, h2⟩ := hout out w ho
      simp only [h1, h2, Bool.or_self, Bool.false_eq_true, if_false]
      refine ⟨hinv.errs, ?_, ?_⟩
      · intro n hn
        simp only at hn
        rw [addDeps_nil_known] at hn
        rcases addDeps_nodes_upper [] out (f.inWires.map (·.1)) st.graph n hn with h | h | h
        · exact hnodes n h
        · exact Or.inr ⟨f, List.mem_append_right _ List.mem_cons_self, hact, Or.inr ⟨w, by rw [h]; exact ho⟩⟩
        · exact Or.inr ⟨f, List.mem_append_right _ List.mem_cons_self, hact, Or.inl h⟩
      · intro g hg hga n w' hgo
        simp only
        rw [AMap.contains_insert]
        rcases List.mem_append.mp hg with h | h
        · rw [hinv.byComplete g h hga n w' hgo]; rfl
        · simp at h; subst h; rw [ho] at hgo
          cases hgo
          simp
  · have hmiss : ((f.inWires.map (·.1)).filter (fun n => !assignments.contains n)).isEmpty = false := by
      cases hm : (f.inWires.map (·.1)).filter (fun n => !assignments.contains n) with
      | cons a l => rfl
      | nil =>
        exfalso
        apply hact
        intro i hi
        rw [List.filter_eq_nil_iff] at hm
        simpa using hm i hi
    have hnm : f.mandatory = false := by
      cases hm : f.mandatory with
      | false => rfl
      | true => exact absurd (hmand hm) hact
    simp only [hmiss, hnm, Bool.not_false, Bool.and_true, Bool.false_eq_true, if_false, if_true]
    have hfin : ∀ X : List Diag, X = [] →
        PreInv assignments g0 (done ++ [f]) { graph := st.graph, info := st.info, errors := X } := by
      intro X hX
      refine ⟨hX, hnodes, ?_⟩
      intro g hg' hga n w hgo
      rcases List.mem_append.mp hg' with h | h
      · exact hinv.byComplete g h hga n w hgo
      · simp at h; subst h; exact absurd hga hact
    apply hfin
    rw [hinv.errs, List.nil_append, List.append_eq_nil_iff]
    constructor
    · cases ho : f.outWire with
      | none => rfl
      | some ow =>
        obtain ⟨out, w⟩ := ow
        have : st.graph.containsNode out = false := by
          unfold GBuild.containsNode
          have := hfreshNode hact out w ho
          simpa using this
        simp only [this, Bool.false_eq_true, if_false]
    · by_cases hlen : (((f.inWires.map (·.1)).filter (fun n => !assignments.contains n)).length != f.inWires.length) = true
      · have hne : ((f.inWires.map (·.1)).filter (fun n => !assignments.contains n)).length ≠ (f.inWires.map (·.1)).length := by
          rw [List.length_map]
          simpa using hlen
        obtain ⟨i, hi, hpi⟩ := filter_length_ne _ _ hne
        have hci : assignments.contains i = true := by simpa using hpi
        obtain ⟨en, expr, v, hd, hg, ⟨ew, hc⟩, hev, hv0⟩ := hpartial hact ⟨i, hi, hci⟩
        simp only [hlen, if_true, hd, hg, hc, hev, hv0]
        simp
      · simp only [hlen, Bool.false_eq_true, if_false]

theorem preprocess_fold_inv (fixed : List FixedFunction) (ht : FixedTableOK fixed) (g0 : GBuild)
    (hg0n : ∀ n ∈ g0.nodes, assignments.contains n = true ∨ ∃ p ∈ assignments, n ∈ refs p.2 ∧ known.contains n = false)
    (hio : ∀ f ∈ fixed, ∀ g ∈ fixed, ∀ w, g.outWire = some w → w.1 ∉ f.inWires.map (·.1))
    (hin : ∀ f ∈ fixed, ∀ n ∈ f.inWires.map (·.1), known.contains n = false)
    (hout : ∀ f ∈ fixed, ∀ n w, f.outWire = some (n, w) → known.contains n = false ∧ assignments.contains n = false)
    (hmand : ∀ f ∈ fixed, f.mandatory = true → Active assignments f)
    (hunused : ∀ f ∈ fixed, ¬ Active assignments f → ∀ n w, f.outWire = some (n, w) → ∀ p ∈ assignments, n ∉ refs p.2)
    (hpartial : ∀ f ∈ fixed, ¬ Active assignments f → (∃ i ∈ f.inWires.map (·.1), assignments.contains i = true) →
        ∃ en expr v, f.disabledIfFalse = some en ∧ assignments.get? en = some expr ∧
          (∃ ew, check fl widths.toCtx constants.toEnv expr = .ok ew) ∧
          ev fl constants.toEnv (fixMux fl widths.toCtx constants.toEnv expr) = .ok v ∧ v.bits = 0) :
    ∀ (todo done : List FixedFunction) (st : PreState), done ++ todo = fixed →
      PreInv assignments g0 done st →
      PreInv assignments g0 fixed (todo.foldl (preprocessOne fl widths constants assignments known) st)
  | [], done, st, hsplit, hinv => by
    simp only [List.append_nil] at hsplit
    subst hsplit; exact hinv
  | f :: rest, done, st, hsplit, hinv => by
    simp only [List.foldl_cons]
    have hfmem : f ∈ fixed := by rw [← hsplit]; simp
    have hdone : ∀ g ∈ done, g ∈ fixed := by
      intro g hg; rw [← hsplit]; exact List.mem_append_left _ hg
    have hfreshNode : ¬ Active assignments f → ∀ n w, f.outWire = some (n, w) → n ∉ st.graph.nodes := by
      intro hna n w ho hn
      rcases hinv.nodesUp n hn with h | ⟨g, hg, _, h | ⟨w', h⟩⟩
      · rcases hg0n n h with h1 | ⟨p, hp, h1, _⟩
        · rw [(hout f hfmem n w ho).2] at h1; cases h1
        · exact hunused f hfmem hna n w ho p hp h1
      · exact hio g (hdone g hg) f hfmem (n, w) ho h
      · have hnd := ht.outs
        rw [← hsplit, List.filterMap_append, List.nodup_append] at hnd
        exact hnd.2.2 n (List.mem_filterMap.mpr ⟨g, hg, by simp [h]⟩) n
          (List.mem_filterMap.mpr ⟨f, List.mem_cons_self, by simp [ho]⟩) rfl
    have hstep := preprocessOne_inv fl widths constants assignments known g0 done st f (hin f hfmem) (hout f hfmem)
      (hmand f hfmem) hfreshNode (hpartial f hfmem) hinv
    exact preprocess_fold_inv fixed ht g0 hg0n hio hin hout hmand hunused hpartial rest (done ++ [f]) _
      (by rw [← hsplit]; simp) hstep
end

/-! ### the main theorem -/

/-- **sufficient conditions for `assignments_to_actions` to succeed**, stated about its arguments only -/
theorem assignmentsToActions_complete (fl : Flags) (o : Orders) (assignments : AMap Ex) (widths : AMap Width)
    (known : List String) (fixed : List FixedFunction) (declared : List String) (constants : AMap WireValue)
    (ho : OrdersOK o) (ht : FixedTableOK fixed) (hk : assignments.keys.Nodup)
    -- the table of components: no input is also an output
    (hio : ∀ f ∈ fixed, ∀ g ∈ fixed, ∀ w, g.outWire = some w → w.1 ∉ f.inWires.map (·.1))
    -- component names are not known names (constants / register outputs) and component outputs are not assigned
    (hin : ∀ f ∈ fixed, ∀ n ∈ f.inWires.map (·.1), known.contains n = false)
    (hout : ∀ f ∈ fixed, ∀ n w, f.outWire = some (n, w) → known.contains n = false ∧ assignments.contains n = false)
    -- mandatory components have all their inputs
    (hmand : ∀ f ∈ fixed, f.mandatory = true → Active assignments f)
    -- a component with an output that lacks an input is not used: nothing reads its output
    (hunused : ∀ f ∈ fixed, ¬ Active assignments f → ∀ n w, f.outWire = some (n, w) → ∀ p ∈ assignments, n ∉ refs p.2)
    -- a component that has some but not all of its inputs has an enable input that is assigned a checked expression
    -- evaluating to 0
    (hpartial : ∀ f ∈ fixed, ¬ Active assignments f → (∃ i ∈ f.inWires.map (·.1), assignments.contains i = true) →
        ∃ en expr v, f.disabledIfFalse = some en ∧ assignments.get? en = some expr ∧
          (∃ ew, check fl widths.toCtx constants.toEnv expr = .ok ew) ∧
          ev fl constants.toEnv (fixMux fl widths.toCtx constants.toEnv expr) = .ok v ∧ v.bits = 0)
    -- every assignment: the target has a width, the expression passes the width checker, the widths are compatible
    (hassign : ∀ n e, assignments.get? n = some e → ∃ w ew, widths.get? n = some w ∧
        check fl widths.toCtx constants.toEnv e = .ok ew ∧ (w.combine ew).isSome = true)
    -- every name read by an assignment is known, assigned, or the output of an active component
    (hread : ∀ p ∈ assignments, ∀ r ∈ refs p.2, known.contains r = true ∨ assignments.contains r = true ∨
        ∃ f ∈ fixed, (∃ w, f.outWire = some (r, w)) ∧ Active assignments f)
    -- no dependency cycle
    (hacyc : ¬ ∃ c, RelCycle (ActDep assignments fixed) c) :
    ∃ acts, assignmentsToActions fl o assignments widths known fixed declared constants = .ok acts := by
  unfold assignmentsToActions
  simp only
  obtain ⟨g0wf, g0nodes, g0edges⟩ := assignGraph_spec assignments known hk
  have g0up := assignGraph_nodes_upper assignments known
  generalize hg0 : assignGraph assignments known = g0 at g0wf g0nodes g0edges g0up ⊢
  have hinv0 : PreInv assignments g0 [] ({ graph := g0 } : PreState) :=
    ⟨rfl, fun n hn => Or.inl hn, by intro f hf; simp at hf⟩
  have hinv := preprocess_fold_inv fl widths constants assignments known fixed ht g0 g0up hio hin hout hmand hunused
    hpartial fixed [] _ (by simp) hinv0
  have hg0c : ∀ e ∈ g0.edges, assignments.contains e.2 = true := by
    intro e he
    obtain ⟨ex, hm, _⟩ := (g0edges e.1 e.2).mp he
    exact (AMap.contains_iff_mem_keys _ _).mpr (List.mem_map.mpr ⟨(e.2, ex), hm, rfl⟩)
  have hinit : PreFacts assignments known g0 [] ({ graph := g0 } : PreState) :=
    { noOut := by intro f hf; simp at hf
      byKeys := by simp [AMap.keys]
      byOut := by intro n f hf; simp at hf
      wf := g0wf
      nodes := fun n hn => hn
      edges := fun e he => Or.inl he
      noOutSub := List.Sublist.refl _
      edgesG0 := fun e he => he
      edgesFixed := by intro n f hf; simp at hf }
  have hpf := preprocess_fold_facts fl widths constants assignments known fixed ht g0 hg0c fixed [] _ (by simp) hinit
    hinv.errs
  generalize hpre : fixed.foldl (preprocessOne fl widths constants assignments known) { graph := g0 } = pre at hinv hpf ⊢
  have hpe' : pre.errors = [] := hinv.errs
  simp only [hpe', List.isEmpty_nil, Bool.not_true, Bool.false_eq_true, if_false]
  rcases pre.graph.sort_spec o hpf.wf ho with ⟨order, hso, _, hcover, hordered⟩ | ⟨c, hsc, hcyc⟩
  · rw [hso]
    simp only
    have hok : ∀ n ∈ order, nameOK fl assignments widths constants pre.info.byOutput n = true := by
      intro n hn
      have hnode : n ∈ pre.graph.nodes := (hcover n).mp hn
      unfold nameOK
      cases hget : assignments.get? n with
      | some e =>
        obtain ⟨w, ew, h1, h2, h3⟩ := hassign n e hget
        simp only [h1, h2]
        exact h3
      | none =>
        simp only
        rw [AMap.get?_isSome_iff_contains]
        have hnc : assignments.contains n = false := by
          rw [← AMap.get?_isSome_iff_contains, hget]; rfl
        rcases hinv.nodesUp n hnode with h | ⟨f, hf, hact, h | ⟨w, h⟩⟩
        · rcases g0up n h with h1 | ⟨p, hp, hr, hkn⟩
          · rw [hnc] at h1; cases h1
          · rcases hread p hp n hr with h2 | h2 | ⟨f, hf, ⟨w, hw⟩, hact⟩
            · rw [hkn] at h2; cases h2
            · rw [hnc] at h2; cases h2
            · exact hinv.byComplete f hf hact n w hw
        · have := hact n h
          rw [hnc] at this; cases this
        · exact hinv.byComplete f hf hact n w h
    have hclean : (actionsLoop fl assignments widths declared constants pre.info.byOutput order { covered := known }).Clean := by
      apply actionsLoop_clean_of fl assignments widths declared constants pre.info.byOutput order _ _ hok ⟨rfl, rfl⟩
      intro pfx x post hsplit
      constructor
      · intro e he r hr
        by_cases hkn : known.contains r = true
        · left; simpa using hkn
        · right
          have hkn' : known.contains r = false := by simpa using hkn
          have hedge : (r, x) ∈ g0.edges := (g0edges r x).mpr ⟨e, AMap.mem_of_get? _ _ _ he, hr, hkn'⟩
          exact hordered pfx x post hsplit r (hpf.edgesG0 _ hedge)
      · intro f _ h2 i hi
        right
        exact hordered pfx x post hsplit i (hpf.edgesFixed x f (AMap.mem_of_get? _ _ _ h2) i hi)
    generalize actionsLoop fl assignments widths declared constants pre.info.byOutput order { covered := known } = st at hclean
    refine ⟨st.result ++ pre.info.noOutput.map (·.action), ?_⟩
    rw [hclean.1, hclean.2]
    simp
  · exfalso
    apply hacyc
    refine ⟨c, ?_⟩
    apply relCycle_mono _ c (pre.graph.cycle_edges o ho c hcyc)
    intro u v huv
    rcases hpf.edges (u, v) huv with h1 | ⟨f, hf, hi⟩
    · obtain ⟨e, he, hr, _⟩ := (g0edges u v).mp h1
      exact Or.inl ⟨e, he, hr⟩
    · obtain ⟨hfd, hw, _⟩ := hpf.byOut v f hf
      exact Or.inr ⟨f, hfd, hw, hi⟩

/-- a relation that increases a rank has no cycle -/
theorem relPath_rank_le {R : Node → Node → Prop} (rank : Node → Nat) (hr : ∀ u v, R u v → rank u < rank v) :
    ∀ (t : List Node) (a : Node), RelPath R (a :: t) → rank a ≤ rank ((a :: t).getLast!)
  | [], a, _ => by simp
  | b :: t, a, h => by
    have h1 := hr a b h.1
    have h2 := relPath_rank_le rank hr t b h.2
    have : (a :: b :: t).getLast! = (b :: t).getLast! := by simp [List.getLast!_eq_getLast?_getD]
    rw [this]
    omega

theorem no_relCycle_of_rank_act {R : Node → Node → Prop} (rank : Node → Nat) (hr : ∀ u v, R u v → rank u < rank v) :
    ¬ ∃ c, RelCycle R c := by
  rintro ⟨c, hc⟩
  cases c with
  | nil => exact hc
  | cons a t =>
    have h1 := relPath_rank_le rank hr t a hc.1
    have h2 := hr _ _ hc.2
    omega

/-! ### the conditions are satisfiable: a description that drives `Stat` and `pc` and switches the data memory read port off -/

example (o : Orders) (ho : OrdersOK o) : ∃ acts, assignmentsToActions {} o
    [("Stat", .const ⟨1, .bits 3⟩), ("pc", .const ⟨0, .bits 64⟩), ("mem_readbit", .const ⟨0, .bits 1⟩),
     ("x", .bin .add (.wire "i10bytes") (.wire "pc"))]
    [("Stat", .bits 3), ("pc", .bits 64), ("mem_readbit", .bits 1), ("i10bytes", .bits 80), ("x", .bits 80)]
    [] y86FixedFunctions ["x"] [] = .ok acts := by
  apply assignmentsToActions_complete _ o _ _ _ _ _ _ ho y86Fixed_table (by decide) y86_hio
  · intro f _ n _; rfl
  · intro f hf n w ho
    refine ⟨rfl, ?_⟩
    simp only [y86FixedFunctions, List.mem_cons, List.not_mem_nil, or_false] at hf
    rcases hf with rfl | rfl | rfl | rfl | rfl | rfl | rfl | rfl <;> simp at ho <;> (obtain ⟨rfl, _⟩ := ho; decide)
  · intro f hf hm
    simp only [y86FixedFunctions, List.mem_cons, List.not_mem_nil, or_false] at hf
    rcases hf with rfl | rfl | rfl | rfl | rfl | rfl | rfl | rfl <;> simp at hm <;> (unfold Active; decide)
  · intro f hf hna n w ho p hp
    simp only [y86FixedFunctions, List.mem_cons, List.not_mem_nil, or_false] at hf
    rcases hf with rfl | rfl | rfl | rfl | rfl | rfl | rfl | rfl <;> simp at ho
    · exact absurd (by unfold Active; decide) hna
    all_goals
      obtain ⟨rfl, _⟩ := ho
      simp only [List.mem_cons, List.not_mem_nil, or_false] at hp
      rcases hp with rfl | rfl | rfl | rfl <;> simp [refs]
  · intro f hf hna hsome
    simp only [y86FixedFunctions, List.mem_cons, List.not_mem_nil, or_false] at hf
    rcases hf with rfl | rfl | rfl | rfl | rfl | rfl | rfl | rfl
    · exact absurd (by unfold Active; decide) hna
    · exact absurd (by unfold Active; decide) hna
    · exact ⟨"mem_readbit", .const ⟨0, .bits 1⟩, ⟨0, .bits 1⟩, rfl, rfl, ⟨.bits 1, by simp [check, pure, Except.pure]⟩,
        by simp [fixMux, ev, pure, Except.pure], rfl⟩
    all_goals
      exfalso
      obtain ⟨i, hi, hc⟩ := hsome
      simp at hi
      revert hc
      first
        | (rcases hi with rfl | rfl | rfl <;> decide)
        | (rcases hi with rfl | rfl <;> decide)
        | (subst hi; decide)
  · intro n e hget
    have hm := AMap.mem_of_get? _ _ _ hget
    simp only [List.mem_cons, List.not_mem_nil, or_false, Prod.mk.injEq] at hm
    rcases hm with ⟨rfl, rfl⟩ | ⟨rfl, rfl⟩ | ⟨rfl, rfl⟩ | ⟨rfl, rfl⟩
    · exact ⟨.bits 3, .bits 3, rfl, by simp [check, pure, Except.pure], rfl⟩
    · exact ⟨.bits 64, .bits 64, rfl, by simp [check, pure, Except.pure], rfl⟩
    · exact ⟨.bits 1, .bits 1, rfl, by simp [check, pure, Except.pure], rfl⟩
    · refine ⟨.bits 80, .bits 80, rfl, ?_, rfl⟩
      simp [check, BinOp.kind, bind, Except.bind, pure, Except.pure, AMap.toCtx, List.lookup, Width.max]
  · intro p hp r hr
    simp only [List.mem_cons, List.not_mem_nil, or_false] at hp
    rcases hp with rfl | rfl | rfl | rfl <;> simp [refs] at hr
    rcases hr with rfl | rfl
    · right; right
      refine ⟨_, List.mem_cons_of_mem _ List.mem_cons_self, ⟨80, rfl⟩, ?_⟩
      unfold Active; decide
    · right; left; decide
  · apply no_relCycle_of_rank_act (fun s => if s = "x" then 2 else
      if s ∈ ["i10bytes", "mem_output", "reg_outputA", "reg_outputB"] then 1 else 0)
    rintro u v (⟨e, he, hu⟩ | ⟨f, hf, ⟨w, hw⟩, hu⟩)
    · simp only [List.mem_cons, List.not_mem_nil, or_false, Prod.mk.injEq] at he
      rcases he with ⟨rfl, rfl⟩ | ⟨rfl, rfl⟩ | ⟨rfl, rfl⟩ | ⟨rfl, rfl⟩ <;> simp [refs] at hu
      rcases hu with rfl | rfl <;> decide
    · simp only [y86FixedFunctions, List.mem_cons, List.not_mem_nil, or_false] at hf
      rcases hf with rfl | rfl | rfl | rfl | rfl | rfl | rfl | rfl <;> simp at hw <;> obtain ⟨rfl, _⟩ := hw <;> simp at hu
      · subst hu; decide
      · rcases hu with rfl | rfl <;> decide
      · subst hu; decide
      · subst hu; decide

#print axioms assignmentsToActions_complete
