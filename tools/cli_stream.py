#!/usr/bin/env python3
"""S-CLI: argument vectors for the real hclrs binary (built from /repo's working tree), with files on disk.

Writes lines `<request S-expression>\t<observed result>` like the Rust harness does.
"""
import os
import random
import re
import shutil
import subprocess

HCL = {
    "ok_halt": "register cC { n:8 = 0; } c_n = C_n + 1; pc = 0; Stat = [C_n == 2 : STAT_HLT; 1 : STAT_AOK];\n",
    "ok_run": "pc = 0; Stat = STAT_AOK;\n",
    "ok_err": "register cC { n:8 = 0; } c_n = C_n + 1; pc = 0; Stat = [C_n == 1 : STAT_INS; 1 : STAT_AOK];\n",
    "div": "register cC { n:8 = 0; } c_n = C_n + 1; wire x:8; x = 8 / (2 - C_n); pc = 0; Stat = STAT_AOK;\n",
    "rej": "wire a:4; a = 0b11111; pc = 0; Stat = STAT_AOK;\n",
    # bubbles (Stat = STAT_BUB, which does not stop a run) for six cycles, then halts: the timeout must count those cycles too
    "ok_bub": "register cC { n:8 = 0; } c_n = C_n + 1; pc = 0; Stat = [C_n == 6 : STAT_HLT; 1 : STAT_BUB];\n",
    # a wire of 83 bits (and none wider): the table of -d has a column as wide as the widest value
    "ok_wide83": "register cC { n:8 = 0; } c_n = C_n + 1; wire big:83; big = 0x7ffffffffffffffffffff; pc = 0; Stat = [C_n == 2 : STAT_HLT; 1 : STAT_AOK];\n",
    "syn": "wire ;\n",
    # parse errors at the very end of the file, the last token followed by blanks of more than one byte or a comment
    "syn_nbsp": "pc = 0;\nStat =\u00a0# TODO",
    "syn_wide": "pc = 0;\nStat = (\u3000\u3000",
    "syn_eof": "pc = 0;\nStat = 1 +",
    # the file ends inside a literal: a lexical error at the very end of the input
    "syn_0x_eof": "pc = 0;\nStat = 0x",
    "syn_0b_eof": "pc = 0;\nStat = 0b",
    # a rejected file whose diagnostics name non-ASCII identifiers
    "rej_uni": "pc = 0; Stat = STAT_HLT;\n\u00e9tat = 1;\nregister \u00e9 { k : 8 = 0; }\nwire w:8; w = \u65e5\u672c + 1;\n",
    # a byte order mark is not blank space: rejected at line 1 (and the lines after it keep their numbers)
    "syn_bom": "\ufeffpc = 0;\nStat = STAT_AOK;\nwire w:8;\nw = y;\n",
}
# files that are not UTF-8 or use bare carriage returns as line ends: read lossily / CR ends a line and a line comment
HCL_BYTES = {
    # more than 64 KiB: 1500 comment lines, then the program (a reader that stops early sees no program at all)
    "ok_big": b"".join(b"# padding line %04d ............................................\n" % i for i in range(1500)) +
              b"register cC { n:8 = 0; } c_n = C_n + 1; pc = 0;\nStat = [C_n == 2 : STAT_HLT; 1 : STAT_AOK];\n",
    "ok_latin1": b"# caf\xe9 au lait \xff\xfe\nregister cC { n:8 = 0; } c_n = C_n + 1; pc = 0; # arr\xeat\nStat = [C_n == 2 : STAT_HLT; 1 : STAT_AOK];\n",
    "ok_cr": b"register cC { n:8 = 0; }\r# a comment that ends at the carriage return\rc_n = C_n + 1; // another\rpc = 0;\rStat = [C_n == 2 : STAT_HLT; 1 : STAT_AOK];\r",
}
# cycles until the program stops by itself (None = never), error banner, abort cycle
STOP = {"ok_bub": (7, "halted"), "ok_wide83": (3, "halted"), "ok_halt": (3, "halted"), "ok_run": (None, None), "ok_err": (2, "error"), "div": (None, None),
        "ok_latin1": (3, "halted"), "ok_cr": (3, "halted"), "ok_big": (3, "halted")}
ABORT_AT = {"div": 3}

YO = {
    "good": "0x000: 30f40001000000000000 |   irmovq $256, %rsp\n0x00a: 00                   |   halt\n",
    "bad": "0x000: 30f4zz01000000000000 |   irmovq $256, %rsp\n",
    "empty": "",
    # malformed in one field only: sign in the address or in a data byte, short line, non-ASCII, missing colon
    "plusaddr": "0x+00: 00                   |   halt\n",
    "plusbyte": "0x000: +0                   |   halt\n",
    "minusaddr": "0x-00: 00                   |   halt\n",
    "shortline": "0x000: 0\n",
    "nonascii": "0x000: 0\u00e9                  |   halt\n",
    "nocolon": "0x000  00                   |   halt\n",
    "oddhex": "0x000: 000                  |   halt\n",
}
# images that cannot be read to the end: a byte sequence that is not UTF-8 on a later line (after lines that load)
YO_BYTES = {
    # a malformed data line (odd number of hex digits) longer than 64 bytes with a two-byte character at every offset from 58 to 70
    **{"longbad%d%s" % (k, n): ("0x000: 000                  | " + "x" * (k - 29) + ch + " tail of a long comment\n").encode("utf-8")
       for k in range(60, 67) for n, ch in (("a", "\u00e9"), ("b", "\u20ac"), ("c", "\U0001F600"))},
    "latin1_later": b"0x000: 30f40001000000000000 |   irmovq $256, %rsp\n0x00a: 00                   |   halt # arr\xeat\n",
    "latin1_mid": b"0x000: 10                   |   nop\n                            | # caf\xe9\n0x001: 00                   |   halt\n",
}
BAD_YO = ["longbad%d%s" % (k, n) for k in range(60, 67) for n in "abc"] + ["bad", "empty", "empty", "plusaddr", "plusbyte", "minusaddr", "nonascii", "oddhex", "nocolon", "latin1_later", "latin1_mid"]
# a line without any '|' is listing text (labels, directives) and is skipped: this loads (an image without bytes)
ODD_YO = ["shortline"]
# valid images whose first bytes are an instruction with function code 0, 6, 7, 8 or 15 of cmovXX / OPq / jXX (the last defined
# code, the first undefined ones: those have no mnemonic): the line printed for each cycle disassembles them
OP_YO = {"op%x%x" % (ic, fn): "0x000: %-20s |   first instruction %x%x\n" % ("%x%x" % (ic, fn) + ("01" if ic != 7 else "0000000000000000"), ic, fn)
         for ic in (2, 6, 7) for fn in (0, 6, 7, 8, 15)}
YO.update(OP_YO)


OPTS = [("-c", "check"), ("--check", "check"), ("-d", "debug"), ("-q", "quiet"), ("--quiet", "quiet"), ("-t", "testing"),
        ("-h", "help"), ("--help", "help"), ("--ungroup-debug-wires", "ungroup"), ("--trace-assignments", "trace"),
        ("--version", "version"), ("--bogus", "BAD"), ("-x", "BAD"), ("--debug", "debug")]
# fixed first cases of every run: (program, image, timeout, number of positionals), run under -q
CORPUS = [("ok_run", "good", "100000", 3), ("ok_run", "good", "123456", 3), ("ok_halt", "good", "100000", 3), ("div", "good", "100000", 3)]
TIMEOUTS = ["0", "1", "2", "3", "5", "9999", "4294967295", "4294967296", "-1", "abc", "", "+3", " 3", "3 ", "0x10", "1e3", "99999999999999999999"]


def esc(s):
    return "".join({" ": "␣", "\t": "␣", "\r": "␣", "\n": "⏎", "(": "⦅", ")": "⦆"}.get(c, c) for c in s)


def prepare(workdir):
    shutil.rmtree(workdir, ignore_errors=True)
    os.makedirs(workdir)
    for n, t in HCL.items():
        open(os.path.join(workdir, n + ".hcl"), "w", encoding="utf-8").write(t)
    for n, t in HCL_BYTES.items():
        open(os.path.join(workdir, n + ".hcl"), "wb").write(t)
    os.makedirs(os.path.join(workdir, "dir.hcl"))
    for n, t in YO.items():
        open(os.path.join(workdir, n + ".yo"), "w", encoding="utf-8").write(t)
    for n, t in YO_BYTES.items():
        open(os.path.join(workdir, n + ".yo"), "wb").write(t)
    open(os.path.join(workdir, "image.txt"), "w").write(YO["good"])
    os.makedirs(os.path.join(workdir, "dir.yo"))


def classify(rc, out, err):
    kind = "none"
    cycles = "-"
    banner = "-"
    if "Unrecognized option" in err or "given more than once" in err or "Option '" in err or "requires an argument" in err:
        kind = "optionMessage"
    elif "Usage:" in out:
        kind = "usage" if rc == 0 else "usageError"
    elif "HCLRS version" in out:
        kind = "version"
    elif "syntax OK" in out:
        kind = "syntaxOk"
    elif "Error reading" in err:
        kind = "readError"
    elif "does not have the extension" in err:
        kind = "notYo"
    elif "is not a valid number" in err:
        kind = "badTimeout"
    elif rc != 0 and err.strip():
        if ("Could not parse" in err or "Empty input file" in err or "Division by zero" in err or "os error" in err
                or "No such file" in err or "Is a directory" in err or "did not contain valid UTF-8" in err):
            kind = "runError"
        else:
            kind = "diagnostics"
            # every location the diagnostics show names a file: it must be the user's file, never <builtin> (C14)
            locs = re.findall(r"-> ([^:\s]+):(\d+)", err)
            if any(n == "<builtin>" or not n.endswith(".hcl") for n, _ in locs):
                kind = "diagnosticsMislocated"
    elif rc == 0 and ("halted in state" in out or "timed out after" in out or "error caused in state" in out):
        kind = "finalState"
        # the LAST dump is the final report
        lines = out.splitlines()
        heads = [l for l in lines if l.startswith("+") and ("in state" in l)]
        last = heads[-1]
        # the final report is the last thing printed: no dump of an intermediate state may follow it, and no line may be torn
        last_at = max(i for i, l in enumerate(lines) if l is last or l == last)
        if any(("between cycles" in l) for l in lines[last_at + 1:]) or any(
                l.startswith(("|", "+")) and not l.rstrip().endswith(("|", "+")) for l in lines):
            kind = "finalStateNotLast"
        if "halted" in last:
            banner = "halted"
        elif "timed out" in last:
            banner = "timedout"
        else:
            banner = "error"
        m = re.findall(r"Cycles run: (\d+)", out)
        t = re.search(r"timed out after\s+(\d+) cycles", last)
        cycles = t.group(1) if t else (m[-1] if m else "-")
    return kind, cycles, banner


# ---------------------------------------------------------------------------------------------------------------
# The option table of main.rs (short, long) and a plain re-implementation of what getopts 0.2 does with it
# (FloatingFrees, long_only = false, flags only).  Used for the bookkeeping of the generator: the fields of the
# request that describe what the argument vector means (`opterr`, `help`, `nfree`, ...) are computed by `py_getopts`
# from the argument strings, and cross-checked against the intent the vector was assembled from (`intent_of`).
FLAGS = [("c", "check"), ("d", "debug"), ("q", "quiet"), ("t", "testing"), ("h", "help"), ("i", "interactive"),
         ("", "ungroup-debug-wires"), ("", "trace-assignments"), ("", "version")]
SHORT2LONG = {s: l for s, l in FLAGS if s}
LONGS = [l for _, l in FLAGS]


def py_getopts(args):
    """-> (message or None, set of long names given, free arguments)"""
    counts = {l: 0 for l in LONGS}
    free = []
    i = 0
    while i < len(args):
        cur = args[i]
        i += 1
        raw = cur.encode("utf-8")
        if not (raw[:1] == b"-" and len(raw) > 1):
            free.append(cur)
        elif cur == "--":
            free.extend(args[i:])
            break
        elif raw[1:2] == b"-":
            tail = cur[2:]
            name, eq, _value = tail.partition("=")
            if len(name.encode("utf-8")) == 1:
                canon = SHORT2LONG.get(name)
            else:
                canon = name if name in LONGS else None
            if canon is None:
                return "Unrecognized option: '%s'" % name, None, None
            if eq:
                return "Option '%s' does not take an argument" % name, None, None
            counts[canon] += 1
        else:
            for ch in cur[1:]:
                canon = SHORT2LONG.get(ch)
                if canon is None:
                    return "Unrecognized option: '%s'" % ch, None, None
                counts[canon] += 1
    for l in LONGS:
        if counts[l] > 1:
            return "Option '%s' given more than once" % l, None, None
    return None, {l for l in LONGS if counts[l]}, free


def hexatom(s):
    return "x" + s.encode("utf-8").hex()


def intent_of(pieces):
    """pieces: (text, kind, effect) with kind in opt/free/term; the meaning by construction, without looking at the text"""
    bad = False
    given = []
    free = []
    ended = False
    for text, kind, effect in pieces:
        if ended or kind == "free":
            free.append(text)
        elif kind == "term":
            ended = True
        elif effect == "BAD":
            bad = True
            break
        else:
            given.extend(effect)
    if bad or len(set(given)) != len(given):
        return True, None, None
    return False, set(given), free


SHORTS = "cdqthi"
BAD_OPTS = ["--bogus", "-x", "--é", "-é", "---", "--=", "--=x", "--versio", "--Check", "--CHECK", "-C", "--check ",
            "--ungroup_debug_wires", "--no-such=1", "-c=1", "--x", "--日本", "-qé", "-1", "--che", "--ch", "--v",
            "--check=1", "--check=", "--c=1", "--c=", "--help=", "--version=1", "--quiet=yes", "--q=", "--trace-assignments=on",
            "-q-", "--qé", "-−q"]


def opt_piece(rnd, quietish, used):
    """one option argument with what it means: (text, 'opt', list of long names | 'BAD')"""
    r = rnd.random()
    if r < 0.07:
        return (rnd.choice(BAD_OPTS), "opt", "BAD")
    weights = {"check": 3, "debug": 2, "quiet": 4 if quietish else 2, "testing": 2, "help": 1, "interactive": 1,
               "ungroup-debug-wires": 1, "trace-assignments": 1, "version": 1}
    names = [n for n, w in weights.items() for _ in range(w)]
    fresh = [n for n in names if n not in used]
    long_ = rnd.choice(fresh if fresh and rnd.random() < 0.85 else names)
    short = {l: s for s, l in FLAGS}[long_]
    r = rnd.random()
    if r < 0.22 and short:
        # a cluster of 2 or 3 short options (possibly repeating a letter)
        others = [c for c in SHORTS if c != short and c != "h" and (SHORT2LONG[c] not in used or rnd.random() < 0.15)] or ["d", "t"]
        letters = [short] + rnd.sample(others, min(len(others), rnd.choice([1, 1, 2])))
        if rnd.random() < 0.12:
            letters.append(rnd.choice(letters))
        rnd.shuffle(letters)
        return ("-" + "".join(letters), "opt", [SHORT2LONG[c] for c in letters])
    if r < 0.50 and short:
        return ("-" + short, "opt", [long_])
    if r < 0.62 and short:
        return ("--" + short, "opt", [long_])       # a one-letter name after `--` is looked up as a short name
    return ("--" + long_, "opt", [long_])


HCL_EXTRA_NAMES = {"été.hcl": "ok_halt", "日本.hcl": "rej"}
YO_EXTRA_NAMES = {"été.yo": "good", "日本.yo": "bad"}


def generate(binary, seed, count, outfile, workdir):
    rnd = random.Random(seed)
    prepare(workdir)
    for n, src in HCL_EXTRA_NAMES.items():
        shutil.copy(os.path.join(workdir, src + ".hcl"), os.path.join(workdir, n))
    for n, src in YO_EXTRA_NAMES.items():
        shutil.copy(os.path.join(workdir, src + ".yo"), os.path.join(workdir, n))
    with open(outfile, "w", encoding="utf-8") as f:
        for case_index in range(count):
            # positionals
            hcl = rnd.choice(["ok_halt", "ok_halt", "ok_run", "ok_err", "div", "rej", "syn", "missing", "dir", "syn_nbsp", "syn_wide", "syn_eof", "rej_uni", "ok_latin1", "ok_cr", "ok_big", "syn_0x_eof", "syn_0b_eof", "syn_bom", "ok_bub", "ok_bub", "ok_wide83"])
            traw = rnd.choice(TIMEOUTS + ["３", "٣", "3 ", "+", "+0", "007", "00000000004294967295", "-0", "++3"])
            if hcl == "ok_run" and traw in ("4294967295", "00000000004294967295"):
                hcl = "ok_halt"        # a non-halting program with a 2^32-1 budget would run for hours
            yo = rnd.choice(["good", "good", "good", "good", rnd.choice(BAD_YO), rnd.choice(BAD_YO), rnd.choice(BAD_YO), "empty", rnd.choice(ODD_YO), rnd.choice(sorted(OP_YO)), rnd.choice(sorted(OP_YO)), "missing", "image.txt", "dir"])
            nfree = rnd.choice([0, 1, 1, 2, 2, 2, 3, 3, 3, 4])
            # the first cases of every run are fixed: long runs (a timeout of six digits is honoured exactly, by a program that
            # never halts and by one that aborts early), which the random choice below reaches too rarely
            corpus_case = case_index < len(CORPUS)
            if corpus_case:
                hcl, yo, traw, nfree = CORPUS[case_index]
            hclname = hcl + ".hcl"
            yoname = yo if yo == "image.txt" else yo + ".yo"
            if rnd.random() < 0.06:
                hclname = rnd.choice(list(HCL_EXTRA_NAMES))
            if rnd.random() < 0.06:
                yoname = rnd.choice(list(YO_EXTRA_NAMES))
            free = [hclname, yoname, traw, "extra"][:nfree]
            # a negative number in the place of the timeout is an (unknown) option for getopts
            frees = [(x, "opt", "BAD") if x in ("-1", "-0") else (x, "free", None) for x in free]
            # a lone `-` is a free argument: it shifts the positionals
            if rnd.random() < 0.05:
                frees.insert(rnd.randrange(len(frees) + 1), ("-", "free", None))
            # options
            nopt = rnd.choice([0, 0, 1, 1, 1, 2, 2, 3, 4])
            opts = []
            used = set()
            for _ in range(nopt):
                o = opt_piece(rnd, True, used)
                opts.append(o)
                if o[2] != "BAD":
                    used.update(o[2])
            if rnd.random() < 0.5 and not any(e != "BAD" and set(e) & {"help", "version", "check", "quiet"} for _, _, e in opts):
                opts.append(("-q", "opt", ["quiet"]))     # keep most runs quiet (less output)
            # layout: options first, options last, or interleaved
            r = rnd.random()
            if r < 0.40:
                pieces = opts + frees
            elif r < 0.55:
                pieces = frees + opts
            else:
                pieces = list(frees)
                for o in opts:
                    pieces.insert(rnd.randrange(len(pieces) + 1), o)
            if corpus_case:
                pieces = [("-q", "opt", ["quiet"])] + [(x, "free", None) for x in [hcl + ".hcl", yo + ".yo", traw][:nfree]]
            # `--`: everything after it is a free argument, options included
            if rnd.random() < 0.22 and not corpus_case:
                pieces.insert(rnd.randrange(len(pieces) + 1), ("--", "term", None))
                if rnd.random() < 0.15:
                    pieces.insert(rnd.randrange(len(pieces) + 1), ("--", "term", None))

            def meaning(pieces):
                args = [p[0] for p in pieces]
                msg, given, fr = py_getopts(args)
                ibad, igiven, ifree = intent_of(pieces)
                mismatch = (msg is not None) != ibad or (msg is None and (given != igiven or fr != ifree))
                return args, msg, given, fr, mismatch

            args, msg, given, fr, mismatch = meaning(pieces)
            # an argument that is not valid UTF-8 (a file name in Latin-1, a stray byte): getopts converts every argument
            # first and reports the first one that is not UTF-8 as an unrecognised option, wherever it stands (also after `--`)
            rawargs = None
            if rnd.random() < 0.04:
                badarg = rnd.choice([b"caf\xe9.hcl", b"\xff", b"-q\xff", b"--\xff", b"ok_halt.hcl\xc3", b"image\xe9.yo", b"\xe9\xe8", b"--check\x80", b"\xf0\x9f"])
                rawargs = [a.encode("utf-8") for a in args]
                rawargs.insert(rnd.randrange(len(rawargs) + 1), badarg)
                msg = "not-utf8"

            def fields(given, fr):
                """what the free arguments name, from the names alone"""
                h = fr[0] if len(fr) >= 1 else None
                y = fr[1] if len(fr) >= 2 else None
                t = fr[2] if len(fr) >= 3 else None
                hbase = None
                if h is not None:
                    if h in HCL_EXTRA_NAMES:
                        hbase = HCL_EXTRA_NAMES[h]
                    elif h.endswith(".hcl") and (h[:-4] in HCL or h[:-4] in HCL_BYTES or h[:-4] in ("missing", "dir")):
                        hbase = h[:-4]
                    else:
                        # not a file the generator made: must not exist
                        assert not os.path.lexists(os.path.join(workdir, h)) or h == "", h
                        hbase = "missing"
                hclstate = "unreadable"
                if hbase is not None:
                    hclstate = "rejected" if hbase.startswith(("rej", "syn")) else {"missing": "unreadable", "dir": "unreadable"}.get(hbase, "accepted")
                ybase = None
                if y is not None:
                    if y in YO_EXTRA_NAMES:
                        ybase = YO_EXTRA_NAMES[y]
                    elif y == "image.txt":
                        ybase = "image.txt"
                    elif y.endswith(".yo") and (y[:-3] in YO or y[:-3] in YO_BYTES or y[:-3] in ("missing", "dir")):
                        ybase = y[:-3]
                    else:
                        assert not y.endswith(".yo") or not os.path.lexists(os.path.join(workdir, y)), y
                        ybase = "missing"
                yostate = "unopenable"
                if ybase is not None:
                    yostate = {"good": "loaded", "image.txt": "loaded", "shortline": "loaded", "missing": "unopenable",
                               "dir": "unloadable"}.get(ybase, "loaded" if ybase in OP_YO else "unloadable")
                timeout = None
                tvalid = False
                if t is not None and re.fullmatch(r"\+?[0-9]+", t, re.ASCII) and int(t) < 2 ** 32:
                    timeout = int(t)
                    tvalid = True
                if len(fr) == 2:
                    timeout = 9999
                return h, y, t, hbase, hclstate, yostate, timeout, tvalid

            if msg is None:
                h, y, t, hbase, hclstate, yostate, timeout, tvalid = fields(given, fr)
                # big timeouts without -q print megabytes: force quiet
                if timeout is not None and timeout > 50 and "quiet" not in given and hbase in ("ok_run", "div"):
                    pieces = [("-q", "opt", ["quiet"])] + pieces
                    args, msg, given, fr, mismatch = meaning(pieces)
                    h, y, t, hbase, hclstate, yostate, timeout, tvalid = fields(given, fr)
            if msg is not None:
                given, fr = set(), []
                h = y = t = hbase = None
                hclstate, yostate, timeout, tvalid = "unreadable", "unopenable", None, False
            run = "finished"
            cycles = "-"
            banner = "-"
            if hclstate == "accepted" and timeout is not None:
                stop, ban = STOP.get(hbase, (None, None))
                ab = ABORT_AT.get(hbase)
                if ab is not None and timeout >= ab:
                    run = "aborted"
                else:
                    if stop is not None and stop <= timeout:
                        cycles, banner = stop, ban
                    else:
                        cycles, banner = timeout, "timedout"
                    if banner == "error" and cycles == timeout:
                        banner = "timedout"   # C06: halted if the last Stat is HLT, otherwise timed out when the budget is used up
                    if banner == "halted" and cycles == timeout:
                        cycles = "-"          # halted exactly at the timeout: the report has no 'Cycles run:' line (see C06)
            p = subprocess.run(([binary.encode("utf-8")] + rawargs) if rawargs is not None else ([binary] + args), cwd=workdir, stdin=subprocess.DEVNULL, stdout=subprocess.PIPE,
                               stderr=subprocess.PIPE, timeout=120)
            out = p.stdout.decode("utf-8", "replace")
            err = p.stderr.decode("utf-8", "replace")
            kind, ocyc, oban = classify(p.returncode, out, err)
            impl = "exit=%d out=%s" % (p.returncode, kind)
            if kind == "optionMessage":
                # the whole of standard error is the one line of getopts
                impl += " msg=" + hexatom(err[:-1] if err.endswith("\n") else err + "<no newline>")
            if kind == "finalState":
                impl += " cycles=%s banner=%s" % (ocyc, oban)
            # consistency of the output channels with the status (C19): recorded as part of the observed result
            if p.returncode == 0 and err.strip():
                impl += " STDERR-ON-SUCCESS"
            if p.returncode != 0 and not err.strip() and kind not in ("usageError",):
                impl += " SILENT-FAILURE"
            if p.returncode not in (0, 1):
                impl += " BAD-STATUS"
            # "status 1 ... and no final state": a failing invocation prints no machine state beyond the per-cycle states of
            # the cycles it completed before aborting (none at all under -q)
            if p.returncode != 0:
                nstates = len([l for l in out.splitlines() if l.startswith("+") and ("in state" in l or "between cycles" in l or "timed out" in l)])
                allowed = ABORT_AT.get(hbase, 0) if (run == "aborted" and "quiet" not in given) else 0
                if nstates > allowed:
                    impl += " STATE-ON-FAILURE"
            if mismatch:
                impl += " GENERATOR-BOOKKEEPING-MISMATCH"
            req = ("(cli (opterr %d) (help %d) (version %d) (check %d) (nfree %d) (hcl %s) (suffix %d) (yo %s) (traw %s) (tvalid %d) (run %s) "
                   "(cycles %s) (banner %s) (argv%s) (args %s))") % (
                1 if msg is not None else 0, 1 if "help" in given else 0, 1 if "version" in given else 0,
                1 if "check" in given else 0, len(fr), hclstate, 1 if (y is not None and y.endswith(".yo")) else 0, yostate,
                esc(t) if t not in (None, "") else "␀", 1 if tvalid else 0, run, cycles, banner,
                "".join(" " + hexatom(a) for a in args) if rawargs is None else "".join(" x" + a.hex() for a in rawargs),
                esc(" ".join(args)) if rawargs is None else esc(" ".join(a.decode("utf-8", "replace") for a in rawargs)))
            f.write(req + "\t" + impl + "\n")
