import Hcl.Theorems.C14Render

/-!
# C12 (text of a batch of diagnostics) — the order of a batch is the only thing hash iteration can change

`Program::new` collects the diagnostics of a stage while iterating over hash tables, so two runs may return the same
diagnostics in different orders (`C12_diagnostics_order_independent`).  What is printed for a batch is the
concatenation of what is printed for each item (`C14_render_multiple`): so the two printed texts consist of the same
per-diagnostic blocks, each block byte-identical, in the order of the batch - nothing else differs.
-/

open Errors Rust

theorem mapR_ok_perm {α β : Type} (f : α → R β) {l₁ l₂ : List α} (hp : l₁.Perm l₂) :
    ∀ ys₁, mapR f l₁ = .ok ys₁ → ∃ ys₂, mapR f l₂ = .ok ys₂ ∧ ys₁.Perm ys₂ := by
  induction hp with
  | nil => intro ys h; exact ⟨ys, h, List.Perm.refl _⟩
  | cons x _ ih =>
    intro ys h
    simp only [mapR, bind, Except.bind, pure, Except.pure] at h ⊢
    cases hx : f x with
    | error e => simp only [hx] at h; cases h
    | ok y =>
      simp only [hx] at h ⊢
      rename_i l₁' l₂' _
      cases hr : mapR f l₁' with
      | error e => simp only [hr] at h; cases h
      | ok r =>
        simp only [hr, Except.ok.injEq] at h
        obtain ⟨r₂, h₂, hp₂⟩ := ih r hr
        simp only [h₂]
        exact ⟨y :: r₂, rfl, by rw [← h]; exact List.Perm.cons y hp₂⟩
  | swap x y l =>
    intro ys h
    simp only [mapR, bind, Except.bind, pure, Except.pure] at h ⊢
    cases hx : f x with
    | error e => cases hy : f y <;> simp only [hx, hy] at h <;> cases h
    | ok a =>
      cases hy : f y with
      | error e => simp only [hx, hy] at h; cases h
      | ok b =>
        simp only [hx, hy] at h ⊢
        cases hr : mapR f l with
        | error e => simp only [hr] at h; cases h
        | ok r =>
          simp only [hr, Except.ok.injEq] at h ⊢
          exact ⟨a :: b :: r, rfl, by rw [← h]; exact List.Perm.swap a b r⟩
  | trans _ _ ih₁ ih₂ =>
    intro ys h
    obtain ⟨ys₂, h₂, hp₂⟩ := ih₁ ys h
    obtain ⟨ys₃, h₃, hp₃⟩ := ih₂ ys₂ h₂
    exact ⟨ys₃, h₃, hp₂.trans hp₃⟩

/-- Two batches holding the same diagnostics in different orders are printed as the same blocks of text, one block per
diagnostic and each block the rendering of that diagnostic alone, in the order of the batch: if the first batch can be
printed, so can the second, and the two texts are the concatenations of two lists of blocks that are permutations of one
another. -/
theorem C12_batch_text_blocks (fc : Io.FileContents) (vs₁ vs₂ : List ErrV) (hp : vs₁.Perm vs₂) (out₁ : Bytes)
    (h : render fc (.multiple vs₁) = .ok out₁) :
    ∃ blocks₁ blocks₂, mapR (render fc) vs₁ = .ok blocks₁ ∧ mapR (render fc) vs₂ = .ok blocks₂ ∧
      blocks₁.Perm blocks₂ ∧ out₁ = blocks₁.flatten ∧ render fc (.multiple vs₂) = .ok blocks₂.flatten := by
  rw [C14_render_multiple] at h
  simp only [bind, Except.bind, pure, Except.pure] at h
  cases hb : mapR (render fc) vs₁ with
  | error e => simp only [hb] at h; cases h
  | ok b₁ =>
    simp only [hb, Except.ok.injEq] at h
    obtain ⟨b₂, h₂, hp₂⟩ := mapR_ok_perm (render fc) hp b₁ hb
    refine ⟨b₁, b₂, rfl, h₂, hp₂, h.symm, ?_⟩
    rw [C14_render_multiple]
    simp only [bind, Except.bind, pure, Except.pure, h₂]

/-- in particular the two texts have the same length and the same bytes up to the order of the blocks -/
theorem C12_batch_text_length (fc : Io.FileContents) (vs₁ vs₂ : List ErrV) (hp : vs₁.Perm vs₂) (out₁ out₂ : Bytes)
    (h₁ : render fc (.multiple vs₁) = .ok out₁) (h₂ : render fc (.multiple vs₂) = .ok out₂) :
    out₁.Perm out₂ := by
  obtain ⟨b₁, b₂, _, _, hpb, ho₁, hr₂⟩ := C12_batch_text_blocks fc vs₁ vs₂ hp out₁ h₁
  rw [hr₂] at h₂
  simp only [Except.ok.injEq] at h₂
  rw [ho₁, ← h₂]
  exact List.Perm.flatten hpb

#print axioms C12_batch_text_blocks
#print axioms C12_batch_text_length
