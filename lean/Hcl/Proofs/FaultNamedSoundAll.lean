import Hcl.Proofs.FaultNamedSoundProgram
open Rust

/-! The closing corollary: whatever stage rejects, a diagnostic that is not a loop report and not a diagnostic of the
    width checker / evaluator for an expression of the program names only names that occur in the program. -/

namespace FaultNamed

/-! ### declared names -/

theorem mem_allDeclared_cases (stmts : List Stmt) (n : String) (h : n ∈ allDeclared stmts) :
    DeclaredWire stmts n ∨ DeclaredConst stmts n := by
  unfold allDeclared at h
  obtain ⟨st, hst, hn⟩ := List.mem_flatMap.mp h
  cases st with
  | wires ds =>
    obtain ⟨d, hd, e⟩ := List.mem_map.mp hn
    exact Or.inl ⟨ds, hst, d, hd, e⟩
  | consts ds =>
    obtain ⟨d, hd, e⟩ := List.mem_map.mp hn
    exact Or.inr ⟨ds, hst, d, hd, e⟩
  | assigns as => cases hn
  | bank b => cases hn

section
variable {fl : Flags} {cls : CharClass} {o : Orders} {stmts : List Stmt} {constants : AMap WireValue}

/-- with stages 1 to 4 silent, a declared name is assigned (a wire) or known (a constant): the loop over the sorted
    names never finds a declared name without a driver, so `UnsetWire` cannot come out of `assignments_to_actions` -/
theorem Stages14.declared_driven (h : Stages14 fl cls o stmts constants) (r : String) (hd : r ∈ allDeclared stmts) :
    r ∈ allTargets stmts ∨ r ∈ knownNames fl cls stmts constants := by
  rcases mem_allDeclared_cases stmts r hd with hw | hc
  · left
    apply h.neededAssigned r
    unfold neededOf
    rw [mem_foldl_setInsert]
    exact Or.inl ((step1G_needed_iff y86FixedFunctions stmts r).mpr hw)
  · right
    obtain ⟨hyp, _, _, _⟩ := h.facts
    have h1 : errs1Of (step1Of stmts) = [] := errs1Of_nil_of fl o y86FixedFunctions stmts constants h.s12
    have hrefs : ∀ p ∈ (step1Of stmts).constantsRaw, ∀ r ∈ refs p.2, (step1Of stmts).constantsRaw.contains r = true := by
      unfold errs1Of at h1
      rw [List.append_eq_nil_iff] at h1
      exact (constRefErrors_nil_iff _).mp h1.2
    have hcr : (step1Of stmts).constantsRaw.contains r = true := (step1G_constant_iff y86FixedFunctions stmts r).mpr hc
    have hkeys : r ∈ (step1Of stmts).constantsRaw.keys := (AMap.contains_iff_mem_keys _ _).mp hcr
    have hcc := (resolveConstants_np fl o (step1Of stmts).constantsRaw h.orders hyp.s1inv.cKeys hyp.s1inv.cWf hrefs).2
      constants h.s12.constantsResolve r hkeys
    obtain ⟨v, hv⟩ := (AMap.contains_iff_lookup _ _).mp hcc
    have hv' : constants.get? r = some v := hv
    show r ∈ knownOf (step1Of stmts) constants (step3Of fl cls (step1Of stmts) constants)
    unfold knownOf
    rw [mem_foldl_setInsert]
    right
    unfold constPairs
    exact List.mem_map.mpr ⟨(r, v.width), List.mem_filterMap.mpr ⟨r, hkeys, by simp [hv']⟩, rfl⟩

end

/-! ### the assigned expressions -/

section
variable (FN FO : List String)

theorem names_fold_assignments_mem (v : Ex) : ∀ (names : List String) (s : Step1) (p : String × Ex),
    p ∈ (names.foldl (step1Name FO v) s).assignments → p ∈ s.assignments ∨ (p.1 ∈ names ∧ p.2 = v)
  | [], _, _, h => Or.inl h
  | x :: rest, s, p, h => by
    rw [List.foldl_cons] at h
    rcases names_fold_assignments_mem v rest _ p h with h | ⟨h1, h2⟩
    · have h' : p ∈ s.assignments.insert x v := h
      rcases AMap.mem_insert _ _ _ _ h' with h | h
      · exact Or.inl h
      · exact Or.inr ⟨by rw [h]; exact List.mem_cons_self, by rw [h]⟩
    · exact Or.inr ⟨List.mem_cons_of_mem _ h1, h2⟩

theorem assigns_fold_assignments_mem : ∀ (as : List Assignment) (s : Step1) (p : String × Ex),
    p ∈ (as.foldl (step1Assign FO) s).assignments → p ∈ s.assignments ∨ ∃ a ∈ as, p.1 ∈ a.names ∧ p.2 = a.value
  | [], _, _, h => Or.inl h
  | a :: rest, s, p, h => by
    rw [List.foldl_cons] at h
    rcases assigns_fold_assignments_mem rest _ p h with h | ⟨a', ha', h⟩
    · unfold step1Assign at h
      rcases names_fold_assignments_mem FO a.value a.names s p h with h | h
      · exact Or.inl h
      · exact Or.inr ⟨a, List.mem_cons_self, h⟩
    · exact Or.inr ⟨a', List.mem_cons_of_mem _ ha', h⟩

theorem step1Stmt_assignments_mem (s : Step1) (st : Stmt) (p : String × Ex) (h : p ∈ (step1Stmt FN FO s st).assignments) :
    p ∈ s.assignments ∨ ∃ as, st = .assigns as ∧ ∃ a ∈ as, p.1 ∈ a.names ∧ p.2 = a.value := by
  cases st with
  | consts ds =>
    have : (step1Stmt FN FO s (.consts ds)).assignments = s.assignments := foldl_assignments_eq (step1Const FN) (fun _ _ => rfl) ds s
    rw [this] at h; exact Or.inl h
  | wires ds =>
    have : (step1Stmt FN FO s (.wires ds)).assignments = s.assignments := foldl_assignments_eq (step1Wire FN) (fun _ _ => rfl) ds s
    rw [this] at h; exact Or.inl h
  | assigns as =>
    rcases assigns_fold_assignments_mem FO as s p h with h | h
    · exact Or.inl h
    · exact Or.inr ⟨as, rfl, h⟩
  | bank b => exact Or.inl h

theorem step1_fold_assignments_mem : ∀ (stmts : List Stmt) (s : Step1) (p : String × Ex),
    p ∈ (stmts.foldl (step1Stmt FN FO) s).assignments →
      p ∈ s.assignments ∨ ∃ as, Stmt.assigns as ∈ stmts ∧ ∃ a ∈ as, p.1 ∈ a.names ∧ p.2 = a.value
  | [], _, _, h => Or.inl h
  | st :: rest, s, p, h => by
    rw [List.foldl_cons] at h
    rcases step1_fold_assignments_mem rest _ p h with h | ⟨as, hm, h⟩
    · rcases step1Stmt_assignments_mem FN FO s st p h with h' | ⟨as, hst, h'⟩
      · exact Or.inl h'
      · exact Or.inr ⟨as, by rw [hst]; exact List.mem_cons_self, h'⟩
    · exact Or.inr ⟨as, List.mem_cons_of_mem _ hm, h⟩

end

/-- every recorded assignment is an assignment of the statement list -/
theorem step1Of_assignments_mem (stmts : List Stmt) (p : String × Ex) (h : p ∈ (step1Of stmts).assignments) :
    ∃ as, Stmt.assigns as ∈ stmts ∧ ∃ a ∈ as, p.1 ∈ a.names ∧ p.2 = a.value := by
  unfold step1Of at h
  rcases step1_fold_assignments_mem _ _ stmts _ p h with h | h
  · rw [(step1Init_empty y86FixedFunctions).2.2.2.2] at h; cases h
  · exact h

/-! ### stage 1 silent: the declarative conditions -/

theorem constDecls_cons (st : Stmt) (rest : List Stmt) : constDecls (st :: rest) = constDecls [st] ++ constDecls rest := by
  simp [constDecls]

theorem constNames_sublist : ∀ (stmts : List Stmt), ((constDecls stmts).map (·.name)).Sublist (allDeclared stmts)
  | [] => by simp [constDecls, allDeclared]
  | st :: rest => by
    rw [constDecls_cons, allDeclared_cons, List.map_append]
    apply List.Sublist.append _ (constNames_sublist rest)
    cases st with
    | consts ds => simp [constDecls, allDeclared]
    | wires ds => simp [constDecls]
    | assigns as => simp [constDecls]
    | bank b => simp [constDecls]

/-- stage 1 has nothing to report and the constants resolve: the hypotheses of group B -/
theorem stage12_of_clean (fl : Flags) (o : Orders) (stmts : List Stmt) (constants : AMap WireValue)
    (h1 : errs1Of (step1Of stmts) = [])
    (h2 : resolveConstants fl o (step1Of stmts).constantsRaw = .ok constants) :
    Stage12 fl o y86FixedFunctions stmts constants := by
  obtain ⟨a1, a2, a3, a4, a5, a6⟩ := (step1_gate_nil_iff stmts).mp h1
  have hnd : ((constDecls stmts).map (·.name)).Nodup := List.Nodup.sublist (constNames_sublist stmts) a1
  refine ⟨a1, a2, a3, a4, ?_, ?_, h2⟩
  · intro n hn hc
    have := (step1G_constant_iff y86FixedFunctions stmts n).mpr hc
    have h5 := a5 n hn
    rw [show (step1G y86FixedFunctions stmts) = step1Of stmts from rfl] at this
    rw [h5] at this; cases this
  · intro d hd r hr
    obtain ⟨pre, post, hs⟩ := List.append_of_mem hd
    have hlast : LastConstDecl stmts d := by
      refine ⟨pre, post, hs, ?_⟩
      intro d' hd' he
      rw [hs, List.map_append, List.map_cons, List.nodup_append] at hnd
      have := hnd.2.1
      rw [List.nodup_cons] at this
      exact this.1 (List.mem_map.mpr ⟨d', hd', he⟩)
    have hmem := step1G_constantsRaw_mem y86FixedFunctions stmts d hlast
    exact (step1G_constant_iff y86FixedFunctions stmts r).mp (a6 (d.name, d.value) hmem r hr)

/-- stages 1 to 4 have nothing to report: the hypotheses of group C -/
theorem stages14_of_clean (fl : Flags) (cls : CharClass) (o : Orders) (stmts : List Stmt) (constants : AMap WireValue)
    (ho : OrdersOK o) (hwf : StmtsWF stmts)
    (h12 : Stage12 fl o y86FixedFunctions stmts constants)
    (h3 : (step3Of fl cls (step1Of stmts) constants).errors ++
      e4Of (step1Of stmts) (step3Of fl cls (step1Of stmts) constants) = []) :
    Stages14 fl cls o stmts constants := by
  rw [List.append_eq_nil_iff] at h3
  obtain ⟨s1inv, _⟩ := step1_fold_inv (fixedNamesOf y86FixedFunctions)
    (y86FixedFunctions.filterMap fun f => f.outWire.map (·.1)) y86W0 stmts (step1Init y86FixedFunctions) hwf step1Init_inv
  have hs1i : S1Inv (fixedNamesOf y86FixedFunctions) y86W0 (step1Of stmts) := s1inv
  have hw : ∀ b ∈ (step1Of stmts).banksRaw, ∀ r ∈ b.regs, r.width.ok := fun b hb r hr => (hs1i.banks b hb r hr).1
  obtain ⟨hb1, hb2⟩ := (step3Of_errors_nil_iff fl cls (step1Of stmts) constants hw).mp h3.1
  refine ⟨h12, hwf, ho, hb1, hb2, ?_⟩
  intro n hn
  have h4 := h3.2
  unfold e4Of at h4
  have := (unset_nil_iff (step1Of stmts) (step3Of fl cls (step1Of stmts) constants) _).mp h4 n hn
  exact (step1Of_assignments_contains_iff stmts n).mp this

/-! ### stage 2 -/

theorem resolveLoop_sound (fl : Flags) (exprs : AMap Ex) : ∀ (names : List String) (res : AMap WireValue) (errs : List Diag)
    (d : Diag), d ∈ (resolveLoop fl exprs names res errs).2 →
    d ∈ errs ∨ d ∈ panicDiag ∨ ∃ n e Γ κ ds', exprs.get? n = some e ∧ checkFixEval fl Γ κ e = .error ds' ∧ d ∈ ds'
  | [], _, _, _, h => Or.inl h
  | name :: rest, res, errs, d, h => by
    unfold resolveLoop at h
    cases hg : exprs.get? name with
    | none =>
      rw [hg] at h
      simp only at h
      rcases List.mem_append.mp h with h | h
      · exact Or.inl h
      · exact Or.inr (Or.inl h)
    | some e =>
      rw [hg] at h
      simp only at h
      cases hcf : checkFixEval fl (AMap.toCtx (res.map (fun p => (p.1, p.2.width)))) res.toEnv e with
      | error ds =>
        rw [hcf] at h
        simp only at h
        rcases resolveLoop_sound fl exprs rest res _ d h with h | h | h
        · rcases List.mem_append.mp h with h | h
          · exact Or.inl h
          · exact Or.inr (Or.inr ⟨name, e, _, _, ds, hg, hcf, h⟩)
        · exact Or.inr (Or.inl h)
        · exact Or.inr (Or.inr h)
      | ok v =>
        rw [hcf] at h
        simp only at h
        exact resolveLoop_sound fl exprs rest _ errs d h

theorem resolveConstants_sound (fl : Flags) (o : Orders) (exprs : AMap Ex) (ds : List Diag)
    (h : resolveConstants fl o exprs = .error ds) (d : Diag) (hd : d ∈ ds) :
    d.kind = .WireLoop ∨ d ∈ panicDiag ∨
      ∃ n e Γ κ ds', exprs.get? n = some e ∧ checkFixEval fl Γ κ e = .error ds' ∧ d ∈ ds' := by
  unfold resolveConstants at h
  cases hs : (constGraph exprs).sort o with
  | ok sorted =>
    rw [hs] at h
    simp only at h
    split at h
    · cases h
    · simp only [Except.error.injEq] at h
      subst h
      rcases resolveLoop_sound fl exprs sorted [] [] d hd with h | h | h
      · cases h
      · exact Or.inr (Or.inl h)
      · exact Or.inr (Or.inr h)
  | cycle c =>
    rw [hs] at h
    simp only [Except.error.injEq] at h
    subst h
    left
    rw [List.mem_singleton.mp hd]
  | panic =>
    rw [hs] at h
    simp only [Except.error.injEq] at h
    subst h
    exact Or.inr (Or.inl hd)

/-! ### the names of a program -/

/-- `n` occurs in the statement list: as a declared, assigned or read name, as the name of a bank or of a register or
    as one of the two signal names of a register, or it is a name of a built-in component, or the separator `"/"` of
    the list printed for a partially connected component -/
def InProgram (stmts : List Stmt) (n : String) : Prop :=
  n ∈ allDeclared stmts ∨ n ∈ allTargets stmts ∨
  (∃ c ∈ constDecls stmts, n ∈ refs c.value) ∨
  (∃ as, Stmt.assigns as ∈ stmts ∧ ∃ a ∈ as, n ∈ refs a.value) ∨
  (∃ b, Stmt.bank b ∈ stmts ∧ (n = b.name ∨ ∃ r ∈ b.regs, n = r.name ∨ n ∈ refs r.default ∨
    ∃ i o, b.name.toList = [i, o] ∧ (n = regInName i r ∨ n = regOutName o r))) ∨
  n ∈ fixedNamesOf y86FixedFunctions ∨ n = "/"

/-- `d` is a diagnostic of the width checker or the evaluator for an expression of the program (the definition of a
    constant, the initial value of a register, the right-hand side of an assignment), in some context -/
def ExprDiag (fl : Flags) (stmts : List Stmt) (d : Diag) : Prop :=
  ∃ e, ((∃ c ∈ constDecls stmts, e = c.value) ∨ (∃ as, Stmt.assigns as ∈ stmts ∧ ∃ a ∈ as, e = a.value) ∨
      (∃ b, Stmt.bank b ∈ stmts ∧ ∃ r ∈ b.regs, e = r.default)) ∧
    ∃ Γ κ ds', checkFixEval fl Γ κ e = .error ds' ∧ d ∈ ds'

theorem checkFixEval_of_check (fl : Flags) (Γ : Ctx) (κ : Env) (e : Ex) (ds : List Diag) (h : check fl Γ κ e = .error ds) :
    checkFixEval fl Γ κ e = .error ds := by
  unfold checkFixEval
  rw [h]

theorem mem_fixedNames_of_in (f : FixedFunction) (hf : f ∈ y86FixedFunctions) (n : String) (hn : n ∈ f.inWires.map (·.1)) :
    n ∈ fixedNamesOf y86FixedFunctions := by
  unfold fixedNamesOf
  rw [mem_dedupS]
  exact List.mem_flatMap.mpr ⟨f, hf, List.mem_append_left _ hn⟩

/-- **the diagnostics never name a wire that is not in the program** -/
theorem every_diagnostic_names_program (fl : Flags) (cls : CharClass) (o : Orders) (stmts : List Stmt)
    (ho : OrdersOK o) (hwf : StmtsWF stmts) (ds : List Diag)
    (h : Program.new fl cls o y86FixedFunctions stmts = .error ds) (d : Diag) (hd : d ∈ ds) :
    d.kind = .WireLoop ∨ ExprDiag fl stmts d ∨ ∀ n ∈ d.names, InProgram stmts n := by
  have hnp := Program_new_np fl cls o stmts ho hwf ds h
  have hnotpanic : d ∉ panicDiag := by
    intro hp
    have : d = ⟨.InternalPanic, []⟩ := List.mem_singleton.mp hp
    exact hnp d hd (by rw [this])
  by_cases h1 : errs1Of (step1Of stmts) = []
  · cases h2 : resolveConstants fl o (step1Of stmts).constantsRaw with
    | error ds2 =>
      have := Program_new_error_of_consts fl cls o stmts ds2 h1 h2
      rw [this] at h
      simp only [Except.error.injEq] at h
      subst h
      rcases resolveConstants_sound fl o _ _ h2 d hd with hk | hp | ⟨n, e, Γ, κ, ds', hg, hc, hm⟩
      · exact Or.inl hk
      · exact absurd hp hnotpanic
      · right; left
        obtain ⟨c, hc', e'⟩ := step1G_constantsRaw_mem_decl y86FixedFunctions stmts (n, e) (AMap.mem_of_get? _ _ _ hg)
        refine ⟨e, Or.inl ⟨c, hc', ?_⟩, Γ, κ, ds', hc, hm⟩
        simp only [Prod.mk.injEq] at e'
        exact e'.2
    | ok constants =>
      have h12 := stage12_of_clean fl o stmts constants h1 h2
      by_cases h3 : (step3Of fl cls (step1Of stmts) constants).errors ++
          e4Of (step1Of stmts) (step3Of fl cls (step1Of stmts) constants) = []
      · -- stage 5
        have h14 := stages14_of_clean fl cls o stmts constants ho hwf h12 h3
        rcases stage5_sound h14 ds h with ⟨_, hall⟩ | ⟨_, c, hds, _⟩ | ⟨_, hall⟩
        · right; right
          obtain ⟨f, hf, hj⟩ := hall d hd
          rcases hj with ⟨n, hn, e, _⟩ | ⟨e, _⟩
          · rw [e]
            intro m hm
            rw [List.mem_singleton.mp hm]
            exact Or.inr (Or.inr (Or.inr (Or.inr (Or.inr (Or.inl (mem_fixedNames_of_in f hf n hn))))))
          · rw [e]
            intro m hm
            simp only [List.mem_append, List.mem_filter, List.mem_singleton] at hm
            rcases hm with (hm | hm) | hm
            · exact Or.inr (Or.inr (Or.inr (Or.inr (Or.inr (Or.inl (mem_fixedNames_of_in f hf m hm.1))))))
            · exact Or.inr (Or.inr (Or.inr (Or.inr (Or.inr (Or.inr hm)))))
            · exact Or.inr (Or.inr (Or.inr (Or.inr (Or.inr (Or.inl (mem_fixedNames_of_in f hf m hm.1))))))
        · left
          rw [hds] at hd
          rw [List.mem_singleton.mp hd]
        · rcases hall d hd with ⟨n, e, hn, _⟩ | ⟨n, e, w, ds', hg, _, hc, hm⟩ | ⟨n, e, w, ew, hd', hg, _⟩ | ⟨r, hk, _, ⟨p, hp, hr⟩, _⟩
          · right; right
            rw [e]
            intro m hm
            rw [List.mem_singleton.mp hm]
            exact Or.inr (Or.inl hn)
          · right; left
            obtain ⟨as, has, a, ha, _, e'⟩ := step1Of_assignments_mem stmts (n, e) (AMap.mem_of_get? _ _ _ hg)
            exact ⟨e, Or.inr (Or.inl ⟨as, has, a, ha, e'⟩), _, _, ds', checkFixEval_of_check fl _ _ e ds' hc, hm⟩
          · right; right
            rw [hd']
            intro m hm
            rw [List.mem_singleton.mp hm]
            exact Or.inr (Or.inl ((step1Of_assignments_contains_iff stmts n).mp ((AMap.contains_iff_lookup _ _).mpr ⟨e, hg⟩)))
          · right; right
            obtain ⟨as, has, a, ha, _, e'⟩ := step1Of_assignments_mem stmts p hp
            have hin : InProgram stmts r := Or.inr (Or.inr (Or.inr (Or.inl ⟨as, has, a, ha, by rw [← e']; exact hr⟩)))
            rcases hk with ⟨e, _⟩ | ⟨e, _⟩
            · rw [e]; intro m hm; rw [List.mem_singleton.mp hm]; exact hin
            · rw [e]; intro m hm; rw [List.mem_singleton.mp hm]; exact hin
      · -- stages 3 and 4
        have hwid : ∀ b, Stmt.bank b ∈ stmts → ∀ r ∈ b.regs, r.width.ok := by
          obtain ⟨s1inv, _⟩ := step1_fold_inv (fixedNamesOf y86FixedFunctions)
            (y86FixedFunctions.filterMap fun f => f.outWire.map (·.1)) y86W0 stmts (step1Init y86FixedFunctions) hwf step1Init_inv
          have hs1i : S1Inv (fixedNamesOf y86FixedFunctions) y86W0 (step1Of stmts) := s1inv
          intro b hb r hr
          have hb' : b ∈ (step1Of stmts).banksRaw := by
            have := step1G_banksRaw y86FixedFunctions stmts
            rw [show step1G y86FixedFunctions stmts = step1Of stmts from rfl] at this
            rw [this]; exact (mem_banksOf stmts b).mpr hb
          exact (hs1i.banks b hb' r hr).1
        have hbankname : ∀ b, Stmt.bank b ∈ stmts → ∀ r ∈ b.regs, ∀ (i o' : Char), b.name.toList = [i, o'] →
            ∀ n, (n = regInName i r ∨ n = regOutName o' r) → InProgram stmts n := by
          intro b hb r hr i o' hname n hn
          exact Or.inr (Or.inr (Or.inr (Or.inr (Or.inl ⟨b, hb, Or.inr ⟨r, hr, Or.inr (Or.inr ⟨i, o', hname, hn⟩)⟩⟩))))
        have single : ∀ (k : DKind) (n : String), InProgram stmts n → ∀ m ∈ (⟨k, [n]⟩ : Diag).names, InProgram stmts m := by
          intro k n hn m hm
          rw [List.mem_singleton.mp hm]; exact hn
        rcases stage3_sound fl cls o y86FixedFunctions stmts constants h12 hwid ds h3 h d hd with
          ⟨n, e, hw, _⟩ | ⟨n, e, _, _, b, hb, i, o', hname, _, _, r, hr, hn⟩ | ⟨b, hb, e, _⟩ |
          ⟨b, hb, i, o', _, _, _, n, _, e, hdecl⟩ | ⟨b, hb, i, o', hname, _, _, r, hr, hf⟩
        · right; right; rw [e]
          exact single _ n (Or.inl (declaredWire_declared stmts n hw))
        · right; right; rw [e]
          exact single _ n (hbankname b hb r hr i o' hname n (Or.inl hn))
        · right; right; rw [e]
          exact single _ _ (Or.inr (Or.inr (Or.inr (Or.inr (Or.inl ⟨b, hb, Or.inl rfl⟩)))))
        · right; right; rw [e]
          exact single _ n (Or.inl hdecl)
        · have hbn : InProgram stmts b.name := Or.inr (Or.inr (Or.inr (Or.inr (Or.inl ⟨b, hb, Or.inl rfl⟩))))
          have hrn : InProgram stmts r.name :=
            Or.inr (Or.inr (Or.inr (Or.inr (Or.inl ⟨b, hb, Or.inr ⟨r, hr, Or.inl rfl⟩⟩))))
          have pair : ∀ (k : DKind), ∀ m ∈ (⟨k, [b.name, r.name]⟩ : Diag).names, InProgram stmts m := by
            intro k m hm
            simp only [List.mem_cons, List.not_mem_nil, or_false] at hm
            rcases hm with hm | hm
            · rw [hm]; exact hbn
            · rw [hm]; exact hrn
          rcases hf with ⟨n, hn, e, _⟩ | ⟨n, hn, e, hdecl⟩ | ⟨e, _⟩ | ⟨e, ha⟩ | ⟨n, hn, e, _⟩ | ⟨ds', hc, hm⟩ | ⟨v, _, _, e⟩
          · right; right; rw [e]
            exact single _ n (Or.inr (Or.inr (Or.inr (Or.inr (Or.inl ⟨b, hb, Or.inr ⟨r, hr, Or.inr (Or.inl hn)⟩⟩)))))
          · right; right; rw [e]
            exact single _ n (Or.inl hdecl)
          · right; right; rw [e]; exact pair _
          · right; right; rw [e]
            exact single _ _ (Or.inr (Or.inl ha))
          · right; right; rw [e]
            exact single _ n (hbankname b hb r hr i o' hname n hn)
          · right; left
            exact ⟨r.default, Or.inr (Or.inr ⟨b, hb, r, hr, rfl⟩), _, _, ds', hc, hm⟩
          · right; right; rw [e]; exact pair _
  · -- stage 1
    right; right
    obtain ⟨n, hnames, hk⟩ := stage1_sound fl cls o y86FixedFunctions stmts ds h1 h d hd
    rw [hnames]
    intro m hm
    rw [List.mem_singleton.mp hm]
    rcases hk with ⟨_, hc⟩ | ⟨_, hc, _⟩ | ⟨_, hc⟩ | ⟨_, hc, _⟩ | ⟨_, hc, _⟩ | ⟨_, _, _, c, hc, hr⟩ | ⟨_, _, _, _, c, hc, hr⟩
    · exact Or.inl (List.count_pos_iff.mp (by omega))
    · exact Or.inl hc
    · exact Or.inr (Or.inl (List.count_pos_iff.mp (by omega)))
    · exact Or.inr (Or.inl hc)
    · exact Or.inr (Or.inl hc)
    · exact Or.inr (Or.inr (Or.inl ⟨c, hc, hr⟩))
    · exact Or.inr (Or.inr (Or.inl ⟨c, hc, hr⟩))

end FaultNamed
