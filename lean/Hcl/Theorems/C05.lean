import Hcl.Proofs.Settle
import Hcl.Spec.Machine
open Rust

/-!
# C05 — memory is little-endian and byte-addressed; writes land at the end of the cycle

`Mem` (sorted association list, the model of `BTreeMap<u64,u8>`) is related to the specification's
memory function by `abs m = fun a => m.get a`.  `Spec.rdLE`/`Spec.wrLE` are the specified read and
write.  That reads see the start-of-cycle memory and writes happen after all reads of the cycle is
`C01_settlement` (definitions use `s.mem` of the start state) together with `C05_write_last`.
-/

namespace Mem

theorem get_insert (m : Mem) (a v b : Nat) : (m.insert a v).get b = if b = a then v else m.get b := by
  induction m with
  | nil =>
    simp only [insert, get, List.lookup]
    by_cases h : b = a
    · subst h; simp
    · have : (b == a) = false := by simpa using h
      simp [this, h]
  | cons p rest ih =>
    obtain ⟨k, x⟩ := p
    simp only [insert]
    split
    · -- a < k : prepend
      simp only [get, List.lookup]
      by_cases h : b = a
      · subst h; simp
      · have : (b == a) = false := by simpa using h
        simp [this, h]
    · split
      · rename_i hak; subst hak
        simp only [get, List.lookup]
        by_cases h : b = a
        · subst h; simp
        · have : (b == a) = false := by simpa using h
          simp [this, h]
      · rename_i h1 h2
        simp only [get, List.lookup] at ih ⊢
        by_cases hbk : b = k
        · subst hbk
          have : b ≠ a := fun e => h2 e.symm
          simp [this]
        · have : (b == k) = false := by simpa using hbk
          simp only [this]
          exact ih

end Mem

def absMem (m : Mem) : Nat → Nat := fun a => m.get a

/-- **read**: the model's read is the specified little-endian sum of the bytes at `addr .. addr+n-1`, addresses modulo 2^64 -/
theorem C05_read_spec (m : Mem) (addr : Nat) : ∀ n, m.read addr n = Spec.rdLE (absMem m) addr n
  | 0 => rfl
  | n+1 => by simp only [Mem.read, Spec.rdLE, C05_read_spec m addr n, absMem, U64]

/-- **write**: the model's write is the specified byte-wise store -/
theorem C05_write_spec (m : Mem) (addr value : Nat) : ∀ n, absMem (m.write addr value n) = Spec.wrLE (absMem m) addr value n
  | 0 => rfl
  | n+1 => by
    funext a
    have ih := C05_write_spec m addr value n
    simp only [Mem.write, Spec.wrLE, absMem, Mem.get_insert, U64] at ih ⊢
    split
    · rfl
    · exact congrFun ih a

/-- a write leaves every other address alone -/
theorem wrLE_other (mem : Nat → Nat) (addr value : Nat) : ∀ n (a : Nat), (∀ i < n, (addr + i) % 2 ^ 64 ≠ a) →
    Spec.wrLE mem addr value n a = mem a
  | 0, _, _ => rfl
  | n+1, a, h => by
    simp only [Spec.wrLE]
    have : a ≠ (addr + n) % 2 ^ 64 := fun e => h n (by omega) e.symm
    simp only [this, ↓reduceIte]
    exact wrLE_other mem addr value n a (fun i hi => h i (by omega))

/-- byte `i` of the value lands at address `addr + i` (mod 2^64) -/
theorem wrLE_hit (mem : Nat → Nat) (addr value : Nat) : ∀ n, n ≤ 2 ^ 64 → ∀ i, i < n →
    Spec.wrLE mem addr value n ((addr + i) % 2 ^ 64) = (value / 256 ^ i) % 256
  | 0, _, i, hi => by omega
  | n+1, hn, i, hi => by
    simp only [Spec.wrLE]
    by_cases h : i = n
    · subst h; simp
    · have hne : (addr + i) % 2 ^ 64 ≠ (addr + n) % 2 ^ 64 := by
        have : i < n := by omega
        omega
      simp only [hne, ↓reduceIte]
      exact wrLE_hit mem addr value n (by omega) i (by omega)

/-- **read after write**: reading the 8 bytes just written returns the low 64 bits of the value -/
theorem rdLE_wrLE (mem : Nat → Nat) (addr v : Nat) : ∀ n, n ≤ 8 →
    Spec.rdLE (Spec.wrLE mem addr v 8) addr n = v % 256 ^ n
  | 0, _ => by simp [Spec.rdLE, Nat.mod_one]
  | n+1, hn => by
    simp only [Spec.rdLE]
    rw [rdLE_wrLE mem addr v n (by omega), wrLE_hit mem addr v 8 (by decide) n (by omega), Nat.mod_pow_succ,
      Nat.mul_comm]

theorem C05_read_after_write (mem : Nat → Nat) (addr v : Nat) :
    Spec.rdLE (Spec.wrLE mem addr v 8) addr 8 = v % 2 ^ 64 := by
  rw [rdLE_wrLE mem addr v 8 (by decide)]

/-- **C05, last write wins over a history**: after any sequence of 8-byte writes, each byte is the one
    stored by the most recent write covering its address, else the initial image. -/
def applyWrites (mem : Nat → Nat) : List (Nat × Nat) → Nat → Nat
  | [] => mem
  | (addr, v) :: rest => applyWrites (Spec.wrLE mem addr v 8) rest

theorem C05_last_write_wins (mem : Nat → Nat) : ∀ (ws : List (Nat × Nat)) (addr v : Nat) (i : Nat), i < 8 →
    applyWrites mem (ws ++ [(addr, v)]) ((addr + i) % 2 ^ 64) = (v / 256 ^ i) % 256
  | [], addr, v, i, hi => wrLE_hit mem addr v 8 (by decide) i hi
  | (a0, v0) :: rest, addr, v, i, hi => by
    simp only [List.cons_append, applyWrites]
    exact C05_last_write_wins _ rest addr v i hi

theorem C05_untouched (mem : Nat → Nat) : ∀ (ws : List (Nat × Nat)) (a : Nat),
    (∀ w ∈ ws, ∀ i < 8, (w.1 + i) % 2 ^ 64 ≠ a) → applyWrites mem ws a = mem a
  | [], _, _ => rfl
  | (a0, v0) :: rest, a, h => by
    simp only [applyWrites]
    rw [C05_untouched _ rest a (fun w hw => h w (List.mem_cons_of_mem _ hw))]
    exact wrLE_other mem a0 v0 8 a (h (a0, v0) (by simp))

/-- **read port**: what a memory read port puts on its output wire in terms of the specification's memory -/
theorem C05_read_port (fl : Flags) (regs : List Nat) (mem : Mem) (σ : Env) (en address out : String) (bytes : Nat) (instr : Bool)
    (ev av : WireValue) (he : σ en = some ev) (ha : σ address = some av) (hb : bytes * 8 ≤ 128) :
    (Action.readMem (some en) address out bytes instr).defn fl regs mem σ =
      .ok ⟨if ev.bits ≠ 0 then Spec.rdLE (absMem mem) (av.bits % 2 ^ 64) bytes else 0, .bits (bytes * 8)⟩ := by
  have hzero : asWidth ⟨0, .unlimited⟩ (.bits (bytes * 8)) = .ok ⟨0, .bits (bytes * 8)⟩ := by
    have := maskStep (.bits (bytes * 8)) hb 0
    simpa [asWidth, bind, Except.bind, pure, Except.pure] using this
  simp only [Action.defn, lookupOrPanic, he, ha, bind, Except.bind, pure, Except.pure]
  by_cases h : ev.bits > 0
  · have h' : ev.bits ≠ 0 := by omega
    simp [h, h', C05_read_spec, U64]
  · have h' : ev.bits = 0 := by omega
    simp [h', hzero]

/-- the instruction port always reads -/
theorem C05_instruction_port (fl : Flags) (regs : List Nat) (mem : Mem) (σ : Env) (address out : String) (bytes : Nat)
    (av : WireValue) (ha : σ address = some av) :
    (Action.readMem none address out bytes true).defn fl regs mem σ =
      .ok ⟨Spec.rdLE (absMem mem) (av.bits % 2 ^ 64) bytes, .bits (bytes * 8)⟩ := by
  simp [Action.defn, lookupOrPanic, ha, bind, Except.bind, pure, Except.pure, C05_read_spec, U64]

/-- **write port**: with the enable non-zero the 8 bytes of the input are stored at the address; otherwise nothing is stored -/
theorem C05_write_port (fl : Flags) (s : State) (en address inp : String) (ev av iv : WireValue)
    (he : s.values.toEnv en = some ev) (ha : s.values.toEnv address = some av) (hi : s.values.toEnv inp = some iv) :
    ∃ s', execAction fl s (.writeMem (some en) address inp 8) = .ok s' ∧ s'.values = s.values ∧ s'.regs = s.regs ∧
      absMem s'.mem = if ev.bits ≠ 0 then Spec.wrLE (absMem s.mem) (av.bits % 2 ^ 64) iv.bits 8 else absMem s.mem := by
  have he' : getOrPanic s.values en = .ok ev := by simp [getOrPanic, AMap.get?_eq_toEnv, he, pure, Except.pure]
  have ha' : getOrPanic s.values address = .ok av := by simp [getOrPanic, AMap.get?_eq_toEnv, ha, pure, Except.pure]
  have hi' : getOrPanic s.values inp = .ok iv := by simp [getOrPanic, AMap.get?_eq_toEnv, hi, pure, Except.pure]
  by_cases h : ev.bits > 0
  · have h' : ev.bits ≠ 0 := by omega
    refine ⟨{ s with mem := s.mem.write (av.bits % U64) iv.bits 8 }, ?_, rfl, rfl, ?_⟩
    · simp only [execAction, he', ha', hi', h, bind, Except.bind, pure, Except.pure]; rfl
    · simp only [h', ne_eq, not_false_eq_true, ↓reduceIte]
      exact C05_write_spec s.mem _ _ 8
  · have h' : ev.bits = 0 := by omega
    refine ⟨s, ?_, rfl, rfl, by simp [h']⟩
    simp only [execAction, he', h, bind, Except.bind, pure, Except.pure]; rfl
