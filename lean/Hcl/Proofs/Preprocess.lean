import Hcl.Proofs.AssignGraph
import Hcl.Proofs.ActionsLoop

/-! `preprocess_fixed`: when it reports nothing, the built-in components it activated have all their inputs
    assigned, their outputs are fresh names, and the graph stays well-formed. -/

structure FixedTableOK (fixed : List FixedFunction) : Prop where
  fn : ∀ f ∈ fixed, fixedFnOK f = true
  outs : (fixed.filterMap (fun f => f.outWire.map (·.1))).Nodup
  ins : ∀ f ∈ fixed, (f.inWires.map (·.1)).Nodup

theorem y86Fixed_table : FixedTableOK y86FixedFunctions where
  fn := by
    have := y86Fixed_ok
    rw [List.all_eq_true] at this
    exact this
  outs := by decide
  ins := by decide

def inNames (f : FixedFunction) : List String := f.inWires.map (·.1)

structure PreFacts (assignments : AMap Ex) (known : List String) (g0 : GBuild) (done : List FixedFunction) (st : PreState) : Prop where
  noOut : ∀ f ∈ st.info.noOutput, f ∈ done ∧ f.outWire = none ∧ ∀ n ∈ inNames f, assignments.contains n = true
  byKeys : st.info.byOutput.keys.Nodup
  byOut : ∀ n f, (n, f) ∈ st.info.byOutput → f ∈ done ∧ (∃ w, f.outWire = some (n, w)) ∧
    (∀ i ∈ inNames f, assignments.contains i = true) ∧ assignments.contains n = false ∧ known.contains n = false
  wf : st.graph.WF
  nodes : ∀ n ∈ g0.nodes, n ∈ st.graph.nodes
  edges : ∀ e ∈ st.graph.edges, e ∈ g0.edges ∨ ∃ f, (e.2, f) ∈ st.info.byOutput ∧ e.1 ∈ inNames f
  /-- the components without an output are kept in the order of the table -/
  noOutSub : st.info.noOutput.Sublist done
  /-- the graph has every edge of the assignment graph and an edge from every input of an active component to its output -/
  edgesG0 : ∀ e ∈ g0.edges, e ∈ st.graph.edges
  edgesFixed : ∀ n f, (n, f) ∈ st.info.byOutput → ∀ i ∈ inNames f, (i, n) ∈ st.graph.edges

theorem PreFacts.mono {assignments known g0 done st} (h : PreFacts assignments known g0 done st) (f : FixedFunction) :
    PreFacts assignments known g0 (done ++ [f]) st where
  noOut := fun g hg => ⟨List.mem_append_left _ (h.noOut g hg).1, (h.noOut g hg).2⟩
  byKeys := h.byKeys
  byOut := fun n g hg => ⟨List.mem_append_left _ (h.byOut n g hg).1, (h.byOut n g hg).2⟩
  wf := h.wf
  nodes := h.nodes
  edges := h.edges
  noOutSub := h.noOutSub.trans (List.sublist_append_left _ _)
  edgesG0 := h.edgesG0
  edgesFixed := h.edgesFixed

theorem addDeps_nil_known (target : String) (srcs : List String) (g : GBuild) :
    srcs.foldl (fun g n => g.insert n target) g = addDeps [] target srcs g := by
  unfold addDeps
  congr 1

section
variable (fl : Flags) (widths : AMap Width) (constants : AMap WireValue) (assignments : AMap Ex) (known : List String)

theorem preprocessOne_facts (g0 : GBuild) (done : List FixedFunction) (st : PreState) (f : FixedFunction)
    (hg0 : ∀ e ∈ g0.edges, assignments.contains e.2 = true)
    (hins : (inNames f).Nodup)
    (hfresh : ∀ o w, f.outWire = some (o, w) → o ∉ st.info.byOutput.keys)
    (hclean : (preprocessOne fl widths constants assignments known st f).errors = [])
    (hf : PreFacts assignments known g0 done st) :
    st.errors = [] ∧ PreFacts assignments known g0 (done ++ [f]) (preprocessOne fl widths constants assignments known st f) := by
  unfold preprocessOne at hclean ⊢
  simp only at hclean ⊢
  -- name the pieces
  generalize hmiss : (f.inWires.map (·.1)).filter (fun n => !assignments.contains n) = missing at hclean ⊢
  by_cases hkc : (f.inWires.map (·.1)).any known.contains = true
  · -- clash with a known value: an error
    exfalso
    simp only [hkc, if_true] at hclean
    repeat' split at hclean
    all_goals simp_all [panicDiag]
  · simp only [hkc] at hclean ⊢
    simp only [Bool.false_eq_true, if_false] at hclean ⊢
    by_cases hm : missing.isEmpty = true
    · -- all inputs assigned: the component is active
      have hmnil : missing = [] := by simpa using hm
      have hall : ∀ n ∈ inNames f, assignments.contains n = true := by
        intro n hn
        have : n ∉ missing := by rw [hmnil]; simp
        rw [← hmiss, List.mem_filter] at this
        have h2 : ¬ ((!assignments.contains n) = true) := fun h => this ⟨hn, h⟩
        simpa using h2
      have hne : (!missing.isEmpty) = false := by simp [hm]
      simp only [hne, Bool.and_false, Bool.false_eq_true, if_false] at hclean ⊢
      cases hout : f.outWire with
      | none =>
        simp only [hout] at hclean ⊢
        refine ⟨hclean, ?_⟩
        have hb := hf.mono f
        exact { hb with
          noOut := by
            intro g hg
            rcases List.mem_append.mp hg with h | h
            · exact hb.noOut g h
            · simp at h; subst h
              exact ⟨List.mem_append_right _ List.mem_cons_self, hout, hall⟩
          noOutSub := List.Sublist.append hf.noOutSub (List.Sublist.refl _) }
      | some ow =>
        obtain ⟨out, w⟩ := ow
        simp only [hout] at hclean ⊢
        by_cases hclash : (known.contains out || assignments.contains out) = true
        · exfalso
          simp only [hclash, if_true] at hclean
          simp [panicDiag] at hclean
        · simp only [hclash] at hclean ⊢
          simp only [Bool.false_eq_true, if_false] at hclean ⊢
          have hk : known.contains out = false ∧ assignments.contains out = false := by
            simpa using hclash
          refine ⟨hclean, ?_⟩
          have hfr := hfresh out w hout
          rw [addDeps_nil_known]
          have hnew : ∀ s ∈ f.inWires.map (·.1), (s, out) ∉ st.graph.edges := by
            intro s _ hm
            rcases hf.edges _ hm with h | ⟨f', h1, _⟩
            · have := hg0 _ h; simp only at this; rw [hk.2] at this; simp at this
            · exact hfr (List.mem_map.mpr ⟨(out, f'), h1, rfl⟩)
          have hins' : (f.inWires.map (·.1)).Nodup := hins
          obtain ⟨a1, a2, a3⟩ := addDeps_spec [] out (f.inWires.map (·.1)) st.graph hf.wf hins' hnew
          exact {
            noOut := fun g hg => ⟨List.mem_append_left _ (hf.noOut g hg).1, (hf.noOut g hg).2⟩
            noOutSub := hf.noOutSub.trans (List.sublist_append_left _ _)
            edgesG0 := fun e he => (a3 e).mpr (Or.inl (hf.edgesG0 e he))
            edgesFixed := by
              intro n g hg i hi
              have hget : (st.info.byOutput.insert out f).get? n = some g :=
                AMap.get?_of_mem_nodup _ _ _ (AMap.keys_insert_nodup _ _ _ hf.byKeys) hg
              unfold AMap.get? at hget
              rw [AMap.lookup_insert] at hget
              by_cases hn : n = out
              · subst hn
                simp only [if_true, Option.some.injEq] at hget
                subst hget
                exact (a3 (i, n)).mpr (Or.inr ⟨rfl, hi, rfl⟩)
              · simp only [hn, if_false] at hget
                exact (a3 (i, n)).mpr (Or.inl (hf.edgesFixed n g (AMap.mem_of_get? _ _ _ hget) i hi))
            byKeys := AMap.keys_insert_nodup _ _ _ hf.byKeys
            byOut := by
              intro n g hg
              have hget : (st.info.byOutput.insert out f).get? n = some g :=
                AMap.get?_of_mem_nodup _ _ _ (AMap.keys_insert_nodup _ _ _ hf.byKeys) hg
              unfold AMap.get? at hget
              rw [AMap.lookup_insert] at hget
              by_cases hn : n = out
              · subst hn
                simp only [if_true, Option.some.injEq] at hget
                subst hget
                exact ⟨List.mem_append_right _ List.mem_cons_self, ⟨w, hout⟩, hall, hk.2, hk.1⟩
              · simp only [hn, if_false] at hget
                have := hf.byOut n g (AMap.mem_of_get? _ _ _ hget)
                exact ⟨List.mem_append_left _ this.1, this.2⟩
            wf := a1
            nodes := fun n hn => a2 n (hf.nodes n hn)
            edges := by
              intro e he
              rcases (a3 e).mp he with h | ⟨h1, h2, _⟩
              · rcases hf.edges e h with h' | ⟨f', h1, h2⟩
                · exact Or.inl h'
                · right
                  refine ⟨f', ?_, h2⟩
                  have hne : e.2 ≠ out := by
                    intro e2
                    exact hfr (by rw [← e2]; exact List.mem_map.mpr ⟨(e.2, f'), h1, rfl⟩)
                  have hget := AMap.get?_of_mem_nodup _ _ _ hf.byKeys h1
                  apply AMap.mem_of_get?
                  unfold AMap.get? at hget ⊢
                  rw [AMap.lookup_insert]
                  simp only [hne, if_false]
                  exact hget
              · right
                refine ⟨f, ?_, h2⟩
                apply AMap.mem_of_get?
                unfold AMap.get?
                rw [AMap.lookup_insert, h1]
                simp }
    · -- some input is missing
      have hne : (!missing.isEmpty) = true := by simp [hm]
      simp only [hne, Bool.and_true] at hclean ⊢
      by_cases hmand : f.mandatory = true
      · exfalso
        simp only [hmand, if_true] at hclean
        have hmne : missing ≠ [] := by
          intro e; apply hm; simp [e]
        cases hout : f.outWire with
        | none =>
          simp only [hout] at hclean
          cases hmc : missing with
          | nil => exact hmne hmc
          | cons a l => rw [hmc] at hclean; simp at hclean
        | some ow =>
          simp only [hout] at hclean
          cases hmc : missing with
          | nil => exact hmne hmc
          | cons a l =>
            rw [hmc] at hclean
            split at hclean <;> simp at hclean
      · simp only [hmand] at hclean ⊢
        simp only [Bool.false_eq_true, if_false, if_true] at hclean ⊢
        have h0 : st.errors = [] := by
          cases hs : st.errors with
          | nil => rfl
          | cons a l => rw [hs] at hclean; simp at hclean
        have hb := hf.mono f
        exact ⟨h0, ⟨hb.noOut, hb.byKeys, hb.byOut, hb.wf, hb.nodes, hb.edges, hb.noOutSub, hb.edgesG0, hb.edgesFixed⟩⟩

theorem preprocessOne_errors_back (st : PreState) (f : FixedFunction)
    (h : (preprocessOne fl widths constants assignments known st f).errors = []) : st.errors = [] := by
  unfold preprocessOne at h
  simp only at h
  repeat' split at h
  all_goals simp_all [panicDiag]

theorem preprocess_fold_errors_back (fs : List FixedFunction) (st : PreState)
    (h : (fs.foldl (preprocessOne fl widths constants assignments known) st).errors = []) : st.errors = [] := by
  induction fs generalizing st with
  | nil => exact h
  | cons f rest ih =>
    simp only [List.foldl_cons] at h
    exact preprocessOne_errors_back fl widths constants assignments known st f (ih _ h)

theorem preprocess_fold_facts (fixed : List FixedFunction) (ht : FixedTableOK fixed) (g0 : GBuild)
    (hg0 : ∀ e ∈ g0.edges, assignments.contains e.2 = true) :
    ∀ (todo done : List FixedFunction) (st : PreState), done ++ todo = fixed →
      PreFacts assignments known g0 done st →
      (todo.foldl (preprocessOne fl widths constants assignments known) st).errors = [] →
      PreFacts assignments known g0 fixed (todo.foldl (preprocessOne fl widths constants assignments known) st)
  | [], done, st, hsplit, hf, _ => by
    simp only [List.append_nil] at hsplit
    subst hsplit; exact hf
  | f :: rest, done, st, hsplit, hf, hclean => by
    simp only [List.foldl_cons] at hclean ⊢
    have hfmem : f ∈ fixed := by rw [← hsplit]; simp
    have hstep := preprocess_fold_errors_back fl widths constants assignments known rest _ hclean
    have hfresh : ∀ o w, f.outWire = some (o, w) → o ∉ st.info.byOutput.keys := by
      intro o w ho hm
      obtain ⟨p, hp, hpe⟩ := List.mem_map.mp hm
      obtain ⟨n, g⟩ := p
      simp only at hpe; subst hpe
      obtain ⟨hgd, ⟨w', hgo⟩, _⟩ := hf.byOut n g hp
      -- n is an output of a function in `done` and of `f`: the outputs of the table are distinct
      have hnd := ht.outs
      rw [← hsplit, List.filterMap_append, List.nodup_append] at hnd
      exact hnd.2.2 n (List.mem_filterMap.mpr ⟨g, hgd, by simp [hgo]⟩) n
        (List.mem_filterMap.mpr ⟨f, List.mem_cons_self, by simp [ho]⟩) rfl
    obtain ⟨_, hf'⟩ := preprocessOne_facts fl widths constants assignments known g0 done st f hg0 (ht.ins f hfmem) hfresh hstep hf
    exact preprocess_fold_facts fixed ht g0 hg0 rest (done ++ [f]) _ (by rw [← hsplit]; simp) hf' hclean
end
