import Hcl.Proofs.Accepted
import Hcl.Proofs.Settle
open Rust

/-!
# C03 — register banks update only at the clock edge, honouring stall and bubble

`processBank`/`processBanks` model `process_register_banks`, run once after all actions of a cycle.
That no action changes a bank output during the cycle is `C01_stable` (bank outputs are not driven
by any action of a valid schedule).
-/

def outsOf (b : RegisterBank) : List String := b.signals.map (·.2.1)

/-- value of a control wire (0 when the wire holds 0) -/
def bitsAt (vals : AMap WireValue) (n : String) : Nat := match vals.toEnv n with
  | some v => v.bits
  | none => 0

theorem setOrPanic_ok {vals : AMap WireValue} {n : String} (v : WireValue) (h : vals.contains n = true) :
    setOrPanic vals n v = .ok (vals.insert n v) := by simp [setOrPanic, h, pure, Except.pure]

/-- resetting to the defaults: every listed key gets its default, nothing else changes -/
theorem foldDefaults : ∀ (l : AMap WireValue) (vals : AMap WireValue),
    (l.map (·.1)).Nodup → (∀ p ∈ l, vals.contains p.1 = true) →
    ∃ vals', l.foldlM setDefault vals = .ok vals' ∧
      (∀ p ∈ l, vals'.toEnv p.1 = some p.2) ∧ (∀ n, n ∉ l.map (·.1) → vals'.toEnv n = vals.toEnv n) ∧
      (∀ n, vals.contains n = true → vals'.contains n = true)
  | [], vals, _, _ => ⟨vals, rfl, by simp, fun _ _ => rfl, fun _ h => h⟩
  | (k, v) :: rest, vals, hnd, hp => by
    have hnd' : k ∉ rest.map (·.1) ∧ (rest.map (·.1)).Nodup := List.nodup_cons.mp hnd
    have hk : vals.contains k = true := hp (k, v) (by simp)
    have hp' : ∀ p ∈ rest, (vals.insert k v).contains p.1 = true := by
      intro p hpm; simp [AMap.contains_insert, hp p (List.mem_cons_of_mem _ hpm)]
    obtain ⟨vals', hf, hall, hframe, hmono⟩ := foldDefaults rest (vals.insert k v) hnd'.2 hp'
    refine ⟨vals', by simp only [List.foldlM_cons, setDefault, setOrPanic_ok v hk, bind, Except.bind]; exact hf, ?_, ?_, ?_⟩
    · intro p hpm
      rcases List.mem_cons.mp hpm with rfl | hpm
      · rw [hframe _ hnd'.1, AMap.toEnv_insert]; simp
      · exact hall p hpm
    · intro n hn
      simp only [List.map_cons, List.mem_cons, not_or] at hn
      rw [hframe n hn.2, AMap.toEnv_insert]; simp [hn.1]
    · intro n hc; exact hmono n (by simp [AMap.contains_insert, hc])

/-- loading the inputs: every output takes the value of its input, nothing else changes -/
theorem foldSignals : ∀ (l : List (String × String × Width)) (vals : AMap WireValue),
    (l.map (·.2.1)).Nodup → (∀ sg ∈ l, sg.1 ∉ l.map (·.2.1)) →
    (∀ sg ∈ l, vals.contains sg.1 = true ∧ vals.contains sg.2.1 = true) →
    ∃ vals', l.foldlM loadOne vals = .ok vals' ∧
      (∀ sg ∈ l, vals'.toEnv sg.2.1 = vals.toEnv sg.1) ∧ (∀ n, n ∉ l.map (·.2.1) → vals'.toEnv n = vals.toEnv n) ∧
      (∀ n, vals.contains n = true → vals'.contains n = true)
  | [], vals, _, _, _ => ⟨vals, rfl, by simp, fun _ _ => rfl, fun _ h => h⟩
  | (i, o, w) :: rest, vals, hnd, hin, hp => by
    have hnd' : o ∉ rest.map (·.2.1) ∧ (rest.map (·.2.1)).Nodup := List.nodup_cons.mp hnd
    obtain ⟨hi, ho⟩ := hp (i, o, w) (by simp)
    obtain ⟨nv, hget, hnv⟩ := getOrPanic_of hi
    have hin' : ∀ sg ∈ rest, sg.1 ∉ rest.map (·.2.1) := by
      intro sg hsg hm
      exact hin sg (List.mem_cons_of_mem _ hsg) (by simp [hm])
    have hp' : ∀ sg ∈ rest, (vals.insert o nv).contains sg.1 = true ∧ (vals.insert o nv).contains sg.2.1 = true := by
      intro sg hsg
      obtain ⟨h1, h2⟩ := hp sg (List.mem_cons_of_mem _ hsg)
      simp [AMap.contains_insert, h1, h2]
    obtain ⟨vals', hf, hall, hframe, hmono⟩ := foldSignals rest (vals.insert o nv) hnd'.2 hin' hp'
    refine ⟨vals', by simp only [List.foldlM_cons, loadOne, hget, setOrPanic_ok nv ho, bind, Except.bind]; exact hf, ?_, ?_, ?_⟩
    · intro sg hsg
      rcases List.mem_cons.mp hsg with rfl | hsg
      · rw [hframe _ hnd'.1, AMap.toEnv_insert]; simp [hnv]
      · rw [hall sg hsg, AMap.toEnv_insert]
        have : sg.1 ≠ o := by
          intro e
          exact hin sg (List.mem_cons_of_mem _ hsg) (by simp [e])
        simp [this]
    · intro n hn
      simp only [List.map_cons, List.mem_cons, not_or] at hn
      rw [hframe n hn.2, AMap.toEnv_insert]; simp [hn.1]
    · intro n hc; exact hmono n (by simp [AMap.contains_insert, hc])

/-- what one bank needs of the value table -/
structure BankWF (vals : AMap WireValue) (b : RegisterBank) : Prop where
  outsNodup : (outsOf b).Nodup
  insNotOuts : ∀ sg ∈ b.signals, sg.1 ∉ outsOf b
  present : ∀ sg ∈ b.signals, vals.contains sg.1 = true ∧ vals.contains sg.2.1 = true
  defaultsNodup : (b.defaults.map (·.1)).Nodup
  defaultsAreOuts : ∀ p ∈ b.defaults, p.1 ∈ outsOf b
  defaultsPresent : ∀ p ∈ b.defaults, vals.contains p.1 = true
  stall : vals.contains b.stall = true
  bubble : vals.contains b.bubble = true

/-- **C03, one bank at the clock edge**: bubble resets every register to its default, otherwise stall
    keeps every register, otherwise every register takes its input; no other wire changes. -/
theorem C03_bank_edge (vals : AMap WireValue) (b : RegisterBank) (wf : BankWF vals b) :
    ∃ vals', processBank vals b = .ok vals' ∧
      (∀ n, n ∉ outsOf b → vals'.toEnv n = vals.toEnv n) ∧
      (∀ n, vals.contains n = true → vals'.contains n = true) ∧
      (bitsAt vals b.bubble > 0 → ∀ p ∈ b.defaults, vals'.toEnv p.1 = some p.2) ∧
      (bitsAt vals b.bubble = 0 → bitsAt vals b.stall > 0 → vals' = vals) ∧
      (bitsAt vals b.bubble = 0 → bitsAt vals b.stall = 0 → ∀ sg ∈ b.signals, vals'.toEnv sg.2.1 = vals.toEnv sg.1) := by
  obtain ⟨st, hst, hst'⟩ := getOrPanic_of wf.stall
  obtain ⟨bu, hbu, hbu'⟩ := getOrPanic_of wf.bubble
  have hbb : bitsAt vals b.bubble = bu.bits := by simp [bitsAt, hbu']
  have hsb : bitsAt vals b.stall = st.bits := by simp [bitsAt, hst']
  simp only [processBank, hst, hbu, bind, Except.bind, hbb, hsb]
  by_cases hbub : bu.bits > 0
  · obtain ⟨vals', hf, hall, hframe, hmono⟩ := foldDefaults b.defaults vals wf.defaultsNodup wf.defaultsPresent
    refine ⟨vals', by simp [hbub, hf], ?_, hmono, fun _ => hall, fun h => by omega, fun h => by omega⟩
    intro n hn
    apply hframe n
    intro hm
    obtain ⟨p, hp, rfl⟩ := List.mem_map.mp hm
    exact hn (wf.defaultsAreOuts p hp)
  · by_cases hstall : st.bits > 0
    · refine ⟨vals, by simp [hbub, hstall, pure, Except.pure], fun _ _ => rfl, fun _ h => h, fun h => by omega,
        fun _ _ => rfl, fun _ h => by omega⟩
    · obtain ⟨vals', hf, hall, hframe, hmono⟩ := foldSignals b.signals vals wf.outsNodup wf.insNotOuts wf.present
      exact ⟨vals', by simp [hbub, hstall, hf], hframe, hmono, fun h => by omega, fun _ h => by omega, fun _ _ => hall⟩

/-- the wires a bank looks at: its inputs, its outputs and its two control wires -/
def namesOf (b : RegisterBank) : List String := b.stall :: b.bubble :: (b.signals.map (·.1) ++ outsOf b)

theorem BankWF.transfer {vals vals' : AMap WireValue} {b : RegisterBank} (wf : BankWF vals b)
    (hmono : ∀ n, vals.contains n = true → vals'.contains n = true) : BankWF vals' b :=
  { wf with present := fun sg h => ⟨hmono _ (wf.present sg h).1, hmono _ (wf.present sg h).2⟩,
            defaultsPresent := fun p h => hmono _ (wf.defaultsPresent p h),
            stall := hmono _ wf.stall, bubble := hmono _ wf.bubble }

/-- **C03, banks are independent**: when no bank's outputs are among the wires another bank looks at,
    all banks of the program are updated exactly as each would be alone, from the values at the end
    of the cycle. -/
theorem C03_edge : ∀ (banks : List RegisterBank) (vals : AMap WireValue),
    (∀ b ∈ banks, BankWF vals b) →
    banks.Pairwise (fun b c => (∀ n ∈ namesOf c, n ∉ outsOf b) ∧ (∀ n ∈ namesOf b, n ∉ outsOf c)) →
    ∃ vals', processBanks banks vals = .ok vals' ∧
      (∀ n, (∀ b ∈ banks, n ∉ outsOf b) → vals'.toEnv n = vals.toEnv n) ∧
      (∀ n, vals.contains n = true → vals'.contains n = true) ∧
      ∀ b ∈ banks,
        (bitsAt vals b.bubble > 0 → ∀ p ∈ b.defaults, vals'.toEnv p.1 = some p.2) ∧
        (bitsAt vals b.bubble = 0 → bitsAt vals b.stall > 0 → ∀ sg ∈ b.signals, vals'.toEnv sg.2.1 = vals.toEnv sg.2.1) ∧
        (bitsAt vals b.bubble = 0 → bitsAt vals b.stall = 0 → ∀ sg ∈ b.signals, vals'.toEnv sg.2.1 = vals.toEnv sg.1)
  | [], vals, _, _ => ⟨vals, rfl, fun _ _ => rfl, fun _ h => h, by simp⟩
  | b :: rest, vals, hwf, hpw => by
    obtain ⟨hb_rest, hpw'⟩ := List.pairwise_cons.mp hpw
    obtain ⟨v₁, h₁, hframe₁, hmono₁, hbub₁, hstall₁, hload₁⟩ := C03_bank_edge vals b (hwf b (by simp))
    have hwf₁ : ∀ c ∈ rest, BankWF v₁ c := fun c hc => (hwf c (List.mem_cons_of_mem _ hc)).transfer hmono₁
    obtain ⟨v₂, h₂, hframe₂, hmono₂, hall₂⟩ := C03_edge rest v₁ hwf₁ hpw'
    -- what the other banks look at is untouched by `b`
    have hsame : ∀ c ∈ rest, ∀ n ∈ namesOf c, v₁.toEnv n = vals.toEnv n :=
      fun c hc n hn => hframe₁ n ((hb_rest c hc).1 n hn)
    have hbits : ∀ c ∈ rest, ∀ n ∈ namesOf c, bitsAt v₁ n = bitsAt vals n := by
      intro c hc n hn; simp [bitsAt, hsame c hc n hn]
    refine ⟨v₂, by simp [processBanks, List.foldlM, h₁, bind, Except.bind]; exact h₂, ?_, fun n h => hmono₂ n (hmono₁ n h), ?_⟩
    · intro n hn
      rw [hframe₂ n (fun c hc => hn c (List.mem_cons_of_mem _ hc)), hframe₁ n (hn b (by simp))]
    · intro c hc
      rcases List.mem_cons.mp hc with rfl | hc
      · -- the first bank: later banks do not touch its outputs
        have hkeep : ∀ n ∈ outsOf c, v₂.toEnv n = v₁.toEnv n := by
          intro n hn
          apply hframe₂
          intro d hd hnd
          exact (hb_rest d hd).2 n (by simp [namesOf, hn]) hnd
        refine ⟨?_, ?_, ?_⟩
        · intro hb p hp
          rw [hkeep _ ((hwf c (by simp)).defaultsAreOuts p hp)]; exact hbub₁ hb p hp
        · intro hb hs sg hsg
          rw [hkeep _ (List.mem_map.mpr ⟨sg, hsg, rfl⟩), hstall₁ hb hs]
        · intro hb hs sg hsg
          rw [hkeep _ (List.mem_map.mpr ⟨sg, hsg, rfl⟩)]; exact hload₁ hb hs sg hsg
      · obtain ⟨hA, hB, hC⟩ := hall₂ c hc
        have e1 := hbits c hc c.bubble (by simp [namesOf])
        have e2 := hbits c hc c.stall (by simp [namesOf])
        refine ⟨?_, ?_, ?_⟩
        · intro hb; exact hA (by rw [e1]; exact hb)
        · intro hb hs sg hsg
          rw [hB (by rw [e1]; exact hb) (by rw [e2]; exact hs) sg hsg]
          exact hsame c hc _ (List.mem_cons_of_mem _ (List.mem_cons_of_mem _ (List.mem_append_right _
            (List.mem_map.mpr ⟨sg, hsg, rfl⟩))))
        · intro hb hs sg hsg
          rw [hC (by rw [e1]; exact hb) (by rw [e2]; exact hs) sg hsg]
          exact hsame c hc _ (List.mem_cons_of_mem _ (List.mem_cons_of_mem _ (List.mem_append_left _
            (List.mem_map.mpr ⟨sg, hsg, rfl⟩))))

/-! ### for every accepted program -/

theorem sigNames_nodup_parts : ∀ (sigs : List (String × String × Width)), (sigNames sigs).Nodup →
    (sigs.map (·.2.1)).Nodup ∧ ∀ sg ∈ sigs, sg.1 ∉ sigs.map (·.2.1)
  | [], _ => ⟨by simp, by simp⟩
  | sg :: rest, h => by
    have hrest : (sigNames rest).Nodup := by
      simp only [sigNames, List.flatMap_cons] at h
      exact (List.nodup_append.mp h).2.1
    have hdis : ∀ x ∈ [sg.2.1, sg.1], ∀ y ∈ sigNames rest, x ≠ y := by
      simp only [sigNames, List.flatMap_cons] at h
      exact (List.nodup_append.mp h).2.2
    have hne : sg.2.1 ≠ sg.1 := by
      simp only [sigNames, List.flatMap_cons] at h
      have := (List.nodup_append.mp h).1
      simpa using this
    obtain ⟨ih1, ih2⟩ := sigNames_nodup_parts rest hrest
    have hmem : ∀ s' ∈ rest, s'.2.1 ∈ sigNames rest ∧ s'.1 ∈ sigNames rest := by
      intro s' hs'
      simp only [sigNames, List.mem_flatMap]
      exact ⟨⟨s', hs', by simp⟩, ⟨s', hs', by simp⟩⟩
    refine ⟨?_, ?_⟩
    · simp only [List.map_cons, List.nodup_cons]
      refine ⟨?_, ih1⟩
      intro hm
      obtain ⟨s', hs', e⟩ := List.mem_map.mp hm
      exact hdis sg.2.1 (by simp) s'.2.1 (hmem s' hs').1 e.symm
    · intro s' hs'
      simp only [List.map_cons, List.mem_cons, not_or]
      rcases List.mem_cons.mp hs' with h1 | h1
      · subst h1
        refine ⟨fun e => hne e.symm, ?_⟩
        intro hm
        obtain ⟨s'', hs'', e⟩ := List.mem_map.mp hm
        exact hdis s'.1 (by simp) s''.2.1 (hmem s'' hs'').1 e.symm
      · refine ⟨?_, ih2 s' h1⟩
        intro e
        exact hdis sg.2.1 (by simp) s'.1 (hmem s' h1).2 e.symm

theorem bankNames_pairwise : ∀ (banks : List RegisterBank), (bankNames banks).Nodup →
    (∀ b ∈ banks, (sigNames b.signals).Nodup) ∧
    banks.Pairwise (fun b c => ∀ x ∈ sigNames b.signals, ∀ y ∈ sigNames c.signals, x ≠ y)
  | [], _ => ⟨by simp, List.Pairwise.nil⟩
  | b :: rest, h => by
    simp only [bankNames, List.flatMap_cons] at h
    obtain ⟨h1, h2, h3⟩ := List.nodup_append.mp h
    obtain ⟨ih1, ih2⟩ := bankNames_pairwise rest h2
    refine ⟨?_, List.Pairwise.cons ?_ ih2⟩
    · intro c hc
      rcases List.mem_cons.mp hc with e | e
      · subst e; exact h1
      · exact ih1 c e
    · intro c hc x hx y hy
      exact h3 x hx y (List.mem_flatMap.mpr ⟨c, hc, hy⟩)

/-- **C03 for every accepted program**: at the clock edge of any state in which the bank signals are present (every
    state a run reaches), every bank of an accepted program is updated as the statement says — bubble resets to
    the defaults, otherwise stall keeps, otherwise the inputs are taken — and no other wire changes. -/
theorem C03_accepted (fl : Flags) (cls : CharClass) (o : Orders) (stmts : List Stmt) (p : Program)
    (hwf : StmtsWF stmts) (h : Program.new fl cls o y86FixedFunctions stmts = .ok p)
    (vals : AMap WireValue)
    (hpresent : ∀ b ∈ p.banks, (∀ sg ∈ b.signals, vals.contains sg.1 = true ∧ vals.contains sg.2.1 = true) ∧
      vals.contains b.stall = true ∧ vals.contains b.bubble = true) :
    ∃ vals', processBanks p.banks vals = .ok vals' ∧
      (∀ n, (∀ b ∈ p.banks, n ∉ outsOf b) → vals'.toEnv n = vals.toEnv n) ∧
      ∀ b ∈ p.banks,
        (bitsAt vals b.bubble > 0 → ∀ q ∈ b.defaults, vals'.toEnv q.1 = some q.2) ∧
        (bitsAt vals b.bubble = 0 → bitsAt vals b.stall > 0 → ∀ sg ∈ b.signals, vals'.toEnv sg.2.1 = vals.toEnv sg.2.1) ∧
        (bitsAt vals b.bubble = 0 → bitsAt vals b.stall = 0 → ∀ sg ∈ b.signals, vals'.toEnv sg.2.1 = vals.toEnv sg.1) := by
  obtain ⟨s1, constants, s3, known, hyp, _, _, _, hpb, _⟩ := Program_new_decompose fl cls o stmts p hwf h
  rw [hpb] at hpresent ⊢
  have hnd : (bankNames s3.banks).Nodup := by
    have := hyp.s3f.nodup
    rw [hyp.s3f.seen] at this
    simpa [sigNames] using this
  obtain ⟨hper, hpair⟩ := bankNames_pairwise s3.banks hnd
  have hwfb : ∀ b ∈ s3.banks, BankWF vals b := by
    intro b hb
    obtain ⟨g1, g2⟩ := sigNames_nodup_parts b.signals (hper b hb)
    have hs := (hyp.s3f.banks b hb).sigs
    obtain ⟨hp1, hp2, hp3⟩ := hpresent b hb
    exact {
      outsNodup := g1
      insNotOuts := g2
      present := hp1
      defaultsNodup := hs.keys
      defaultsAreOuts := by
        intro q hq
        obtain ⟨sg, hsg, e, _⟩ := hs.dflt q hq
        exact List.mem_map.mpr ⟨sg, hsg, e⟩
      defaultsPresent := by
        intro q hq
        obtain ⟨sg, hsg, e, _⟩ := hs.dflt q hq
        rw [← e]; exact (hp1 sg hsg).2
      stall := hp2
      bubble := hp3 }
  have hpw : s3.banks.Pairwise (fun b c => (∀ n ∈ namesOf c, n ∉ outsOf b) ∧ (∀ n ∈ namesOf b, n ∉ outsOf c)) := by
    -- control names are never signal names; signal names of different banks are distinct
    have hctl : ∀ b ∈ s3.banks, ∀ c ∈ s3.banks, b.stall ∉ outsOf c ∧ b.bubble ∉ outsOf c := by
      intro b hb c hc
      obtain ⟨ch, e1, e2⟩ := (hyp.s3f.banks b hb).ctl
      constructor
      · intro hm
        obtain ⟨sg, hsg, e⟩ := List.mem_map.mp hm
        have := isSigName_second ((hyp.s3f.banks c hc).sigs.sig sg hsg).2.1
        rw [e, e1, stall_not_sig] at this; cases this
      · intro hm
        obtain ⟨sg, hsg, e⟩ := List.mem_map.mp hm
        have := isSigName_second ((hyp.s3f.banks c hc).sigs.sig sg hsg).2.1
        rw [e, e2, bubble_not_sig] at this; cases this
    have hsub : ∀ b : RegisterBank, ∀ n, n ∈ b.signals.map (·.1) ++ outsOf b → n ∈ sigNames b.signals := by
      intro b n hn
      simp only [sigNames, List.mem_flatMap]
      rcases List.mem_append.mp hn with h1 | h1
      · obtain ⟨sg, hsg, e⟩ := List.mem_map.mp h1
        exact ⟨sg, hsg, by simp [e]⟩
      · obtain ⟨sg, hsg, e⟩ := List.mem_map.mp h1
        exact ⟨sg, hsg, by simp [e]⟩
    have hmemPair : ∀ b ∈ s3.banks, ∀ c ∈ s3.banks,
        (∀ x ∈ sigNames b.signals, ∀ y ∈ sigNames c.signals, x ≠ y) →
        (∀ n ∈ namesOf c, n ∉ outsOf b) ∧ (∀ n ∈ namesOf b, n ∉ outsOf c) := by
      intro b hb c hc hdis
      constructor
      · intro n hn hm
        simp only [namesOf, List.mem_cons] at hn
        rcases hn with e | e | e
        · subst e; exact (hctl c hc b hb).1 hm
        · subst e; exact (hctl c hc b hb).2 hm
        · exact hdis n (hsub b n (List.mem_append_right _ hm)) n (hsub c n e) rfl
      · intro n hn hm
        simp only [namesOf, List.mem_cons] at hn
        rcases hn with e | e | e
        · subst e; exact (hctl b hb c hc).1 hm
        · subst e; exact (hctl b hb c hc).2 hm
        · exact hdis n (hsub b n e) n (hsub c n (List.mem_append_right _ hm)) rfl
    -- lift the pairwise fact
    have : ∀ (l : List RegisterBank), (∀ b ∈ l, b ∈ s3.banks) →
        l.Pairwise (fun b c => ∀ x ∈ sigNames b.signals, ∀ y ∈ sigNames c.signals, x ≠ y) →
        l.Pairwise (fun b c => (∀ n ∈ namesOf c, n ∉ outsOf b) ∧ (∀ n ∈ namesOf b, n ∉ outsOf c)) := by
      intro l
      induction l with
      | nil => intro _ _; exact List.Pairwise.nil
      | cons b rest ih =>
        intro hin hp
        obtain ⟨hp1, hp2⟩ := List.pairwise_cons.mp hp
        refine List.Pairwise.cons ?_ (ih (fun x hx => hin x (List.mem_cons_of_mem _ hx)) hp2)
        intro c hc
        exact hmemPair b (hin b List.mem_cons_self) c (hin c (List.mem_cons_of_mem _ hc)) (hp1 c hc)
    exact this s3.banks (fun _ hb => hb) hpair
  obtain ⟨vals', h1, h2, _, h4⟩ := C03_edge s3.banks vals hwfb hpw
  exact ⟨vals', h1, h2, h4⟩
