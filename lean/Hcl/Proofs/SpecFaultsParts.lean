import Hcl.Spec.Accept
import Hcl.Proofs.CompleteIff
import Hcl.Proofs.ReorderTables
open Rust

/-! # `Spec.faults` cut into its named parts

`Spec.faults` is one long `let` chain.  Here every intermediate list gets a name of its own (namespace `SF`), and
`SF.faults_eq` shows that `Spec.faults` is the concatenation of the fourteen parts.  `SF.faults_nil_iff` is then the
statement that the list is empty exactly when every part is. -/

namespace SF

/-- the tables the specification reads off the statements -/
def el (stmts : List Stmt) : Spec.Elab := stmts.foldl Spec.elabStmt {}

def constNames (stmts : List Stmt) : List String := (el stmts).constDefs.map (·.1)
def wireNames (stmts : List Stmt) : List String := (el stmts).wireWidths.map (·.1)

def goodName (isLower isUpper : Char → Bool) (b : BankDecl) : Bool :=
  match b.name.toList with
  | [i, o] => isLower i && isUpper o
  | _ => false

def goodBanks (isLower isUpper : Char → Bool) (stmts : List Stmt) : List BankDecl :=
  (el stmts).banks.filter (goodName isLower isUpper)

def bankFaults (isLower isUpper : Char → Bool) (stmts : List Stmt) : List Spec.Fault :=
  ((el stmts).banks.filter (fun b => !(goodBanks isLower isUpper stmts).any (fun g => g.name == b.name))).map
    (fun b => ⟨.badBankName, b.name⟩)

def inNameOf (b : BankDecl) (r : RegDecl) : String := String.ofList [b.name.toList.head!, '_'] ++ r.name
def outNameOf (b : BankDecl) (r : RegDecl) : String := String.ofList [b.name.toList.getLast!, '_'] ++ r.name

def bankInOf (gb : List BankDecl) : List String := gb.flatMap fun b => b.regs.map fun r => inNameOf b r
def bankOutOf (gb : List BankDecl) : List String := gb.flatMap fun b => b.regs.map fun r => outNameOf b r
def bankCtlOf (gb : List BankDecl) : List String :=
  Spec.dedup (gb.flatMap fun b =>
    ["stall_" ++ String.ofList [b.name.toList.getLast!], "bubble_" ++ String.ofList [b.name.toList.getLast!]])

def builtinIn : List String := Spec.dedup (Spec.components.flatMap (·.inputs))
def builtinOut : List String := Spec.components.filterMap (·.output)

def allDecls (isLower isUpper : Char → Bool) (stmts : List Stmt) : List String :=
  wireNames stmts ++ constNames stmts ++ bankInOf (goodBanks isLower isUpper stmts) ++ bankOutOf (goodBanks isLower isUpper stmts) ++
    bankCtlOf (goodBanks isLower isUpper stmts) ++ builtinIn ++ builtinOut

def targets (stmts : List Stmt) : List String := (el stmts).assigns.map (·.1)

def defaultsOf (gb : List BankDecl) : List Ex := gb.flatMap (fun b => b.regs.map (·.default))

def exprs (isLower isUpper : Char → Bool) (stmts : List Stmt) : List Ex :=
  (el stmts).assigns.map (·.2) ++ (el stmts).constDefs.map (·.2) ++ defaultsOf (goodBanks isLower isUpper stmts)

def readNames (isLower isUpper : Char → Bool) (stmts : List Stmt) : List String :=
  Spec.dedup ((exprs isLower isUpper stmts).flatMap refs)

section
variable (fl : Flags) (isLower isUpper : Char → Bool) (stmts : List Stmt)

def declared (n : String) : Bool := (allDecls isLower isUpper stmts).contains n
def assigned (n : String) : Bool := (targets stmts).contains n

def f1 : List Spec.Fault :=
  (Spec.dedup (allDecls isLower isUpper stmts)).filterMap fun n =>
    if Spec.count (allDecls isLower isUpper stmts) n > 1 then some (⟨.declaredTwice, n⟩ : Spec.Fault) else none
def f2 : List Spec.Fault :=
  (Spec.dedup (targets stmts)).filterMap fun n =>
    if Spec.count (targets stmts) n > 1 then some (⟨.assignedTwice, n⟩ : Spec.Fault) else none
def f3 : List Spec.Fault :=
  (readNames isLower isUpper stmts).filterMap fun n =>
    if declared isLower isUpper stmts n then none else some (⟨.readUndeclared, n⟩ : Spec.Fault)
def f4 : List Spec.Fault :=
  (Spec.dedup (targets stmts)).filterMap fun n =>
    if declared isLower isUpper stmts n then none else some (⟨.assignedUndeclared, n⟩ : Spec.Fault)
def f5 : List Spec.Fault :=
  (Spec.dedup (targets stmts)).filterMap fun n =>
    if (bankOutOf (goodBanks isLower isUpper stmts)).contains n || builtinOut.contains n || (constNames stmts).contains n
    then some (⟨.assignedDriven, n⟩ : Spec.Fault) else none
def f6a : List Spec.Fault :=
  (wireNames stmts ++ bankInOf (goodBanks isLower isUpper stmts)).filterMap fun n =>
    if assigned stmts n then none else some (⟨.neverAssigned, n⟩ : Spec.Fault)

def constEnv : String → Nat := (Spec.design stmts).consts.get
def isConstExpr (e : Ex) : Bool := (refs e).all (constNames stmts).contains

def disabledC (c : Spec.Component) : Bool :=
  match c.enable with
  | some en => (match (el stmts).assigns.lookup en with
      | some e => isConstExpr stmts e && Spec.dv (Spec.design stmts).Γ (constEnv stmts) e == some 0
      | none => false)
  | none => false

def f6bOf (c : Spec.Component) : List Spec.Fault :=
  let missing := c.inputs.filter (fun i => !assigned stmts i)
  let needed := c.mandatory || (match c.output with
    | some o => (readNames isLower isUpper stmts).contains o || assigned stmts o | none => false)
  if missing.isEmpty then []
  else if needed then missing.map (fun i => (⟨.neverAssigned, i⟩ : Spec.Fault))
  else if missing.length < c.inputs.length && !disabledC stmts c then [⟨.partialComponent, missing.head!⟩]
  else []

def f6b : List Spec.Fault := Spec.components.flatMap (f6bOf isLower isUpper stmts)

def f6c : List Spec.Fault :=
  (builtinIn ++ bankCtlOf (goodBanks isLower isUpper stmts)).filterMap fun n =>
    if (readNames isLower isUpper stmts).contains n && !assigned stmts n then some (⟨.neverAssigned, n⟩ : Spec.Fault) else none

def f7 : List Spec.Fault :=
  ((el stmts).constDefs.map (·.2) ++ defaultsOf (goodBanks isLower isUpper stmts)).flatMap fun e =>
    (Spec.dedup (refs e)).filterMap fun n =>
      if declared isLower isUpper stmts n && !(constNames stmts).contains n then some (⟨.constReadsWire, n⟩ : Spec.Fault) else none

/-- the specification's "always true": a constant expression with a non-zero value -/
def isTrue (e : Ex) : Bool :=
  isConstExpr stmts e && (match Spec.dv (Spec.design stmts).Γ (constEnv stmts) e with | some v => v != 0 | none => false)

def wAssign : List Spec.Fault :=
  (el stmts).assigns.filterMap fun p =>
    match Spec.typeOf fl (Spec.design stmts).Γ (isTrue stmts) p.2, (Spec.design stmts).Γ p.1 with
    | some ew, some tw => if Spec.compatible tw ew then none else some (⟨.widthRule, p.1⟩ : Spec.Fault)
    | none, _ => some ⟨.widthRule, p.1⟩
    | _, none => none

def wConst : List Spec.Fault :=
  (el stmts).constDefs.filterMap fun p => match Spec.typeOf fl (Spec.design stmts).Γ (isTrue stmts) p.2 with
    | some _ => (match Spec.dv (Spec.design stmts).Γ (constEnv stmts) p.2 with
        | some _ => none | none => some (⟨.widthRule, p.1⟩ : Spec.Fault))
    | none => some ⟨.widthRule, p.1⟩

def wDefault : List Spec.Fault :=
  (goodBanks isLower isUpper stmts).flatMap fun b => b.regs.filterMap fun r =>
    match Spec.typeOf fl (Spec.design stmts).Γ (isTrue stmts) r.default with
    | some ew => if Spec.compatible r.width ew && (Spec.dv (Spec.design stmts).Γ (constEnv stmts) r.default).isSome then none
        else some (⟨.widthRule, r.name⟩ : Spec.Fault)
    | none => some ⟨.widthRule, r.name⟩

def known (n : String) : Bool := (constNames stmts).contains n || (bankOutOf (goodBanks isLower isUpper stmts)).contains n

def eAssign : List (String × String) :=
  (el stmts).assigns.flatMap fun p => (Spec.dedup (refs p.2)).filterMap fun n =>
    if known isLower isUpper stmts n then none else some (n, p.1)
def eComp : List (String × String) :=
  Spec.components.flatMap fun c => match c.output with
    | some o => if c.inputs.all (assigned stmts) then c.inputs.map (fun i => (i, o)) else []
    | none => []
def eConst : List (String × String) :=
  (el stmts).constDefs.flatMap fun p => (Spec.dedup (refs p.2)).map fun n => (n, p.1)

def loops : List Spec.Fault :=
  (Spec.cyclicNodes (eAssign isLower isUpper stmts ++ eComp stmts) ++ Spec.cyclicNodes (eConst stmts)).map
    fun n => (⟨.loop, n⟩ : Spec.Fault)

/-- **`Spec.faults` is the concatenation of the fourteen parts** -/
theorem faults_eq :
    Spec.faults fl isLower isUpper stmts =
      bankFaults isLower isUpper stmts ++ f1 isLower isUpper stmts ++ f2 stmts ++ f3 isLower isUpper stmts ++
      f4 isLower isUpper stmts ++ f5 isLower isUpper stmts ++ f6a isLower isUpper stmts ++ f6b isLower isUpper stmts ++
      f6c isLower isUpper stmts ++ f7 isLower isUpper stmts ++ wAssign fl stmts ++ wConst fl stmts ++
      wDefault fl isLower isUpper stmts ++ loops isLower isUpper stmts := rfl

/-- the list of faults is empty exactly when each of the fourteen parts is -/
theorem faults_nil_iff :
    Spec.faults fl isLower isUpper stmts = [] ↔
      (bankFaults isLower isUpper stmts = [] ∧ f1 isLower isUpper stmts = [] ∧ f2 stmts = [] ∧ f3 isLower isUpper stmts = [] ∧
       f4 isLower isUpper stmts = [] ∧ f5 isLower isUpper stmts = [] ∧ f6a isLower isUpper stmts = [] ∧
       f6b isLower isUpper stmts = [] ∧ f6c isLower isUpper stmts = [] ∧ f7 isLower isUpper stmts = [] ∧
       wAssign fl stmts = [] ∧ wConst fl stmts = [] ∧ wDefault fl isLower isUpper stmts = [] ∧
       loops isLower isUpper stmts = []) := by
  rw [faults_eq]
  simp only [List.append_eq_nil_iff, and_assoc]

end
end SF
