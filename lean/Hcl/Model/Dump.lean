import Hcl.Model.Step
import Hcl.Util.Format
open Rust

/-! Model of the state dump: `dump_program_registers_y86`, `dump_bank`, `dump_custom_registers_y86`,
    `dump_memory_y86`, `dump_y86` (program.rs).  Text is produced as `String`; lengths that the Rust
    code takes with `str::len` are UTF-8 byte lengths (`String.utf8ByteSize`). -/

namespace Dump

def spaces (n : Nat) : String := String.ofList (List.replicate n ' ')

/-- `{:w$}` for a decimal number: right-aligned -/
def decPad (w n : Nat) : String := String.ofList (padLeft ' ' w (decDigits 45 n))

def regLine (l1 : String) (a : Nat) (l2 : String) (b : Nat) (l3 : String) (c : Nat) : String :=
  "| " ++ l1 ++ toHexPadSpace 16 a ++ "   " ++ l2 ++ toHexPadSpace 16 b ++ "   " ++ l3 ++ toHexPadSpace 16 c ++ " |\n"

/-- `dump_program_registers_y86` -/
def programRegisters (r : List Nat) : String :=
  let g (i : Nat) := r.getD i 0
  regLine "RAX: " (g 0) "RCX: " (g 1) "RDX: " (g 2) ++
  regLine "RBX: " (g 3) "RSP: " (g 4) "RBP: " (g 5) ++
  regLine "RSI: " (g 6) "RDI: " (g 7) "R8:  " (g 8) ++
  regLine "R9:  " (g 9) "R10: " (g 10) "R11: " (g 11) ++
  regLine "R12: " (g 12) "R13: " (g 13) "R14: " (g 14)

def bitsOf (vals : AMap WireValue) (n : String) : Nat := match vals.get? n with
  | some v => v.bits
  | none => 0

/-- the register name: the input wire's name without its first two characters -/
def regNameOf (inName : String) : String := String.ofList (inName.toList.drop 2)

/-- what `dump_bank` prints: the opening of the group, the end of a line that is full (padded to the frame) together
    with the start of the next, one register, the closing brace, the end of the last line -/
inductive BTok where
  | head (label status : String)
  | wrap (pad : Nat)
  | item (name : String) (hexWidth value : Nat)
  | close
  | fin (pad : Nat)
  deriving Repr, DecidableEq

def BTok.text : BTok → String
  | .head label status => "| register " ++ label ++ "(" ++ status ++ ") {"
  | .wrap pad => spaces pad ++ " |\n| "
  | .item name w v => " " ++ name ++ "=" ++ toHexPad w v
  | .close => " }"
  | .fin pad => spaces pad ++ " |\n"

structure BankOut where
  toks : List BTok
  loc : Nat

/-- the column after which a line of the dump is full -/
def maxLoc : Nat := 71

/-- one register of the bank: a new line first if it does not fit -/
def bankStep (vals : AMap WireValue) (o : BankOut) (sg : String × String × Width) : BankOut :=
  let name := regNameOf sg.1
  let hexWidth := (sg.2.2.bitsOr128 + 3) / 4
  let o : BankOut := if o.loc + 2 + hexWidth + name.utf8ByteSize ≥ maxLoc then ⟨o.toks ++ [.wrap (maxLoc - o.loc)], 2⟩ else o
  ⟨o.toks ++ [.item name hexWidth (bitsOf vals sg.2.1)], o.loc + 2 + hexWidth + name.utf8ByteSize⟩

/-- the tokens of `dump_bank` -/
def bankToks (vals : AMap WireValue) (b : RegisterBank) : List BTok :=
  let status := if bitsOf vals b.bubble > 0 then "B" else if bitsOf vals b.stall > 0 then "S" else "N"
  let o := b.signals.foldl (bankStep vals) ⟨[.head b.label status], 18⟩
  let o : BankOut := if o.loc + 2 ≥ maxLoc then ⟨o.toks ++ [.wrap (maxLoc - o.loc)], 2⟩ else o
  o.toks ++ [.close, .fin (maxLoc - (o.loc + 2))]

/-- `dump_bank` -/
def bank (vals : AMap WireValue) (b : RegisterBank) : String := String.join ((bankToks vals b).map BTok.text)

def lastChar (s : String) : Char := s.toList.getLast?.getD ' '

/-- `letters.sort()` on distinct letters -/
def sortChars (l : List Char) : List Char := l.mergeSort (fun a b => decide (a.toNat ≤ b.toNat))

/-- the letter `dump_custom_registers_y86` files a bank under: the last character of its stall signal's name -/
def letterOf (b : RegisterBank) : Char := lastChar b.stall

/-- the `HashMap<char, &RegisterBank>`: one bank per letter, a later bank with the same letter replaces an earlier one -/
def byLetter (banks : List RegisterBank) : List (Char × RegisterBank) :=
  banks.foldl (fun acc b =>
    let c := letterOf b
    if acc.any (fun p => p.1 == c) then acc.map (fun p => if p.1 == c then (c, b) else p) else acc ++ [(c, b)]) []

def stdOrder : List Char := ['P', 'F', 'D', 'E', 'M', 'W']

def bankFor (m : List (Char × RegisterBank)) (c : Char) : Option RegisterBank := (m.find? (fun p => p.1 == c)).map (·.2)

/-- the banks in the order they are printed: `P F D E M W` first, then the other letters in order -/
def printedBanks (banks : List RegisterBank) : List RegisterBank :=
  let m := byLetter banks
  let restLetters := sortChars ((m.map (·.1)).filter (fun c => !stdOrder.contains c))
  (stdOrder ++ restLetters).filterMap (bankFor m)

/-- `dump_custom_registers_y86` -/
def customRegisters (vals : AMap WireValue) (banks : List RegisterBank) : String :=
  String.join ((printedBanks banks).map (bank vals))

/-- what the memory walk prints: a row label, or one of the sixteen cells of a row (with the group separators and the
    end of the row that follow it) -/
inductive MTok where
  | label (row : Nat)
  | cell (col : Nat) (b : Option Nat)
  deriving Repr, DecidableEq

def MTok.text : MTok → String
  | .label r => "|  0x" ++ toHexPad 7 r ++ "_:  "
  | .cell i b =>
    (match b with | some v => " " ++ toHexPad 2 v | none => "   ") ++
    (if i == 3 || i == 11 then " " else if i == 7 then "  " else "") ++
    (if i == 15 then "    |\n" else "")

structure Walk where
  cur : Nat
  toks : List MTok
  stop : Bool := false

/-- one iteration of `while cur_addr <= k` -/
def walkStep (k v : Nat) (w : Walk) : Walk :=
  let (cur, toks) := if w.cur % 16 == 0 then
      let c := (k / 16) * 16
      (c, w.toks ++ [MTok.label (c / 16)])
    else (w.cur, w.toks)
  let toks := toks ++ [MTok.cell (cur % 16) (if cur == k then some v else none)]
  let next := (cur + 1) % U64
  ⟨next, toks, next == 0⟩

def walkKey (k v : Nat) : Nat → Walk → Walk
  | 0, w => w
  | fuel+1, w => if !w.stop && w.cur ≤ k then walkKey k v fuel (walkStep k v w) else w

/-- the `while cur_addr % 16 != 0` loop that completes the last row -/
def padRow : Nat → Walk → Walk
  | 0, w => w
  | fuel+1, w =>
    if w.cur % 16 != 0 then padRow fuel ⟨(w.cur + 1) % U64, w.toks ++ [MTok.cell (w.cur % 16) none], false⟩
    else w

def memHeader : String := "| used memory:   _0 _1 _2 _3  _4 _5 _6 _7   _8 _9 _a _b  _c _d _e _f    |\n"

/-- the tokens of `dump_memory_y86` after the header line -/
def memToks (m : Mem) : List MTok :=
  match m with
  | [] => []
  | (k0, _) :: _ =>
    let w := m.foldl (fun w (p : Nat × Nat) => walkKey p.1 p.2 34 { w with stop := false }) ⟨(k0 / 16) * 16, [], false⟩
    (padRow 17 w).toks

/-- `dump_memory_y86` -/
def memory (m : Mem) : String := memHeader ++ String.join ((memToks m).map MTok.text)

/-- `name_status_y86` -/
def statusName (st : Nat) : String :=
  match st with
  | 0 => "0 (Bubble)" | 1 => "1 (OK)" | 2 => "2 (Halt)" | 3 => "3 (Invalid Address)"
  | 4 => "4 (Invalid Instruction)" | 5 => "5 (Pipeline Error)"
  | n => toDec n ++ " (Unknown)"

/-- `dump_y86` (`showBanks` = `show_register_banks_with_registers`) -/
def state (s : State) (banks : List RegisterBank) (timeout : Nat) (showBanks : Bool) : String :=
  let hd := if halted s then "+----------------------- halted in state: ------------------------------+\n"
    else if timedOut s timeout then "+------------ timed out after " ++ decPad 5 s.cycle ++ " cycles in state: -------------------+\n"
    else if isDone s timeout then "+------------------- error caused in state: ----------------------------+\n"
    else "+------------------- between cycles " ++ decPad 4 s.cycle ++ " and " ++ decPad 4 (s.cycle + 1) ++ " ----------------------+\n"
  let ft := if halted s then "+--------------------- (end of halted state) ---------------------------+\n"
    else if isDone s timeout && !timedOut s timeout then "+-------------------- (end of error state) -----------------------------+\n"
    else "+-----------------------------------------------------------------------+\n"
  let tail := if isDone s timeout && !timedOut s timeout then
      "Cycles run: " ++ toDec s.cycle ++ "\n" ++
        (if !halted s && !timedOut s timeout then "Error code: " ++ statusName (statusOr s 255) ++ "\n" else "")
    else ""
  hd ++ programRegisters s.regs ++ (if showBanks && !banks.isEmpty then customRegisters s.values banks else "") ++
    memory s.mem ++ ft ++ tail

end Dump

/-! ### the `-d` wire table: `dump_values_grouped/ungrouped`, `dump_wire_subtable`, `find_table_widths`, `dump_wire_table_rows` -/

namespace Dump

def toUpperAscii (s : String) : String := String.ofList (s.toList.map fun c => if 'a' ≤ c && c ≤ 'z' then Char.ofNat (c.toNat - 32) else c)

/-- `keys.sort_unstable_by(|a, b| a.to_ascii_uppercase().cmp(&b.to_ascii_uppercase()).then(a.cmp(&b)))` -/
def sortKeys (keys : List String) : List String :=
  (keys.toArray.qsort (fun a b => toUpperAscii a < toUpperAscii b || (toUpperAscii a == toUpperAscii b && a < b))).toList

def valueWidthLen (v : WireValue) : Nat := ((match v.width with | .unlimited => 64 | .bits x => x) + 3) / 4 + 2

def padRight (width : Nat) (s : String) : String := s ++ spaces (width - s.length)

/-- `{:#0w$x}`: `0x` followed by the digits zero-padded to a total width of `w` -/
def hexAlt (w : Nat) (n : Nat) : String := "0x" ++ toHexPad (w - 2) n

def subtable (vals : AMap WireValue) (keys : List String) (label : String) (header : Bool) : String :=
  if keys.isEmpty then "" else
  let lens := keys.map fun k => match vals.get? k with | some v => valueWidthLen v | none => 0
  let maxName := keys.foldl (fun m k => Nat.max k.utf8ByteSize m) 15
  let maxValue := lens.foldl (fun m l => Nat.max l m) 22
  let hd := if header then padRight maxName "Wire" ++ "  " ++ spaces (maxValue - 5) ++ "Value\n" else ""
  let rows := (sortKeys keys).map fun k =>
    match vals.get? k with
    | some v => padRight maxName k ++ "  " ++ spaces (maxValue - valueWidthLen v) ++ hexAlt (valueWidthLen v) v.bits ++ "\n"
    | none => ""
  label ++ "\n" ++ hd ++ String.join rows ++ "\n"

/-- the sub-tables of `dump_values`: label, keys, header flag -/
def tableGroups (p : Program) (vals : AMap WireValue) (grouped : Bool) : List (String × List String × Bool) :=
  let keys := vals.keys.filter fun k => !p.defaulted.contains k
  if grouped then
    let ty (k : String) : WireType := (p.wireTypes.get? k).getD .normal
    [("Values of inputs to built-in components:", keys.filter (fun k => ty k == .builtinInput), false),
     ("Values of outputs of built-in components:", keys.filter (fun k => ty k == .builtinOutput), false),
     ("Values of register bank signals:", keys.filter (fun k => ty k == .bankInput || ty k == .bankOutput || ty k == .bankSpecial), false),
     ("Values of other wires:", keys.filter (fun k => ty k == .normal), false)]
  else
    [("Values of wires:", keys.filter (fun k => !p.constants.contains k), true)]

/-- `dump_values` (from its first `Values of ...` line on) -/
def wireTable (p : Program) (vals : AMap WireValue) (grouped : Bool) : String :=
  String.join ((tableGroups p vals grouped).map fun g => subtable vals g.2.1 g.1 g.2.2)

end Dump
