//! S-RENDER: the text `Error::format_for_contents` writes for every kind of rejected input, byte for byte.
//!
//! One case = one `Error` value produced by the real code (or, for the variants no input reaches, built by hand and
//! marked `synthetic`) together with the file it is rendered against.  Request:
//! `(render (how H) (prelen N) (user xHEX) (name xHEX) (error E))` where `E` is `verif_hooks::error_sexp` of the error
//! and `xHEX` is the letter x followed by the bytes in hexadecimal; the preamble is the real one (only its length is
//! sent).  Result: the bytes written, in hexadecimal (`-` when nothing was written), or `PANIC`.
use crate::gen;
use crate::proggen;
use crate::rng::Rng;
use crate::streams::{anytext_input, diag_input, faulty_program, hex_of, yo_input};

type Emit<'a> = &'a mut dyn FnMut(String, String);

fn is_ident_byte(b: u8) -> bool { b.is_ascii_alphanumeric() || b == b'_' || b >= 0x80 }

/// every whole-word occurrence of `from` (an ASCII identifier) replaced by `to`
fn rename_word(text: &str, from: &str, to: &str) -> String {
    let b = text.as_bytes();
    let f = from.as_bytes();
    let mut out: Vec<u8> = Vec::new();
    let mut i = 0;
    while i < b.len() {
        if b[i..].starts_with(f) && (i == 0 || !is_ident_byte(b[i - 1])) && (i + f.len() == b.len() || !is_ident_byte(b[i + f.len()])) {
            out.extend_from_slice(to.as_bytes());
            i += f.len();
        } else { out.push(b[i]); i += 1; }
    }
    String::from_utf8(out).unwrap_or_else(|_| text.to_string())
}

/// the ASCII identifiers of the text that the generators invent (never keywords or built-in names)
fn renameable(text: &str) -> Vec<String> {
    let mut found: Vec<String> = Vec::new();
    let b = text.as_bytes();
    let mut i = 0;
    while i < b.len() {
        if is_ident_byte(b[i]) {
            let s = i;
            while i < b.len() && is_ident_byte(b[i]) { i += 1; }
            let w = &text[s..i];
            let generated = (w.len() >= 2 && w.starts_with('w') && w[1..].bytes().all(|c| c.is_ascii_digit()))
                || (w.len() >= 2 && w.starts_with('K') && w[1..].bytes().all(|c| c.is_ascii_digit()))
                || ["zz9", "zz8", "mfa", "mfb", "mfc", "la", "lb", "lc", "a", "b", "c", "d", "zz", "ghostwire"].contains(&w)
                || w.starts_with("undecl") || w.starts_with("ghost") || w.starts_with("mq") || w.starts_with("rw") || w.starts_with("RK");
            if generated && !found.iter().any(|x| x == w) { found.push(w.to_string()); }
        } else { i += 1; }
    }
    found
}

/// statements the grammar itself objects to (each has its own diagnostic), and literals / widths out of range
fn grammar_fault(rng: &mut Rng) -> String {
    let n = *rng.pick(&["gq", "g\u{e9}", "\u{65e5}\u{672c}", "g_q1", "G"][..]);
    match rng.below(18) {
        0 => format!("wire {};", n),
        1 => format!("wire {} = 1;", n),
        2 => format!("wire {} : 8 = 1;", n),
        3 => format!("const {} : 8 = 1;", n.to_uppercase()),
        4 => format!("wire {}:8; {} [ 1 : 2; ];", n, n),
        5 => format!("register gQ {{ {} = 0; }}", n),
        6 => format!("register gQ {{ wire {} : 8 = 0; }}", n),
        7 => format!("register gQ {{ wire {} = 0; }}", n),
        8 => format!("{};", n),
        9 => format!("({} + 1);", n),
        10 => format!("wire {} : {};", n, rng.pick(&[129u64, 200, 1000, 65536, 1 << 40][..])),
        11 => format!("wire {}:8; {} = 0x100000000000000000000000000000000;", n, n),
        12 => format!("wire {}:8; {} = pc[0..{}];", n, n, rng.pick(&[129u64, 300, 100000][..])),
        13 => format!("wire {}, {}2 : 4, {}3 = 2;", n, n, n),
        14 => format!("register gQ {{ a : 300 = 0; }}"),
        15 | 16 => format!("wire {}:8; {} = (i10bytes .. {})[0..8];", n, n, rng.pick(&["i10bytes", "0x1ffffffffffff", "(mem_output .. 0b1)"][..])),
        _ => format!("42;"),
    }
}

/// a program that is accepted and divides by zero in its first or second cycle
fn divide_program(rng: &mut Rng) -> String {
    let n = *rng.pick(&["q", "q\u{e9}", "quot"][..]);
    let lead = *rng.pick(&["", "# divisi\u{f3}n\n", "\r\n"][..]);
    match rng.below(3) {
        0 => format!("{}register cC {{ n : 8 = 0; }}\nc_n = C_n + 1;\nwire {} : 8;\n{} = 8 / C_n;\npc = 0; Stat = STAT_AOK;\n", lead, n, n),
        1 => format!("{}register cC {{ n : 8 = 1; }}\nc_n = C_n - 1;\nwire {} : 8;\n{} = 8 / C_n;\npc = 0; Stat = STAT_AOK;", lead, n, n),
        _ => format!("{}wire {} : 64;\n{} = 1 / reg_outputA;\nreg_srcA = REG_RAX;\npc = 0; Stat = STAT_AOK;\n", lead, n, n),
    }
}

fn render_against(e: &hclrs::Error, contents: &hclrs::FileContents) -> String {
    use std::panic::{catch_unwind, AssertUnwindSafe};
    match catch_unwind(AssertUnwindSafe(|| {
        let mut buf: Vec<u8> = Vec::new();
        e.format_for_contents(&mut buf, contents).unwrap();
        buf
    })) {
        Ok(buf) => if buf.is_empty() { String::from("-") } else { hex_of(&buf) },
        Err(_) => String::from("PANIC"),
    }
}

fn hex_atom(b: &[u8]) -> String { format!("x{}", hex_of(b)) }

/// an offset of the whole text (preamble + user) of one of several kinds: anywhere, on a character boundary of the
/// user's text, at the very end, beyond the end
fn some_offset(rng: &mut Rng, prelen: usize, user: &str) -> usize {
    let total = prelen + user.len();
    match rng.below(8) {
        0 => rng.below(total as u64 + 3) as usize,
        1 => total,
        2 => prelen,
        3 => total + rng.below(3) as usize,
        _ => {
            let mut k = rng.below(user.len() as u64 + 1) as usize;
            while !user.is_char_boundary(k) { k -= 1; }
            prelen + k
        }
    }
}

fn some_span(rng: &mut Rng, prelen: usize, user: &str) -> (usize, usize) {
    let a = some_offset(rng, prelen, user);
    match rng.below(6) {
        0 => (a, some_offset(rng, prelen, user)),
        1 => (a, a),
        _ => {
            // a few characters onwards
            let total = prelen + user.len();
            let mut b = std::cmp::min(a + rng.range(1, 12) as usize, total);
            if b >= prelen && rng.chance(5, 6) { while b > a && !user.is_char_boundary(b - prelen) { b -= 1; } }
            (a, std::cmp::max(a, b))
        }
    }
}

/// an `Error` no input produces (or produces only by accident), built by hand
fn synthetic_error(rng: &mut Rng, prelen: usize, user: &str) -> hclrs::Error {
    use hclrs::Error;
    let name = |rng: &mut Rng| -> String { rng.pick(&["x", "f_pc", "\u{e9}t\u{e9}", "q_", "\u{e9}_", "\u{e9}_\u{e9}", "\u{65e5}_\u{672c}x", "a_b", "ab", "", "x y", "it's"][..]).to_string() };
    let tokens: [&str; 34] = ["\";\"", "\"=\"", "ID", "CONSTANT", "\"!=\"", "\"<\"", "\"<=\"", "\"==\"", "\">\"", "\">=\"", "\">>\"",
        "\"&\"", "\"&&\"", "\"*\"", "\"+\"", "\"-\"", "\"/\"", "\"<<\"", "\"^\"", "\"|\"", "\"||\"", "\"in\"", "\"!\"", "\"~\"", "\",\"", "\"(\"", "\")\"", "\"[\"",
        "\"]\"", "\"..\"", "\"wire\"", "\":\"", "\"{\"", "\"}\""];
    match rng.below(12) {
        0 => Error::ExtraToken(some_span(rng, prelen, user)),
        1 => Error::InvalidToken(some_offset(rng, prelen, user)),
        2 => Error::RuntimeMismatchedWidths(),
        3 => Error::UnsetUndeclaredWire(name(rng)),
        4 => Error::InternalParserErrorNear(some_span(rng, prelen, user),
                String::from(*rng.pick(&["Any", "Any { .. }", "two\nlines", "ends with newline\n", "cr\r\nlf", "", "\n", "\u{e9}\n\nx"][..]))),
        5 => Error::FmtError(std::fmt::Error),
        6 => {
            // any subset of the tokens the parser may name, in any order, now and then with a repetition
            let mut expected: Vec<String> = Vec::new();
            let p = rng.range(1, 9);
            for t in tokens.iter() { if rng.chance(p, 10) { expected.push(t.to_string()); } }
            if rng.chance(1, 4) { for t in tokens[4..24].iter() { if !expected.iter().any(|x| x == t) { expected.push(t.to_string()); } } }
            if rng.chance(1, 5) && !expected.is_empty() { let d = rng.pick(&expected[..]).clone(); expected.push(d); }
            if rng.chance(1, 12) { expected.push(String::from(*rng.pick(&["EOF", "x", "\"\u{e9}\"", "'a'"][..]))); }
            rng.shuffle(&mut expected);
            Error::UnrecognizedToken { location: some_span(rng, prelen, user), expected: expected }
        }
        7 => Error::UnterminatedComment(some_offset(rng, prelen, user)),
        8 => Error::LexicalError(some_offset(rng, prelen, user)),
        9 => {
            let pool: [&str; 7] = ["reg_dstE", "reg_inputE", "mem_addr", "mem_input", "mem_writebit", "\u{e9}", "x"];
            let nf = rng.below(5) as usize;
            let nm = rng.below(4) as usize;
            Error::PartialFixedInput { name: String::from(*rng.pick(&["register file", "data memory", ""][..])),
                found_inputs: (0..nf).map(|_| rng.pick(&pool[..]).to_string()).collect(),
                missing_inputs: (0..nm).map(|_| rng.pick(&pool[..]).to_string()).collect() }
        }
        10 => {
            let n = rng.below(5) as usize;
            Error::WireLoop((0..n).map(|_| name(rng)).collect())
        }
        _ => {
            let close = if rng.chance(1, 2) { Some(name(rng)) } else { None };
            Error::UndeclaredWireAssigned { name: name(rng), span: some_span(rng, prelen, user), close_name: close }
        }
    }
}

/// the single errors of a serialised error value, sorted; a loop report only by its kind (which loop is shown may differ)
fn canonical_errors(sexp: &str) -> Vec<String> {
    fn children(s: &str) -> Vec<String> {
        // s = "(Tag child child ...)": the top-level parenthesised children
        let mut out = Vec::new();
        let mut depth = 0i32;
        let mut start = 0usize;
        for (i, c) in s.char_indices() {
            if c == '(' { depth += 1; if depth == 2 { start = i; } }
            else if c == ')' { if depth == 2 { out.push(s[start..=i].to_string()); } depth -= 1; }
        }
        out
    }
    fn leaves(s: &str, out: &mut Vec<String>) {
        if s.starts_with("(MultipleErrors") { for c in children(s) { leaves(&c, out); } }
        else if s.starts_with("(WireLoop") { out.push(String::from("(WireLoop)")); }
        else { out.push(s.to_string()); }
    }
    let mut out = Vec::new();
    leaves(sexp, &mut out);
    out.sort();
    out
}

pub fn render(rng: &mut Rng, count: u64, emit: Emit) {
    use hclrs::{parse_y86_hcl, FileContents};
    use std::panic::{catch_unwind, AssertUnwindSafe};
    let pre = hclrs::verif_hooks::y86_preamble();
    let mut emitted = 0u64;
    let mut attempts = 0u64;
    while emitted < count && attempts < count * 40 + 1000 {
        attempts += 1;
        // the first case of every run is fixed (known finding D32): a constant whose definition fails, a constant that uses
        // it, and constants whose names are close to it - the hint of the consequential diagnostic about the first constant
        // is computed over the constants evaluated so far, in the order of the sort
        let source = if attempts == 1 { 99 } else { rng.below(24) };
        // the text of the HCL file
        let (mut text, mut how): (String, String) = match source {
            99 => (String::from("const ZED = 3;\nconst KNOB = 1 / 0;\nconst knob = ZED + 1;\nconst USES = KNOB + 1;\npc = 0;\nStat = STAT_AOK;\n"), String::from("cascade-hint")),
            0..=5 => { let (t, h) = anytext_input(rng); (t, format!("anytext-{}", h)) }
            6..=8 => { let d = diag_input(rng); (d.user, format!("diag-{}", d.kname)) }
            9 | 10 => { let (g, what, _) = faulty_program(rng, "fault"); (proggen::render_program(&g.stmts), format!("fault-{}", what)) }
            11 | 12 => { let (g, what, _) = faulty_program(rng, "loop"); (proggen::render_program(&g.stmts), format!("loop-{}", what)) }
            13 | 14 => { let (g, _, _) = faulty_program(rng, "multi");
                let t = if rng.chance(1, 3) { proggen::render_program_decorated(rng, &g.stmts) } else { proggen::render_program(&g.stmts) };
                (t, String::from("multi")) }
            15 | 16 => { let depth = rng.range(1, 5) as u32; let (p, _) = gen::expr_program(rng, depth, true); (p.text, String::from("expr-mutated")) }
            17 | 18 => {
                // a statement the grammar objects to, somewhere in a valid program or at its very end (no newline after it)
                let profile = *rng.pick(&[proggen::Profile::Dag, proggen::Profile::Banks, proggen::Profile::Memory]);
                let mut g = proggen::program(rng, profile);
                let fault = grammar_fault(rng);
                if rng.chance(1, 3) {
                    let mut t = proggen::render_program(&g.stmts);
                    t.push_str(&fault);
                    (t, String::from("grammar-fault-at-end"))
                } else {
                    let at = rng.below(g.stmts.len() as u64 + 1) as usize;
                    g.stmts.insert(at, proggen::Stmt::Raw(fault));
                    (proggen::render_program(&g.stmts), String::from("grammar-fault"))
                }
            }
            19 => (divide_program(rng), String::from("run-divide")),
            20 | 21 => {
                // the errors of the .yo loader are rendered against the HCL file, like main() does
                let t = if rng.chance(1, 2) { divide_program(rng) } else { String::from("pc = 0; Stat = STAT_HLT;") };
                (t, String::from("yo"))
            }
            _ => {
                let t = if rng.chance(1, 2) { crate::streams::random_lines(rng, 6) } else { let (t, _) = anytext_input(rng); t };
                (t, String::from("synthetic"))
            }
        };
        // the same text with other line ends, without its last line end, with names outside ASCII
        let fixed_case = how == "cascade-hint";
        if !fixed_case && rng.chance(1, 6) && !text.contains('\r') { text = text.replace("\n", "\r\n"); how.push_str("+crlf"); }
        if !fixed_case && rng.chance(1, 5) { let cut = text.trim_end().len(); text.truncate(cut); how.push_str("+no-final-newline"); }
        if !fixed_case && rng.chance(1, 5) {
            let names = renameable(&text);
            if !names.is_empty() {
                let from = rng.pick(&names[..]).clone();
                let to = match rng.below(4) { 0 => format!("\u{e9}{}", from), 1 => format!("{}\u{fc}\u{df}", from), 2 => String::from("\u{65e5}\u{672c}\u{8a9e}"), _ => format!("{}_\u{3b1}", from) };
                text = rename_word(&text, &from, &to);
                how.push_str("+non-ascii-name");
            }
        }
        let name: &str = if !fixed_case && rng.chance(1, 8) { *rng.pick(&["\u{e9}.hcl", "a b.hcl", "dir.d", ""][..]) } else { "t.hcl" };
        crate::watch::note_text("render", &text);
        let contents = FileContents::new_from_data(pre, &text, name);
        // the error value
        let error: Option<hclrs::Error> = if how.starts_with("synthetic") {
            Some(synthetic_error(rng, pre.len(), &text))
        } else if how.starts_with("yo") {
            match rng.below(8) {
                0 => match FileContents::new_from_file(std::path::Path::new("/nonexistent-dir/nonexistent.yo")) { Err(e) => Some(e), Ok(_) => None },
                1 => hclrs::verif_hooks::load_y86(b"").err(),
                _ => { let file = yo_input(rng, true); hclrs::verif_hooks::load_y86(&file).err() }
            }
        } else {
            match catch_unwind(AssertUnwindSafe(|| parse_y86_hcl(&contents))) {
                Err(_) => { emit(format!("(render (how {}) (prelen {}) (user {}) (name {}) (error (PARSE-PANIC)))", how, pre.len(), hex_atom(text.as_bytes()), hex_atom(name.as_bytes())), String::from("PANIC")); emitted += 1; None }
                Ok(Err(e)) => Some(e),
                Ok(Ok(program)) => {
                    if how.starts_with("run-divide") {
                        let mut rp = hclrs::RunningProgram::new_y86(program);
                        let mut found = None;
                        for _ in 0..3 {
                            let mut out: Vec<u8> = Vec::new();
                            match catch_unwind(AssertUnwindSafe(|| rp.step_with_output(&mut out))) {
                                Ok(Ok(())) => {}
                                Ok(Err(e)) => { found = Some(e); break; }
                                Err(_) => break,
                            }
                        }
                        found
                    } else { None }
                }
            }
        };
        let e = match error { Some(e) => e, None => continue };
        let mut result = render_against(&e, &contents);
        // C12: "a rejected program is rejected on every run, with the same kinds of diagnostics about the same names": the same
        // text is parsed and built twice more (every hash table gets fresh seeds) and the complete diagnostics - kinds, names,
        // suggested names, spans - must be the same up to their order (and up to which loop is shown)
        if !how.starts_with("synthetic") && !how.starts_with("yo") && !how.starts_with("run-divide") {
            let first = canonical_errors(&hclrs::verif_hooks::error_sexp(&e));
            for _ in 0..(if fixed_case { 14 } else { 2 }) {
                let again = match catch_unwind(AssertUnwindSafe(|| parse_y86_hcl(&contents))) {
                    Ok(Err(e2)) => canonical_errors(&hclrs::verif_hooks::error_sexp(&e2)),
                    Ok(Ok(_)) => vec![String::from("ACCEPTED")],
                    Err(_) => vec![String::from("PANIC")],
                };
                if again != first { result = String::from("UNSTABLE"); }
            }
        }
        // the strictness switches and the case of the non-ASCII characters: what the model of `Program::new` with spans
        // (`Program.newSp`) needs besides the text to recompute the diagnostics and their spans
        emit(format!("(render (how {}) (prelen {}) (user {}) (name {}) (error {}) {} {})", how, pre.len(), hex_atom(text.as_bytes()), hex_atom(name.as_bytes()),
                     hclrs::verif_hooks::error_sexp(&e), crate::progrun::flags_sexp(), crate::progrun::cls_sexp(&text)), result);
        emitted += 1;
    }
}
