"""C15 — loading a .yo listing puts exactly the listed bytes at the listed addresses."""

from props import C19
THEOREM_MODULES = ["Hcl.Theorems.C15", "Hcl.Tie.PinsYo"]
THEOREMS = {"Hcl.Theorems.C15": ["Yo.C15_line", "Yo.C15_image", "Yo.overlay_spec", "Yo.C15_invalid_utf8", "Yo.loadLine_spec", "Yo.hexLoop_spec", "Yo.C15_line_no_panic", "Yo.C15_load_no_panic", "Yo.hexLoop_no_panic", "Yo.C15_empty_refused"],
            "Hcl.Tie.PinsYo": ["Tie.PinsYo.pinLoadLine", "Tie.PinsYo.pinLoadFrom"]}

RULE = ("S-YO: yas listings (addresses 0x000-0xfff incl. near the top, 0-10 bytes per line, either hex case, any order, "
        "overlapping lines, label/comment/blank lines, LF and CRLF, with and without final newline) and a malformed stream "
        "(byte-level deletion/insertion/substitution with + - g | : x, 2- and 3-byte UTF-8 characters, invalid UTF-8, "
        "truncation at any byte, extra newlines) through the real Memory::load_from_y86 (verif-hooks wrapper, catch_unwind); "
        "compared: loaded map or error kind with the Lean model (correspondence) and with Spec.image/Spec.classify (oracle: "
        "exactly the listed bytes at the listed addresses, refusal of malformed/empty files, never a panic). "
        "non-trivial = files with at least one data line or one damaged byte; distinct = distinct files.")


def judge(req, impl, model, spec):
    cats = [impl.split(" ")[0] + ("-" + impl.split(" ")[1] if impl.startswith("err") else "")]
    ok = True
    what = ""
    if impl == "PANIC":
        ok = False
        what = "the loader panicked"
    elif spec == "unspecified":
        cats.append("invalid-utf8")
        if not impl.startswith("err"):
            ok = False
            what = "a file that is not valid UTF-8 was loaded"
    elif spec == "err":
        if not impl.startswith("err"):
            ok = False
            what = "the specification refuses this file but it was loaded: " + impl[:100]
    elif impl != spec:
        ok = False
        what = "loaded image differs from the listing: impl '%s' spec '%s'" % (impl[:120], spec[:120])
    return {"corr": impl == model, "oracle": ok, "what": what, "key": req if len(req) > 8 else None, "cats": cats}


def streams(tier, seed):
    q = tier == "quick"
    return [{"name": "yo", "stream": "yo", "count": 3000 if q else 150000, "judge": judge},
            {"name": "yo-malformed", "stream": "yo-malformed", "count": 8000 if q else 400000, "judge": judge},
            # the same through FILES and the command line (accepted, rejected, big, not UTF-8, bare-CR, empty and malformed images, -q/-d/-t with and without TIMEOUT): the real binary, as in C19
            {"name": "cli", "stream": "cli", "count": 300 if q else 8000, "pygen": C19.pygen, "judge": C19.judge}]
