import Hcl.Proofs.CompleteIff
open Rust

/-! Reordering the statements: the tables of step 1 of two statement lists that are permutations of one another.
    When no name is declared or assigned twice (which `Program::new` demands anyway) every table of step 1 is, up to the
    order of its entries, the list of the definitions found in the statements; so the two sides have the same tables as
    finite maps. -/

namespace Reorder

/-! ### association lists -/

theorem insertAll_nil {α : Type} (m : AMap α) : insertAll m [] = m := rfl

theorem insertAll_append {α : Type} (m : AMap α) (a b : List (String × α)) :
    insertAll m (a ++ b) = insertAll (insertAll m a) b := by
  unfold insertAll
  rw [List.foldl_append]

theorem insertAll_single {α : Type} (m : AMap α) (k : String) (v : α) : insertAll m [(k, v)] = m.insert k v := rfl

/-- inserting fresh, pairwise distinct keys appends them -/
theorem insertAll_eq_append {α : Type} : ∀ (pairs : List (String × α)) (m : AMap α),
    (m.keys ++ pairs.map (·.1)).Nodup → insertAll m pairs = m ++ pairs
  | [], m, _ => by simp [insertAll]
  | p :: rest, m, h => by
    have hp : m.contains p.1 = false := by
      cases hc : m.contains p.1 with
      | false => rfl
      | true =>
        exfalso
        have hk := (AMap.contains_iff_mem_keys _ _).mp hc
        have := (List.nodup_append.mp h).2.2 p.1 hk p.1 (by simp)
        exact this rfl
    have hins : m.insert p.1 p.2 = m ++ [p] := by
      unfold AMap.insert
      rw [hp]
      simp
    have hnd : ((m ++ [p]).keys ++ rest.map (·.1)).Nodup := by
      have e : (m ++ [p]).keys ++ rest.map (·.1) = m.keys ++ (p :: rest).map (·.1) := by
        simp [AMap.keys]
      rw [e]; exact h
    show insertAll (m.insert p.1 p.2) rest = _
    rw [hins, insertAll_eq_append rest _ hnd]
    simp

/-- distinct keys: an entry is determined by its key -/
theorem key_inj {α : Type} : ∀ (m : AMap α), m.keys.Nodup → ∀ p ∈ m, ∀ q ∈ m, p.1 = q.1 → p = q
  | [], _, p, hp, _, _, _ => by cases hp
  | x :: rest, h, p, hp, q, hq, e => by
    have h' : (x.1 :: rest.map (·.1)).Nodup := h
    rw [List.nodup_cons] at h'
    rcases List.mem_cons.mp hp with rfl | hp'
    · rcases List.mem_cons.mp hq with rfl | hq'
      · rfl
      · exact absurd (List.mem_map.mpr ⟨q, hq', e.symm⟩) h'.1
    · rcases List.mem_cons.mp hq with rfl | hq'
      · exact absurd (List.mem_map.mpr ⟨p, hp', e⟩) h'.1
      · exact key_inj rest h'.2 p hp' q hq' e

/-- two listings of one finite map -/
theorem perm_get? {α : Type} (m m' : AMap α) (hp : m.Perm m') (hn : m.keys.Nodup) (n : String) : m.get? n = m'.get? n := by
  have hn' : m'.keys.Nodup := (List.Perm.nodup_iff (hp.map (fun p : String × α => p.1))).mp hn
  cases h : m.get? n with
  | some v =>
    exact (AMap.get?_of_mem_nodup m' n v hn' (hp.mem_iff.mp (AMap.mem_of_get? m n v h))).symm
  | none =>
    cases h' : m'.get? n with
    | none => rfl
    | some v =>
      have := AMap.get?_of_mem_nodup m n v hn (hp.mem_iff.mpr (AMap.mem_of_get? m' n v h'))
      rw [h] at this; cases this

theorem perm_contains {α : Type} (m m' : AMap α) (hp : m.Perm m') (n : String) : m.contains n = m'.contains n := by
  have : m.contains n = true ↔ m'.contains n = true := by
    rw [AMap.contains_iff_mem_keys, AMap.contains_iff_mem_keys]
    exact (hp.map (fun p : String × α => p.1)).mem_iff
  cases h : m.contains n with
  | true => exact (this.mp h).symm
  | false =>
    cases h' : m'.contains n with
    | false => rfl
    | true => rw [this.mpr h'] at h; cases h

/-- `contains` is read off `get?` -/
theorem contains_of_get?_eq {α : Type} (m m' : AMap α) (n : String) (h : m.get? n = m'.get? n) : m.contains n = m'.contains n := by
  rw [← AMap.get?_isSome_iff_contains, ← AMap.get?_isSome_iff_contains, h]

theorem list_contains_congr (l l' : List String) (h : ∀ n, n ∈ l ↔ n ∈ l') (n : String) : l.contains n = l'.contains n := by
  cases hc : l.contains n with
  | true =>
    have : n ∈ l' := (h n).mp (by simpa using hc)
    exact (by simpa using this : l'.contains n = true).symm
  | false =>
    cases hc' : l'.contains n with
    | false => rfl
    | true =>
      have : n ∈ l := (h n).mpr (by simpa using hc')
      have : l.contains n = true := by simpa using this
      rw [this] at hc; cases hc

/-! ### the definitions found in the statements -/

def stmtAssigns : Stmt → List (String × Ex)
  | .assigns as => as.flatMap fun a => a.names.map fun n => (n, a.value)
  | _ => []

def stmtConsts : Stmt → List (String × Ex)
  | .consts ds => ds.map fun d => (d.name, d.value)
  | _ => []

def stmtWires : Stmt → List (String × Width)
  | .wires ds => ds.map fun d => (d.name, d.width)
  | _ => []

/-- all `(target, expression)` pairs of the assignment statements, in order -/
def assignDefs (stmts : List Stmt) : List (String × Ex) := stmts.flatMap stmtAssigns
/-- all `(name, expression)` pairs of the `const` statements, in order -/
def constDefs (stmts : List Stmt) : List (String × Ex) := stmts.flatMap stmtConsts
/-- all `(name, width)` pairs of the `wire` statements, in order -/
def wireDefs (stmts : List Stmt) : List (String × Width) := stmts.flatMap stmtWires

theorem stmtAssigns_keys (st : Stmt) : (stmtAssigns st).map (·.1) = tgtKeys st := by
  cases st with
  | assigns as =>
    simp only [stmtAssigns, tgtKeys, List.map_flatMap, List.map_map]
    congr 1
    funext a
    simp [Function.comp_def]
  | consts ds => rfl
  | wires ds => rfl
  | bank b => rfl

theorem stmtConsts_keys (st : Stmt) : (stmtConsts st).map (·.1) = constKeys st := by
  cases st with
  | consts ds => simp [stmtConsts, constKeys, Function.comp_def]
  | assigns as => rfl
  | wires ds => rfl
  | bank b => rfl

theorem stmtWires_keys (st : Stmt) : (stmtWires st).map (·.1) = wireKeys st := by
  cases st with
  | wires ds => simp [stmtWires, wireKeys, Function.comp_def]
  | assigns as => rfl
  | consts ds => rfl
  | bank b => rfl

theorem flatMap_map_keys {γ : Type} (f : Stmt → List (String × γ)) (g : Stmt → List String)
    (h : ∀ st, (f st).map (·.1) = g st) : ∀ (stmts : List Stmt), (stmts.flatMap f).map (·.1) = stmts.flatMap g
  | [] => rfl
  | st :: rest => by
    rw [List.flatMap_cons, List.flatMap_cons, List.map_append, h, flatMap_map_keys f g h rest]

theorem assignDefs_keys (stmts : List Stmt) : (assignDefs stmts).map (·.1) = allTargets stmts := by
  rw [allTargets_eq]; exact flatMap_map_keys _ _ stmtAssigns_keys stmts

theorem constDefs_keys (stmts : List Stmt) : (constDefs stmts).map (·.1) = stmts.flatMap constKeys :=
  flatMap_map_keys _ _ stmtConsts_keys stmts

theorem wireDefs_keys (stmts : List Stmt) : (wireDefs stmts).map (·.1) = stmts.flatMap wireKeys :=
  flatMap_map_keys _ _ stmtWires_keys stmts

/-- the names declared as constants, and those declared as wires, are among the declared names, in order -/
theorem constKeys_sublist : ∀ (stmts : List Stmt), (stmts.flatMap constKeys).Sublist (stmts.flatMap declKeys)
  | [] => List.Sublist.refl _
  | st :: rest => by
    rw [List.flatMap_cons, List.flatMap_cons]
    apply List.Sublist.append _ (constKeys_sublist rest)
    cases st with
    | consts ds => exact List.Sublist.refl _
    | wires ds => exact List.nil_sublist _
    | assigns as => exact List.Sublist.refl _
    | bank b => exact List.Sublist.refl _

theorem wireKeys_sublist : ∀ (stmts : List Stmt), (stmts.flatMap wireKeys).Sublist (stmts.flatMap declKeys)
  | [] => List.Sublist.refl _
  | st :: rest => by
    rw [List.flatMap_cons, List.flatMap_cons]
    apply List.Sublist.append _ (wireKeys_sublist rest)
    cases st with
    | consts ds => exact List.nil_sublist _
    | wires ds => exact List.Sublist.refl _
    | assigns as => exact List.Sublist.refl _
    | bank b => exact List.Sublist.refl _

/-! ### the tables of step 1 are these definitions, inserted in order -/

section
variable (FN FO : List String)

/-- a table that every step extends by inserting the definitions of its argument -/
theorem fold_insertAll {β γ : Type} (proj : Step1 → AMap γ) (f : Step1 → β → Step1) (g : β → List (String × γ))
    (hf : ∀ s x, proj (f s x) = insertAll (proj s) (g x)) :
    ∀ (l : List β) (s : Step1), proj (l.foldl f s) = insertAll (proj s) (l.flatMap g)
  | [], _ => rfl
  | x :: rest, s => by
    rw [List.foldl_cons, fold_insertAll proj f g hf rest, hf, List.flatMap_cons, insertAll_append]

theorem step1Stmt_assignments_eq (s : Step1) (st : Stmt) :
    (step1Stmt FN FO s st).assignments = insertAll s.assignments (stmtAssigns st) := by
  cases st with
  | consts ds => exact fold_proj_eq (·.assignments) (step1Const FN) (fun _ _ => rfl) ds s
  | wires ds => exact fold_proj_eq (·.assignments) (step1Wire FN) (fun _ _ => rfl) ds s
  | bank b => rfl
  | assigns as =>
    refine fold_insertAll (·.assignments) (step1Assign FO) (fun a => a.names.map fun n => (n, a.value)) ?_ as s
    intro s a
    have := fold_insertAll (·.assignments) (step1Name FO a.value) (fun n => [(n, a.value)]) (fun _ _ => rfl) a.names s
    rw [flatMap_single_fun] at this
    exact this

theorem step1Stmt_constantsRaw_eq (s : Step1) (st : Stmt) :
    (step1Stmt FN FO s st).constantsRaw = insertAll s.constantsRaw (stmtConsts st) := by
  cases st with
  | consts ds =>
    have := fold_insertAll (·.constantsRaw) (step1Const FN) (fun d => [(d.name, d.value)]) (fun _ _ => rfl) ds s
    rw [flatMap_single_fun] at this
    exact this
  | wires ds => exact fold_proj_eq (·.constantsRaw) (step1Wire FN) (fun _ _ => rfl) ds s
  | bank b => rfl
  | assigns as =>
    exact fold_proj_eq (·.constantsRaw) (step1Assign FO)
      (fun s a => fold_proj_eq (·.constantsRaw) (step1Name FO a.value) (fun _ _ => rfl) a.names s) as s

theorem step1Stmt_wires_eq (s : Step1) (st : Stmt) :
    (step1Stmt FN FO s st).wires = insertAll s.wires (stmtWires st) := by
  cases st with
  | wires ds =>
    have := fold_insertAll (·.wires) (step1Wire FN) (fun d => [(d.name, d.width)]) (fun _ _ => rfl) ds s
    rw [flatMap_single_fun] at this
    exact this
  | consts ds => exact fold_proj_eq (·.wires) (step1Const FN) (fun _ _ => rfl) ds s
  | bank b => rfl
  | assigns as =>
    exact fold_proj_eq (·.wires) (step1Assign FO)
      (fun s a => fold_proj_eq (·.wires) (step1Name FO a.value) (fun _ _ => rfl) a.names s) as s

theorem step1_fold_assignments_eq (stmts : List Stmt) (s : Step1) :
    (stmts.foldl (step1Stmt FN FO) s).assignments = insertAll s.assignments (assignDefs stmts) :=
  fold_insertAll (·.assignments) (step1Stmt FN FO) stmtAssigns (step1Stmt_assignments_eq FN FO) stmts s

theorem step1_fold_constantsRaw_eq (stmts : List Stmt) (s : Step1) :
    (stmts.foldl (step1Stmt FN FO) s).constantsRaw = insertAll s.constantsRaw (constDefs stmts) :=
  fold_insertAll (·.constantsRaw) (step1Stmt FN FO) stmtConsts (step1Stmt_constantsRaw_eq FN FO) stmts s

theorem step1_fold_wires_eq (stmts : List Stmt) (s : Step1) :
    (stmts.foldl (step1Stmt FN FO) s).wires = insertAll s.wires (wireDefs stmts) :=
  fold_insertAll (·.wires) (step1Stmt FN FO) stmtWires (step1Stmt_wires_eq FN FO) stmts s
end

/-! ### the Y86 instance, for statements that declare and assign no name twice -/

/-- **the assignment table is the list of the assignments**, when no name is assigned twice -/
theorem step1Of_assignments_eq (stmts : List Stmt) (ht : (allTargets stmts).Nodup) :
    (step1Of stmts).assignments = assignDefs stmts := by
  unfold step1Of
  rw [step1_fold_assignments_eq, (step1Init_empty y86FixedFunctions).2.2.2.2, insertAll_eq_append]
  · rfl
  · rw [assignDefs_keys]; simpa [AMap.keys] using ht

/-- **the table of the constants' definitions is the list of the definitions**, when no name is declared twice -/
theorem step1Of_constantsRaw_eq (stmts : List Stmt) (hd : (allDeclared stmts).Nodup) :
    (step1Of stmts).constantsRaw = constDefs stmts := by
  unfold step1Of
  rw [step1_fold_constantsRaw_eq, (step1Init_empty y86FixedFunctions).2.2.2.1, insertAll_eq_append]
  · rfl
  · rw [constDefs_keys]
    rw [allDeclared_eq] at hd
    simpa [AMap.keys] using (constKeys_sublist stmts).nodup hd

/-- **the width table of step 1 is the built-in table followed by the declared wires**, when no name is declared twice
    or is a built-in name -/
theorem step1Of_wires_eq (stmts : List Stmt) (hd : (allDeclared stmts).Nodup)
    (hb : ∀ n ∈ allDeclared stmts, n ∉ fixedNamesOf y86FixedFunctions) :
    (step1Of stmts).wires = y86W0 ++ wireDefs stmts := by
  unfold step1Of
  rw [step1_fold_wires_eq, insertAll_eq_append]
  · rfl
  · rw [wireDefs_keys, y86_wires_keys, List.nodup_append]
    rw [allDeclared_eq] at hd hb
    refine ⟨nodup_dedupS _, (wireKeys_sublist stmts).nodup hd, ?_⟩
    intro a ha b hb' e
    subst e
    exact hb a ((wireKeys_sublist stmts).subset hb') ha

/-! ### two statement lists that are permutations of one another -/

theorem allDeclared_perm {stmts stmts' : List Stmt} (hp : stmts.Perm stmts') : (allDeclared stmts).Perm (allDeclared stmts') := by
  rw [allDeclared_eq, allDeclared_eq]; exact hp.flatMap_right _

theorem allTargets_perm {stmts stmts' : List Stmt} (hp : stmts.Perm stmts') : (allTargets stmts).Perm (allTargets stmts') := by
  rw [allTargets_eq, allTargets_eq]; exact hp.flatMap_right _

theorem stmtsWF_perm {stmts stmts' : List Stmt} (hp : stmts.Perm stmts') (h : StmtsWF stmts) : StmtsWF stmts' :=
  fun s hs => h s (hp.mem_iff.mpr hs)

/-- the tables of step 1 of two statement lists describe the same finite maps and sets -/
structure S1Sim (s1 s1' : Step1) : Prop where
  assignments : s1.assignments.Perm s1'.assignments
  constantsRaw : s1.constantsRaw.Perm s1'.constantsRaw
  wires : s1.wires.Perm s1'.wires
  banksRaw : s1.banksRaw.Perm s1'.banksRaw
  declared : ∀ n, n ∈ s1.declared ↔ n ∈ s1'.declared
  assigned : ∀ n, n ∈ s1.assigned ↔ n ∈ s1'.assigned
  needed : ∀ n, n ∈ s1.needed ↔ n ∈ s1'.needed
  aKeys : s1.assignments.keys.Nodup
  cKeys : s1.constantsRaw.keys.Nodup
  wKeys : s1.wires.keys.Nodup

theorem step1Of_keys_nodup (stmts : List Stmt) (hd : (allDeclared stmts).Nodup)
    (hb : ∀ n ∈ allDeclared stmts, n ∉ fixedNamesOf y86FixedFunctions) (ht : (allTargets stmts).Nodup) :
    (step1Of stmts).assignments.keys.Nodup ∧ (step1Of stmts).constantsRaw.keys.Nodup ∧ (step1Of stmts).wires.keys.Nodup := by
  refine ⟨?_, ?_, ?_⟩
  · rw [step1Of_assignments_eq stmts ht]
    show ((assignDefs stmts).map (·.1)).Nodup
    rw [assignDefs_keys]; exact ht
  · rw [step1Of_constantsRaw_eq stmts hd]
    show ((constDefs stmts).map (·.1)).Nodup
    rw [constDefs_keys]
    rw [allDeclared_eq] at hd
    exact (constKeys_sublist stmts).nodup hd
  · rw [step1Of_wires_eq stmts hd hb]
    show ((y86W0 ++ wireDefs stmts).map (·.1)).Nodup
    rw [List.map_append, wireDefs_keys]
    have e : y86W0.map (·.1) = fixedNamesOf y86FixedFunctions := y86_wires_keys
    rw [e, List.nodup_append]
    rw [allDeclared_eq] at hd hb
    refine ⟨nodup_dedupS _, (wireKeys_sublist stmts).nodup hd, ?_⟩
    intro a ha b hb' e
    subst e
    exact hb a ((wireKeys_sublist stmts).subset hb') ha

/-- **Reordering the statements leaves the tables of step 1 unchanged as finite maps** (for statements that declare
    and assign no name twice and declare no built-in name) -/
theorem step1Of_perm (stmts stmts' : List Stmt) (hp : stmts.Perm stmts') (hd : (allDeclared stmts).Nodup)
    (hb : ∀ n ∈ allDeclared stmts, n ∉ fixedNamesOf y86FixedFunctions) (ht : (allTargets stmts).Nodup) :
    S1Sim (step1Of stmts) (step1Of stmts') := by
  have hd' : (allDeclared stmts').Nodup := (allDeclared_perm hp).nodup_iff.mp hd
  have ht' : (allTargets stmts').Nodup := (allTargets_perm hp).nodup_iff.mp ht
  have hb' : ∀ n ∈ allDeclared stmts', n ∉ fixedNamesOf y86FixedFunctions :=
    fun n hn => hb n ((allDeclared_perm hp).mem_iff.mpr hn)
  obtain ⟨k1, k2, k3⟩ := step1Of_keys_nodup stmts hd hb ht
  refine { assignments := ?_, constantsRaw := ?_, wires := ?_, banksRaw := ?_, declared := ?_, assigned := ?_, needed := ?_,
           aKeys := k1, cKeys := k2, wKeys := k3 }
  · rw [step1Of_assignments_eq stmts ht, step1Of_assignments_eq stmts' ht']
    exact hp.flatMap_right _
  · rw [step1Of_constantsRaw_eq stmts hd, step1Of_constantsRaw_eq stmts' hd']
    exact hp.flatMap_right _
  · rw [step1Of_wires_eq stmts hd hb, step1Of_wires_eq stmts' hd' hb']
    exact List.Perm.append_left _ (hp.flatMap_right _)
  · rw [step1Of_banksRaw, step1Of_banksRaw]
    exact hp.filterMap _
  · intro n
    rw [step1Of_declared_iff, step1Of_declared_iff]
    exact (allDeclared_perm hp).mem_iff
  · intro n
    rw [step1Of_assigned_iff, step1Of_assigned_iff]
    exact (allTargets_perm hp).mem_iff
  · intro n
    unfold step1Of
    rw [step1_fold_needed, step1_fold_needed]
    unfold DeclaredWire
    constructor
    · rintro (h | ⟨ds, hm, hx⟩)
      · exact Or.inl h
      · exact Or.inr ⟨ds, hp.mem_iff.mp hm, hx⟩
    · rintro (h | ⟨ds, hm, hx⟩)
      · exact Or.inl h
      · exact Or.inr ⟨ds, hp.mem_iff.mpr hm, hx⟩

namespace S1Sim
variable {s1 s1' : Step1} (h : S1Sim s1 s1')
include h

theorem aGet (n : String) : s1.assignments.get? n = s1'.assignments.get? n := perm_get? _ _ h.assignments h.aKeys n
theorem cGet (n : String) : s1.constantsRaw.get? n = s1'.constantsRaw.get? n := perm_get? _ _ h.constantsRaw h.cKeys n
theorem wGet (n : String) : s1.wires.get? n = s1'.wires.get? n := perm_get? _ _ h.wires h.wKeys n
theorem aContains (n : String) : s1.assignments.contains n = s1'.assignments.contains n := perm_contains _ _ h.assignments n
theorem cContains (n : String) : s1.constantsRaw.contains n = s1'.constantsRaw.contains n := perm_contains _ _ h.constantsRaw n
theorem wContains (n : String) : s1.wires.contains n = s1'.wires.contains n := perm_contains _ _ h.wires n
theorem aKeys' : s1'.assignments.keys.Nodup := (List.Perm.nodup_iff (h.assignments.map (fun p : String × Ex => p.1))).mp h.aKeys
theorem cKeys' : s1'.constantsRaw.keys.Nodup := (List.Perm.nodup_iff (h.constantsRaw.map (fun p : String × Ex => p.1))).mp h.cKeys
theorem cKeysMem (n : String) : n ∈ s1.constantsRaw.keys ↔ n ∈ s1'.constantsRaw.keys := (h.constantsRaw.map (fun p : String × Ex => p.1)).mem_iff
end S1Sim

end Reorder

#print axioms Reorder.step1Of_perm
