import Hcl.Proofs.Rename
import Hcl.Proofs.RenameGraph
open Rust

/-! Renaming the nodes of the dependency graphs: `GBuild` operations, the transported iteration orders, and the
    sorter (`GBuild.sort`), as exact equalities. -/

def GBuild.rename (π : String → String) (g : GBuild) : GBuild :=
  { nodes := g.nodes.map π, edges := g.edges.map fun e => (π e.1, π e.2) }

theorem GBuild.rename_empty (π : String → String) : GBuild.rename π {} = {} := rfl

theorem GBuild.rename_addNode {π : String → String} (hi : Inj π) (g : GBuild) (n : Node) :
    (g.addNode n).rename π = (g.rename π).addNode (π n) := by
  simp only [GBuild.rename, GBuild.addNode, setInsert_map hi]

theorem GBuild.rename_insert {π : String → String} (hi : Inj π) (g : GBuild) (a b : Node) :
    (g.insert a b).rename π = (g.rename π).insert (π a) (π b) := by
  simp only [GBuild.rename, GBuild.insert, setInsert_map hi, List.map_append, List.map_cons, List.map_nil]

theorem GBuild.rename_containsNode {π : String → String} (hi : Inj π) (g : GBuild) (n : Node) :
    (g.rename π).containsNode (π n) = g.containsNode n := by
  simp only [GBuild.rename, GBuild.containsNode, contains_map_inj hi]

theorem beq_map_inj {π : String → String} (hi : Inj π) (a b : String) : (π a == π b) = (a == b) := by
  by_cases h : a = b
  · subst h; simp
  · have h1 : (a == b) = false := by simpa using h
    have h2 : (π a == π b) = false := by simpa using fun e => h (hi _ _ e)
    rw [h1, h2]

theorem GBuild.rename_succOf {π : String → String} (hi : Inj π) (g : GBuild) (u : Node) :
    (g.rename π).succOf (π u) = (g.succOf u).map π := by
  simp only [GBuild.rename, GBuild.succOf, List.filter_map, List.map_map, Function.comp_def, beq_map_inj hi]
  rw [← dedupS_map hi, List.map_map]
  rfl

theorem GBuild.rename_predOf {π : String → String} (hi : Inj π) (g : GBuild) (u : Node) :
    (g.rename π).predOf (π u) = (g.predOf u).map π := by
  simp only [GBuild.rename, GBuild.predOf, List.filter_map, List.map_map, Function.comp_def, beq_map_inj hi]
  rw [← dedupS_map hi, List.map_map]
  rfl

/-- the iteration orders seen through the renaming -/
def Orders.tr (π π' : String → String) (o : Orders) : Orders :=
  { nodes := fun l => (o.nodes (l.map π')).map π,
    succ := fun u l => (o.succ (π' u) (l.map π')).map π,
    dnodes := fun l => (o.dnodes (l.map π')).map π,
    dsucc := fun u l => (o.dsucc (π' u) (l.map π')).map π }

theorem map_map_id {π π' : String → String} (hr : ∀ n, π (π' n) = n) (l : List String) : (l.map π').map π = l := by
  rw [List.map_map]
  have : (π ∘ π') = id := funext hr
  rw [this, List.map_id]

theorem OrdersOK_tr {π π' : String → String} (hr : ∀ n, π (π' n) = n) (o : Orders) (ho : OrdersOK o) :
    OrdersOK (o.tr π π') where
  nodes l := by
    have := (ho.nodes (l.map π')).map π
    rw [map_map_id hr] at this; exact this
  succ u l := by
    have := (ho.succ (π' u) (l.map π')).map π
    rw [map_map_id hr] at this; exact this
  dnodes l := by
    have := (ho.dnodes (l.map π')).map π
    rw [map_map_id hr] at this; exact this
  dsucc u l := by
    have := (ho.dsucc (π' u) (l.map π')).map π
    rw [map_map_id hr] at this; exact this

theorem GBuild.kgraph_rename {π π' : String → String} (hl : ∀ n, π' (π n) = n) (hr : ∀ n, π (π' n) = n) (g : GBuild)
    (o : Orders) : (g.rename π).kgraph (o.tr π π') = (g.kgraph o).rename π π' := by
  have hi := inj_of_left hl
  have hs : ∀ u, (g.rename π).succOf u = (g.succOf (π' u)).map π := by
    intro u
    have := GBuild.rename_succOf hi g (π' u)
    rwa [hr] at this
  have hp : ∀ u, (g.rename π).predOf u = (g.predOf (π' u)).map π := by
    intro u
    have := GBuild.rename_predOf hi g (π' u)
    rwa [hr] at this
  simp only [GBuild.kgraph, KGraph.rename, Orders.tr]
  congr 1
  · show (o.nodes ((g.nodes.map π).map π')).map π = _
    rw [map_map_id hl]
  · funext u
    rw [hs, map_map_id hl]
  · funext u; exact hp u
  · simp [GBuild.rename]

theorem GBuild.dgraph_rename {π π' : String → String} (hl : ∀ n, π' (π n) = n) (hr : ∀ n, π (π' n) = n) (g : GBuild)
    (o : Orders) : (g.rename π).dgraph (o.tr π π') = (g.dgraph o).rename π π' := by
  have hi := inj_of_left hl
  have hs : ∀ u, (g.rename π).succOf u = (g.succOf (π' u)).map π := by
    intro u
    have := GBuild.rename_succOf hi g (π' u)
    rwa [hr] at this
  simp only [GBuild.dgraph, Graph.rename, Orders.tr]
  congr 1
  · show (o.dnodes ((g.nodes.map π).map π')).map π = _
    rw [map_map_id hl]
  · funext u
    rw [hs, map_map_id hl]

theorem GBuild.sort_rename {π π' : String → String} (hl : ∀ n, π' (π n) = n) (hr : ∀ n, π (π' n) = n) (g : GBuild)
    (o : Orders) : (g.rename π).sort (o.tr π π') = (g.sort o).rename π := by
  unfold GBuild.sort
  rw [GBuild.kgraph_rename hl hr, GBuild.dgraph_rename hl hr, topologicalSort_rename π π' hl hr]

/-! ### the two dependency graphs -/

theorem foldl_insert_rename {π : String → String} (hi : Inj π) (tgt : String) (l : List String) (g : GBuild) :
    (l.map π).foldl (fun g inName => g.insert inName (π tgt)) (g.rename π) =
      (l.foldl (fun g inName => g.insert inName tgt) g).rename π := by
  induction l generalizing g with
  | nil => rfl
  | cons a l ih => simp only [List.map_cons, List.foldl_cons, ← GBuild.rename_insert hi, ih]

theorem constGraph_rename_aux {π : String → String} (hi : Inj π) (exprs : AMap Ex) (g : GBuild) :
    (exprs.rn π (Ex.rename π)).foldl (fun g (p : String × Ex) =>
      ((dedupS (refs p.2)).foldl (fun g inName => g.insert inName p.1) g).addNode p.1) (g.rename π) =
    (exprs.foldl (fun g (p : String × Ex) =>
      ((dedupS (refs p.2)).foldl (fun g inName => g.insert inName p.1) g).addNode p.1) g).rename π := by
  induction exprs generalizing g with
  | nil => rfl
  | cons p rest ih =>
    simp only [AMap.rn, List.map_cons, List.foldl_cons] at ih ⊢
    rw [refs_rename, dedupS_map hi, foldl_insert_rename hi, ← GBuild.rename_addNode hi, ih]

theorem constGraph_rename {π : String → String} (hi : Inj π) (exprs : AMap Ex) :
    constGraph (exprs.rn π (Ex.rename π)) = (constGraph exprs).rename π := by
  unfold constGraph
  exact constGraph_rename_aux hi exprs {}

theorem foldl_insertKnown_rename {π : String → String} (hi : Inj π) (known : List String) (tgt : String) (l : List String)
    (g : GBuild) :
    (l.map π).foldl (fun g inName => if (known.map π).contains inName then g else g.insert inName (π tgt)) (g.rename π) =
      (l.foldl (fun g inName => if known.contains inName then g else g.insert inName tgt) g).rename π := by
  induction l generalizing g with
  | nil => rfl
  | cons a l ih =>
    simp only [List.map_cons, List.foldl_cons, contains_map_inj hi]
    split
    · exact ih g
    · rw [← GBuild.rename_insert hi, ih]

theorem assignGraph_rename_aux {π : String → String} (hi : Inj π) (known : List String) (assignments : AMap Ex) (g : GBuild) :
    (assignments.rn π (Ex.rename π)).foldl (fun g (p : String × Ex) =>
      (dedupS (refs p.2)).foldl (fun g inName => if (known.map π).contains inName then g else g.insert inName p.1)
        (g.addNode p.1)) (g.rename π) =
    (assignments.foldl (fun g (p : String × Ex) =>
      (dedupS (refs p.2)).foldl (fun g inName => if known.contains inName then g else g.insert inName p.1)
        (g.addNode p.1)) g).rename π := by
  induction assignments generalizing g with
  | nil => rfl
  | cons p rest ih =>
    simp only [AMap.rn, List.map_cons, List.foldl_cons] at ih ⊢
    rw [refs_rename, dedupS_map hi, ← GBuild.rename_addNode hi, foldl_insertKnown_rename hi, ih]

theorem assignGraph_rename {π : String → String} (hi : Inj π) (assignments : AMap Ex) (known : List String) :
    assignGraph (assignments.rn π (Ex.rename π)) (known.map π) = (assignGraph assignments known).rename π := by
  unfold assignGraph
  exact assignGraph_rename_aux hi known assignments {}
