import Hcl.Proofs.LoopReported
import Hcl.Theorems.C10
open Rust

/-!
# C10 — a dependency loop is reported as a loop

`C10_reported_loop_real` (Hcl/Theorems/C10.lean): a loop report is the only diagnostic and names a real cycle.
`C10_accepted_acyclic`: no accepted program has a cycle.  Here the remaining direction: when a dependency loop is the
only thing wrong, the rejection *is* a loop report (and, by the above, of a real cycle and nothing else).
-/

/-- a loop among the constants of a program whose names are in order is reported, as the only diagnostic -/
theorem C10_constant_loop_reported (fl : Flags) (cls : CharClass) (o : Orders) (stmts : List Stmt) (ho : OrdersOK o)
    (hwf : StmtsWF stmts)
    (hgate : (allDeclared stmts).Nodup ∧ (∀ n ∈ allDeclared stmts, n ∉ fixedNamesOf y86FixedFunctions) ∧
       (allTargets stmts).Nodup ∧ (∀ n ∈ allTargets stmts, n ∉ y86FixedFunctions.filterMap fun f => f.outWire.map (·.1)) ∧
       (∀ n ∈ allTargets stmts, (step1Of stmts).constantsRaw.contains n = false) ∧
       (∀ p ∈ (step1Of stmts).constantsRaw, ∀ r ∈ refs p.2, (step1Of stmts).constantsRaw.contains r = true))
    (hcyc : ∃ cy, RelCycle (ConstDep (step1Of stmts).constantsRaw) cy) :
    ∃ c, Program.new fl cls o y86FixedFunctions stmts = .error [⟨.WireLoop, c⟩] ∧ RelCycle (DependsOn stmts) c :=
  Program_new_loop_reported fl cls o stmts ho hwf hgate hcyc

/-- the constants stage alone: a cycle among the definitions is reported, and what is reported is a cycle -/
theorem C10_constants_cycle_iff (fl : Flags) (o : Orders) (exprs : AMap Ex) (ho : OrdersOK o)
    (hk : exprs.keys.Nodup) (hwf : ∀ p ∈ exprs, wfEx p.2 = true)
    (hrefs : ∀ p ∈ exprs, ∀ r ∈ refs p.2, exprs.contains r = true) :
    (∃ cy, RelCycle (ConstDep exprs) cy) ↔ ∃ c, resolveConstants fl o exprs = .error [⟨.WireLoop, c⟩] := by
  constructor
  · intro h
    obtain ⟨c, hc, _⟩ := resolveConstants_cycle_reported fl o exprs ho hk hrefs h
    exact ⟨c, hc⟩
  · rintro ⟨c, hc⟩
    rcases (resolveConstants_nl fl o exprs ho hk hwf hrefs).1 _ hc with h | ⟨c', _, h⟩
    · exact absurd rfl (h ⟨.WireLoop, c⟩ List.mem_cons_self)
    · exact ⟨c', h⟩

/-- a loop among the wires (assignments and combinational built-in paths) of a program in which nothing else is wrong is
    reported, as the only diagnostic -/
theorem C10_wire_loop_reported (fl : Flags) (cls : CharClass) (o : Orders) (stmts : List Stmt) (ho : OrdersOK o)
    (hwf : StmtsWF stmts) (constants : AMap WireValue)
    (hgate : (allDeclared stmts).Nodup ∧ (∀ n ∈ allDeclared stmts, n ∉ fixedNamesOf y86FixedFunctions) ∧
       (allTargets stmts).Nodup ∧ (∀ n ∈ allTargets stmts, n ∉ y86FixedFunctions.filterMap fun f => f.outWire.map (·.1)) ∧
       (∀ n ∈ allTargets stmts, (step1Of stmts).constantsRaw.contains n = false) ∧
       (∀ p ∈ (step1Of stmts).constantsRaw, ∀ r ∈ refs p.2, (step1Of stmts).constantsRaw.contains r = true))
    (hconsts : resolveConstants fl o (step1Of stmts).constantsRaw = .ok constants)
    (hbanks : (∀ b ∈ (step1Of stmts).banksRaw, BankDeclOK fl cls (step1Of stmts) constants b) ∧
       (allRegNames (step1Of stmts).banksRaw).Nodup)
    (hneeded : ∀ n ∈ neededOf (step1Of stmts) (step3Of fl cls (step1Of stmts) constants), n ∈ allTargets stmts)
    (hmand : ∀ f ∈ y86FixedFunctions, f.mandatory = true → Active (step1Of stmts).assignments f)
    (hunused : ∀ f ∈ y86FixedFunctions, ¬ Active (step1Of stmts).assignments f → ∀ n w, f.outWire = some (n, w) →
      ∀ p ∈ (step1Of stmts).assignments, n ∉ refs p.2)
    (hpartial : ∀ f ∈ y86FixedFunctions, ¬ Active (step1Of stmts).assignments f →
      (∃ i ∈ f.inWires.map (·.1), (step1Of stmts).assignments.contains i = true) →
        ∃ en expr v, f.disabledIfFalse = some en ∧ (step1Of stmts).assignments.get? en = some expr ∧
          (∃ ew, check fl (finalWires (step1Of stmts) constants (step3Of fl cls (step1Of stmts) constants)).toCtx constants.toEnv expr = .ok ew) ∧
          ev fl constants.toEnv (fixMux fl (finalWires (step1Of stmts) constants (step3Of fl cls (step1Of stmts) constants)).toCtx
            constants.toEnv expr) = .ok v ∧ v.bits = 0)
    (hcyc : ∃ cy, RelCycle (ActDep (step1Of stmts).assignments y86FixedFunctions) cy) :
    ∃ c, Program.new fl cls o y86FixedFunctions stmts = .error [⟨.WireLoop, c⟩] ∧ RelCycle (DependsOn stmts) c :=
  Program_new_wire_loop_reported fl cls o stmts ho hwf constants hgate hconsts hbanks hneeded hmand hunused hpartial hcyc

#print axioms C10_constant_loop_reported
