import Hcl.Proofs.FaultNamedSoundAll
import Hcl.Theorems.C09Named
open Rust FaultNamed

/-!
# C09 — every diagnostic of a rejection is justified (converse of `C09_named_*` for the later stages)

`C09Named.lean` proves "fault ⇒ its diagnostic is among those returned", and the converse for stage 1
(`C09_named_stage1_sound`).  Here the converse for the later stages: **no diagnostic is returned about a name without
the fault being there**.

* `C09_named_stage34_sound` (steps 3/4, under `Stage12`: stage 1 silent and the constants resolve; any component table):
  when steps 3/4 reject, every returned diagnostic is one of the kinds listed, with its justification on the statement
  list.  The steps themselves add no `InternalPanic` (given register widths in range) and no `UnsetBuiltinWire`: apart
  from what the checker/evaluator reports for a register default, the kinds are exactly those listed.
* `C09_named_stage5_sound` (`assignments_to_actions`, under `Stages14`: stages 1–4 silent; Y86 table): the three exits —
  diagnostics of the built-in components, one loop report naming a real cycle, diagnostics of the loop over the sorted
  names.  `UnsetWire` and `InternalPanic` cannot come out of this stage.
* `C09_every_diagnostic_names_a_fault` (any stage, `StmtsWF`): a diagnostic that is neither a loop report nor a diagnostic
  of the width checker/evaluator for an expression of the program names only names that occur in the program.
-/

section stage34
variable (fl : Flags) (cls : CharClass) (o : Orders) (fixed : List FixedFunction) (stmts : List Stmt)
  (constants : AMap WireValue)

/-- what a diagnostic about register `r` of bank `b` (name `[inP, outP]`) claims (`FaultNamed.RegFault`, spelled out) -/
theorem C09_regFault_iff (b : BankDecl) (inP outP : Char) (r : RegDecl) (d : Diag) :
    RegFault fl fixed stmts constants b inP outP r d ↔
      ((∃ n ∈ refs r.default, d = ⟨.NonConstantWireRead, [n]⟩ ∧ (n ∈ fixedNamesOf fixed ∨ DeclaredWire stmts n) ∧
        ¬ DeclaredConst stmts n) ∨
      (∃ n, (n = regInName inP r ∨ n = regOutName outP r) ∧ d = ⟨.RedeclaredWire, [n]⟩ ∧ n ∈ allDeclared stmts) ∨
      (d = ⟨.DuplicateRegister, [b.name, r.name]⟩ ∧ 2 ≤ (b.regs.map (·.name)).count r.name) ∨
      (d = ⟨.DoubleAssignedRegisterWire, [regOutName outP r]⟩ ∧ regOutName outP r ∈ allTargets stmts) ∨
      (∃ n, (n = regInName inP r ∨ n = regOutName outP r) ∧ d = ⟨.DoubleDeclaredRegisterOutWire, [n]⟩ ∧
        2 ≤ (allRegNames (banksOf stmts)).count n) ∨
      (∃ ds', checkFixEval fl (wOf constants).toCtx constants.toEnv r.default = .error ds' ∧ d ∈ ds') ∨
      (∃ v, checkFixEval fl (wOf constants).toCtx constants.toEnv r.default = .ok v ∧ v.width.combine r.width = none ∧
        d = ⟨.MismatchedRegisterDefaultWidths, [b.name, r.name]⟩)) := Iff.rfl

/-- **steps 3 and 4 (register banks, unset wires): every diagnostic is justified.**  Stage 1 is silent and the constants
    resolve (`Stage12`); steps 3/4 report something (so this is the stage that rejects); register widths are in range
    (what the parser guarantees, `StmtsWF`).  Then every returned diagnostic is:
    * `UnsetWire [n]`: `n` is a declared wire and never assigned;
    * `UnsetRegisterInputWire [n]`: `n` is the input signal `<i>_<reg>` of a register of a declared bank with a well-formed
      name, never assigned (and not declared);
    * `InvalidRegisterBankName [b.name]`: the name of the declared bank `b` is not a lowercase and an uppercase letter;
    * `RedeclaredWire [stall_<O> / bubble_<O>]`: the control signal of a declared bank is also declared;
    * a diagnostic about a register `r` of a declared bank (`RegFault`, see `C09_regFault_iff`): `NonConstantWireRead [n]`
      (the default reads the wire `n`, not a constant), `RedeclaredWire [n]` (a signal name of `r` is declared),
      `DuplicateRegister [bank, reg]` (two registers of this name in the bank), `DoubleAssignedRegisterWire [out]` (the
      output is assigned), `DoubleDeclaredRegisterOutWire [n]` (a signal name of `r` occurs twice among all register
      signal names), a diagnostic of the checker/evaluator for the default, `MismatchedRegisterDefaultWidths [bank, reg]`
      (the default's width does not fit). -/
theorem C09_named_stage34_sound (h12 : Stage12 fl o fixed stmts constants)
    (hwid : ∀ b, Stmt.bank b ∈ stmts → ∀ r ∈ b.regs, r.width.ok)
    (ds : List Diag)
    (hne : (step3Of fl cls (step1G fixed stmts) constants).errors ++
        e4Of (step1G fixed stmts) (step3Of fl cls (step1G fixed stmts) constants) ≠ [])
    (h : Program.new fl cls o fixed stmts = .error ds) (d : Diag) (hd : d ∈ ds) :
    (∃ n, d = ⟨.UnsetWire, [n]⟩ ∧ DeclaredWire stmts n ∧ n ∉ allTargets stmts) ∨
    (∃ n, d = ⟨.UnsetRegisterInputWire, [n]⟩ ∧ n ∉ allTargets stmts ∧ n ∉ allDeclared stmts ∧
      ∃ b, Stmt.bank b ∈ stmts ∧ ∃ inP outP, b.name.toList = [inP, outP] ∧ cls.isLower inP = true ∧ cls.isUpper outP = true ∧
        ∃ r ∈ b.regs, n = regInName inP r) ∨
    (∃ b, Stmt.bank b ∈ stmts ∧ d = ⟨.InvalidRegisterBankName, [b.name]⟩ ∧
      ¬ ∃ i o, b.name.toList = [i, o] ∧ cls.isLower i = true ∧ cls.isUpper o = true) ∨
    (∃ b, Stmt.bank b ∈ stmts ∧ ∃ inP outP, b.name.toList = [inP, outP] ∧ cls.isLower inP = true ∧ cls.isUpper outP = true ∧
      ∃ n, (n = "stall_" ++ String.ofList [outP] ∨ n = "bubble_" ++ String.ofList [outP]) ∧
        d = ⟨.RedeclaredWire, [n]⟩ ∧ n ∈ allDeclared stmts) ∨
    (∃ b, Stmt.bank b ∈ stmts ∧ ∃ inP outP, b.name.toList = [inP, outP] ∧ cls.isLower inP = true ∧ cls.isUpper outP = true ∧
      ∃ r ∈ b.regs, RegFault fl fixed stmts constants b inP outP r d) :=
  stage3_sound fl cls o fixed stmts constants h12 hwid ds hne h d hd

end stage34

section stage5
variable {fl : Flags} {cls : CharClass} {o : Orders} {stmts : List Stmt} {constants : AMap WireValue}

/-- **`assignments_to_actions`: every diagnostic is justified.**  Stages 1 to 4 are silent (`Stages14`), Y86 table.  A
    rejection is one of:
    1. (`preprocess_fixed` reports) every diagnostic is about a built-in component `f`:
       `UnsetBuiltinWire [n]` — `n` is an input of `f` that is never assigned, and `f` is mandatory or its output is read by
       an assignment; or `PartialFixedInput (found ++ ["/"] ++ missing)` — `f` is not mandatory, has some but not all of
       its inputs assigned, and is not `DisabledBy` a checked enable expression evaluating to 0;
    2. (a cycle) the only diagnostic is `WireLoop c` and `c` is a real cycle of the dependencies among assignments and
       built-in components;
    3. (the loop over the sorted names) every diagnostic is `UndeclaredWireAssigned [n]` (`n` is assigned and has no
       width), a diagnostic of the width checker for the expression assigned to a name that has a width,
       `MismatchedWireWidths [n]` (the checked width of the expression does not fit the declared width of `n`), or
       `UnsetUndeclaredWire [r]` (`r` is read by an assignment, is not declared, not assigned, not known — no constant or
       register output — and not the output of a built-in component that has all its inputs).
    `UnsetWire` cannot come out of this stage: with stages 1–4 silent every declared name is assigned or known. -/
theorem C09_named_stage5_sound (h : Stages14 fl cls o stmts constants) (ds : List Diag)
    (hnew : Program.new fl cls o y86FixedFunctions stmts = .error ds) :
    ((preOf fl (step1Of stmts).assignments (widthsOf fl cls stmts constants) (knownNames fl cls stmts constants)
        y86FixedFunctions constants).errors ≠ [] ∧
      ∀ d ∈ ds, ∃ f ∈ y86FixedFunctions,
        (∃ n ∈ f.inWires.map (·.1), d = ⟨.UnsetBuiltinWire, [n]⟩ ∧ n ∉ allTargets stmts ∧
          (f.mandatory = true ∨ ∃ out w, f.outWire = some (out, w) ∧ ∃ p ∈ (step1Of stmts).assignments, out ∈ refs p.2)) ∨
        (d = ⟨.PartialFixedInput, (f.inWires.map (·.1)).filter (fun n => (step1Of stmts).assignments.contains n) ++ ["/"] ++
            (f.inWires.map (·.1)).filter (fun n => !(step1Of stmts).assignments.contains n)⟩ ∧
          f.mandatory = false ∧ (∃ i ∈ f.inWires.map (·.1), i ∈ allTargets stmts) ∧
          (∃ i ∈ f.inWires.map (·.1), i ∉ allTargets stmts) ∧
          ¬ DisabledBy fl (widthsOf fl cls stmts constants) constants (step1Of stmts).assignments f)) ∨
    ((preOf fl (step1Of stmts).assignments (widthsOf fl cls stmts constants) (knownNames fl cls stmts constants)
        y86FixedFunctions constants).errors = [] ∧
      ∃ c, ds = [⟨.WireLoop, c⟩] ∧ RelCycle (ActDep (step1Of stmts).assignments y86FixedFunctions) c) ∨
    ((preOf fl (step1Of stmts).assignments (widthsOf fl cls stmts constants) (knownNames fl cls stmts constants)
        y86FixedFunctions constants).errors = [] ∧
      ∀ d ∈ ds,
        (∃ n, d = ⟨.UndeclaredWireAssigned, [n]⟩ ∧ n ∈ allTargets stmts ∧ (widthsOf fl cls stmts constants).get? n = none) ∨
        (∃ n e w ds', (step1Of stmts).assignments.get? n = some e ∧ (widthsOf fl cls stmts constants).get? n = some w ∧
          check fl (widthsOf fl cls stmts constants).toCtx constants.toEnv e = .error ds' ∧ d ∈ ds') ∨
        (∃ n e w ew, d = ⟨.MismatchedWireWidths, [n]⟩ ∧ (step1Of stmts).assignments.get? n = some e ∧
          (widthsOf fl cls stmts constants).get? n = some w ∧
          check fl (widthsOf fl cls stmts constants).toCtx constants.toEnv e = .ok ew ∧ w.combine ew = none) ∨
        (∃ r, d = ⟨.UnsetUndeclaredWire, [r]⟩ ∧ r ∉ allDeclared stmts ∧ r ∉ allTargets stmts ∧
          (∃ p ∈ (step1Of stmts).assignments, r ∈ refs p.2) ∧ r ∉ knownNames fl cls stmts constants ∧
          ∀ f ∈ y86FixedFunctions, (∃ w, f.outWire = some (r, w)) → ¬ Active (step1Of stmts).assignments f)) := by
  rcases stage5_sound h ds hnew with h1 | h2 | ⟨hpe, hall⟩
  · exact Or.inl h1
  · exact Or.inr (Or.inl h2)
  · refine Or.inr (Or.inr ⟨hpe, ?_⟩)
    intro d hd
    rcases hall d hd with h1 | h1 | h1 | ⟨r, hk, hna, hr, hkn, hnd⟩
    · exact Or.inl h1
    · exact Or.inr (Or.inl h1)
    · exact Or.inr (Or.inr (Or.inl h1))
    · rcases hk with ⟨_, hdecl⟩ | ⟨e, hdecl⟩
      · exfalso
        rcases h.declared_driven r hdecl with h1 | h1
        · exact hna h1
        · exact hkn h1
      · exact Or.inr (Or.inr (Or.inr ⟨r, e, hdecl, hna, hr, hkn, hnd⟩))

/-- the cycle of the second exit is also a cycle of the dependency relation `DependsOn` of C10 -/
theorem C09_named_stage5_loop_real (h : Stages14 fl cls o stmts constants) (ds : List Diag)
    (hnew : Program.new fl cls o y86FixedFunctions stmts = .error ds) (c : List String)
    (hc : (⟨.WireLoop, c⟩ : Diag) ∈ ds) :
    ds = [⟨.WireLoop, c⟩] ∧ RelCycle (ActDep (step1Of stmts).assignments y86FixedFunctions) c ∧
      RelCycle (DependsOn stmts) c := by
  have hreal := C10_reported_loop_real fl cls o stmts ds c h.orders h.wf hnew hc
  refine ⟨hreal.1, ?_, hreal.2⟩
  rcases stage5_sound h ds hnew with ⟨hpe, hall⟩ | ⟨_, c', hds, hcyc⟩ | ⟨_, hall⟩
  · exfalso
    obtain ⟨f, _, hj⟩ := hall _ hc
    rcases hj with ⟨_, _, e, _⟩ | ⟨e, _⟩ <;> cases e
  · rw [hds] at hc
    simp only [List.mem_cons, List.not_mem_nil, or_false, Diag.mk.injEq, true_and] at hc
    rw [hc]; exact hcyc
  · exfalso
    rcases hall _ hc with ⟨_, e, _⟩ | ⟨n, e, w, ds', hg, hw, hck, hm⟩ | ⟨_, _, _, _, e, _⟩ | ⟨_, (⟨e, _⟩ | ⟨e, _⟩), _⟩
    · cases e
    · exact check_nl fl _ _ e ds' hck _ hm rfl
    · cases e
    · cases e
    · cases e

end stage5

/-- **the diagnostics never name a wire that is not in the program.**  For every rejection (whatever stage rejects) of
    a statement list as the parser produces them (`StmtsWF`), by the Y86 component table, with any flags, letter classes
    and iteration order: a returned diagnostic is a loop report (`C10_reported_loop_real`: its names form a real cycle),
    or a diagnostic of the width checker/evaluator for an expression of the program (`ExprDiag`), or every name it lists
    occurs in the program (`InProgram`): as a declared, assigned or read name, as the name of a declared bank, of one of
    its registers or of a register signal `<i>_<reg>`/`<O>_<reg>`, as a name of a built-in component — or is the
    separator `"/"` of `PartialFixedInput`. -/
theorem C09_every_diagnostic_names_a_fault (fl : Flags) (cls : CharClass) (o : Orders) (stmts : List Stmt)
    (ho : OrdersOK o) (hwf : StmtsWF stmts) (ds : List Diag)
    (h : Program.new fl cls o y86FixedFunctions stmts = .error ds) (d : Diag) (hd : d ∈ ds) :
    d.kind = .WireLoop ∨ ExprDiag fl stmts d ∨ ∀ n ∈ d.names, InProgram stmts n :=
  every_diagnostic_names_program fl cls o stmts ho hwf ds h d hd

/-- `InProgram`, spelled out -/
theorem C09_inProgram_iff (stmts : List Stmt) (n : String) :
    InProgram stmts n ↔
      (n ∈ allDeclared stmts ∨ n ∈ allTargets stmts ∨
      (∃ c ∈ constDecls stmts, n ∈ refs c.value) ∨
      (∃ as, Stmt.assigns as ∈ stmts ∧ ∃ a ∈ as, n ∈ refs a.value) ∨
      (∃ b, Stmt.bank b ∈ stmts ∧ (n = b.name ∨ ∃ r ∈ b.regs, n = r.name ∨ n ∈ refs r.default ∨
        ∃ i o, b.name.toList = [i, o] ∧ (n = regInName i r ∨ n = regOutName o r))) ∨
      n ∈ fixedNamesOf y86FixedFunctions ∨ n = "/") := Iff.rfl

/-- `ExprDiag`, spelled out -/
theorem C09_exprDiag_iff (fl : Flags) (stmts : List Stmt) (d : Diag) :
    ExprDiag fl stmts d ↔
      ∃ e, ((∃ c ∈ constDecls stmts, e = c.value) ∨ (∃ as, Stmt.assigns as ∈ stmts ∧ ∃ a ∈ as, e = a.value) ∨
          (∃ b, Stmt.bank b ∈ stmts ∧ ∃ r ∈ b.regs, e = r.default)) ∧
        ∃ Γ κ ds', checkFixEval fl Γ κ e = .error ds' ∧ d ∈ ds' := Iff.rfl

/-! ### the hypotheses are satisfiable -/

/-- steps 3/4: `wire x:8` and nothing else — every returned diagnostic is `UnsetWire` of a declared wire -/
example (ds : List Diag) (h : Program.new {} {} {} y86FixedFunctions [.wires [⟨"x", .bits 8⟩]] = .error ds) (d : Diag)
    (hd : d ∈ ds) : ∃ n, d = ⟨.UnsetWire, [n]⟩ ∧ DeclaredWire [.wires [⟨"x", .bits 8⟩]] n := by
  have h12 := stage12_of_no_consts [.wires [⟨"x", .bits 8⟩]] rfl (by decide) (by decide +kernel) (by decide) (by decide +kernel)
  have hne : (step3Of {} {} (step1G y86FixedFunctions [.wires [⟨"x", .bits 8⟩]]) []).errors ++
        e4Of (step1G y86FixedFunctions [.wires [⟨"x", .bits 8⟩]])
          (step3Of {} {} (step1G y86FixedFunctions [.wires [⟨"x", .bits 8⟩]]) []) ≠ [] := by
    decide +kernel
  rcases C09_named_stage34_sound {} {} {} y86FixedFunctions _ [] h12 (by intro b hb; simp at hb) ds hne h d hd with
    ⟨n, e, hw, _⟩ | ⟨_, _, _, _, b, hb, _⟩ | ⟨b, hb, _⟩ | ⟨b, hb, _⟩ | ⟨b, hb, _⟩
  · exact ⟨n, e, hw⟩
  all_goals simp at hb

/-- stage 5: the empty program (`stages14_nil`) — every returned diagnostic is `UnsetBuiltinWire` of an input of a
    mandatory component -/
example (ds : List Diag) (h : Program.new {} {} {} y86FixedFunctions [] = .error ds) (d : Diag) (hd : d ∈ ds) :
    ∃ f ∈ y86FixedFunctions, f.mandatory = true ∧ ∃ n ∈ f.inWires.map (·.1), d = ⟨.UnsetBuiltinWire, [n]⟩ := by
  have hpre : (preOf {} (step1Of []).assignments (widthsOf {} {} [] []) (knownNames {} {} [] []) y86FixedFunctions []).errors ≠ [] := by
    decide +kernel
  rcases C09_named_stage5_sound stages14_nil ds h with ⟨_, hall⟩ | ⟨hpe, _⟩ | ⟨hpe, _⟩
  · obtain ⟨f, hf, hj⟩ := hall d hd
    rcases hj with ⟨n, hn, e, _, hm | ⟨out, w, _, p, hp, _⟩⟩ | ⟨_, _, ⟨i, _, hi⟩, _⟩
    · exact ⟨f, hf, hm, n, hn, e⟩
    · cases hp
    · cases hi
  · exact absurd hpe hpre
  · exact absurd hpe hpre

/-- the closing corollary applied to the empty program -/
example (ds : List Diag) (h : Program.new {} {} {} y86FixedFunctions [] = .error ds) (d : Diag) (hd : d ∈ ds) :
    d.kind = .WireLoop ∨ ExprDiag {} [] d ∨ ∀ n ∈ d.names, InProgram [] n :=
  C09_every_diagnostic_names_a_fault {} {} {} [] ordersOK_default (by intro s hs; cases hs) ds h d hd

#print axioms C09_named_stage34_sound
#print axioms C09_named_stage5_sound
#print axioms C09_named_stage5_loop_real
#print axioms C09_every_diagnostic_names_a_fault
