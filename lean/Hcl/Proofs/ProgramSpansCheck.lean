import Hcl.Model.ProgramSp
open Rust

/-! Forgetting the spans of the spanned width checker `checkSp` gives the width checker `check`; the number of spans
    `find_references` returns is the number of occurrences. -/

namespace Parser

/-- forget the spans of the diagnostics of a verdict -/
abbrev eraseE {α : Type} (x : CS α) : C α := x.mapError (List.map DiagSp.erase)

@[simp] theorem eraseE_ok {α : Type} (a : α) : eraseE (.ok a : CS α) = .ok a := rfl
@[simp] theorem eraseE_error {α : Type} (ds : List DiagSp) : eraseE (.error ds : CS α) = .error (ds.map DiagSp.erase) := rfl

theorem erase_mk (k : DKind) (ns : List String) (sp : List Span) : DiagSp.erase ⟨k, ns, sp⟩ = ⟨k, ns⟩ := rfl

theorem erase_ofDiag (d : Diag) : (DiagSp.ofDiag d).erase = d := rfl

theorem map_erase_ofDiag (ds : List Diag) : (ds.map DiagSp.ofDiag).map DiagSp.erase = ds := by
  induction ds with
  | nil => rfl
  | cons d r ih => simp [erase_ofDiag, ih]

theorem panicSp_erase : panicSp.map DiagSp.erase = panicDiag := map_erase_ofDiag _

mutual
theorem checkSp_erase (fl : Flags) (Γ : Ctx) (κ : Env) : ∀ (x : PEx), eraseE (checkSp fl Γ κ x) = check fl Γ κ x.erase
  | .const _ _ v => by simp [checkSp, check, PEx.erase, pure, Except.pure, Except.mapError]
  | .wire s e n => by
      simp only [checkSp, check, PEx.erase]
      cases h : Γ n <;> simp [pure, Except.pure, Except.mapError, throw, throwThe, MonadExceptOf.throw, erase_mk]
  | .bin s e op l r => by
      have ihl := checkSp_erase fl Γ κ l
      have ihr := checkSp_erase fl Γ κ r
      simp only [checkSp, check, PEx.erase]
      rw [← ihl, ← ihr]
      cases op.kind <;> simp only [] <;>
      cases checkSp fl Γ κ l <;> cases checkSp fl Γ κ r <;>
      simp [bind, Except.bind, pure, Except.pure, Except.mapError, throw, throwThe, MonadExceptOf.throw, erase_mk] <;>
      repeat' split <;> simp_all [Except.mapError, erase_mk]
  | .un s e op x => by
      have ih := checkSp_erase fl Γ κ x
      cases op <;>
      · simp only [checkSp, check, PEx.erase]
        first
          | exact ih
          | (rw [← ih]
             cases checkSp fl Γ κ x <;> simp [bind, Except.bind, pure, Except.pure, Except.mapError])
  | .slice s e x lo hi => by
      have ih := checkSp_erase fl Γ κ x
      simp only [checkSp, check, PEx.erase]
      rw [← ih]
      cases checkSp fl Γ κ x <;>
      simp [bind, Except.bind, pure, Except.pure, Except.mapError, throw, throwThe, MonadExceptOf.throw, erase_mk] <;>
      repeat' split <;> simp_all [Except.mapError, erase_mk]
  | .concat s e l r => by
      have ihl := checkSp_erase fl Γ κ l
      have ihr := checkSp_erase fl Γ κ r
      simp only [checkSp, check, PEx.erase]
      rw [← ihl, ← ihr]
      cases checkSp fl Γ κ l <;> cases checkSp fl Γ κ r <;>
      simp [bind, Except.bind, pure, Except.pure, Except.mapError, throw, throwThe, MonadExceptOf.throw, erase_mk] <;>
      repeat' split <;> simp_all [Except.mapError, erase_mk]
  | .mux s e opts => by
      have ih := checkOptsSp_erase fl Γ κ opts {}
      simp only [checkSp, check, PEx.erase]
      rw [← ih]
      cases checkOptsSp fl Γ κ opts {} <;>
      simp [bind, Except.bind, pure, Except.pure, Except.mapError, throw, throwThe, MonadExceptOf.throw, erase_mk] <;>
      repeat' split <;> simp_all [Except.mapError, erase_mk]
  | .inSet s e x items => by
      have ih := checkSp_erase fl Γ κ x
      simp only [checkSp, check, PEx.erase]
      rw [← ih]
      cases hx : checkSp fl Γ κ x with
      | error ds => simp [bind, Except.bind, Except.mapError]
      | ok a =>
        have ih2 := checkItemsSp_erase fl Γ κ a x.span items
        simp only [bind, Except.bind, Except.mapError]
        rw [← ih2]
        cases checkItemsSp fl Γ κ a x.span items with
        | error ds => simp [Except.mapError, Except.map]
        | ok errs =>
          cases errs <;> simp [Except.mapError, Except.map, pure, Except.pure, throw, throwThe, MonadExceptOf.throw]
theorem checkOptsSp_erase (fl : Flags) (Γ : Ctx) (κ : Env) : ∀ (opts : POpts) (st : MuxScan),
    eraseE (checkOptsSp fl Γ κ opts st) = checkOpts fl Γ κ opts.erase st
  | .nil, st => by simp [checkOptsSp, checkOpts, POpts.erase, pure, Except.pure, Except.mapError]
  | .cons c v rest, st => by
      have ihc := checkSp_erase fl Γ κ c
      have ihv := checkSp_erase fl Γ κ v
      simp only [checkOptsSp, checkOpts, POpts.erase]
      rw [← ihc, ← ihv]
      cases checkSp fl Γ κ c with
      | error ds => simp [bind, Except.bind, Except.mapError]
      | ok _ =>
        cases checkSp fl Γ κ v with
        | error ds => simp [bind, Except.bind, Except.mapError]
        | ok w =>
          simp only [bind, Except.bind, Except.mapError]
          exact checkOptsSp_erase fl Γ κ rest _
theorem checkItemsSp_erase (fl : Flags) (Γ : Ctx) (κ : Env) (a : Width) (left : Span) : ∀ (items : PExs),
    eraseE ((checkItemsSp fl Γ κ a left items).map (List.map DiagSp.erase)) = checkItems fl Γ κ a items.erase
  | .nil => by simp [checkItemsSp, checkItems, PExs.erase, pure, Except.pure, Except.mapError, Except.map]
  | .cons x rest => by
      have ihx := checkSp_erase fl Γ κ x
      have ihr := checkItemsSp_erase fl Γ κ a left rest
      simp only [checkItemsSp, checkItems, PExs.erase]
      rw [← ihx, ← ihr]
      cases checkSp fl Γ κ x with
      | error ds => simp [bind, Except.bind, Except.mapError, Except.map]
      | ok b =>
        cases checkItemsSp fl Γ κ a left rest with
        | error ds => simp [bind, Except.bind, Except.mapError, Except.map]
        | ok more =>
          simp only [bind, Except.bind, Except.mapError, Except.map]
          cases a.combine b <;> simp [pure, Except.pure, erase_mk]
end

theorem checkFixEvalSp_erase (fl : Flags) (Γ : Ctx) (κ : Env) (x : PEx) :
    eraseE (checkFixEvalSp fl Γ κ x) = checkFixEval fl Γ κ x.erase := by
  have h := checkSp_erase fl Γ κ x
  unfold checkFixEvalSp checkFixEval
  rw [← h]
  cases checkSp fl Γ κ x with
  | error ds => simp [Except.mapError]
  | ok w =>
    simp only [Except.mapError]
    cases ev fl κ (fixMux fl Γ κ x.erase) <;> simp [Except.mapError, erase_ofDiag]

/-! ### `find_references` -/

mutual
theorem refSpans_length (n : String) : ∀ (x : PEx), (refSpans n x).length = (refs x.erase).count n
  | .const _ _ _ => by simp [refSpans, PEx.erase, refs]
  | .wire s e m => by
      unfold refSpans PEx.erase refs
      by_cases h : m = n <;> simp [h]
  | .bin _ _ _ l r => by simp [refSpans, PEx.erase, refs, List.count_append, refSpans_length n l, refSpans_length n r]
  | .un _ _ _ x => by simp [refSpans, PEx.erase, refs, refSpans_length n x]
  | .slice _ _ x _ _ => by simp [refSpans, PEx.erase, refs, refSpans_length n x]
  | .concat _ _ l r => by simp [refSpans, PEx.erase, refs, List.count_append, refSpans_length n l, refSpans_length n r]
  | .mux _ _ opts => by simp [refSpans, PEx.erase, refs, refSpansOpts_length n opts]
  | .inSet _ _ x items => by
      simp [refSpans, PEx.erase, refs, List.count_append, refSpans_length n x, refSpansExs_length n items]
theorem refSpansOpts_length (n : String) : ∀ (o : POpts), (refSpansOpts n o).length = (refsOpts o.erase).count n
  | .nil => by simp [refSpansOpts, POpts.erase, refsOpts]
  | .cons c v rest => by
      simp [refSpansOpts, POpts.erase, refsOpts, List.count_append, refSpans_length n c, refSpans_length n v,
        refSpansOpts_length n rest]
theorem refSpansExs_length (n : String) : ∀ (o : PExs), (refSpansExs n o).length = (refsExs o.erase).count n
  | .nil => by simp [refSpansExs, PExs.erase, refsExs]
  | .cons x rest => by
      simp [refSpansExs, PExs.erase, refsExs, List.count_append, refSpans_length n x, refSpansExs_length n rest]
end

/-- the located diagnostics of the occurrences of a name erase to as many copies of the span-less diagnostic -/
theorem map_refSpans_erase (k : DKind) (n : String) (x : PEx) :
    ((refSpans n x).map fun sp => (⟨k, [n], [sp]⟩ : DiagSp)).map DiagSp.erase
      = List.replicate (occurrences x.erase n) ⟨k, [n]⟩ := by
  unfold occurrences
  rw [← refSpans_length]
  generalize refSpans n x = l
  induction l with
  | nil => rfl
  | cons a r ih => simp [List.replicate_succ, erase_mk] at ih ⊢; exact ih

end Parser
