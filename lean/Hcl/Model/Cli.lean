/-! Model of `main_real` (main.rs): the decision logic from parsed arguments and the state of the files
    to exit status and kind of output.  `getopts` itself, file IO and the simulation are abstracted
    into the fields of `CliInput`. -/

namespace Cli

inductive HclFile where
  | unreadable            -- missing, a directory, no permission
  | rejected              -- read, but parse_y86_hcl returns errors
  | accepted
  deriving Repr, DecidableEq

inductive YoFile where
  | unopenable | unloadable | loaded
  deriving Repr, DecidableEq

/-- what running the accepted program on the loaded image for at most `timeout` cycles does -/
inductive RunResult where
  | finished              -- `run` returned Ok: halted, error status or timeout; final state printed
  | aborted               -- `run` returned Err (division by zero)
  deriving Repr, DecidableEq

structure CliInput where
  optionError : Bool      -- getopts rejected the arguments (unknown option, option given twice)
  help : Bool
  version : Bool
  check : Bool
  nfree : Nat             -- number of positional arguments
  hcl : HclFile
  yoHasSuffix : Bool      -- second positional ends with ".yo"
  yo : YoFile
  timeoutValid : Bool     -- third positional parses as u32 (when present)
  run : RunResult
  deriving Repr

inductive Out where
  | optionMessage | usage | usageError | version | readError | diagnostics | syntaxOk | notYo | badTimeout | runError | finalState
  deriving Repr, DecidableEq

/-- the `return` statement of `main_real` that is reached, in source order -/
def outcomeOf (a : CliInput) : Out :=
  if a.optionError then .optionMessage
  else if a.help then .usage
  else if a.version then .version
  else if a.nfree < 1 then .usageError
  else if a.hcl = .unreadable then .readError
  else if a.nfree > 3 then .usageError
  else if a.hcl = .rejected then .diagnostics
  else if a.check then .syntaxOk
  else if a.nfree < 2 ∨ a.nfree > 3 then .usageError
  else if !a.yoHasSuffix then .notYo
  else if a.nfree > 2 ∧ !a.timeoutValid then .badTimeout
  else if a.yo ≠ .loaded then .runError
  else if a.run = .aborted then .runError
  else .finalState

/-- `Ok(true)` / `Ok(false)` of each return statement -/
def Out.status : Out → Nat
  | .usage | .version | .syntaxOk | .finalState => 0
  | _ => 1

/-- exit status and what is printed -/
def mainReal (a : CliInput) : Nat × Out := ((outcomeOf a).status, outcomeOf a)

/-- `u32::from_str_radix(s, 10)`: optional `+`, then one or more digits, value below 2^32 -/
def parseU32 (s : List Char) : Option Nat :=
  let digits := match s with
    | '+' :: rest => rest
    | _ => s
  if digits.isEmpty || !digits.all (fun c => '0' ≤ c && c ≤ '9') then none
  else
    let v := digits.foldl (fun acc c => acc * 10 + (c.toNat - 48)) 0
    if v < 2 ^ 32 then some v else none

end Cli
