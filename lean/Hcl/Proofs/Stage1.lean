import Hcl.Proofs.AMapLemmas
import Hcl.Proofs.EvalCorrect
import Hcl.Proofs.GBuild

/-! Step 1 of `Program::new` (the pass over the statements): what holds of the collected tables when no
    error was recorded. -/

/-- what the lexer and the grammar guarantee about a statement list: constants fit their widths, declared
    widths are at most 128 -/
def declOK : Stmt → Prop
  | .consts ds => ∀ d ∈ ds, wfEx d.value = true
  | .wires ds => ∀ d ∈ ds, d.width.ok
  | .assigns as => ∀ a ∈ as, wfEx a.value = true
  | .bank b => ∀ r ∈ b.regs, r.width.ok ∧ wfEx r.default = true

def StmtsWF (stmts : List Stmt) : Prop := ∀ s ∈ stmts, declOK s

structure S1Inv (FN : List String) (W0 : AMap Width) (s : Step1) : Prop where
  fixedKept : s.errors = [] → ∀ n ∈ FN, s.wires.get? n = W0.get? n
  aKeys : s.assignments.keys.Nodup
  cKeys : s.constantsRaw.keys.Nodup
  aWf : ∀ p ∈ s.assignments, wfEx p.2 = true
  cWf : ∀ p ∈ s.constantsRaw, wfEx p.2 = true
  wOk : ∀ n w, s.wires.get? n = some w → w.ok
  cDecl : ∀ k ∈ s.constantsRaw.keys, k ∈ s.declared
  cNotFixed : s.errors = [] → ∀ k ∈ s.constantsRaw.keys, k ∉ FN
  banks : ∀ b ∈ s.banksRaw, ∀ r ∈ b.regs, r.width.ok ∧ wfEx r.default = true
  aAssigned : ∀ k ∈ s.assignments.keys, k ∈ s.assigned

section
variable (FN FO : List String) (W0 : AMap Width)

theorem checkDoubleDeclare_errors (s : Step1) (name : String) :
    (checkDoubleDeclare FN s name).errors = [] → s.errors = [] ∧ name ∉ FN := by
  unfold checkDoubleDeclare
  simp only
  intro h
  rw [List.append_eq_nil_iff] at h
  refine ⟨h.1, ?_⟩
  intro hm
  have hc : FN.contains name = true := by simpa using hm
  have := h.2
  split at this
  · simp at this
  · simp [hc] at this

theorem step1Const_inv (s : Step1) (d : ConstDecl) (hd : wfEx d.value = true) (h : S1Inv FN W0 s) :
    S1Inv FN W0 (step1Const FN s d) ∧ ((step1Const FN s d).errors = [] → s.errors = []) := by
  have hback : (step1Const FN s d).errors = [] → s.errors = [] ∧ d.name ∉ FN := by
    intro he; exact checkDoubleDeclare_errors FN s d.name he
  refine ⟨?_, fun he => (hback he).1⟩
  exact {
    fixedKept := fun he n hn => h.fixedKept (hback he).1 n hn
    aKeys := h.aKeys
    cKeys := AMap.keys_insert_nodup _ _ _ h.cKeys
    aWf := h.aWf
    cWf := by
      intro p hp
      rcases AMap.mem_insert _ _ _ _ hp with h1 | h1
      · exact h.cWf p h1
      · subst h1; exact hd
    wOk := h.wOk
    cDecl := by
      intro k hk
      show k ∈ setInsert s.declared d.name
      rw [mem_setInsert]
      rcases (AMap.mem_keys_insert _ _ _ _).mp hk with h1 | h1
      · exact Or.inl (h.cDecl k h1)
      · exact Or.inr h1
    cNotFixed := by
      intro he k hk
      rcases (AMap.mem_keys_insert _ _ _ _).mp hk with h1 | h1
      · exact h.cNotFixed (hback he).1 k h1
      · subst h1; exact (hback he).2
    banks := h.banks
    aAssigned := h.aAssigned }

theorem step1Wire_inv (s : Step1) (d : WireDecl) (hd : d.width.ok) (h : S1Inv FN W0 s) :
    S1Inv FN W0 (step1Wire FN s d) ∧ ((step1Wire FN s d).errors = [] → s.errors = []) := by
  have hback : (step1Wire FN s d).errors = [] → s.errors = [] ∧ d.name ∉ FN := by
    intro he; exact checkDoubleDeclare_errors FN s d.name he
  refine ⟨?_, fun he => (hback he).1⟩
  exact {
    fixedKept := by
      intro he n hn
      have hne : n ≠ d.name := fun e => (hback he).2 (e ▸ hn)
      show (s.wires.insert d.name d.width).get? n = _
      rw [AMap.get?_insert_ne _ _ _ _ hne]
      exact h.fixedKept (hback he).1 n hn
    aKeys := h.aKeys
    cKeys := h.cKeys
    aWf := h.aWf
    cWf := h.cWf
    wOk := by
      intro n w hw
      have hw' : (s.wires.insert d.name d.width).get? n = some w := hw
      rw [AMap.get?_insert] at hw'
      split at hw'
      · cases hw'; exact hd
      · exact h.wOk n w hw'
    cDecl := by
      intro k hk
      show k ∈ setInsert s.declared d.name
      rw [mem_setInsert]
      exact Or.inl (h.cDecl k hk)
    cNotFixed := fun he k hk => h.cNotFixed (hback he).1 k hk
    banks := h.banks
    aAssigned := h.aAssigned }

theorem step1Name_inv (value : Ex) (hv : wfEx value = true) (s : Step1) (name : String) (h : S1Inv FN W0 s) :
    S1Inv FN W0 (step1Name FO value s name) ∧ ((step1Name FO value s name).errors = [] → s.errors = []) := by
  have hback : (step1Name FO value s name).errors = [] → s.errors = [] := by
    unfold step1Name
    simp only
    intro he
    rw [List.append_eq_nil_iff] at he
    exact he.1
  refine ⟨?_, hback⟩
  exact {
    fixedKept := fun he n hn => h.fixedKept (hback he) n hn
    aKeys := AMap.keys_insert_nodup _ _ _ h.aKeys
    cKeys := h.cKeys
    aWf := by
      intro p hp
      rcases AMap.mem_insert _ _ _ _ hp with h1 | h1
      · exact h.aWf p h1
      · subst h1; exact hv
    cWf := h.cWf
    wOk := h.wOk
    cDecl := h.cDecl
    cNotFixed := fun he k hk => h.cNotFixed (hback he) k hk
    banks := h.banks
    aAssigned := by
      intro k hk
      show k ∈ setInsert s.assigned name
      rw [mem_setInsert]
      rcases (AMap.mem_keys_insert _ _ _ _).mp hk with h1 | h1
      · exact Or.inl (h.aAssigned k h1)
      · exact Or.inr h1 }

/-- a fold of steps each of which keeps the invariant and never clears errors -/
theorem fold_inv {α : Type} (P : Step1 → Prop) (f : Step1 → α → Step1) (Q : α → Prop)
    (hstep : ∀ s a, Q a → P s → P (f s a) ∧ ((f s a).errors = [] → s.errors = [])) :
    ∀ (l : List α) (s : Step1), (∀ a ∈ l, Q a) → P s → P (l.foldl f s) ∧ ((l.foldl f s).errors = [] → s.errors = [])
  | [], s, _, hp => ⟨hp, fun h => h⟩
  | a :: rest, s, hq, hp => by
    obtain ⟨h1, h2⟩ := hstep s a (hq a List.mem_cons_self) hp
    obtain ⟨h3, h4⟩ := fold_inv P f Q hstep rest (f s a) (fun b hb => hq b (List.mem_cons_of_mem _ hb)) h1
    exact ⟨h3, fun he => h2 (h4 he)⟩

theorem step1Stmt_inv (s : Step1) (st : Stmt) (hst : declOK st) (h : S1Inv FN W0 s) :
    S1Inv FN W0 (step1Stmt FN FO s st) ∧ ((step1Stmt FN FO s st).errors = [] → s.errors = []) := by
  cases st with
  | consts ds =>
    exact fold_inv (S1Inv FN W0) (step1Const FN) (fun d => wfEx d.value = true)
      (fun s d hd hs => step1Const_inv FN W0 s d hd hs) ds s hst h
  | wires ds =>
    exact fold_inv (S1Inv FN W0) (step1Wire FN) (fun d => d.width.ok)
      (fun s d hd hs => step1Wire_inv FN W0 s d hd hs) ds s hst h
  | assigns as =>
    apply fold_inv (S1Inv FN W0) (step1Assign FO) (fun a => wfEx a.value = true) _ as s hst h
    intro s a ha hs
    exact fold_inv (S1Inv FN W0) (step1Name FO a.value) (fun _ => True)
      (fun s n _ hs => step1Name_inv FN FO W0 a.value ha s n hs) a.names s (fun _ _ => trivial) hs
  | bank b =>
    refine ⟨?_, fun he => he⟩
    exact { h with
      banks := by
        intro b' hb' r hr
        have hb'' : b' ∈ s.banksRaw ++ [b] := hb'
        rcases List.mem_append.mp hb'' with h1 | h1
        · exact h.banks b' h1 r hr
        · simp at h1; subst h1; exact hst r hr }

theorem step1_fold_inv (stmts : List Stmt) (s : Step1) (hwf : StmtsWF stmts) (h : S1Inv FN W0 s) :
    S1Inv FN W0 (stmts.foldl (step1Stmt FN FO) s) ∧ ((stmts.foldl (step1Stmt FN FO) s).errors = [] → s.errors = []) :=
  fold_inv (S1Inv FN W0) (step1Stmt FN FO) declOK (fun s st hst hs => step1Stmt_inv FN FO W0 s st hst hs) stmts s hwf h
end
