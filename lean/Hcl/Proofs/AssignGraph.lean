import Hcl.Proofs.GBuild
import Hcl.Proofs.AMapLemmas

/-! The dependency graphs `assignments_to_actions` and `resolve_constants` build are well-formed:
    no edge is inserted twice, because each target is visited once and its sources are de-duplicated. -/

/-- the inner loop: one edge `s → target` per source not already known -/
def addDeps (known : List String) (target : String) (srcs : List String) (g : GBuild) : GBuild :=
  srcs.foldl (fun g s => if known.contains s then g else g.insert s target) g

theorem GBuild.nodes_insert_mono (g : GBuild) (a b n : Node) (h : n ∈ g.nodes) : n ∈ (g.insert a b).nodes := by
  show n ∈ setInsert (setInsert g.nodes a) b
  rw [mem_setInsert, mem_setInsert]; exact Or.inl (Or.inl h)

theorem GBuild.mem_edges_insert (g : GBuild) (a b : Node) (e : Node × Node) :
    e ∈ (g.insert a b).edges ↔ e ∈ g.edges ∨ e = (a, b) := by
  show e ∈ g.edges ++ [(a, b)] ↔ _
  simp

theorem addDeps_spec (known : List String) (target : String) : ∀ (srcs : List String) (g : GBuild),
    g.WF → srcs.Nodup → (∀ s ∈ srcs, (s, target) ∉ g.edges) →
    (addDeps known target srcs g).WF ∧ (∀ n ∈ g.nodes, n ∈ (addDeps known target srcs g).nodes) ∧
    (∀ e, e ∈ (addDeps known target srcs g).edges ↔
      e ∈ g.edges ∨ (e.2 = target ∧ e.1 ∈ srcs ∧ known.contains e.1 = false))
  | [], g, wf, _, _ => ⟨wf, fun _ h => h, by intro e; simp [addDeps]⟩
  | s :: rest, g, wf, hnd, hnew => by
    rw [List.nodup_cons] at hnd
    unfold addDeps
    simp only [List.foldl_cons]
    by_cases hk : known.contains s = true
    · simp only [hk, if_true]
      obtain ⟨h1, h2, h3⟩ := addDeps_spec known target rest g wf hnd.2 (fun x hx => hnew x (List.mem_cons_of_mem _ hx))
      refine ⟨h1, h2, ?_⟩
      intro e
      rw [show (List.foldl (fun g s => if known.contains s = true then g else g.insert s target) g rest) = addDeps known target rest g from rfl, h3]
      constructor
      · rintro (h | ⟨ha, hb, hc⟩)
        · exact Or.inl h
        · exact Or.inr ⟨ha, List.mem_cons_of_mem _ hb, hc⟩
      · rintro (h | ⟨ha, hb, hc⟩)
        · exact Or.inl h
        · rcases List.mem_cons.mp hb with hb | hb
          · rw [hb, hk] at hc; simp at hc
          · exact Or.inr ⟨ha, hb, hc⟩
    · have hk' : known.contains s = false := by simpa using hk
      simp only [hk', Bool.false_eq_true, if_false]
      have wf' : (g.insert s target).WF := g.wf_insert s target wf (hnew s List.mem_cons_self)
      have hnew' : ∀ x ∈ rest, (x, target) ∉ (g.insert s target).edges := by
        intro x hx hm
        rcases (g.mem_edges_insert s target _).mp hm with h | h
        · exact hnew x (List.mem_cons_of_mem _ hx) h
        · have : x = s := by cases h; rfl
          subst this; exact hnd.1 hx
      obtain ⟨h1, h2, h3⟩ := addDeps_spec known target rest (g.insert s target) wf' hnd.2 hnew'
      refine ⟨h1, fun n hn => h2 n (g.nodes_insert_mono s target n hn), ?_⟩
      intro e
      rw [show (List.foldl (fun g s => if known.contains s = true then g else g.insert s target) (g.insert s target) rest) =
        addDeps known target rest (g.insert s target) from rfl, h3, g.mem_edges_insert]
      constructor
      · rintro ((h | h) | ⟨ha, hb, hc⟩)
        · exact Or.inl h
        · subst h; exact Or.inr ⟨rfl, List.mem_cons_self, hk'⟩
        · exact Or.inr ⟨ha, List.mem_cons_of_mem _ hb, hc⟩
      · rintro (h | ⟨ha, hb, hc⟩)
        · exact Or.inl (Or.inl h)
        · rcases List.mem_cons.mp hb with hb | hb
          · left; right; exact Prod.ext hb ha
          · exact Or.inr ⟨ha, hb, hc⟩

/-- the graph of `assignments_to_actions` before the built-in components are added, over a prefix of the assignments -/
def assignGraphFrom (known : List String) (l : List (String × Ex)) (g : GBuild) : GBuild :=
  l.foldl (fun g (p : String × Ex) => addDeps known p.1 (dedupS (refs p.2)) (g.addNode p.1)) g

theorem assignGraph_eq (assignments : AMap Ex) (known : List String) :
    assignGraph assignments known = assignGraphFrom known assignments {} := rfl

theorem assignGraphFrom_spec (known : List String) : ∀ (l : List (String × Ex)) (g : GBuild),
    g.WF → (l.map (·.1)).Nodup → (∀ p ∈ l, ∀ e ∈ g.edges, e.2 ≠ p.1) →
    (assignGraphFrom known l g).WF ∧ (∀ n ∈ g.nodes, n ∈ (assignGraphFrom known l g).nodes) ∧
    (∀ p ∈ l, p.1 ∈ (assignGraphFrom known l g).nodes) ∧
    (∀ e, e ∈ (assignGraphFrom known l g).edges ↔
      e ∈ g.edges ∨ ∃ p ∈ l, e.2 = p.1 ∧ e.1 ∈ refs p.2 ∧ known.contains e.1 = false)
  | [], g, wf, _, _ => ⟨wf, fun _ h => h, by simp, by intro e; simp [assignGraphFrom]⟩
  | p :: rest, g, wf, hnd, hfresh => by
    simp only [List.map_cons, List.nodup_cons] at hnd
    have wf1 : (g.addNode p.1).WF := g.wf_addNode p.1 wf
    have hnew : ∀ s ∈ dedupS (refs p.2), (s, p.1) ∉ (g.addNode p.1).edges := by
      intro s _ hm
      exact hfresh p List.mem_cons_self (s, p.1) hm rfl
    obtain ⟨a1, a2, a3⟩ := addDeps_spec known p.1 (dedupS (refs p.2)) (g.addNode p.1) wf1 (nodup_dedupS _) hnew
    have hfresh' : ∀ q ∈ rest, ∀ e ∈ (addDeps known p.1 (dedupS (refs p.2)) (g.addNode p.1)).edges, e.2 ≠ q.1 := by
      intro q hq e he
      rcases (a3 e).mp he with h | ⟨h, _, _⟩
      · exact hfresh q (List.mem_cons_of_mem _ hq) e h
      · rw [h]; intro e2
        exact hnd.1 (List.mem_map.mpr ⟨q, hq, e2.symm⟩)
    obtain ⟨b1, b2, b3, b4⟩ := assignGraphFrom_spec known rest _ a1 hnd.2 hfresh'
    have hstep : assignGraphFrom known (p :: rest) g =
        assignGraphFrom known rest (addDeps known p.1 (dedupS (refs p.2)) (g.addNode p.1)) := rfl
    rw [hstep]
    have hp1 : p.1 ∈ (g.addNode p.1).nodes := (mem_setInsert _ _ _).mpr (Or.inr rfl)
    refine ⟨b1, ?_, ?_, ?_⟩
    · intro n hn
      exact b2 n (a2 n ((mem_setInsert _ _ _).mpr (Or.inl hn)))
    · intro q hq
      rcases List.mem_cons.mp hq with h | h
      · subst h; exact b2 _ (a2 _ hp1)
      · exact b3 q h
    · intro e
      rw [b4, a3]
      constructor
      · rintro ((h | ⟨h1, h2, h3⟩) | ⟨q, hq, h1, h2, h3⟩)
        · exact Or.inl h
        · exact Or.inr ⟨p, List.mem_cons_self, h1, (mem_dedupS _ _).mp h2, h3⟩
        · exact Or.inr ⟨q, List.mem_cons_of_mem _ hq, h1, h2, h3⟩
      · rintro (h | ⟨q, hq, h1, h2, h3⟩)
        · exact Or.inl (Or.inl h)
        · rcases List.mem_cons.mp hq with h | h
          · subst h; exact Or.inl (Or.inr ⟨h1, (mem_dedupS _ _).mpr h2, h3⟩)
          · exact Or.inr ⟨q, h, h1, h2, h3⟩

/-- **the assignment graph**: well-formed, every assigned name is a node, and its edges are exactly
    "`u` is read by the definition of `v` and is not already known" -/
theorem assignGraph_spec (assignments : AMap Ex) (known : List String) (hk : assignments.keys.Nodup) :
    (assignGraph assignments known).WF ∧ (∀ k ∈ assignments.keys, k ∈ (assignGraph assignments known).nodes) ∧
    (∀ u v, (u, v) ∈ (assignGraph assignments known).edges ↔
      ∃ e, (v, e) ∈ assignments ∧ u ∈ refs e ∧ known.contains u = false) := by
  rw [assignGraph_eq]
  obtain ⟨h1, _, h3, h4⟩ := assignGraphFrom_spec known assignments {} GBuild.wf_empty hk (by intro p _ e he; simp at he)
  refine ⟨h1, ?_, ?_⟩
  · intro k hk'
    obtain ⟨p, hp, rfl⟩ := List.mem_map.mp hk'
    exact h3 p hp
  · intro u v
    rw [h4]
    constructor
    · rintro (h | ⟨p, hp, h1, h2, h3⟩)
      · simp at h
      · exact ⟨p.2, by simp only at h1; rw [h1]; exact hp, h2, h3⟩
    · rintro ⟨e, he, h2, h3⟩
      exact Or.inr ⟨(v, e), he, rfl, h2, h3⟩
