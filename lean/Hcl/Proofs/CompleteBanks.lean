import Hcl.Proofs.Stage3
import Hcl.Proofs.DefaultsRule
import Hcl.Proofs.Accepted
import Hcl.Proofs.ConstDeterminism
import Hcl.Proofs.GBuild
open Rust

/-! Step 3 of `Program::new` (register banks): the exact conditions under which no diagnostic is recorded.
    `Stage3.lean`/`DefaultsRule.lean` show what a clean run establishes; here the conditions are stated on the
    declarations alone (no fold state) and shown to be equivalent to `errors = []`. -/

/-- the in/out signal names of register `r` of a bank whose name is the two characters `[i, o]` -/
def regInName (i : Char) (r : RegDecl) : String := String.ofList [i, '_'] ++ r.name
def regOutName (o : Char) (r : RegDecl) : String := String.ofList [o, '_'] ++ r.name

/-- what step 3 demands of one register -/
structure RegDeclOK (fl : Flags) (s1 : Step1) (constants : AMap WireValue) (i o : Char) (r : RegDecl) : Prop where
  /-- the default reads no wire that is not a constant -/
  readsConsts : ∀ n ∈ refs r.default, ¬ (s1.wires.contains n = true ∧ constants.contains n = false)
  /-- neither signal name was declared by the user -/
  notDeclared : regInName i r ∉ s1.declared ∧ regOutName o r ∉ s1.declared
  /-- the output signal is not assigned -/
  outNotAssigned : s1.assignments.contains (regOutName o r) = false
  /-- the default passes the width checker over the constants, evaluates, and its width agrees with the register's -/
  defaultOK : ∃ v, checkFixEval fl (wOf constants).toCtx constants.toEnv r.default = .ok v ∧
    (v.width.combine r.width).isSome = true

/-- what step 3 demands of one bank -/
structure BankDeclOK (fl : Flags) (cls : CharClass) (s1 : Step1) (constants : AMap WireValue) (b : BankDecl) : Prop where
  ok : ∃ i o, b.name.toList = [i, o] ∧ cls.isLower i = true ∧ cls.isUpper o = true ∧
    ("stall_" ++ String.ofList [o]) ∉ s1.declared ∧ ("bubble_" ++ String.ofList [o]) ∉ s1.declared ∧
    ∀ r ∈ b.regs, RegDeclOK fl s1 constants i o r

/-- the signal names of a list of registers under the prefixes `i`, `o`: out then in, register by register -/
def regNames (i o : Char) (regs : List RegDecl) : List String := regs.flatMap fun r => [regOutName o r, regInName i r]

/-- the register signal names of one bank (none when the bank's name is not two characters) -/
def bankRegNames (b : BankDecl) : List String :=
  match b.name.toList with
  | [i, o] => regNames i o b.regs
  | _ => []

/-- all register signal names, in the order step 3 meets them (out then in, register by register, bank by bank) -/
def allRegNames (banks : List BankDecl) : List String := banks.flatMap bankRegNames

/-! ### small facts -/

theorem ite_diag_nil (c : Bool) (d : Diag) : (if c = true then [d] else ([] : List Diag)) = [] ↔ c = false := by
  cases c <;> simp

section
variable (fl : Flags) (cls : CharClass) (s1 : Step1) (constants : AMap WireValue)

/-! ### one register -/

/-- the checks made before the default is evaluated record nothing exactly when the default reads only constants (or
    unknown names), the two names are neither declared, assigned (out) nor seen before, and the out name is not yet a key
    of the bank's defaults -/
theorem regPre_nil_iff (bank inName outName : String) (acc : BankAcc) (seen : List String) (r : RegDecl) :
    (regPre s1 constants bank inName outName acc seen r).1 = [] ↔
      ((∀ n ∈ refs r.default, ¬ (s1.wires.contains n = true ∧ constants.contains n = false)) ∧
       inName ∉ s1.declared ∧ outName ∉ s1.declared ∧ acc.defaults.contains outName = false ∧
       s1.assignments.contains outName = false ∧ outName ∉ seen ∧ inName ∉ seen ∧ inName ≠ outName) := by
  constructor
  · intro h
    obtain ⟨h1, h2, h3, h4, h5, h6, _, h8⟩ := regPre_clean s1 constants bank inName outName acc seen r h
    refine ⟨?_, h1, h2, h3, h8, h4, h5, h6⟩
    unfold regPre at h
    simp only [List.append_eq_nil_iff] at h
    have he1 := h.1.1.1.1.1
    intro n hn hbad
    rw [List.flatMap_eq_nil_iff] at he1
    have := he1 n ((mem_dedupS _ _).mpr hn)
    rw [if_pos (by simp [hbad.1, hbad.2])] at this
    have hc : occurrences r.default n = 0 := by
      cases ho : occurrences r.default n with
      | zero => rfl
      | succ k => rw [ho] at this; simp [List.replicate] at this
    unfold occurrences at hc
    exact (List.count_eq_zero.mp hc) hn
  · rintro ⟨h1, h2, h3, h4, h5, h6, h7, h8⟩
    unfold regPre
    simp only [List.append_eq_nil_iff]
    have hs : seen.contains outName = false := by simpa using h6
    have hs2 : (seen ++ [outName]).contains inName = false := by simp [h7, h8]
    refine ⟨⟨⟨⟨⟨?_, ?_⟩, ?_⟩, ?_⟩, ?_⟩, ?_⟩
    · rw [List.flatMap_eq_nil_iff]
      intro n hn
      have hn' := (mem_dedupS _ _).mp hn
      have := h1 n hn'
      rw [if_neg]
      intro hc
      simp only [Bool.and_eq_true, Bool.not_eq_true'] at hc
      exact this hc
    · have a : s1.declared.contains inName = false := by simpa using h2
      have b : s1.declared.contains outName = false := by simpa using h3
      simp only [List.flatMap_cons, List.flatMap_nil, a, b, Bool.false_eq_true, if_false, List.append_nil]
    · simp [h4]
    · simp [h5]
    · simp only [hs, Bool.false_eq_true, if_false]
    · simp only [hs, Bool.false_eq_true, if_false, hs2]
end

section
variable (fl : Flags) (cls : CharClass) (s1 : Step1) (constants : AMap WireValue)

/-- evaluating the default records nothing exactly when it checks, evaluates and has a compatible width -/
theorem regEval_nil_iff (bank inName outName : String) (s : Step3) (acc : BankAcc) (r : RegDecl)
    (hs : s.errors = []) (hr : r.width.ok) :
    (regEval fl constants bank inName outName s acc r).1.errors = [] ↔
      ∃ v, checkFixEval fl (wOf constants).toCtx constants.toEnv r.default = .ok v ∧
        (v.width.combine r.width).isSome = true := by
  unfold regEval wOf
  simp only
  cases hcf : checkFixEval fl (AMap.toCtx (constants.map (fun p => (p.1, p.2.width)))) constants.toEnv r.default with
  | error ds =>
    simp only [List.append_eq_nil_iff]
    constructor
    · intro h; exact absurd h.2 (checkFixEval_err fl _ _ _ _ hcf)
    · rintro ⟨v, hv, _⟩; cases hv
  | ok value =>
    simp only [asWidth_ok value r.width hr, hs, List.nil_append]
    cases hc : value.width.combine r.width with
    | none =>
      constructor
      · intro h; simp at h
      · rintro ⟨v, hv, hi⟩
        simp only [Except.ok.injEq] at hv
        subst hv
        rw [hc] at hi; cases hi
    | some w =>
      constructor
      · intro _; exact ⟨value, rfl, by rw [hc]; rfl⟩
      · intro _; rfl

/-- the state of the registers' loop after a register for which nothing was recorded -/
theorem step3Register_after (bank : String) (inP outP : Char) (s : Step3) (acc : BankAcc) (r : RegDecl)
    (hr : r.width.ok)
    (hclean : (step3Register fl s1 constants bank inP outP (s, acc) r).1.errors = []) :
    (step3Register fl s1 constants bank inP outP (s, acc) r).1.seenRegisters =
        s.seenRegisters ++ [regOutName outP r, regInName inP r] ∧
    ∀ k, (step3Register fl s1 constants bank inP outP (s, acc) r).2.defaults.contains k = true →
        acc.defaults.contains k = true ∨ k = regOutName outP r := by
  unfold step3Register at hclean ⊢
  simp only at hclean ⊢
  unfold regOutName regInName
  generalize String.ofList [inP, '_'] ++ r.name = inName at hclean ⊢
  generalize String.ofList [outP, '_'] ++ r.name = outName at hclean ⊢
  generalize hpre : regPre s1 constants bank inName outName acc s.seenRegisters r = pre at hclean ⊢
  by_cases hpe : pre.1.isEmpty = true
  · have hpnil : pre.1 = [] := by simpa using hpe
    simp only [hpe, Bool.not_true, Bool.false_eq_true, if_false] at hclean ⊢
    obtain ⟨_, _, _, _, _, _, h7, _⟩ := regPre_clean s1 constants bank inName outName acc s.seenRegisters r (by rw [hpre]; exact hpnil)
    rw [hpre] at h7
    obtain ⟨_, dv, _, _, g3, _, g5⟩ := regEval_inv fl constants bank inName outName _ acc r hr hclean
    rw [g5, g3]
    simp only
    refine ⟨by rw [h7]; simp, ?_⟩
    intro k hk
    rw [AMap.contains_insert] at hk
    simp only [Bool.or_eq_true, beq_iff_eq] at hk
    rcases hk with hk | hk
    · exact Or.inl hk
    · exact Or.inr hk
  · exfalso
    simp only [hpe] at hclean
    simp only [Bool.not_false, if_true, List.append_eq_nil_iff] at hclean
    exact hpe (by simp [hclean.2])

/-- one register: starting without errors, nothing is recorded exactly when the register is in order, its names are new
    and its output name is not yet a key of the bank's defaults -/
theorem step3Register_nil_iff (bank : String) (inP outP : Char) (s : Step3) (acc : BankAcc) (r : RegDecl)
    (hs : s.errors = []) (hr : r.width.ok) :
    (step3Register fl s1 constants bank inP outP (s, acc) r).1.errors = [] ↔
      (RegDeclOK fl s1 constants inP outP r ∧ acc.defaults.contains (regOutName outP r) = false ∧
        regOutName outP r ∉ s.seenRegisters ∧ regInName inP r ∉ s.seenRegisters ∧ regInName inP r ≠ regOutName outP r) := by
  have hpi := regPre_nil_iff s1 constants bank (regInName inP r) (regOutName outP r) acc s.seenRegisters r
  unfold step3Register
  simp only
  unfold regOutName regInName at hpi ⊢
  generalize hin : String.ofList [inP, '_'] ++ r.name = inName at hpi ⊢
  generalize hout : String.ofList [outP, '_'] ++ r.name = outName at hpi ⊢
  have hin' : regInName inP r = inName := hin
  have hout' : regOutName outP r = outName := hout
  generalize hpre : regPre s1 constants bank inName outName acc s.seenRegisters r = pre at hpi ⊢
  by_cases hpe : pre.1.isEmpty = true
  · have hpnil : pre.1 = [] := by simpa using hpe
    simp only [hpe, Bool.not_true, Bool.false_eq_true, if_false]
    rw [regEval_nil_iff fl constants bank inName outName _ acc r (by simp [hs, hpnil]) hr]
    obtain ⟨h1, h2, h3, h4, h5, h6, h7, h8⟩ := hpi.mp hpnil
    constructor
    · intro hd
      exact ⟨⟨h1, ⟨by rw [hin']; exact h2, by rw [hout']; exact h3⟩, by rw [hout']; exact h5, hd⟩, h4, h6, h7, h8⟩
    · intro h; exact h.1.defaultOK
  · have hpne : pre.1 ≠ [] := by simpa using hpe
    simp only [hpe, Bool.not_false, if_true]
    constructor
    · intro h
      simp only [List.append_eq_nil_iff] at h
      exact absurd h.2 hpne
    · rintro ⟨hok, h4, h6, h7, h8⟩
      have hnd := hok.notDeclared
      have hna := hok.outNotAssigned
      rw [hin', hout'] at hnd
      rw [hout'] at hna
      exact absurd (hpi.mpr ⟨hok.readsConsts, hnd.1, hnd.2, h4, hna, h6, h7, h8⟩) hpne
end

/-! ### the registers of one bank -/

theorem nodup_append_two_elim (l : List String) (a b : String) (rest : List String)
    (h : (l ++ (a :: b :: rest)).Nodup) : a ∉ l ∧ b ∉ l ∧ b ≠ a := by
  rw [List.nodup_append] at h
  obtain ⟨_, h2, h3⟩ := h
  refine ⟨fun ha => h3 a ha a (by simp) rfl, fun hb => h3 b hb b (by simp) rfl, ?_⟩
  intro e
  subst e
  simp at h2

theorem nodup_append_two_intro (l : List String) (a b : String)
    (h : l.Nodup) (ha : a ∉ l) (hb : b ∉ l) (hab : b ≠ a) : (l ++ [a, b]).Nodup := by
  rw [List.nodup_append]
  refine ⟨h, by simp; exact fun e => hab e.symm, ?_⟩
  intro x hx y hy e
  subst e
  simp at hy
  rcases hy with rfl | rfl
  · exact ha hx
  · exact hb hx

theorem nodup_append_prefix (l m n : List String) (h : (l ++ (m ++ n)).Nodup) : (l ++ m).Nodup := by
  rw [← List.append_assoc] at h
  exact (List.nodup_append.mp h).1

section
variable (fl : Flags) (cls : CharClass) (s1 : Step1) (constants : AMap WireValue)

theorem regNames_cons (i o : Char) (r : RegDecl) (rest : List RegDecl) :
    regNames i o (r :: rest) = [regOutName o r, regInName i r] ++ regNames i o rest := by
  simp [regNames]

/-- the loop over the registers of a bank: started without errors, with distinct names seen so far that include the keys
    of the defaults recorded so far, it records nothing exactly when every register is in order and the names stay distinct -/
theorem regs_fold_nil_iff (bank : String) (inP outP : Char) : ∀ (regs : List RegDecl) (s : Step3) (acc : BankAcc),
    (∀ r ∈ regs, r.width.ok) → s.errors = [] → s.seenRegisters.Nodup →
    (∀ k, acc.defaults.contains k = true → k ∈ s.seenRegisters) →
    ((regs.foldl (step3Register fl s1 constants bank inP outP) (s, acc)).1.errors = [] ↔
      ((∀ r ∈ regs, RegDeclOK fl s1 constants inP outP r) ∧ (s.seenRegisters ++ regNames inP outP regs).Nodup)) ∧
    ((regs.foldl (step3Register fl s1 constants bank inP outP) (s, acc)).1.errors = [] →
      (regs.foldl (step3Register fl s1 constants bank inP outP) (s, acc)).1.seenRegisters =
        s.seenRegisters ++ regNames inP outP regs)
  | [], s, acc, _, hs, hn, _ => by
    have e : s.seenRegisters ++ regNames inP outP [] = s.seenRegisters := by simp [regNames]
    rw [e]
    exact ⟨⟨fun _ => ⟨(by intro r hr; cases hr), hn⟩, fun _ => hs⟩, fun _ => rfl⟩
  | r :: rest, s, acc, hw, hs, hn, hk => by
    simp only [List.foldl_cons]
    rw [regNames_cons]
    have hiff := step3Register_nil_iff fl s1 constants bank inP outP s acc r hs (hw r List.mem_cons_self)
    by_cases hc : (step3Register fl s1 constants bank inP outP (s, acc) r).1.errors = []
    · obtain ⟨hok, _, h6, h7, h8⟩ := hiff.mp hc
      obtain ⟨hseen, hkeys⟩ := step3Register_after fl s1 constants bank inP outP s acc r (hw r List.mem_cons_self) hc
      generalize step3Register fl s1 constants bank inP outP (s, acc) r = st' at hc hseen hkeys ⊢
      obtain ⟨s', acc'⟩ := st'
      simp only at hc hseen hkeys
      have hn' : s'.seenRegisters.Nodup := by
        rw [hseen]; exact nodup_append_two_intro _ _ _ hn h6 h7 h8
      have hk' : ∀ k, acc'.defaults.contains k = true → k ∈ s'.seenRegisters := by
        intro k hkk
        rw [hseen]
        rcases hkeys k hkk with h | h
        · exact List.mem_append_left _ (hk k h)
        · subst h; simp
      obtain ⟨ih1, ih2⟩ := regs_fold_nil_iff bank inP outP rest s' acc'
        (fun x hx => hw x (List.mem_cons_of_mem _ hx)) hc hn' hk'
      rw [hseen, List.append_assoc] at ih1 ih2
      refine ⟨?_, ih2⟩
      rw [ih1]
      constructor
      · rintro ⟨a, b⟩
        refine ⟨?_, b⟩
        intro x hx
        rcases List.mem_cons.mp hx with rfl | hx
        · exact hok
        · exact a x hx
      · rintro ⟨a, b⟩
        exact ⟨fun x hx => a x (List.mem_cons_of_mem _ hx), b⟩
    · have hnot : ¬ ((rest.foldl (step3Register fl s1 constants bank inP outP)
          (step3Register fl s1 constants bank inP outP (s, acc) r)).1.errors = []) :=
        fun h => hc (regs_fold_errors_back fl s1 constants bank inP outP rest _ h)
      refine ⟨⟨fun h => absurd h hnot, ?_⟩, fun h => absurd h hnot⟩
      rintro ⟨a, b⟩
      exfalso
      obtain ⟨h6, h7, h8⟩ := nodup_append_two_elim _ _ _ _ b
      apply hc
      refine hiff.mpr ⟨a r List.mem_cons_self, ?_, h6, h7, h8⟩
      cases hd : acc.defaults.contains (regOutName outP r) with
      | false => rfl
      | true => exact absurd (hk _ hd) h6
end

/-! ### one bank -/

section
variable (fl : Flags) (cls : CharClass) (s1 : Step1) (constants : AMap WireValue)

/-- the diagnostics for declared control signals of a bank -/
def ctlDiags (s1 : Step1) (outP : Char) : List Diag :=
  ["stall_" ++ String.ofList [outP], "bubble_" ++ String.ofList [outP]].flatMap fun n =>
    if s1.declared.contains n then [(⟨.RedeclaredWire, [n]⟩ : Diag)] else []

theorem ctlDiags_nil_iff (outP : Char) :
    ctlDiags s1 outP = [] ↔
      ("stall_" ++ String.ofList [outP]) ∉ s1.declared ∧ ("bubble_" ++ String.ofList [outP]) ∉ s1.declared := by
  unfold ctlDiags
  simp only [List.flatMap_cons, List.flatMap_nil, List.append_nil, List.append_eq_nil_iff, ite_diag_nil]
  simp

/-- a bank with a well-formed name: its diagnostics and names seen are those of the loop over its registers, started
    from a state that differs from the given one in the diagnostics for the control signals -/
theorem step3Bank_good (s : Step3) (b : BankDecl) (inP outP : Char) (hname : b.name.toList = [inP, outP])
    (hl : cls.isLower inP = true) (hu : cls.isUpper outP = true) :
    ∃ s0 : Step3,
      (step3Bank fl cls s1 constants s b).errors =
        (b.regs.foldl (step3Register fl s1 constants b.name inP outP) (s0, {})).1.errors ∧
      (step3Bank fl cls s1 constants s b).seenRegisters =
        (b.regs.foldl (step3Register fl s1 constants b.name inP outP) (s0, {})).1.seenRegisters ∧
      s0.errors = s.errors ++ ctlDiags s1 outP ∧ s0.seenRegisters = s.seenRegisters := by
  unfold step3Bank
  simp only [hname, hl, hu, Bool.not_true, Bool.or_self, Bool.false_eq_true, if_false]
  exact ⟨_, rfl, rfl, rfl, rfl⟩
end

section
variable (fl : Flags) (cls : CharClass) (s1 : Step1) (constants : AMap WireValue)

theorem step3Bank_bad_shape (s : Step3) (b : BankDecl) (h : ∀ i o, b.name.toList ≠ [i, o]) :
    (step3Bank fl cls s1 constants s b).errors ≠ [] := by
  unfold step3Bank
  split
  · rename_i i o heq; exact absurd heq (h i o)
  · simp

theorem step3Bank_bad_case (s : Step3) (b : BankDecl) (inP outP : Char) (hname : b.name.toList = [inP, outP])
    (h : ¬ (cls.isLower inP = true ∧ cls.isUpper outP = true)) :
    (step3Bank fl cls s1 constants s b).errors ≠ [] := by
  unfold step3Bank
  simp only [hname]
  rw [if_pos]
  · simp
  · cases h1 : cls.isLower inP <;> cases h2 : cls.isUpper outP <;> simp_all

theorem bankRegNames_of_name (b : BankDecl) (i o : Char) (h : b.name.toList = [i, o]) :
    bankRegNames b = regNames i o b.regs := by
  unfold bankRegNames
  simp only [h]

/-- one bank: started without errors and with distinct names seen so far, nothing is recorded exactly when the bank is
    in order and the names stay distinct -/
theorem step3Bank_nil_iff (s : Step3) (b : BankDecl) (hw : ∀ r ∈ b.regs, r.width.ok)
    (hs : s.errors = []) (hn : s.seenRegisters.Nodup) :
    ((step3Bank fl cls s1 constants s b).errors = [] ↔
      (BankDeclOK fl cls s1 constants b ∧ (s.seenRegisters ++ bankRegNames b).Nodup)) ∧
    ((step3Bank fl cls s1 constants s b).errors = [] →
      (step3Bank fl cls s1 constants s b).seenRegisters = s.seenRegisters ++ bankRegNames b) := by
  by_cases hshape : ∃ i o, b.name.toList = [i, o]
  · obtain ⟨inP, outP, hname⟩ := hshape
    by_cases hcase : cls.isLower inP = true ∧ cls.isUpper outP = true
    · obtain ⟨s0, e1, e2, e3, e4⟩ := step3Bank_good fl cls s1 constants s b inP outP hname hcase.1 hcase.2
      rw [e1, e2, bankRegNames_of_name b inP outP hname]
      rw [hs, List.nil_append] at e3
      by_cases hctl : ctlDiags s1 outP = []
      · have hctl' := (ctlDiags_nil_iff s1 outP).mp hctl
        obtain ⟨g1, g2⟩ := regs_fold_nil_iff fl s1 constants b.name inP outP b.regs s0 {} hw (by rw [e3]; exact hctl)
          (by rw [e4]; exact hn) (by intro k hk; simp [AMap.contains] at hk)
        rw [e4] at g1 g2
        refine ⟨?_, g2⟩
        rw [g1]
        constructor
        · rintro ⟨a, c⟩
          exact ⟨⟨inP, outP, hname, hcase.1, hcase.2, hctl'.1, hctl'.2, a⟩, c⟩
        · rintro ⟨⟨i, o, hname', _, _, _, _, a⟩, c⟩
          rw [hname] at hname'
          simp only [List.cons.injEq, and_true] at hname'
          obtain ⟨rfl, rfl⟩ := hname'
          exact ⟨a, c⟩
      · have hnot : ¬ ((b.regs.foldl (step3Register fl s1 constants b.name inP outP) (s0, {})).1.errors = []) := by
          intro h
          have := regs_fold_errors_back fl s1 constants b.name inP outP b.regs (s0, {}) h
          exact hctl (by rw [← e3]; exact this)
        refine ⟨⟨fun h => absurd h hnot, ?_⟩, fun h => absurd h hnot⟩
        rintro ⟨⟨i, o, hname', _, _, c1, c2, _⟩, _⟩
        rw [hname] at hname'
        simp only [List.cons.injEq, and_true] at hname'
        obtain ⟨rfl, rfl⟩ := hname'
        exact absurd ((ctlDiags_nil_iff s1 _).mpr ⟨c1, c2⟩) hctl
    · have hnot := step3Bank_bad_case fl cls s1 constants s b inP outP hname hcase
      refine ⟨⟨fun h => absurd h hnot, ?_⟩, fun h => absurd h hnot⟩
      rintro ⟨⟨i, o, hname', c1, c2, _⟩, _⟩
      rw [hname] at hname'
      simp only [List.cons.injEq, and_true] at hname'
      obtain ⟨rfl, rfl⟩ := hname'
      exact absurd ⟨c1, c2⟩ hcase
  · have hnot := step3Bank_bad_shape fl cls s1 constants s b (fun i o h => hshape ⟨i, o, h⟩)
    refine ⟨⟨fun h => absurd h hnot, ?_⟩, fun h => absurd h hnot⟩
    rintro ⟨⟨i, o, hname', _⟩, _⟩
    exact absurd ⟨i, o, hname'⟩ hshape

/-! ### all banks -/

theorem allRegNames_cons (b : BankDecl) (rest : List BankDecl) :
    allRegNames (b :: rest) = bankRegNames b ++ allRegNames rest := by
  simp [allRegNames]

theorem banks_fold_nil_iff : ∀ (banks : List BankDecl) (s : Step3),
    (∀ b ∈ banks, ∀ r ∈ b.regs, r.width.ok) → s.errors = [] → s.seenRegisters.Nodup →
    ((banks.foldl (step3Bank fl cls s1 constants) s).errors = [] ↔
      ((∀ b ∈ banks, BankDeclOK fl cls s1 constants b) ∧ (s.seenRegisters ++ allRegNames banks).Nodup))
  | [], s, _, hs, hn => by
    have e : s.seenRegisters ++ allRegNames [] = s.seenRegisters := by simp [allRegNames]
    rw [e]
    exact ⟨fun _ => ⟨(by intro b hb; cases hb), hn⟩, fun _ => hs⟩
  | b :: rest, s, hw, hs, hn => by
    simp only [List.foldl_cons]
    rw [allRegNames_cons]
    obtain ⟨hiff, hseen⟩ := step3Bank_nil_iff fl cls s1 constants s b (hw b List.mem_cons_self) hs hn
    by_cases hc : (step3Bank fl cls s1 constants s b).errors = []
    · obtain ⟨hok, hn'⟩ := hiff.mp hc
      have hseen' := hseen hc
      have ih := banks_fold_nil_iff rest (step3Bank fl cls s1 constants s b)
        (fun x hx => hw x (List.mem_cons_of_mem _ hx)) hc (by rw [hseen']; exact hn')
      rw [hseen', List.append_assoc] at ih
      rw [ih]
      constructor
      · rintro ⟨a, c⟩
        refine ⟨?_, c⟩
        intro x hx
        rcases List.mem_cons.mp hx with rfl | hx
        · exact hok
        · exact a x hx
      · rintro ⟨a, c⟩
        exact ⟨fun x hx => a x (List.mem_cons_of_mem _ hx), c⟩
    · have hnot : ¬ ((rest.foldl (step3Bank fl cls s1 constants) (step3Bank fl cls s1 constants s b)).errors = []) :=
        fun h => hc (banks_fold_errors_back fl cls s1 constants rest _ h)
      refine ⟨fun h => absurd h hnot, ?_⟩
      rintro ⟨a, c⟩
      exact absurd (hiff.mpr ⟨a b List.mem_cons_self, nodup_append_prefix _ _ _ c⟩) hc
end

/-- **step 3, exactly**: no diagnostic is recorded for the register banks if and only if every bank is in order
    (`BankDeclOK`: a name of one lower-case and one upper-case character, control signals not declared, every register in
    order) and all register signal names are distinct -/
theorem step3Of_errors_nil_iff (fl : Flags) (cls : CharClass) (s1 : Step1) (constants : AMap WireValue)
    (hw : ∀ b ∈ s1.banksRaw, ∀ r ∈ b.regs, r.width.ok) :
    (step3Of fl cls s1 constants).errors = [] ↔
      ((∀ b ∈ s1.banksRaw, BankDeclOK fl cls s1 constants b) ∧ (allRegNames s1.banksRaw).Nodup) := by
  unfold step3Of
  have := banks_fold_nil_iff fl cls s1 constants s1.banksRaw { wireTypes := s1.wireTypes } hw rfl (by simp)
  simpa using this

/-! ### step 4 -/

theorem unset_nil_iff (s1 : Step1) (s3 : Step3) (needed : List String) :
    (needed.flatMap fun n =>
      if s1.assignments.contains n then ([] : List Diag) else
      if s1.declared.contains n then [⟨.UnsetWire, [n]⟩]
      else if s3.registerIns.contains n then [⟨.UnsetRegisterInputWire, [n]⟩]
      else [⟨.UnsetBuiltinWire, [n]⟩]) = [] ↔ ∀ n ∈ needed, s1.assignments.contains n = true := by
  rw [List.flatMap_eq_nil_iff]
  constructor
  · intro h n hn
    have := h n hn
    by_cases hc : s1.assignments.contains n = true
    · exact hc
    · rw [if_neg hc] at this
      repeat' split at this
      all_goals simp at this
  · intro h n hn
    rw [if_pos (h n hn)]

#print axioms unset_nil_iff
#print axioms step3Of_errors_nil_iff
